(* Proofs/C02_proofs.v — authorization codes: single use, bound to client and redirect_uri, expiring;
   OIDC replay revokes what was minted from the code. *)
From Coq Require Import Lia ZArith List Bool.
From Verif Require Import Lib.Base Lib.PyStr Model.Session Proofs.Session_proofs Proofs.Session_gone Proofs.C05a_proofs.
Import ListNotations.
Open Scope Z_scope.

Definition is_tokens (x : out) : bool := match x with OTokens _ _ _ _ => true | _ => false end.
(* does operation o, answered x in state s, exchange code c for tokens? *)
Definition is_redeem (c : nat) (s : st) (o : op) (x : out) : bool :=
  match o with
  | Process idx _ => match nth_error (parsed s) idx with
                     | Some (PCode _ c' _) => Nat.eqb c' c && is_tokens x
                     | _ => false
                     end
  | _ => false
  end.
Fixpoint redeems (c : nat) (cf : cfg) (s : st) (ops : list op) : nat :=
  match ops with
  | [] => O
  | o :: r => let '(s1, x) := step cf s o in
              ((if is_redeem c s o x then 1 else 0) + redeems c cf s1 r)%nat
  end.

(* the code as the authorization endpoint hands it out, and after an exchange *)
Definition fresh_code (c : nat) (s : st) : Prop :=
  exists t, tget c s = Some t /\ t_cls t = Code /\ t_max t = Some 1 /\ 0 <= t_used t.
Definition spent_code (c : nat) (s : st) : Prop :=
  exists t, tget c s = Some t /\ t_max t = Some 1 /\ 1 <= t_used t.

Lemma fresh_step cf c s o : fresh_code c s -> fresh_code c (fst (step cf s o)).
Proof.
  intros (t&H&Hc&Hm&Hu). destruct (step_ext cf s o c t H) as (t'&H'&L). exists t'. split; auto.
  destruct L as (_&L2&_&L4&_&_&_&L8&_). repeat split; try congruence. lia.
Qed.
Lemma spent_step cf c s o : spent_code c s -> spent_code c (fst (step cf s o)).
Proof.
  intros (t&H&Hm&Hu). destruct (step_ext cf s o c t H) as (t'&H'&L). exists t'. split; auto.
  destruct L as (_&_&_&L4&_&_&_&L8&_). split; try congruence. lia.
Qed.

(* what a redemption requires and leaves behind *)
Lemma redeem_facts cf c s o s1 x :
  step cf s o = (s1, x) -> is_redeem c s o x = true ->
  exists idx kw cl rd g t sc a r i,
    o = Process idx kw /\ nth_error (parsed s) idx = Some (PCode cl c (Some rd)) /\ x = OTokens a r i sc /\
    find_tok c s = Some (g, t) /\ str_eqb (g_client g) cl = true /\ str_eqb rd (g_redirect g) = true /\
    tok_active (now s) t = true /\ grant_active (now s) g = true /\ sc = g_scope g /\
    exists d, 1 <= d /\ bump1 c s s1 d.
Proof.
  unfold is_redeem. destruct o as [| | |idx kw| | | | | | | | | | |]; try discriminate.
  destruct (nth_error (parsed s) idx) as [[e|cl c' redir|cl tok sc0]|] eqn:Ep; try discriminate.
  intros Hs H. apply andb_true_iff in H as [Hc Hx]. apply Nat.eqb_eq in Hc. subst c'.
  destruct x as [| | | | |a r i sc| | | | |]; try discriminate.
  cbn [step] in Hs. unfold do_process in Hs. rewrite Ep in Hs.
  apply code_process_success in Hs as (g&t&rd&Hf&Hcl&Hr&Hrd&Hact&_&Hga&Hsc&_&Hb). subst redir.
  exists idx, kw, cl, rd, g, t, sc, a, r, i. repeat split; auto.
Qed.

Lemma tok_active_unused n t : tok_active n t = true -> t_max t = Some 1 -> t_used t < 1.
Proof.
  unfold tok_active, max_reached. intros H Hm. rewrite Hm in H.
  destruct (1 <=? t_used t) eqn:E; cbn in H; [discriminate|]. apply Z.leb_gt in E. lia.
Qed.

Lemma spent_no_redeem cf c s o s1 x : spent_code c s -> step cf s o = (s1, x) -> is_redeem c s o x = false.
Proof.
  intros (t&Ht&Hm&Hu) Hs. destruct (is_redeem c s o x) eqn:E; auto. exfalso.
  destruct (redeem_facts _ _ _ _ _ _ Hs E) as (idx&kw&cl&rd&g&t0&sc&a&r&i&_&_&_&Hf&_&_&Hact&_).
  apply find_tok_tget in Hf as (Ht0&_). rewrite Ht in Ht0. inversion Ht0; subst t0.
  pose proof (tok_active_unused _ _ Hact Hm). lia.
Qed.

Lemma spent_redeems cf c ops : forall s, spent_code c s -> redeems c cf s ops = O.
Proof.
  induction ops as [|o r IH]; intros s Hs; cbn [redeems]; auto.
  destruct (step cf s o) as [s1 x] eqn:E. rewrite (spent_no_redeem _ _ _ _ _ _ Hs E).
  rewrite IH; auto. pose proof (spent_step cf c s o Hs) as H. now rewrite E in H.
Qed.

Lemma fresh_redeems cf c ops : forall s, fresh_code c s -> (redeems c cf s ops <= 1)%nat.
Proof.
  induction ops as [|o r IH]; intros s Hs; cbn [redeems]; auto.
  destruct (step cf s o) as [s1 x] eqn:E. destruct (is_redeem c s o x) eqn:Er.
  - (* this step exchanges c: afterwards it is spent *)
    destruct (redeem_facts _ _ _ _ _ _ E Er) as (idx&kw&cl&rd&g&t0&sc&a&r0&i&_&_&_&Hf&_&_&Hact&_&_&d&Hd&Hb).
    destruct Hs as (t&Ht&Hc&Hm&Hu). apply find_tok_tget in Hf as (Ht0&_). rewrite Ht in Ht0. inversion Ht0; subst t0.
    destruct (Hb _ Ht) as (t'&Ht'&L). rewrite spent_redeems; [lia|].
    exists t'. split; auto. destruct L as (_&_&_&L4&_&_&_&L8&_). cbn in L4, L8. split; [congruence|lia].
  - cbn. apply IH. pose proof (fresh_step cf c s o Hs) as H. now rewrite E in H.
Qed.

(* the authorization endpoint hands out fresh codes *)
Lemma authorize_fresh cf s u cl sc s1 c scope :
  step cf s (Authorize u cl sc) = (s1, OAuthz c scope) -> fresh_code c s1.
Proof.
  cbn [step]. unfold do_authorize, do_authorize_at.
  match goal with |- context [mint ?a ?b ?c0 ?d ?e ?f ?g ?h] => destruct (mint a b c0 d e f g h) as [[s2 id]| |] eqn:Hm end;
    intros H; inversion H; subst; clear H.
  apply mint_new in Hm as (tn&Ht&_&Hc&_&Hu&_&Hm&_). exists tn. repeat split; auto. lia.
Qed.

(* ---- the redirect_uri a code is bound to ---- *)
(* the redirect_uri of the authorization request that the grant holding the code was made (or kept) for *)
Definition code_redirect (s : st) (c : nat) : option pystr :=
  match find_tok c s with Some (g, _) => Some (g_redirect g) | None => None end.

Lemma find_tok_of s k t g : tget k s = Some t -> nth_error (grants s) (t_grant t) = Some g -> find_tok k s = Some (g, t).
Proof. unfold tget, find_tok. intros -> ->. reflexivity. Qed.

(* no operation - a further authorization with or without session cookie, a redemption, a revocation, ... - changes it *)
Lemma code_redirect_step cf s o c r : code_redirect s c = Some r -> code_redirect (fst (step cf s o)) c = Some r.
Proof.
  unfold code_redirect. destruct (find_tok c s) as [[g t]|] eqn:Hf; [|discriminate]. intros H; inversion H; subst; clear H.
  apply find_tok_tget in Hf as (Ht&Hg).
  destruct (step_ext cf s o c t Ht) as (t'&Ht'&L). destruct (step_gextw cf s o _ g Hg) as (g'&Hg'&Lg).
  destruct L as (L1&_). destruct Lg as (_&_&_&G4&_).
  rewrite (find_tok_of _ _ t' g'); [now rewrite G4|exact Ht'|now rewrite L1].
Qed.
Lemma code_redirect_run cf ops : forall s c r, code_redirect s c = Some r -> code_redirect (fst (run cf s ops)) c = Some r.
Proof.
  induction ops as [|o rest IH]; intros s c r H; cbn [run]; auto.
  pose proof (code_redirect_step cf s o c r H) as H1. destruct (step cf s o) as [s1 x]. cbn [fst] in H1.
  specialize (IH s1 c r H1). destruct (run cf s1 rest) as [s2 xs]. exact IH.
Qed.

(* what the authorization endpoint hands out: a fresh code, bound to the redirect_uri of THIS request *)
Lemma authorize_at_code cf s u cl sc rd v s1 c scope :
  do_authorize_at cf s u cl sc rd v = (s1, OAuthz c scope) -> fresh_code c s1 /\ code_redirect s1 c = Some rd.
Proof.
  unfold do_authorize_at.
  match goal with |- context [mint ?a ?b ?c0 ?d ?e ?f ?g ?h] => destruct (mint a b c0 d e f g h) as [[s2 id]| |] eqn:Hm end;
    intros H; inversion H; subst; clear H.
  pose proof Hm as Hm'. apply mint_ok in Hm' as (_&_&Hgr&_).
  apply mint_new in Hm as (tn&Ht&Hg&Hc&_&Hu&_&Hm&_). split.
  - exists tn. repeat split; auto. lia.
  - unfold code_redirect.
    erewrite find_tok_of; [|exact Ht|rewrite Hgr, Hg; cbn [grants]; rewrite nth_error_app2 by lia; rewrite Nat.sub_diag; reflexivity].
    reflexivity.
Qed.
Lemma authorize_cookie_code cf s prev u cl sc rd fresh s1 c scope :
  do_authorize_cookie cf s prev u cl sc rd fresh = (s1, OAuthz c scope) -> fresh_code c s1 /\ code_redirect s1 c = Some rd.
Proof.
  unfold do_authorize_cookie. destruct (nth_error (grants s) prev) as [g|] eqn:Eg; [|apply authorize_at_code].
  destruct (g_removed g || negb (str_eqb (g_client g) cl)); [apply authorize_at_code|].
  destruct (negb (grant_active (now s) g)); [discriminate|].
  destruct (negb (now s <? g_valid_until g)); [discriminate|].
  destruct (same_request g sc rd fresh) eqn:Es; [|apply authorize_at_code].
  match goal with |- context [mint ?a ?b ?c0 ?d ?e ?f ?g ?h] => destruct (mint a b c0 d e f g h) as [[s2 id]| |] eqn:Hm end;
    intros H; inversion H; subst; clear H.
  pose proof Hm as Hm'. apply mint_ok in Hm' as (_&_&Hgr&_).
  apply mint_new in Hm as (tn&Ht&Hg&Hc&_&Hu&_&Hm&_). split.
  - exists tn. repeat split; auto. lia.
  - apply same_request_eq in Es as [_ Hrd]. unfold code_redirect.
    rewrite (find_tok_of _ _ tn (regrant cf (now s) sc g) Ht); [cbn; now rewrite Hrd|].
    rewrite Hgr, Hg. unfold upd_grant; cbn [grants]. now rewrite nth_upd_same, Eg.
Qed.
(* an authorization response that carries a code: from a request without or with session cookie *)
Definition issues (o : op) (rd : pystr) : Prop :=
  (exists u cl sc, o = Authorize u cl sc /\ rd = redirect_of cl) \/
  (exists prev u cl sc fresh, o = AuthorizeCookie prev u cl sc rd fresh).
Lemma issue_code cf s o rd s1 c scope :
  issues o rd -> step cf s o = (s1, OAuthz c scope) -> fresh_code c s1 /\ code_redirect s1 c = Some rd.
Proof.
  intros [(u&cl&sc&->&->)|(prev&u&cl&sc&fresh&->)]; cbn [step].
  - apply authorize_at_code.
  - apply authorize_cookie_code.
Qed.

(* ---- the property ---- *)

(* Single use: whatever happens before the code is issued and whatever sequence of operations follows — any
   interleaving of the parse and process steps of any number of token requests, by any clients, with ticks,
   revocations, refreshes in between — the code is exchanged for tokens at most once. *)
Theorem single_use cf pre u cl sc s1 c scope post :
  step cf (fst (run cf init pre)) (Authorize u cl sc) = (s1, OAuthz c scope) ->
  (redeems c cf s1 post <= 1)%nat.
Proof. intros H. apply fresh_redeems. eapply authorize_fresh; eauto. Qed.

(* ... the same for a code handed out on a request that came with a session cookie (whether the provider kept the
   earlier grant or made a new one) *)
Theorem single_use_issued cf pre o rd s1 c scope post :
  issues o rd -> step cf (fst (run cf init pre)) o = (s1, OAuthz c scope) -> (redeems c cf s1 post <= 1)%nat.
Proof. intros Hi H. apply fresh_redeems. eapply issue_code; eauto. Qed.

(* REDIRECT BINDING IS FIXED AT ISSUE: the code of an authorization response is redeemable with the redirect_uri of the
   request that produced it and with no other, whatever happens in between - in particular further authorization
   requests of the same browser session (same or other registered redirect_uri, same or other scope, cookie or not) *)
Theorem redirect_bound_at_issue cf pre o rd s1 c scope post o' s3 x :
  issues o rd -> step cf (fst (run cf init pre)) o = (s1, OAuthz c scope) ->
  step cf (fst (run cf s1 post)) o' = (s3, x) -> is_redeem c (fst (run cf s1 post)) o' x = true ->
  exists idx kw cl, o' = Process idx kw /\ nth_error (parsed (fst (run cf s1 post))) idx = Some (PCode cl c (Some rd)).
Proof.
  intros Hi H Hs Hr. destruct (issue_code _ _ _ _ _ _ _ Hi H) as (_&Hc).
  pose proof (code_redirect_run cf post s1 c rd Hc) as Hc2.
  destruct (redeem_facts _ _ _ _ _ _ Hs Hr) as (idx&kw&cl&rd'&g&t&sc&a&r&i&Ho&Hp&_&Hf&_&Hrd&_).
  exists idx, kw, cl. split; auto. unfold code_redirect in Hc2. rewrite Hf in Hc2. inversion Hc2; subst rd.
  apply str_eqb_eq in Hrd. now subst rd'.
Qed.

(* Bound: an exchange that yields tokens was made by the client the code was issued to, with the
   redirect_uri of the authorization request, while the code was unexpired, unrevoked and unused
   and its grant alive. *)
Theorem redeem_bound cf c s o s1 x :
  step cf s o = (s1, x) -> is_redeem c s o x = true ->
  exists idx kw cl rd g t,
    o = Process idx kw /\ nth_error (parsed s) idx = Some (PCode cl c (Some rd)) /\
    find_tok c s = Some (g, t) /\
    cl = g_client g /\ rd = g_redirect g /\
    t_revoked t = false /\ (t_exp t = 0 \/ now s <= t_exp t) /\ max_reached t = false /\
    g_revoked g = false.
Proof.
  intros Hs Hr. destruct (redeem_facts _ _ _ _ _ _ Hs Hr) as (idx&kw&cl&rd&g&t&sc&a&r&i&Ho&Hp&_&Hf&Hcl&Hrd&Hact&Hga&_).
  exists idx, kw, cl, rd, g, t. apply str_eqb_eq in Hcl, Hrd.
  unfold tok_active in Hact. apply andb_true_iff in Hact as [Hact He]. apply andb_true_iff in Hact as [Hmx Hrv].
  apply negb_true_iff in Hmx, Hrv. unfold grant_active in Hga. apply andb_true_iff in Hga as [Hgr _]. apply negb_true_iff in Hgr.
  repeat split; auto.
  apply orb_true_iff in He as [He|He]; [left; now apply Z.eqb_eq|right; now apply Z.leb_le].
Qed.

(* what resolves as a code is a code-class token of a session that is still in the database *)
Lemma resolve_as_code cf r s id g t :
  resolve_as cf Code r s = RTok id g t -> r = TRef id /\ find_tok id s = Some (g, t) /\ t_cls t = Code /\ g_removed g = false.
Proof.
  unfold resolve_as. destruct r as [id0|]; [|discriminate].
  destruct (find_tok id0 s) as [[g0 t0]|] eqn:Ef; [|discriminate].
  destruct (t_cls t0) eqn:Ec; cbn [tcls_eqb]; try (destruct (c_shared_key cf); discriminate).
  destruct (g_removed g0) eqn:Er; [discriminate|]. intros H; inversion H; subst. auto.
Qed.

(* The parse step only queues a request for a string that resolves to a code-class token that is active and still in
   the issued_token list of its grant *)
Lemma parsed_code_is_code cf s cl r redir s1 x c cl' rd :
  step cf s (TokenParse cl r redir) = (s1, x) ->
  In (PCode cl' c rd) (parsed s1) -> ~ In (PCode cl' c rd) (parsed s) ->
  exists g t, find_tok c s = Some (g, t) /\ t_cls t = Code /\ tok_active (now s) t = true /\ t_gone t = false.
Proof.
  cbn [step]. unfold do_token_parse.
  assert (Hpush : forall s0 e, parsed s0 = parsed s -> In (PCode cl' c rd) (parsed (push_parsed s0 (PErr e))) ->
                               ~ In (PCode cl' c rd) (parsed s) -> False).
  { intros s0 e E Hi Hn. cbn in Hi. rewrite E in Hi. apply in_app_or in Hi as [Hi|[Hi|[]]]; [contradiction|discriminate]. }
  destruct (resolve_as cf Code r s) as [id g t| | | |] eqn:Er;
    try solve [intros HH; inversion HH; subst; intros Hi Hn; first [contradiction | exfalso; eapply Hpush; eauto]].
  apply resolve_as_code in Er as (_&Hf&Hc&_).
  destruct (t_gone t) eqn:Eg; [intros HH; inversion HH; subst; intros Hi Hn; exfalso; eapply Hpush; eauto|].
  destruct (c_oidc cf && negb (t_used t =? 0)).
  - intros HH; inversion HH; subst; intros Hi Hn; exfalso; eapply (Hpush (cascade cf (t_grant t) id s)); eauto. apply parsed_cascade.
  - destruct (tok_active (now s) t) eqn:Ea; cbn [negb].
    + intros HH; inversion HH; subst; cbn. intros Hi Hn. apply in_app_or in Hi as [Hi|[Hi|[]]]; [contradiction|].
      inversion Hi; subst. eauto 6.
    + intros HH; inversion HH; subst; intros Hi Hn; exfalso; eapply Hpush; eauto.
Qed.

(* OIDC: presenting a used code that its grant still lists is refused and revokes every token minted from it that
   the grant still lists - under EITHER value of remove_inactive_token (off: the cascade of Grant.revoke_token; on: its
   depth-first walk, whose top level visits every listed token once) *)
Theorem oidc_replay_revokes cf s cl id redir s1 x g t :
  c_oidc cf = true ->
  find_tok id s = Some (g, t) -> g_removed g = false -> t_cls t = Code -> t_used t <> 0 -> t_gone t = false ->
  step cf s (TokenParse cl (TRef id) redir) = (s1, x) ->
  x = OErr EInvalidGrant /\
  forall k tk, tget k s = Some tk -> t_grant tk = t_grant t -> t_based tk = Some id -> t_gone tk = false ->
               exists tk', tget k s1 = Some tk' /\ t_revoked tk' = true.
Proof.
  intros Ho Hf Hrm Hc Hu Hgn. cbn [step]. unfold do_token_parse, resolve_as. rewrite Hf, Hc. cbn [tcls_eqb]. rewrite Hrm, Hgn, Ho.
  assert ((t_used t =? 0) = false) as -> by (now apply Z.eqb_neq). cbn [negb andb].
  intros H; inversion H; subst; clear H. split; auto.
  intros k tk Hk Hg Hb Hn. unfold tget, push_parsed, cascade in *. destruct (c_remove_inactive cf); cbn [toks].
  - unfold walk_derived; cbn [toks]. now apply walk_children with (tk := tk).
  - unfold revoke_derived, map_toks; cbn.
    rewrite nth_error_map, Hk; cbn. rewrite Hg, Nat.eqb_refl. cbn [andb derived_from]. rewrite Hb, Nat.eqb_refl. cbn.
    eexists; split; eauto.
Qed.

(* In every state a history reaches, under EITHER value of remove_inactive_token: if the grant still lists the used code,
   EVERY token minted from it is revoked after the second presentation - those the grant still lists by the cascade /
   the walk, those it no longer lists because only revoked tokens ever leave a list (reach_gone_revoked). *)
Theorem oidc_replay_revokes_reachable cf ops cl id redir s1 x g t :
  c_oidc cf = true ->
  find_tok id (fst (run cf init ops)) = Some (g, t) -> g_removed g = false -> t_cls t = Code -> t_used t <> 0 -> t_gone t = false ->
  step cf (fst (run cf init ops)) (TokenParse cl (TRef id) redir) = (s1, x) ->
  x = OErr EInvalidGrant /\
  forall k tk, tget k (fst (run cf init ops)) = Some tk -> t_grant tk = t_grant t -> t_based tk = Some id ->
               exists tk', tget k s1 = Some tk' /\ t_revoked tk' = true.
Proof.
  intros Ho Hf Hrm Hc Hu Hgn Hs.
  destruct (oidc_replay_revokes _ _ _ _ _ _ _ _ _ Ho Hf Hrm Hc Hu Hgn Hs) as (Hx&Hall). split; auto.
  intros k tk Hk Hg Hb. destruct (t_gone tk) eqn:Eg; [|now apply (Hall k tk)].
  pose proof (reach_gone_revoked _ _ _ _ Hk Eg) as Hr.
  pose proof (step_ext cf (fst (run cf init ops)) (TokenParse cl (TRef id) redir) k tk Hk) as (tk'&Hk'&L).
  rewrite Hs in Hk'. cbn [fst] in Hk'. exists tk'. split; auto. now apply L.
Qed.
(* With the default configuration (remove_inactive_token off) no token ever leaves a list: no side condition. *)
Theorem oidc_replay_revokes_default cf ops cl id redir s1 x g t :
  c_remove_inactive cf = false -> c_oidc cf = true ->
  find_tok id (fst (run cf init ops)) = Some (g, t) -> g_removed g = false -> t_cls t = Code -> t_used t <> 0 ->
  step cf (fst (run cf init ops)) (TokenParse cl (TRef id) redir) = (s1, x) ->
  x = OErr EInvalidGrant /\
  forall k tk, tget k (fst (run cf init ops)) = Some tk -> t_grant tk = t_grant t -> t_based tk = Some id ->
               exists tk', tget k s1 = Some tk' /\ t_revoked tk' = true.
Proof.
  intros Hd Ho Hf Hrm Hc Hu Hs. eapply oidc_replay_revokes_reachable; eauto.
  apply find_tok_tget in Hf as (Ht&_). eapply reach_default_listed; eauto.
Qed.

(* Default configuration: the cascade is transitive - every token whose based_on chain leads to the code (Grant.revoke_token's
   recursion, `derived_from`) is revoked, in any state in which the grant lists the code ... *)
Theorem oidc_replay_revokes_descendants cf s cl id redir s1 x g t :
  c_remove_inactive cf = false -> c_oidc cf = true ->
  find_tok id s = Some (g, t) -> g_removed g = false -> t_cls t = Code -> t_used t <> 0 -> t_gone t = false ->
  step cf s (TokenParse cl (TRef id) redir) = (s1, x) ->
  forall k tk, tget k s = Some tk -> t_grant tk = t_grant t -> derived_from (S (length (toks s))) (toks s) tk id = true ->
               exists tk', tget k s1 = Some tk' /\ t_revoked tk' = true.
Proof.
  intros Hd Ho Hf Hrm Hc Hu Hgn. cbn [step]. unfold do_token_parse, resolve_as. rewrite Hf, Hc. cbn [tcls_eqb]. rewrite Hrm, Hgn, Ho.
  assert ((t_used t =? 0) = false) as -> by (now apply Z.eqb_neq). cbn [negb andb].
  intros H; inversion H; subst; clear H.
  intros k tk Hk Hg Hb. unfold tget, push_parsed, cascade in *. rewrite Hd. cbn [toks].
  unfold revoke_derived, map_toks; cbn -[derived_from].
  rewrite nth_error_map, Hk; cbn -[derived_from]. rewrite Hg, Nat.eqb_refl. cbn [andb]. rewrite Hb. eexists; split; eauto.
Qed.
(* ... hence in every state a history reaches under the default configuration, without side condition *)
Theorem oidc_replay_revokes_descendants_default cf ops cl id redir s1 x g t :
  c_remove_inactive cf = false -> c_oidc cf = true ->
  find_tok id (fst (run cf init ops)) = Some (g, t) -> g_removed g = false -> t_cls t = Code -> t_used t <> 0 ->
  step cf (fst (run cf init ops)) (TokenParse cl (TRef id) redir) = (s1, x) ->
  forall k tk, tget k (fst (run cf init ops)) = Some tk -> t_grant tk = t_grant t ->
               derived_from (S (length (toks (fst (run cf init ops))))) (toks (fst (run cf init ops))) tk id = true ->
               exists tk', tget k s1 = Some tk' /\ t_revoked tk' = true.
Proof.
  intros Hd Ho Hf Hrm Hc Hu Hs. eapply oidc_replay_revokes_descendants; eauto.
  apply find_tok_tget in Hf as (Ht&_). eapply reach_default_listed; eauto.
Qed.

(* single use, spelled out for either value of remove_inactive_token *)
Theorem single_use_either_flag (b : bool) cf pre o rd s1 c scope post :
  c_remove_inactive cf = b ->
  issues o rd -> step cf (fst (run cf init pre)) o = (s1, OAuthz c scope) -> (redeems c cf s1 post <= 1)%nat.
Proof. intros _. apply single_use_issued. Qed.
(* in every state any history reaches: only revoked tokens have left a list, and only under the flag *)
Theorem gone_only_revoked cf ops k t :
  tget k (fst (run cf init ops)) = Some t -> t_gone t = true -> c_remove_inactive cf = true /\ t_revoked t = true.
Proof.
  intros H Hg. pose proof (reach_gone_ok cf ops) as F. rewrite Forall_forall in F. exact (F t (nth_error_In _ _ H) Hg).
Qed.

(* An exchange that yields tokens was made for a code its grant still lists (either value of the flag): a code that
   left the list - whatever took it off - is never exchanged. *)
Theorem redeem_listed cf c s o s1 x :
  step cf s o = (s1, x) -> is_redeem c s o x = true -> exists g t, find_tok c s = Some (g, t) /\ t_gone t = false.
Proof.
  unfold is_redeem. destruct o as [| | |idx kw| | | | | | | | | | |]; try discriminate.
  destruct (nth_error (parsed s) idx) as [[e|cl c' redir|cl tok sc0]|] eqn:Ep; try discriminate.
  intros Hs H. apply andb_true_iff in H as [Hc Hx]. apply Nat.eqb_eq in Hc. subst c'.
  destruct x as [| | | | |a r i sc| | | | |]; try discriminate.
  cbn [step] in Hs. unfold do_process in Hs. rewrite Ep in Hs. eapply code_process_success_listed; eauto.
Qed.

(* ... and what an exchange mints is derived from the code (based_on = the code) — see mint_new. *)

(* ---- non-vacuity: a concrete history in which the first exchange succeeds, and the replay, the
   cross-client attempt and the altered redirect_uri fail ---- *)
