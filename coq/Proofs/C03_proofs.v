(* Proofs/C03_proofs.v — expiry and revocation are final, cascade, and are isolated. *)
From Coq Require Import Lia ZArith List Bool.
From Verif Require Import Lib.Base Lib.PyStr Model.Session Proofs.Session_proofs Proofs.Session_gone Proofs.C05a_proofs.
Import ListNotations.
Open Scope Z_scope.

(* a token that no endpoint may honour: exactly the negation of Item.is_active *)
Definition dead (n : Z) (t : token) : Prop := tok_active n t = false.

Lemma dead_cases n t : dead n t <-> (t_revoked t = true \/ max_reached t = true \/ (t_exp t <> 0 /\ t_exp t < n)).
Proof.
  unfold dead, tok_active. split.
  - intros H. destruct (t_revoked t); [auto|]. destruct (max_reached t); [auto|]. right; right. cbn in H.
    apply orb_false_iff in H as [H1 H2]. apply Z.eqb_neq in H1. apply Z.leb_gt in H2. auto.
  - intros [H|[H|[H1 H2]]].
    + rewrite H. cbn. now rewrite andb_false_r.
    + rewrite H. reflexivity.
    + assert ((t_exp t =? 0) = false) as -> by now apply Z.eqb_neq.
      assert ((n <=? t_exp t) = false) as -> by (apply Z.leb_gt; lia). cbn. now rewrite !andb_false_r.
Qed.

(* death is preserved by moving the token forward and the clock onward *)
Lemma dead_le n n' t t' : dead n t -> tok_le t t' -> n <= n' -> dead n' t'.
Proof.
  intros D (L1&L2&L3&L4&L5&L6&L7&L8&L9) Hn. apply dead_cases in D. apply dead_cases.
  destruct D as [D|[D|[D1 D2]]].
  - left; auto.
  - right; left. unfold max_reached in *. rewrite L4. destruct (t_max t); [|discriminate].
    apply Z.leb_le in D. apply Z.leb_le. lia.
  - right; right. rewrite L6. split; auto. lia.
Qed.

(* ---- the clock only moves forward ---- *)
Ltac now_chain :=
  repeat match goal with
         | H : mint ?y _ _ _ _ _ _ _ = Ok (?x, _) |- _ =>
             let Hn := fresh "Hn" in pose proof H as Hn; apply mint_ok in Hn as (_&Hn&_); revert H
         end; intros; cbn [now upd_tok upd_grant fst] in *; try congruence; try lia.

Lemma code_process_now c s cl code redir kw : now (fst (do_code_process c s cl code redir kw)) = now s.
Proof. unfold do_code_process. cbv zeta. repeat dm; subst; now_chain. Qed.
Lemma refresh_process_now c s cl tok rsc kw : now (fst (do_refresh_process c s cl tok rsc kw)) = now s.
Proof. unfold do_refresh_process. cbv zeta. repeat dm; subst; now_chain. Qed.

Lemma step_now c s o : now s <= now (fst (step c s o)).
Proof.
  destruct o; cbn [step].
  - unfold do_authorize, do_authorize_at. repeat dm; subst; now_chain.
  - unfold do_token_parse. repeat dm; cbn [fst push_parsed now]; rewrite ?now_cascade; lia.
  - unfold do_refresh_parse. repeat dm; cbn; lia.
  - unfold do_process. repeat dm; cbn [fst]; try lia.
    + rewrite code_process_now. lia.
    + rewrite refresh_process_now. lia.
  - unfold do_userinfo. repeat dm; cbn; lia.
  - unfold do_introspect. repeat dm; cbn; lia.
  - unfold do_revoke_ep. repeat dm; cbn; lia.
  - unfold do_api_revoke_c, do_api_revoke. repeat dm; cbn [fst]; unfold sweep; rewrite ?now_sweep_p; cbn; lia.
  - repeat dm; cbn [fst]; unfold sweep; rewrite ?now_sweep_p; cbn; lia.
  - repeat dm; cbn [fst]; unfold sweep; rewrite ?now_sweep_p; cbn; lia.
  - repeat dm; cbn; lia.
  - repeat dm; cbn [fst]; unfold sweep; rewrite ?now_sweep_p; cbn; lia.
  - cbn. lia.
  - unfold do_authorize_cookie, do_authorize_at. repeat dm; subst; now_chain.
  - (* AuthorizeRT *) unfold do_authorize_rt, mint_if. cbv zeta. repeat dm; subst; now_chain.
Qed.

(* FINAL: once dead, dead after every further operation *)
Theorem dead_step c s o k t :
  tget k s = Some t -> dead (now s) t ->
  exists t', tget k (fst (step c s o)) = Some t' /\ dead (now (fst (step c s o))) t'.
Proof.
  intros H D. destruct (step_ext c s o k t H) as (t'&H'&L). exists t'. split; auto.
  eapply dead_le; eauto. apply step_now.
Qed.
Theorem dead_forever c ops : forall s k t,
  tget k s = Some t -> dead (now s) t ->
  exists t', tget k (fst (run c s ops)) = Some t' /\ dead (now (fst (run c s ops))) t'.
Proof.
  induction ops as [|o r IH]; intros s k t H D; cbn [run]; [eauto|].
  destruct (dead_step c s o k t H D) as (t1&H1&D1).
  destruct (step c s o) as [s1 x] eqn:E. cbn [fst] in *.
  destruct (IH s1 k t1 H1 D1) as (t2&H2&D2). destruct (run c s1 r) as [s2 xs]. cbn [fst] in *. eauto.
Qed.

(* REFUSED EVERYWHERE *)
Lemma userinfo_dead c s id g t : find_tok id s = Some (g, t) -> dead (now s) t -> snd (do_userinfo c s (TRef id)) <> OUserinfo.
Proof.
  intros Hf D. unfold do_userinfo, resolve_as. rewrite Hf. unfold dead in D.
  destruct (t_cls t); cbn [tcls_eqb]; try (destruct (c_shared_key c); cbn; discriminate); try (cbn; discriminate).
  destruct (g_removed g); [cbn; discriminate|]. destruct (t_gone t); [cbn; discriminate|]. rewrite D. cbn. discriminate.
Qed.
Lemma introspect_dead c s cl id g t : find_tok id s = Some (g, t) -> dead (now s) t ->
  forall sc cl' k, snd (do_introspect c s cl (TRef id)) <> OActive sc cl' k.
Proof.
  intros Hf D sc cl' k. unfold do_introspect, resolve_any. rewrite Hf. unfold dead in D.
  destruct (t_cls t); repeat dm; cbn; try discriminate; congruence.
Qed.
Lemma refresh_parse_dead c s cl id g t sc : find_tok id s = Some (g, t) -> dead (now s) t ->
  snd (do_refresh_parse c s cl (TRef id) sc) <> OOk.
Proof.
  intros Hf D. unfold do_refresh_parse, resolve_as. rewrite Hf. unfold dead in D.
  destruct (t_cls t); cbn [tcls_eqb]; try (destruct (c_shared_key c); cbn; discriminate); try (cbn; discriminate).
  destruct (g_removed g); [cbn; discriminate|]. destruct (t_gone t); [cbn; discriminate|]. rewrite D. cbn. discriminate.
Qed.
Lemma token_parse_dead c s cl id g t rd : find_tok id s = Some (g, t) -> dead (now s) t ->
  snd (do_token_parse c s cl (TRef id) rd) <> OOk.
Proof.
  intros Hf D. unfold do_token_parse, resolve_as. rewrite Hf. unfold dead in D.
  destruct (t_cls t); cbn [tcls_eqb]; try (destruct (c_shared_key c); cbn; discriminate); try (cbn; discriminate).
  destruct (g_removed g); [cbn; discriminate|]. destruct (t_gone t); [cbn; discriminate|].
  destruct (c_oidc c && negb (t_used t =? 0)); [cbn; discriminate|]. rewrite D. cbn. destruct (c_oidc c); discriminate.
Qed.

(* a refresh that yields tokens was made with a live refresh token (so a dead one mints nothing) *)
Lemma refresh_process_success c s cl tok rsc kw s' a r i sc :
  do_refresh_process c s cl tok rsc kw = (s', OTokens a r i sc) ->
  exists g t, find_tok tok s = Some (g, t) /\ str_eqb (g_client g) cl = true /\
              tok_active (now s) t = true /\ grant_active (now s) g = true.
Proof.
  unfold do_refresh_process. cbv zeta.
  repeat dm; subst; intros H; inversion H; subst; clear H;
    match goal with
    | Hm : mint ?s (t_grant ?t) Access (Some ?tok) _ _ _ _ = Ok _, Hf : find_tok ?tok ?s = Some (?g, ?t) |- _ =>
        pose proof Hm as Hm'; apply mint_ok in Hm' as (_&_&_&_&_&(g0&Hg0&Hga)&Hb);
        destruct (Hb _ eq_refl) as (bt&Hbt&Hsup&Hact);
        apply find_in_tget in Hbt as (Hbt&_);
        pose proof (find_tok_tget _ _ _ _ Hf) as (Ht&Hg);
        unfold tget in Ht; rewrite Ht in Hbt; inversion Hbt; subst bt;
        rewrite Hg in Hg0; inversion Hg0; subst g0
    end;
    (do 2 eexists; repeat split; eauto; apply negb_false_iff; assumption).
Qed.
Theorem process_dead_mints_nothing c s idx kw cl id redir g t :
  (nth_error (parsed s) idx = Some (PCode cl id redir) \/ exists sc, nth_error (parsed s) idx = Some (PRefresh cl id sc)) ->
  find_tok id s = Some (g, t) -> dead (now s) t ->
  forall a r i sc, snd (do_process c s idx kw) <> OTokens a r i sc.
Proof.
  intros Hp Hf D a r i sc Hx. unfold do_process in Hx. destruct Hp as [Hp|[sc0 Hp]]; rewrite Hp in Hx.
  - destruct (do_code_process c s cl id redir kw) as [s' x] eqn:E. cbn in Hx. subst x.
    apply code_process_success in E as (g'&t'&rd&Hf'&_&_&_&Hact&_). rewrite Hf in Hf'. inversion Hf'; subst. unfold dead in D. congruence.
  - destruct (do_refresh_process c s cl id sc0 kw) as [s' x] eqn:E. cbn in Hx. subst x.
    apply refresh_process_success in E as (g'&t'&Hf'&_&Hact&_). rewrite Hf in Hf'. inversion Hf'; subst. unfold dead in D. congruence.
Qed.

(* CASCADE *)
Theorem revoke_grant_cascade s gi g k t :
  nth_error (grants s) gi = Some g -> tget k s = Some t -> t_grant t = gi ->
  exists t', tget k (revoke_grant_at gi s) = Some t' /\ t_revoked t' = true.
Proof.
  intros _ H Hg. unfold tget, revoke_grant_at, map_toks, upd_grant in *; cbn. rewrite nth_error_map, H; cbn.
  rewrite Hg, Nat.eqb_refl. eauto.
Qed.
Theorem revoke_client_cascade s g k t h :
  tget k s = Some t -> nth_error (grants s) (t_grant t) = Some h -> live_branch g h = true ->
  exists t', tget k (revoke_branch g s) = Some t' /\ t_revoked t' = true.
Proof.
  intros H Hh Hb. unfold tget, revoke_branch, in_branch in *; cbn. rewrite nth_error_map, H; cbn. rewrite Hh, Hb. eauto.
Qed.
(* recursive token revocation: the token and everything minted from it, transitively *)
Theorem api_revoke_recursive s id g t k tk :
  find_tok id s = Some (g, t) -> g_removed g = false -> tget k s = Some tk -> t_grant tk = t_grant t ->
  (k = id \/ derived_from (S (length (toks s))) (upd_nth id revoke_t (toks s)) tk id = true) ->
  exists tk', tget k (fst (do_api_revoke s id true)) = Some tk' /\ t_revoked tk' = true.
Proof.
  intros Hf Hrm Hk Hg Hd. unfold do_api_revoke. rewrite Hf, Hrm. cbn [fst]. unfold revoke_derived, map_toks, tget in *; cbn -[derived_from].
  rewrite nth_error_map. destruct Hd as [->|Hd].
  - rewrite nth_upd_same, Hk. cbn -[derived_from]. destruct (_ && _); cbn; eauto.
  - destruct (Nat.eq_dec id k) as [->|N].
    + rewrite nth_upd_same, Hk. cbn -[derived_from]. destruct (_ && _); cbn; eauto.
    + rewrite nth_upd_other, Hk by auto. cbn -[derived_from]. rewrite Hg, Nat.eqb_refl, len_upd. cbn [andb]. rewrite Hd. eauto.
Qed.

(* ISOLATION: revoking a grant / client session / token never changes a token of another grant, client or user *)
Theorem revoke_grant_isolation s gi k t : tget k s = Some t -> t_grant t <> gi -> tget k (revoke_grant_at gi s) = Some t.
Proof.
  intros H N. unfold tget, revoke_grant_at, map_toks, upd_grant in *; cbn. rewrite nth_error_map, H; cbn.
  apply Nat.eqb_neq in N. now rewrite N.
Qed.
Theorem revoke_client_isolation s g k t :
  tget k s = Some t -> in_branch g s (t_grant t) = false -> tget k (revoke_branch g s) = Some t.
Proof. intros H N. unfold tget, revoke_branch in *; cbn. rewrite nth_error_map, H; cbn. now rewrite N. Qed.
Theorem api_revoke_isolation s id rec g t k tk :
  find_tok id s = Some (g, t) -> tget k s = Some tk -> t_grant tk <> t_grant t ->
  tget k (fst (do_api_revoke s id rec)) = Some tk.
Proof.
  intros Hf Hk N. unfold do_api_revoke. rewrite Hf. destruct (g_removed g); [exact Hk|]. cbn [fst].
  assert (k <> id) as Nk. { intros ->. apply find_tok_tget in Hf as (Ht&_). rewrite Hk in Ht. inversion Ht; subst. now apply N. }
  destruct rec; unfold revoke_derived, map_toks, upd_tok, tget in *; cbn.
  - rewrite nth_error_map, nth_upd_other, Hk by auto. cbn. apply Nat.eqb_neq in N. now rewrite N.
  - now rewrite nth_upd_other by auto.
Qed.
Theorem revoke_ep_isolation c s cl id k tk : k <> id -> tget k s = Some tk -> tget k (fst (do_revoke_ep c s cl (TRef id))) = Some tk.
Proof.
  intros N Hk. unfold do_revoke_ep, resolve_any. repeat dm; cbn [fst]; auto.
  all: try (unfold upd_tok, tget in *; cbn; rewrite nth_upd_other; auto;
            match goal with H : (if _ then _ else _) = RTok ?i _ _ |- _ => idtac end).
  all: repeat match goal with
              | H : (if ?b then _ else _) = RTok _ _ _ |- _ => destruct b; try discriminate
              | H : RTok _ _ _ = RTok _ _ _ |- _ => inversion H; subst; clear H
              end; congruence.
Qed.

(* ================================================================== remove-session and the user session *)
(* A grant taken out of the database (SessionManager.remove_session) stays out; its fields never change again. *)
(* gextw_refl, gextw_trans, run_gext: Proofs/C05a_proofs.v *)
Theorem removed_forever c ops s gi g :
  nth_error (grants s) gi = Some g -> g_removed g = true ->
  exists g', nth_error (grants (fst (run c s ops))) gi = Some g' /\ g_removed g' = true /\
             g_user g' = g_user g /\ g_client g' = g_client g.
Proof.
  intros H R. destruct (run_gext c ops s gi g H) as (g'&H'&(L1&L2&_&_&_&L8)). exists g'. repeat split; auto.
Qed.

(* what "no endpoint honours token k" means in state s: no user info, never reported active, refused by both parse
   steps of the token endpoint, and no pending request made with it mints anything *)
Definition never_honoured (c : cfg) (s : st) (k : nat) : Prop :=
  snd (do_userinfo c s (TRef k)) <> OUserinfo /\
  (forall cl sc cl' cls, snd (do_introspect c s cl (TRef k)) <> OActive sc cl' cls) /\
  (forall cl sc, snd (do_refresh_parse c s cl (TRef k) sc) <> OOk) /\
  (forall cl rd, snd (do_token_parse c s cl (TRef k) rd) <> OOk) /\
  (forall idx kw cl redir,
     (nth_error (parsed s) idx = Some (PCode cl k redir) \/ exists sc, nth_error (parsed s) idx = Some (PRefresh cl k sc)) ->
     forall a r i sc, snd (do_process c s idx kw) <> OTokens a r i sc).

Lemma never_honoured_unfold c s k :
  never_honoured c s k <->
  (snd (do_userinfo c s (TRef k)) <> OUserinfo /\
   (forall cl sc cl' cls, snd (do_introspect c s cl (TRef k)) <> OActive sc cl' cls) /\
   (forall cl sc, snd (do_refresh_parse c s cl (TRef k) sc) <> OOk) /\
   (forall cl rd, snd (do_token_parse c s cl (TRef k) rd) <> OOk) /\
   (forall idx kw cl redir,
      (nth_error (parsed s) idx = Some (PCode cl k redir) \/ exists sc, nth_error (parsed s) idx = Some (PRefresh cl k sc)) ->
      forall a r i sc, snd (do_process c s idx kw) <> OTokens a r i sc)).
Proof. unfold never_honoured. apply iff_refl. Qed.

(* a token whose grant was removed is refused everywhere, whatever its own flags say *)
Lemma userinfo_removed c s id g t : find_tok id s = Some (g, t) -> g_removed g = true -> snd (do_userinfo c s (TRef id)) <> OUserinfo.
Proof.
  intros Hf R. unfold do_userinfo, resolve_as. rewrite Hf, R.
  destruct (t_cls t); cbn [tcls_eqb]; try (destruct (c_shared_key c); cbn; discriminate); cbn; discriminate.
Qed.
Lemma introspect_removed c s cl id g t : find_tok id s = Some (g, t) -> g_removed g = true ->
  forall sc cl' k, snd (do_introspect c s cl (TRef id)) <> OActive sc cl' k.
Proof.
  intros Hf R sc cl' k. unfold do_introspect, resolve_any. rewrite Hf, R.
  destruct (t_cls t); repeat dm; cbn; discriminate.
Qed.
Lemma refresh_parse_removed c s cl id g t sc : find_tok id s = Some (g, t) -> g_removed g = true ->
  snd (do_refresh_parse c s cl (TRef id) sc) <> OOk.
Proof.
  intros Hf R. unfold do_refresh_parse, resolve_as. rewrite Hf, R.
  destruct (t_cls t); cbn [tcls_eqb]; try (destruct (c_shared_key c); cbn; discriminate); cbn; discriminate.
Qed.
Lemma token_parse_removed c s cl id g t rd : find_tok id s = Some (g, t) -> g_removed g = true ->
  snd (do_token_parse c s cl (TRef id) rd) <> OOk.
Proof.
  intros Hf R. unfold do_token_parse, resolve_as. rewrite Hf, R.
  destruct (t_cls t); cbn [tcls_eqb]; try (destruct (c_shared_key c); cbn; discriminate); cbn; discriminate.
Qed.
Lemma process_removed c s idx kw cl id redir g t :
  (nth_error (parsed s) idx = Some (PCode cl id redir) \/ exists sc, nth_error (parsed s) idx = Some (PRefresh cl id sc)) ->
  find_tok id s = Some (g, t) -> g_removed g = true ->
  forall a r i sc, snd (do_process c s idx kw) <> OTokens a r i sc.
Proof.
  intros Hp Hf R a r i sc. unfold do_process. destruct Hp as [Hp|[sc0 Hp]]; rewrite Hp.
  - unfold do_code_process. rewrite Hf. cbv zeta. rewrite R. cbn. discriminate.
  - unfold do_refresh_process. rewrite Hf. cbv zeta. rewrite R. cbn. discriminate.
Qed.

(* dead, or out of the database *)
Definition unusable (s : st) (g : grant) (t : token) : Prop := dead (now s) t \/ g_removed g = true.
Theorem unusable_refused c s k g t : find_tok k s = Some (g, t) -> unusable s g t -> never_honoured c s k.
Proof.
  intros Hf [D|R]; repeat split.
  - eapply userinfo_dead; eauto.
  - intros. eapply introspect_dead; eauto.
  - intros. eapply refresh_parse_dead; eauto.
  - intros. eapply token_parse_dead; eauto.
  - intros idx kw cl redir Hp. eapply process_dead_mints_nothing; eauto.
  - eapply userinfo_removed; eauto.
  - intros. eapply introspect_removed; eauto.
  - intros. eapply refresh_parse_removed; eauto.
  - intros. eapply token_parse_removed; eauto.
  - intros idx kw cl redir Hp. eapply process_removed; eauto.
Qed.
Lemma find_tok_intro s k t g : tget k s = Some t -> nth_error (grants s) (t_grant t) = Some g -> find_tok k s = Some (g, t).
Proof. unfold tget, find_tok. intros -> ->. reflexivity. Qed.
Theorem unusable_forever c ops s k g t :
  find_tok k s = Some (g, t) -> unusable s g t ->
  exists g' t', find_tok k (fst (run c s ops)) = Some (g', t') /\ unusable (fst (run c s ops)) g' t' /\
                t_grant t' = t_grant t /\ g_user g' = g_user g /\ g_client g' = g_client g.
Proof.
  intros Hf U. apply find_tok_tget in Hf as (Ht&Hg).
  destruct (run_ext c ops s k t Ht) as (t'&Ht'&L). pose proof L as (L1&_).
  destruct (run_gext c ops s _ g Hg) as (g'&Hg'&(G1&G2&_&_&_&G8)).
  exists g', t'. split; [apply find_tok_intro; [exact Ht'|now rewrite L1]|]. repeat split; auto.
  destruct U as [D|R]; [left|right; auto].
  destruct (dead_forever c ops s k t Ht D) as (t2&Ht2&D2). rewrite Ht' in Ht2. inversion Ht2; subst. exact D2.
Qed.

(* REMOVE-SESSION IS FINAL: after SessionManager.remove_session on grant gi, whatever operations follow, no token
   of that grant is honoured by any endpoint again *)
Theorem remove_grant_final c s gi g ops k t :
  nth_error (grants s) gi = Some g -> tget k s = Some t -> t_grant t = gi ->
  never_honoured c (fst (run c (fst (step c s (RemoveGrant gi))) ops)) k.
Proof.
  intros Hg Ht E. cbn [step]. rewrite Hg. cbn [fst].
  assert (Hf : find_tok k (upd_grant gi remove_g s) = Some (remove_g g, t)).
  { apply find_tok_intro; [exact Ht|]. unfold upd_grant; cbn. rewrite E, nth_upd_same, Hg. reflexivity. }
  destruct (unusable_forever c ops _ k _ t Hf) as (g'&t'&Hf'&U&_); [right; reflexivity|].
  eapply unusable_refused; eauto.
Qed.
(* ... and it touches nothing else: every token keeps its flags, counters and expiry; every other grant is unchanged *)
Theorem remove_grant_isolation c s gi :
  toks (fst (step c s (RemoveGrant gi))) = toks s /\ now (fst (step c s (RemoveGrant gi))) = now s /\
  parsed (fst (step c s (RemoveGrant gi))) = parsed s /\
  forall gj, gj <> gi -> nth_error (grants (fst (step c s (RemoveGrant gi)))) gj = nth_error (grants s) gj.
Proof.
  cbn [step]. destruct (nth_error (grants s) gi); cbn [fst]; repeat split; auto.
  intros gj N. unfold upd_grant; cbn. now rewrite nth_upd_other by auto.
Qed.

(* LOGOUT EVERYWHERE CASCADES: revocation of a user session revokes every token of every grant of that user, at every
   client, that is still in the database (the others are out of the database, hence refused as well) *)
Theorem revoke_user_cascade s g k t h :
  tget k s = Some t -> nth_error (grants s) (t_grant t) = Some h -> same_user g h = true ->
  exists t', tget k (revoke_user g s) = Some t' /\ t_grant t' = t_grant t /\ (t_revoked t' = true \/ g_removed h = true).
Proof.
  intros H Hh Hu. unfold tget, revoke_user, in_user, live_user in *; cbn. rewrite nth_error_map, H; cbn. rewrite Hh, Hu.
  destruct (g_removed h); cbn; eauto.
Qed.
Lemma revoke_user_grant s g gi h :
  nth_error (grants s) gi = Some h ->
  exists h', nth_error (grants (revoke_user g s)) gi = Some h' /\ g_removed h' = g_removed h /\ g_user h' = g_user h.
Proof.
  intros Hh. unfold revoke_user; cbn. rewrite nth_error_map, Hh; cbn. destruct (live_user g h); eauto.
Qed.
Lemma no_live_user_removed g gs j h :
  existsb (live_user g) gs = false -> nth_error gs j = Some h -> same_user g h = true -> g_removed h = true.
Proof.
  intros He Hn Hu. destruct (g_removed h) eqn:R; auto. exfalso.
  assert (existsb (live_user g) gs = true); [|congruence].
  apply existsb_exists. exists h. split; [eapply nth_error_In; eauto|]. unfold live_user. now rewrite Hu, R.
Qed.
Theorem revoke_user_kills c s gi g k t h :
  nth_error (grants s) gi = Some g -> tget k s = Some t -> nth_error (grants s) (t_grant t) = Some h -> same_user g h = true ->
  exists h' t', find_tok k (fst (step c s (RevokeUser gi))) = Some (h', t') /\
                (t_revoked t' = true \/ g_removed h' = true).
Proof.
  intros Hg Ht Hh Hu. cbn [step]. rewrite Hg. destruct (existsb (live_user g) (grants s)) eqn:He; cbn [fst].
  - destruct (revoke_user_cascade s g k t h Ht Hh Hu) as (t'&Ht'&E&K).
    destruct (revoke_user_grant s g _ h Hh) as (h'&Hh'&R&_).
    (* with remove_inactive_token the revoked tokens then leave their grants' lists: nothing else about them changes *)
    destruct (sweep_p_tget c (in_user g s) _ k t' Ht') as (t''&Ht''&S). destruct S as (S1&_&_&_&_&_&_&_&S9&_).
    exists h', t''. split; [apply find_tok_intro; [exact Ht''|rewrite grants_sweep_p; now rewrite S1, E]|].
    destruct K as [K|K]; [left; now apply S9|right; congruence].
  - exists h, t. split; [now apply find_tok_intro|]. right. eapply no_live_user_removed; eauto.
Qed.
Theorem revoke_user_final c s gi g ops k t h :
  nth_error (grants s) gi = Some g -> tget k s = Some t -> nth_error (grants s) (t_grant t) = Some h -> same_user g h = true ->
  never_honoured c (fst (run c (fst (step c s (RevokeUser gi))) ops)) k.
Proof.
  intros Hg Ht Hh Hu. destruct (revoke_user_kills c s gi g k t h Hg Ht Hh Hu) as (h'&t'&Hf&K).
  destruct (unusable_forever c ops _ k h' t' Hf) as (g2&t2&Hf2&U&_).
  { destruct K as [K|K]; [left; apply dead_cases; auto|right; auto]. }
  eapply unusable_refused; eauto.
Qed.
(* ... and leaves every token and every grant of every other user exactly as it was *)
Theorem revoke_user_isolation c s gi k t h :
  tget k s = Some t -> nth_error (grants s) (t_grant t) = Some h ->
  (forall g, nth_error (grants s) gi = Some g -> same_user g h = false) ->
  tget k (fst (step c s (RevokeUser gi))) = Some t /\
  nth_error (grants (fst (step c s (RevokeUser gi)))) (t_grant t) = Some h.
Proof.
  intros Ht Hh Hu. cbn [step]. destruct (nth_error (grants s) gi) as [g|] eqn:Hg; cbn [fst]; auto.
  specialize (Hu g eq_refl). destruct (existsb (live_user g) (grants s)); cbn [fst]; auto.
  assert (Hin : in_user g s (t_grant t) = false) by (unfold in_user, live_user; now rewrite Hh, Hu).
  split.
  - apply sweep_p_other; [|exact Hin]. unfold tget, revoke_user in *; cbn. rewrite nth_error_map, Ht; cbn. now rewrite Hin.
  - rewrite grants_sweep_p. unfold revoke_user; cbn. rewrite nth_error_map, Hh; cbn. unfold live_user. now rewrite Hu.
Qed.
(* the client-session revocation (logout from one client) seen as a step: same statement for the other branches *)
Theorem revoke_client_step_isolation c s gi k t h :
  tget k s = Some t -> nth_error (grants s) (t_grant t) = Some h ->
  (forall g, nth_error (grants s) gi = Some g -> same_branch g h = false) ->
  tget k (fst (step c s (RevokeClient gi))) = Some t /\
  nth_error (grants (fst (step c s (RevokeClient gi)))) (t_grant t) = Some h.
Proof.
  intros Ht Hh Hu. cbn [step]. destruct (nth_error (grants s) gi) as [g|] eqn:Hg; cbn [fst]; auto.
  specialize (Hu g eq_refl). destruct (existsb (live_branch g) (grants s)); cbn [fst]; auto.
  assert (Hin : in_branch g s (t_grant t) = false) by (unfold in_branch, live_branch; now rewrite Hh, Hu).
  split.
  - apply sweep_p_other; [|exact Hin]. unfold tget, revoke_branch in *; cbn. rewrite nth_error_map, Ht; cbn. now rewrite Hin.
  - rewrite grants_sweep_p. unfold revoke_branch; cbn. rewrite nth_error_map, Hh; cbn. unfold live_branch. now rewrite Hu.
Qed.
