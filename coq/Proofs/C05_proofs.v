(* Proofs/C05_proofs.v — the scope invariant over all operations, and the C05 theorems. *)
From Coq Require Import Lia ZArith List Bool.
From Verif Require Import Lib.Base Lib.PyStr Model.Session Proofs.Session_proofs Proofs.Session_gone Proofs.C05a_proofs Proofs.C05v_proofs.
Import ListNotations.
Open Scope Z_scope.

(* ---- the whole invariant ---- *)
Definition parsed_good (s : st) : Prop :=
  forall idx cl tok sc, nth_error (parsed s) idx = Some (PRefresh cl tok (Some sc)) ->
    exists t g, tget tok s = Some t /\ nth_error (grants s) (t_grant t) = Some g /\ subset sc (g_scope g) = true.
(* grants_good (what was authorised for a grant: the request's scopes filtered by the client's allowed scopes) is
   defined in C05a_proofs *)
Definition inv (c : cfg) (s : st) : Prop := toks_good s /\ parsed_good s /\ grants_good c s.

Lemma toks_good_grants gs gs' ts :
  Forall (scope_good gs) ts ->
  (forall gi g, nth_error gs gi = Some g -> exists g', nth_error gs' gi = Some g' /\ g_scope g' = g_scope g) ->
  Forall (scope_good gs') ts.
Proof.
  intros H Hg. rewrite Forall_forall in *. intros t Ht. destruct (H _ Ht) as (g&G1&G2&G3).
  destruct (Hg _ _ G1) as (g'&G1'&E). exists g'. rewrite E. auto.
Qed.

(* setting `revoked` / `gone` (a revocation cascade, the sweep of remove_inactive_token) touches no scope *)
Lemma good_same gs ts ts' : toks_same ts ts' -> Forall (scope_good gs) ts -> Forall (scope_good gs) ts'.
Proof.
  apply toks_same_Forall. intros t t' (S1&S2&S3&_&_&_&S7&_) (g&G1&G2&G3). exists g. rewrite S1, S2, S3, S7. auto.
Qed.
Lemma good_sweep_p c p s : toks_good s -> toks_good (sweep_p c p s).
Proof. intros H. unfold toks_good. rewrite grants_sweep_p. eapply good_same; [apply sweep_p_same|exact H]. Qed.
Lemma good_cascade c gi v s : toks_good s -> toks_good (cascade c gi v s).
Proof. intros H. unfold toks_good. rewrite grants_cascade. eapply good_same; [apply cascade_same|exact H]. Qed.
Lemma good_walk_derived gi v s : toks_good s -> toks_good (walk_derived gi v s).
Proof. intros H. unfold toks_good. cbn [grants walk_derived]. eapply good_same; [apply walk_derived_same|exact H]. Qed.

Lemma parsed_good_mono s s' : parsed_good s -> ext s s' -> gext s s' -> parsed s' = parsed s -> parsed_good s'.
Proof.
  intros H He Hg Hp idx cl tok sc Hn. rewrite Hp in Hn. destruct (H _ _ _ _ Hn) as (t&g&Ht&Hgr&Hs).
  destruct (He _ _ Ht) as (t'&Ht'&L). destruct (Hg _ _ Hgr) as (g'&Hg'&Lg).
  exists t', g'. destruct L as (L1&_). destruct Lg as (_&Lg3). rewrite L1, (Lg3 I). auto.
Qed.
Lemma parsed_good_push s p : parsed_good s -> (forall cl tok sc, p <> PRefresh cl tok (Some sc)) -> parsed_good (push_parsed s p).
Proof.
  intros H Hp idx cl tok sc Hn. unfold push_parsed in Hn; cbn in Hn.
  destruct (Nat.lt_ge_cases idx (length (parsed s))) as [Hl|Hl].
  - rewrite nth_error_app1 in Hn by auto. apply H in Hn. exact Hn.
  - rewrite nth_error_app2 in Hn by auto. destruct (idx - length (parsed s))%nat as [|[|k]]; cbn in Hn; try discriminate.
    inversion Hn. exfalso. eapply Hp; eauto.
Qed.

Lemma grants_good_gext c s s' : grants_good c s -> gext s s' -> length (grants s') = length (grants s) -> grants_good c s'.
Proof.
  intros H Hg Hl gi g' Hn. assert (gi < length (grants s))%nat as Hlt by (rewrite <- Hl; apply nth_error_Some; congruence).
  destruct (nth_error (grants s) gi) as [g|] eqn:E; [|apply nth_error_None in E; lia].
  destruct (Hg _ _ E) as (g2&Hg2&L). rewrite Hn in Hg2. inversion Hg2; subst g2.
  destruct L as ((_&L2&L4&_)&L3). rewrite L2, (L3 I), L4. eapply H; eauto.
Qed.

Lemma gext_scope s s' : gext s s' ->
  forall gi g, nth_error (grants s) gi = Some g -> exists g', nth_error (grants s') gi = Some g' /\ g_scope g' = g_scope g.
Proof. intros H gi g Hg. destruct (H _ _ Hg) as (g'&H1&(_&H3)). eauto. Qed.

Lemma resolve_as_tok c k r s id g t : resolve_as c k r s = RTok id g t -> r = TRef id /\ find_tok id s = Some (g, t).
Proof.
  unfold resolve_as. destruct r as [i|]; [|discriminate]. destruct (find_tok i s) as [[g0 t0]|] eqn:E; [|discriminate].
  destruct (t_cls t0); try discriminate;
    (destruct (tcls_eqb _ k); [|destruct (c_shared_key c); discriminate]); (destruct (g_removed g0); [discriminate|]);
    intros H; inversion H; subst; auto.
Qed.

(* the authorization endpoint: a code minted under a grant carries the grant's scope *)
Lemma inv_mint_code c s gi s2 id :
  inv c s -> mint s gi Code None None (Some 1) (Some (c_code_mints c)) (c_code_exp c) = Ok (s2, id) -> inv c s2.
Proof.
  intros (Ht&Hp&Hg) Hm. split; [|split].
  - eapply good_mint; eauto. intros g0 x _ Hx; discriminate Hx.
  - pose proof Hm as Hm'. apply mint_ok in Hm' as (_&_&Hgr&Hpa&_).
    eapply parsed_good_mono; [exact Hp|eapply mint_ext; eauto|now apply gext_same|exact Hpa].
  - apply mint_ok in Hm as (_&_&Hgr&_). intros gi0 g0 H0. rewrite Hgr in H0. eapply Hg; eauto.
Qed.
(* a new grant whose scope is what its request authorises *)
Lemma inv_add_grant c s g :
  inv c s -> g_scope g = filter_scopes c (g_client g) (g_areq_scope g) ->
  inv c (mkSt (now s) (grants s ++ [g]) (toks s) (parsed s)).
Proof.
  intros (Ht&Hp&Hg) Hsc. split; [|split].
  - unfold toks_good; cbn. eapply toks_good_grants; [exact Ht|]. intros gi g0 H0. exists g0. split; auto. now apply nth_app_old.
  - intros idx cl tok sc Hn. destruct (Hp _ _ _ _ Hn) as (t&g0&A&B&C). exists t, g0. repeat split; auto. cbn. now apply nth_app_old.
  - intros gi g0 H0. cbn in H0. destruct (Nat.lt_ge_cases gi (length (grants s))) as [Hl|Hl].
    + rewrite nth_error_app1 in H0 by auto. eapply Hg; eauto.
    + rewrite nth_error_app2 in H0 by auto. destruct (gi - length (grants s))%nat as [|[|k]]; cbn in H0; try discriminate.
      inversion H0; subst g0. exact Hsc.
Qed.
Lemma inv_authorize_at c s u cl sc rd v : inv c s -> inv c (fst (do_authorize_at c s u cl sc rd v)).
Proof.
  intros Hi. unfold do_authorize_at.
  set (g := mkGrant u cl false (now s + c_grant_exp c) match sc with [] => [] | _ :: _ => filter_scopes c cl sc end sc rd v false).
  assert (H1 : inv c (mkSt (now s) (grants s ++ [g]) (toks s) (parsed s))).
  { apply inv_add_grant; auto. unfold g; cbn. destruct sc; reflexivity. }
  match goal with |- context [mint ?a ?b ?c0 ?d ?e ?f ?g ?h] => destruct (mint a b c0 d e f g h) as [[s2 id]| |] eqn:Hm end;
    cbn [fst]; auto.
  eapply inv_mint_code; eauto.
Qed.
(* the cookie path keeps a grant: authorised again with the request it was made for *)
Lemma inv_regrant c s prev g sc rd fresh :
  inv c s -> nth_error (grants s) prev = Some g -> same_request g sc rd fresh = true ->
  inv c (upd_grant prev (regrant c (now s) sc) s).
Proof.
  intros (Ht&Hp&Hg) Hn Hs. apply same_request_eq in Hs as [Hs _].
  assert (Hsc : reuse_scope c g sc = g_scope g) by (apply reuse_scope_same; auto; eapply Hg; eauto).
  assert (Hk : gext s (upd_grant prev (regrant c (now s) sc) s)).
  { intros k g0 H. unfold upd_grant; cbn. destruct (Nat.eq_dec prev k) as [->|N].
    - rewrite nth_upd_same, H. cbn. eexists; split; [reflexivity|]. rewrite Hn in H. inversion H; subst g0.
      split; [unfold g_lew, regrant; cbn; repeat split; auto|]. intros _. exact Hsc.
    - rewrite nth_upd_other by auto. exists g0. split; [assumption|apply g_le_refl]. }
  split; [|split].
  - unfold toks_good, upd_grant; cbn. eapply toks_good_grants; [exact Ht|]. apply (gext_scope _ _ Hk).
  - eapply parsed_good_mono; [exact Hp|now apply ext_same_toks|exact Hk|reflexivity].
  - eapply grants_good_gext; [exact Hg|exact Hk|]. unfold upd_grant; cbn. apply len_upd.
Qed.
Lemma inv_authorize_cookie c s prev u cl sc rd fresh : inv c s -> inv c (fst (do_authorize_cookie c s prev u cl sc rd fresh)).
Proof.
  intros Hi. unfold do_authorize_cookie. destruct (nth_error (grants s) prev) as [g|] eqn:Eg; [|now apply inv_authorize_at].
  destruct (g_removed g || negb (str_eqb (g_client g) cl)); [now apply inv_authorize_at|].
  destruct (negb (grant_active (now s) g)); [exact Hi|].
  destruct (negb (now s <? g_valid_until g)); [exact Hi|].
  destruct (same_request g sc rd fresh) eqn:Es; [|now apply inv_authorize_at].
  pose proof (inv_regrant c s prev g sc rd fresh Hi Eg Es) as H1.
  match goal with |- context [mint ?a ?b ?c0 ?d ?e ?f ?g ?h] => destruct (mint a b c0 d e f g h) as [[s2 id]| |] eqn:Hm end;
    cbn [fst]; auto.
  eapply inv_mint_code; eauto.
Qed.

(* the authorization endpoint minting by itself (implicit / hybrid response types): whatever it mints - code, access
   token, ID Token - is minted without based_on and without a scope argument, so it carries the grant's scope *)
Lemma inv_mint_root c s gi cls mx mints e s2 id :
  inv c s -> mint s gi cls None None mx mints e = Ok (s2, id) -> inv c s2.
Proof.
  intros (Ht&Hp&Hg) Hm. split; [|split].
  - eapply good_mint; eauto. intros g0 x _ Hx; discriminate Hx.
  - pose proof Hm as Hm'. apply mint_ok in Hm' as (_&_&Hgr&Hpa&_).
    eapply parsed_good_mono; [exact Hp|eapply mint_ext; eauto|now apply gext_same|exact Hpa].
  - apply mint_ok in Hm as (_&_&Hgr&_). intros gi0 g0 H0. rewrite Hgr in H0. eapply Hg; eauto.
Qed.
Lemma inv_mint_if c b s gi cls mx mints e s2 o : inv c s -> mint_if b s gi cls mx mints e = Ok (s2, o) -> inv c s2.
Proof.
  intros Hi H. apply mint_if_ok in H as [(_&->&_)|(id&_&_&Hm)]; [exact Hi|eapply inv_mint_root; eauto].
Qed.
Lemma inv_authorize_rt c s u cl sc wc wt wi : inv c s -> inv c (fst (do_authorize_rt c s u cl sc wc wt wi)).
Proof.
  intros Hi. unfold do_authorize_rt. cbv zeta.
  set (g := mkGrant u cl false (now s + c_grant_exp c) match sc with [] => [] | _ :: _ => filter_scopes c cl sc end sc
                    (redirect_of cl) (now s + c_authn_valid c) false).
  assert (H1 : inv c (mkSt (now s) (grants s ++ [g]) (toks s) (parsed s))).
  { apply inv_add_grant; auto. unfold g; cbn. destruct sc; reflexivity. }
  repeat match goal with
         | |- context [mint_if ?b ?s0 ?gi ?cls ?mx ?mi ?e] =>
             let H := fresh "Hm" in destruct (mint_if b s0 gi cls mx mi e) as [[? ?]| |] eqn:H;
               [eapply inv_mint_if in H; [|eassumption]|..]
         end; cbn [fst]; assumption.
Qed.

Theorem inv_step c s o : inv c s -> inv c (fst (step c s o)).
Proof.
  intros Hi. pose proof Hi as (Ht&Hp&Hg). pose proof (step_ext c s o) as He. pose proof (step_gext c s o Hg) as Hge.
  destruct o; cbn [step] in *.
  - (* Authorize *) now apply inv_authorize_at.
  - (* TokenParse *)
    assert (Hl : length (grants (fst (do_token_parse c s client code redirect))) = length (grants s))
      by (unfold do_token_parse; repeat dm; cbn [fst push_parsed grants]; rewrite ?grants_cascade; reflexivity).
    split; [|split]; [| |eapply grants_good_gext; eauto].
    + unfold do_token_parse. repeat dm; cbn [fst]; try exact Ht.
      apply (good_cascade c (t_grant t) id s) in Ht. exact Ht.
    + unfold do_token_parse in *. repeat dm; cbn [fst] in *; try exact Hp;
        try (apply parsed_good_push; [|intros; discriminate]); try exact Hp.
      eapply parsed_good_mono; [exact Hp|apply ext_cascade|apply gext_same; apply grants_cascade|apply parsed_cascade].
  - (* RefreshParse *)
    assert (Hl : length (grants (fst (do_refresh_parse c s client tok scope))) = length (grants s))
      by (unfold do_refresh_parse; repeat dm; reflexivity).
    split; [|split]; [| |eapply grants_good_gext; eauto].
    + unfold do_refresh_parse. repeat dm; exact Ht.
    + unfold do_refresh_parse. destruct (resolve_as c Refresh tok s) as [id g t| | | |] eqn:Er; cbn [fst];
        try exact Hp; try (apply parsed_good_push; [exact Hp|intros; discriminate]).
      apply resolve_as_tok in Er as (->&Hf). pose proof (find_tok_tget _ _ _ _ Hf) as (Htg&Hgr).
      destruct (t_gone t); cbn [fst]; [apply parsed_good_push; [exact Hp|intros; discriminate]|].
      destruct (negb (tok_active (now s) t)); cbn [fst]; [apply parsed_good_push; [exact Hp|intros; discriminate]|].
      destruct scope as [rs|]; [|cbn [fst]; apply parsed_good_push; [exact Hp|intros; discriminate]].
      destruct (subset rs (fscope s (t_grant t) g (t_based t))) eqn:Es; cbn [fst]; [|apply parsed_good_push; [exact Hp|intros; discriminate]].
      (* the request scope was checked against find_scope, which lies within the grant's scope *)
      intros idx cl tk sc Hn. unfold push_parsed in Hn; cbn in Hn.
      destruct (Nat.lt_ge_cases idx (length (parsed s))) as [Hlt|Hge2].
      * rewrite nth_error_app1 in Hn by auto. destruct (Hp _ _ _ _ Hn) as (t0&g0&A&B&C). exists t0, g0. auto.
      * rewrite nth_error_app2 in Hn by auto. destruct (idx - length (parsed s))%nat as [|[|k]]; cbn in Hn; try discriminate.
        inversion Hn; subst. exists t, g. cbn. repeat split; auto.
        eapply subset_trans; [exact Es|]. now apply fscope_sub.
  - (* Process *)
    assert (Hgr : grants (fst (do_process c s idx issue_refresh)) = grants s)
      by (unfold do_process; repeat dm; cbn [fst]; auto using code_process_grants, refresh_process_grants).
    assert (Hpa : parsed (fst (do_process c s idx issue_refresh)) = parsed s).
    { unfold do_process. repeat dm; cbn [fst]; auto.
      - unfold do_code_process. cbv zeta. repeat dm; subst;
          repeat match goal with H : mint ?y _ _ _ _ _ _ _ = Ok (?x, _) |- _ => apply mint_ok in H as (_&_&_&H&_) end;
          cbn [parsed upd_tok fst] in *; congruence.
      - unfold do_refresh_process. cbv zeta. repeat dm; subst;
          repeat match goal with H : mint ?y _ _ _ _ _ _ _ = Ok (?x, _) |- _ => apply mint_ok in H as (_&_&_&H&_) end;
          cbn [parsed upd_tok fst] in *; congruence. }
    split; [|split].
    + unfold do_process. destruct (nth_error (parsed s) idx) as [[e|cl code redir|cl tok sc]|] eqn:En; cbn [fst]; try exact Ht.
      * now apply code_process_good.
      * apply refresh_process_good; auto. intros x t g -> Htk Hgk.
        destruct (Hp _ _ _ _ En) as (t0&g0&A&B&C). rewrite Htk in A. inversion A; subst t0. rewrite Hgk in B. inversion B; subst g0. exact C.
    + eapply parsed_good_mono; eauto.
    + intros gi g H0. rewrite Hgr in H0. eapply Hg; eauto.
  - unfold do_userinfo. repeat dm; cbn [fst]; repeat split; assumption.
  - unfold do_introspect. repeat dm; cbn [fst]; repeat split; assumption.
  - (* RevokeEP *)
    unfold do_revoke_ep in *. repeat dm; cbn [fst] in *; try (repeat split; assumption);
      (split; [|split]; [now apply good_upd_revoke|eapply parsed_good_mono; eauto|exact Hg]).
  - (* ApiRevoke *)
    assert (Hpa : parsed (fst (do_api_revoke_c c s tok recursive)) = parsed s).
    { unfold do_api_revoke_c, do_api_revoke. repeat dm; cbn [fst]; unfold sweep; rewrite ?parsed_sweep_p; reflexivity. }
    assert (Hgr : grants (fst (do_api_revoke_c c s tok recursive)) = grants s).
    { unfold do_api_revoke_c, do_api_revoke. repeat dm; cbn [fst]; rewrite ?grants_sweep; reflexivity. }
    split; [|split]; [|eapply parsed_good_mono; eauto|intros gi0 g0 H0; rewrite Hgr in H0; eapply Hg; eauto].
    unfold do_api_revoke_c, do_api_revoke. repeat dm; cbn [fst]; try exact Ht.
    all: first [ apply good_sweep_p; apply good_walk_derived; now apply good_upd_revoke
               | unfold revoke_derived; apply good_map_revoke; now apply good_upd_revoke
               | now apply good_upd_revoke ].
  - (* RevokeGrant *)
    destruct (nth_error (grants s) gi) as [g0|] eqn:E; cbn [fst] in *; [|repeat split; assumption].
    destruct (g_removed g0); cbn [fst] in *; [repeat split; assumption|].
    assert (Hl : length (grants (sweep c gi (revoke_grant_at gi s))) = length (grants s))
      by (rewrite grants_sweep; unfold revoke_grant_at; cbn; apply len_upd).
    split; [|split]; [|eapply parsed_good_mono; eauto; unfold sweep; now rewrite parsed_sweep_p|eapply grants_good_gext; eauto].
    apply good_sweep_p.
    unfold revoke_grant_at. apply (good_map_revoke (fun t => Nat.eqb (t_grant t) gi)).
    unfold toks_good, upd_grant; cbn. eapply toks_good_grants; [exact Ht|].
    intros k g H0. destruct (Nat.eq_dec gi k) as [->|N].
    * rewrite nth_upd_same, H0. cbn. eauto.
    * rewrite nth_upd_other by auto. eauto.
  - (* RevokeClient *)
    destruct (nth_error (grants s) gi) as [g0|] eqn:E; cbn [fst] in *; [|repeat split; assumption].
    destruct (existsb (live_branch g0) (grants s)); cbn [fst] in *; [|repeat split; assumption].
    assert (Hl : length (grants (sweep_p c (in_branch g0 s) (revoke_branch g0 s))) = length (grants s))
      by (rewrite grants_sweep_p; unfold revoke_branch; cbn; apply map_length).
    split; [|split]; [|eapply parsed_good_mono; eauto; now rewrite parsed_sweep_p|eapply grants_good_gext; eauto].
    apply good_sweep_p.
    unfold revoke_branch, toks_good; cbn.
    assert (Hgs : Forall (scope_good (List.map (fun h => if live_branch g0 h then revoke_g h else h) (grants s))) (toks s)).
    { eapply toks_good_grants; [exact Ht|]. intros k g H0. rewrite nth_error_map, H0. cbn. destruct (live_branch g0 g); eauto. }
    rewrite Forall_forall in *. intros t Hin. apply in_map_iff in Hin as (t0&<-&Hin0).
    destruct (Hgs _ Hin0) as (g&G1&G2&G3). destruct (in_branch g0 s (t_grant t0)); exists g; auto.
  - (* RemoveGrant *)
    destruct (nth_error (grants s) gi) as [g0|] eqn:E; cbn [fst] in *; [|repeat split; assumption].
    assert (Hl : length (grants (upd_grant gi remove_g s)) = length (grants s)) by (unfold upd_grant; cbn; apply len_upd).
    split; [|split]; [|eapply parsed_good_mono; eauto|eapply grants_good_gext; eauto].
    unfold toks_good, upd_grant; cbn. eapply toks_good_grants; [exact Ht|].
    intros k g H0. destruct (Nat.eq_dec gi k) as [->|N].
    * rewrite nth_upd_same, H0. cbn. eauto.
    * rewrite nth_upd_other by auto. eauto.
  - (* RevokeUser *)
    destruct (nth_error (grants s) gi) as [g0|] eqn:E; cbn [fst] in *; [|repeat split; assumption].
    destruct (existsb (live_user g0) (grants s)); cbn [fst] in *; [|repeat split; assumption].
    assert (Hl : length (grants (sweep_p c (in_user g0 s) (revoke_user g0 s))) = length (grants s))
      by (rewrite grants_sweep_p; unfold revoke_user; cbn; apply map_length).
    split; [|split]; [|eapply parsed_good_mono; eauto; now rewrite parsed_sweep_p|eapply grants_good_gext; eauto].
    apply good_sweep_p.
    unfold revoke_user, toks_good; cbn.
    assert (Hgs : Forall (scope_good (List.map (fun h => if live_user g0 h then revoke_g h else h) (grants s))) (toks s)).
    { eapply toks_good_grants; [exact Ht|]. intros k g H0. rewrite nth_error_map, H0. cbn. destruct (live_user g0 g); eauto. }
    rewrite Forall_forall in *. intros t Hin. apply in_map_iff in Hin as (t0&<-&Hin0).
    destruct (Hgs _ Hin0) as (g&G1&G2&G3). destruct (in_user g0 s (t_grant t0)); exists g; auto.
  - (* Tick *) repeat split; assumption.
  - (* AuthorizeCookie *) now apply inv_authorize_cookie.
  - (* AuthorizeRT *) now apply inv_authorize_rt.
Qed.

(* ---- every reachable state ---- *)
Lemma inv_init c : inv c init.
Proof.
  split; [|split].
  - unfold toks_good; cbn. constructor.
  - intros idx cl tok sc H. destruct idx; discriminate.
  - intros gi g H. destruct gi; discriminate.
Qed.
Lemma inv_run c ops : forall s, inv c s -> inv c (fst (run c s ops)).
Proof.
  induction ops as [|o r IH]; intros s H; cbn [run]; auto.
  pose proof (inv_step c s o H) as H1. destruct (step c s o) as [s1 x]. cbn [fst] in *.
  specialize (IH s1 H1). destruct (run c s1 r) as [s2 xs]. exact IH.
Qed.

(* NO ESCALATION: in every reachable state, every scope value of every token was asked for in the authorization
   request of its grant AND is allowed for that grant's client — however the token was obtained (code exchange,
   refresh with or without a scope parameter, chains of refreshes of any length). *)
Lemma no_escalation_from c s0 ops k t g x :
  inv c s0 ->
  let s := fst (run c s0 ops) in
  tget k s = Some t -> nth_error (grants s) (t_grant t) = Some g -> In x (t_scope t) ->
  In x (g_areq_scope g) /\ In x (c_allowed c (g_client g)).
Proof.
  intros Hi s Ht Hg Hx. destruct (inv_run c ops s0 Hi) as (I1&_&I3). fold s in I1, I3.
  destruct (good_nth _ _ _ I1 Ht) as (g'&G1&G2&_). rewrite Hg in G1. inversion G1; subst g'.
  unfold subset in G2. rewrite forallb_forall in G2. apply G2 in Hx. apply str_in_In in Hx.
  rewrite (I3 _ _ Hg) in Hx. split.
  - unfold filter_scopes in Hx. apply filter_In in Hx as [Hx _]. exact Hx.
  - eapply filter_allowed; eauto.
Qed.
Theorem no_escalation c ops k t g x :
  let s := fst (run c init ops) in
  tget k s = Some t -> nth_error (grants s) (t_grant t) = Some g -> In x (t_scope t) ->
  In x (g_areq_scope g) /\ In x (c_allowed c (g_client g)).
Proof. apply no_escalation_from. apply inv_init. Qed.

(* ---- authorizing again within a browser session ---- *)
(* the grant that holds the code of an authorization response answers THIS request: its client, its scope *)
Lemma authorize_at_grant c s u cl sc rd v s1 code scope :
  do_authorize_at c s u cl sc rd v = (s1, OAuthz code scope) ->
  exists tc g, tget code s1 = Some tc /\ nth_error (grants s1) (t_grant tc) = Some g /\ g_areq_scope g = sc /\ g_client g = cl.
Proof.
  unfold do_authorize_at.
  match goal with |- context [mint ?a ?b ?c0 ?d ?e ?f ?g ?h] => destruct (mint a b c0 d e f g h) as [[s2 id]| |] eqn:Hm end;
    intros H; inversion H; subst; clear H.
  pose proof Hm as Hm'. apply mint_ok in Hm' as (_&_&Hgr&_).
  apply mint_new in Hm as (tn&Ht&Hg&_). exists tn. eexists. split; [exact Ht|].
  rewrite Hgr, Hg. cbn [grants]. rewrite nth_error_app2 by lia. rewrite Nat.sub_diag. cbn. auto.
Qed.
Lemma authorize_cookie_grant c s prev u cl sc rd fresh s1 code scope :
  do_authorize_cookie c s prev u cl sc rd fresh = (s1, OAuthz code scope) ->
  exists tc g, tget code s1 = Some tc /\ nth_error (grants s1) (t_grant tc) = Some g /\ g_areq_scope g = sc /\ g_client g = cl.
Proof.
  unfold do_authorize_cookie. destruct (nth_error (grants s) prev) as [g|] eqn:Eg; [|apply authorize_at_grant].
  destruct (g_removed g || negb (str_eqb (g_client g) cl)) eqn:Ec; [apply authorize_at_grant|].
  destruct (negb (grant_active (now s) g)); [discriminate|].
  destruct (negb (now s <? g_valid_until g)); [discriminate|].
  destruct (same_request g sc rd fresh) eqn:Es; [|apply authorize_at_grant].
  match goal with |- context [mint ?a ?b ?c0 ?d ?e ?f ?g ?h] => destruct (mint a b c0 d e f g h) as [[s2 id]| |] eqn:Hm end;
    intros H; inversion H; subst; clear H.
  pose proof Hm as Hm'. apply mint_ok in Hm' as (_&_&Hgr&_).
  apply mint_new in Hm as (tn&Ht&Hg&_). exists tn. eexists. split; [exact Ht|].
  rewrite Hgr, Hg. unfold upd_grant; cbn [grants]. rewrite nth_upd_same, Eg. cbn. split; [reflexivity|].
  apply same_request_eq in Es as [Hs _]. apply orb_false_iff in Ec as [_ Ec]. apply negb_false_iff, str_eqb_eq in Ec. auto.
Qed.
(* BOUNDED BY ITS OWN REQUEST: after an authorization request that came with the session cookie of an earlier one -
   whatever that earlier one asked for, wider or narrower - every token that is ever found in the grant holding the new
   code (the code itself, what is exchanged for it, every refresh down the chain) carries only scope values THIS
   request asked for and its client is allowed. *)
Theorem cookie_authorization_bounded c pre prev u cl sc rd fresh s1 code scope post tc k t x :
  step c (fst (run c init pre)) (AuthorizeCookie prev u cl sc rd fresh) = (s1, OAuthz code scope) ->
  tget code s1 = Some tc ->
  tget k (fst (run c s1 post)) = Some t -> t_grant t = t_grant tc -> In x (t_scope t) ->
  In x sc /\ In x (c_allowed c cl).
Proof.
  intros Hs Hc Ht Hg Hx. cbn [step] in Hs.
  assert (Hi : inv c s1).
  { pose proof (inv_step c _ (AuthorizeCookie prev u cl sc rd fresh) (inv_run c pre init (inv_init c))) as H.
    cbn [step] in H. now rewrite Hs in H. }
  apply authorize_cookie_grant in Hs as (tc'&g&Hc'&Hn&Ha&Hcl). rewrite Hc in Hc'. inversion Hc'; subst tc'.
  destruct (run_gext c post s1 _ g Hn) as (g'&Hn'&(_&G2&G3&_)).
  rewrite <- Hg in Hn'. destruct (no_escalation_from c s1 post k t g' x Hi Ht Hn' Hx) as (A&B).
  rewrite G3, Ha in A. rewrite G2, Hcl in B. auto.
Qed.

(* ---- tokens minted by the authorization endpoint itself (implicit / hybrid response types) ---- *)
(* what a later mint leaves of an earlier token: everything but `used` / `revoked` *)
Lemma mint_if_keeps b s gi cls mx mints e s' o k t :
  mint_if b s gi cls mx mints e = Ok (s', o) -> tget k s = Some t ->
  exists t', tget k s' = Some t' /\ t_cls t' = t_cls t /\ t_based t' = t_based t /\ t_scope t' = t_scope t /\ t_grant t' = t_grant t.
Proof.
  intros H Ht. apply mint_if_ext in H. destruct (H _ _ Ht) as (t'&Ht'&(L1&L2&L3&_&_&_&L7&_)). eauto 10.
Qed.
Lemma mint_if_new b s gi cls mx mints e s' o id :
  mint_if b s gi cls mx mints e = Ok (s', o) -> o = Some id ->
  exists tn g, tget id s' = Some tn /\ nth_error (grants s) gi = Some g /\ t_grant tn = gi /\ t_cls tn = cls /\
               t_based tn = None /\ t_scope tn = g_scope g.
Proof.
  intros H Ho. apply mint_if_ok in H as [(_&_&->)|(id'&_&->&Hm)]; [discriminate|]. inversion Ho; subst id'.
  eapply mint_root_new; exact Hm.
Qed.
(* VIEWS at the authorization endpoint: the scope the authorization response states is the requested scope filtered by
   the client's allowed scopes, and that is exactly the scope of every artefact the response carries - the code, the
   access token and the ID Token minted there (none of them is based on another token) - all in the new grant. *)
Theorem front_channel_views c s u cl sc wc wt wi s1 code acc idt scope :
  do_authorize_rt c s u cl sc wc wt wi = (s1, OAuthzRT code acc idt scope) ->
  scope = filter_scopes c cl sc /\
  forall k cls, (code = Some k /\ cls = Code) \/ (acc = Some k /\ cls = Access) \/ (idt = Some k /\ cls = IdTok) ->
    exists t, tget k s1 = Some t /\ t_cls t = cls /\ t_based t = None /\ t_scope t = scope /\ t_grant t = length (grants s).
Proof.
  unfold do_authorize_rt. cbv zeta.
  set (g := mkGrant u cl false (now s + c_grant_exp c) match sc with [] => [] | _ :: _ => filter_scopes c cl sc end sc
                    (redirect_of cl) (now s + c_authn_valid c) false).
  assert (Hgs : g_scope g = filter_scopes c cl sc) by (unfold g; cbn; destruct sc; reflexivity).
  set (s0 := mkSt (now s) (grants s ++ [g]) (toks s) (parsed s)).
  destruct (mint_if wc s0 (length (grants s)) Code (Some 1) (Some (c_code_mints c)) (c_code_exp c)) as [[s2 co]| |] eqn:H1; try discriminate.
  destruct (mint_if wt s2 (length (grants s)) Access None None (c_access_exp c)) as [[s3 ac]| |] eqn:H2; try discriminate.
  destruct (mint_if wi s3 (length (grants s)) IdTok None None (c_idtok_exp c)) as [[s4 it]| |] eqn:H3; try discriminate.
  intros H; inversion H; subst; clear H. split; [reflexivity|].
  assert (G0 : nth_error (grants s0) (length (grants s)) = Some g)
    by (unfold s0; cbn [grants]; rewrite nth_error_app2 by lia; now rewrite Nat.sub_diag).
  assert (G2 : grants s2 = grants s0) by exact (mint_if_grants _ _ _ _ _ _ _ _ _ H1).
  assert (G3 : grants s3 = grants s0) by (rewrite (mint_if_grants _ _ _ _ _ _ _ _ _ H2); exact G2).
  intros k cls [(Hk&->)|[(Hk&->)|(Hk&->)]].
  - destruct (mint_if_new _ _ _ _ _ _ _ _ _ _ H1 Hk) as (tn&g'&T&G&A&B&C&D). rewrite G0 in G. inversion G; subst g'.
    destruct (mint_if_keeps _ _ _ _ _ _ _ _ _ _ _ H2 T) as (t2&T2&B2&C2&D2&A2).
    destruct (mint_if_keeps _ _ _ _ _ _ _ _ _ _ _ H3 T2) as (t3&T3&B3&C3&D3&A3).
    exists t3. repeat split; auto; congruence.
  - destruct (mint_if_new _ _ _ _ _ _ _ _ _ _ H2 Hk) as (tn&g'&T&G&A&B&C&D). rewrite G2, G0 in G. inversion G; subst g'.
    destruct (mint_if_keeps _ _ _ _ _ _ _ _ _ _ _ H3 T) as (t3&T3&B3&C3&D3&A3).
    exists t3. repeat split; auto; congruence.
  - destruct (mint_if_new _ _ _ _ _ _ _ _ _ _ H3 Hk) as (tn&g'&T&G&A&B&C&D). rewrite G3, G0 in G. inversion G; subst g'.
    exists tn. repeat split; auto; congruence.
Qed.
(* BOUNDED BY ITS OWN REQUEST: after an implicit / hybrid authorization, every token ever found in the grant it created -
   the front-channel access token and ID Token, the code, what the code is redeemed for, every refresh down the chain -
   carries only scope values THIS request asked for and its client is allowed, whatever happens before and after. *)
Theorem front_channel_bounded c pre u cl sc wc wt wi s1 x0 post k t x :
  step c (fst (run c init pre)) (AuthorizeRT u cl sc wc wt wi) = (s1, x0) ->
  tget k (fst (run c s1 post)) = Some t -> t_grant t = length (grants (fst (run c init pre))) -> In x (t_scope t) ->
  In x sc /\ In x (c_allowed c cl).
Proof.
  intros Hs Ht Hg Hx. cbn [step] in Hs.
  assert (Hi : inv c s1).
  { pose proof (inv_step c _ (AuthorizeRT u cl sc wc wt wi) (inv_run c pre init (inv_init c))) as H.
    cbn [step] in H. now rewrite Hs in H. }
  destruct (authorize_rt_grants c (fst (run c init pre)) u cl sc wc wt wi) as (g&Hgr&Hcl&Ha&_).
  rewrite Hs in Hgr. cbn [fst] in Hgr.
  assert (Hn : nth_error (grants s1) (length (grants (fst (run c init pre)))) = Some g)
    by (rewrite Hgr, nth_error_app2 by lia; now rewrite Nat.sub_diag).
  destruct (run_gext c post s1 _ g Hn) as (g'&Hn'&(_&G2&G3&_)).
  rewrite <- Hg in Hn'. destruct (no_escalation_from c s1 post k t g' x Hi Ht Hn' Hx) as (A&B).
  rewrite G3, Ha in A. rewrite G2, Hcl in B. auto.
Qed.

(* a refresh can narrow but never widen beyond the granted set, also when its scope parameter is honoured *)
Theorem refresh_within_grant c ops idx kw cl tok rsc s' n r i sc :
  let s := fst (run c init ops) in
  nth_error (parsed s) idx = Some (PRefresh cl tok rsc) ->
  do_process c s idx kw = (s', OTokens (Some n) r i sc) ->
  exists g t, find_tok tok s = Some (g, t) /\ subset sc (g_scope g) = true.
Proof.
  intros s Hp Hd. unfold do_process in Hd. rewrite Hp in Hd.
  destruct (inv_run c ops init (inv_init c)) as (I1&I2&_). fold s in I1, I2.
  apply C05v_proofs.refresh_process_view in Hd as (g&t&ta&Hf&_&_&_&Hsc). exists g, t. split; auto.
  pose proof (find_tok_tget _ _ _ _ Hf) as (Ht&Hg). subst sc. destruct rsc as [x|].
  - destruct (I2 _ _ _ _ Hp) as (t0&g0&A&B&C). rewrite Ht in A. inversion A; subst t0. rewrite Hg in B. inversion B; subst g0. exact C.
  - destruct (c_oidc c); now apply fscope_sub.
Qed.

(* VIEWS: the scope stated in the token response is the scope carried by the access token it returns *)
Theorem view_refresh c s cl tok rsc kw s' n r i sc :
  do_refresh_process c s cl tok rsc kw = (s', OTokens (Some n) r i sc) ->
  exists ta, tget n s' = Some ta /\ t_cls ta = Access /\ t_scope ta = sc.
Proof. intros H. apply refresh_process_view in H as (g&t&ta&_&H1&H2&H3&_). eauto. Qed.

Theorem view_code c ops cl code redir kw s' n r i sc g t :
  let s := fst (run c init ops) in
  do_code_process c s cl code redir kw = (s', OTokens (Some n) r i sc) ->
  find_tok code s = Some (g, t) -> t_cls t = Code ->
  exists ta, tget n s' = Some ta /\ t_cls ta = Access /\ t_scope ta = sc /\ sc = g_scope g.
Proof.
  intros s H Hf Hc. destruct (inv_run c ops init (inv_init c)) as (I1&_&_). fold s in I1.
  apply code_process_view in H as (g0&t0&ta&Hf0&H1&H2&H3&H4). rewrite Hf in Hf0. inversion Hf0; subst g0 t0.
  pose proof (find_tok_tget _ _ _ _ Hf) as (Ht&Hg).
  exists ta. repeat split; auto. rewrite H3, H4. eapply fscope_code; eauto.
Qed.

(* what introspection reports for an active token is the token's own scope (or, for a token minted without one,
   the scope found along its based_on chain) *)
Theorem view_introspection c s cl id sc cl' k :
  snd (do_introspect c s cl (TRef id)) = OActive sc cl' k ->
  exists g t, find_tok id s = Some (g, t) /\
    sc = match t_scope t with [] => match t_based t with Some _ => fscope s (t_grant t) g (t_based t) | None => g_scope g end | x => x end.
Proof.
  unfold do_introspect, resolve_any. destruct (find_tok id s) as [[g t]|] eqn:Hf; [|cbn; discriminate].
  repeat dm; cbn [snd]; try discriminate; intros H; inversion H; subst;
    repeat match goal with
           | H : (if ?b then _ else _) = RTok _ _ _ |- _ => destruct b; try discriminate
           | H : RTok _ _ _ = RTok _ _ _ |- _ => inversion H; subst; clear H
           end;
    exists g, t; (split; [reflexivity|]);
    repeat match goal with E : t_scope _ = _ |- _ => rewrite E | E : t_based _ = _ |- _ => rewrite E end; reflexivity.
Qed.
