(* Proofs/C05a_proofs.v (first half of the C05 proofs: the scope invariant through minting) — scope never escalates: every token's scope is a subset of the scope granted
   to its grant (the request's scopes filtered by the client's allowed scopes), through minting,
   refresh and chained refresh; the scope stated in the token response is the scope of the minted token. *)
From Coq Require Import Lia ZArith List Bool.
From Verif Require Import Lib.Base Lib.PyStr Model.Session Proofs.Session_proofs.
Import ListNotations.
Open Scope Z_scope.

(* ---- subset on scope lists ---- *)
Lemma subset_refl a : subset a a = true.
Proof. unfold subset. apply forallb_forall. intros x Hx. now apply str_in_In. Qed.
Lemma subset_trans a b c : subset a b = true -> subset b c = true -> subset a c = true.
Proof.
  unfold subset. rewrite !forallb_forall. intros H1 H2 x Hx. apply H2. apply str_in_In. now apply H1.
Qed.
Lemma subset_filter c cl sc : subset (filter_scopes c cl sc) sc = true.
Proof.
  unfold subset, filter_scopes. apply forallb_forall. intros x Hx. apply filter_In in Hx as [Hx _]. now apply str_in_In.
Qed.
Lemma filter_allowed c cl sc x : In x (filter_scopes c cl sc) -> In x (c_allowed c cl).
Proof. unfold filter_scopes. intros H. apply filter_In in H as [_ H]. now apply str_in_In. Qed.

(* ---- the invariant: every token's scope lies within its grant's scope; codes carry exactly the grant's scope ---- *)
Definition scope_good (gs : list grant) (t : token) : Prop :=
  exists g, nth_error gs (t_grant t) = Some g /\ subset (t_scope t) (g_scope g) = true /\
            (t_cls t = Code -> t_scope t = g_scope g /\ t_based t = None).
Definition toks_good (s : st) : Prop := Forall (scope_good (grants s)) (toks s).

Lemma good_nth s k t : toks_good s -> tget k s = Some t -> scope_good (grants s) t.
Proof. intros H Hk. unfold toks_good in H. rewrite Forall_forall in H. apply H. eapply nth_error_In; eauto. Qed.

Lemma forall_upd {A} (P : A -> Prop) f l i : Forall P l -> (forall x, P x -> P (f x)) -> Forall P (upd_nth i f l).
Proof.
  intros H Hf. revert i. induction H as [|x r Hx Hr IH]; intros [|i]; cbn; auto.
Qed.

Lemma good_upd_used id d s : toks_good s -> toks_good (upd_tok id (add_used d) s).
Proof. intros H. unfold toks_good, upd_tok; cbn. apply forall_upd; auto; intros t (g&H1&H2&H3); exists g; auto. Qed.
Lemma good_upd_revoke id s : toks_good s -> toks_good (upd_tok id revoke_t s).
Proof. intros H. unfold toks_good, upd_tok; cbn. apply forall_upd; auto; intros t (g&H1&H2&H3); exists g; auto. Qed.
Lemma good_map_revoke (p : token -> bool) s : toks_good s -> toks_good (map_toks (fun t => if p t then revoke_t t else t) s).
Proof.
  intros H. unfold toks_good, map_toks in *; cbn. rewrite Forall_forall in *. intros t Ht.
  apply in_map_iff in Ht as (t0&<-&Ht0). destruct (H _ Ht0) as (g&H1&H2&H3). destruct (p t0); exists g; auto.
Qed.

(* Grant.find_scope never leaves the grant's scope *)
Lemma find_scope_sub gs fuel ts gi g based :
  Forall (scope_good gs) ts -> nth_error gs gi = Some g ->
  subset (find_scope fuel ts gi (g_scope g) based) (g_scope g) = true.
Proof.
  intros Hts Hg. revert based. induction fuel as [|f IH]; intros based; cbn [find_scope]; [apply subset_refl|].
  destruct based as [b|]; [|apply subset_refl].
  destruct (find_in gi b ts) as [t|] eqn:E; [|apply subset_refl].
  apply find_in_tget in E as (E1&E2). rewrite Forall_forall in Hts. pose proof (Hts _ (nth_error_In _ _ E1)) as (g'&G1&G2&_).
  rewrite E2, Hg in G1. inversion G1; subst g'.
  destruct (t_scope t) as [|x r] eqn:Es.
  - destruct (t_based t); [apply IH|apply subset_refl].
  - exact G2.
Qed.
Lemma fscope_sub s gi g based : toks_good s -> nth_error (grants s) gi = Some g -> subset (fscope s gi g based) (g_scope g) = true.
Proof. intros H Hg. unfold fscope. now apply find_scope_sub with (gs := grants s). Qed.

(* a code's find_scope is the grant's scope *)
Lemma fscope_code s gi g code t :
  toks_good s -> nth_error (grants s) gi = Some g -> tget code s = Some t -> t_grant t = gi -> t_cls t = Code ->
  fscope s gi g (Some code) = g_scope g.
Proof.
  intros H Hg Ht Hgi Hc. unfold fscope. cbn [find_scope]. unfold find_in. unfold tget in Ht. rewrite Ht, Hgi, Nat.eqb_refl.
  destruct (good_nth _ _ _ H Ht) as (g'&G1&_&G3). rewrite Hgi, Hg in G1. inversion G1; subst g'.
  destruct (G3 Hc) as (G4&G5). rewrite G4, G5. destruct (g_scope g); reflexivity.
Qed.

(* minting keeps the invariant provided the new token's scope is within the grant's *)
Lemma good_mint s gi cls based sc mx mints e s' id :
  mint s gi cls based sc mx mints e = Ok (s', id) -> toks_good s ->
  (forall g x, nth_error (grants s) gi = Some g -> sc = Some x -> subset x (g_scope g) = true) ->
  (cls = Code -> based = None /\ sc = None) ->
  toks_good s'.
Proof.
  intros Hm Hg Hsc Hcode. pose proof Hm as Hm'. apply mint_ok in Hm' as (_&_&Hgr&_&_&(g&Hgi&_)&_).
  unfold mint in Hm. rewrite Hgi in Hm. destruct (grant_active (now s) g); cbn [negb] in Hm; [|discriminate].
  match type of Hm with context [bind ?x _] => destruct x as [[]| |]; cbn [bind] in Hm; try discriminate end.
  inversion Hm; subst; clear Hm. unfold toks_good; cbn [toks grants]. apply Forall_app. split.
  - destruct based as [b|]; [|exact Hg]. apply forall_upd; auto; intros t (g0&H1&H2&H3); exists g0; auto.
  - constructor; [|constructor]. exists g. cbn [t_grant t_scope t_cls t_based]. split; auto. split.
    + destruct sc as [x|]; [eapply Hsc; eauto|]. destruct based; [now apply fscope_sub|apply subset_refl].
    + intros Hc. destruct (Hcode Hc) as (->&->). auto.
Qed.

(* ---- grants: created once, only ever revoked ---- *)
Ltac grants_chain :=
  repeat match goal with
         | H : mint ?y _ _ _ _ _ _ _ = Ok (?x, _) |- _ =>
             let Hn := fresh "Hgr" in pose proof H as Hn; apply mint_ok in Hn as (_&_&Hn&_); revert H
         end; intros; cbn [grants upd_tok fst] in *; try congruence.

Lemma code_process_grants c s cl code redir kw : grants (fst (do_code_process c s cl code redir kw)) = grants s.
Proof. unfold do_code_process. cbv zeta. repeat dm; subst; grants_chain. Qed.
Lemma refresh_process_grants c s cl tok rsc kw : grants (fst (do_refresh_process c s cl tok rsc kw)) = grants s.
Proof. unfold do_refresh_process. cbv zeta. repeat dm; subst; grants_chain. Qed.

Definition g_le (g g' : grant) : Prop :=
  g_user g' = g_user g /\ g_client g' = g_client g /\ g_scope g' = g_scope g /\ g_areq_scope g' = g_areq_scope g /\
  g_redirect g' = g_redirect g /\ g_exp g' = g_exp g /\ (g_revoked g = true -> g_revoked g' = true) /\
  (g_removed g = true -> g_removed g' = true).
Lemma g_le_refl g : g_le g g. Proof. unfold g_le; repeat split; auto. Qed.
Lemma g_le_revoke g : g_le g (revoke_g g). Proof. unfold g_le, revoke_g; cbn; repeat split; auto. Qed.
Lemma g_le_remove g : g_le g (remove_g g). Proof. unfold g_le, remove_g; cbn; repeat split; auto. Qed.
Definition gext (s s' : st) : Prop :=
  forall gi g, nth_error (grants s) gi = Some g -> exists g', nth_error (grants s') gi = Some g' /\ g_le g g'.
Lemma gext_same s s' : grants s' = grants s -> gext s s'.
Proof. intros E gi g H. rewrite E. eauto using g_le_refl. Qed.

Lemma step_gext c s o : gext s (fst (step c s o)).
Proof.
  destruct o; cbn [step].
  - unfold do_authorize.
    match goal with |- context [mint ?a ?b ?c0 ?d ?e ?f ?g ?h] => destruct (mint a b c0 d e f g h) as [[s2 id]| |] eqn:Hm end; cbn [fst];
      intros gi0 g0 H; try (apply mint_ok in Hm as (_&_&Hm&_); rewrite Hm); cbn [grants];
      (exists g0; split; [now apply nth_app_old|apply g_le_refl]).
  - apply gext_same. unfold do_token_parse. repeat dm; reflexivity.
  - apply gext_same. unfold do_refresh_parse. repeat dm; reflexivity.
  - apply gext_same. unfold do_process. repeat dm; cbn [fst]; auto using code_process_grants, refresh_process_grants.
  - apply gext_same. unfold do_userinfo. repeat dm; reflexivity.
  - apply gext_same. unfold do_introspect. repeat dm; reflexivity.
  - apply gext_same. unfold do_revoke_ep. repeat dm; reflexivity.
  - apply gext_same. unfold do_api_revoke. repeat dm; reflexivity.
  - destruct (nth_error (grants s) gi) as [g1|] eqn:E; cbn [fst]; [|now apply gext_same].
    destruct (g_removed g1); cbn [fst]; [now apply gext_same|].
    intros k g H. unfold revoke_grant_at, map_toks, upd_grant; cbn. destruct (Nat.eq_dec gi k) as [->|N].
    + rewrite nth_upd_same, H. cbn. eauto using g_le_revoke.
    + rewrite nth_upd_other by auto. eauto using g_le_refl.
  - destruct (nth_error (grants s) gi) as [g0|] eqn:E; cbn [fst]; [|now apply gext_same].
    destruct (existsb (live_branch g0) (grants s)); cbn [fst]; [|now apply gext_same].
    intros k g H. unfold revoke_branch; cbn. rewrite nth_error_map, H. cbn.
    destruct (live_branch g0 g); eauto using g_le_refl, g_le_revoke.
  - (* RemoveGrant *) destruct (nth_error (grants s) gi) as [g1|] eqn:E; cbn [fst]; [|now apply gext_same].
    intros k g H. unfold upd_grant; cbn. destruct (Nat.eq_dec gi k) as [->|N].
    + rewrite nth_upd_same, H. cbn. eauto using g_le_remove.
    + rewrite nth_upd_other by auto. eauto using g_le_refl.
  - (* RevokeUser *) destruct (nth_error (grants s) gi) as [g0|] eqn:E; cbn [fst]; [|now apply gext_same].
    destruct (existsb (live_user g0) (grants s)); cbn [fst]; [|now apply gext_same].
    intros k g H. unfold revoke_user; cbn. rewrite nth_error_map, H. cbn.
    destruct (live_user g0 g); eauto using g_le_refl, g_le_revoke.
  - now apply gext_same.
Qed.

(* ---- the token endpoint helpers keep the invariant ---- *)
Ltac good_chain side :=
  lazymatch goal with
  | H : toks_good ?s |- toks_good ?s => exact H
  | |- toks_good (upd_tok _ (add_used _) _) => apply good_upd_used; good_chain side
  | |- toks_good (upd_tok _ revoke_t _) => apply good_upd_revoke; good_chain side
  | |- toks_good ?x =>
      match goal with
      | H : mint ?y _ _ _ _ _ _ _ = Ok (x, _) |- _ =>
          eapply (good_mint _ _ _ _ _ _ _ _ _ _ H); [good_chain side | side | let E := fresh in intros E; discriminate E]
      end
  end.

Lemma code_process_good c s cl code redir kw : toks_good s -> toks_good (fst (do_code_process c s cl code redir kw)).
Proof.
  intros H0. unfold do_code_process. cbv zeta. repeat dm; subst; cbn [fst];
    good_chain ltac:(let Hx := fresh in intros ? ? ? Hx; discriminate Hx).
Qed.

Lemma refresh_process_good c s cl tok rsc kw :
  toks_good s ->
  (forall x t g, rsc = Some x -> tget tok s = Some t -> nth_error (grants s) (t_grant t) = Some g -> subset x (g_scope g) = true) ->
  toks_good (fst (do_refresh_process c s cl tok rsc kw)).
Proof.
  intros H0 Hrsc. unfold do_refresh_process. cbv zeta.
  destruct (find_tok tok s) as [[g t]|] eqn:Hf; [|exact H0].
  pose proof (find_tok_tget _ _ _ _ Hf) as (Ht&Hg).
  repeat dm; subst; cbn [fst];
    good_chain ltac:(let Hx := fresh in let Hg0 := fresh in
                     intros ? ? Hg0 Hx; inversion Hx; subst; clear Hx;
                     grants_chain;
                     repeat match goal with E : grants _ = grants _ |- _ => rewrite E in Hg0 end;
                     rewrite Hg in Hg0; inversion Hg0; subst;
                     first [ solve [apply fscope_sub; auto] | solve [eapply Hrsc; eauto] ]).
Qed.

