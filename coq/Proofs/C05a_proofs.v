(* Proofs/C05a_proofs.v (first half of the C05 proofs: the scope invariant through minting) — scope never escalates: every token's scope is a subset of the scope granted
   to its grant (the request's scopes filtered by the client's allowed scopes), through minting,
   refresh and chained refresh; the scope stated in the token response is the scope of the minted token. *)
From Coq Require Import Lia ZArith List Bool.
From Verif Require Import Lib.Base Lib.PyStr Model.Session Proofs.Session_proofs Proofs.Session_gone.
Import ListNotations.
Open Scope Z_scope.

(* ---- subset on scope lists ---- *)
Lemma subset_refl a : subset a a = true.
Proof. unfold subset. apply forallb_forall. intros x Hx. now apply str_in_In. Qed.
Lemma subset_trans a b c : subset a b = true -> subset b c = true -> subset a c = true.
Proof.
  unfold subset. rewrite !forallb_forall. intros H1 H2 x Hx. apply H2. apply str_in_In. now apply H1.
Qed.
Lemma subset_filter c cl sc : subset (filter_scopes c cl sc) sc = true.
Proof.
  unfold subset, filter_scopes. apply forallb_forall. intros x Hx. apply filter_In in Hx as [Hx _]. now apply str_in_In.
Qed.
Lemma filter_allowed c cl sc x : In x (filter_scopes c cl sc) -> In x (c_allowed c cl).
Proof. unfold filter_scopes. intros H. apply filter_In in H as [_ H]. now apply str_in_In. Qed.

(* ---- the invariant: every token's scope lies within its grant's scope; codes carry exactly the grant's scope ---- *)
Definition scope_good (gs : list grant) (t : token) : Prop :=
  exists g, nth_error gs (t_grant t) = Some g /\ subset (t_scope t) (g_scope g) = true /\
            (t_cls t = Code -> t_scope t = g_scope g /\ t_based t = None).
Definition toks_good (s : st) : Prop := Forall (scope_good (grants s)) (toks s).

Lemma good_nth s k t : toks_good s -> tget k s = Some t -> scope_good (grants s) t.
Proof. intros H Hk. unfold toks_good in H. rewrite Forall_forall in H. apply H. eapply nth_error_In; eauto. Qed.

Lemma forall_upd {A} (P : A -> Prop) f l i : Forall P l -> (forall x, P x -> P (f x)) -> Forall P (upd_nth i f l).
Proof.
  intros H Hf. revert i. induction H as [|x r Hx Hr IH]; intros [|i]; cbn; auto.
Qed.

Lemma good_upd_used id d s : toks_good s -> toks_good (upd_tok id (add_used d) s).
Proof. intros H. unfold toks_good, upd_tok; cbn. apply forall_upd; auto; intros t (g&H1&H2&H3); exists g; auto. Qed.
Lemma good_upd_revoke id s : toks_good s -> toks_good (upd_tok id revoke_t s).
Proof. intros H. unfold toks_good, upd_tok; cbn. apply forall_upd; auto; intros t (g&H1&H2&H3); exists g; auto. Qed.
Lemma good_map_revoke (p : token -> bool) s : toks_good s -> toks_good (map_toks (fun t => if p t then revoke_t t else t) s).
Proof.
  intros H. unfold toks_good, map_toks in *; cbn. rewrite Forall_forall in *. intros t Ht.
  apply in_map_iff in Ht as (t0&<-&Ht0). destruct (H _ Ht0) as (g&H1&H2&H3). destruct (p t0); exists g; auto.
Qed.

(* Grant.find_scope never leaves the grant's scope *)
Lemma find_scope_sub gs fuel ts gi g based :
  Forall (scope_good gs) ts -> nth_error gs gi = Some g ->
  subset (find_scope fuel ts gi (g_scope g) based) (g_scope g) = true.
Proof.
  intros Hts Hg. revert based. induction fuel as [|f IH]; intros based; cbn [find_scope]; [apply subset_refl|].
  destruct based as [b|]; [|apply subset_refl].
  destruct (find_in gi b ts) as [t|] eqn:E; [|apply subset_refl].
  apply find_in_tget in E as (E1&E2). rewrite Forall_forall in Hts. pose proof (Hts _ (nth_error_In _ _ E1)) as (g'&G1&G2&_).
  rewrite E2, Hg in G1. inversion G1; subst g'.
  destruct (t_scope t) as [|x r] eqn:Es.
  - destruct (t_based t); [apply IH|apply subset_refl].
  - exact G2.
Qed.
Lemma fscope_sub s gi g based : toks_good s -> nth_error (grants s) gi = Some g -> subset (fscope s gi g based) (g_scope g) = true.
Proof. intros H Hg. unfold fscope. now apply find_scope_sub with (gs := grants s). Qed.

(* a code's find_scope is the grant's scope *)
Lemma fscope_code s gi g code t :
  toks_good s -> nth_error (grants s) gi = Some g -> tget code s = Some t -> t_grant t = gi -> t_cls t = Code ->
  fscope s gi g (Some code) = g_scope g.
Proof.
  intros H Hg Ht Hgi Hc. unfold fscope. cbn [find_scope]. unfold find_in. unfold tget in Ht. rewrite Ht, Hgi, Nat.eqb_refl.
  destruct (t_gone t); cbn [andb negb]; [reflexivity|].      (* a code that left the grant's list is not found: the grant's scope *)
  destruct (good_nth _ _ _ H Ht) as (g'&G1&_&G3). rewrite Hgi, Hg in G1. inversion G1; subst g'.
  destruct (G3 Hc) as (G4&G5). rewrite G4, G5. destruct (g_scope g); reflexivity.
Qed.

(* minting keeps the invariant provided the new token's scope is within the grant's *)
Lemma good_mint s gi cls based sc mx mints e s' id :
  mint s gi cls based sc mx mints e = Ok (s', id) -> toks_good s ->
  (forall g x, nth_error (grants s) gi = Some g -> sc = Some x -> subset x (g_scope g) = true) ->
  (cls = Code -> based = None /\ sc = None) ->
  toks_good s'.
Proof.
  intros Hm Hg Hsc Hcode. pose proof Hm as Hm'. apply mint_ok in Hm' as (_&_&Hgr&_&_&(g&Hgi&_)&_).
  unfold mint in Hm. rewrite Hgi in Hm. destruct (grant_active (now s) g); cbn [negb] in Hm; [|discriminate].
  match type of Hm with context [bind ?x _] => destruct x as [[]| |]; cbn [bind] in Hm; try discriminate end.
  inversion Hm; subst; clear Hm. unfold toks_good; cbn [toks grants]. apply Forall_app. split.
  - destruct based as [b|]; [|exact Hg]. apply forall_upd; auto; intros t (g0&H1&H2&H3); exists g0; auto.
  - constructor; [|constructor]. exists g. cbn [t_grant t_scope t_cls t_based]. split; auto. split.
    + destruct sc as [x|]; [eapply Hsc; eauto|]. destruct based; [now apply fscope_sub|apply subset_refl].
    + intros Hc. destruct (Hcode Hc) as (->&->). auto.
Qed.

(* ---- grants: created once, only ever revoked ---- *)
Ltac grants_chain :=
  repeat match goal with
         | H : mint ?y _ _ _ _ _ _ _ = Ok (?x, _) |- _ =>
             let Hn := fresh "Hgr" in pose proof H as Hn; apply mint_ok in Hn as (_&_&Hn&_); revert H
         end; intros; cbn [grants upd_tok fst] in *; try congruence.

Lemma code_process_grants c s cl code redir kw : grants (fst (do_code_process c s cl code redir kw)) = grants s.
Proof. unfold do_code_process. cbv zeta. repeat dm; subst; grants_chain. Qed.
Lemma refresh_process_grants c s cl tok rsc kw : grants (fst (do_refresh_process c s cl tok rsc kw)) = grants s.
Proof. unfold do_refresh_process. cbv zeta. repeat dm; subst; grants_chain. Qed.

(* what was authorised for a grant: the request's scopes filtered by the client's allowed scopes *)
Definition grants_good (c : cfg) (s : st) : Prop :=
  forall gi g, nth_error (grants s) gi = Some g -> g_scope g = filter_scopes c (g_client g) (g_areq_scope g).

(* g' is g later in a history.  Unconditionally: who it is for, what request it answers (scope asked for, redirect_uri)
   never change, revoked / removed are never cleared (the expiry may be pushed out: an authorization request that comes
   with the session cookie and equals the stored request authorises the grant again) ... *)
Definition g_lew (g g' : grant) : Prop :=
  g_user g' = g_user g /\ g_client g' = g_client g /\ g_areq_scope g' = g_areq_scope g /\
  g_redirect g' = g_redirect g /\ (g_revoked g = true -> g_revoked g' = true) /\
  (g_removed g = true -> g_removed g' = true).
(* ... and the granted scope does not change either, given that it is what the request authorised (P) *)
Definition g_le_p (P : Prop) (g g' : grant) : Prop := g_lew g g' /\ (P -> g_scope g' = g_scope g).
Definition g_le (g g' : grant) : Prop := g_le_p True g g'.
Lemma g_le_p_refl P g : g_le_p P g g. Proof. unfold g_le_p, g_lew; repeat split; auto. Qed.
Lemma g_le_p_revoke P g : g_le_p P g (revoke_g g). Proof. unfold g_le_p, g_lew, revoke_g; cbn; repeat split; auto. Qed.
Lemma g_le_p_remove P g : g_le_p P g (remove_g g). Proof. unfold g_le_p, g_lew, remove_g; cbn; repeat split; auto. Qed.
Lemma g_le_refl g : g_le g g. Proof. apply g_le_p_refl. Qed.
Definition gext_p (P : Prop) (s s' : st) : Prop :=
  forall gi g, nth_error (grants s) gi = Some g -> exists g', nth_error (grants s') gi = Some g' /\ g_le_p P g g'.
Definition gext (s s' : st) : Prop := gext_p True s s'.
Definition gextw (s s' : st) : Prop :=
  forall gi g, nth_error (grants s) gi = Some g -> exists g', nth_error (grants s') gi = Some g' /\ g_lew g g'.
Lemma gext_p_same P s s' : grants s' = grants s -> gext_p P s s'.
Proof. intros E gi g H. rewrite E. eauto using g_le_p_refl. Qed.
Lemma gext_same s s' : grants s' = grants s -> gext s s'.
Proof. apply gext_p_same. Qed.

Lemma filter_scopes_idem c cl sc : filter_scopes c cl (filter_scopes c cl sc) = filter_scopes c cl sc.
Proof.
  unfold filter_scopes. induction sc as [|x r IH]; cbn; auto.
  destruct (str_in x (c_allowed c cl)) eqn:E; cbn; [rewrite E, IH|]; auto.
Qed.
Lemma same_request_eq g sc rd fresh : same_request g sc rd fresh = true -> sc = g_areq_scope g /\ rd = g_redirect g.
Proof.
  unfold same_request. intros H. apply andb_true_iff in H as [H H3]. apply andb_true_iff in H as [_ H2].
  apply str_eqb_eq in H2. apply (list_eqb_eq str_eqb str_eqb_eq) in H3. auto.
Qed.
(* authorising a grant again with the request it was made for leaves its scope as it is *)
Lemma reuse_scope_same c g sc :
  g_scope g = filter_scopes c (g_client g) (g_areq_scope g) -> sc = g_areq_scope g -> reuse_scope c g sc = g_scope g.
Proof.
  intros Hg ->. unfold reuse_scope. destruct (g_scope g) as [|x r] eqn:E.
  - now rewrite <- Hg.
  - rewrite Hg. apply filter_scopes_idem.
Qed.

Lemma authorize_at_gext P c s u cl sc rd v : gext_p P s (fst (do_authorize_at c s u cl sc rd v)).
Proof.
  unfold do_authorize_at.
  match goal with |- context [mint ?a ?b ?c0 ?d ?e ?f ?g ?h] => destruct (mint a b c0 d e f g h) as [[s2 id]| |] eqn:Hm end; cbn [fst];
    intros gi0 g0 H; try (apply mint_ok in Hm as (_&_&Hm&_); rewrite Hm); cbn [grants];
    (exists g0; split; [now apply nth_app_old|apply g_le_p_refl]).
Qed.

Lemma mint_if_grants b s gi cls mx mints e s' o : mint_if b s gi cls mx mints e = Ok (s', o) -> grants s' = grants s.
Proof.
  intros H. apply mint_if_ok in H as [(_&->&_)|(id&_&_&Hm)]; [reflexivity|]. now apply mint_ok in Hm as (_&_&Hm&_).
Qed.
(* an implicit / hybrid authorization only appends a grant *)
Lemma authorize_rt_grants c s u cl sc wc wt wi :
  exists g, grants (fst (do_authorize_rt c s u cl sc wc wt wi)) = grants s ++ [g] /\
            g_client g = cl /\ g_areq_scope g = sc /\ g_scope g = filter_scopes c cl sc.
Proof.
  exists (mkGrant u cl false (now s + c_grant_exp c) (filter_scopes c cl sc) sc (redirect_of cl) (now s + c_authn_valid c) false).
  split; [|cbn; auto].
  replace (filter_scopes c cl sc) with (match sc with [] => [] | _ => filter_scopes c cl sc end) by (destruct sc; reflexivity).
  unfold do_authorize_rt. cbv zeta.
  repeat match goal with
         | |- context [mint_if ?b ?s0 ?gi ?cls ?mx ?mi ?e] =>
             let H := fresh "Hm" in destruct (mint_if b s0 gi cls mx mi e) as [[? ?]| |] eqn:H; [apply mint_if_grants in H|..]
         end; cbn [fst]; repeat match goal with H : grants _ = _ |- _ => rewrite H; clear H end; reflexivity.
Qed.
Lemma authorize_rt_gext P c s u cl sc wc wt wi : gext_p P s (fst (do_authorize_rt c s u cl sc wc wt wi)).
Proof.
  destruct (authorize_rt_grants c s u cl sc wc wt wi) as (g&Hg&_). intros gi0 g0 H. rewrite Hg.
  exists g0. split; [now apply nth_app_old|apply g_le_p_refl].
Qed.

Lemma step_gext_p c s o : gext_p (grants_good c s) s (fst (step c s o)).
Proof.
  destruct o; cbn [step].
  - apply authorize_at_gext.
  - apply gext_p_same. unfold do_token_parse. repeat dm; cbn [fst push_parsed grants]; rewrite ?grants_cascade; reflexivity.
  - apply gext_p_same. unfold do_refresh_parse. repeat dm; reflexivity.
  - apply gext_p_same. unfold do_process. repeat dm; cbn [fst]; auto using code_process_grants, refresh_process_grants.
  - apply gext_p_same. unfold do_userinfo. repeat dm; reflexivity.
  - apply gext_p_same. unfold do_introspect. repeat dm; reflexivity.
  - apply gext_p_same. unfold do_revoke_ep. repeat dm; reflexivity.
  - apply gext_p_same. unfold do_api_revoke_c, do_api_revoke. repeat dm; cbn [fst]; rewrite ?grants_sweep; reflexivity.
  - destruct (nth_error (grants s) gi) as [g1|] eqn:E; cbn [fst]; [|now apply gext_p_same].
    destruct (g_removed g1); cbn [fst]; [now apply gext_p_same|].
    intros k g H. rewrite grants_sweep. unfold revoke_grant_at, map_toks, upd_grant; cbn. destruct (Nat.eq_dec gi k) as [->|N].
    + rewrite nth_upd_same, H. cbn. eauto using g_le_p_revoke.
    + rewrite nth_upd_other by auto. eauto using g_le_p_refl.
  - destruct (nth_error (grants s) gi) as [g0|] eqn:E; cbn [fst]; [|now apply gext_p_same].
    destruct (existsb (live_branch g0) (grants s)); cbn [fst]; [|now apply gext_p_same].
    intros k g H. rewrite grants_sweep_p. unfold revoke_branch; cbn. rewrite nth_error_map, H. cbn.
    destruct (live_branch g0 g); eauto using g_le_p_refl, g_le_p_revoke.
  - (* RemoveGrant *) destruct (nth_error (grants s) gi) as [g1|] eqn:E; cbn [fst]; [|now apply gext_p_same].
    intros k g H. unfold upd_grant; cbn. destruct (Nat.eq_dec gi k) as [->|N].
    + rewrite nth_upd_same, H. cbn. eauto using g_le_p_remove.
    + rewrite nth_upd_other by auto. eauto using g_le_p_refl.
  - (* RevokeUser *) destruct (nth_error (grants s) gi) as [g0|] eqn:E; cbn [fst]; [|now apply gext_p_same].
    destruct (existsb (live_user g0) (grants s)); cbn [fst]; [|now apply gext_p_same].
    intros k g H. rewrite grants_sweep_p. unfold revoke_user; cbn. rewrite nth_error_map, H. cbn.
    destruct (live_user g0 g); eauto using g_le_p_refl, g_le_p_revoke.
  - now apply gext_p_same.
  - (* AuthorizeCookie *)
    unfold do_authorize_cookie. destruct (nth_error (grants s) prev) as [g|] eqn:Eg; [|apply authorize_at_gext].
    destruct (g_removed g || negb (str_eqb (g_client g) client)); [apply authorize_at_gext|].
    destruct (negb (grant_active (now s) g)); [now apply gext_p_same|].
    destruct (negb (now s <? g_valid_until g)); [now apply gext_p_same|].
    destruct (same_request g scope redirect fresh) eqn:Es; [|apply authorize_at_gext].
    assert (Hk : gext_p (grants_good c s) s (upd_grant prev (regrant c (now s) scope) s)).
    { intros k g0 H. unfold upd_grant; cbn. destruct (Nat.eq_dec prev k) as [->|N].
      - rewrite nth_upd_same, H. cbn. eexists; split; [reflexivity|]. rewrite Eg in H. inversion H; subst g0.
        split; [unfold g_lew, regrant; cbn; repeat split; auto|].
        intros Hgood. cbn. apply same_request_eq in Es as [Hs _]. apply reuse_scope_same; auto. eapply Hgood; eauto.
      - rewrite nth_upd_other by auto. eauto using g_le_p_refl. }
    match goal with |- context [mint ?a ?b ?c0 ?d ?e ?f ?g ?h] => destruct (mint a b c0 d e f g h) as [[s2 id]| |] eqn:Hm end; cbn [fst];
      try exact Hk.
    apply mint_ok in Hm as (_&_&Hm&_). intros k g0 H. rewrite Hm. now apply Hk.
  - (* AuthorizeRT *) apply authorize_rt_gext.
Qed.

(* for every operation, unconditionally *)
Lemma step_gextw c s o : gextw s (fst (step c s o)).
Proof. intros gi g H. destruct (step_gext_p c s o gi g H) as (g'&H'&(L&_)). eauto. Qed.
Lemma gextw_refl s : gextw s s.
Proof. intros gi g H. exists g. split; auto. unfold g_lew; repeat split; auto. Qed.
Lemma g_lew_trans a b c : g_lew a b -> g_lew b c -> g_lew a c.
Proof. unfold g_lew. intros (A1&A2&A3&A4&A5&A6) (B1&B2&B3&B4&B5&B6). repeat split; try congruence; auto. Qed.
Lemma gextw_trans a b c : gextw a b -> gextw b c -> gextw a c.
Proof. intros H1 H2 gi g H. destruct (H1 _ _ H) as (g1&E1&L1). destruct (H2 _ _ E1) as (g2&E2&L2). eauto using g_lew_trans. Qed.
Lemma run_gext c ops : forall s, gextw s (fst (run c s ops)).
Proof.
  induction ops as [|o r IH]; intros s; cbn [run]; [apply gextw_refl|].
  destruct (step c s o) as [s1 x] eqn:E. specialize (IH s1). destruct (run c s1 r) as [s2 xs]. cbn [fst] in *.
  eapply gextw_trans; [|exact IH]. pose proof (step_gextw c s o) as H. now rewrite E in H.
Qed.
(* in a state whose grants carry what their requests authorised *)
Lemma step_gext c s o : grants_good c s -> gext s (fst (step c s o)).
Proof. intros Hg gi g H. destruct (step_gext_p c s o gi g H) as (g'&H'&(L&Ls)). exists g'. split; auto. split; auto. Qed.

(* ---- the token endpoint helpers keep the invariant ---- *)
Ltac good_chain side :=
  lazymatch goal with
  | H : toks_good ?s |- toks_good ?s => exact H
  | |- toks_good (upd_tok _ (add_used _) _) => apply good_upd_used; good_chain side
  | |- toks_good (upd_tok _ revoke_t _) => apply good_upd_revoke; good_chain side
  | |- toks_good ?x =>
      match goal with
      | H : mint ?y _ _ _ _ _ _ _ = Ok (x, _) |- _ =>
          eapply (good_mint _ _ _ _ _ _ _ _ _ _ H); [good_chain side | side | let E := fresh in intros E; discriminate E]
      end
  end.

Lemma code_process_good c s cl code redir kw : toks_good s -> toks_good (fst (do_code_process c s cl code redir kw)).
Proof.
  intros H0. unfold do_code_process. cbv zeta. repeat dm; subst; cbn [fst];
    good_chain ltac:(let Hx := fresh in intros ? ? ? Hx; discriminate Hx).
Qed.

Lemma refresh_process_good c s cl tok rsc kw :
  toks_good s ->
  (forall x t g, rsc = Some x -> tget tok s = Some t -> nth_error (grants s) (t_grant t) = Some g -> subset x (g_scope g) = true) ->
  toks_good (fst (do_refresh_process c s cl tok rsc kw)).
Proof.
  intros H0 Hrsc. unfold do_refresh_process. cbv zeta.
  destruct (find_tok tok s) as [[g t]|] eqn:Hf; [|exact H0].
  pose proof (find_tok_tget _ _ _ _ Hf) as (Ht&Hg).
  repeat dm; subst; cbn [fst];
    good_chain ltac:(let Hx := fresh in let Hg0 := fresh in
                     intros ? ? Hg0 Hx; inversion Hx; subst; clear Hx;
                     grants_chain;
                     repeat match goal with E : grants _ = grants _ |- _ => rewrite E in Hg0 end;
                     rewrite Hg in Hg0; inversion Hg0; subst;
                     first [ solve [apply fscope_sub; auto] | solve [eapply Hrsc; eauto] | solve [apply subset_refl] ]).
Qed.

