(* Proofs/C05v_proofs.v — the scope stated in a token response is the scope of the access token it returns. *)
From Coq Require Import Lia ZArith List Bool.
From Verif Require Import Lib.Base Lib.PyStr Model.Session Proofs.Session_proofs.
Import ListNotations.
Open Scope Z_scope.

(* the scope a successful mint gives the new token *)
Lemma mint_scope s gi cls based sc mx mints e s' id :
  mint s gi cls based sc mx mints e = Ok (s', id) ->
  exists tn g, tget id s' = Some tn /\ nth_error (grants s) gi = Some g /\ id = length (toks s) /\
    t_scope tn = match sc with Some x => x | None => match based with Some _ => fscope s gi g based | None => g_scope g end end.
Proof.
  unfold mint. destruct (nth_error (grants s) gi) as [g|] eqn:Eg; [|discriminate].
  destruct (grant_active (now s) g) eqn:Ea; cbn [negb]; [|discriminate].
  match goal with |- context [bind ?x _] => destruct x as [[]| |]; cbn [bind]; try discriminate end.
  intros H; inversion H; subst; clear H. unfold tget; cbn [toks].
  eexists; exists g. rewrite nth_error_app2; [|destruct based; rewrite ?len_upd; lia].
  replace (length (toks s) - length (match based with Some b => upd_nth b (add_used 1) (toks s) | None => toks s end))%nat with O
    by (destruct based; rewrite ?len_upd; lia).
  cbn [nth_error]. repeat split; auto.
Qed.

Lemma bump1_scope c s s' d t t' : bump1 c s s' d -> tget c s = Some t -> tget c s' = Some t' -> t_scope t' = t_scope t.
Proof. intros B H H'. destruct (B _ H) as (t2&E&L). rewrite H' in E. inversion E; subst t2. destruct L as (_&_&_&_&_&_&L7&_). exact L7. Qed.

Lemma code_process_view c s cl code redir kw s' n r i sc :
  do_code_process c s cl code redir kw = (s', OTokens (Some n) r i sc) ->
  exists g t ta, find_tok code s = Some (g, t) /\ tget n s' = Some ta /\ t_cls ta = Access /\
                 t_scope ta = fscope s (t_grant t) g (Some code) /\ sc = g_scope g.
Proof.
  unfold do_code_process. cbv zeta.
  repeat dm; subst; intros H; inversion H; subst; clear H;
    match goal with
    | Hm : mint ?s (t_grant ?t) Access (Some ?code) _ _ _ _ = Ok (?s0, ?n), Hf : find_tok ?code ?s = Some (?g, ?t) |- _ =>
        let B := fresh "B" in
        pose proof Hm as Hnew; apply mint_new in Hnew as (tn0&Hn0&_&Hcls&_);
        pose proof Hm as Htn; apply mint_scope in Htn as (tn&g1&Htn&Hg1&Hid&Hsc);
        pose proof (find_tok_tget _ _ _ _ Hf) as (Ht&Hg);
        rewrite Hg in Hg1; inversion Hg1; subst g1;
        rewrite Hn0 in Htn; inversion Htn; subst tn0;
        assert (code <> n) as Hne by (subst n; intro Eq; unfold tget in Ht; rewrite Eq in Ht;
                                      assert (nth_error (toks s) (length (toks s)) = None) by (apply nth_error_None; lia); congruence);
        match goal with
        | |- exists g0 t0 ta, _ /\ tget n ?fin = Some ta /\ _ =>
            assert (exists d, bump1 n s0 fin d) as (d&B) by (eexists; bump_chain);
            destruct (B _ Hn0) as (ta&Hta&L);
            exists g, t, ta; repeat split; auto;
            [ destruct L as (_&L2&_); cbn in L2; congruence
            | destruct L as (_&_&_&_&_&_&L7&_); cbn in L7; congruence ]
        end
    end.
Qed.

Lemma refresh_process_view c s cl tok rsc kw s' n r i sc :
  do_refresh_process c s cl tok rsc kw = (s', OTokens (Some n) r i sc) ->
  exists g t ta, find_tok tok s = Some (g, t) /\ tget n s' = Some ta /\ t_cls ta = Access /\ t_scope ta = sc /\
                 sc = match rsc with Some x => x
                      | None => if c_oidc c then fscope s (t_grant t) g (t_based t) else fscope s (t_grant t) g (Some tok) end.
Proof.
  unfold do_refresh_process. cbv zeta.
  repeat dm; subst; intros H; inversion H; subst; clear H;
    match goal with
    | Hm : mint ?s (t_grant ?t) Access (Some ?tok) _ _ _ _ = Ok (?s0, ?n), Hf : find_tok ?tok ?s = Some (?g, ?t) |- _ =>
        let B := fresh "B" in
        pose proof Hm as Hnew; apply mint_new in Hnew as (tn0&Hn0&_&Hcls&_);
        pose proof Hm as Htn; apply mint_scope in Htn as (tn&g1&Htn&Hg1&Hid&Hsc);
        pose proof (find_tok_tget _ _ _ _ Hf) as (Ht&Hg);
        rewrite Hg in Hg1; inversion Hg1; subst g1;
        rewrite Hn0 in Htn; inversion Htn; subst tn0;
        assert (tok <> n) as Hne by (subst n; intro Eq; unfold tget in Ht; rewrite Eq in Ht;
                                     assert (nth_error (toks s) (length (toks s)) = None) by (apply nth_error_None; lia); congruence);
        match goal with
        | |- exists g0 t0 ta, _ /\ tget n ?fin = Some ta /\ _ =>
            assert (exists d, bump1 n s0 fin d) as (d&B) by (eexists; bump_chain);
            destruct (B _ Hn0) as (ta&Hta&L);
            exists g, t, ta; repeat split; auto;
            [ destruct L as (_&L2&_); cbn in L2; congruence
            | destruct L as (_&_&_&_&_&_&L7&_); cbn in L7; congruence ]
        end
    end.
Qed.
