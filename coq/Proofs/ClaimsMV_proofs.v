(* Proofs/ClaimsMV_proofs.v — C07, multi-valued user attributes: a released value of a value-restricted claim is a
   permitted value, whatever the shape of the attribute; a list-valued attribute is never released because SOME of its
   elements are permitted. *)
From Coq Require Import String List Bool.
From Verif Require Import Lib.Base Lib.PyStr Model.Claims Model.ClaimsMV Proofs.Claims_proofs.
Import ListNotations.
Open Scope string_scope.

Lemma spec_matches_permitted v s : spec_matches v s = permitted s v.
Proof.
  unfold permitted. induction s as [|i r IH]; [reflexivity|].
  destruct i; cbn [spec_matches permitted_values flat_map]; rewrite existsb_app, IH;
    cbn [existsb]; rewrite ?orb_false_r; reflexivity.
Qed.

Lemma essential_only_unrestricted s : is_essential_only s = true -> value_restricted s = false.
Proof. destruct s as [|[] [|]]; cbn; congruence. Qed.
Lemma restricted_not_essential_only s : value_restricted s = true -> is_essential_only s = false.
Proof. intros H. destruct (is_essential_only s) eqn:E; [|reflexivity]. apply essential_only_unrestricted in E. congruence. Qed.

(* the shape-wise description IS claims_match applied to the attribute as stored *)
Theorem release_attr_spec v c : release_attr v c = if claims_match (Some v) c then Some v else None.
Proof.
  destruct v; try reflexivity. destruct c as [s|]; [|reflexivity].
  cbn [release_attr claims_match]. rewrite spec_matches_permitted.
  destruct (permitted s (VList l)); [reflexivity|]. destruct (is_essential_only s); reflexivity.
Qed.

Theorem user_claims_by_shape ui r :
  user_claims ui r =
  List.flat_map (fun kv => match assoc (fst kv) ui with
                           | Some v => match release_attr v (snd kv) with Some x => [(fst kv, x)] | None => [] end
                           | None => [] end) r.
Proof.
  unfold user_claims. apply flat_map_ext. intros [k c]. cbn [fst snd].
  destruct (assoc k ui) as [v|]; [|reflexivity]. rewrite release_attr_spec.
  destruct (claims_match (Some v) c); reflexivity.
Qed.

(* a released value of a value-restricted claim equals (Python ==) a permitted value - for every attribute shape *)
Theorem released_value_permitted ui r k v :
  In (k, v) (user_claims ui r) ->
  exists spec, In (k, spec) r /\ assoc k ui = Some v /\
    forall s, spec = Some s -> value_restricted s = true ->
              exists p, In p (permitted_values s) /\ pyval_eqb v p = true.
Proof.
  intros H. apply released_bound in H as (spec & Hin & Hu & Hm & Hn). exists spec. repeat split; auto.
  intros s -> Hr. assert (Hs : spec_matches v s = true).
  { destruct v; try congruence; cbn [claims_match] in Hm;
      (destruct (spec_matches _ s); [reflexivity|]; rewrite (restricted_not_essential_only s Hr) in Hm; discriminate). }
  rewrite spec_matches_permitted in Hs. unfold permitted in Hs. apply existsb_exists in Hs as (p & Hp & He). eauto.
Qed.

(* only a list equals a list: a multi-valued attribute can only be released under a restriction that lists the LIST *)
Lemma list_eq_only_list l p : pyval_eqb (VList l) p = true -> is_list p = true.
Proof. destruct p; cbn; congruence. Qed.

Theorem released_list_permitted_as_a_whole ui r k l :
  In (k, VList l) (user_claims ui r) ->
  exists spec, In (k, spec) r /\
    forall s, spec = Some s -> value_restricted s = true ->
              exists p, In p (permitted_values s) /\ is_list p = true /\ pyval_eqb (VList l) p = true.
Proof.
  intros H. apply released_value_permitted in H as (spec & Hin & _ & H). exists spec. split; auto.
  intros s Hs Hr. destruct (H s Hs Hr) as (p & Hp & He). exists p. repeat split; auto. eapply list_eq_only_list; eauto.
Qed.

(* value by value: what left lies within the specification in force *)
Theorem released_values_within ui r k v :
  In (k, v) (user_claims ui r) -> exists spec, In (k, spec) r /\ values_within spec v = true.
Proof.
  intros H. apply released_value_permitted in H as (spec & Hin & _ & H). exists spec. split; auto.
  destruct spec as [s|]; [|reflexivity]. unfold values_within.
  destruct (value_restricted s) eqn:Hr; [|reflexivity]. cbn [negb orb].
  destruct (H s eq_refl Hr) as (p & Hp & He).
  assert (Hx : permitted s v = true) by (unfold permitted; apply existsb_exists; eauto). now rewrite Hx.
Qed.

(* SOME elements permitted is not enough: the attribute is withheld, nothing of it leaves *)
Theorem partial_match_withheld l s :
  value_restricted s = true -> permitted s (VList l) = false -> release_attr (VList l) (Some s) = None.
Proof.
  intros Hr Hp. cbn [release_attr]. rewrite Hp, (restricted_not_essential_only s Hr). reflexivity.
Qed.

Lemma no_list_not_permitted l vs : forallb (fun p => negb (is_list p)) vs = true -> existsb (pyval_eqb (VList l)) vs = false.
Proof.
  induction vs as [|p r IH]; [reflexivity|]. cbn [forallb existsb]. rewrite andb_true_iff. intros [Hp Hr].
  rewrite (IH Hr), orb_false_r. destruct p; cbn in *; congruence.
Qed.
(* a restriction to scalar values never lets a multi-valued attribute out *)
Theorem scalar_restriction_withholds_list l s :
  value_restricted s = true -> forallb (fun p => negb (is_list p)) (permitted_values s) = true ->
  release_attr (VList l) (Some s) = None.
Proof. intros Hr Hs. apply partial_match_withheld; auto. unfold permitted. now apply no_list_not_permitted. Qed.

(* ... at the level of the whole record: the claim does not appear among the released ones *)
Theorem multi_valued_withheld ui r k l s :
  NoDup (keys r) -> In (k, Some s) r -> assoc k ui = Some (VList l) ->
  value_restricted s = true -> permitted s (VList l) = false ->
  ~ In k (keys (user_claims ui r)).
Proof.
  intros Hn Hin Hu Hr Hp Hk. unfold keys in Hk. apply in_map_iff in Hk as ([k' v] & Hf & Hk). cbn in Hf. subst k'.
  apply released_bound in Hk as (spec & Hin2 & Hu2 & Hm & _).
  pose proof (In_assoc _ _ _ Hn Hin) as A1. pose proof (In_assoc _ _ _ Hn Hin2) as A2. rewrite A1 in A2. inversion A2; subst spec.
  rewrite Hu in Hu2. inversion Hu2; subst v.
  pose proof (release_attr_spec (VList l) (Some s)) as E. rewrite Hm, partial_match_withheld in E; auto. discriminate.
Qed.

(* no value restriction: null specification, or `essential` alone - the whole list (also the empty one) is released *)
Theorem multi_valued_unrestricted l :
  release_attr (VList l) None = Some (VList l) /\ forall b, release_attr (VList l) (Some [SEssential b]) = Some (VList l).
Proof. split; [reflexivity|]. intros b. reflexivity. Qed.
