(* Proofs/Claims_proofs.v — released claims are bounded by what the configuration, the token's scopes and the
   claims request permit. *)
From Coq Require Import String List Bool.
From Verif Require Import Lib.Base Lib.PyStr Model.Claims.
Import ListNotations.
Open Scope string_scope.

Definition keys {V} (d : list (pystr * V)) : list pystr := List.map fst d.

Lemma aset_keys {V} k (v : V) d x : In x (keys (aset k v d)) -> x = k \/ In x (keys d).
Proof.
  induction d as [|[k' v'] r IH]; cbn.
  - intros [H|[]]; auto.
  - destruct (str_eqb k k') eqn:E; cbn.
    + intros [H|H]; auto.
    + intros [H|H]; auto. destruct (IH H); auto.
Qed.
Lemma update_keys u : forall d x, In x (keys (update d u)) -> In x (keys d) \/ In x (keys u).
Proof.
  induction u as [|[k v] r IH]; intros d x H; cbn in *; auto.
  destruct (IH _ _ H) as [H1|H1]; auto. destruct (aset_keys _ _ _ _ H1) as [->|H2]; auto.
Qed.

(* what get_user_claims returns was permitted by the restriction, is the user's own value, matched its spec, and is not null *)
Theorem released_bound ui r k v :
  In (k, v) (user_claims ui r) ->
  exists spec, In (k, spec) r /\ assoc k ui = Some v /\ claims_match (Some v) spec = true /\ v <> VNone.
Proof.
  unfold user_claims. intros H. apply in_flat_map in H as ([k' spec]&Hin&H). cbn [fst snd] in H.
  destruct (assoc k' ui) as [v'|] eqn:E; [|destruct H].
  destruct (claims_match (Some v') spec) eqn:Em; [|destruct H]. destruct H as [H|[]]. inversion H; subst.
  exists spec. repeat split; auto. intros ->. discriminate.
Qed.
Theorem no_restriction_no_claims ui : user_claims ui [] = [].
Proof. reflexivity. Qed.

(* the keys of the restriction come from the four sources and nowhere else *)
Definition always_keys (a : option always_cfg) : list pystr :=
  match a with Some (AList l) => l | Some (ADict d) => keys d | None => [] end.
Definition scope_claim (pm : scope_map) (cl : option client_cfg) (scopes : list pystr) (k : pystr) : Prop :=
  In k (keys (scopes_to_claims pm (match cl with Some c => c.(c_allowed_scopes) | None => None end)
                               (match cl with Some c => c.(c_scope_map) | None => None end) scopes)).

Lemma map_none_keys l : keys (List.map (fun k : pystr => (k, @None (list spec_item))) l) = l.
Proof. unfold keys. rewrite map_map. cbn. apply map_id. Qed.

Theorem restriction_sources pm m cl point secondary scopes req k :
  In k (keys (get_claims pm m cl point secondary scopes req)) ->
  In k (keys m.(m_base))
  \/ In k (always_keys m.(m_always))
  \/ (exists c, cl = Some c /\ m.(m_per_client) = true /\ In k (snd (client_claims m c point secondary)))
  \/ scope_claim pm cl scopes k
  \/ In k (keys req).
Proof.
  unfold get_claims.
  set (ba := match cl with
             | Some c => if m_per_client m then let '(b, a) := client_claims m c point secondary in (b, Some (AList a)) else (m_by_scope m, m_always m)
             | None => (m_by_scope m, m_always m) end).
  destruct ba as [by_scope always] eqn:Eba.
  intros H.
  assert (Hreq : forall r2, In k (keys match req with [] => r2 | _ :: _ => update r2 req end) -> In k (keys r2) \/ In k (keys req)).
  { intros r2 Hk. destruct req; auto. now apply update_keys. }
  apply Hreq in H as [H|H]; [|auto 6].
  assert (Hsc : forall r1, In k (keys (if by_scope then match scopes with [] => r1 | _ :: _ => update r1
                   (scopes_to_claims pm match cl with Some c => c_allowed_scopes c | None => None end
                                        match cl with Some c => c_scope_map c | None => None end scopes) end else r1)) ->
                           In k (keys r1) \/ scope_claim pm cl scopes k).
  { intros r1 Hk. destruct by_scope; auto. destruct scopes; auto. apply update_keys in Hk as [Hk|Hk]; auto. }
  apply Hsc in H as [H|H]; [|auto 6].
  (* the always-add part *)
  assert (Hal : In k (keys (m_base m)) \/ In k (always_keys always)).
  { destruct always as [[l|d]|]; cbn [always_keys].
    - destruct l; auto. apply update_keys in H as [H|H]; auto. rewrite map_none_keys in H. auto.
    - destruct d; auto. apply update_keys in H as [H|H]; auto.
    - auto. }
  destruct Hal as [Hal|Hal]; auto.
  unfold ba in Eba. destruct cl as [c|].
  - destruct (m_per_client m) eqn:Ep.
    + destruct (client_claims m c point secondary) as [b a] eqn:Ec. inversion Eba; subst. cbn [always_keys] in Hal.
      right; right; left. exists c. repeat split; auto. now rewrite Ec.
    + inversion Eba; subst. auto.
  - inversion Eba; subst. auto.
Qed.

(* scope-derived claims come from a scope the token carries that the client is allowed *)
Theorem scope_claim_from_allowed_scope pm allowed cmap scopes k :
  In k (keys (scopes_to_claims pm allowed cmap scopes)) ->
  exists s, In s scopes /\ In s (match allowed with Some a => a | None => List.map fst pm end).
Proof.
  unfold scopes_to_claims, convert_scopes2claims. intros H. apply update_keys in H as [[]|H].
  unfold keys in H. apply in_map_iff in H as ([k' sp]&Hk&H). apply in_flat_map in H as (s&Hs&_).
  unfold filter_scopes in Hs. apply filter_In in Hs as [Hs1 Hs2]. apply str_in_In in Hs2. eauto.
Qed.

(* claims_match never lets a null through, and a null spec matches everything else *)
Theorem claims_match_null c : claims_match (Some VNone) c = false /\ claims_match None c = false.
Proof. split; reflexivity. Qed.

(* ---- the order in which the scopes are listed does not matter: the restriction derived from the scopes has the same
   claim names, each with the null ("anything") specification ---- *)
Lemma aset_keys_rev {V} k (v : V) d x : x = k \/ In x (keys d) -> In x (keys (aset k v d)).
Proof.
  induction d as [|[k' v'] r IH]; cbn.
  - intros [->|[]]; auto.
  - destruct (str_eqb k k') eqn:E; cbn.
    + apply str_eqb_eq in E. subst k'. intros [->|[H|H]]; auto.
    + intros [->|[H|H]]; auto.
Qed.
Lemma update_keys_rev u : forall d x, In x (keys d) \/ In x (keys u) -> In x (keys (update d u)).
Proof.
  induction u as [|[k v] r IH]; intros d x H; cbn in *; [tauto|].
  apply IH. destruct H as [H|[->|H]]; auto; left; apply aset_keys_rev; auto.
Qed.
Definition all_null (d : restriction) : Prop := forall x s, assoc x d = Some s -> s = None.
Lemma all_null_aset k d : all_null d -> all_null (aset k None d).
Proof.
  intros H x s. destruct (str_eqb k x) eqn:E.
  - apply str_eqb_eq in E. subst. rewrite assoc_aset_same. intro H1. now inversion H1.
  - apply str_eqb_neq in E. rewrite assoc_aset_other by auto. apply H.
Qed.
Lemma all_null_update u : forall d, all_null d -> (forall k v, In (k, v) u -> v = None) -> all_null (update d u).
Proof.
  induction u as [|[k v] r IH]; intros d Hd Hu; cbn; auto.
  apply IH; [|intros k' v' Hin; apply (Hu k' v'); now right].
  rewrite (Hu k v) by now left. now apply all_null_aset.
Qed.
Lemma keys_flat_map {A V} (f : A -> list (pystr * V)) l k :
  In k (keys (flat_map f l)) <-> exists a, In a l /\ In k (keys (f a)).
Proof.
  unfold keys. rewrite in_map_iff. split.
  - intros ([k' v]&E&H). apply in_flat_map in H as (a&Ha&Hf). exists a. split; auto. apply in_map_iff. exists (k', v). auto.
  - intros (a&Ha&H). apply in_map_iff in H as ([k' v]&E&Hf). exists (k', v). split; auto. apply in_flat_map. eauto.
Qed.
Theorem scope_order_irrelevant pm allowed cmap s1 s2 :
  (forall x, In x s1 <-> In x s2) ->
  (forall k, In k (keys (scopes_to_claims pm allowed cmap s1)) <-> In k (keys (scopes_to_claims pm allowed cmap s2)))
  /\ all_null (scopes_to_claims pm allowed cmap s1) /\ all_null (scopes_to_claims pm allowed cmap s2).
Proof.
  intros Hs. unfold scopes_to_claims, convert_scopes2claims.
  set (al := match allowed with Some a => a | None => List.map fst pm end).
  set (m := match cmap with Some ((_ :: _) as cm) => cm | _ => pm end).
  set (f := fun s : pystr => match assoc s m with Some cl => List.map (fun c => (c, @None (list spec_item))) cl | None => [] end).
  assert (Hf : forall a b, (forall x, In x a <-> In x b) ->
               forall k, In k (keys (update [] (flat_map f (filter_scopes al a)))) -> In k (keys (update [] (flat_map f (filter_scopes al b))))).
  { intros a b Hab k H. apply update_keys in H as [[]|H]. apply update_keys_rev. right.
    apply keys_flat_map in H as (s&Hin&Hk). apply keys_flat_map. exists s. split; auto.
    unfold filter_scopes in *. apply filter_In in Hin as [H1 H2]. apply filter_In. split; auto. now apply Hab. }
  assert (Hn : forall a, all_null (update [] (flat_map f (filter_scopes al a)))).
  { intros a. apply all_null_update; [intros x s H; discriminate|].
    intros k v H. apply in_flat_map in H as (s&_&H). unfold f in H. destruct (assoc s m); [|destruct H].
    apply in_map_iff in H as (c&E&_). now inversion E. }
  split; [|split; apply Hn].
  intros k. split; apply Hf; auto. intros x. symmetry. apply Hs.
Qed.
