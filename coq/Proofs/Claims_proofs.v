(* Proofs/Claims_proofs.v — released claims are bounded by what the configuration, the token's scopes and the
   claims request permit. *)
From Coq Require Import String List Bool.
From Verif Require Import Lib.Base Lib.PyStr Model.Claims.
Import ListNotations.
Open Scope string_scope.

Definition keys {V} (d : list (pystr * V)) : list pystr := List.map fst d.

Lemma aset_keys {V} k (v : V) d x : In x (keys (aset k v d)) -> x = k \/ In x (keys d).
Proof.
  induction d as [|[k' v'] r IH]; cbn.
  - intros [H|[]]; auto.
  - destruct (str_eqb k k') eqn:E; cbn.
    + intros [H|H]; auto.
    + intros [H|H]; auto. destruct (IH H); auto.
Qed.
Lemma update_keys u : forall d x, In x (keys (update d u)) -> In x (keys d) \/ In x (keys u).
Proof.
  induction u as [|[k v] r IH]; intros d x H; cbn in *; auto.
  destruct (IH _ _ H) as [H1|H1]; auto. destruct (aset_keys _ _ _ _ H1) as [->|H2]; auto.
Qed.

(* what get_user_claims returns was permitted by the restriction, is the user's own value, matched its spec, and is not null *)
Theorem released_bound ui r k v :
  In (k, v) (user_claims ui r) ->
  exists spec, In (k, spec) r /\ assoc k ui = Some v /\ claims_match (Some v) spec = true /\ v <> VNone.
Proof.
  unfold user_claims. intros H. apply in_flat_map in H as ([k' spec]&Hin&H). cbn [fst snd] in H.
  destruct (assoc k' ui) as [v'|] eqn:E; [|destruct H].
  destruct (claims_match (Some v') spec) eqn:Em; [|destruct H]. destruct H as [H|[]]. inversion H; subst.
  exists spec. repeat split; auto. intros ->. discriminate.
Qed.
Theorem no_restriction_no_claims ui : user_claims ui [] = [].
Proof. reflexivity. Qed.

(* the keys of the restriction come from the four sources and nowhere else *)
Definition always_keys (a : option always_cfg) : list pystr :=
  match a with Some (AList l) => l | Some (ADict d) => keys d | None => [] end.
Definition scope_claim (pm : scope_map) (cl : option client_cfg) (scopes : list pystr) (k : pystr) : Prop :=
  In k (keys (scopes_to_claims pm (match cl with Some c => c.(c_allowed_scopes) | None => None end)
                               (match cl with Some c => c.(c_scope_map) | None => None end) scopes)).

Lemma map_none_keys l : keys (List.map (fun k : pystr => (k, @None (list spec_item))) l) = l.
Proof. unfold keys. rewrite map_map. cbn. apply map_id. Qed.

Theorem restriction_sources pm m cl point secondary scopes req k :
  In k (keys (get_claims pm m cl point secondary scopes req)) ->
  In k (keys m.(m_base))
  \/ In k (always_keys m.(m_always))
  \/ (exists c, cl = Some c /\ m.(m_per_client) = true /\ In k (snd (client_claims m c point secondary)))
  \/ scope_claim pm cl scopes k
  \/ In k (keys req).
Proof.
  unfold get_claims.
  set (ba := match cl with
             | Some c => if m_per_client m then let '(b, a) := client_claims m c point secondary in (b, Some (AList a)) else (m_by_scope m, m_always m)
             | None => (m_by_scope m, m_always m) end).
  destruct ba as [by_scope always] eqn:Eba.
  intros H.
  assert (Hreq : forall r2, In k (keys match req with [] => r2 | _ :: _ => update r2 req end) -> In k (keys r2) \/ In k (keys req)).
  { intros r2 Hk. destruct req; auto. now apply update_keys. }
  apply Hreq in H as [H|H]; [|auto 6].
  assert (Hsc : forall r1, In k (keys (if by_scope then match scopes with [] => r1 | _ :: _ => update r1
                   (scopes_to_claims pm match cl with Some c => c_allowed_scopes c | None => None end
                                        match cl with Some c => c_scope_map c | None => None end scopes) end else r1)) ->
                           In k (keys r1) \/ scope_claim pm cl scopes k).
  { intros r1 Hk. destruct by_scope; auto. destruct scopes; auto. apply update_keys in Hk as [Hk|Hk]; auto. }
  apply Hsc in H as [H|H]; [|auto 6].
  (* the always-add part *)
  assert (Hal : In k (keys (m_base m)) \/ In k (always_keys always)).
  { destruct always as [[l|d]|]; cbn [always_keys].
    - destruct l; auto. apply update_keys in H as [H|H]; auto. rewrite map_none_keys in H. auto.
    - destruct d; auto. apply update_keys in H as [H|H]; auto.
    - auto. }
  destruct Hal as [Hal|Hal]; auto.
  unfold ba in Eba. destruct cl as [c|].
  - destruct (m_per_client m) eqn:Ep.
    + destruct (client_claims m c point secondary) as [b a] eqn:Ec. inversion Eba; subst. cbn [always_keys] in Hal.
      right; right; left. exists c. repeat split; auto. now rewrite Ec.
    + inversion Eba; subst. auto.
  - inversion Eba; subst. auto.
Qed.

(* scope-derived claims come from a scope the token carries that the client is allowed *)
Theorem scope_claim_from_allowed_scope pm allowed cmap scopes k :
  In k (keys (scopes_to_claims pm allowed cmap scopes)) ->
  exists s, In s scopes /\ In s (match allowed with Some a => a | None => List.map fst pm end).
Proof.
  unfold scopes_to_claims, convert_scopes2claims. intros H. apply update_keys in H as [[]|H].
  unfold keys in H. apply in_map_iff in H as ([k' sp]&Hk&H). apply in_flat_map in H as (s&Hs&_).
  unfold filter_scopes in Hs. apply filter_In in Hs as [Hs1 Hs2]. apply str_in_In in Hs2. eauto.
Qed.

(* claims_match never lets a null through, and a null spec matches everything else *)
Theorem claims_match_null c : claims_match (Some VNone) c = false /\ claims_match None c = false.
Proof. split; reflexivity. Qed.

(* ---- the order in which the scopes are listed does not matter: the restriction derived from the scopes has the same
   claim names, each with the null ("anything") specification ---- *)
Lemma aset_keys_rev {V} k (v : V) d x : x = k \/ In x (keys d) -> In x (keys (aset k v d)).
Proof.
  induction d as [|[k' v'] r IH]; cbn.
  - intros [->|[]]; auto.
  - destruct (str_eqb k k') eqn:E; cbn.
    + apply str_eqb_eq in E. subst k'. intros [->|[H|H]]; auto.
    + intros [->|[H|H]]; auto.
Qed.
Lemma update_keys_rev u : forall d x, In x (keys d) \/ In x (keys u) -> In x (keys (update d u)).
Proof.
  induction u as [|[k v] r IH]; intros d x H; cbn in *; [tauto|].
  apply IH. destruct H as [H|[->|H]]; auto; left; apply aset_keys_rev; auto.
Qed.
Definition all_null (d : restriction) : Prop := forall x s, assoc x d = Some s -> s = None.
Lemma all_null_aset k d : all_null d -> all_null (aset k None d).
Proof.
  intros H x s. destruct (str_eqb k x) eqn:E.
  - apply str_eqb_eq in E. subst. rewrite assoc_aset_same. intro H1. now inversion H1.
  - apply str_eqb_neq in E. rewrite assoc_aset_other by auto. apply H.
Qed.
Lemma all_null_update u : forall d, all_null d -> (forall k v, In (k, v) u -> v = None) -> all_null (update d u).
Proof.
  induction u as [|[k v] r IH]; intros d Hd Hu; cbn; auto.
  apply IH; [|intros k' v' Hin; apply (Hu k' v'); now right].
  rewrite (Hu k v) by now left. now apply all_null_aset.
Qed.
Lemma keys_flat_map {A V} (f : A -> list (pystr * V)) l k :
  In k (keys (flat_map f l)) <-> exists a, In a l /\ In k (keys (f a)).
Proof.
  unfold keys. rewrite in_map_iff. split.
  - intros ([k' v]&E&H). apply in_flat_map in H as (a&Ha&Hf). exists a. split; auto. apply in_map_iff. exists (k', v). auto.
  - intros (a&Ha&H). apply in_map_iff in H as ([k' v]&E&Hf). exists (k', v). split; auto. apply in_flat_map. eauto.
Qed.
Theorem scope_order_irrelevant pm allowed cmap s1 s2 :
  (forall x, In x s1 <-> In x s2) ->
  (forall k, In k (keys (scopes_to_claims pm allowed cmap s1)) <-> In k (keys (scopes_to_claims pm allowed cmap s2)))
  /\ all_null (scopes_to_claims pm allowed cmap s1) /\ all_null (scopes_to_claims pm allowed cmap s2).
Proof.
  intros Hs. unfold scopes_to_claims, convert_scopes2claims.
  set (al := match allowed with Some a => a | None => List.map fst pm end).
  set (m := match cmap with Some ((_ :: _) as cm) => cm | _ => pm end).
  set (f := fun s : pystr => match assoc s m with Some cl => List.map (fun c => (c, @None (list spec_item))) cl | None => [] end).
  assert (Hf : forall a b, (forall x, In x a <-> In x b) ->
               forall k, In k (keys (update [] (flat_map f (filter_scopes al a)))) -> In k (keys (update [] (flat_map f (filter_scopes al b))))).
  { intros a b Hab k H. apply update_keys in H as [[]|H]. apply update_keys_rev. right.
    apply keys_flat_map in H as (s&Hin&Hk). apply keys_flat_map. exists s. split; auto.
    unfold filter_scopes in *. apply filter_In in Hin as [H1 H2]. apply filter_In. split; auto. now apply Hab. }
  assert (Hn : forall a, all_null (update [] (flat_map f (filter_scopes al a)))).
  { intros a. apply all_null_update; [intros x s H; discriminate|].
    intros k v H. apply in_flat_map in H as (s&_&H). unfold f in H. destruct (assoc s m); [|destruct H].
    apply in_map_iff in H as (c&E&_). now inversion E. }
  split; [|split; apply Hn].
  intros k. split; apply Hf; auto. intros x. symmetry. apply Hs.
Qed.

(* ================================================================================================================
   The token's own scope.  Every release point hands the scope of the PRESENTED (or minted) token to get_claims; the
   scope of the grant the token belongs to does not enter.  A token whose scope is narrower never releases more. *)

(* with an explicit token scope the grant's scope is irrelevant *)
Theorem grant_scope_irrelevant pm m cl point sec ts gs1 gs2 req ui :
  release_tok pm m cl point sec (Some ts) gs1 req ui = release_tok pm m cl point sec (Some ts) gs2 req ui.
Proof. reflexivity. Qed.
(* only a caller that hands in no scope at all gets the grant's *)
Theorem no_token_scope_is_grant_scope pm m cl point sec gs req ui :
  release_tok pm m cl point sec None gs req ui = release_tok pm m cl point sec (Some gs) gs req ui.
Proof. reflexivity. Qed.

(* everything released for a token with scope ts: permitted by base / always-add / the client's always-add / a claim
   mapped from a scope OF THE TOKEN (allowed for the client) / the claims request; the user's own non-null value *)
Theorem token_scope_bound pm m cl point sec ts gs req ui k v :
  In (k, v) (release_tok pm m cl point sec (Some ts) gs req ui) ->
  (In k (keys m.(m_base))
   \/ In k (always_keys m.(m_always))
   \/ (exists c, cl = Some c /\ m.(m_per_client) = true /\ In k (snd (client_claims m c point sec)))
   \/ (scope_claim pm cl ts k /\
       exists s, In s ts /\ In s (match (match cl with Some c => c.(c_allowed_scopes) | None => None end) with
                                  | Some a => a | None => List.map fst pm end))
   \/ In k (keys req))
  /\ assoc k ui = Some v /\ v <> VNone.
Proof.
  unfold release_tok, get_claims_tok, effective_scopes. intros H.
  apply released_bound in H as (spec & Hin & Hu & _ & Hn). split; [|auto].
  assert (Hk : In k (keys (get_claims pm m cl point sec ts req))).
  { unfold keys. apply in_map_iff. exists (k, spec). auto. }
  apply restriction_sources in Hk as [Hk|[Hk|[Hk|[Hk|Hk]]]]; auto 6.
  right; right; right; left. split; auto. unfold scope_claim in Hk.
  now apply scope_claim_from_allowed_scope in Hk.
Qed.

(* ---- dictionaries: entries, unique keys ---- *)
Lemma aset_entries {V} k (v : V) d e : In e (aset k v d) -> e = (k, v) \/ In e d.
Proof.
  induction d as [|[k' v'] r IH]; cbn.
  - intros [H|[]]; auto.
  - destruct (str_eqb k k') eqn:E; cbn.
    + apply str_eqb_eq in E. subst k'. intros [H|H]; auto.
    + intros [H|H]; auto. destruct (IH H); auto.
Qed.
Lemma update_entries u : forall d e, In e (update d u) -> In e d \/ In e u.
Proof.
  induction u as [|[k v] r IH]; intros d e H; cbn in *; auto.
  destruct (IH _ _ H) as [H1|H1]; auto. destruct (aset_entries _ _ _ _ H1) as [->|H2]; auto.
Qed.
Lemma aset_NoDup {V} k (v : V) d : NoDup (keys d) -> NoDup (keys (aset k v d)).
Proof.
  induction d as [|[k' v'] r IH]; cbn; intros H.
  - constructor; [intros []|constructor].
  - destruct (str_eqb k k') eqn:E; cbn; auto.
    inversion H as [|? ? Hn Hr]; subst. constructor; auto.
    intros Hin. apply aset_keys in Hin as [->|Hin]; auto.
    rewrite str_eqb_refl in E. discriminate.
Qed.
Lemma update_NoDup u : forall d, NoDup (keys d) -> NoDup (keys (update d u)).
Proof. induction u as [|[k v] r IH]; intros d H; cbn; auto. apply IH. now apply aset_NoDup. Qed.
Lemma In_assoc {V} k (s : V) d : NoDup (keys d) -> In (k, s) d -> assoc k d = Some s.
Proof.
  induction d as [|[k' v'] r IH]; cbn; intros Hn H; [destruct H|]. destruct H as [H|H].
  - inversion H; subst. now rewrite str_eqb_refl.
  - inversion Hn as [|? ? Hx Hr]; subst.
    destruct (str_eqb k k') eqn:E; auto.
    apply str_eqb_eq in E. subst k'. exfalso. apply Hx. unfold keys. apply in_map_iff. exists (k, s). auto.
Qed.
Lemma assoc_In {V} k (s : V) d : assoc k d = Some s -> In (k, s) d.
Proof.
  induction d as [|[k' v'] r IH]; cbn; [discriminate|].
  destruct (str_eqb k k') eqn:E; auto. apply str_eqb_eq in E. subst k'. intros H. inversion H. auto.
Qed.

(* dict.update with a dictionary whose values are all null *)
Definition null_entries (u : restriction) : Prop := forall k v, In (k, v) u -> v = None.
Lemma assoc_update_null u : null_entries u -> forall d k,
  assoc k (update d u) = if str_in k (keys u) then Some None else assoc k d.
Proof.
  induction u as [|[k0 v0] r IH]; intros Hu d k; [reflexivity|].
  assert (v0 = None) as -> by (apply (Hu k0); now left).
  change (update d ((k0, None) :: r)) with (update (aset k0 None d) r).
  change (keys ((k0, @None (list spec_item)) :: r)) with (k0 :: keys r).
  rewrite IH by (intros k' v' Hin; apply (Hu k'); now right). cbn [str_in].
  destruct (str_eqb k k0) eqn:E; cbn [orb].
  - apply str_eqb_eq in E. subst k0. destruct (str_in k (keys r)); auto. apply assoc_aset_same.
  - apply str_eqb_neq in E. destruct (str_in k (keys r)); auto. apply assoc_aset_other. congruence.
Qed.
Lemma scopes_to_claims_null pm allowed cmap s : null_entries (scopes_to_claims pm allowed cmap s).
Proof.
  unfold scopes_to_claims, convert_scopes2claims. intros k v H.
  apply update_entries in H as [[]|H]. apply in_flat_map in H as (sc & _ & H).
  destruct (assoc sc _); [|destruct H]. apply in_map_iff in H as (c & E & _). now inversion E.
Qed.
Lemma scopes_to_claims_mono pm allowed cmap s1 s2 :
  (forall x, In x s1 -> In x s2) ->
  forall k, In k (keys (scopes_to_claims pm allowed cmap s1)) -> In k (keys (scopes_to_claims pm allowed cmap s2)).
Proof.
  intros Hs k. unfold scopes_to_claims, convert_scopes2claims. intros H.
  apply update_keys in H as [[]|H]. apply update_keys_rev. right.
  apply keys_flat_map in H as (s & Hin & Hk). apply keys_flat_map. exists s. split; auto.
  unfold filter_scopes in *. apply filter_In in Hin as [H1 H2]. apply filter_In. split; auto.
Qed.

(* d2 permits whatever d1 permits: every claim of d1 is in d2 with the same or the null ("anything") specification *)
Definition permits_more (d1 d2 : restriction) : Prop :=
  forall k s1, assoc k d1 = Some s1 -> exists s2, assoc k d2 = Some s2 /\ (s2 = s1 \/ s2 = None).
Lemma permits_more_refl d : permits_more d d.
Proof. intros k s H. eauto. Qed.
Lemma permits_more_aset k v d1 d2 : permits_more d1 d2 -> permits_more (aset k v d1) (aset k v d2).
Proof.
  intros H x s1. destruct (str_eqb k x) eqn:E.
  - apply str_eqb_eq in E. subst x. rewrite !assoc_aset_same. intros H1. eauto.
  - apply str_eqb_neq in E. rewrite !assoc_aset_other by auto. apply H.
Qed.
Lemma permits_more_update u : forall d1 d2, permits_more d1 d2 -> permits_more (update d1 u) (update d2 u).
Proof. induction u as [|[k v] r IH]; intros d1 d2 H; cbn; auto. apply IH. now apply permits_more_aset. Qed.
Lemma permits_more_scopes pm allowed cmap s1 s2 d :
  (forall x, In x s1 -> In x s2) ->
  permits_more (update d (scopes_to_claims pm allowed cmap s1)) (update d (scopes_to_claims pm allowed cmap s2)).
Proof.
  intros Hs k sp. rewrite !assoc_update_null by apply scopes_to_claims_null.
  destruct (str_in k (keys (scopes_to_claims pm allowed cmap s1))) eqn:E1.
  - apply str_in_In in E1. apply (scopes_to_claims_mono _ _ _ _ _ Hs) in E1. apply str_in_In in E1. rewrite E1.
    intros H. eauto.
  - intros H. destruct (str_in k (keys (scopes_to_claims pm allowed cmap s2))); eauto.
Qed.

Lemma user_claims_intro ui r k v spec :
  In (k, spec) r -> assoc k ui = Some v -> claims_match (Some v) spec = true -> In (k, v) (user_claims ui r).
Proof.
  intros Hin Hu Hm. unfold user_claims. apply in_flat_map. exists (k, spec). split; auto. cbn [fst snd].
  rewrite Hu, Hm. now left.
Qed.
Lemma claims_match_null_spec v : v <> VNone -> claims_match (Some v) None = true.
Proof. destruct v; intros H; try reflexivity. congruence. Qed.
Lemma user_claims_mono ui r1 r2 k v :
  NoDup (keys r1) -> permits_more r1 r2 -> In (k, v) (user_claims ui r1) -> In (k, v) (user_claims ui r2).
Proof.
  intros Hn Hp H. apply released_bound in H as (spec & Hin & Hu & Hm & Hv).
  apply In_assoc in Hin; auto. apply Hp in Hin as (s2 & H2 & [->| ->]).
  - apply assoc_In in H2. eapply user_claims_intro; eauto.
  - apply assoc_In in H2. eapply user_claims_intro; eauto. now apply claims_match_null_spec.
Qed.

(* the restriction, written as three dict.update steps *)
Definition policy (m : module_cfg) (cl : option client_cfg) (point sec : pystr) : bool * option always_cfg :=
  match cl with
  | Some c => if m.(m_per_client) then let '(b, a) := client_claims m c point sec in (b, Some (AList a))
              else (m.(m_by_scope), m.(m_always))
  | None => (m.(m_by_scope), m.(m_always))
  end.
Definition with_always (m : module_cfg) (always : option always_cfg) : restriction :=
  match always with
  | Some (AList l) => update m.(m_base) (List.map (fun k => (k, @None (list spec_item))) l)
  | Some (ADict d) => update m.(m_base) d
  | None => m.(m_base)
  end.
Definition client_scopes_to_claims (pm : scope_map) (cl : option client_cfg) (scopes : list pystr) : restriction :=
  scopes_to_claims pm (match cl with Some c => c.(c_allowed_scopes) | None => None end)
                   (match cl with Some c => c.(c_scope_map) | None => None end) scopes.
Lemma get_claims_steps pm m cl point sec scopes req :
  get_claims pm m cl point sec scopes req =
  update (if fst (policy m cl point sec)
          then update (with_always m (snd (policy m cl point sec))) (client_scopes_to_claims pm cl scopes)
          else with_always m (snd (policy m cl point sec))) req.
Proof.
  unfold get_claims. fold (policy m cl point sec). destruct (policy m cl point sec) as [b a]. cbn [fst snd].
  unfold client_scopes_to_claims, with_always.
  destruct a as [[[|? ?]|[|? ?]]|]; destruct b; destruct scopes; destruct req; reflexivity.
Qed.
Lemma with_always_NoDup m a : NoDup (keys m.(m_base)) -> NoDup (keys (with_always m a)).
Proof. intros H. destruct a as [[l|d]|]; cbn; auto; now apply update_NoDup. Qed.
Lemma get_claims_NoDup pm m cl point sec scopes req :
  NoDup (keys m.(m_base)) -> NoDup (keys (get_claims pm m cl point sec scopes req)).
Proof.
  intros H. rewrite get_claims_steps. apply update_NoDup.
  destruct (fst (policy m cl point sec)); [apply update_NoDup|]; now apply with_always_NoDup.
Qed.

(* a narrower token scope permits no more ... *)
Theorem restriction_monotone_in_token_scope pm m cl point sec ts1 ts2 req :
  (forall s, In s ts1 -> In s ts2) ->
  permits_more (get_claims pm m cl point sec ts1 req) (get_claims pm m cl point sec ts2 req).
Proof.
  intros Hs. rewrite !get_claims_steps. apply permits_more_update.
  destruct (fst (policy m cl point sec)); [|apply permits_more_refl].
  unfold client_scopes_to_claims. now apply permits_more_scopes.
Qed.
(* ... and releases no more (base_claims is a Python dict: its keys are unique) *)
Theorem narrower_token_never_more pm m cl point sec ts1 ts2 gs1 gs2 req ui k v :
  NoDup (keys m.(m_base)) ->
  (forall s, In s ts1 -> In s ts2) ->
  In (k, v) (release_tok pm m cl point sec (Some ts1) gs1 req ui) ->
  In (k, v) (release_tok pm m cl point sec (Some ts2) gs2 req ui).
Proof.
  unfold release_tok, get_claims_tok, effective_scopes. intros Hn Hs.
  apply user_claims_mono; [now apply get_claims_NoDup|now apply restriction_monotone_in_token_scope].
Qed.
(* in particular a down-scoped token (scope within the grant's) releases nothing that a token carrying the whole scope
   of the grant would not release *)
Corollary downscoped_within_grant pm m cl point sec ts gs req ui k v :
  NoDup (keys m.(m_base)) ->
  (forall s, In s ts -> In s gs) ->
  In (k, v) (release_tok pm m cl point sec (Some ts) gs req ui) ->
  In (k, v) (release_tok pm m cl point sec None gs req ui).
Proof. intros Hn Hs. rewrite no_token_scope_is_grant_scope. now apply narrower_token_never_more. Qed.

(* ================================================================================================================
   ID Tokens minted by the authorization endpoint: the release point is a function of the response type.  Only for
   response type `id_token` alone do the client's USERINFO entries count as well; for every other response type the
   id_token rules alone decide what the ID Token of the authorization response shows. *)

Lemma id_token_alone_spec rt :
  id_token_alone rt = true <-> rt <> [] /\ forall w, In w rt -> w = W_id_token.
Proof.
  unfold id_token_alone. destruct rt as [|a r].
  - split; [discriminate|intros [H _]; congruence].
  - rewrite forallb_forall. split.
    + intros H. split; [discriminate|]. intros w Hw. now apply str_eqb_eq, H.
    + intros [_ H] w Hw. apply str_eqb_eq. auto.
Qed.
(* any other word in the response type (code, token) switches the secondary release point off *)
Lemma other_word_not_alone rt w : In w rt -> w <> W_id_token -> id_token_alone rt = false.
Proof.
  intros Hin Hw. destruct (id_token_alone rt) eqn:E; auto.
  apply id_token_alone_spec in E as [_ E]. elim Hw. auto.
Qed.
Theorem idt_release_point_alone rt : id_token_alone rt = true -> idt_release_point rt = (W_id_token, W_userinfo).
Proof. unfold idt_release_point. now intros ->. Qed.
Theorem idt_release_point_not_alone rt : id_token_alone rt = false -> idt_release_point rt = idt_release_point_token_endpoint.
Proof. unfold idt_release_point. now intros ->. Qed.

(* without a secondary release point the client's entries for the release point itself are all that counts *)
Lemma policy_primary m cl point : policy m cl point [] = (by_scope_rule m cl point, always_rule m cl point).
Proof.
  unfold policy, by_scope_rule, always_rule, client_claims, by_scope_at, always_at.
  destruct cl as [c|]; auto. destruct (m_per_client m); auto. rewrite app_nil_r.
  destruct (c_by_scope c) as [[|e d]|]; auto.
Qed.
(* with one, the always-add claims of both points count *)
Lemma client_claims_always m c point sec k :
  In k (snd (client_claims m c point sec)) -> In k (always_at c point) \/ In k (always_at c sec).
Proof.
  unfold client_claims, always_at. cbn [snd]. intros H. apply in_app_or in H as [H|H]; auto.
  destruct sec; [destruct H|auto].
Qed.

(* the sources of the restriction when there is no secondary release point, with the scope -> claims switch made explicit *)
Theorem restriction_sources_primary pm m cl point scopes req k :
  In k (keys (get_claims pm m cl point [] scopes req)) ->
  In k (keys m.(m_base))
  \/ ((cl = None \/ m.(m_per_client) = false) /\ In k (always_keys m.(m_always)))
  \/ (exists c, cl = Some c /\ m.(m_per_client) = true /\ In k (always_at c point))
  \/ (by_scope_rule m cl point = true /\ scope_claim pm cl scopes k)
  \/ In k (keys req).
Proof.
  rewrite get_claims_steps, policy_primary. cbn [fst snd]. intros H.
  apply update_keys in H as [H|H]; [|auto 6].
  assert (Ha : In k (keys (with_always m (always_rule m cl point))) ->
               In k (keys (m_base m)) \/ ((cl = None \/ m_per_client m = false) /\ In k (always_keys (m_always m)))
               \/ (exists c, cl = Some c /\ m_per_client m = true /\ In k (always_at c point))).
  { unfold always_rule. intros Hk.
    assert (Hw : forall a, In k (keys (with_always m a)) -> In k (keys (m_base m)) \/ In k (always_keys a)).
    { intros [[l|d]|] Hx; cbn in *; auto; apply update_keys in Hx as [Hx|Hx]; auto. rewrite map_none_keys in Hx. auto. }
    destruct cl as [c|].
    - destruct (m_per_client m) eqn:Ep.
      + apply Hw in Hk as [Hk|Hk]; auto. cbn in Hk. right; right. exists c. auto.
      + apply Hw in Hk as [Hk|Hk]; auto.
    - apply Hw in Hk as [Hk|Hk]; auto. }
  destruct (by_scope_rule m cl point) eqn:Eb.
  - apply update_keys in H as [H|H].
    + apply Ha in H as [H|[H|H]]; auto 6.
    + right; right; right; left. split; auto.
  - apply Ha in H as [H|[H|H]]; auto 6.
Qed.

(* The ID Token of an authorization response whose response type is not `id_token` alone (code id_token, id_token token,
   code id_token token) is bounded by the id_token rules: base claims of the ID Token handler, its always-add claims or -
   per-client claims on - the client's always-add claims FOR id_token, the claims of the token's scopes if the id_token
   scope switch is on, the claims request for id_token.  Nothing the client configured for userinfo is a source. *)
Theorem authz_idt_bound_id_token_rules pm m cl rt ts gs req ui k v :
  id_token_alone rt = false ->
  In (k, v) (release_authz_idt pm m cl rt (Some ts) gs req ui) ->
  (In k (keys m.(m_base))
   \/ ((cl = None \/ m.(m_per_client) = false) /\ In k (always_keys m.(m_always)))
   \/ (exists c, cl = Some c /\ m.(m_per_client) = true /\ In k (always_at c W_id_token))
   \/ (by_scope_rule m cl W_id_token = true /\ scope_claim pm cl ts k /\
       exists s, In s ts /\ In s (match (match cl with Some c => c.(c_allowed_scopes) | None => None end) with
                                  | Some a => a | None => List.map fst pm end))
   \/ In k (keys req))
  /\ assoc k ui = Some v /\ v <> VNone.
Proof.
  intros Hrt. unfold release_authz_idt. rewrite (idt_release_point_not_alone _ Hrt). cbn [fst snd idt_release_point_token_endpoint].
  unfold release_tok, get_claims_tok, effective_scopes. intros H.
  apply released_bound in H as (spec & Hin & Hu & _ & Hn). split; [|auto].
  assert (Hk : In k (keys (get_claims pm m cl W_id_token [] ts req))).
  { unfold keys. apply in_map_iff. exists (k, spec). auto. }
  apply restriction_sources_primary in Hk as [Hk|[Hk|[Hk|[[Hb Hk]|Hk]]]]; auto 6.
  right; right; right; left. split; auto. split; auto. unfold scope_claim in Hk.
  now apply scope_claim_from_allowed_scope in Hk.
Qed.

(* frame: two client configurations that agree on their id_token entries (and on the scope policy) get the same ID Token
   from the authorization endpoint for every response type other than `id_token` alone - whatever they say about
   userinfo, introspection, access_token *)
Lemma get_claims_primary_frame pm m c1 c2 point scopes req :
  by_scope_at c1 point = by_scope_at c2 point -> always_at c1 point = always_at c2 point ->
  c_allowed_scopes c1 = c_allowed_scopes c2 -> c_scope_map c1 = c_scope_map c2 ->
  get_claims pm m (Some c1) point [] scopes req = get_claims pm m (Some c2) point [] scopes req.
Proof.
  intros Hb Ha Hs Hm. rewrite !get_claims_steps, !policy_primary. cbn [fst snd].
  unfold by_scope_rule, always_rule, client_scopes_to_claims. now rewrite Hb, Ha, Hs, Hm.
Qed.
Theorem authz_idt_other_points_irrelevant pm m c1 c2 rt ts gs req ui :
  id_token_alone rt = false ->
  by_scope_at c1 W_id_token = by_scope_at c2 W_id_token -> always_at c1 W_id_token = always_at c2 W_id_token ->
  c_allowed_scopes c1 = c_allowed_scopes c2 -> c_scope_map c1 = c_scope_map c2 ->
  release_authz_idt pm m (Some c1) rt ts gs req ui = release_authz_idt pm m (Some c2) rt ts gs req ui.
Proof.
  intros Hrt Hb Ha Hs Hm. unfold release_authz_idt. rewrite (idt_release_point_not_alone _ Hrt).
  cbn [fst snd idt_release_point_token_endpoint]. unfold release_tok, get_claims_tok.
  now rewrite (get_claims_primary_frame pm m c1 c2 W_id_token _ req Hb Ha Hs Hm).
Qed.
Lemma assoc_remove_key {V} p q (d : list (pystr * V)) : q <> p -> assoc q (remove_key p d) = assoc q d.
Proof.
  intros Hq. induction d as [|[k v] r IH]; cbn; auto.
  destruct (str_eqb p k) eqn:E.
  - apply str_eqb_eq in E. subst k. rewrite IH. destruct (str_eqb q p) eqn:E2; auto. apply str_eqb_eq in E2. congruence.
  - cbn. now rewrite IH.
Qed.
(* in particular: everything the client configured for USERINFO (add_claims.always.userinfo, add_claims.by_scope.userinfo)
   contributes nothing to such an ID Token - a client that configures only userinfo gets the ID Token of a client without
   add_claims *)
Theorem authz_idt_userinfo_config_contributes_nothing pm m c rt ts gs req ui :
  id_token_alone rt = false ->
  release_authz_idt pm m (Some c) rt ts gs req ui = release_authz_idt pm m (Some (without_point W_userinfo c)) rt ts gs req ui.
Proof.
  intros Hrt. apply authz_idt_other_points_irrelevant; auto.
  - unfold by_scope_at, without_point. cbn. destruct (c_by_scope c); auto. symmetry. apply assoc_remove_key. vm_compute. discriminate.
  - unfold always_at, without_point. cbn. rewrite assoc_remove_key; auto. vm_compute. discriminate.
Qed.
(* the ID Token of the token endpoint: the same rules, whatever response type the authorization request had *)
Theorem token_endpoint_idt_is_id_token_rules pm m cl rt ts gs req ui :
  id_token_alone rt = false ->
  release_authz_idt pm m cl rt ts gs req ui =
  release_tok pm m cl (fst idt_release_point_token_endpoint) (snd idt_release_point_token_endpoint) ts gs req ui.
Proof. intros Hrt. unfold release_authz_idt. now rewrite (idt_release_point_not_alone _ Hrt). Qed.

(* response type `id_token` alone: the ID Token is the userinfo release as well - the always-add claims the client has for
   id_token or for userinfo, and nothing of any other release point *)
Theorem authz_idt_alone_bound pm m cl rt ts gs req ui k v :
  id_token_alone rt = true ->
  In (k, v) (release_authz_idt pm m cl rt (Some ts) gs req ui) ->
  (In k (keys m.(m_base))
   \/ In k (always_keys m.(m_always))
   \/ (exists c, cl = Some c /\ m.(m_per_client) = true /\ (In k (always_at c W_id_token) \/ In k (always_at c W_userinfo)))
   \/ (scope_claim pm cl ts k /\
       exists s, In s ts /\ In s (match (match cl with Some c => c.(c_allowed_scopes) | None => None end) with
                                  | Some a => a | None => List.map fst pm end))
   \/ In k (keys req))
  /\ assoc k ui = Some v /\ v <> VNone.
Proof.
  intros Hrt. unfold release_authz_idt. rewrite (idt_release_point_alone _ Hrt). cbn [fst snd]. intros H.
  apply token_scope_bound in H as [[H|[H|[(c & Hc & Hp & H)|[H|H]]]] Hu]; split; auto 6.
  right; right; left. exists c. split; auto. split; auto. now apply client_claims_always in H.
Qed.
