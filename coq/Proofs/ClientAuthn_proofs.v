(* Proofs/ClientAuthn_proofs.v — lemmas and proof scripts for property C01 over Model/ClientAuthn.v. *)
From Coq Require Import String.
From Verif Require Import Lib.Base Lib.PyStr Lib.Crypto Model.ClientAuthn.
Local Open Scope list_scope.

(* ------------------------------------------------------------------ small facts *)
Lemma meth_eqb_eq a b : meth_eqb a b = true <-> a = b.
Proof. destruct a, b; cbn; split; intro H; try reflexivity; try discriminate. Qed.

Lemma meth_in_In m l : meth_in m l = true <-> In m l.
Proof.
  unfold meth_in. rewrite existsb_exists. split.
  - intros [x [Hx He]]. apply meth_eqb_eq in He. now subst.
  - intros H. exists m. split; [exact H|now apply meth_eqb_eq].
Qed.

Lemma intersects_spec a b : intersects a b = true -> exists x, In x a /\ In x b.
Proof.
  induction a as [|x r IH]; cbn; [discriminate|].
  intros H. apply orb_true_iff in H as [H|H].
  - apply str_in_In in H. exists x. auto.
  - destruct (IH H) as [y [Hy1 Hy2]]. exists y. auto.
Qed.

(* ------------------------------------------------------------------ specification vocabulary *)
(* the signature on j verifies under a key of the right type the key jar holds for X that the kid header selects
   (issuer_sel: the keys carrying that kid; for a header without kid the single key of that type), or (HMAC only)
   under one of the provider's own symmetric keys *)
Definition signed_by_client (cx : actx) (X : pystr) (j : jwt) : Prop :=
  exists v, key_verifies (j_alg j) (j_key j) v = true /\
    ((exists l, assoc X (kj_iss (cx_kj cx)) = Some l /\ In v (issuer_sel (cx_kj cx) (j_alg j) (j_kid j) l))
     \/ (j_alg j = AlgHS /\ In v (kj_own (cx_kj cx)))).

(* issued by X, inside its validity window (15 s skew), and its jti - if any - was not in the replay
   cache before and is in it afterwards *)
Definition jwt_fresh (X : pystr) (j : jwt) (now : Z) (jdb jdb' : jti_db) : Prop :=
  j_iss j = Some X
  /\ (forall e, j_exp j = Some e -> (now < e + skew)%Z)
  /\ (forall n, j_nbf j = Some n -> (n <= now - skew)%Z)
  /\ (forall t, j_jti j = Some t -> ~ In (jti_key X t) jdb /\ In (jti_key X t) jdb').

Definition aud_ok (ep : endpoint) (j : jwt) : Prop :=
  exists aud a, j_aud j = Some aud /\ In a aud /\ In a (ep_targets ep).

Definition secret_of (cx : actx) (X p : pystr) : Prop :=
  exists c, assoc X (cx_cdb cx) = Some c /\ c_secret c = Some p.

(* "accepted as X through method m" is backed by a credential: the property's disjunction *)
Inductive credential_ok (cx : actx) (ep : endpoint) (rq : request) (now : Z) (jdb jdb' : jti_db) (X : pystr)
  : meth -> Prop :=
| CO_basic s p :
    r_hdr rq = HBasicText s -> split1_c colon s = Some (X, p) -> secret_of cx X p ->
    credential_ok cx ep rq now jdb jdb' X MBasic
| CO_post p :
    r_client_id rq = Some X -> r_client_secret rq = Some p -> secret_of cx X p ->
    credential_ok cx ep rq now jdb jdb' X MPost
| CO_secret_jwt j :
    r_assertion rq = Some (Jwt j) -> j_alg j = AlgHS -> signed_by_client cx X j ->
    hs_key_is_secret cx X (j_kid j) = true -> aud_ok ep j -> jwt_fresh X j now jdb jdb' ->
    credential_ok cx ep rq now jdb jdb' X MSecretJwt
| CO_private_jwt j :
    r_assertion rq = Some (Jwt j) -> (j_alg j = AlgRS \/ j_alg j = AlgES) -> signed_by_client cx X j ->
    aud_ok ep j -> jwt_fresh X j now jdb jdb' ->
    credential_ok cx ep rq now jdb jdb' X MPrivateJwt
| CO_request_param j :       (* NB: no audience condition — RequestParam._verify checks none *)
    r_request rq = Some (Jwt j) -> j_alg j <> AlgNone -> signed_by_client cx X j ->
    jwt_fresh X j now jdb jdb' ->
    credential_ok cx ep rq now jdb jdb' X MRequestParam
| CO_bearer_header t :
    r_hdr rq = HBearer t -> (ep_lookup ep = true /\ cx_tok cx t = TokClient X) \/ X = [] ->
    credential_ok cx ep rq now jdb jdb' X MBearerHeader
| CO_bearer_body t :
    r_access_token rq = Some t -> ep_lookup ep = true -> cx_tok cx t = TokClient X ->
    credential_ok cx ep rq now jdb jdb' X MBearerBody.

(* ------------------------------------------------------------------ the replay cache only grows *)
Definition extends (jdb jdb' : jti_db) : Prop := exists ext, jdb' = jdb ++ ext.
Lemma extends_refl j : extends j j.
Proof. exists []. now rewrite app_nil_r. Qed.
Lemma extends_trans a b c : extends a b -> extends b c -> extends a c.
Proof. intros [x ->] [y ->]. exists (x ++ y). now rewrite app_assoc. Qed.
Lemma extends_In a b k : extends a b -> In k a -> In k b.
Proof. intros [x ->] H. apply in_or_app. now left. Qed.

Lemma jti_then_client_extends m j jdb r jdb' : jti_then_client m j jdb = (r, jdb') -> extends jdb jdb'.
Proof.
  unfold jti_then_client. intros H.
  destruct (j_jti j) as [t|]; destruct (j_iss j) as [i|]; try (inversion H; subst; apply extends_refl).
  destruct (str_in (jti_key i t) jdb); inversion H; subst; [apply extends_refl|].
  now exists [jti_key i t].
Qed.

Lemma jws_verify_extends cx ep now m hs t jdb r jdb' :
  jws_verify cx ep now m hs t jdb = (r, jdb') -> extends jdb jdb'.
Proof.
  unfold jws_verify. intros H.
  destruct (unpack (cx_kj cx) now t); try (inversion H; subst; apply extends_refl).
  destruct t as [|j]; try (inversion H; subst; apply extends_refl).
  destruct (negb (key_type_ok cx hs j)); try (inversion H; subst; apply extends_refl).
  destruct (j_aud j) as [aud|]; try (inversion H; subst; apply extends_refl).
  destruct (negb (intersects aud (ep_targets ep))); try (inversion H; subst; apply extends_refl).
  eapply jti_then_client_extends; eauto.
Qed.

Lemma request_param_verify_extends cx now t jdb r jdb' :
  request_param_verify cx now t jdb = (r, jdb') -> extends jdb jdb'.
Proof.
  unfold request_param_verify. intros H.
  destruct (unpack (cx_kj cx) now t); try (inversion H; subst; apply extends_refl).
  destruct t as [|j]; try (inversion H; subst; apply extends_refl).
  eapply jti_then_client_extends; eauto.
Qed.

Ltac inv_refl H := inversion H; subst; apply extends_refl.

Lemma verify_method_extends cx ep rq now jdb m r jdb' :
  verify_method cx ep rq now jdb m = (r, jdb') -> extends jdb jdb'.
Proof.
  destruct m; cbn [verify_method]; intros H.
  - destruct (r_hdr rq); try inv_refl H. destruct (split1_c colon s) as [[id sec]|]; inv_refl H.
  - destruct (r_client_id rq), (r_client_secret rq); inv_refl H.
  - destruct (r_hdr rq); try inv_refl H.
    destruct (ep_lookup ep); [destruct (cx_tok cx t)|]; inv_refl H.
  - destruct (r_access_token rq) as [t|]; try inv_refl H.
    destruct (ep_lookup ep); [|inv_refl H].
    destruct (cx_tok cx t) as [[|x c]| | |]; inv_refl H.
  - destruct (r_assertion rq); [eapply jws_verify_extends; eauto|inv_refl H].
  - destruct (r_assertion rq); [eapply jws_verify_extends; eauto|inv_refl H].
  - destruct (r_request rq); [eapply request_param_verify_extends; eauto|inv_refl H].
  - destruct (r_client_id rq); inv_refl H.
  - inv_refl H.
Qed.

Lemma loop_extends cx ep rq now ms : forall jdb r jdb',
  loop cx ep rq now ms jdb = (r, jdb') -> extends jdb jdb'.
Proof.
  induction ms as [|m rest IH]; intros jdb r jdb' H; cbn [loop] in H.
  - inv_refl H.
  - destruct (usable rq m); [|eauto].
    destruct (verify_method cx ep rq now jdb m) as [v j1] eqn:Ev.
    apply verify_method_extends in Ev.
    destruct v as [ai|e|].
    + destruct (after_verify cx ep now ai).
      * inversion H; subst; exact Ev.
      * inversion H; subst; exact Ev.
      * eapply extends_trans; eauto.
    + inversion H; subst; exact Ev.
    + eapply extends_trans; eauto.
Qed.

Lemma client_authentication_extends cx ep rq now jdb r jdb' :
  client_authentication cx ep rq now jdb = (r, jdb') -> extends jdb jdb'.
Proof.
  unfold client_authentication, verify_client. intros H.
  destruct (loop cx ep rq now (effective_methods ep) jdb) as [r0 j1] eqn:El.
  apply loop_extends in El.
  destruct r0 as [[ai|]|e|]; try (inversion H; subst; exact El).
  destruct (ep_methods ep); inversion H; subst; exact El.
Qed.

(* ------------------------------------------------------------------ what a successful method established *)
Lemma jti_then_client_ok m j jdb ai jdb' :
  jti_then_client m j jdb = (VOk ai, jdb') ->
  exists i, j_iss j = Some i /\ ai = {| ai_client := Some i; ai_method := m; ai_token := None |}
    /\ (forall t, j_jti j = Some t -> ~ In (jti_key i t) jdb /\ In (jti_key i t) jdb').
Proof.
  unfold jti_then_client. intros H.
  destruct (j_jti j) as [t|] eqn:Ej; destruct (j_iss j) as [i|] eqn:Ei; try discriminate.
  - destruct (str_in (jti_key i t) jdb) eqn:Es; [discriminate|].
    inversion H; subst. exists i. split; [reflexivity|]. split; [reflexivity|].
    intros t' Ht. inversion Ht; subst. split.
    + intro Hin. apply str_in_In in Hin. congruence.
    + apply in_or_app. right. now left.
  - inversion H; subst. exists i. split; [reflexivity|]. split; [reflexivity|]. intros t Ht. discriminate.
Qed.

Lemma existsb_key_verifies a k ks :
  existsb (key_verifies a k) ks = true -> exists v, In v ks /\ key_verifies a k v = true.
Proof. intro H. apply existsb_exists in H. exact H. Qed.

Lemma key_verifies_type a k v : key_verifies a k v = true -> vkey_is a v = true.
Proof. destruct a, k, v; cbn; intro H; try discriminate; reflexivity. Qed.

Lemma filter_single_in {A} (f : A -> bool) l v x : filter f l = [v] -> In x l -> f x = true -> x = v.
Proof.
  intros Hf Hin Hx. assert (In x (filter f l)) as H by (apply filter_In; auto).
  rewrite Hf in H. destruct H as [H|[]]. now symmetry.
Qed.

Lemma with_kid_in kj k ks v : In v (with_kid kj k ks) -> In v ks /\ kid_of kj v = k.
Proof. unfold with_kid. intro H. apply filter_In in H as [H1 H2]. apply str_eqb_eq in H2. auto. Qed.

Lemma pick_in kj kid ks v : In v (pick kj kid ks) -> In v ks.
Proof. unfold pick. destruct (kid_given kid); [intro H; apply with_kid_in in H; tauto|auto]. Qed.

Lemma issuer_sel_in kj a kid l v : In v (issuer_sel kj a kid l) -> In v l /\ vkey_is a v = true.
Proof.
  unfold issuer_sel. destruct (kid_given kid) as [k|].
  - intro H. apply with_kid_in in H as [H _]. apply filter_In in H. exact H.
  - destruct (filter (vkey_is a) l) as [|k [|k2 r]] eqn:Ef.
    + intros [].
    + intros [<-|[]]. apply filter_In. rewrite Ef. now left.
    + intros [].
Qed.

Lemma candidates_in kj a kid i ks v :
  candidates kj a kid (Some i) = Some ks -> In v ks ->
  (exists l, assoc i (kj_iss kj) = Some l /\ In v (issuer_sel kj a kid l))
  \/ (a = AlgHS /\ In v (kj_own kj)).
Proof.
  unfold candidates. destruct (assoc i (kj_iss kj)) as [l|] eqn:El; [|discriminate].
  intros H Hin. inversion H; subst; clear H.
  apply in_app_or in Hin as [Hin|Hin].
  - left. exists l. split; [reflexivity|exact Hin].
  - right. destruct a; try (destruct Hin; fail). split; [reflexivity|].
    apply pick_in in Hin. apply filter_In in Hin. tauto.
Qed.

Lemma time_ok_spec j now :
  time_ok j now = true ->
  (forall e, j_exp j = Some e -> (now < e + skew)%Z) /\ (forall n, j_nbf j = Some n -> (n <= now - skew)%Z).
Proof.
  unfold time_ok. intro H. apply andb_true_iff in H as [H _]. apply andb_true_iff in H as [Hn He].
  split.
  - intros e Ee. rewrite Ee in He. now apply Z.ltb_lt.
  - intros n En. rewrite En in Hn. now apply Z.leb_le.
Qed.

(* JWT.unpack succeeded on a token with an iss claim *)
Lemma unpack_ok cx now j i :
  unpack (cx_kj cx) now (Jwt j) = UOk -> j_iss j = Some i ->
  j_alg j <> AlgNone /\ signed_by_client cx i j /\ time_ok j now = true.
Proof.
  unfold unpack. intros H Hi.
  destruct (j_alg j) eqn:Ea; [discriminate| | |];
    (destruct (candidates (cx_kj cx) _ _ (j_iss j)) as [[|k ks]|] eqn:Ec; try discriminate;
     destruct (existsb _ (k :: ks)) eqn:Ex; try discriminate;
     destruct (time_ok j now) eqn:Et; try discriminate;
     split; [discriminate|]; split; [|reflexivity];
     apply existsb_key_verifies in Ex as [v [Hv Hk]];
     rewrite Hi in Ec; destruct (candidates_in _ _ _ _ _ _ Ec Hv) as [Hc|Hc];
     exists v; rewrite Ea; (split; [exact Hk|]); [left; exact Hc|right; exact Hc]).
Qed.

Lemma key_type_ok_spec cx hs j :
  key_type_ok cx hs j = true ->
  (hs = true -> j_alg j = AlgHS /\ exists i, j_iss j = Some i /\ hs_key_is_secret cx i (j_kid j) = true)
  /\ (hs = false -> j_alg j <> AlgHS).
Proof.
  unfold key_type_ok. destruct (j_alg j) eqn:Ea; destruct hs; cbn; intro H; try discriminate;
    (split; intro Hh; try discriminate; try (intro; discriminate)).
  split; [reflexivity|]. destruct (j_iss j) as [i|]; [|discriminate]. exists i. auto.
Qed.

Lemma jws_verify_ok cx ep now m hs t jdb ai jdb' :
  jws_verify cx ep now m hs t jdb = (VOk ai, jdb') ->
  exists j i, t = Jwt j /\ j_iss j = Some i
    /\ ai = {| ai_client := Some i; ai_method := m; ai_token := None |}
    /\ j_alg j <> AlgNone /\ signed_by_client cx i j /\ aud_ok ep j /\ jwt_fresh i j now jdb jdb'
    /\ (hs = true -> j_alg j = AlgHS /\ hs_key_is_secret cx i (j_kid j) = true)
    /\ (hs = false -> j_alg j <> AlgHS).
Proof.
  unfold jws_verify. intros H.
  destruct (unpack (cx_kj cx) now t) eqn:Eu; try discriminate.
  destruct t as [|j]; [discriminate|].
  destruct (key_type_ok cx hs j) eqn:Ek; cbn [negb] in H; [|discriminate].
  destruct (j_aud j) as [aud|] eqn:Eaud; [|discriminate].
  destruct (intersects aud (ep_targets ep)) eqn:Ei; cbn [negb] in H; [|discriminate].
  apply jti_then_client_ok in H as [i [Hi [Hai Hj]]].
  destruct (unpack_ok _ _ _ _ Eu Hi) as [Hna [Hs Ht]].
  apply time_ok_spec in Ht as [He Hn].
  apply key_type_ok_spec in Ek as [Kt Kf].
  exists j, i. repeat split; auto.
  - apply intersects_spec in Ei as [a [Ha1 Ha2]]. exists aud, a. auto.
  - apply Hj; assumption.
  - apply Hj; assumption.
  - apply Kt; assumption.
  - destruct (Kt H) as [_ [i' [Hi' Hk]]]. rewrite Hi in Hi'. inversion Hi'; subst. exact Hk.
Qed.

Lemma request_param_verify_ok cx now t jdb ai jdb' :
  request_param_verify cx now t jdb = (VOk ai, jdb') ->
  exists j i, t = Jwt j /\ j_iss j = Some i
    /\ ai = {| ai_client := Some i; ai_method := MRequestParam; ai_token := None |}
    /\ j_alg j <> AlgNone /\ signed_by_client cx i j /\ jwt_fresh i j now jdb jdb'.
Proof.
  unfold request_param_verify. intros H.
  destruct (unpack (cx_kj cx) now t) eqn:Eu; try discriminate.
  destruct t as [|j]; [discriminate|].
  apply jti_then_client_ok in H as [i [Hi [Hai Hj]]].
  destruct (unpack_ok _ _ _ _ Eu Hi) as [Hna [Hs Ht]].
  apply time_ok_spec in Ht as [He Hn].
  exists j, i. repeat split; auto; apply Hj; assumption.
Qed.

Lemma secret_check_ok cx m id sec ai :
  secret_check cx m id sec = VOk ai ->
  ai = {| ai_client := Some id; ai_method := m; ai_token := None |} /\ secret_of cx id sec.
Proof.
  unfold secret_check. destruct (assoc id (cx_cdb cx)) as [c|] eqn:Ec; [|discriminate].
  destruct (c_secret c) as [cs|] eqn:Es; [|discriminate].
  destruct (str_eqb cs sec) eqn:Ee; [|discriminate].
  intro H. inversion H; subst. split; [reflexivity|].
  apply str_eqb_eq in Ee. subst. exists c. auto.
Qed.

(* every method sets its own tag; an authenticating method that names a client has a credential for it *)
Lemma verify_method_ok cx ep rq now jdb m ai jdb' :
  verify_method cx ep rq now jdb m = (VOk ai, jdb') ->
  ai_method ai = m /\
  forall X, ai_client ai = Some X -> authenticating m = true -> credential_ok cx ep rq now jdb jdb' X m.
Proof.
  destruct m; cbn [verify_method]; intros H.
  - (* basic *)
    destruct (r_hdr rq) eqn:Eh; try discriminate.
    destruct (split1_c colon s) as [[id sec]|] eqn:Esp; [|discriminate].
    inversion H; subst. apply secret_check_ok in H1 as [-> Hs]. split; [reflexivity|].
    cbn. intros X HX _. inversion HX; subst. eapply CO_basic; eauto.
  - (* post *)
    destruct (r_client_id rq) as [id|] eqn:Ei; [|discriminate].
    destruct (r_client_secret rq) as [sec|] eqn:Es; [|discriminate].
    inversion H; subst. apply secret_check_ok in H1 as [-> Hs]. split; [reflexivity|].
    cbn. intros X HX _. inversion HX; subst. eapply CO_post; eauto.
  - (* bearer header *)
    destruct (r_hdr rq) eqn:Eh; try discriminate.
    destruct (ep_lookup ep) eqn:El.
    + destruct (cx_tok cx t) eqn:Et; try discriminate; inversion H; subst; (split; [reflexivity|]);
        cbn; intros X HX _; inversion HX; subst; eapply CO_bearer_header; eauto.
    + inversion H; subst. split; [reflexivity|]. cbn. intros X HX _. inversion HX; subst.
      eapply CO_bearer_header; eauto.
  - (* bearer body *)
    destruct (r_access_token rq) as [t|] eqn:Ea; [|discriminate].
    destruct (ep_lookup ep) eqn:El; [|discriminate].
    destruct (cx_tok cx t) as [[|x c]| | |] eqn:Et; try discriminate; inversion H; subst; (split; [reflexivity|]);
      cbn; intros X HX _; inversion HX; subst. eapply CO_bearer_body; eauto.
  - (* client_secret_jwt *)
    destruct (r_assertion rq) as [t|] eqn:Ea; [|discriminate].
    apply jws_verify_ok in H as [j [i [-> [Hi [-> [Hna [Hs [Haud [Hf [Hhs _]]]]]]]]]].
    split; [reflexivity|]. cbn. intros X HX _. inversion HX; subst.
    destruct (Hhs eq_refl) as [Halg Hk]. eapply CO_secret_jwt; eauto.
  - (* private_key_jwt *)
    destruct (r_assertion rq) as [t|] eqn:Ea; [|discriminate].
    apply jws_verify_ok in H as [j [i [-> [Hi [-> [Hna [Hs [Haud [Hf [_ Hnhs]]]]]]]]]].
    split; [reflexivity|]. cbn. intros X HX _. inversion HX; subst.
    eapply CO_private_jwt; eauto.
    specialize (Hnhs eq_refl). destruct (j_alg j); try contradiction; auto.
  - (* request_param *)
    destruct (r_request rq) as [t|] eqn:Ea; [|discriminate].
    apply request_param_verify_ok in H as [j [i [-> [Hi [-> [Hna [Hs Hf]]]]]]].
    split; [reflexivity|]. cbn. intros X HX _. inversion HX; subst.
    eapply CO_request_param; eauto.
  - (* public *)
    destruct (r_client_id rq); [|discriminate]. inversion H; subst. split; [reflexivity|].
    intros X _ Hau. discriminate.
  - inversion H; subst. split; [reflexivity|]. intros X _ Hau. discriminate.
Qed.

Lemma credential_ok_weaken cx ep rq now j0 jdb jdb' X m :
  extends j0 jdb -> credential_ok cx ep rq now jdb jdb' X m -> credential_ok cx ep rq now j0 jdb' X m.
Proof.
  intros He H.
  assert (forall j, jwt_fresh X j now jdb jdb' -> jwt_fresh X j now j0 jdb') as W.
  { intros j [A [B [C D]]]. repeat split; auto; destruct (D t H0) as [D1 D2]; auto.
    intro Hin. apply D1. eapply extends_In; eauto. }
  inversion H; subst.
  - eapply CO_basic; eauto.
  - eapply CO_post; eauto.
  - eapply CO_secret_jwt; eauto.
  - eapply CO_private_jwt; eauto.
  - eapply CO_request_param; eauto.
  - eapply CO_bearer_header; eauto.
  - eapply CO_bearer_body; eauto.
Qed.

(* ------------------------------------------------------------------ the loop *)
Lemma loop_ok cx ep rq now ms : forall jdb ai jdb',
  loop cx ep rq now ms jdb = (Ok (Some ai), jdb') ->
  exists m jmid, In m ms /\ extends jdb jmid
    /\ verify_method cx ep rq now jmid m = (VOk ai, jdb') /\ after_verify cx ep now ai = PBreak.
Proof.
  induction ms as [|m rest IH]; intros jdb ai jdb' H; cbn [loop] in H; [discriminate|].
  destruct (usable rq m).
  - destruct (verify_method cx ep rq now jdb m) as [v j1] eqn:Ev.
    pose proof (verify_method_extends _ _ _ _ _ _ _ _ Ev) as Hx.
    destruct v as [ai0|e|].
    + destruct (after_verify cx ep now ai0) eqn:Ea.
      * inversion H; subst. exists m, jdb. split; [now left|]. split; [apply extends_refl|]. auto.
      * discriminate.
      * destruct (IH _ _ _ H) as [m' [jm [Hin [Hext [Hv Ha]]]]].
        exists m', jm. split; [now right|]. split; [eapply extends_trans; eauto|]. auto.
    + discriminate.
    + destruct (IH _ _ _ H) as [m' [jm [Hin [Hext [Hv Ha]]]]].
      exists m', jm. split; [now right|]. split; [eapply extends_trans; eauto|]. auto.
  - destruct (IH _ _ _ H) as [m' [jm [Hin [Hext [Hv Ha]]]]].
    exists m', jm. split; [now right|]. auto.
Qed.

Lemma after_verify_break cx ep now ai :
  after_verify cx ep now ai = PBreak ->
  (ai_client ai = None /\ ai_method ai = MNone)
  \/ exists X c, ai_client ai = Some X /\ assoc X (cx_cdb cx) = Some c /\ valid_client_secret c now = true
       /\ (forall l, client_allowed_methods c ep = Some l -> meth_in (ai_method ai) l = true).
Proof.
  unfold after_verify. destruct (ai_client ai) as [X|].
  - destruct (assoc X (cx_cdb cx)) as [c|] eqn:Ec; [|discriminate].
    destruct (valid_client_secret c now) eqn:Ev; cbn [negb]; [|discriminate].
    intro H. right. exists X, c. repeat split; auto.
    intros l El. rewrite El in H. destruct (meth_in (ai_method ai) l); [reflexivity|discriminate].
  - destruct (ai_method ai); try discriminate. intros _. left. auto.
Qed.

Lemma client_authentication_some cx ep rq now jdb ai jdb' :
  client_authentication cx ep rq now jdb = (Ok (Some ai), jdb') ->
  loop cx ep rq now (effective_methods ep) jdb = (Ok (Some ai), jdb').
Proof.
  unfold client_authentication, verify_client.
  destruct (loop cx ep rq now (effective_methods ep) jdb) as [[[a|]|e|] j1]; intro H; try exact H; try discriminate.
  destruct (ep_methods ep); discriminate.
Qed.

(* ------------------------------------------------------------------ C01_sound *)
Theorem sound cx ep rq now jdb jdb' ai X :
  client_authentication cx ep rq now jdb = (Ok (Some ai), jdb') ->
  ai_client ai = Some X ->
  authenticating (ai_method ai) = true ->
  In (ai_method ai) (effective_methods ep)
  /\ (exists c, assoc X (cx_cdb cx) = Some c /\ valid_client_secret c now = true
        /\ forall l, client_allowed_methods c ep = Some l -> In (ai_method ai) l)
  /\ credential_ok cx ep rq now jdb jdb' X (ai_method ai).
Proof.
  intros H HX Hau. apply client_authentication_some in H.
  apply loop_ok in H as [m [jm [Hin [Hext [Hv Ha]]]]].
  destruct (verify_method_ok _ _ _ _ _ _ _ _ Hv) as [Hm Hc]. subst m.
  split; [exact Hin|]. split.
  - apply after_verify_break in Ha as [[Hn _]|[X' [c [HX' [Hc' [Hval Hall]]]]]]; [congruence|].
    rewrite HX in HX'. inversion HX'; subst. exists c. repeat split; auto.
    intros l Hl. apply meth_in_In. auto.
  - eapply credential_ok_weaken; eauto.
Qed.

(* the literal reading for client_secret_jwt: when the provider holds no symmetric keys of its own and
   X has a (non-empty) secret, the assertion was MACed with exactly that secret - the CURRENT one, whatever
   other symmetric keys (superseded secrets) the key jar holds for X.  For a header with a kid this needs that
   no two of X's symmetric keys carry the same kid (kids are thumbprints of the key material). *)
Definition oct_kids_distinct (kj : keyjar) (X : pystr) : Prop :=
  forall l v v', assoc X (kj_iss kj) = Some l -> In v l -> In v' l ->
    vkey_is AlgHS v = true -> vkey_is AlgHS v' = true -> kid_of kj v = kid_of kj v' -> v = v'.

Theorem hs_signed_with_secret cx ep rq now jdb jdb' X c s :
  credential_ok cx ep rq now jdb jdb' X MSecretJwt ->
  filter (vkey_is AlgHS) (kj_own (cx_kj cx)) = [] ->
  assoc X (cx_cdb cx) = Some c -> c_secret c = Some s -> s <> [] ->
  exists j, r_assertion rq = Some (Jwt j) /\ j_alg j = AlgHS
    /\ (kid_given (j_kid j) = None \/ oct_kids_distinct (cx_kj cx) X -> j_key j = KSym s).
Proof.
  intros H Hown Hc Hs Hne. inversion H; subst. exists j. split; [assumption|]. split; [assumption|].
  intros Hkid.
  assert (forall v, key_verifies (j_alg j) (j_key j) v = true -> v = VOct s -> j_key j = KSym s) as Fin.
  { intros v Hk ->. rewrite H1 in Hk. destruct (j_key j); cbn in Hk; try discriminate.
    apply str_eqb_eq in Hk. now subst. }
  destruct H2 as [v [Hk [[l [Hl Hin]]|[_ Hin]]]].
  - apply (Fin v Hk).
    unfold hs_key_is_secret in H3. rewrite Hc, Hs in H3. destruct s as [|x s']; [congruence|].
    unfold hs_keys in H3. rewrite Hl in H3. rewrite H1 in Hin.
    unfold issuer_sel in Hin. unfold pick in H3.
    destruct (kid_given (j_kid j)) as [k|] eqn:Ek.
    + destruct Hkid as [Hkid|Hd]; [discriminate|].
      destruct (with_kid (cx_kj cx) k (filter (vkey_is AlgHS) l)) as [|[k0| |] r] eqn:Ew; try discriminate.
      apply str_eqb_eq in H3. subst k0.
      assert (In (VOct (x :: s')) (with_kid (cx_kj cx) k (filter (vkey_is AlgHS) l))) as Hs0 by (rewrite Ew; now left).
      rewrite <- Ew in Hin.
      apply with_kid_in in Hin as [Hv1 Hv2]. apply with_kid_in in Hs0 as [Hs1 Hs2].
      apply filter_In in Hv1 as [Hv1 Hv3]. apply filter_In in Hs1 as [Hs1 Hs3].
      apply (Hd l v (VOct (x :: s')) Hl Hv1 Hs1 Hv3 Hs3). congruence.
    + destruct (filter (vkey_is AlgHS) l) as [|k0 [|k2 r]] eqn:Ef; try (destruct Hin; fail).
      destruct Hin as [<-|[]]. destruct k0 as [k0| |]; try discriminate.
      apply str_eqb_eq in H3. now subst.
  - exfalso. assert (In v (filter (vkey_is AlgHS) (kj_own (cx_kj cx)))) as Hf.
    { apply filter_In. split; [exact Hin|]. rewrite H1 in Hk. eapply key_verifies_type; eauto. }
    rewrite Hown in Hf. destruct Hf.
Qed.

(* ------------------------------------------------------------------ C01_replay *)
Lemma accepted_burns k s jdb r jdb' :
  client_authentication (s_cx s) (s_ep s) (s_rq s) (s_now s) jdb = (r, jdb') ->
  accepted_key k s r = true -> ~ In k jdb /\ In k jdb'.
Proof.
  intros H Hacc. unfold accepted_key in Hacc.
  destruct r as [[ai|]|e|]; try discriminate.
  destruct (used_jwt (s_rq s) (ai_method ai)) as [j|] eqn:Eu; [|discriminate].
  destruct (j_iss j) as [i|] eqn:Ei; [|discriminate].
  destruct (j_jti j) as [t|] eqn:Et; [|discriminate].
  apply str_eqb_eq in Hacc. subst k.
  pose proof (client_authentication_some _ _ _ _ _ _ _ H) as Hl.
  apply loop_ok in Hl as [m [jm [_ [_ [Hv Ha]]]]].
  destruct (verify_method_ok _ _ _ _ _ _ _ _ Hv) as [Hm _].
  assert (authenticating (ai_method ai) = true) as Hau.
  { unfold used_jwt in Eu. destruct (ai_method ai); try discriminate; reflexivity. }
  apply after_verify_break in Ha as [[_ Hn]|[X [c [HX _]]]].
  { rewrite Hn in Eu. discriminate. }
  destruct (sound _ _ _ _ _ _ _ _ H HX Hau) as [_ [_ Hc]].
  unfold used_jwt in Eu.
  inversion Hc; subst; rewrite <- H0 in Eu; try discriminate.
  - rewrite H1 in Eu. inversion Eu; subst. destruct H6 as [Hi [_ [_ Hj]]].
    rewrite Ei in Hi. inversion Hi; subst. apply Hj. exact Et.
  - rewrite H1 in Eu. inversion Eu; subst. destruct H5 as [Hi [_ [_ Hj]]].
    rewrite Ei in Hi. inversion Hi; subst. apply Hj. exact Et.
  - rewrite H1 in Eu. inversion Eu; subst. destruct H4 as [Hi [_ [_ Hj]]].
    rewrite Ei in Hi. inversion Hi; subst. apply Hj. exact Et.
Qed.

Lemma count_zero k h : forall jdb, In k jdb -> count_accepted k h jdb = O.
Proof.
  induction h as [|s rest IH]; intros jdb Hin; cbn [count_accepted]; [reflexivity|].
  destruct (client_authentication (s_cx s) (s_ep s) (s_rq s) (s_now s) jdb) as [r j1] eqn:E.
  destruct (accepted_key k s r) eqn:Ea.
  - exfalso. destruct (accepted_burns _ _ _ _ _ E Ea) as [Hn _]. contradiction.
  - rewrite IH; [reflexivity|]. eapply extends_In; [eapply client_authentication_extends; eauto|exact Hin].
Qed.

Theorem replay k h : forall jdb, (count_accepted k h jdb <= 1)%nat.
Proof.
  induction h as [|s rest IH]; intros jdb; cbn [count_accepted]; [lia|].
  destruct (client_authentication (s_cx s) (s_ep s) (s_rq s) (s_now s) jdb) as [r j1] eqn:E.
  destruct (accepted_key k s r) eqn:Ea.
  - destruct (accepted_burns _ _ _ _ _ E Ea) as [_ Hin]. rewrite (count_zero k rest j1 Hin). lia.
  - specialize (IH j1). lia.
Qed.

Theorem replay_seen k h jdb : In k jdb -> count_accepted k h jdb = O.
Proof. apply count_zero. Qed.

(* ------------------------------------------------------------------ C01_refusal_no_effect *)
Lemma loop_modelled cx ep rq now ms : forall jdb, fst (loop cx ep rq now ms jdb) <> Unmodelled.
Proof.
  induction ms as [|m rest IH]; intros jdb; cbn [loop]; [discriminate|].
  destruct (usable rq m); [|apply IH].
  destruct (verify_method cx ep rq now jdb m) as [[ai|e|] j1]; try (cbn; discriminate); try apply IH.
  destruct (after_verify cx ep now ai); try (cbn; discriminate). apply IH.
Qed.

Theorem refusal_no_effect cx ep rq now jdb e jdb' :
  client_authentication cx ep rq now jdb = (Err e, jdb') ->
  (exists burnt, jdb' = jdb ++ burnt)
  /\ snd (parse_request cx ep rq now jdb) = jdb'
  /\ (fst (parse_request cx ep rq now jdb) = Err e
      \/ (ep_userinfo ep = true /\ fst (parse_request cx ep rq now jdb) = Ok PUserinfoError)).
Proof.
  intros H. split; [eapply client_authentication_extends; eauto|].
  unfold parse_request. rewrite H. destruct (ep_userinfo ep); cbn.
  - destruct (is_cae e); cbn; auto.
  - auto.
Qed.

Theorem always_modelled cx ep rq now jdb : fst (client_authentication cx ep rq now jdb) <> Unmodelled.
Proof.
  unfold client_authentication, verify_client.
  pose proof (loop_modelled cx ep rq now (effective_methods ep) jdb) as H.
  destruct (loop cx ep rq now (effective_methods ep) jdb) as [[[ai|]|e|] j1]; cbn in *; try discriminate; try congruence.
  destruct (ep_methods ep); cbn; discriminate.
Qed.

(* ------------------------------------------------------------------ what parse_request hands on *)
Theorem flag_sound cx ep rq now jdb jdb' X rc :
  parse_request cx ep rq now jdb = (Ok (PGeneric (Some X) rc true), jdb') ->
  exists ai, client_authentication cx ep rq now jdb = (Ok (Some ai), jdb')
    /\ ai_client ai = Some X /\ authenticating (ai_method ai) = true.
Proof.
  unfold parse_request.
  destruct (client_authentication cx ep rq now jdb) as [r j1] eqn:E.
  destruct (ep_userinfo ep).
  - destruct r as [[ai|]|e|]; try discriminate.
    + destruct (ai_token ai); discriminate.
    + destruct (is_cae e); discriminate.
  - destruct r as [[ai|]|e|]; try discriminate.
    destruct (ai_client ai) as [[|x c]|] eqn:Ec; intro H; inversion H; subst; try discriminate.
    exists ai. auto.
Qed.

(* the client_id the parsed request carries is the one parse_request hands on, whatever the body said *)
Theorem request_identity cx ep rq now jdb jdb' c rc a :
  parse_request cx ep rq now jdb = (Ok (PGeneric c rc a), jdb') -> rc = c.
Proof.
  unfold parse_request.
  destruct (client_authentication cx ep rq now jdb) as [r j1] eqn:E.
  destruct (ep_userinfo ep).
  - destruct r as [[ai|]|e|]; try discriminate.
    + destruct (ai_token ai); discriminate.
    + destruct (is_cae e); discriminate.
  - destruct r as [[ai|]|e|]; try discriminate.
    + destruct (ai_client ai) as [[|x c0]|] eqn:Ec; intro H; inversion H; subst; reflexivity.
    + intro H; inversion H; subst; reflexivity.
Qed.

(* a request handed on as authenticated is processed under the identity its credential proves *)
Theorem processed_as_proved cx ep rq now jdb jdb' c rc :
  parse_request cx ep rq now jdb = (Ok (PGeneric c rc true), jdb') ->
  exists ai X, client_authentication cx ep rq now jdb = (Ok (Some ai), jdb')
    /\ ai_client ai = Some X /\ c = Some X /\ rc = Some X
    /\ authenticating (ai_method ai) = true
    /\ credential_ok cx ep rq now jdb jdb' X (ai_method ai).
Proof.
  intro H. pose proof (request_identity _ _ _ _ _ _ _ _ _ H) as ->.
  revert H. unfold parse_request.
  destruct (client_authentication cx ep rq now jdb) as [r j1] eqn:E.
  destruct (ep_userinfo ep).
  - destruct r as [[ai|]|e|]; try discriminate.
    + destruct (ai_token ai); discriminate.
    + destruct (is_cae e); discriminate.
  - destruct r as [[ai|]|e|]; try discriminate.
    destruct (ai_client ai) as [[|x c0]|] eqn:Ec; intro H; inversion H; subst; try discriminate.
    exists ai, (x :: c0). repeat split; auto.
    match goal with Ha : authenticating _ = true |- _ =>
      exact (proj2 (proj2 (sound _ _ _ _ _ _ _ _ E Ec Ha))) end.
Qed.

(* the audience clause holds for every JWT-based method except request_param *)
Theorem audience_partial cx ep rq now jdb jdb' ai X j :
  client_authentication cx ep rq now jdb = (Ok (Some ai), jdb') ->
  ai_client ai = Some X ->
  used_jwt rq (ai_method ai) = Some j ->
  ai_method ai <> MRequestParam ->
  aud_ok ep j.
Proof.
  intros H HX Hu Hn.
  assert (authenticating (ai_method ai) = true) as Hau.
  { unfold used_jwt in Hu. destruct (ai_method ai); try discriminate; reflexivity. }
  destruct (sound _ _ _ _ _ _ _ _ H HX Hau) as [_ [_ Hc]].
  unfold used_jwt in Hu.
  inversion Hc; subst; rewrite <- H0 in *; try discriminate; try congruence.
  - rewrite H1 in Hu. inversion Hu; subst. assumption.
  - rewrite H1 in Hu. inversion Hu; subst. assumption.
Qed.

Lemma verify_method_token cx ep rq now jdb m ai jdb' t :
  verify_method cx ep rq now jdb m = (VOk ai, jdb') -> ai_token ai = Some t ->
  m = MBearerHeader \/ m = MBearerBody.
Proof.
  intros Hv Ht. destruct m; cbn [verify_method] in Hv; auto; exfalso.
  - destruct (r_hdr rq); try discriminate. destruct (split1_c colon s) as [[a b]|]; [|discriminate].
    inversion Hv as [[Hs Hj]]. apply secret_check_ok in Hs as [-> _]. discriminate.
  - destruct (r_client_id rq), (r_client_secret rq); try discriminate.
    inversion Hv as [[Hs Hj]]. apply secret_check_ok in Hs as [-> _]. discriminate.
  - destruct (r_assertion rq); [|discriminate].
    apply jws_verify_ok in Hv as [j [i [_ [_ [-> _]]]]]. discriminate.
  - destruct (r_assertion rq); [|discriminate].
    apply jws_verify_ok in Hv as [j [i [_ [_ [-> _]]]]]. discriminate.
  - destruct (r_request rq); [|discriminate].
    apply request_param_verify_ok in Hv as [j [i [_ [_ [-> _]]]]]. discriminate.
  - destruct (r_client_id rq); [|discriminate]. inversion Hv; subst. discriminate.
  - inversion Hv; subst. discriminate.
Qed.

Theorem userinfo_sound cx ep rq now jdb jdb' X rc t :
  parse_request cx ep rq now jdb = (Ok (PUserinfo (Some X) rc t), jdb') ->
  exists ai, client_authentication cx ep rq now jdb = (Ok (Some ai), jdb')
    /\ rc = Some X
    /\ ai_client ai = Some X /\ ai_token ai = Some t
    /\ (ai_method ai = MBearerHeader \/ ai_method ai = MBearerBody)
    /\ credential_ok cx ep rq now jdb jdb' X (ai_method ai).
Proof.
  unfold parse_request.
  destruct (client_authentication cx ep rq now jdb) as [r j1] eqn:E.
  destruct (ep_userinfo ep).
  - destruct r as [[ai|]|e|]; try discriminate.
    + destruct (ai_token ai) as [t'|] eqn:Et; [|discriminate]. intro H. inversion H; subst.
      exists ai. split; [reflexivity|]. split; [congruence|]. split; [congruence|]. split; [congruence|].
      pose proof (client_authentication_some _ _ _ _ _ _ _ E) as Hl.
      apply loop_ok in Hl as [m [jm [_ [_ [Hv _]]]]].
      assert (ai_method ai = MBearerHeader \/ ai_method ai = MBearerBody) as Hm.
      { destruct (verify_method_ok _ _ _ _ _ _ _ _ Hv) as [Hm _]. subst m.
        eapply verify_method_token; eauto. }
      split; [exact Hm|].
      apply (sound _ _ _ _ _ _ _ _ E H1). destruct Hm as [-> | ->]; reflexivity.
    + destruct (is_cae e); discriminate.
  - destruct r as [[ai|]|e|]; try discriminate.
    destruct (ai_client ai) as [[|x c]|]; discriminate.
Qed.

(* ------------------------------------------------------------------ the claims inside an assertion *)
(* (a) nothing reads sub / azp / client_id of a signed JWT: the same request with ANY other values for them gets
   the same answer (same identity, same refusal, same replay cache) *)
Lemma unpack_inner kj now s a c t : unpack kj now (token_with_inner s a c t) = unpack kj now t.
Proof. destruct t; reflexivity. Qed.

Lemma jws_verify_inner cx ep now m hs s a c t jdb :
  jws_verify cx ep now m hs (token_with_inner s a c t) jdb = jws_verify cx ep now m hs t jdb.
Proof. destruct t; reflexivity. Qed.

Lemma request_param_verify_inner cx now s a c t jdb :
  request_param_verify cx now (token_with_inner s a c t) jdb = request_param_verify cx now t jdb.
Proof. destruct t; reflexivity. Qed.

Lemma usable_inner s a c rq m : usable (rq_with_inner s a c rq) m = usable rq m.
Proof.
  destruct m; cbn; try reflexivity.
  - destruct (r_assertion rq); reflexivity.
  - destruct (r_assertion rq); reflexivity.
  - destruct (r_request rq); reflexivity.
Qed.

Lemma verify_method_inner cx ep s a c rq now jdb m :
  verify_method cx ep (rq_with_inner s a c rq) now jdb m = verify_method cx ep rq now jdb m.
Proof.
  destruct m; cbn [verify_method rq_with_inner r_hdr r_client_id r_client_secret r_access_token r_assertion r_request];
    try reflexivity.
  - destruct (r_assertion rq) as [t|]; cbn [option_map]; [apply jws_verify_inner|reflexivity].
  - destruct (r_assertion rq) as [t|]; cbn [option_map]; [apply jws_verify_inner|reflexivity].
  - destruct (r_request rq) as [t|]; cbn [option_map]; [apply request_param_verify_inner|reflexivity].
Qed.

Lemma loop_inner cx ep s a c rq now ms : forall jdb,
  loop cx ep (rq_with_inner s a c rq) now ms jdb = loop cx ep rq now ms jdb.
Proof.
  induction ms as [|m rest IH]; intros jdb; cbn [loop]; [reflexivity|].
  rewrite usable_inner, verify_method_inner.
  destruct (usable rq m); [|apply IH].
  destruct (verify_method cx ep rq now jdb m) as [[ai|e|] j1]; try reflexivity; try apply IH.
  destruct (after_verify cx ep now ai); try reflexivity. apply IH.
Qed.

Theorem client_authentication_inner cx ep s a c rq now jdb :
  client_authentication cx ep (rq_with_inner s a c rq) now jdb = client_authentication cx ep rq now jdb.
Proof. unfold client_authentication, verify_client. now rewrite loop_inner. Qed.

Theorem parse_request_inner cx ep s a c rq now jdb :
  parse_request cx ep (rq_with_inner s a c rq) now jdb = parse_request cx ep rq now jdb.
Proof. unfold parse_request. rewrite client_authentication_inner. reflexivity. Qed.

Theorem inner_claims_irrelevant cx ep s a c rq now jdb :
  client_authentication cx ep (rq_with_inner s a c rq) now jdb = client_authentication cx ep rq now jdb
  /\ parse_request cx ep (rq_with_inner s a c rq) now jdb = parse_request cx ep rq now jdb.
Proof. split; [apply client_authentication_inner|apply parse_request_inner]. Qed.

(* (b) the identity a request accepted through a signed JWT is processed under is the JWT's iss - the issuer
   under whose registered key the signature verified (the signer) - for every value of the other claims *)
Theorem assertion_identity cx ep rq now jdb jdb' c rc ai j :
  parse_request cx ep rq now jdb = (Ok (PGeneric c rc true), jdb') ->
  client_authentication cx ep rq now jdb = (Ok (Some ai), jdb') ->
  used_jwt rq (ai_method ai) = Some j ->
  c = j_iss j /\ rc = j_iss j /\ exists X, j_iss j = Some X /\ signed_by_client cx X j.
Proof.
  intros Hp Ha Hu.
  destruct (processed_as_proved _ _ _ _ _ _ _ _ Hp) as [ai0 [X [Ha0 [_ [-> [-> [_ Hc]]]]]]].
  rewrite Ha in Ha0. inversion Ha0; subst ai0; clear Ha0.
  unfold used_jwt in Hu.
  inversion Hc; subst;
    match goal with Hm : _ = ai_method ai |- _ => rewrite <- Hm in Hu end; try discriminate;
    match goal with Hr : _ rq = Some (Jwt ?j0), Hf : jwt_fresh _ ?j0 _ _ _ |- _ =>
      rewrite Hr in Hu; inversion Hu; subst; destruct Hf as [Hi _]; rewrite Hi; repeat split; eauto end.
Qed.

(* in particular a sub (azp, client_id claim) that differs from iss never becomes the identity *)
Theorem subject_never_identity cx ep rq now jdb jdb' c rc ai j B :
  parse_request cx ep rq now jdb = (Ok (PGeneric c rc true), jdb') ->
  client_authentication cx ep rq now jdb = (Ok (Some ai), jdb') ->
  used_jwt rq (ai_method ai) = Some j ->
  (j_sub j = Some B \/ j_azp j = Some B \/ j_cid j = Some B) -> j_iss j <> Some B ->
  rc <> Some B /\ c <> Some B.
Proof.
  intros Hp Ha Hu _ Hne. destruct (assertion_identity _ _ _ _ _ _ _ _ _ _ Hp Ha Hu) as [-> [-> _]]. auto.
Qed.

(* ------------------------------------------------------------------ C01_unforgeable (symbolic, Lib/Crypto.v) *)
Definition vkey_skey (v : vkey) : skey :=
  match v with VOct s => KSym s | VRsa n => KRsa n | VEc n => KEc n end.

Lemma key_verifies_skey a k v : key_verifies a k v = true -> k = vkey_skey v.
Proof.
  destruct a, k, v; cbn; intro H; try discriminate.
  - apply str_eqb_eq in H. now subst.
  - apply Nat.eqb_eq in H. now subst.
  - apply Nat.eqb_eq in H. now subst.
Qed.

Definition opt_atom (o : option pystr) : term := match o with Some s => Atom s | None => Atom [] end.
Definition optz_atom (o : option Z) : term := match o with Some z => Atom (str_of_Z z) | None => Atom [] end.

Section Unforgeable.
  Variable K : term -> Prop.        (* everything the honest parties ever published *)
  Variable sk : skey -> nat.        (* numbering of key material: which Crypto key a symbolic key is *)

  Definition claims_term (j : jwt) : term :=
    Pair (Pair (opt_atom (j_iss j)) (Pair (opt_atom (j_sub j)) (Pair (opt_atom (j_azp j)) (opt_atom (j_cid j)))))
      (Pair (opt_atom (j_jti j))
         (Pair (optz_atom (j_exp j))
            (match j_aud j with Some l => Pair (Atom [1%N]) (Atom (join [0%N] l)) | None => Atom [] end))).
  (* a signed JWT is a MAC / signature over its claims; alg none is the bare claims *)
  Definition jwt_term (j : jwt) : term :=
    match j_alg j with
    | AlgNone => claims_term j
    | AlgHS => Mac (sk (j_key j)) (claims_term j)
    | AlgRS | AlgES => Sig (sk (j_key j)) (claims_term j)
    end.
  Definition token_term (t : option token) : term :=
    match t with Some (Jwt j) => jwt_term j | _ => Atom [] end.
  (* a presented password is key material: the adversary can present only what it can derive *)
  Definition password_term (p : pystr) : term := Key (sk (KSym p)).
  Definition hdr_term (h : header) : term :=
    match h with
    | HBasicText s => match split1_c colon s with
                      | Some (id, p) => Pair (Atom id) (password_term p)
                      | None => Atom s
                      end
    | HBearer t => Atom t
    | _ => Atom []
    end.
  Definition req_term (rq : request) : term :=
    Pair (hdr_term (r_hdr rq))
      (Pair (match r_client_secret rq with Some p => password_term p | None => Atom [] end)
         (Pair (token_term (r_assertion rq)) (token_term (r_request rq)))).

  Definition never_published (k : skey) : Prop := forall t, K t -> ~ sub (Key (sk k)) t.

  Lemma signed_jwt_genuine j :
    j_alg j <> AlgNone -> never_published (j_key j) -> derivable K (jwt_term j) ->
    exists t0, K t0 /\ sub (jwt_term j) t0.
  Proof.
    unfold jwt_term. intros Ha Hs Hd. destruct (j_alg j); [congruence| | |].
    - eapply mac_genuine; eauto.
    - eapply sig_genuine; eauto.
    - eapply sig_genuine; eauto.
  Qed.

  Theorem unforgeable cx ep rq now jdb jdb' ai X :
    client_authentication cx ep rq now jdb = (Ok (Some ai), jdb') ->
    ai_client ai = Some X ->
    meth_in (ai_method ai) [MBasic; MPost; MSecretJwt; MPrivateJwt; MRequestParam] = true ->
    (forall c s, assoc X (cx_cdb cx) = Some c -> c_secret c = Some s -> never_published (KSym s)) ->
    (forall l v, assoc X (kj_iss (cx_kj cx)) = Some l -> In v l -> never_published (vkey_skey v)) ->
    (forall v, In v (kj_own (cx_kj cx)) -> never_published (vkey_skey v)) ->
    derivable K (req_term rq) ->
    exists j, used_jwt rq (ai_method ai) = Some j /\ j_iss j = Some X
              /\ exists t0, K t0 /\ sub (jwt_term j) t0.
  Proof.
    intros H HX Hm Hsec Hreg Hown Hd.
    assert (authenticating (ai_method ai) = true) as Hau.
    { destruct (ai_method ai); cbn in Hm; try discriminate; reflexivity. }
    destruct (sound _ _ _ _ _ _ _ _ H HX Hau) as [_ [_ Hc]].
    unfold req_term in Hd.
    pose proof (d_fst _ _ _ Hd) as Dh. pose proof (d_snd _ _ _ Hd) as D2.
    pose proof (d_fst _ _ _ D2) as Dp. pose proof (d_snd _ _ _ D2) as D3.
    pose proof (d_fst _ _ _ D3) as Da. pose proof (d_snd _ _ _ D3) as Dr.
    assert (forall j, signed_by_client cx X j -> never_published (j_key j)) as Hkey.
    { intros j [v [Hk [[l [Hl Hf]]|[_ Hin]]]]; rewrite (key_verifies_skey _ _ _ Hk).
      - eapply Hreg; eauto. apply issuer_sel_in in Hf. tauto.
      - apply Hown; assumption. }
    inversion Hc; subst; rewrite <- H0 in *.
    - (* basic: the password is X's secret, which is not derivable *)
      exfalso. rewrite H1 in Dh. cbn [hdr_term] in Dh. rewrite H2 in Dh.
      destruct H3 as [c [Hc1 Hc2]].
      eapply key_secret; [eapply Hsec; eauto|]. eapply d_snd; eauto.
    - exfalso. rewrite H2 in Dp. destruct H3 as [c [Hc1 Hc2]].
      eapply key_secret; [eapply Hsec; eauto|]. exact Dp.
    - exists j. cbn [used_jwt]. rewrite H1. split; [reflexivity|]. destruct H6 as [Hi _]. split; [exact Hi|].
      rewrite H1 in Da. cbn [token_term] in Da.
      apply signed_jwt_genuine; auto. rewrite H2. discriminate.
    - exists j. cbn [used_jwt]. rewrite H1. split; [reflexivity|]. destruct H5 as [Hi _]. split; [exact Hi|].
      rewrite H1 in Da. cbn [token_term] in Da.
      apply signed_jwt_genuine; auto. destruct H2 as [-> | ->]; discriminate.
    - exists j. cbn [used_jwt]. rewrite H1. split; [reflexivity|]. destruct H4 as [Hi _]. split; [exact Hi|].
      rewrite H1 in Dr. cbn [token_term] in Dr.
      apply signed_jwt_genuine; auto.
    - cbn in Hm. discriminate.
    - cbn in Hm. discriminate.
  Qed.
End Unforgeable.

(* ------------------------------------------------------------------ the credential history of a client *)
(* (a) in ANY state of client database and key jar - in particular after any history of registrations, whatever
   superseded secrets the key jar still holds - a request accepted as X through a secret-based method was made
   with X's CURRENT secret (the one in the client database) *)
Definition made_with_secret (cx : actx) (rq : request) (X s : pystr) (m : meth) : Prop :=
  match m with
  | MBasic => exists t, r_hdr rq = HBasicText t /\ split1_c colon t = Some (X, s)
  | MPost => r_client_id rq = Some X /\ r_client_secret rq = Some s
  | MSecretJwt => exists j, r_assertion rq = Some (Jwt j) /\ j_alg j = AlgHS
                   /\ (kid_given (j_kid j) = None \/ oct_kids_distinct (cx_kj cx) X -> j_key j = KSym s)
  | _ => True
  end.

Theorem current_secret_only cx ep rq now jdb jdb' ai X c s :
  client_authentication cx ep rq now jdb = (Ok (Some ai), jdb') ->
  ai_client ai = Some X ->
  assoc X (cx_cdb cx) = Some c -> c_secret c = Some s -> s <> [] ->
  filter (vkey_is AlgHS) (kj_own (cx_kj cx)) = [] ->
  made_with_secret cx rq X s (ai_method ai).
Proof.
  intros H HX Hc Hs Hne Hown.
  destruct (authenticating (ai_method ai)) eqn:Hau.
  2:{ destruct (ai_method ai); cbn in Hau; try discriminate; exact I. }
  destruct (sound _ _ _ _ _ _ _ _ H HX Hau) as [_ [_ Hcred]].
  destruct (ai_method ai) eqn:Em; cbn [made_with_secret]; try exact I.
  - inversion Hcred; subst.
    match goal with Hso : secret_of _ _ _ |- _ => destruct Hso as [c' [Hc1 Hc2]] end.
    rewrite Hc in Hc1. inversion Hc1; subst c'. rewrite Hs in Hc2. inversion Hc2; subst. eauto.
  - inversion Hcred; subst.
    match goal with Hso : secret_of _ _ _ |- _ => destruct Hso as [c' [Hc1 Hc2]] end.
    rewrite Hc in Hc1. inversion Hc1; subst c'. rewrite Hs in Hc2. inversion Hc2; subst. auto.
  - eapply hs_signed_with_secret; eauto.
Qed.

(* (b) what the operations on the credentials do *)
Lemma register_record cx r : assoc (rg_id r) (cx_cdb (register cx r)) = Some (rg_client r).
Proof. cbn. apply assoc_aset_same. Qed.

Lemma register_keys cx r : assoc (rg_id r) (kj_iss (cx_kj (register cx r))) = Some (in_force r).
Proof. cbn. apply assoc_aset_same. Qed.

Lemma adel_other {V} k k' (d : list (pystr * V)) : k <> k' -> assoc k' (adel k d) = assoc k' d.
Proof.
  intro Hne. induction d as [|[k2 v2] r IH]; cbn; [reflexivity|].
  destruct (str_eqb k k2) eqn:E.
  - apply str_eqb_eq in E. subst k2.
    assert (str_eqb k' k = false) as -> by (apply str_eqb_neq; congruence). reflexivity.
  - cbn. destruct (str_eqb k' k2); auto.
Qed.

(* an operation about another client leaves X's record, X's keys and the provider's own keys alone *)
Lemma cred_step_frame cx o X : op_client o <> X ->
  assoc X (cx_cdb (cred_step cx o)) = assoc X (cx_cdb cx)
  /\ assoc X (kj_iss (cx_kj (cred_step cx o))) = assoc X (kj_iss (cx_kj cx)).
Proof.
  destruct o as [r|r|i|i ks kids|i c]; cbn [op_client cred_step]; intro Hne; cbn.
  - split; apply assoc_aset_other; exact Hne.
  - auto.
  - split; [apply adel_other; exact Hne|reflexivity].
  - split; [reflexivity|apply assoc_aset_other; exact Hne].
  - split; [apply assoc_aset_other; exact Hne|reflexivity].
Qed.

Lemma cred_step_own cx o : kj_own (cx_kj (cred_step cx o)) = kj_own (cx_kj cx).
Proof. destruct o; reflexivity. Qed.

Lemma cred_run_own h : forall cx, kj_own (cx_kj (cred_run cx h)) = kj_own (cx_kj cx).
Proof.
  induction h as [|o h IH]; intros cx; cbn; [reflexivity|]. unfold cred_run in IH. rewrite IH.
  apply cred_step_own.
Qed.

Definition touches (X : pystr) (o : cred_op) : bool := str_eqb (op_client o) X.
Definition untouched (X : pystr) (h : list cred_op) : bool := forallb (fun o => negb (touches X o)) h.

Lemma cred_run_frame h : forall cx X, untouched X h = true ->
  assoc X (cx_cdb (cred_run cx h)) = assoc X (cx_cdb cx)
  /\ assoc X (kj_iss (cx_kj (cred_run cx h))) = assoc X (kj_iss (cx_kj cx)).
Proof.
  induction h as [|o h IH]; intros cx X Hh; cbn; [auto|].
  cbn in Hh. apply andb_true_iff in Hh as [Ho Hh]. unfold cred_run in IH.
  destruct (IH (cred_step cx o) X Hh) as [-> ->].
  apply cred_step_frame. apply negb_true_iff in Ho. unfold touches in Ho. now apply str_eqb_neq in Ho.
Qed.

(* (c) after an accepted (re-)registration r of X - on top of ANY earlier state cx0, e.g. one whose key jar holds
   X's earlier secret and keys - and any history h of operations about OTHER clients, the material in force for
   X is exactly what r brought: its record, the keys of its jwks and its secret *)
Theorem registration_in_force cx0 r h : untouched (rg_id r) h = true ->
  assoc (rg_id r) (cx_cdb (cred_run (register cx0 r) h)) = Some (rg_client r)
  /\ assoc (rg_id r) (kj_iss (cx_kj (cred_run (register cx0 r) h))) = Some (in_force r).
Proof.
  intro Hh. destruct (cred_run_frame h (register cx0 r) _ Hh) as [-> ->].
  split; [apply register_record|apply register_keys].
Qed.

(* a refused registration changes nothing: the material in force is what was in force before *)
Theorem refused_registration_no_effect cx r h :
  cred_run cx (CRefused r :: h) = cred_run cx h.
Proof. reflexivity. Qed.

(* only the secret of the last registration authenticates X through the secret-based methods *)
Theorem rotation_sound cx0 r h ep rq now jdb jdb' ai s2 :
  untouched (rg_id r) h = true ->
  c_secret (rg_client r) = Some s2 -> s2 <> [] ->
  filter (vkey_is AlgHS) (kj_own (cx_kj cx0)) = [] ->
  client_authentication (cred_run (register cx0 r) h) ep rq now jdb = (Ok (Some ai), jdb') ->
  ai_client ai = Some (rg_id r) ->
  made_with_secret (cred_run (register cx0 r) h) rq (rg_id r) s2 (ai_method ai).
Proof.
  intros Hh Hs Hne Hown H HX.
  eapply current_secret_only; eauto.
  - apply registration_in_force. exact Hh.
  - rewrite cred_run_own. exact Hown.
Qed.

(* and the signature of an accepted assertion / request object verifies under a key that the last registration
   brought (a key of its jwks, its secret) or - HMAC - under one of the provider's own symmetric keys: key
   material of an earlier registration of X never authenticates X again *)
Theorem rotation_keys cx0 r h ep rq now jdb jdb' ai j :
  untouched (rg_id r) h = true ->
  client_authentication (cred_run (register cx0 r) h) ep rq now jdb = (Ok (Some ai), jdb') ->
  ai_client ai = Some (rg_id r) ->
  used_jwt rq (ai_method ai) = Some j ->
  exists v, key_verifies (j_alg j) (j_key j) v = true
    /\ (In v (in_force r) \/ (j_alg j = AlgHS /\ In v (kj_own (cx_kj cx0)))).
Proof.
  intros Hh H HX Hu.
  assert (authenticating (ai_method ai) = true) as Hau.
  { unfold used_jwt in Hu. destruct (ai_method ai); try discriminate; reflexivity. }
  destruct (sound _ _ _ _ _ _ _ _ H HX Hau) as [_ [_ Hc]].
  destruct (registration_in_force cx0 r h Hh) as [_ Hk].
  assert (forall j0, signed_by_client (cred_run (register cx0 r) h) (rg_id r) j0 ->
            exists v, key_verifies (j_alg j0) (j_key j0) v = true
              /\ (In v (in_force r) \/ (j_alg j0 = AlgHS /\ In v (kj_own (cx_kj cx0))))) as W.
  { intros j0 [v [Hv [[l [Hl Hin]]|[Ha Hin]]]]; exists v; (split; [exact Hv|]).
    - left. rewrite Hk in Hl. inversion Hl; subst l. apply issuer_sel_in in Hin. tauto.
    - right. rewrite cred_run_own in Hin. auto. }
  unfold used_jwt in Hu.
  inversion Hc; subst;
    match goal with Hm : _ = ai_method ai |- _ => rewrite <- Hm in Hu end; try discriminate;
    match goal with Hr : _ rq = Some (Jwt ?j0) |- _ => rewrite Hr in Hu; inversion Hu; subst; apply W; assumption end.
Qed.

(* a deployer who files a new secret next to the old one (keyjar.add_symmetric) and updates the client record: the
   key jar then holds both - and still only the record's secret authenticates (current_secret_only) *)
Theorem filed_keys_accumulate cx i ks kids l :
  assoc i (kj_iss (cx_kj cx)) = Some l ->
  assoc i (kj_iss (cx_kj (file_keys cx i ks kids))) = Some (l ++ ks).
Proof. intro Hl. cbn. rewrite Hl. apply assoc_aset_same. Qed.

(* operations about one client leave every other client's record and keys alone *)
Theorem credentials_isolated cx o i : op_client o <> i ->
  assoc i (cx_cdb (cred_step cx o)) = assoc i (cx_cdb cx)
  /\ assoc i (kj_iss (cx_kj (cred_step cx o))) = assoc i (kj_iss (cx_kj cx))
  /\ kj_own (cx_kj (cred_step cx o)) = kj_own (cx_kj cx).
Proof. intro H. destruct (cred_step_frame cx o i H) as [A B]. repeat split; auto. apply cred_step_own. Qed.

(* ------------------------------------------------------------------ delivery forms: encrypted wrappers *)
(* the method classes on a delivered object are the method classes on the bare token [seen] gives: whatever
   does not open to a JWS is given up on, in any state of the provider *)
Lemma seen_equiv_jws cx ep now m hs w jdb :
  jws_verify_w cx ep now m hs w jdb = jws_verify cx ep now m hs (seen w) jdb.
Proof. unfold jws_verify_w, seen. destruct (open_assertion w); reflexivity. Qed.

Lemma seen_equiv_request_param cx now w jdb :
  request_param_verify_w cx now w jdb = request_param_verify cx now (seen w) jdb.
Proof. unfold request_param_verify_w, seen. destruct (open_assertion w); reflexivity. Qed.

Lemma verify_method_w_deliver cx ep q now jdb m :
  verify_method_w cx ep q now jdb m = verify_method cx ep (deliver q) now jdb m.
Proof.
  destruct m; try reflexivity; cbn [verify_method_w verify_method deliver r_assertion r_request].
  - destruct (w_assertion q); cbn [option_map]; [apply seen_equiv_jws|reflexivity].
  - destruct (w_assertion q); cbn [option_map]; [apply seen_equiv_jws|reflexivity].
  - destruct (w_request q); cbn [option_map]; [apply seen_equiv_request_param|reflexivity].
Qed.

(* a JWS-based method on unsigned content: never VOk, never an effect on the replay cache *)
Lemma unsigned_refused_jws cx ep now m hs w jdb :
  (forall t, open_assertion w <> OSigned t) -> jws_verify_w cx ep now m hs w jdb = (VSkip, jdb).
Proof. unfold jws_verify_w. destruct (open_assertion w); intro H; try reflexivity. now destruct (H t). Qed.
Lemma unsigned_refused_request_param cx now w jdb :
  (forall t, open_assertion w <> OSigned t) -> request_param_verify_w cx now w jdb = (VSkip, jdb).
Proof. unfold request_param_verify_w. destruct (open_assertion w); intro H; try reflexivity. now destruct (H t). Qed.

Theorem unsigned_content_refused cx ep now w jdb :
  (forall t, open_assertion w <> OSigned t) ->
  jws_verify_w cx ep now MSecretJwt true w jdb = (VSkip, jdb)
  /\ jws_verify_w cx ep now MPrivateJwt false w jdb = (VSkip, jdb)
  /\ request_param_verify_w cx now w jdb = (VSkip, jdb).
Proof.
  intro H. repeat split; [apply unsigned_refused_jws|apply unsigned_refused_jws|apply unsigned_refused_request_param];
    exact H.
Qed.

Lemma seen_signed w j : seen w = Jwt j -> j_alg j <> AlgNone -> open_assertion w = OSigned (Jwt j).
Proof.
  unfold seen. destruct (open_assertion w); intros H Hn; inversion H; subst; try reflexivity;
    exfalso; apply Hn; reflexivity.
Qed.

Lemma deliver_unwrapped q : deliver (unwrapped q) = deliver q.
Proof.
  unfold deliver, unwrapped; cbn. destruct (w_assertion q), (w_request q); reflexivity.
Qed.

(* Encryption adds no authority.  A request accepted as X through client_secret_jwt / private_key_jwt /
   request_param: the object that method looked at opens ([open_assertion]: decrypted with a key of the provider,
   typed JWT) to a JWS - never to bare claims, to an undecryptable or an untyped wrapper -, the signature of that
   JWS verifies under a key the key jar holds for X (or - HMAC - an own symmetric key of the provider), and the
   same request with every wrapper taken off is accepted in the same way. *)
Theorem wrapper_no_authority cx ep q now jdb jdb' ai X :
  client_authentication_w cx ep q now jdb = (Ok (Some ai), jdb') ->
  ai_client ai = Some X ->
  jws_method (ai_method ai) = true ->
  (exists w j, used_wire q (ai_method ai) = Some w /\ open_assertion w = OSigned (Jwt j)
     /\ j_alg j <> AlgNone /\ signed_by_client cx X j)
  /\ client_authentication_w cx ep (unwrapped q) now jdb = (Ok (Some ai), jdb').
Proof.
  unfold client_authentication_w. intros H HX Hm. split; [|rewrite deliver_unwrapped; exact H].
  assert (authenticating (ai_method ai) = true) as Hau by (destruct (ai_method ai); try discriminate; reflexivity).
  destruct (sound _ _ _ _ _ _ _ _ H HX Hau) as [_ [_ Hc]].
  assert (forall (f : option wire) j, option_map seen f = Some (Jwt j) -> j_alg j <> AlgNone ->
            exists w, f = Some w /\ open_assertion w = OSigned (Jwt j)) as W.
  { intros [w|] j Hs Hn; cbn in Hs; [|discriminate]. injection Hs as Hs'. exists w. split; [reflexivity|].
    apply seen_signed; assumption. }
  inversion Hc; subst;
    match goal with Hq : _ = ai_method ai |- _ => rewrite <- Hq in *; try discriminate end;
    cbn [used_wire]; cbn [deliver r_assertion r_request] in *.
  all: match goal with Hr : option_map seen _ = Some (Jwt ?j0) |- _ =>
         assert (j_alg j0 <> AlgNone) as Hn
           by (repeat match goal with Ha : _ \/ _ |- _ => destruct Ha end; congruence);
         destruct (W _ _ Hr Hn) as [w [Hw Ho]]; exists w, j0; repeat split; assumption
       end.
Qed.
