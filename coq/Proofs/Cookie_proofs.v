(* Proofs/Cookie_proofs.v — lemmas about Model/Cookie.v (property C17). *)
From Verif Require Import Lib.Base Lib.PyStr Lib.Crypto Model.Lv Proofs.Lv_proofs Model.Cookie.
Open Scope N_scope.

(* ================================================================ A. general facts *)
Lemma term_eqb_refl a : term_eqb a a = true.
Proof.
  induction a; cbn; rewrite ?Nat.eqb_refl, ?str_eqb_refl, ?IHa, ?IHa1, ?IHa2; reflexivity.
Qed.
Lemma term_eqb_eq a b : term_eqb a b = true -> a = b.
Proof.
  revert b; induction a; intros [] H; cbn in H; try discriminate;
    repeat match goal with
    | H : _ && _ = true |- _ => apply andb_true_iff in H as [? ?]
    | H : Nat.eqb _ _ = true |- _ => apply Nat.eqb_eq in H
    | H : str_eqb _ _ = true |- _ => apply str_eqb_eq in H
    end; subst; f_equal; auto.
Qed.

Lemma macv_true k msg t : macv k msg t = true -> t = Mac k (Atom msg).
Proof.
  destruct t as [| | | | |k' m|]; cbn; try discriminate. destruct m; try discriminate.
  intro H. apply andb_true_iff in H as [A B]. apply Nat.eqb_eq in A. apply str_eqb_eq in B. now subst.
Qed.
Lemma macv_refl k msg : macv k msg (Mac k (Atom msg)) = true.
Proof. cbn. now rewrite Nat.eqb_refl, str_eqb_refl. Qed.
Lemma tagv_refl k c : tagv k c (Mac k c) = true.
Proof. cbn. now rewrite Nat.eqb_refl, term_eqb_refl. Qed.

Section Txt.
  Variable btxt : term -> pystr.
  Lemma wtext_chs s : wtext btxt (chs s) = s.
  Proof. induction s as [|c r IH]; cbn; [reflexivity|]. unfold wtext, chs in IH. now rewrite IH. Qed.
End Txt.

(* ---- split / join on symbol sequences ---- *)
Lemma wsplit_nonempty w : wsplit w <> [].
Proof. destruct w as [|s r]; cbn; [discriminate|]. destruct (is_bar s); [discriminate|]. destruct (wsplit r); discriminate. Qed.

Lemma wcons_hd_app s l l' : l <> [] -> wcons_hd s (l ++ l') = wcons_hd s l ++ l'.
Proof. destruct l; [congruence|reflexivity]. Qed.

Lemma wsplit_app x y : wsplit (x ++ Ch bar :: y) = wsplit x ++ wsplit y.
Proof.
  induction x as [|s r IH]; cbn [app wsplit].
  - reflexivity.
  - destruct (is_bar s); rewrite IH; [reflexivity|]. apply wcons_hd_app, wsplit_nonempty.
Qed.

Definition no_bar (w : wire) : bool := forallb (fun s => negb (is_bar s)) w.
Lemma wsplit_nobar w : no_bar w = true -> wsplit w = [w].
Proof.
  induction w as [|s r IH]; cbn; [reflexivity|]. intro H. apply andb_true_iff in H as [A B].
  apply negb_true_iff in A. rewrite A, IH by exact B. reflexivity.
Qed.
Lemma no_bar_chs s : no_c bar s = true -> no_bar (chs s) = true.
Proof.
  induction s as [|c r IH]; cbn; [reflexivity|]. intro H. apply andb_true_iff in H as [A B].
  rewrite A. cbn. now apply IH.
Qed.

Lemma wjoin_cons x l : l <> [] -> wjoin (x :: l) = x ++ Ch bar :: wjoin l.
Proof. destruct l; [congruence|reflexivity]. Qed.

Lemma wjoin_wsplit w : wjoin (wsplit w) = w.
Proof.
  induction w as [|s r IH]; cbn [wsplit]; [reflexivity|].
  destruct (is_bar s) eqn:E.
  - rewrite wjoin_cons by apply wsplit_nonempty. rewrite IH. cbn.
    destruct s as [c|t]; cbn in E; [|discriminate]. apply N.eqb_eq in E. now subst.
  - pose proof (wsplit_nonempty r) as Hne. destruct (wsplit r) as [|x xs] eqn:Er; [congruence|].
    cbn [wcons_hd]. destruct xs as [|y ys].
    + cbn in IH |- *. now rewrite IH.
    + change (wjoin ((s :: x) :: y :: ys)) with ((s :: x) ++ Ch bar :: wjoin (y :: ys)).
      change (wjoin (x :: y :: ys)) with (x ++ Ch bar :: wjoin (y :: ys)) in IH.
      rewrite <- IH. reflexivity.
Qed.

(* ---- rsplit("::", 1) ---- *)
Lemma rsplit1_unfold a c r :
  rsplit1 a (c :: r) =
  match rsplit1 a r with
  | Some (x, y) => Some (c :: x, y)
  | None => match r with
            | d :: r' => if (c =? a) && (d =? a) then Some ([], r') else None
            | [] => None
            end
  end.
Proof. reflexivity. Qed.

Lemma rsplit1_none a s : no_cc a a s = true -> rsplit1 a s = None.
Proof.
  induction s as [|c r IH]; [reflexivity|]. intro H. cbn [no_cc] in H. cbn [rsplit1].
  destruct r as [|d r']; [reflexivity|].
  apply andb_true_iff in H as [A B]. rewrite IH by exact B. apply negb_true_iff in A. now rewrite A.
Qed.

Definition typ_ok (typ : pystr) : bool :=
  no_cc colon colon typ && negb (match typ with c :: _ => c =? colon | [] => false end).

Lemma rsplit1_payload v typ : typ_ok typ = true -> rsplit1 colon (payload_of v typ) = Some (v, typ).
Proof.
  unfold typ_ok, payload_of. intro H. apply andb_true_iff in H as [Hn Hs]. apply negb_true_iff in Hs.
  induction v as [|c v' IH]; cbn [app].
  - assert (Hnone : rsplit1 colon (colon :: typ) = None).
    { apply rsplit1_none. cbn [no_cc]. destruct typ as [|d r]; [reflexivity|]. rewrite Hs, andb_false_r. cbn. exact Hn. }
    rewrite rsplit1_unfold, Hnone. now rewrite N.eqb_refl.
  - rewrite rsplit1_unfold. cbn [app] in IH. now rewrite IH.
Qed.

(* ---- Fernet padding strip ---- *)
Lemma rstrip_sp_id s : last_is space s = false -> rstrip_sp s = s.
Proof.
  unfold last_is, rstrip_sp. destruct (List.rev s) as [|c r] eqn:E.
  - intros _. cbn. apply (f_equal (@List.rev N)) in E. rewrite rev_involutive in E. now subst.
  - intro H. cbn [lstrip_sp]. rewrite H. rewrite <- E. apply rev_involutive.
Qed.
Lemma last_is_app a x p : p <> [] -> last_is a (x ++ p) = last_is a p.
Proof.
  intro Hp. unfold last_is. rewrite rev_app_distr. destruct (List.rev p) as [|c r] eqn:E; [|reflexivity].
  apply (f_equal (@List.rev N)) in E. rewrite rev_involutive in E. cbn in E. congruence.
Qed.
Lemma last_is_payload v typ : last_is space typ = false -> last_is space (payload_of v typ) = false.
Proof.
  intro H. unfold payload_of. destruct typ as [|c r].
  - rewrite last_is_app by discriminate. reflexivity.
  - replace (v ++ colon :: colon :: c :: r) with ((v ++ [colon; colon]) ++ c :: r) by (now rewrite <- app_assoc).
    rewrite last_is_app by discriminate. exact H.
Qed.
Lemma last_is_lv_pack2 a b : b <> [] -> last_is space (lv_pack [a; b]) = last_is space b.
Proof.
  intro Hb. unfold lv_pack. cbn [flat_map]. rewrite app_nil_r. unfold pack1 at 2.
  replace (pack1 a ++ str_of_nat (length b) ++ colon :: b) with ((pack1 a ++ str_of_nat (length b) ++ [colon]) ++ b).
  - now apply last_is_app.
  - rewrite <- !app_assoc. reflexivity.
Qed.
Lemma payload_nonempty v typ : payload_of v typ <> [].
Proof. unfold payload_of. destruct v; discriminate. Qed.

(* ================================================================ B. round trips *)
Definition eff_ts (ts : pystr) (now : Z) : pystr := match ts with [] => dec_of_Z now | _ => ts end.
Definition nonempty_content (v typ : pystr) : bool := match v, typ with [], [] => false | _, _ => true end.

Lemma make_cookie_eq h v typ ts now r :
  nonempty_content v typ = true ->
  make_cookie h v typ ts now r = sign_enc_payload h (payload_of v typ) (eff_ts ts now) r.
Proof. unfold make_cookie, nonempty_content, eff_ts. destruct v, typ; try discriminate; reflexivity. Qed.

Lemma finish_ok btxt h w v typ ts :
  ver_dec btxt h (regroup h (wsplit w)) = Ok (Some (payload_of v typ, ts)) -> typ_ok typ = true ->
  parse_cookie btxt h w = Ok (v, typ, ts).
Proof. intros H Ht. unfold parse_cookie. rewrite H. cbn [bind]. now rewrite rsplit1_payload. Qed.

Section RT.
  Variable btxt : term -> pystr.

  (* --- signed only --- *)
  Lemma regroup_signed k a P z :
    P <> [] -> regroup (mk_handler (Some k) None None) (a :: P ++ [z]) = [a; wjoin P; z].
  Proof.
    intro HP. unfold regroup. cbn [signed_only h_sk h_ek h_ck]. rewrite andb_true_r.
    destruct P as [|x P']; [congruence|]. destruct P' as [|y P''].
    - reflexivity.
    - assert ((3 <? length (a :: (x :: y :: P'') ++ [z]))%nat = true) as ->.
      { apply Nat.ltb_lt. cbn. rewrite app_length. cbn. lia. }
      rewrite removelast_last, last_last. reflexivity.
  Qed.

  Lemma roundtrip_signed k v typ ts now r :
    nonempty_content v typ = true -> typ_ok typ = true -> no_c bar (eff_ts ts now) = true ->
    let h := mk_handler (Some k) None None in
    parse_cookie btxt h (make_cookie h v typ ts now r) = Ok (v, typ, eff_ts ts now).
  Proof.
    intros Hne Ht Hts h. rewrite make_cookie_eq by exact Hne. set (t := eff_ts ts now) in *.
    set (p := payload_of v typ). apply finish_ok; [|exact Ht].
    unfold sign_enc_payload, h. cbn [h_sk h_ek h_ck option_map].
    rewrite wsplit_app, (wsplit_nobar (chs t)) by (now apply no_bar_chs).
    rewrite wsplit_app. change (wsplit [Bl (mac_of k p t)]) with [[Bl (mac_of k p t)]].
    cbn [app]. rewrite regroup_signed by apply wsplit_nonempty. rewrite wjoin_wsplit.
    cbn [ver_dec]. unfold ver3. cbn [h_sk blob_view]. rewrite !wtext_chs.
    unfold mac_of. now rewrite macv_refl.
  Qed.

  (* --- AES-GCM modes (with or without the inner MAC) --- *)
  Lemma wsplit_gcm t r c tg :
    no_c bar t = true -> no_c bar r = true ->
    wsplit (chs t ++ Ch bar :: chs r ++ Ch bar :: Bl c :: Ch bar :: [Bl tg]) = [chs t; chs r; [Bl c]; [Bl tg]].
  Proof.
    intros Ht Hr. rewrite wsplit_app, (wsplit_nobar (chs t)) by (now apply no_bar_chs).
    rewrite wsplit_app, (wsplit_nobar (chs r)) by (now apply no_bar_chs).
    change (Bl c :: Ch bar :: [Bl tg]) with ([Bl c] ++ Ch bar :: [Bl tg]). rewrite wsplit_app. reflexivity.
  Qed.

  Lemma roundtrip_signed_encrypted ks ke v typ ts now r :
    nonempty_content v typ = true -> typ_ok typ = true -> no_c bar (eff_ts ts now) = true -> no_c bar r = true ->
    let h := mk_handler (Some ks) (Some ke) None in
    parse_cookie btxt h (make_cookie h v typ ts now r) = Ok (v, typ, eff_ts ts now).
  Proof.
    intros Hne Ht Hts Hr h. rewrite make_cookie_eq by exact Hne. set (t := eff_ts ts now) in *.
    set (p := payload_of v typ). apply finish_ok; [|exact Ht].
    unfold sign_enc_payload, h. cbn [h_sk h_ek h_ck option_map].
    rewrite wsplit_gcm by assumption. unfold regroup. cbn [signed_only h_sk h_ek h_ck]. rewrite andb_false_r.
    cbn [ver_dec]. unfold ver4. cbn [h_ek blob_view]. rewrite wtext_chs.
    rewrite Nat.eqb_refl, str_eqb_refl, tagv_refl. cbn [andb].
    unfold open_plain. rewrite lv_roundtrip. cbn [bind app h_sk]. unfold mac_of. now rewrite macv_refl.
  Qed.

  Lemma roundtrip_encrypted ke v typ ts now r :
    nonempty_content v typ = true -> typ_ok typ = true -> no_c bar (eff_ts ts now) = true -> no_c bar r = true ->
    let h := mk_handler None (Some ke) None in
    parse_cookie btxt h (make_cookie h v typ ts now r) = Ok (v, typ, eff_ts ts now).
  Proof.
    intros Hne Ht Hts Hr h. rewrite make_cookie_eq by exact Hne. set (t := eff_ts ts now) in *.
    set (p := payload_of v typ). apply finish_ok; [|exact Ht].
    unfold sign_enc_payload, h. cbn [h_sk h_ek h_ck option_map].
    rewrite wsplit_gcm by assumption. unfold regroup. cbn [signed_only h_sk h_ek h_ck]. rewrite andb_false_r.
    cbn [ver_dec]. unfold ver4. cbn [h_ek blob_view]. rewrite wtext_chs.
    rewrite Nat.eqb_refl, str_eqb_refl, tagv_refl. cbn [andb].
    unfold open_plain. rewrite lv_roundtrip. reflexivity.
  Qed.

  (* --- encrypter (Fernet) --- *)
  Lemma roundtrip_encrypter kc v typ ts now r :
    nonempty_content v typ = true -> typ_ok typ = true -> no_c bar (eff_ts ts now) = true ->
    last_is space typ = false ->
    let h := mk_handler None None (Some kc) in
    parse_cookie btxt h (make_cookie h v typ ts now r) = Ok (v, typ, eff_ts ts now).
  Proof.
    intros Hne Ht Hts Hsp h. rewrite make_cookie_eq by exact Hne. set (t := eff_ts ts now) in *.
    set (p := payload_of v typ). apply finish_ok; [|exact Ht].
    unfold sign_enc_payload, h. cbn [h_sk h_ek h_ck option_map].
    rewrite wsplit_app, (wsplit_nobar (chs t)) by (now apply no_bar_chs).
    change (wsplit [Bl (AEnc kc r (Atom (lv_pack [t; p])))]) with [[Bl (AEnc kc r (Atom (lv_pack [t; p])))]].
    cbn [app]. unfold regroup. cbn [signed_only h_sk h_ek h_ck length]. cbn [Nat.ltb Nat.leb andb].
    cbn [ver_dec]. unfold ver2. cbn [h_ck blob_view adec]. rewrite Nat.eqb_refl.
    rewrite rstrip_sp_id.
    - rewrite lv_roundtrip. cbn [bind]. now rewrite wtext_chs, str_eqb_refl.
    - rewrite last_is_lv_pack2 by apply payload_nonempty. now apply last_is_payload.
  Qed.
End RT.

(* ================================================================ C. tamper evidence (Dolev-Yao) *)
(* what the provider issued: the cookies it made (value, type, timestamp, randomness) *)
Record genuine := mk_gen { g_value : pystr; g_typ : pystr; g_ts : pystr; g_r : pystr }.
Definition g_payload (g : genuine) : pystr := payload_of (g_value g) (g_typ g).
Definition g_wire (h : handler) (g : genuine) : wire := sign_enc_payload h (g_payload g) (g_ts g) (g_r g).

Fixpoint blobs (w : wire) : list term :=
  match w with [] => [] | Ch _ :: r => blobs r | Bl t :: r => t :: blobs r end.
Definition handler_key (h : handler) (k : nat) : Prop := h_sk h = Some k \/ h_ek h = Some k \/ h_ck h = Some k.

(* everything an adversary starts from: the cryptographic values inside every genuine cookie, and every key
   that is not one of this handler's keys (plus, by the deduction rules, all strings and public values) *)
Definition knowledge (h : handler) (G : list genuine) (t : term) : Prop :=
  (exists g, In g G /\ In t (blobs (g_wire h g))) \/ (exists k, t = Key k /\ ~ handler_key h k).
(* a cookie value the adversary can assemble: arbitrary characters, and blobs it can derive *)
Definition wire_derivable (K : term -> Prop) (w : wire) : Prop := forall t, In (Bl t) w -> derivable K t.

Lemma blobs_app a b : blobs (a ++ b) = blobs a ++ blobs b.
Proof. induction a as [|[c|t] r IH]; cbn; [reflexivity|exact IH|now rewrite IH]. Qed.
Lemma blobs_chs s : blobs (chs s) = [].
Proof. induction s; cbn; auto. Qed.

(* ---- subterm inversions ---- *)
Lemma sub_atom x s : sub x (Atom s) -> x = Atom s.
Proof. intro H; inversion H; auto. Qed.
Lemma sub_key x k : sub x (Key k) -> x = Key k.
Proof. intro H; inversion H; auto. Qed.
Lemma sub_mac_inv x k m : sub x (Mac k m) -> x = Mac k m \/ sub x m.
Proof. intro H; inversion H; auto. Qed.
Lemma sub_aenc_inv x k r m : sub x (AEnc k r m) -> x = AEnc k r m \/ sub x m.
Proof. intro H; inversion H; auto. Qed.
Lemma sub_pair_inv x a b : sub x (Pair a b) -> x = Pair a b \/ sub x a \/ sub x b.
Proof. intro H; inversion H; auto. Qed.

Ltac sub_inv :=
  repeat match goal with
  | H : sub _ (Atom _) |- _ => apply sub_atom in H
  | H : sub _ (Key _) |- _ => apply sub_key in H
  | H : sub _ (Mac _ _) |- _ => apply sub_mac_inv in H as [H|H]
  | H : sub _ (AEnc _ _ _) |- _ => apply sub_aenc_inv in H as [H|H]
  | H : sub _ (Pair _ _) |- _ => apply sub_pair_inv in H as [H|[H|H]]
  | H : _ = _ |- _ => discriminate H
  end.

(* ---- derivability of the parts ---- *)
Lemma wd_wcons_hd K s l :
  (forall t, s = Bl t -> derivable K t) -> (forall p, In p l -> wire_derivable K p) ->
  forall p, In p (wcons_hd s l) -> wire_derivable K p.
Proof.
  intros Hs Hl p Hp. destruct l as [|x xs]; cbn in Hp.
  - destruct Hp as [<-|[]]. intros t [E|[]]. now apply Hs.
  - destruct Hp as [<-|Hp].
    + intros t [E|Hin]; [now apply Hs|]. apply (Hl x); [now left|exact Hin].
    + apply Hl. now right.
Qed.

Lemma wd_split K w : wire_derivable K w -> forall p, In p (wsplit w) -> wire_derivable K p.
Proof.
  induction w as [|s r IH]; intros Hw p Hp.
  - cbn in Hp. destruct Hp as [<-|[]]. intros t [].
  - assert (Hr : wire_derivable K r) by (intros t Ht; apply Hw; now right).
    cbn [wsplit] in Hp. destruct (is_bar s).
    + destruct Hp as [<-|Hp]; [intros t []|now apply IH].
    + revert p Hp. apply wd_wcons_hd; [intros t ->; apply Hw; now left|now apply IH].
Qed.

Lemma wd_join K l : (forall p, In p l -> wire_derivable K p) -> wire_derivable K (wjoin l).
Proof.
  induction l as [|x r IH]; intro H; [intros t []|].
  destruct r as [|y r'].
  - cbn. apply H. now left.
  - change (wjoin (x :: y :: r')) with (x ++ Ch bar :: wjoin (y :: r')).
    intros t Ht. apply in_app_or in Ht as [Ht|[Ht|Ht]]; [apply (H x); [now left|exact Ht]|discriminate|].
    apply IH; [|exact Ht]. intros p Hp. apply H. now right.
Qed.

Lemma in_removelast {A} (l : list A) x : In x (removelast l) -> In x l.
Proof.
  induction l as [|a r IH]; cbn; [auto|]. destruct r as [|b r']; [intros []|].
  intros [<-|H]; [now left|right; now apply IH].
Qed.
Lemma in_last {A} (l : list A) d : l <> [] -> In (last l d) l.
Proof.
  induction l as [|a r IH]; [congruence|]. intros _. destruct r as [|b r']; [now left|].
  right. apply IH. discriminate.
Qed.

Lemma wd_regroup K h parts :
  (forall p, In p parts -> wire_derivable K p) -> forall p, In p (regroup h parts) -> wire_derivable K p.
Proof.
  intros H p. unfold regroup. destruct ((3 <? length parts)%nat && signed_only h) eqn:E; [|apply H].
  destruct parts as [|a rest]; [apply H|].
  apply andb_true_iff in E as [E _]. apply Nat.ltb_lt in E. cbn [length] in E.
  intros [<-|[<-|[<-|[]]]].
  - apply H. now left.
  - apply wd_join. intros q Hq. apply H. right. now apply in_removelast.
  - apply H. right. apply in_last. destruct rest; [cbn in E; lia|discriminate].
Qed.

Lemma blob_view_BV p t : blob_view p = BV t -> p = [Bl t].
Proof.
  destruct p as [|[c|t'] r]; cbn.
  - discriminate.
  - destruct (forallb is_ch r); discriminate.
  - destruct r as [|s r']; [intro H; inversion H; reflexivity|discriminate].
Qed.

Lemma adec_some k t m : adec k t = Some m -> exists r, t = AEnc k r m.
Proof.
  destruct t; cbn; try discriminate. destruct (Nat.eqb k k0) eqn:E; [|discriminate].
  apply Nat.eqb_eq in E. intro H; inversion H; subst. eauto.
Qed.

Lemma parse_ok_inv btxt h w v typ ts :
  parse_cookie btxt h w = Ok (v, typ, ts) ->
  exists pl, ver_dec btxt h (regroup h (wsplit w)) = Ok (Some (pl, ts)) /\ rsplit1 colon pl = Some (v, typ).
Proof.
  unfold parse_cookie. destruct (ver_dec btxt h (regroup h (wsplit w))) as [[[pl t]|]|e|]; cbn [bind]; try discriminate.
  destruct (rsplit1 colon pl) as [[v' typ']|] eqn:E; [|discriminate].
  intro H; inversion H; subst. eauto.
Qed.

Lemma parts_derivable K h w : wire_derivable K w -> forall p, In p (regroup h (wsplit w)) -> wire_derivable K p.
Proof. intro H. apply wd_regroup. now apply wd_split. Qed.

Section Tamper.
  Variable btxt : term -> pystr.
  Variable G : list genuine.

  (* ------------------------------------------------------------ signed only *)
  Section S.
    Variable ks : nat.
    Let h := mk_handler (Some ks) None None.
    Let K := knowledge h G.

    Lemma K_S t : K t -> (exists g, In g G /\ t = mac_of ks (g_payload g) (g_ts g)) \/ (exists k, t = Key k /\ k <> ks).
    Proof.
      intros [(g & Hg & Hin)|(k & -> & Hk)].
      - left. exists g. split; [exact Hg|]. unfold g_wire, sign_enc_payload in Hin. cbn in Hin.
        rewrite blobs_app, blobs_chs in Hin. cbn in Hin. rewrite blobs_app, blobs_chs in Hin. cbn in Hin.
        destruct Hin as [<-|[]]. reflexivity.
      - right. exists k. split; [reflexivity|]. intros ->. apply Hk. left. reflexivity.
    Qed.

    Lemma secret_S t : K t -> ~ sub (Key ks) t.
    Proof.
      intros Ht Hs. apply K_S in Ht as [(g & _ & ->)|(k & -> & Hk)]; unfold mac_of in *; sub_inv.
      inversion Hs; congruence.
    Qed.

    Lemma ver_dec_sound_S parts pl ts :
      (forall p, In p parts -> wire_derivable K p) -> ver_dec btxt h parts = Ok (Some (pl, ts)) ->
      exists g, In g G /\ g_payload g = pl /\ g_ts g = ts.
    Proof.
      intros Hd Hv. destruct parts as [|a [|b [|c [|d [|e rest]]]]]; cbn [ver_dec] in Hv; try discriminate.
      unfold ver3 in Hv. cbn [h h_sk] in Hv. destruct (blob_view c) as [t| |] eqn:Ec; try discriminate.
      apply blob_view_BV in Ec. subst c.
      destruct (macv ks (lv_pack [wtext btxt b; wtext btxt a]) t) eqn:Em; [|discriminate].
      inversion Hv; subst pl ts. apply macv_true in Em. subst t.
      assert (Hder : derivable K (Mac ks (Atom (lv_pack [wtext btxt b; wtext btxt a])))).
      { apply (Hd [Bl (Mac ks (Atom (lv_pack [wtext btxt b; wtext btxt a])))]); [cbn; auto|now left]. }
      apply (mac_genuine K ks secret_S) in Hder as (t0 & Ht0 & Hsub).
      apply K_S in Ht0 as [(g & Hg & ->)|(k & -> & _)]; unfold mac_of in Hsub; sub_inv.
      injection Hsub as E. apply (lv_pack_injective [_; _] [_; _]) in E. injection E as E1 E2. exists g. auto.
    Qed.

    Lemma tamper_signed w v typ ts :
      wire_derivable K w -> parse_cookie btxt h w = Ok (v, typ, ts) ->
      exists g, In g G /\ rsplit1 colon (g_payload g) = Some (v, typ) /\ g_ts g = ts.
    Proof.
      intros Hw Hp. apply parse_ok_inv in Hp as (pl & Hv & Hr).
      apply ver_dec_sound_S in Hv as (g & Hg & <- & <-); [eauto|]. now apply parts_derivable.
    Qed.
  End S.

  (* ------------------------------------------------------------ signed and encrypted *)
  Section SE.
    Variables ks ke : nat.
    Let h := mk_handler (Some ks) (Some ke) None.
    Let K := knowledge h G.
    Let lvg (g : genuine) := lv_pack [g_payload g; g_ts g].
    Let ptg (g : genuine) := Pair (Atom (lvg g)) (Mac ks (Atom (lvg g))).
    Let ctg (g : genuine) := AEnc ke (g_r g) (ptg g).

    Lemma K_SE t : K t -> (exists g, In g G /\ (t = ctg g \/ t = Mac ke (ctg g))) \/ (exists k, t = Key k /\ k <> ks /\ k <> ke).
    Proof.
      intros [(g & Hg & Hin)|(k & -> & Hk)].
      - left. exists g. split; [exact Hg|]. unfold g_wire, sign_enc_payload in Hin. cbn in Hin.
        rewrite blobs_app, blobs_chs in Hin. cbn in Hin. rewrite blobs_app, blobs_chs in Hin. cbn in Hin.
        destruct Hin as [<-|[<-|[]]]; [left|right]; reflexivity.
      - right. exists k. split; [reflexivity|]. split; intros ->; apply Hk; [left|right; left]; reflexivity.
    Qed.

    Lemma secret_SE_s t : K t -> ~ sub (Key ks) t.
    Proof.
      intros Ht Hs. apply K_SE in Ht as [(g & _ & [->| ->])|(k & -> & Hk1 & Hk2)]; unfold ctg, ptg in *; sub_inv.
      inversion Hs; congruence.
    Qed.
    Lemma secret_SE_e t : K t -> ~ sub (Key ke) t.
    Proof.
      intros Ht Hs. apply K_SE in Ht as [(g & _ & [->| ->])|(k & -> & Hk1 & Hk2)]; unfold ctg, ptg in *; sub_inv.
      inversion Hs; congruence.
    Qed.

    Lemma open_plain_genuine g pl ts :
      open_plain btxt h (ptg g) = Ok (Some (pl, ts)) -> g_payload g = pl /\ g_ts g = ts.
    Proof.
      unfold open_plain, ptg, lvg. rewrite lv_roundtrip. cbn [bind app h h_sk].
      destruct (macv ks (lv_pack [g_payload g; g_ts g]) (Mac ks (Atom (lv_pack [g_payload g; g_ts g])))); [|discriminate].
      intro H; inversion H; auto.
    Qed.

    Lemma ver_dec_sound_SE parts pl ts :
      (forall p, In p parts -> wire_derivable K p) -> ver_dec btxt h parts = Ok (Some (pl, ts)) ->
      exists g, In g G /\ g_payload g = pl /\ g_ts g = ts.
    Proof.
      intros Hd Hv. destruct parts as [|a [|b [|c [|d [|e rest]]]]]; cbn [ver_dec] in Hv; try discriminate.
      - (* three parts: a MAC under the signing key over lv_pack(payload, timestamp) *)
        unfold ver3 in Hv. cbn [h h_sk] in Hv. destruct (blob_view c) as [t| |] eqn:Ec; try discriminate.
        apply blob_view_BV in Ec. subst c.
        destruct (macv ks (lv_pack [wtext btxt b; wtext btxt a]) t) eqn:Em; [|discriminate].
        inversion Hv; subst pl ts. apply macv_true in Em. subst t.
        assert (Hder : derivable K (Mac ks (Atom (lv_pack [wtext btxt b; wtext btxt a])))).
        { apply (Hd [Bl (Mac ks (Atom (lv_pack [wtext btxt b; wtext btxt a])))]); [cbn; auto|now left]. }
        apply (mac_genuine K ks secret_SE_s) in Hder as (t0 & Ht0 & Hsub).
        apply K_SE in Ht0 as [(g & Hg & [->| ->])|(k & -> & _)]; unfold ctg, ptg, lvg in Hsub; sub_inv;
          injection Hsub as E; apply (lv_pack_injective [_; _] [_; _]) in E; injection E as E1 E2; exists g; auto.
      - (* four parts: an AES-GCM ciphertext under the encryption key *)
        unfold ver4 in Hv. cbn [h h_ek] in Hv.
        destruct (blob_view c) as [ct| |] eqn:Ec; destruct (blob_view d) as [tg| |] eqn:Ed; try discriminate.
        apply blob_view_BV in Ec. subst c.
        destruct ct as [| | | |k' r m| |]; try discriminate.
        destruct (Nat.eqb ke k' && str_eqb r (wtext btxt b) && tagv ke (AEnc k' r m) tg) eqn:Eg; [|discriminate].
        apply andb_true_iff in Eg as [Eg _]. apply andb_true_iff in Eg as [Ek _]. apply Nat.eqb_eq in Ek. subst k'.
        assert (Hder : derivable K (AEnc ke r m)).
        { apply (Hd [Bl (AEnc ke r m)]); [cbn; auto|now left]. }
        apply (aenc_genuine K ke secret_SE_e) in Hder as (t0 & Ht0 & Hsub).
        apply K_SE in Ht0 as [(g & Hg & [->| ->])|(k & -> & _)]; unfold ctg, ptg, lvg in Hsub; sub_inv;
          inversion Hsub; subst; apply open_plain_genuine in Hv as [? ?]; exists g; auto.
    Qed.

    Lemma tamper_signed_encrypted w v typ ts :
      wire_derivable K w -> parse_cookie btxt h w = Ok (v, typ, ts) ->
      exists g, In g G /\ rsplit1 colon (g_payload g) = Some (v, typ) /\ g_ts g = ts.
    Proof.
      intros Hw Hp. apply parse_ok_inv in Hp as (pl & Hv & Hr).
      apply ver_dec_sound_SE in Hv as (g & Hg & <- & <-); [eauto|]. now apply parts_derivable.
    Qed.
  End SE.

  (* ------------------------------------------------------------ encrypted only *)
  Section E.
    Variable ke : nat.
    Let h := mk_handler None (Some ke) None.
    Let K := knowledge h G.
    Let lvg (g : genuine) := lv_pack [g_payload g; g_ts g].
    Let ctg (g : genuine) := AEnc ke (g_r g) (Atom (lvg g)).

    Lemma K_E t : K t -> (exists g, In g G /\ (t = ctg g \/ t = Mac ke (ctg g))) \/ (exists k, t = Key k /\ k <> ke).
    Proof.
      intros [(g & Hg & Hin)|(k & -> & Hk)].
      - left. exists g. split; [exact Hg|]. unfold g_wire, sign_enc_payload in Hin. cbn in Hin.
        rewrite blobs_app, blobs_chs in Hin. cbn in Hin. rewrite blobs_app, blobs_chs in Hin. cbn in Hin.
        destruct Hin as [<-|[<-|[]]]; [left|right]; reflexivity.
      - right. exists k. split; [reflexivity|]. intros ->; apply Hk; right; left; reflexivity.
    Qed.
    Lemma secret_E t : K t -> ~ sub (Key ke) t.
    Proof.
      intros Ht Hs. apply K_E in Ht as [(g & _ & [->| ->])|(k & -> & Hk)]; unfold ctg in *; sub_inv.
      inversion Hs; congruence.
    Qed.

    Lemma open_plain_genuine_E g pl ts :
      open_plain btxt h (Atom (lvg g)) = Ok (Some (pl, ts)) -> g_payload g = pl /\ g_ts g = ts.
    Proof.
      unfold open_plain, lvg. rewrite lv_roundtrip. cbn [bind]. intro H; inversion H; auto.
    Qed.

    Lemma ver_dec_sound_E parts pl ts :
      (forall p, In p parts -> wire_derivable K p) -> ver_dec btxt h parts = Ok (Some (pl, ts)) ->
      exists g, In g G /\ g_payload g = pl /\ g_ts g = ts.
    Proof.
      intros Hd Hv. destruct parts as [|a [|b [|c [|d [|e rest]]]]]; cbn [ver_dec] in Hv; try discriminate.
      unfold ver4 in Hv. cbn [h h_ek] in Hv.
      destruct (blob_view c) as [ct| |] eqn:Ec; destruct (blob_view d) as [tg| |] eqn:Ed; try discriminate.
      apply blob_view_BV in Ec. subst c.
      destruct ct as [| | | |k' r m| |]; try discriminate.
      destruct (Nat.eqb ke k' && str_eqb r (wtext btxt b) && tagv ke (AEnc k' r m) tg) eqn:Eg; [|discriminate].
      apply andb_true_iff in Eg as [Eg _]. apply andb_true_iff in Eg as [Ek _]. apply Nat.eqb_eq in Ek. subst k'.
      assert (Hder : derivable K (AEnc ke r m)).
      { apply (Hd [Bl (AEnc ke r m)]); [cbn; auto|now left]. }
      apply (aenc_genuine K ke secret_E) in Hder as (t0 & Ht0 & Hsub).
      apply K_E in Ht0 as [(g & Hg & [->| ->])|(k & -> & _)]; unfold ctg, lvg in Hsub; sub_inv;
        inversion Hsub; subst; apply open_plain_genuine_E in Hv as [? ?]; exists g; auto.
    Qed.

    Lemma tamper_encrypted w v typ ts :
      wire_derivable K w -> parse_cookie btxt h w = Ok (v, typ, ts) ->
      exists g, In g G /\ rsplit1 colon (g_payload g) = Some (v, typ) /\ g_ts g = ts.
    Proof.
      intros Hw Hp. apply parse_ok_inv in Hp as (pl & Hv & Hr).
      apply ver_dec_sound_E in Hv as (g & Hg & <- & <-); [eauto|]. now apply parts_derivable.
    Qed.
  End E.

  (* ------------------------------------------------------------ encrypter (Fernet) *)
  Section C.
    Variable kc : nat.
    Let h := mk_handler None None (Some kc).
    Let K := knowledge h G.
    Let ctg (g : genuine) := AEnc kc (g_r g) (Atom (lv_pack [g_ts g; g_payload g])).
    (* the padding strip of the Fernet wrapper must not eat into a genuine type *)
    Hypothesis G_nospace : forall g, In g G -> last_is space (g_typ g) = false.

    Lemma K_C t : K t -> (exists g, In g G /\ t = ctg g) \/ (exists k, t = Key k /\ k <> kc).
    Proof.
      intros [(g & Hg & Hin)|(k & -> & Hk)].
      - left. exists g. split; [exact Hg|]. unfold g_wire, sign_enc_payload in Hin. cbn in Hin.
        rewrite blobs_app, blobs_chs in Hin. cbn in Hin. destruct Hin as [<-|[]]. reflexivity.
      - right. exists k. split; [reflexivity|]. intros ->; apply Hk; right; right; reflexivity.
    Qed.
    Lemma secret_C t : K t -> ~ sub (Key kc) t.
    Proof.
      intros Ht Hs. apply K_C in Ht as [(g & _ & ->)|(k & -> & Hk)]; unfold ctg in *; sub_inv.
      inversion Hs; congruence.
    Qed.

    Lemma ver_dec_sound_C parts pl ts :
      (forall p, In p parts -> wire_derivable K p) -> ver_dec btxt h parts = Ok (Some (pl, ts)) ->
      exists g, In g G /\ g_payload g = pl /\ g_ts g = ts.
    Proof.
      intros Hd Hv. destruct parts as [|a [|b [|c [|d [|e rest]]]]]; cbn [ver_dec] in Hv; try discriminate.
      unfold ver2 in Hv. cbn [h h_ck] in Hv. destruct (blob_view b) as [t| |] eqn:Eb; try discriminate.
      apply blob_view_BV in Eb. subst b.
      destruct (adec kc t) as [m|] eqn:Ea; [|discriminate]. apply adec_some in Ea as [r ->].
      destruct m as [s| | | | | |]; try discriminate.
      assert (Hder : derivable K (AEnc kc r (Atom s))).
      { apply (Hd [Bl (AEnc kc r (Atom s))]); [cbn; auto|now left]. }
      apply (aenc_genuine K kc secret_C) in Hder as (t0 & Ht0 & Hsub).
      apply K_C in Ht0 as [(g & Hg & ->)|(k & -> & _)]; unfold ctg in Hsub; sub_inv.
      assert (Es : s = lv_pack [g_ts g; g_payload g]) by congruence. clear Hsub. subst s.
      rewrite rstrip_sp_id in Hv.
      - rewrite lv_roundtrip in Hv. cbn [bind] in Hv.
        destruct (str_eqb (wtext btxt a) (g_ts g)); [|discriminate]. inversion Hv. exists g. auto.
      - rewrite last_is_lv_pack2 by apply payload_nonempty. apply last_is_payload. now apply G_nospace.
    Qed.

    Lemma tamper_encrypter w v typ ts :
      wire_derivable K w -> parse_cookie btxt h w = Ok (v, typ, ts) ->
      exists g, In g G /\ rsplit1 colon (g_payload g) = Some (v, typ) /\ g_ts g = ts.
    Proof.
      intros Hw Hp. apply parse_ok_inv in Hp as (pl & Hv & Hr).
      apply ver_dec_sound_C in Hv as (g & Hg & <- & <-); [eauto|]. now apply parts_derivable.
    Qed.
  End C.
End Tamper.

(* under the round-trip guard on the genuine types the accepted content IS a genuine cookie's content *)
Lemma genuine_content G v typ ts :
  (forall g, In g G -> typ_ok (g_typ g) = true) ->
  (exists g, In g G /\ rsplit1 colon (g_payload g) = Some (v, typ) /\ g_ts g = ts) ->
  exists g, In g G /\ g_value g = v /\ g_typ g = typ /\ g_ts g = ts.
Proof.
  intros Hok (g & Hg & Hr & Ht). exists g. unfold g_payload in Hr.
  rewrite rsplit1_payload in Hr by (now apply Hok). inversion Hr. auto.
Qed.

(* ================================================================ C'. several cookies in one parse_cookie call *)
From Coq Require Import Permutation.

Section ListParse.
  Variable btxt : term -> pystr.
  Variable declen : pystr -> option nat.
  Variable h : handler.
  Notation parse_turn := (parse_turn btxt declen).
  Notation parse_loop := (parse_loop btxt declen).
  Notation parse_cookies := (parse_cookies btxt declen).

  (* the single-cookie parse is one turn of the loop *)
  Lemma parse_cookie_one w :
    parse_cookie btxt h w = (x <- parse_one btxt h w ;; match x with Some e => Ok e | None => rejected end).
  Proof.
    unfold parse_cookie, parse_one.
    destruct (ver_dec btxt h (regroup h (wsplit w))) as [[[pl t]|]|e|]; cbn [bind]; try reflexivity.
    destruct (rsplit1 colon pl) as [[v typ]|]; reflexivity.
  Qed.

  Lemma parse_one_some w e : parse_one btxt h w = Ok (Some e) <-> parse_cookie btxt h w = Ok e.
  Proof.
    rewrite parse_cookie_one. destruct (parse_one btxt h w) as [[x|]|x|]; cbn [bind]; unfold rejected;
      split; intro H; try discriminate H; congruence.
  Qed.
  Lemma parse_one_none w : parse_one btxt h w = Ok None -> forall e, parse_cookie btxt h w <> Ok e.
  Proof. intros H e. rewrite parse_cookie_one, H. cbn. unfold rejected. discriminate. Qed.

  (* what ONE cookie contributes to the result list: its own single-cookie parse if it has the requested name
     and is accepted alone; nothing otherwise.  No reference to the other cookies of the call. *)
  Definition contribution (name : pystr) (c : cookie) : list content :=
    if name_is name c then match parse_cookie btxt h (snd c) with Ok e => [e] | _ => [] end else [].

  (* the refinement of the refusal kind changes no acceptance *)
  Lemma parse_turn_ok w x : parse_turn h w = Ok x -> parse_one btxt h w = Ok x.
  Proof.
    unfold Cookie.parse_turn. destruct (parse_one btxt h w) as [[e|]|e|]; try (intro H; exact H).
    destruct (hard_fail btxt declen h w); [discriminate|intro H; exact H].
  Qed.
  Lemma parse_turn_some w e : parse_one btxt h w = Ok (Some e) -> parse_turn h w = Ok (Some e).
  Proof. unfold Cookie.parse_turn. now intros ->. Qed.

  Lemma contribution_one name c x :
    name_is name c = true -> parse_turn h (snd c) = Ok x ->
    contribution name c = match x with Some e => [e] | None => [] end.
  Proof.
    intros Hn Hx. apply parse_turn_ok in Hx. unfold contribution. rewrite Hn, parse_cookie_one, Hx. destruct x; reflexivity.
  Qed.

  Lemma parse_loop_spec name cs out :
    parse_loop h name cs = Ok out -> out = flat_map (contribution name) cs.
  Proof.
    revert out; induction cs as [|c r IH]; intros out H; cbn [parse_loop] in H.
    - now inversion H.
    - cbn [flat_map]. destruct (name_is name c) eqn:En.
      + destruct (parse_turn h (snd c)) as [x|e|] eqn:Ex; cbn [bind] in H; try discriminate H.
        destruct (parse_loop h name r) as [rest|e|]; cbn [bind] in H; try discriminate H.
        inversion H; subst out. rewrite (contribution_one name c x En Ex), (IH rest eq_refl).
        destruct x; reflexivity.
      + unfold contribution at 1. rewrite En. cbn [app]. now apply IH.
  Qed.

  (* the call succeeds iff no cookie of the requested name raises when parsed alone *)
  Lemma parse_loop_ok_iff name cs :
    (exists out, parse_loop h name cs = Ok out) <->
    (forall c, In c cs -> name_is name c = true -> exists x, parse_turn h (snd c) = Ok x).
  Proof.
    induction cs as [|c r IH]; cbn [parse_loop].
    - split; [intros _ c []|intros _; eauto].
    - destruct (name_is name c) eqn:En.
      + split.
        * intros [out H]. destruct (parse_turn h (snd c)) as [x|e|] eqn:Ex; cbn [bind] in H; try discriminate H.
          destruct (parse_loop h name r) as [rest|e|] eqn:Er; cbn [bind] in H; try discriminate H.
          intros c' [<-|Hin] Hn; [eauto|]. apply IH; eauto.
        * intro Hall. destruct (Hall c (or_introl eq_refl) En) as [x ->]. cbn [bind].
          destruct (proj2 IH) as [rest ->]; [intros c' Hin; apply Hall; now right|]. cbn [bind]. eauto.
      + rewrite IH. split; intros Hall c' Hin; [destruct Hin as [<-|Hin]; [congruence|now apply Hall]|apply Hall; now right].
  Qed.

  Lemma parse_loop_err name cs e :
    parse_loop h name cs = Err e ->
    exists c, In c cs /\ name_is name c = true /\ parse_turn h (snd c) = Err e.
  Proof.
    induction cs as [|c r IH]; cbn [parse_loop]; [discriminate|].
    destruct (name_is name c) eqn:En.
    - destruct (parse_turn h (snd c)) as [x|e'|] eqn:Ex; cbn [bind]; try discriminate.
      + destruct (parse_loop h name r) as [rest|e'|] eqn:Er; cbn [bind]; try discriminate.
        intro H; inversion H; subst e'. destruct (IH eq_refl) as (c' & Hin & Hn & Hp). exists c'. auto with datatypes.
      + intro H; inversion H; subst e'. exists c. auto with datatypes.
    - intro H. destruct (IH H) as (c' & Hin & Hn & Hp). exists c'. auto with datatypes.
  Qed.

  Lemma parse_cookies_inv name cs out :
    parse_cookies h name cs = Ok (Some out) -> parse_loop h name cs = Ok out.
  Proof.
    unfold parse_cookies. destruct cs as [|c r]; [discriminate|].
    destruct (parse_loop h name (c :: r)) as [l|e|]; cbn [bind]; try discriminate. intro H; now inversion H.
  Qed.

  (* each returned entry is the content of the cookie at its position, accepted on its own; a cookie that is
     not accepted on its own contributes nothing, wherever it stands and whatever stands before it *)
  Lemma list_compositional name cs out :
    parse_cookies h name cs = Ok (Some out) -> out = flat_map (contribution name) cs.
  Proof. intro H. now apply parse_loop_spec, parse_cookies_inv. Qed.

  Lemma list_total name cs :
    cs <> [] ->
    (forall c, In c cs -> name_is name c = true -> exists x, parse_turn h (snd c) = Ok x) ->
    parse_cookies h name cs = Ok (Some (flat_map (contribution name) cs)).
  Proof.
    intros Hne Hall. apply parse_loop_ok_iff in Hall as [out Hout]. pose proof (parse_loop_spec _ _ _ Hout) as ->.
    unfold parse_cookies. destruct cs; [congruence|]. now rewrite Hout.
  Qed.

  Lemma list_raises name cs e :
    parse_cookies h name cs = Err e ->
    exists c, In c cs /\ name_is name c = true /\ parse_turn h (snd c) = Err e.
  Proof.
    unfold parse_cookies. destruct cs as [|c r]; [discriminate|].
    destruct (parse_loop h name (c :: r)) as [l|e'|] eqn:El; cbn [bind]; try discriminate.
    intro H; inversion H; subst e'. now apply parse_loop_err.
  Qed.

  (* the order of the cookies only decides the order of the entries *)
  Lemma list_order name cs cs' out :
    Permutation cs cs' -> parse_cookies h name cs = Ok (Some out) ->
    exists out', parse_cookies h name cs' = Ok (Some out') /\ Permutation out out'.
  Proof.
    intros Hp H. assert (Hne : cs <> []) by (intros ->; discriminate H).
    pose proof (list_compositional _ _ _ H) as ->. apply parse_cookies_inv in H.
    exists (flat_map (contribution name) cs'). split; [|now apply Permutation_flat_map].
    apply list_total.
    - intros ->. apply Permutation_sym, Permutation_nil in Hp. contradiction.
    - intros c Hin. apply (proj1 (parse_loop_ok_iff name cs)); [eauto|].
      eapply Permutation_in; [apply Permutation_sym; exact Hp|exact Hin].
  Qed.

  (* every entry satisfies whatever holds of all single-cookie acceptances *)
  Lemma list_sound (P : content -> Prop) name cs out :
    (forall c e, In c cs -> parse_cookie btxt h (snd c) = Ok e -> P e) ->
    parse_cookies h name cs = Ok (Some out) -> Forall P out.
  Proof.
    intros HP H. pose proof (list_compositional _ _ _ H) as ->. apply Forall_forall. intros e He.
    apply in_flat_map in He as (c & Hc & He). unfold contribution in He.
    destruct (name_is name c); [|destruct He].
    destruct (parse_cookie btxt h (snd c)) as [e'|x|] eqn:Ep; try destruct He as [<-|[]]; try destruct He. eauto.
  Qed.

  (* genuine cookies, each parsing back alone, all come back in order *)
  Lemma list_roundtrip name (gs : list (wire * content)) :
    gs <> [] -> (forall g, In g gs -> parse_cookie btxt h (fst g) = Ok (snd g)) ->
    parse_cookies h name (List.map (fun g => (Some name, fst g)) gs) = Ok (Some (List.map snd gs)).
  Proof.
    intros Hne Hall.
    replace (List.map snd gs) with (flat_map (contribution name) (List.map (fun g => (Some name, fst g)) gs)).
    - apply list_total; [destruct gs; [congruence|discriminate]|].
      intros c Hin _. apply in_map_iff in Hin as (g & <- & Hg). exists (Some (snd g)). apply parse_turn_some, parse_one_some. now apply Hall.
    - clear Hne. induction gs as [|g r IH]; [reflexivity|]. cbn [List.map flat_map].
      rewrite IH by (intros; apply Hall; now right). unfold contribution at 1, name_is. cbn [fst snd].
      rewrite str_eqb_refl, (Hall g) by now left. reflexivity.
  Qed.
End ListParse.

(* the content of an entry is that of a cookie the provider issued *)
Definition genuine_entry (G : list genuine) (e : content) : Prop :=
  exists g, In g G /\ rsplit1 colon (g_payload g) = Some (fst (fst e), snd (fst e)) /\ g_ts g = snd e.

Section ListTamper.
  Variable btxt : term -> pystr.
  Variable declen : pystr -> option nat.
  Variable G : list genuine.

  Lemma list_tamper_signed ks name cs out :
    let h := mk_handler (Some ks) None None in
    (forall c, In c cs -> wire_derivable (knowledge h G) (snd c)) ->
    parse_cookies btxt declen h name cs = Ok (Some out) -> Forall (genuine_entry G) out.
  Proof.
    intros h Hd. apply list_sound. intros c [[v typ] ts] Hc Hp. apply (tamper_signed btxt G ks (snd c)); auto.
  Qed.
  Lemma list_tamper_signed_encrypted ks ke name cs out :
    let h := mk_handler (Some ks) (Some ke) None in
    (forall c, In c cs -> wire_derivable (knowledge h G) (snd c)) ->
    parse_cookies btxt declen h name cs = Ok (Some out) -> Forall (genuine_entry G) out.
  Proof.
    intros h Hd. apply list_sound. intros c [[v typ] ts] Hc Hp. apply (tamper_signed_encrypted btxt G ks ke (snd c)); auto.
  Qed.
  Lemma list_tamper_encrypted ke name cs out :
    let h := mk_handler None (Some ke) None in
    (forall c, In c cs -> wire_derivable (knowledge h G) (snd c)) ->
    parse_cookies btxt declen h name cs = Ok (Some out) -> Forall (genuine_entry G) out.
  Proof.
    intros h Hd. apply list_sound. intros c [[v typ] ts] Hc Hp. apply (tamper_encrypted btxt G ke (snd c)); auto.
  Qed.
  Lemma list_tamper_encrypter kc name cs out :
    (forall g, In g G -> last_is space (g_typ g) = false) ->
    let h := mk_handler None None (Some kc) in
    (forall c, In c cs -> wire_derivable (knowledge h G) (snd c)) ->
    parse_cookies btxt declen h name cs = Ok (Some out) -> Forall (genuine_entry G) out.
  Proof.
    intros Hsp h Hd. apply list_sound. intros c [[v typ] ts] Hc Hp. apply (tamper_encrypter btxt G kc Hsp (snd c)); auto.
  Qed.
End ListTamper.

(* ================================================================ D. the relying party's cookie helper *)
Lemma client_roundtrip btxt k load ts :
  no_c bar load = true -> no_c bar ts = true ->
  client_parse btxt k (client_make k load ts) = Ok (load, ts).
Proof.
  intros Hl Ht. unfold client_parse, client_make.
  rewrite wsplit_app, (wsplit_nobar (chs load)) by (now apply no_bar_chs).
  rewrite wsplit_app, (wsplit_nobar (chs ts)) by (now apply no_bar_chs).
  change (wsplit [Bl (client_mac k load ts)]) with [[Bl (client_mac k load ts)]].
  cbn [app]. rewrite !wtext_chs. unfold client_mac. now rewrite macv_refl.
Qed.

Section ClientTamper.
  Variable btxt : term -> pystr.
  Variable k : nat.
  Variable G : list (pystr * pystr).          (* (load, timestamp) of every cookie the relying party issued *)
  Let K (t : term) : Prop :=
    (exists g, In g G /\ t = client_mac k (fst g) (snd g)) \/ (exists k', t = Key k' /\ k' <> k).

  Lemma secret_client t : K t -> ~ sub (Key k) t.
  Proof.
    intros [(g & _ & ->)|(k' & -> & Hk)] Hs; unfold client_mac in *; sub_inv. inversion Hs; congruence.
  Qed.

  (* what the unframed MAC really guarantees: only the CONCATENATION load ‖ timestamp is authenticated *)
  Lemma client_tamper_partial w load ts :
    wire_derivable K w -> client_parse btxt k w = Ok (load, ts) ->
    exists g, In g G /\ fst g ++ snd g = load ++ ts.
  Proof.
    intros Hw Hp. unfold client_parse in Hp.
    pose proof (wd_split K w Hw) as Hd.
    destruct (wsplit w) as [|c [|t [|s [|x [|y rest]]]]]; try discriminate.
    destruct s as [|[ch|m] [|s2 s']]; try discriminate.
    destruct (macv k (wtext btxt c ++ wtext btxt t) m) eqn:Em; [|discriminate].
    inversion Hp; subst load ts. apply macv_true in Em. subst m.
    assert (Hder : derivable K (Mac k (Atom (wtext btxt c ++ wtext btxt t)))).
    { apply (Hd [Bl (Mac k (Atom (wtext btxt c ++ wtext btxt t)))]); [cbn; auto|now left]. }
    apply (mac_genuine K k secret_client) in Hder as (t0 & Ht0 & Hsub).
    destruct Ht0 as [(g & Hg & ->)|(k' & -> & _)]; unfold client_mac in Hsub; sub_inv.
    injection Hsub as E. exists g. split; [exact Hg|now symmetry].
  Qed.
End ClientTamper.

(* ================================================================ E. key sources: cookies of another handler *)
Lemma in_blobs w t : In (Bl t) w -> In t (blobs w).
Proof.
  induction w as [|[c|t'] r IH]; cbn; [auto| |].
  - intros [H|H]; [discriminate|auto].
  - intros [H|H]; [inversion H; auto|auto].
Qed.

Lemma derivable_mono (K K' : term -> Prop) t :
  (forall x, K' x -> derivable K x) -> derivable K' t -> derivable K t.
Proof.
  intros HK H. induction H; eauto using derivable.
Qed.

Lemma wd_extend (K K' : term -> Prop) w :
  (forall x, K' x -> derivable K x) -> wire_derivable K' w -> wire_derivable K w.
Proof. intros HK Hw t Ht. eapply derivable_mono; [exact HK|]. now apply Hw. Qed.

(* no key of h1 is a key of h2 *)
Definition keys_disjoint (h1 h2 : handler) : Prop := forall k, handler_key h1 k -> ~ handler_key h2 k.

(* the four protection modes CookieHandler.__init__ can produce with at least one key *)
Definition four_modes (h : handler) : Prop :=
  (exists ks, h = mk_handler (Some ks) None None) \/ (exists ks ke, h = mk_handler (Some ks) (Some ke) None) \/
  (exists ke, h = mk_handler None (Some ke) None) \/ (exists kc, h = mk_handler None None (Some kc)).

(* what the issuing handler's own keys are to the receiving handler: keys like any other it does not own, i.e.
   every cryptographic value inside a cookie of h1 is something an adversary of h2 can compute *)
Lemma foreign_blobs_derivable h1 h2 G g t :
  keys_disjoint h1 h2 -> In t (blobs (g_wire h1 g)) -> derivable (knowledge h2 G) t.
Proof.
  intros Hd Hin.
  assert (HK : forall k, handler_key h1 k -> derivable (knowledge h2 G) (Key k)).
  { intros k Hk. apply d_init. right. exists k. split; [reflexivity|now apply Hd]. }
  unfold g_wire, sign_enc_payload in Hin.
  destruct h1 as [[sk|] [ek|] [ck|]]; cbn [h_sk h_ek h_ck option_map] in Hin;
    repeat (rewrite ?blobs_app, ?blobs_chs in Hin; cbn [blobs app] in Hin); cbn [In] in Hin;
    repeat match goal with H : _ \/ _ |- _ => destruct H as [H|H] | H : False |- _ => destruct H end; try subst t;
    unfold mac_of;
    repeat first [apply d_atom | apply d_pair | apply d_mac | apply d_enc
                 | apply HK; unfold handler_key; cbn [h_sk h_ek h_ck]; auto].
Qed.

Lemma foreign_wire_derivable h1 h2 G g :
  keys_disjoint h1 h2 -> wire_derivable (knowledge h2 G) (g_wire h1 g).
Proof. intros Hd t Ht. apply (foreign_blobs_derivable h1 h2 G g t Hd). apply in_blobs, Ht. Qed.

(* the four tamper-evidence theorems as one statement *)
Lemma tamper_four btxt G h w v typ ts :
  four_modes h -> (forall g, In g G -> last_is space (g_typ g) = false) ->
  wire_derivable (knowledge h G) w -> parse_cookie btxt h w = Ok (v, typ, ts) ->
  exists g, In g G /\ rsplit1 colon (g_payload g) = Some (v, typ) /\ g_ts g = ts.
Proof.
  intros [(ks & ->)|[(ks & ke & ->)|[(ke & ->)|(kc & ->)]]] Hsp Hw Hp.
  - eapply tamper_signed; eauto.
  - eapply tamper_signed_encrypted; eauto.
  - eapply tamper_encrypted; eauto.
  - eapply tamper_encrypter; eauto.
Qed.

(* a handler refuses every cookie made by a handler it shares no key with, in every mode on both sides *)
Lemma foreign_refused btxt h1 h2 g :
  four_modes h2 -> keys_disjoint h1 h2 -> is_ok (parse_cookie btxt h2 (g_wire h1 g)) = false.
Proof.
  intros Hm Hd. destruct (parse_cookie btxt h2 (g_wire h1 g)) as [[[v typ] ts]|e|] eqn:Hp; try reflexivity.
  exfalso. apply (tamper_four btxt [] h2 _ v typ ts Hm) in Hp as (g' & [] & _).
  - intros g' [].
  - now apply foreign_wire_derivable.
Qed.

(* ... and whatever an adversary assembles from the cookies G2 this handler issued, from ANY number of cookies of
   handlers it shares no key with, and from every key it does not own: accepted => content of a cookie in G2 *)
Definition with_foreign (h2 : handler) (G2 : list genuine) (F : list (handler * genuine)) (t : term) : Prop :=
  knowledge h2 G2 t \/ exists f, In f F /\ In t (blobs (g_wire (fst f) (snd f))).

Lemma foreign_mix btxt h2 G2 F w v typ ts :
  four_modes h2 -> (forall g, In g G2 -> last_is space (g_typ g) = false) ->
  (forall f, In f F -> keys_disjoint (fst f) h2) ->
  wire_derivable (with_foreign h2 G2 F) w -> parse_cookie btxt h2 w = Ok (v, typ, ts) ->
  exists g, In g G2 /\ rsplit1 colon (g_payload g) = Some (v, typ) /\ g_ts g = ts.
Proof.
  intros Hm Hsp HF Hw. apply tamper_four; [exact Hm|exact Hsp|].
  eapply wd_extend; [|exact Hw]. intros x [Hx|(f & Hf & Hin)].
  - now apply d_init.
  - eapply foreign_blobs_derivable; [apply HF; exact Hf|exact Hin].
Qed.

(* ---- generated keys: draws from the supply ---- *)
Definition draws_distinct (sup : nat -> nat) : Prop := forall d d', d <> d' -> sup d <> sup d'.
Definition is_gen (s : option ksrc) : Prop := s = None \/ s = Some KGen.
Definition all_gen (s : hspec) : Prop := is_gen (s_sk s) /\ is_gen (s_ek s) /\ is_gen (s_ck s).
Definition is_given (s : option ksrc) : Prop := s = None \/ exists k, s = Some (KGiven k).
Definition all_given (s : hspec) : Prop := is_given (s_sk s) /\ is_given (s_ek s) /\ is_given (s_ck s).

Definition ndraw (s : option ksrc) : nat := match s with Some KGen => 1 | _ => 0 end.
Definition ndraws (s : hspec) : nat := (ndraw (s_sk s) + ndraw (s_ek s) + ndraw (s_ck s))%nat.
Fixpoint next (l : list bstep) (n : nat) : nat :=
  match l with
  | [] => n
  | BHandler s :: r => next r (n + ndraws s)
  | BOther m :: r => next r (n + m)
  end.

Section Fresh.
  Variable sup : nat -> nat.

  Lemma take_snd s n : snd (take sup s n) = (n + ndraw s)%nat.
  Proof. destruct s as [[k|]|]; cbn; lia. Qed.
  Lemma take_gen s n k : is_gen s -> fst (take sup s n) = Some k -> k = sup n /\ ndraw s = 1%nat.
  Proof.
    intros [->| ->]; cbn; [discriminate|]. intro H; inversion H. auto.
  Qed.
  Lemma take_given s n n' : is_given s -> take sup s n = (fst (take sup s n'), n).
  Proof. intros [->|(k & ->)]; reflexivity. Qed.

  Lemma construct_snd s n : snd (construct sup s n) = (n + ndraws s)%nat.
  Proof.
    unfold construct, ndraws.
    pose proof (take_snd (s_sk s) n) as H1. destruct (take sup (s_sk s) n) as [sk n1]. cbn [snd] in H1.
    pose proof (take_snd (s_ek s) n1) as H2. destruct (take sup (s_ek s) n1) as [ek n2]. cbn [snd] in H2.
    pose proof (take_snd (s_ck s) n2) as H3. destruct (take sup (s_ck s) n2) as [ck n3]. cbn [snd] in H3.
    cbn [snd]. lia.
  Qed.

  (* every key of a handler whose keys are all generated is one of the draws made during its construction *)
  Lemma construct_keys s n k :
    all_gen s -> handler_key (fst (construct sup s n)) k ->
    exists d, (n <= d < snd (construct sup s n))%nat /\ k = sup d.
  Proof.
    intros (G1 & G2 & G3). rewrite construct_snd. unfold construct, ndraws.
    pose proof (take_snd (s_sk s) n) as H1. pose proof (take_gen (s_sk s) n) as T1.
    destruct (take sup (s_sk s) n) as [sk n1]. cbn [fst snd] in H1, T1.
    pose proof (take_snd (s_ek s) n1) as H2. pose proof (take_gen (s_ek s) n1) as T2.
    destruct (take sup (s_ek s) n1) as [ek n2]. cbn [fst snd] in H2, T2.
    pose proof (take_snd (s_ck s) n2) as H3. pose proof (take_gen (s_ck s) n2) as T3.
    destruct (take sup (s_ck s) n2) as [ck n3]. cbn [fst snd] in H3, T3.
    cbn [fst]. unfold handler_key. cbn [h_sk h_ek h_ck].
    intros [E|[E|E]].
    - destruct (T1 k G1 E) as [-> ?]. exists n. split; [lia|reflexivity].
    - destruct (T2 k G2 E) as [-> ?]. exists n1. split; [lia|reflexivity].
    - destruct (T3 k G3 E) as [-> ?]. exists n2. split; [lia|reflexivity].
  Qed.

  (* two handlers with generated keys, the second built after the first (anything may draw in between): under the
     freshness hypothesis they share no key *)
  Lemma generated_disjoint s1 s2 n n2 :
    draws_distinct sup -> all_gen s1 -> all_gen s2 -> (snd (construct sup s1 n) <= n2)%nat ->
    let h1 := fst (construct sup s1 n) in let h2 := fst (construct sup s2 n2) in
    keys_disjoint h1 h2 /\ keys_disjoint h2 h1.
  Proof.
    intros Hf G1 G2 Hle h1 h2.
    assert (forall k, handler_key h1 k -> handler_key h2 k -> False) as H.
    { intros k K1 K2. apply (construct_keys s1 n k G1) in K1 as (d1 & R1 & E1).
      apply (construct_keys s2 n2 k G2) in K2 as (d2 & R2 & E2).
      apply (Hf d1 d2); [lia|congruence]. }
    split; intros k K1 K2; eapply H; eauto.
  Qed.

  (* histories *)
  Lemma build_all_app l1 l2 n : build_all sup (l1 ++ l2) n = build_all sup l1 n ++ build_all sup l2 (next l1 n).
  Proof.
    revert n; induction l1 as [|[s|m] r IH]; intro n; cbn [app build_all next]; [reflexivity| |apply IH].
    pose proof (construct_snd s n) as Hs. destruct (construct sup s n) as [h n']. cbn [snd] in Hs. subst n'.
    now rewrite IH.
  Qed.
  Lemma build_all_cons s r n :
    build_all sup (BHandler s :: r) n = fst (construct sup s n) :: build_all sup r (n + ndraws s).
  Proof.
    cbn [build_all]. pose proof (construct_snd s n) as Hs. destruct (construct sup s n) as [h n']. cbn [snd fst] in *. now subst.
  Qed.
  Lemma next_le l n : (n <= next l n)%nat.
  Proof. revert n; induction l as [|[s|m] r IH]; intro n; cbn [next]; [lia| |]; (etransitivity; [|apply IH]); lia. Qed.
  Lemma next_app l1 l2 n : next (l1 ++ l2) n = next l2 (next l1 n).
  Proof. revert n; induction l1 as [|[s|m] r IH]; intro n; cbn [app next]; auto. Qed.

  (* any two handlers of one history whose keys are all generated *)
  Lemma history_independent pre s1 mid s2 post n :
    draws_distinct sup -> all_gen s1 -> all_gen s2 ->
    let n1 := next pre n in
    let n2 := next mid (n1 + ndraws s1) in
    let h1 := fst (construct sup s1 n1) in
    let h2 := fst (construct sup s2 n2) in
    build_all sup (pre ++ BHandler s1 :: mid ++ BHandler s2 :: post) n
      = build_all sup pre n ++ h1 :: build_all sup mid (n1 + ndraws s1) ++ h2 :: build_all sup post (n2 + ndraws s2)
    /\ keys_disjoint h1 h2 /\ keys_disjoint h2 h1.
  Proof.
    intros Hf G1 G2 n1 n2 h1 h2. split.
    - rewrite build_all_app, build_all_cons, build_all_app, build_all_cons. reflexivity.
    - apply generated_disjoint; auto. rewrite construct_snd. apply next_le.
  Qed.

  (* positive control: handlers built from the same given keys are the same handler, whenever they are built *)
  Lemma given_same s n n' : all_given s -> fst (construct sup s n) = fst (construct sup s n').
  Proof.
    intros (G1 & G2 & G3). unfold construct.
    rewrite (take_given (s_sk s) n n' G1).
    destruct G1 as [E1|(k1 & E1)], G2 as [E2|(k2 & E2)], G3 as [E3|(k3 & E3)]; rewrite E1, E2, E3; reflexivity.
  Qed.
End Fresh.

(* the theorem of this section: independently built handlers refuse each other's cookies *)
Lemma independent_refuse btxt sup s1 s2 n n2 g :
  draws_distinct sup -> all_gen s1 -> all_gen s2 -> (snd (construct sup s1 n) <= n2)%nat ->
  let h1 := fst (construct sup s1 n) in let h2 := fst (construct sup s2 n2) in
  (four_modes h2 -> is_ok (parse_cookie btxt h2 (g_wire h1 g)) = false) /\
  (four_modes h1 -> is_ok (parse_cookie btxt h1 (g_wire h2 g)) = false).
Proof.
  intros Hf G1 G2 Hle h1 h2. destruct (generated_disjoint sup s1 s2 n n2 Hf G1 G2 Hle) as [D1 D2].
  split; intro Hm; now apply foreign_refused.
Qed.
