(* Proofs/DbCreate_proofs.v — the creation API (Model/DbCreate.v): creation is add_grant on the identifiers exactly
   as given; the issued session id resolves to the grant stored under exactly (user, client, grant); a creation
   touches only the three nodes of its own path; different (user, client) pairs - however alike the strings - have
   disjoint subtrees, so creating for one pair, or revoking one pair's client session, leaves every node of every
   other pair as it was. *)
From Coq Require Import List Bool Arith Lia.
From Verif Require Import Lib.Base Lib.PyStr Model.Lv Proofs.Lv_proofs Model.Db Proofs.Db_proofs Model.DbCheck Model.DbCreate.
Import ListNotations.

Section DbCreateProofs.
  Variable G : Type.
  Variable g_revoke : G -> G.
  Notation db := (db G).
  Notation cstep := (cstep G g_revoke).
  Notation crun := (crun G g_revoke).
  Notation xstep := (xstep G g_revoke).
  Notation xrun := (xrun G g_revoke).
  Notation step := (step G g_revoke).

  (* ---- make_path is the identity on identifiers ---- *)
  Lemma make_path_verbatim u c : make_path u c = [u; c].
  Proof. reflexivity. Qed.
  Lemma entry_path_verbatim e u c : entry_path e u c = [u; c].
  Proof. destruct e; reflexivity. Qed.

  (* ---- a creation-level history is a history of Model/Db.v ---- *)
  Theorem cstep_denote (d : db) c : cstep d c = xstep d (cdenote G c).
  Proof. destruct c as [e u cl gid g|t|x]; try reflexivity. cbn. rewrite entry_path_verbatim. reflexivity. Qed.
  Theorem crun_xrun cs : forall d : db, crun cs d = xrun (List.map (cdenote G) cs) d.
  Proof.
    induction cs as [|c cs IH]; intros d; [reflexivity|].
    change (crun cs (fst (cstep d c)) = xrun (List.map (cdenote G) cs) (fst (xstep d (cdenote G c)))).
    rewrite cstep_denote. apply IH.
  Qed.
  Lemma creach_wf cs : wf G (crun cs []).
  Proof. rewrite crun_xrun. apply xreach_wf. Qed.

  (* ---- Database.set stores the value under the key of the path ---- *)
  Lemma set_loop_stores : forall rest pre value sup (d d' : db) r k, rest <> [] ->
    set_loop G pre rest value sup d = (d', Ok r) -> branch_key (pre ++ rest) = Ok k -> assoc k d' = Some value.
  Proof.
    induction rest as [|x rest IH]; intros pre value sup d d' r k N H K; [congruence|].
    cbn [set_loop] in H. cbv zeta in H.
    destruct (branch_key (pre ++ [x])) as [key| |] eqn:Ek; try (inversion H; fail).
    destruct (match sup with Some sk => add_sub G sk key d | None => Ok d end) as [d1| |]; try (inversion H; fail).
    destruct rest as [|y rest].
    - cbn [set_loop] in H. inversion H; subst. rewrite Ek in K. inversion K; subst. rewrite assoc_aset_same. destruct (assoc k d); reflexivity.
    - eapply IH in H; eauto; [discriminate|]. rewrite <- app_assoc. exact K.
  Qed.
  Lemma add_grant_stores u c gid g (d d' : db) r k :
    add_grant G [u; c] gid g d = (d', Ok r) -> branch_key [u; c; gid] = Ok k -> assoc k d' = Some (NGrant g).
  Proof.
    unfold add_grant. destruct (setup_branch G [u; c] d) as [d1 [[]| |]]; try (intros H; inversion H; fail).
    unfold db_set. intros H K. eapply (set_loop_stores _ [] _ None); eauto. discriminate.
  Qed.

  (* ---- the issued session id resolves to the grant of exactly (user, client, grant) ---- *)
  Theorem create_resolves (d : db) e u c gid g d1 a rnd t :
    cstep d (CCreate e u c gid g) = (d1, Ok a) -> sid_plain rnd [u; c; gid] = Ok t ->
    exists k, branch_key [u; c; gid] = Ok k /\ unpack_branch_key k = [u; c; gid] /\ resolve G t d1 = Ok (k, NGrant g).
  Proof.
    intros H S. assert (N : [u; c; gid] <> []) by discriminate.
    rewrite (resolve_issued G _ _ _ d1 N S). unfold q_node.
    unfold sid_plain in S. destruct (branch_key [u; c; gid]) as [k| |] eqn:K; cbn [bind] in S; try discriminate.
    exists k. split; [reflexivity|]. split; [eapply branch_key_roundtrip; eauto|]. cbn [bind].
    cbn [DbCreate.cstep] in H. rewrite entry_path_verbatim in H.
    destruct (add_grant G [u; c] gid g d) as [d2 r] eqn:A. destruct r as [[]| |]; cbn [bind] in H; try (inversion H; fail).
    inversion H; subst. now rewrite (add_grant_stores _ _ _ _ _ _ _ _ A K).
  Qed.

  (* ---- a creation touches the three nodes of its own path and nothing else ---- *)
  Definition off_path (k : pystr) (path : list pystr) : Prop :=
    forall a b key, path = a ++ b -> a <> [] -> branch_key a = Ok key -> k <> key.

  Lemma set_loop_touches k : forall rest pre value sup (d d' : db) r,
    off_path k (pre ++ rest) -> (forall sk, sup = Some sk -> k <> sk) ->
    set_loop G pre rest value sup d = (d', r) -> assoc k d' = assoc k d.
  Proof.
    induction rest as [|x rest IH]; intros pre value sup d d' r P Hs H; cbn [set_loop] in H.
    - inversion H; subst; auto.
    - cbv zeta in H. destruct (branch_key (pre ++ [x])) as [key| |] eqn:Ek; try (inversion H; subst; auto; fail).
      assert (Nk : k <> key).
      { apply (P (pre ++ [x]) rest key); auto; [now rewrite <- app_assoc|destruct pre; discriminate]. }
      destruct (match sup with Some sk => add_sub G sk key d | None => Ok d end) as [d1| |] eqn:Er; try (inversion H; subst; auto; fail).
      assert (E1 : assoc k d1 = assoc k d).
      { destruct sup as [sk|]; [|inversion Er; subst; auto]. eapply add_sub_frame; eauto. }
      rewrite <- E1. eapply IH in H.
      + rewrite H. rewrite assoc_aset_eq. destruct (str_eqb k key) eqn:E; auto. apply str_eqb_eq in E. contradiction.
      + rewrite <- app_assoc. exact P.
      + intros sk Hsk. inversion Hsk; subst. exact Nk.
  Qed.
  Lemma off_path_prefix k p q : off_path k (p ++ q) -> off_path k p.
  Proof. intros P a b key E. apply (P a (b ++ q) key). rewrite E. now rewrite app_assoc. Qed.
  Lemma setup_loop_touches k : forall rest pre (d d' : db) r,
    off_path k (pre ++ rest) -> setup_loop G pre rest d = (d', r) -> assoc k d' = assoc k d.
  Proof.
    induction rest as [|x rest IH]; intros pre d d' r P H; cbn [setup_loop] in H.
    - inversion H; subst; auto.
    - assert (P' : off_path k ((pre ++ [x]) ++ rest)) by (now rewrite <- app_assoc).
      destruct (db_get G (pre ++ [x]) d) as [n|e|]; [eapply IH; eauto| |inversion H; subst; auto].
      destruct e; try (inversion H; subst; auto; fail).
      destruct (db_set G (pre ++ [x]) (NInfo x [] false (length pre)) d) as [d1 r1] eqn:Es.
      assert (E1 : assoc k d1 = assoc k d).
      { unfold db_set in Es. eapply (set_loop_touches k _ []); [ | |exact Es]; [eapply off_path_prefix; exact P'|intros sk Hsk; discriminate]. }
      destruct r1 as [[]| |]; try (inversion H; subst; auto; fail). rewrite <- E1. eapply IH; eauto.
  Qed.
  Lemma add_grant_touches u c gid g (d d' : db) r k :
    off_path k [u; c; gid] -> add_grant G [u; c] gid g d = (d', r) -> assoc k d' = assoc k d.
  Proof.
    intros P H. unfold add_grant, setup_branch in H. destruct (setup_loop G [] [u; c] d) as [d1 r1] eqn:E1.
    assert (F1 : assoc k d1 = assoc k d).
    { eapply (setup_loop_touches k [u; c] []); eauto. apply (off_path_prefix k [u; c] [gid]). exact P. }
    destruct r1 as [[]| |]; try (inversion H; subst; auto; fail).
    rewrite <- F1. unfold db_set in H. eapply (set_loop_touches k _ [] _ None); [ | |exact H]; [exact P|intros sk Hsk; discriminate].
  Qed.
  Theorem create_touches_own_path (d : db) e u c gid g k :
    off_path k [u; c; gid] -> assoc k (fst (cstep d (CCreate e u c gid g))) = assoc k d.
  Proof.
    intros P. cbn [DbCreate.cstep]. rewrite entry_path_verbatim.
    destruct (add_grant G [u; c] gid g d) as [d1 r] eqn:A. cbn [fst]. eapply add_grant_touches; eauto.
  Qed.

  (* ---- different (user, client) pairs have disjoint subtrees: `u' :: c' :: q` is the other pair's client node
     (q = []), one of its grants (q = [gid']) ---- *)
  Lemma pair_off_path u c gid u' c' q k :
    (u, c) <> (u', c') -> branch_key (u' :: c' :: q) = Ok k -> off_path k [u; c; gid].
  Proof.
    intros D K a b key E Na Ka Ek. subst key.
    assert (Ea : a = u' :: c' :: q) by (eapply branch_key_injective; eauto; discriminate).
    subst a. cbn in E. inversion E; subst. apply D. reflexivity.
  Qed.
  Lemma pair_not_below u c u' c' q ck k :
    (u, c) <> (u', c') -> branch_key [u; c] = Ok ck -> branch_key (u' :: c' :: q) = Ok k -> extb ck k = false.
  Proof.
    intros D Kc K. destruct (extb ck k) eqn:E; auto. exfalso. apply extb_spec in E as [q' E].
    unfold kp in E. rewrite (branch_key_roundtrip [u; c] ck ltac:(discriminate) Kc), (branch_key_roundtrip (u' :: c' :: q) k ltac:(discriminate) K) in E.
    cbn in E. inversion E; subst. apply D. reflexivity.
  Qed.
  (* different users *)
  Lemma user_not_below u u' q uk k :
    u <> u' -> branch_key [u] = Ok uk -> branch_key (u' :: q) = Ok k -> extb uk k = false.
  Proof.
    intros D Ku K. destruct (extb uk k) eqn:E; auto. exfalso. apply extb_spec in E as [q' E].
    unfold kp in E. rewrite (branch_key_roundtrip [u] uk ltac:(discriminate) Ku), (branch_key_roundtrip (u' :: q) k ltac:(discriminate) K) in E.
    cbn in E. inversion E; subst. apply D. reflexivity.
  Qed.

  Theorem create_other_pair_unchanged (d : db) e u c gid g u' c' q k :
    (u, c) <> (u', c') -> branch_key (u' :: c' :: q) = Ok k ->
    assoc k (fst (cstep d (CCreate e u c gid g))) = assoc k d.
  Proof. intros D K. apply create_touches_own_path. eapply pair_off_path; eauto. Qed.

  (* revoke_client_session through the session id issued for (u, c, gid): every node at or below the client node of
     every OTHER pair is what it was *)
  Theorem revoke_client_session_other_pair (d : db) rnd u c gid t u' c' q k :
    wf G d -> sid_plain rnd [u; c; gid] = Ok t -> (u, c) <> (u', c') -> branch_key (u' :: c' :: q) = Ok k ->
    assoc k (fst (cstep d (CRevokeClientSession (ById t)))) = assoc k d.
  Proof.
    intros W S D K. cbn [DbCreate.cstep].
    rewrite (revoke_by_issued_id_store G g_revoke rnd [u; c; gid] t (Some 1%nat) d ltac:(discriminate) S).
    cbn [Db.step]. destruct (revoke_sub_tree G g_revoke [u; c; gid] (Some 1%nat) d) as [d1| |] eqn:R; cbn [fst]; auto.
    unfold revoke_sub_tree in R. cbn [length Nat.ltb Nat.leb firstn] in R.
    destruct (branch_key [u; c]) as [ck| |] eqn:Kc; cbn [bind] in R; try discriminate.
    eapply revoke_tree_frame; eauto. eapply pair_not_below; eauto.
  Qed.
  (* the same on every store a creation-level history reaches *)
  Theorem reach_revoke_client_session_other_pair cs rnd u c gid t u' c' q k :
    sid_plain rnd [u; c; gid] = Ok t -> (u, c) <> (u', c') -> branch_key (u' :: c' :: q) = Ok k ->
    assoc k (fst (cstep (crun cs []) (CRevokeClientSession (ById t)))) = assoc k (crun cs []).
  Proof. apply revoke_client_session_other_pair, creach_wf. Qed.
End DbCreateProofs.
