(* Proofs/Db_proofs.v — the session tree (Model/Db.v): consistency invariant over all operation sequences,
   exact removal, frame.  G is the grant payload. *)
From Coq Require Import List Bool Arith Lia.
From Verif Require Import Lib.Base Lib.PyStr Model.Lv Proofs.Lv_proofs Model.Db.
Import ListNotations.

Section DbProofs.
  Variable G : Type.
  Variable g_revoke : G -> G.
  Notation node := (node G).
  Notation db := (db G).

  (* ---------------------------------------------------------------- association lists with unique keys *)
  Notation keys d := (List.map fst d).

  Lemma assoc_In k (d : db) n : assoc k d = Some n -> In (k, n) d.
  Proof.
    induction d as [|[k' n'] r IH]; cbn; [discriminate|]. destruct (str_eqb k k') eqn:E.
    - intros H; inversion H; subst. apply str_eqb_eq in E. subst. now left.
    - intros H. right. auto.
  Qed.
  Lemma assoc_None_keys k (d : db) : assoc k d = None <-> ~ In k (keys d).
  Proof.
    induction d as [|[k' n'] r IH]; cbn; [tauto|]. destruct (str_eqb k k') eqn:E.
    - apply str_eqb_eq in E. subst. split; [discriminate|]. intros H. exfalso. apply H. now left.
    - apply str_eqb_neq in E. rewrite IH. split; intros H; [intros [H1|H1]; [congruence|auto]|intros H1; apply H; now right].
  Qed.
  Lemma has_key_keys k (d : db) : has_key k d = true <-> In k (keys d).
  Proof.
    unfold has_key. destruct (assoc k d) eqn:E.
    - split; auto. intros _. apply assoc_In in E. apply in_map_iff. exists (k, n). auto.
    - split; [discriminate|]. intros H. apply assoc_None_keys in E. contradiction.
  Qed.
  Lemma keys_aset k (n : node) d : keys (aset k n d) = if has_key k d then keys d else keys d ++ [k].
  Proof.
    unfold has_key. induction d as [|[k' n'] r IH]; cbn; [reflexivity|]. destruct (str_eqb k k') eqn:E; cbn.
    - apply str_eqb_eq in E. now subst.
    - rewrite IH. destruct (assoc k r); reflexivity.
  Qed.
  Lemma assoc_adel_same k (d : db) : NoDup (keys d) -> assoc k (adel k d) = None.
  Proof.
    induction d as [|[k' n'] r IH]; cbn; auto. intros H. inversion H as [|? ? Hn Hr]; subst.
    destruct (str_eqb k k') eqn:E.
    - apply str_eqb_eq in E. subst. now apply assoc_None_keys.
    - cbn. rewrite E. auto.
  Qed.
  Lemma assoc_adel_other k k' (d : db) : k <> k' -> assoc k' (adel k d) = assoc k' d.
  Proof.
    intros N. induction d as [|[k2 n2] r IH]; cbn; auto. destruct (str_eqb k k2) eqn:E.
    - apply str_eqb_eq in E. subst. assert (str_eqb k' k2 = false) as -> by (apply str_eqb_neq; congruence). reflexivity.
    - cbn. destruct (str_eqb k' k2); auto.
  Qed.
  Lemma keys_adel k (d : db) x : In x (keys (adel k d)) -> In x (keys d).
  Proof.
    induction d as [|[k2 n2] r IH]; cbn; auto. destruct (str_eqb k k2); cbn; intros H; auto. destruct H; auto.
  Qed.
  Lemma nodup_adel k (d : db) : NoDup (keys d) -> NoDup (keys (adel k d)).
  Proof.
    induction d as [|[k2 n2] r IH]; cbn; auto. intros H. inversion H as [|? ? Hn Hr]; subst.
    destruct (str_eqb k k2); cbn; auto. constructor; auto. intros Hi. apply Hn. eapply keys_adel; eauto.
  Qed.
  Lemma nodup_snoc {A} (l : list A) x : NoDup l -> ~ In x l -> NoDup (l ++ [x]).
  Proof.
    induction l as [|y r IH]; cbn; intros H Hn; [constructor; [intros []|constructor]|].
    inversion H; subst. constructor.
    - intros Hi. apply in_app_or in Hi as [Hi|[<-|[]]]; [contradiction|]. apply Hn. now left.
    - apply IH; auto.
  Qed.
  Lemma nodup_aset k (n : node) d : NoDup (keys d) -> NoDup (keys (aset k n d)).
  Proof.
    intros H. rewrite keys_aset. destruct (has_key k d) eqn:E; auto.
    apply nodup_snoc; auto. intros Hi. apply has_key_keys in Hi. congruence.
  Qed.

  (* ---------------------------------------------------------------- keys and paths *)
  Lemma removelast_snoc {A} (p : list A) x : removelast (p ++ [x]) = p.
  Proof. apply removelast_last. Qed.
  Lemma forallb_removelast {A} (f : A -> bool) l : forallb f l = true -> forallb f (removelast l) = true.
  Proof.
    induction l as [|x r IH]; cbn; auto. intros H. apply andb_true_iff in H as [H1 H2].
    destruct r; cbn; auto. cbn in IH. rewrite H1. cbn. apply IH. exact H2.
  Qed.

  (* a valid key and its path determine each other *)
  Definition kp (k : pystr) : list pystr := unpack_branch_key k.
  Lemma bk_kp p k : branch_key p = Ok k -> p <> [] -> kp k = p.
  Proof. intros H N. unfold kp. eapply branch_key_roundtrip; eauto. Qed.
  Lemma bk_inj p q k : branch_key p = Ok k -> branch_key q = Ok k -> p <> [] -> q <> [] -> p = q.
  Proof. intros. eapply branch_key_injective; eauto. Qed.
  (* every prefix of a valid path is valid *)
  Lemma bk_prefix p x k : branch_key (p ++ [x]) = Ok k -> exists pk, branch_key p = Ok pk.
  Proof.
    unfold branch_key. rewrite removelast_snoc.
    destruct (forallb (fun y => negb (last_is semi y)) p) eqn:E1; cbn [negb]; [|discriminate].
    destruct (forallb (no_cc semi semi) (p ++ [x])) eqn:E2; cbn [negb]; [|discriminate].
    intros _. rewrite forallb_app in E2. apply andb_true_iff in E2 as [E2 _].
    rewrite (forallb_removelast _ _ E1), E2. cbn. eauto.
  Qed.

  (* ---------------------------------------------------------------- the consistency invariant *)
  Definition child_of (s k : pystr) : Prop := exists x, kp s = kp k ++ [x].
  Definition node_ok (d : db) (k : pystr) (n : node) : Prop :=
    branch_key (kp k) = Ok k /\
    match n with
    | NGrant _ => length (kp k) = 3%nat
    | NInfo _ subs _ _ => (length (kp k) <= 2)%nat /\ NoDup subs /\ forall s, In s subs -> child_of s k /\ has_key s d = true
    end.
  (* keys are unique; every node sits at the key of its own path, grants are leaves at depth 3, every listed
     subordinate is a stored one-level extension; every stored non-root node is listed by its stored parent *)
  Definition wf (d : db) : Prop :=
    NoDup (keys d) /\
    (forall k n, assoc k d = Some n -> node_ok d k n) /\
    (forall k p x, has_key k d = true -> kp k = p ++ [x] -> p <> [] ->
       exists pk id subs r l, branch_key p = Ok pk /\ assoc pk d = Some (NInfo id subs r l) /\ In k subs).

  Lemma wf_empty : wf [].
  Proof. split; [constructor|]. split; [intros k n H; discriminate|intros k p x H; discriminate]. Qed.

  Lemma assoc_aset_eq k (n : node) d k' : assoc k' (aset k n d) = if str_eqb k' k then Some n else assoc k' d.
  Proof.
    destruct (str_eqb k' k) eqn:E.
    - apply str_eqb_eq in E. subst. apply assoc_aset_same.
    - apply str_eqb_neq in E. apply assoc_aset_other. congruence.
  Qed.
  Lemma has_key_aset k (n : node) d k' : has_key k' (aset k n d) = str_eqb k' k || has_key k' d.
  Proof. unfold has_key. rewrite assoc_aset_eq. destruct (str_eqb k' k); reflexivity. Qed.

  (* replacing the payload of a node without touching its subordinate list keeps the invariant *)
  Definition same_subs (n n' : node) : Prop :=
    match n, n' with
    | NGrant _, NGrant _ => True
    | NInfo _ s _ _, NInfo _ s' _ _ => s = s'
    | _, _ => False
    end.
  Lemma wf_aset_same_subs d k n n' : wf d -> assoc k d = Some n -> same_subs n n' -> wf (aset k n' d).
  Proof.
    intros (W1&W2&W3) Hk Hs. split; [now apply nodup_aset|]. split.
    - intros k1 n1 H1. rewrite assoc_aset_eq in H1. destruct (str_eqb k1 k) eqn:E.
      + apply str_eqb_eq in E. subst k1. inversion H1; subst n1. destruct (W2 _ _ Hk) as (A&B). split; auto.
        destruct n, n'; cbn in Hs; try contradiction; auto. subst. destruct B as (B1&B2&B3). repeat split; auto.
        * apply B3; auto.
        * rewrite has_key_aset. destruct (B3 _ H) as (_&Hh). rewrite Hh. apply orb_true_r.
      + destruct (W2 _ _ H1) as (A&B). split; auto. destruct n1; auto. destruct B as (B1&B2&B3). repeat split; auto.
        * apply B3; auto.
        * rewrite has_key_aset. destruct (B3 _ H) as (_&Hh). rewrite Hh. apply orb_true_r.
    - intros k1 p x Hh Hp Hne. rewrite has_key_aset in Hh.
      assert (Hh' : has_key k1 d = true).
      { destruct (str_eqb k1 k) eqn:E; auto. apply str_eqb_eq in E. subst. unfold has_key. now rewrite Hk. }
      destruct (W3 _ _ _ Hh' Hp Hne) as (pk&id&subs&r&l&A&B&C).
      destruct (str_eqb pk k) eqn:E.
      + apply str_eqb_eq in E. subst pk. rewrite Hk in B. inversion B; subst n. destruct n'; cbn in Hs; [|contradiction]. subst.
        exists k, id0, subs0, revoked, level. repeat split; auto. apply assoc_aset_same.
      + exists pk, id, subs, r, l. repeat split; auto. rewrite assoc_aset_eq, E. exact B.
  Qed.

  (* ---------------------------------------------------------------- revocation keeps the tree *)
  Lemma revoke_tree_wf fuel : forall key d d', wf d -> revoke_tree G g_revoke fuel key d = Ok d' -> wf d'.
  Proof.
    induction fuel as [|f IH]; intros key d d' W H; cbn [revoke_tree] in H; [discriminate|].
    destruct (assoc key d) as [[id subs r l|g]|] eqn:Ek; try discriminate.
    - set (d1 := aset key (NInfo id subs true l) d) in *.
      assert (W1 : wf d1) by (eapply wf_aset_same_subs; eauto; reflexivity).
      clearbody d1. clear Ek W. revert d1 d' W1 H. induction subs as [|s rest IHs]; intros d1 d' W1 H.
      + inversion H; subst; auto.
      + destruct (revoke_tree G g_revoke f s d1) as [d2| |] eqn:E; cbn [bind] in H; try discriminate.
        eapply IHs; [|exact H]. eapply IH; eauto.
    - inversion H; subst. eapply wf_aset_same_subs; eauto. reflexivity.
  Qed.
  Lemma revoke_sub_tree_wf path lvl d d' : wf d -> revoke_sub_tree G g_revoke path lvl d = Ok d' -> wf d'.
  Proof.
    unfold revoke_sub_tree. intros W H. destruct lvl as [l|].
    - destruct (Nat.ltb (length path) l); [discriminate|].
      destruct (branch_key (firstn (S l) path)) as [k| |]; cbn [bind] in H; try discriminate. eapply revoke_tree_wf; eauto.
    - destruct (branch_key path) as [k| |]; cbn [bind] in H; try discriminate. eapply revoke_tree_wf; eauto.
  Qed.

  (* ---------------------------------------------------------------- inserting nodes *)
  Definition fresh_node (depth : nat) (n : node) : Prop :=
    match n with NGrant _ => depth = 3%nat | NInfo _ s _ _ => s = [] /\ (depth <= 2)%nat end.
  Definition fits (d : db) (key : pystr) (depth : nat) (info : node) : Prop :=
    match assoc key d with Some n => same_subs n info | None => fresh_node depth info end.

  Lemma kp_length_pos k p : branch_key p = Ok k -> p <> [] -> length (kp k) = length p.
  Proof. intros H N. now rewrite (bk_kp _ _ H N). Qed.

  (* adding a node that nobody lists yet is only sound for roots *)
  Lemma wf_root d x key info :
    wf d -> branch_key [x] = Ok key -> fits d key 1 info -> wf (aset key info d).
  Proof.
    intros W Hk Hf. unfold fits in Hf. destruct (assoc key d) as [n|] eqn:Ea; [eapply wf_aset_same_subs; eauto|].
    destruct W as (W1&W2&W3). assert (Hkp : kp key = [x]) by (apply bk_kp; [auto|discriminate]).
    split; [now apply nodup_aset|]. split.
    - intros k1 n1 H1. rewrite assoc_aset_eq in H1. destruct (str_eqb k1 key) eqn:E.
      + apply str_eqb_eq in E. subst k1. inversion H1; subst n1. split; [now rewrite Hkp|].
        destruct info as [id subs r l|g]; cbn in Hf.
        * destruct Hf as (->&_). rewrite Hkp. cbn. repeat split; auto; try constructor; try (intros s []); try (destruct H); lia.
        * discriminate.
      + destruct (W2 _ _ H1) as (A&B). split; auto. destruct n1; auto. destruct B as (B1&B2&B3). repeat split; auto.
        * apply B3; auto.
        * rewrite has_key_aset. destruct (B3 _ H) as (_&Hh). rewrite Hh. apply orb_true_r.
    - intros k1 p y Hh Hp Hne. rewrite has_key_aset in Hh. destruct (str_eqb k1 key) eqn:E.
      + apply str_eqb_eq in E. subst k1. rewrite Hkp in Hp. exfalso. apply (f_equal (@length pystr)) in Hp.
        rewrite app_length in Hp. cbn in Hp. destruct p; [congruence|cbn in Hp; lia].
      + cbn in Hh. destruct (W3 _ _ _ Hh Hp Hne) as (pk&id&subs&r&l&A&B&C).
        exists pk, id, subs, r, l. repeat split; auto. rewrite assoc_aset_eq.
        destruct (str_eqb pk key) eqn:E2; auto. apply str_eqb_eq in E2. subst. congruence.
  Qed.

  Lemma has_key_mono k (n : node) d k' : has_key k' d = true -> has_key k' (aset k n d) = true.
  Proof. intros H. rewrite has_key_aset, H. apply orb_true_r. Qed.

  (* linking a child below a stored inner node *)
  Lemma wf_link d pre x pk key id subs rv l info :
    wf d -> pre <> [] -> branch_key pre = Ok pk -> branch_key (pre ++ [x]) = Ok key ->
    assoc pk d = Some (NInfo id subs rv l) -> fits d key (S (length pre)) info ->
    wf (aset key info (if str_in key subs then d else aset pk (NInfo id (subs ++ [key]) rv l) d)).
  Proof.
    intros W Hne Hpk Hkey Hp Hf.
    assert (Kpk : kp pk = pre) by (now apply bk_kp).
    assert (Kkey : kp key = pre ++ [x]) by (apply bk_kp; [auto|destruct pre; discriminate]).
    assert (Nkey : key <> pk).
    { intros ->. rewrite Kpk in Kkey. apply (f_equal (@length pystr)) in Kkey. rewrite app_length in Kkey. cbn in Kkey. lia. }
    pose proof W as (W1&W2&W3).
    destruct (str_in key subs) eqn:Es.
    - (* already linked: the child is stored *)
      apply str_in_In in Es. destruct (W2 _ _ Hp) as (_&_&_&B3). destruct (B3 _ Es) as (_&Hh).
      unfold has_key in Hh. unfold fits in Hf. destruct (assoc key d) as [n|] eqn:Ea; [|discriminate].
      eapply wf_aset_same_subs; eauto.
    - (* a new child: it can not be stored yet (its parent would list it) *)
      assert (Hn : ~ In key subs) by (intros Hi; apply str_in_In in Hi; congruence).
      assert (Ea : assoc key d = None).
      { destruct (assoc key d) as [n|] eqn:Ea; auto. exfalso.
        assert (Hh : has_key key d = true) by (unfold has_key; now rewrite Ea).
        destruct (W3 _ _ _ Hh Kkey Hne) as (pk'&id'&subs'&r'&l'&A&B&C). rewrite Hpk in A. inversion A; subst pk'.
        rewrite Hp in B. inversion B; subst. contradiction. }
      unfold fits in Hf. rewrite Ea in Hf.
      set (d1 := aset pk (NInfo id (subs ++ [key]) rv l) d).
      assert (A1 : forall k, assoc k (aset key info d1) =
                             if str_eqb k key then Some info else if str_eqb k pk then Some (NInfo id (subs ++ [key]) rv l) else assoc k d).
      { intros k. unfold d1. now rewrite !assoc_aset_eq. }
      assert (H1 : forall k, has_key k d = true -> has_key k (aset key info d1) = true).
      { intros k H. unfold d1. now apply has_key_mono, has_key_mono. }
      split; [unfold d1; now apply nodup_aset, nodup_aset|]. split.
      + intros k1 n1 Hk1. rewrite A1 in Hk1. destruct (str_eqb k1 key) eqn:E1.
        * apply str_eqb_eq in E1. subst k1. inversion Hk1; subst n1. split; [now rewrite Kkey|]. rewrite Kkey, app_length. cbn.
          destruct info as [id0 s0 r0 l0|g]; cbn in Hf.
          -- destruct Hf as (->&Hd). split; [lia|]. split; [constructor|]. intros s1 Hs1. destruct Hs1.
          -- lia.
        * destruct (str_eqb k1 pk) eqn:E2.
          -- apply str_eqb_eq in E2. subst k1. inversion Hk1; subst n1. destruct (W2 _ _ Hp) as (C1&C2&C3&C4). split; auto.
             repeat split; auto.
             ++ apply nodup_snoc; auto.
             ++ apply in_app_or in H as [H|[<-|[]]]; [apply C4; auto|]. exists x. now rewrite Kkey, Kpk.
             ++ apply in_app_or in H as [H|[<-|[]]]; [apply H1; apply C4; auto|]. rewrite has_key_aset, str_eqb_refl. reflexivity.
          -- destruct (W2 _ _ Hk1) as (C1&C2). split; auto. destruct n1; auto. destruct C2 as (C2&C3&C4). repeat split; auto.
             ++ apply C4; auto.
             ++ apply H1. apply C4; auto.
      + intros k1 p y Hh Hkp Hpne. destruct (str_eqb k1 key) eqn:E1.
        * apply str_eqb_eq in E1. subst k1. rewrite Kkey in Hkp. apply app_inj_tail in Hkp as (<-&<-).
          exists pk, id, (subs ++ [key]), rv, l. repeat split; auto.
          -- rewrite A1. assert (str_eqb pk key = false) as -> by (apply str_eqb_neq; congruence). now rewrite str_eqb_refl.
          -- apply in_or_app. right. now left.
        * assert (Hh0 : has_key k1 d = true).
          { unfold d1 in Hh. rewrite !has_key_aset, E1 in Hh. cbn in Hh. destruct (str_eqb k1 pk) eqn:E2; auto.
            apply str_eqb_eq in E2. subst. unfold has_key. now rewrite Hp. }
          destruct (W3 _ _ _ Hh0 Hkp Hpne) as (pk1&id1&subs1&r1&l1&A&B&C).
          destruct (str_eqb pk1 pk) eqn:E3.
          -- apply str_eqb_eq in E3. subst pk1. rewrite Hp in B. inversion B; subst.
             exists pk, id1, (subs1 ++ [key]), r1, l1. repeat split; auto.
             ++ rewrite A1. assert (str_eqb pk key = false) as -> by (apply str_eqb_neq; congruence). now rewrite str_eqb_refl.
             ++ apply in_or_app. now left.
          -- exists pk1, id1, subs1, r1, l1. repeat split; auto. rewrite A1, E3.
             assert (str_eqb pk1 key = false) as -> by (apply str_eqb_neq; intros ->; congruence). exact B.
  Qed.

  Lemma same_subs_refl n : same_subs n n.
  Proof. destruct n; cbn; auto. Qed.

  (* ---------------------------------------------------------------- Database.set *)
  Definition sup_ok (pre : list pystr) (sup : option pystr) (d : db) : Prop :=
    match pre with
    | [] => sup = None
    | _ => exists pk id subs rv l, branch_key pre = Ok pk /\ sup = Some pk /\ assoc pk d = Some (NInfo id subs rv l)
    end.

  Lemma sup_ok_intro p pk id subs rv l d :
    p <> [] -> branch_key p = Ok pk -> assoc pk d = Some (NInfo id subs rv l) -> sup_ok p (Some pk) d.
  Proof. intros N H1 H2. unfold sup_ok. destruct p; [congruence|]. eauto 10. Qed.

  Lemma bk_longer_neq p q k1 k2 : branch_key p = Ok k1 -> branch_key q = Ok k2 -> p <> [] -> q <> [] -> length p <> length q -> k1 <> k2.
  Proof. intros H1 H2 N1 N2 L ->. apply L. f_equal. eapply bk_inj; eauto. Qed.

  Lemma set_loop_wf rest : forall pre value sup d d' r,
    wf d -> (rest <> [] -> sup_ok pre sup d) -> (length pre + length rest <= 3)%nat ->
    fresh_node (length pre + length rest) value ->
    (forall kf n, branch_key (pre ++ rest) = Ok kf -> assoc kf d = Some n -> same_subs n value) ->
    set_loop G pre rest value sup d = (d', r) -> wf d'.
  Proof.
    induction rest as [|x rest' IH]; intros pre value sup d d' r W Hsup Hlen Hfresh Hfull H; cbn [set_loop] in H.
    - inversion H; subst; auto.
    - specialize (Hsup ltac:(discriminate)).
      destruct (branch_key (pre ++ [x])) as [key| |] eqn:Ek; try (inversion H; subst; auto; fail).
      assert (Npx : pre ++ [x] <> []) by (destruct pre; discriminate).
      assert (Kkey : kp key = pre ++ [x]) by (now apply bk_kp).
      set (last := match rest' with [] => true | _ => false end) in *.
      set (info := match assoc key d with
                   | None => if last then value else NInfo x [] false (length pre)
                   | Some n => if last then value else n end) in *.
      assert (Hfit : fits d key (S (length pre)) info).
      { unfold fits, info. destruct (assoc key d) as [n|] eqn:Ea.
        - destruct last eqn:El; [|apply same_subs_refl].
          destruct rest'; [|discriminate]. eapply Hfull; eauto.
        - destruct last eqn:El.
          + destruct rest'; [|discriminate]. cbn in Hfresh. now rewrite Nat.add_1_r in Hfresh.
          + destruct rest'; [discriminate|]. cbn in Hlen. cbn. split; auto. lia. }
      (* when more levels follow, the node written here is an inner node *)
      assert (Hinner : rest' <> [] -> exists id subs rv l, info = NInfo id subs rv l).
      { intros Hr. unfold info. assert (last = false) as -> by (unfold last; destruct rest'; congruence).
        destruct (assoc key d) as [n|] eqn:Ea; [|eauto].
        destruct W as (_&W2&_). destruct (W2 _ _ Ea) as (_&B). destruct n as [id subs rv l|g]; [eauto|].
        rewrite Kkey, app_length in B. cbn in B, Hlen. destruct rest'; [congruence|]. cbn in Hlen. lia. }
      (* the database after this level *)
      assert (Hnext : exists d1, (match sup with Some sk => add_sub G sk key d | None => Ok d end) = Ok d1 /\
                                 wf (aset key info d1) /\
                                 (forall k, k <> key -> (forall pk, sup = Some pk -> k <> pk) -> assoc k (aset key info d1) = assoc k d)).
      { destruct pre as [|p0 pre0] eqn:Epre.
        - cbn in Hsup. subst sup. exists d. split; auto. split; [eapply wf_root; eauto|].
          intros k Hk _. rewrite assoc_aset_eq. apply str_eqb_neq in Hk. now rewrite Hk.
        - destruct Hsup as (pk&id&subs&rv&l&Hpk&->&Hp). unfold add_sub. rewrite Hp.
          pose proof (wf_link d (p0 :: pre0) x pk key id subs rv l info W ltac:(discriminate) Hpk Ek Hp Hfit) as Wl.
          destruct (str_in key subs); eexists; (split; [reflexivity|]); (split; [exact Wl|]).
          + intros k Hk _. rewrite assoc_aset_eq. apply str_eqb_neq in Hk. now rewrite Hk.
          + intros k Hk Hk2. rewrite !assoc_aset_eq. apply str_eqb_neq in Hk. rewrite Hk.
            specialize (Hk2 _ eq_refl). apply str_eqb_neq in Hk2. now rewrite Hk2. }
      destruct Hnext as (d1&Hr&W1&Hframe). rewrite Hr in H.
      eapply IH; [exact W1| | | | |exact H].
      + intros Hr'. destruct (Hinner Hr') as (id&subs&rv&l&Ei).
        eapply sup_ok_intro; eauto. rewrite assoc_aset_same. now rewrite Ei.
      + rewrite app_length. cbn in *. lia.
      + rewrite app_length. cbn in *. now rewrite <- Nat.add_assoc.
      + intros kf n Hkf Hn. rewrite <- app_assoc in Hkf. cbn in Hkf.
        destruct rest' as [|y rest''].
        * (* this was the last level: kf = key and the stored node is info = value *)
          rewrite Ek in Hkf. inversion Hkf; subst kf. rewrite assoc_aset_same in Hn. inversion Hn; subst n.
          unfold info, last. destruct (assoc key d); apply same_subs_refl.
        * (* deeper key: untouched so far *)
          assert (Nf : pre ++ x :: y :: rest'' <> []) by (destruct pre; discriminate).
          assert (kf <> key).
          { eapply bk_longer_neq; eauto. rewrite !app_length. cbn. lia. }
          rewrite Hframe in Hn; auto.
          -- eapply Hfull; eauto.
          -- intros pk ->. destruct pre as [|p0 pre0]; [cbn in Hsup; discriminate|].
             destruct Hsup as (pk'&_&_&_&_&Hpk&Epk&_). inversion Epk; subst pk'.
             eapply bk_longer_neq; eauto; [discriminate|]. rewrite !app_length. cbn. lia.
  Qed.

  Lemma db_set_wf path value d d' r :
    wf d -> (length path <= 3)%nat -> fresh_node (length path) value ->
    (forall kf n, branch_key path = Ok kf -> assoc kf d = Some n -> same_subs n value) ->
    db_set G path value d = (d', r) -> wf d'.
  Proof.
    intros W L F Hf H. unfold db_set in H.
    eapply (set_loop_wf path [] value None d d' r); auto.
    intros _. reflexivity.
  Qed.

  Lemma setup_loop_wf rest : forall pre d d' r,
    wf d -> (length pre + length rest <= 2)%nat -> setup_loop G pre rest d = (d', r) -> wf d'.
  Proof.
    induction rest as [|x rest' IH]; intros pre d d' r W L H; cbn [setup_loop] in H.
    - inversion H; subst; auto.
    - assert (L' : (length (pre ++ [x]) + length rest' <= 2)%nat) by (rewrite app_length; cbn in *; lia).
      assert (SET : (forall k n, branch_key (pre ++ [x]) = Ok k -> assoc k d = Some n -> False) ->
                    (let (d1, e) := db_set G (pre ++ [x]) (NInfo x [] false (length pre)) d in
                     match e with Ok _ => setup_loop G (pre ++ [x]) rest' d1 | _ => (d1, e) end) = (d', r) -> wf d').
      { intros NK H'. destruct (db_set G (pre ++ [x]) (NInfo x [] false (length pre)) d) as [d1 r1] eqn:Es.
        assert (W1 : wf d1).
        { eapply db_set_wf; [exact W| | | |exact Es].
          - rewrite app_length. cbn in *. lia.
          - cbn. split; auto. rewrite app_length. cbn in *. lia.
          - intros kf n Hk Hn. exfalso. eapply NK; eauto. }
        destruct r1 as [[]|e1|]; [eapply IH; eauto| |]; injection H' as <- <-; exact W1. }
      unfold db_get in H. destruct (branch_key (pre ++ [x])) as [k|e|] eqn:Ek; cbn [bind] in H.
      + destruct (assoc k d) as [n|] eqn:Ea; cbn in H.
        * eapply IH; eauto.
        * apply SET; auto. intros k0 n0 Hk Hn. inversion Hk; subst. congruence.
      + cbn in H. destruct e; cbn in H; try (inversion H; subst; auto; fail).
        apply SET; auto. intros k0 n0 Hk. discriminate.
      + cbn in H. inversion H; subst; auto.
  Qed.

  Lemma add_grant_wf u c gid g d d' r : wf d -> add_grant G [u; c] gid g d = (d', r) -> wf d'.
  Proof.
    intros W H. unfold add_grant, setup_branch in H.
    destruct (setup_loop G [] [u; c] d) as [d1 r1] eqn:E1.
    assert (W1 : wf d1) by (eapply (setup_loop_wf [u; c] []); [exact W|cbn; lia|exact E1]).
    destruct r1 as [[]| |]; try (inversion H; subst; auto; fail).
    eapply db_set_wf; [exact W1| | | |exact H]; cbn; auto.
    intros kf n Hk Hn. destruct W1 as (_&W2&_). destruct (W2 _ _ Hn) as (_&B).
    assert (Kk : kp kf = [u; c; gid]) by (apply bk_kp; [auto|discriminate]).
    destruct n as [id subs rv l|g0]; cbn; auto. rewrite Kk in B. cbn in B. lia.
  Qed.

  (* ================================================================ removal *)
  Notation nsubs := (node_subs G).
  Fixpoint prefb (p l : list pystr) : bool :=
    match p, l with
    | [], _ => true
    | x :: p', y :: l' => str_eqb x y && prefb p' l'
    | _ :: _, [] => false
    end.
  Lemma prefb_spec p : forall l, prefb p l = true <-> exists q, l = p ++ q.
  Proof.
    induction p as [|x p IH]; intros l; cbn.
    - split; eauto.
    - destruct l as [|y l]; [split; [discriminate|intros [q Hq]; discriminate]|].
      rewrite andb_true_iff, IH. split.
      + intros [E [q ->]]. apply str_eqb_eq in E. subst. eauto.
      + intros [q Hq]. inversion Hq; subst. split; [apply str_eqb_refl|eauto].
  Qed.
  (* k lies in the subtree of a: its path extends a's *)
  Definition extb (a k : pystr) : bool := prefb (kp a) (kp k).
  Lemma extb_refl a : extb a a = true.
  Proof. apply prefb_spec. exists []. now rewrite app_nil_r. Qed.
  Lemma extb_trans a b c : extb a b = true -> extb b c = true -> extb a c = true.
  Proof.
    unfold extb. rewrite !prefb_spec. intros [q1 H1] [q2 H2]. exists (q1 ++ q2). rewrite H2, H1. now rewrite <- app_assoc.
  Qed.
  Lemma split_cc_ne a b s : split_cc a b s <> [].
  Proof.
    induction s as [|c r IH]; cbn [split_cc]; [discriminate|]. destruct r as [|d r']; [discriminate|].
    destruct ((c =? a)%N && (d =? b)%N); [discriminate|]. unfold cons_hd. destruct (split_cc a b (d :: r')); discriminate.
  Qed.
  Lemma kp_ne k : kp k <> [].
  Proof. apply split_cc_ne. Qed.

  Definition canon (k : pystr) : Prop := branch_key (kp k) = Ok k.
  Lemma canon_inj k k' : canon k -> canon k' -> kp k = kp k' -> k = k'.
  Proof. unfold canon. intros H1 H2 E. rewrite E in H1. congruence. Qed.
  Lemma bk_canon p k : branch_key p = Ok k -> p <> [] -> canon k.
  Proof. intros H N. unfold canon. now rewrite (bk_kp _ _ H N). Qed.
  Lemma has_key_assoc k (d : db) : has_key k d = true -> exists n, assoc k d = Some n.
  Proof. unfold has_key. destruct (assoc k d); eauto; discriminate. Qed.

  (* the part of the invariant that survives while a subtree is being taken out *)
  Definition wk (d : db) : Prop :=
    NoDup (keys d) /\
    (forall k n, assoc k d = Some n -> canon k /\ forall s, In s (nsubs n) -> child_of s k) /\
    (forall k p x, has_key k d = true -> kp k = p ++ [x] -> p <> [] ->
       exists pk n, branch_key p = Ok pk /\ assoc pk d = Some n /\ In k (nsubs n)).
  Lemma wf_wk d : wf d -> wk d.
  Proof.
    intros (W1&W2&W3). split; auto. split.
    - intros k n H. destruct (W2 _ _ H) as (A&B). split; auto. destruct n as [id subs r l|g]; cbn; [|intros s []].
      intros s Hs. destruct B as (_&_&B). now apply B.
    - intros k p x Hh Hp Hne. destruct (W3 _ _ _ Hh Hp Hne) as (pk&id&subs&r&l&A&B&C). exists pk, (NInfo id subs r l). auto.
  Qed.

  (* every ancestor of a stored node is stored *)
  Lemma anc d : wk d -> forall q k p, has_key k d = true -> kp k = p ++ q -> p <> [] ->
     exists pk, branch_key p = Ok pk /\ has_key pk d = true.
  Proof.
    intros (W1&W2&W3). induction q as [|x q IH] using rev_ind; intros k p Hh Hp Hne.
    - rewrite app_nil_r in Hp. destruct (has_key_assoc _ _ Hh) as [n Hn]. destruct (W2 _ _ Hn) as (C&_).
      exists k. split; auto. unfold canon in C. now rewrite Hp in C.
    - rewrite app_assoc in Hp.
      assert (Hne' : p ++ q <> []) by (destruct p; [congruence|discriminate]).
      destruct (W3 k (p ++ q) x Hh Hp Hne') as (pk&n&A&B&C).
      apply (IH pk p); auto. { unfold has_key. now rewrite B. } now apply bk_kp.
  Qed.
  (* a stored node strictly below a is below one of a's listed subordinates *)
  Lemma child_listed d a n k x q : wk d -> assoc a d = Some n -> has_key k d = true -> kp k = kp a ++ x :: q ->
     exists s, In s (nsubs n) /\ extb s k = true.
  Proof.
    intros W Ha Hh Hp. pose proof W as (W1&W2&W3). destruct (W2 _ _ Ha) as (Ca&_).
    assert (Hp' : kp k = (kp a ++ [x]) ++ q) by (now rewrite <- app_assoc).
    assert (Hne : kp a ++ [x] <> []) by (destruct (kp a); discriminate).
    destruct (anc d W q k (kp a ++ [x]) Hh Hp' Hne) as (ps&Hps&Hhs).
    assert (Kps : kp ps = kp a ++ [x]) by (now apply bk_kp).
    destruct (W3 ps (kp a) x Hhs Kps (kp_ne a)) as (pk&n'&A&B&C).
    unfold canon in Ca. rewrite Ca in A. inversion A; subst pk. rewrite Ha in B. inversion B; subst n'.
    exists ps. split; auto. apply prefb_spec. exists q. now rewrite Kps.
  Qed.

  (* d' is d without the nodes selected by R *)
  Definition removed (R : pystr -> bool) (d d' : db) : Prop := forall k, assoc k d' = if R k then None else assoc k d.
  Definition up_closed (R : pystr -> bool) : Prop := forall k k', R k = true -> extb k k' = true -> R k' = true.
  Lemma wk_removed R d d' : wk d -> NoDup (keys d') -> removed R d d' -> up_closed R -> wk d'.
  Proof.
    intros (W1&W2&W3) N Hr Hu. split; auto. split.
    - intros k n H. rewrite Hr in H. destruct (R k); [discriminate|]. now apply W2.
    - intros k p x Hh Hp Hne. unfold has_key in Hh. rewrite Hr in Hh. destruct (R k) eqn:Rk; [discriminate|].
      destruct (W3 k p x Hh Hp Hne) as (pk&n&A&B&C). exists pk, n. repeat split; auto.
      rewrite Hr. destruct (R pk) eqn:Rp; auto. exfalso.
      assert (E : extb pk k = true). { apply prefb_spec. exists [x]. rewrite Hp. f_equal. symmetry. now apply bk_kp. }
      rewrite (Hu _ _ Rp E) in Rk. discriminate.
  Qed.

  Definition go_dst (f : nat) := fix go (subs : list pystr) (d : db) : res db :=
     match subs with [] => Ok d | s :: r => d1 <- delete_sub_tree G f s d ;; go r d1 end.
  Lemma dst_unfold f key d : delete_sub_tree G (S f) key d =
     match assoc key d with None => Err KeyError | Some n => d' <- go_dst f (nsubs n) d ;; Ok (adel key d') end.
  Proof. reflexivity. Qed.
  Definition dst_ok (f : nat) : Prop := forall key d d',
     wk d -> delete_sub_tree G f key d = Ok d' -> NoDup (keys d') /\ removed (extb key) d d'.

  Lemma go_spec f : dst_ok f -> forall subs d d', wk d -> go_dst f subs d = Ok d' ->
      NoDup (keys d') /\ removed (fun k => existsb (fun s => extb s k) subs) d d'.
  Proof.
    intros Hf. induction subs as [|s rest IH]; intros d d' W H; cbn [go_dst] in H.
    - inversion H; subst. split; [apply W|]. intros k. reflexivity.
    - destruct (delete_sub_tree G f s d) as [d1| |] eqn:E; cbn [bind] in H; try discriminate.
      destruct (Hf _ _ _ W E) as (N1&R1).
      assert (W1 : wk d1). { eapply wk_removed; eauto. intros k k' A B. eapply extb_trans; eauto. }
      destruct (IH _ _ W1 H) as (N2&R2). split; auto.
      intros k. rewrite R2, R1. cbn [existsb]. destruct (extb s k); cbn; [destruct (existsb _ rest); reflexivity|reflexivity].
  Qed.

  Lemma assoc_adel_eq k (d : db) k' : NoDup (keys d) -> assoc k' (adel k d) = if str_eqb k' k then None else assoc k' d.
  Proof.
    intros N. destruct (str_eqb k' k) eqn:E.
    - apply str_eqb_eq in E. subst. now apply assoc_adel_same.
    - apply str_eqb_neq in E. apply assoc_adel_other. congruence.
  Qed.

  (* removing a node after its listed subordinates' subtrees removes exactly its subtree *)
  Lemma del_node_spec f key n d dg : dst_ok f -> wk d -> assoc key d = Some n -> go_dst f (nsubs n) d = Ok dg ->
     NoDup (keys (adel key dg)) /\ removed (extb key) d (adel key dg).
  Proof.
    intros Hf W Hk Hg. destruct (go_spec f Hf _ _ _ W Hg) as (N&R). split; [now apply nodup_adel|].
    pose proof W as (W1&W2&W3). destruct (W2 _ _ Hk) as (Ck&Hch).
    intros k. rewrite assoc_adel_eq by auto. destruct (str_eqb k key) eqn:E.
    - apply str_eqb_eq in E. subst. now rewrite extb_refl.
    - rewrite R. destruct (existsb (fun s => extb s k) (nsubs n)) eqn:Ex.
      + apply existsb_exists in Ex as (s&Hs&Es). assert (extb key k = true) as ->; auto.
        eapply extb_trans; [|exact Es]. destruct (Hch _ Hs) as [x Hx]. apply prefb_spec. exists [x]. exact Hx.
      + destruct (extb key k) eqn:Ek; auto. destruct (assoc k d) as [nk|] eqn:Hak; auto. exfalso.
        apply prefb_spec in Ek as [q Hq]. destruct q as [|x q].
        * rewrite app_nil_r in Hq. destruct (W2 _ _ Hak) as (Ck'&_). apply str_eqb_neq in E. apply E. now apply canon_inj.
        * assert (Hh : has_key k d = true) by (unfold has_key; now rewrite Hak).
          destruct (child_listed d key n k x q W Hk Hh Hq) as (s&Hs&Es).
          assert (existsb (fun s => extb s k) (nsubs n) = true) by (apply existsb_exists; eauto). congruence.
  Qed.
  Lemma dst_spec f : dst_ok f.
  Proof.
    induction f as [|f IH]; intros key d d' W H; [cbn in H; discriminate|].
    rewrite dst_unfold in H. destruct (assoc key d) as [n|] eqn:Hk; [|discriminate].
    destruct (go_dst f (nsubs n) d) as [dg| |] eqn:Hg; cbn [bind] in H; try discriminate.
    inversion H; subst. eapply del_node_spec; eauto.
  Qed.

  (* ---------------------------------------------------------------- the invariant with one hole:
     h is not stored, nothing below h is stored, and h is the only subordinate that may dangle *)
  Definition node_okx (h : pystr) (d : db) (k : pystr) (n : node) : Prop :=
    canon k /\
    match n with
    | NGrant _ => length (kp k) = 3%nat
    | NInfo _ subs _ _ => (length (kp k) <= 2)%nat /\ NoDup subs /\
                          forall s, In s subs -> child_of s k /\ (has_key s d = true \/ s = h)
    end.
  Definition wfd (h : pystr) (d : db) : Prop :=
    NoDup (keys d) /\
    (forall k n, assoc k d = Some n -> node_okx h d k n) /\
    (forall k p x, has_key k d = true -> kp k = p ++ [x] -> p <> [] ->
       exists pk id subs r l, branch_key p = Ok pk /\ assoc pk d = Some (NInfo id subs r l) /\ In k subs) /\
    canon h /\ (forall k, has_key k d = true -> extb h k = false).

  Lemma wfd_wk h d : wfd h d -> wk d.
  Proof.
    intros (W1&W2&W3&_). split; auto. split.
    - intros k n H. destruct (W2 _ _ H) as (A&B). split; auto. destruct n as [id subs r l|g]; cbn; [|intros s []].
      intros s Hs. destruct B as (_&_&B). now apply B.
    - intros k p x Hh Hp Hne. destruct (W3 _ _ _ Hh Hp Hne) as (pk&id&subs&r&l&A&B&C). exists pk, (NInfo id subs r l). auto.
  Qed.
  Lemma wfd_not_stored h d : wfd h d -> has_key h d = false.
  Proof.
    intros (_&_&_&_&W5). destruct (has_key h d) eqn:E; auto. specialize (W5 _ E). rewrite extb_refl in W5. discriminate.
  Qed.

  Lemma app_snoc_split {A} (q : list A) : q = [] \/ exists q' y, q = q' ++ [y].
  Proof. destruct q as [|a q] using rev_ind; [now left|right; eauto]. Qed.

  (* taking a whole stored subtree out leaves exactly one hole *)
  Lemma wf_removed_wfd h d d' : wf d -> has_key h d = true -> NoDup (keys d') -> removed (extb h) d d' -> wfd h d'.
  Proof.
    intros W Hh N Hr. pose proof W as (W1&W2&W3).
    destruct (has_key_assoc _ _ Hh) as [nh Hnh]. destruct (W2 _ _ Hnh) as (Ch&_).
    assert (HK : forall k, has_key k d' = true -> extb h k = false /\ has_key k d = true).
    { intros k H. unfold has_key in H. rewrite Hr in H. destruct (extb h k); [discriminate|]. auto. }
    split; auto. split; [|split; [|split; auto]].
    - intros k n H. rewrite Hr in H. destruct (extb h k) eqn:Ek; [discriminate|].
      destruct (W2 _ _ H) as (A&B). split; auto. destruct n as [id subs r l|g]; auto.
      destruct B as (B1&B2&B3). repeat split; auto; try (now apply B3).
      destruct (B3 _ H0) as ([x Hx]&Hs). unfold has_key. rewrite Hr. destruct (extb h s) eqn:Es; [|left; exact Hs]. right.
      apply prefb_spec in Es as [q Hq]. destruct (app_snoc_split q) as [->|(q'&y&->)].
      + rewrite app_nil_r in Hq. destruct (has_key_assoc _ _ Hs) as [ns Hns]. destruct (W2 _ _ Hns) as (Cs&_). now apply canon_inj.
      + exfalso. rewrite Hx, app_assoc in Hq. apply app_inj_tail in Hq as (Hq&_).
        assert (extb h k = true) by (apply prefb_spec; eauto). congruence.
    - intros k p x Hk Hp Hne. destruct (HK _ Hk) as (Ek&Hkd).
      destruct (W3 _ _ _ Hkd Hp Hne) as (pk&id&subs&r&l&A&B&C). exists pk, id, subs, r, l. repeat split; auto.
      rewrite Hr. destruct (extb h pk) eqn:Ep; auto. exfalso.
      assert (E : extb pk k = true). { apply prefb_spec. exists [x]. rewrite Hp. f_equal. symmetry. now apply bk_kp. }
      rewrite (extb_trans _ _ _ Ep E) in Ek. discriminate.
    - intros k Hk. now destruct (HK _ Hk).
  Qed.

  (* closing the hole: nobody lists h any more *)
  Lemma wfd_wf h d : wfd h d -> (forall k id subs r l, assoc k d = Some (NInfo id subs r l) -> ~ In h subs) -> wf d.
  Proof.
    intros (W1&W2&W3&W4&W5) Hn. split; auto. split; auto.
    intros k n H. destruct (W2 _ _ H) as (A&B). split; auto. destruct n as [id subs r l|g]; auto.
    destruct B as (B1&B2&B3). repeat split; auto; try (now apply B3).
    destruct (B3 _ H0) as (_&[Hs| ->]); auto. exfalso. eapply Hn; eauto.
  Qed.
  (* whoever lists h is h's parent *)
  Lemma lister_is_parent h d k id subs r l pk x :
    wfd h d -> assoc k d = Some (NInfo id subs r l) -> In h subs -> canon pk -> kp h = kp pk ++ [x] -> k = pk.
  Proof.
    intros (W1&W2&_) Hk Hi Cp Hx. destruct (W2 _ _ Hk) as (Ck&_&_&B). destruct (B _ Hi) as ([y Hy]&_).
    rewrite Hx in Hy. apply app_inj_tail in Hy as (Hy&_). apply canon_inj; auto.
  Qed.
  Lemma wfd_root h d : wfd h d -> length (kp h) = 1%nat -> wf d.
  Proof.
    intros W L. apply (wfd_wf h); auto. intros k id subs r l Hk Hi.
    destruct W as (_&W2&_). destruct (W2 _ _ Hk) as (_&_&_&B). destruct (B _ Hi) as ([y Hy]&_).
    rewrite Hy, app_length in L. cbn in L. pose proof (kp_ne k). destruct (kp k); [congruence|cbn in L; lia].
  Qed.
  Lemma wfd_unlisted h d pk x : wfd h d -> canon pk -> kp h = kp pk ++ [x] ->
    (forall id subs r l, assoc pk d = Some (NInfo id subs r l) -> ~ In h subs) -> wf d.
  Proof.
    intros W Cp Hx Hn. apply (wfd_wf h); auto. intros k id subs r l Hk Hi.
    assert (k = pk) by (eapply lister_is_parent; eauto). subst. eapply Hn; eauto.
  Qed.
  Lemma wf_wfd_missing h d : wf d -> canon h -> has_key h d = false -> wfd h d.
  Proof.
    intros W Ch Hh. pose proof W as (W1&W2&W3). split; auto. split; [|split; [|split]]; auto.
    - intros k n H. destruct (W2 _ _ H) as (A&B). split; auto. destruct n as [id subs r l|g]; auto.
      destruct B as (B1&B2&B3). repeat split; auto; try (now apply B3). left. now apply B3.
    - intros k Hk. destruct (extb h k) eqn:E; auto. exfalso. apply prefb_spec in E as [q Hq].
      destruct (anc d (wf_wk d W) q k (kp h) Hk Hq (kp_ne h)) as (pk&A&B). unfold canon in Ch. rewrite Ch in A.
      inversion A; subst. congruence.
  Qed.

  Notation drop h subs := (List.filter (fun x => negb (str_eqb x h)) subs).
  Lemma in_drop h subs s : In s (drop h subs) <-> In s subs /\ s <> h.
  Proof.
    rewrite filter_In. split; intros [A B]; split; auto.
    - apply negb_true_iff, str_eqb_neq in B. exact B.
    - apply negb_true_iff, str_eqb_neq. exact B.
  Qed.

  (* the parent forgets h and keeps other subordinates *)
  Lemma wfd_filter h d pk id subs r l :
    wfd h d -> assoc pk d = Some (NInfo id subs r l) -> In h subs -> wf (aset pk (NInfo id (drop h subs) r l) d).
  Proof.
    intros W Hp Hi. pose proof (wfd_not_stored _ _ W) as Hns. pose proof W as (W1&W2&W3&W4&W5).
    destruct (W2 _ _ Hp) as (Cp&Lp&Np&Bp). destruct (Bp _ Hi) as ([x Hx]&_).
    split; [now apply nodup_aset|]. split.
    - intros k n Hk. rewrite assoc_aset_eq in Hk. destruct (str_eqb k pk) eqn:E.
      + apply str_eqb_eq in E. subst k. inversion Hk; subst n. split; auto. repeat split; auto.
        * now apply NoDup_filter.
        * apply in_drop in H as (H&_). now apply Bp.
        * apply in_drop in H as (H&Hne). destruct (Bp _ H) as (_&[Hs|Hs]); [|contradiction]. now apply has_key_mono.
      + destruct (W2 _ _ Hk) as (A&B). split; auto. destruct n as [id' subs' r' l'|g]; auto.
        destruct B as (B1&B2&B3). repeat split; auto; try (now apply B3).
        destruct (B3 _ H) as (_&[Hs| ->]); [now apply has_key_mono|]. exfalso.
        assert (k = pk) by (eapply lister_is_parent; eauto). subst. rewrite str_eqb_refl in E. discriminate.
    - intros k p y Hk Hkp Hne.
      assert (Hkd : has_key k d = true).
      { rewrite has_key_aset in Hk. destruct (str_eqb k pk) eqn:E; auto. apply str_eqb_eq in E. subst. unfold has_key. now rewrite Hp. }
      destruct (W3 _ _ _ Hkd Hkp Hne) as (pk'&id'&subs'&r'&l'&A&B&C).
      destruct (str_eqb pk' pk) eqn:E.
      + apply str_eqb_eq in E. subst pk'. rewrite Hp in B. inversion B; subst.
        exists pk, id', (drop h subs'), r', l'. repeat split; auto; [apply assoc_aset_same|].
        apply in_drop. split; auto. intros ->. congruence.
      + exists pk', id', subs', r', l'. repeat split; auto. rewrite assoc_aset_eq, E. exact B.
  Qed.

  (* the parent had no other subordinate: it goes too and becomes the hole *)
  Lemma wfd_up h d pk id subs r l :
    wfd h d -> assoc pk d = Some (NInfo id subs r l) -> In h subs -> drop h subs = [] -> wfd pk (adel pk d).
  Proof.
    intros W Hp Hi Hd. pose proof (wfd_not_stored _ _ W) as Hns. pose proof (wfd_wk _ _ W) as Wk. pose proof W as (W1&W2&W3&W4&W5).
    destruct (W2 _ _ Hp) as (Cp&Lp&Np&Bp). destruct (Bp _ Hi) as ([x Hx]&_).
    assert (Hall : forall s, In s subs -> s = h).
    { intros s Hs. destruct (str_eqb s h) eqn:E; [now apply str_eqb_eq|]. exfalso.
      assert (In s (drop h subs)) by (apply in_drop; split; auto; now apply str_eqb_neq). rewrite Hd in H. destruct H. }
    assert (Hbelow : forall k, has_key k d = true -> k <> pk -> extb pk k = false).
    { intros k Hk Hne. destruct (extb pk k) eqn:E; auto. exfalso. apply prefb_spec in E as [q Hq]. destruct q as [|y q].
      - rewrite app_nil_r in Hq. destruct (has_key_assoc _ _ Hk) as [nk Hnk]. destruct (W2 _ _ Hnk) as (Ck&_). apply Hne. now apply canon_inj.
      - destruct (child_listed d pk _ k y q Wk Hp Hk Hq) as (s&Hs&Es). cbn in Hs. rewrite (Hall _ Hs) in Es.
        rewrite (W5 _ Hk) in Es. discriminate. }
    assert (A1 : forall k, assoc k (adel pk d) = if str_eqb k pk then None else assoc k d) by (intros; now apply assoc_adel_eq).
    assert (HK : forall k, has_key k (adel pk d) = true -> k <> pk /\ has_key k d = true).
    { intros k H. unfold has_key in H. rewrite A1 in H. destruct (str_eqb k pk) eqn:E; [discriminate|]. apply str_eqb_neq in E. auto. }
    split; [now apply nodup_adel|]. split; [|split; [|split; auto]].
    - intros k n Hk. rewrite A1 in Hk. destruct (str_eqb k pk) eqn:E; [discriminate|]. apply str_eqb_neq in E.
      destruct (W2 _ _ Hk) as (A&B). split; auto. destruct n as [id' subs' r' l'|g]; auto.
      destruct B as (B1&B2&B3). repeat split; auto; try (now apply B3).
      destruct (B3 _ H) as (_&[Hs| ->]).
      + destruct (str_eqb s pk) eqn:E2; [right; now apply str_eqb_eq|]. left. unfold has_key. rewrite A1, E2. exact Hs.
      + exfalso. apply E. eapply lister_is_parent; eauto.
    - intros k p y Hk Hkp Hne. destruct (HK _ Hk) as (Hkne&Hkd).
      destruct (W3 _ _ _ Hkd Hkp Hne) as (pk'&id'&subs'&r'&l'&A&B&C).
      exists pk', id', subs', r', l'. repeat split; auto. rewrite A1. destruct (str_eqb pk' pk) eqn:E; auto. exfalso.
      apply str_eqb_eq in E. subst pk'. rewrite Hp in B. inversion B; subst. rewrite (Hall _ C) in Hkd. congruence.
    - intros k Hk. destruct (HK _ Hk) as (Hkne&Hkd). now apply Hbelow.
  Qed.

  (* the chain of ancestors of h, nearest first, as the delete loop walks it *)
  Fixpoint ups_ok (h : pystr) (up : list pystr) : Prop :=
    match up with
    | [] => length (kp h) = 1%nat
    | pk :: up' => canon pk /\ (exists x, kp h = kp pk ++ [x]) /\ ups_ok pk up'
    end.
  Lemma delete_up_some_wf fuel up : forall h d d', wfd h d -> ups_ok h up -> delete_up G fuel up (Some h) d = Ok d' -> wf d'.
  Proof.
    induction up as [|pk up IH]; intros h d d' W U H; cbn [delete_up] in H.
    - inversion H; subst. eapply wfd_root; eauto.
    - destruct U as (Cpk&[x Hx]&U').
      destruct (assoc pk d) as [n|] eqn:Hp.
      + destruct n as [id subs r l|g]; [|discriminate].
        destruct (str_in h subs) eqn:Hin.
        * apply str_in_In in Hin. cbv zeta in H. destruct (drop h subs) as [|s0 rest0] eqn:Hf.
          -- eapply IH; [|exact U'|exact H]. eapply wfd_up; eauto.
          -- inversion H; subst. rewrite <- Hf. eapply wfd_filter; eauto.
        * inversion H; subst. eapply wfd_unlisted; eauto. intros id' subs' r' l' E. rewrite Hp in E. inversion E; subst.
          intros Hi. apply str_in_In in Hi. congruence.
      + eapply IH; [|exact U'|exact H]. apply wf_wfd_missing; auto.
        * eapply wfd_unlisted; eauto. intros id' subs' r' l' E. congruence.
        * unfold has_key. now rewrite Hp.
  Qed.
  Lemma delete_up_none_wf fuel key up d d' :
    wf d -> ups_ok key up -> delete_up G fuel (key :: up) None d = Ok d' -> wf d'.
  Proof.
    intros W U H. cbn [delete_up] in H. destruct (assoc key d) as [n|] eqn:Hk; [|inversion H; subst; auto].
    change (d1 <- go_dst fuel (nsubs n) d ;; delete_up G fuel up (Some key) (adel key d1) = Ok d') in H.
    destruct (go_dst fuel (nsubs n) d) as [dg| |] eqn:Hg; cbn [bind] in H; try discriminate.
    destruct (del_node_spec fuel key n d dg (dst_spec fuel) (wf_wk _ W) Hk Hg) as (N&R).
    eapply delete_up_some_wf; [|exact U|exact H]. eapply wf_removed_wfd; eauto. unfold has_key. now rewrite Hk.
  Qed.

  (* the keys the loop walks: built from the path's prefixes, longest first *)
  Fixpoint pchain (ps : list (list pystr)) : Prop :=
    match ps with
    | [] => True
    | p :: ps' => p <> [] /\ match ps' with [] => length p = 1%nat | q :: _ => exists x, p = q ++ [x] end /\ pchain ps'
    end.
  Lemma prefixes_rev_chain rest : forall pre acc,
    pchain acc -> match acc with [] => pre = [] | q :: _ => q = pre end -> pchain (prefixes_rev pre rest acc).
  Proof.
    induction rest as [|x rest IH]; intros pre acc P Hh; cbn [prefixes_rev]; auto.
    apply IH; auto. cbn [pchain]. split; [destruct pre; discriminate|]. split; auto.
    destruct acc as [|q acc']; [subst; reflexivity|subst; eauto].
  Qed.
  Lemma keys_of_chain ps : forall ks, pchain ps -> keys_of ps = Ok ks ->
    match ks with [] => ps = [] | k :: up => canon k /\ ups_ok k up end.
  Proof.
    induction ps as [|p ps IH]; intros ks P H; cbn [keys_of] in H.
    - inversion H; subst. reflexivity.
    - destruct (branch_key p) as [k| |] eqn:Ek; cbn [bind] in H; try discriminate.
      destruct (keys_of ps) as [up| |] eqn:Eu; cbn [bind] in H; try discriminate. inversion H; subst ks.
      destruct P as (Pne&Pl&P'). assert (Kk : kp k = p) by (now apply bk_kp).
      split; [eapply bk_canon; eauto|]. specialize (IH up P' eq_refl). destruct up as [|pk up'].
      + subst ps. cbn. now rewrite Kk.
      + destruct IH as (Cpk&U). destruct ps as [|q ps']; [cbn in Eu; discriminate|]. destruct Pl as [x ->].
        cbn [keys_of] in Eu. destruct (branch_key q) as [kq| |] eqn:Eq; cbn [bind] in Eu; try discriminate.
        destruct (keys_of ps'); cbn [bind] in Eu; try discriminate. inversion Eu; subst kq.
        destruct P' as (Qne&_). cbn [ups_ok]. split; auto. split; auto. exists x. rewrite Kk. f_equal. symmetry. now apply bk_kp.
  Qed.

  Lemma db_delete_wf path d d' : wf d -> db_delete G path d = Ok d' -> wf d'.
  Proof.
    intros W H. unfold db_delete in H. destruct path as [|p0 rest]; [discriminate|].
    destruct (branch_key [p0]) as [k0| |] eqn:E0; cbn [bind] in H; try discriminate.
    destruct (has_key k0 d) eqn:Hk; cbn [negb] in H; [|inversion H; subst; auto].
    assert (K0 : kp k0 = [p0]) by (apply bk_kp; [auto|discriminate]).
    destruct rest as [|p1 rest].
    - destruct (dst_spec _ _ _ _ (wf_wk _ W) H) as (N&R).
      eapply wfd_root; [eapply wf_removed_wfd; eauto|]. now rewrite K0.
    - destruct (keys_of (prefixes_rev [] (p0 :: p1 :: rest) [])) as [ks| |] eqn:Ek; cbn [bind] in H; try discriminate.
      assert (P : pchain (prefixes_rev [] (p0 :: p1 :: rest) [])) by (apply prefixes_rev_chain; cbn; auto).
      pose proof (keys_of_chain _ _ P Ek) as C. destruct ks as [|key up].
      + cbn in H. inversion H; subst; auto.
      + destruct C as (_&U). eapply delete_up_none_wf; eauto.
  Qed.

  (* ================================================================ every reachable store is consistent *)
  Lemma step_wf d o : wf d -> wf (fst (step G g_revoke d o)).
  Proof.
    intros W. destruct o as [u c gid g|p l|p|]; cbn [step].
    - destruct (add_grant G [u; c] gid g d) as [d1 r1] eqn:E. cbn. eapply add_grant_wf; eauto.
    - destruct (revoke_sub_tree G g_revoke p l d) as [d1| |] eqn:E; cbn; auto. eapply revoke_sub_tree_wf; eauto.
    - destruct (db_delete G p d) as [d1| |] eqn:E; cbn; auto. eapply db_delete_wf; eauto.
    - cbn. apply wf_empty.
  Qed.
  Theorem run_wf ops : forall d, wf d -> wf (run G g_revoke ops d).
  Proof.
    induction ops as [|o ops IH]; intros d W; cbn [run fold_left]; auto. apply IH. now apply step_wf.
  Qed.

  (* ================================================================ exact removal *)
  Lemma not_stored_below d key k : wf d -> canon key -> assoc key d = None -> extb key k = true -> assoc k d = None.
  Proof.
    intros W Ck Hk E. destruct (assoc k d) as [n|] eqn:Hn; auto. exfalso.
    assert (Hh : has_key k d = true) by (unfold has_key; now rewrite Hn).
    apply prefb_spec in E as [q Hq]. destruct (anc d (wf_wk d W) q k (kp key) Hh Hq (kp_ne key)) as (pk&A&B).
    unfold canon in Ck. rewrite Ck in A. inversion A; subst. unfold has_key in B. rewrite Hk in B. discriminate.
  Qed.
  Lemma extb_len a b : extb a b = true -> (length (kp a) <= length (kp b))%nat.
  Proof. intros H. apply prefb_spec in H as [q ->]. rewrite app_length. lia. Qed.
  Lemma ups_ok_strict up : forall h k, ups_ok h up -> In k up -> extb k h = true /\ (length (kp k) < length (kp h))%nat.
  Proof.
    induction up as [|pk up IH]; intros h k U Hi; [destruct Hi|]. destruct U as (Cpk&[x Hx]&U').
    assert (E : extb pk h = true) by (apply prefb_spec; eauto).
    assert (L : (length (kp pk) < length (kp h))%nat) by (rewrite Hx, app_length; cbn; lia).
    destruct Hi as [<-|Hi]; [auto|]. destruct (IH _ _ U' Hi) as (E'&L'). split; [eapply extb_trans; eauto|lia].
  Qed.
  Definition strict_anc (k leaf : pystr) : bool := extb k leaf && negb (str_eqb k leaf).
  Lemma strict_anc_ups h up k : ups_ok h up -> strict_anc k h = false -> ~ In k up.
  Proof.
    intros U S Hi. destruct (ups_ok_strict _ _ _ U Hi) as (E&L). unfold strict_anc in S. rewrite E in S. cbn in S.
    apply negb_false_iff, str_eqb_eq in S. subst. lia.
  Qed.

  Lemma delete_up_some_frame fuel up : forall h d d', delete_up G fuel up (Some h) d = Ok d' ->
    forall k, ~ In k up -> assoc k d' = assoc k d.
  Proof.
    induction up as [|pk up IH]; intros h d d' H k Hn; cbn [delete_up] in H.
    - inversion H; subst; auto.
    - assert (Nk : str_eqb k pk = false). { apply str_eqb_neq. intros ->. apply Hn. now left. }
      assert (Hn' : ~ In k up) by (intros Hi; apply Hn; now right).
      destruct (assoc pk d) as [n|] eqn:Hp.
      + destruct n as [id subs r l|g]; [|discriminate].
        destruct (str_in h subs); [|inversion H; subst; auto].
        cbv zeta in H. destruct (drop h subs) as [|s0 rest0].
        * rewrite (IH _ _ _ H k Hn'). apply assoc_adel_other. apply str_eqb_neq in Nk. congruence.
        * inversion H; subst. now rewrite assoc_aset_eq, Nk.
      + eapply IH; eauto.
  Qed.
  Lemma delete_up_none_exact fuel key up d d' : wf d -> canon key -> delete_up G fuel (key :: up) None d = Ok d' ->
     forall k, ~ In k up -> assoc k d' = if extb key k then None else assoc k d.
  Proof.
    intros W Ck H k Hn. cbn [delete_up] in H. destruct (assoc key d) as [n|] eqn:Hk.
    - change (d1 <- go_dst fuel (nsubs n) d ;; delete_up G fuel up (Some key) (adel key d1) = Ok d') in H.
      destruct (go_dst fuel (nsubs n) d) as [dg| |] eqn:Hg; cbn [bind] in H; try discriminate.
      destruct (del_node_spec fuel key n d dg (dst_spec fuel) (wf_wk _ W) Hk Hg) as (N&R).
      rewrite (delete_up_some_frame _ _ _ _ _ H k Hn). apply R.
    - inversion H; subst. destruct (extb key k) eqn:E; auto. eapply not_stored_below; eauto.
  Qed.

  Lemma prefixes_rev_head rest : forall pre acc, rest <> [] -> exists tl, prefixes_rev pre rest acc = (pre ++ rest) :: tl.
  Proof.
    induction rest as [|x rest IH]; intros pre acc Hne; [congruence|]. cbn [prefixes_rev]. destruct rest as [|y rest].
    - cbn. eauto.
    - destruct (IH (pre ++ [x]) ((pre ++ [x]) :: acc)) as [tl Ht]; [discriminate|]. exists tl. rewrite Ht. now rewrite <- app_assoc.
  Qed.

  (* Database.delete(path) removes the subtree of path's node, may only touch (shorten or remove) strict ancestors
     of that node, and leaves every other node exactly as it was *)
  Theorem db_delete_exact path leaf d d' : wf d -> branch_key path = Ok leaf -> db_delete G path d = Ok d' ->
     forall k, strict_anc k leaf = false -> assoc k d' = if extb leaf k then None else assoc k d.
  Proof.
    intros W Hl H k Sk. unfold db_delete in H. destruct path as [|p0 rest]; [discriminate|].
    assert (Cl : canon leaf) by (eapply bk_canon; eauto; discriminate).
    assert (Kl : kp leaf = p0 :: rest) by (apply bk_kp; [auto|discriminate]).
    destruct (branch_key [p0]) as [k0| |] eqn:E0; cbn [bind] in H; try discriminate.
    assert (K0 : kp k0 = [p0]) by (apply bk_kp; [auto|discriminate]).
    assert (C0 : canon k0) by (eapply bk_canon; eauto; discriminate).
    assert (E0l : extb k0 leaf = true). { unfold extb. rewrite K0, Kl. cbn. now rewrite str_eqb_refl. }
    destruct (has_key k0 d) eqn:Hk; cbn [negb] in H.
    - destruct rest as [|p1 rest].
      + rewrite E0 in Hl. inversion Hl; subst k0. destruct (dst_spec _ _ _ _ (wf_wk _ W) H) as (N&R). apply R.
      + destruct (keys_of (prefixes_rev [] (p0 :: p1 :: rest) [])) as [ks| |] eqn:Ek; cbn [bind] in H; try discriminate.
        assert (P : pchain (prefixes_rev [] (p0 :: p1 :: rest) [])) by (apply prefixes_rev_chain; cbn; auto).
        pose proof (keys_of_chain _ _ P Ek) as C.
        destruct (prefixes_rev_head (p0 :: p1 :: rest) [] []) as [tl Ht]; [discriminate|]. cbn [app] in Ht.
        rewrite Ht in Ek. cbn [keys_of] in Ek. rewrite Hl in Ek. cbn [bind] in Ek.
        destruct (keys_of tl) as [up| |]; cbn [bind] in Ek; try discriminate. inversion Ek; subst ks.
        destruct C as (_&U). eapply delete_up_none_exact; eauto. eapply strict_anc_ups; eauto.
    - inversion H; subst. destruct (extb leaf k) eqn:E; auto. eapply (not_stored_below d' k0); eauto.
      + unfold has_key in Hk. destruct (assoc k0 d'); [discriminate|reflexivity].
      + eapply extb_trans; eauto.
  Qed.

  (* ================================================================ frame: other users' branches *)
  Definition rt (k : pystr) : pystr := hd [] (kp k).
  Lemma rt_bk p k : branch_key p = Ok k -> rt k = hd [] p.
  Proof.
    intros H. destruct p as [|a p]; [cbn in H; inversion H; reflexivity|]. unfold rt. rewrite (bk_kp _ _ H); [reflexivity|discriminate].
  Qed.
  Lemma ext_rt a k : extb a k = true -> rt k = rt a.
  Proof. unfold extb, rt. intros H. apply prefb_spec in H as [q ->]. pose proof (kp_ne a). destruct (kp a); [congruence|reflexivity]. Qed.

  Lemma add_sub_frame sk key d d1 k : add_sub G sk key d = Ok d1 -> k <> sk -> assoc k d1 = assoc k d.
  Proof.
    unfold add_sub. destruct (assoc sk d) as [[id subs r l|g]|]; try discriminate.
    destruct (str_in key subs); intros H N; inversion H; subst; auto.
    rewrite assoc_aset_eq. destruct (str_eqb k sk) eqn:E; auto. apply str_eqb_eq in E. congruence.
  Qed.
  Lemma set_loop_frame u k : rt k <> u -> forall rest pre value sup d d' r,
     hd [] (pre ++ rest) = u -> (forall sk, sup = Some sk -> rt sk = u) ->
     set_loop G pre rest value sup d = (d', r) -> assoc k d' = assoc k d.
  Proof.
    intros Hk. induction rest as [|x rest IH]; intros pre value sup d d' r Hu Hs H; cbn [set_loop] in H.
    - inversion H; subst; auto.
    - cbv zeta in H. destruct (branch_key (pre ++ [x])) as [key| |] eqn:Ek; try (inversion H; subst; auto; fail).
      assert (Rk : rt key = u). { rewrite (rt_bk _ _ Ek). rewrite <- Hu. destruct pre; reflexivity. }
      destruct (match sup with Some sk => add_sub G sk key d | None => Ok d end) as [d1| |] eqn:Er; try (inversion H; subst; auto; fail).
      assert (E1 : assoc k d1 = assoc k d).
      { destruct sup as [sk|]; [|inversion Er; subst; auto]. eapply add_sub_frame; eauto. intros ->. apply Hk. now apply Hs. }
      rewrite <- E1. eapply IH in H.
      + rewrite H. rewrite assoc_aset_eq. destruct (str_eqb k key) eqn:E; auto. apply str_eqb_eq in E. subst. contradiction.
      + rewrite <- app_assoc. exact Hu.
      + intros sk Hsk. inversion Hsk; subst. exact Rk.
  Qed.
  Lemma setup_loop_frame u k : rt k <> u -> forall rest pre d d' r,
     hd [] (pre ++ rest) = u -> setup_loop G pre rest d = (d', r) -> assoc k d' = assoc k d.
  Proof.
    intros Hk. induction rest as [|x rest IH]; intros pre d d' r Hu H; cbn [setup_loop] in H.
    - inversion H; subst; auto.
    - assert (Hu' : hd [] ((pre ++ [x]) ++ rest) = u) by (now rewrite <- app_assoc).
      assert (Hu2 : hd [] ([] ++ (pre ++ [x])) = u) by (cbn; rewrite <- Hu; destruct pre; reflexivity).
      destruct (db_get G (pre ++ [x]) d) as [n|e|]; [eapply IH; eauto| |inversion H; subst; auto].
      destruct e; try (inversion H; subst; auto; fail).
      destruct (db_set G (pre ++ [x]) (NInfo x [] false (length pre)) d) as [d1 r1] eqn:Es.
      assert (E1 : assoc k d1 = assoc k d). { unfold db_set in Es. eapply set_loop_frame; eauto. intros sk Hsk; discriminate. }
      destruct r1 as [[]| |]; try (inversion H; subst; auto; fail). rewrite <- E1. eapply IH; eauto.
  Qed.
  Lemma add_grant_frame u c gid g d d' r k : rt k <> u -> add_grant G [u; c] gid g d = (d', r) -> assoc k d' = assoc k d.
  Proof.
    intros Hk H. unfold add_grant, setup_branch in H. destruct (setup_loop G [] [u; c] d) as [d1 r1] eqn:E1.
    assert (F1 : assoc k d1 = assoc k d) by (eapply (setup_loop_frame u k Hk [u; c] []); eauto).
    destruct r1 as [[]| |]; try (inversion H; subst; auto; fail).
    rewrite <- F1. unfold db_set in H. eapply (set_loop_frame u k Hk _ [] _ None); [ | |exact H]; [reflexivity|intros sk Hsk; discriminate].
  Qed.

  Lemma revoke_tree_frame fuel : forall key d d', wf d -> revoke_tree G g_revoke fuel key d = Ok d' ->
     forall k, extb key k = false -> assoc k d' = assoc k d.
  Proof.
    induction fuel as [|f IH]; intros key d d' W H k Hk; cbn [revoke_tree] in H; [discriminate|].
    assert (Nk : str_eqb k key = false).
    { destruct (str_eqb k key) eqn:E; auto. apply str_eqb_eq in E. subst. rewrite extb_refl in Hk. discriminate. }
    destruct (assoc key d) as [[id subs r l|g]|] eqn:Ek; try discriminate.
    - assert (Hch : forall s, In s subs -> extb s k = false).
      { intros s Hs. destruct W as (_&W2&_). destruct (W2 _ _ Ek) as (_&_&_&B). destruct (B _ Hs) as ([x Hx]&_).
        destruct (extb s k) eqn:E; auto. assert (E2 : extb key s = true) by (apply prefb_spec; eauto).
        rewrite (extb_trans _ _ _ E2 E) in Hk. discriminate. }
      set (d1 := aset key (NInfo id subs true l) d) in *.
      assert (W1 : wf d1) by (eapply wf_aset_same_subs; eauto; reflexivity).
      assert (E1 : assoc k d1 = assoc k d) by (unfold d1; now rewrite assoc_aset_eq, Nk).
      rewrite <- E1. clearbody d1. clear Ek W E1. revert Hch d1 d' W1 H. induction subs as [|s rest IHs]; intros Hch d1 d' W1 H.
      + inversion H; subst; auto.
      + destruct (revoke_tree G g_revoke f s d1) as [d2| |] eqn:E; cbn [bind] in H; try discriminate.
        rewrite <- (IH _ _ _ W1 E k) by (apply Hch; now left).
        eapply IHs; [intros s' Hs'; apply Hch; now right|eapply revoke_tree_wf; eauto|exact H].
    - inversion H; subst. now rewrite assoc_aset_eq, Nk.
  Qed.
  Lemma revoke_sub_tree_frame path lvl d d' k : wf d -> revoke_sub_tree G g_revoke path lvl d = Ok d' ->
     rt k <> hd [] path -> assoc k d' = assoc k d.
  Proof.
    unfold revoke_sub_tree. intros W H Hk. destruct lvl as [l|].
    - destruct (Nat.ltb (length path) l); [discriminate|].
      destruct (branch_key (firstn (S l) path)) as [key| |] eqn:Eb; cbn [bind] in H; try discriminate.
      eapply revoke_tree_frame; eauto. destruct (extb key k) eqn:E; auto. exfalso. apply Hk.
      rewrite (ext_rt _ _ E), (rt_bk _ _ Eb). destruct path; reflexivity.
    - destruct (branch_key path) as [key| |] eqn:Eb; cbn [bind] in H; try discriminate.
      eapply revoke_tree_frame; eauto. destruct (extb key k) eqn:E; auto. exfalso. apply Hk.
      now rewrite (ext_rt _ _ E), (rt_bk _ _ Eb).
  Qed.
  Lemma db_delete_frame path d d' k : wf d -> db_delete G path d = Ok d' -> rt k <> hd [] path -> assoc k d' = assoc k d.
  Proof.
    intros W H Hk. destruct (branch_key path) as [leaf| |] eqn:El.
    - assert (Rl : rt leaf = hd [] path) by (now apply rt_bk).
      rewrite (db_delete_exact path leaf d d' W El H k).
      + destruct (extb leaf k) eqn:E; auto. exfalso. apply Hk. now rewrite (ext_rt _ _ E).
      + unfold strict_anc. destruct (extb k leaf) eqn:E; auto. exfalso. apply Hk. now rewrite <- (ext_rt _ _ E).
    - (* the path has no key: nothing is changed before the refusal *)
      unfold db_delete in H. destruct path as [|p0 rest]; [discriminate|].
      destruct (branch_key [p0]) as [k0| |] eqn:E0; cbn [bind] in H; try discriminate.
      destruct (has_key k0 d); cbn [negb] in H; [|inversion H; subst; auto].
      destruct rest as [|p1 rest]; [congruence|].
      destruct (prefixes_rev_head (p0 :: p1 :: rest) [] []) as [tl Ht]; [discriminate|]. cbn [app] in Ht.
      rewrite Ht in H. cbn [keys_of] in H. rewrite El in H. cbn [bind] in H. discriminate.
    - unfold db_delete in H. destruct path as [|p0 rest]; [discriminate|].
      destruct (branch_key [p0]) as [k0| |] eqn:E0; cbn [bind] in H; try discriminate.
      destruct (has_key k0 d); cbn [negb] in H; [|inversion H; subst; auto].
      destruct rest as [|p1 rest]; [congruence|].
      destruct (prefixes_rev_head (p0 :: p1 :: rest) [] []) as [tl Ht]; [discriminate|]. cbn [app] in Ht.
      rewrite Ht in H. cbn [keys_of] in H. rewrite El in H. cbn [bind] in H. discriminate.
  Qed.

  Definition op_root (o : op G) : option pystr :=
    match o with
    | OAddGrant u _ _ _ => Some u
    | ORevoke p _ => Some (hd [] p)
    | ODelete p => Some (hd [] p)
    | OFlush => None
    end.
  (* an operation on one user's branch leaves every node of every other user exactly as it was *)
  Theorem step_frame d o u k : wf d -> op_root o = Some u -> rt k <> u ->
    assoc k (fst (step G g_revoke d o)) = assoc k d.
  Proof.
    intros W Ho Hk. destruct o as [u' c gid g|p l|p|]; cbn [op_root] in Ho; inversion Ho; subst u; cbn [step].
    - destruct (add_grant G [u'; c] gid g d) as [d1 r1] eqn:E. cbn. eapply add_grant_frame; eauto.
    - destruct (revoke_sub_tree G g_revoke p l d) as [d1| |] eqn:E; cbn; auto. eapply revoke_sub_tree_frame; eauto.
    - destruct (db_delete G p d) as [d1| |] eqn:E; cbn; auto. eapply db_delete_frame; eauto.
  Qed.

  (* any number of operations on other users' branches *)
  Theorem run_frame ops : forall d k, wf d ->
    Forall (fun o => exists u, op_root o = Some u /\ rt k <> u) ops -> assoc k (run G g_revoke ops d) = assoc k d.
  Proof.
    induction ops as [|o ops IH]; intros d k W F; cbn [run fold_left]; auto.
    inversion F as [|? ? (u&Hu&Hk) F']; subst. change (assoc k (run G g_revoke ops (fst (step G g_revoke d o))) = assoc k d).
    rewrite IH; auto; [eapply step_frame; eauto|now apply step_wf].
  Qed.

  (* what the invariant says, spelled out for the statement file *)
  Lemma wf_reachable d : wf d -> forall k p x, has_key k d = true -> kp k = p ++ [x] -> p <> [] ->
    exists pk id subs r l, branch_key p = Ok pk /\ assoc pk d = Some (NInfo id subs r l) /\ In k subs.
  Proof. intros (_&_&W3). exact W3. Qed.
  Lemma wf_subordinates_stored d : wf d -> forall k id subs r l s, assoc k d = Some (NInfo id subs r l) -> In s subs ->
    has_key s d = true /\ exists x, kp s = kp k ++ [x].
  Proof. intros (_&W2&_) k id subs r l s Hk Hs. destruct (W2 _ _ Hk) as (_&_&_&B). destruct (B _ Hs) as (A&C). split; auto. Qed.
  Lemma wf_one_node_per_path d : wf d -> forall k k' n n', assoc k d = Some n -> assoc k' d = Some n' -> kp k = kp k' -> k = k'.
  Proof. intros (_&W2&_) k k' n n' H H' E. destruct (W2 _ _ H) as (C&_). destruct (W2 _ _ H') as (C'&_). now apply canon_inj. Qed.

  (* ---- the same, for every store reachable from the empty one ---- *)
  Notation reach ops := (run G g_revoke ops []).
  Lemma reach_wf ops : wf (reach ops).
  Proof. apply run_wf, wf_empty. Qed.
  Lemma reach_reachable ops k p x : has_key k (reach ops) = true -> kp k = p ++ [x] -> p <> [] ->
    exists pk id subs r l, branch_key p = Ok pk /\ assoc pk (reach ops) = Some (NInfo id subs r l) /\ In k subs.
  Proof. apply wf_reachable, reach_wf. Qed.
  Lemma reach_no_dangling ops k id subs r l s : assoc k (reach ops) = Some (NInfo id subs r l) -> In s subs ->
    has_key s (reach ops) = true /\ exists x, kp s = kp k ++ [x].
  Proof. apply wf_subordinates_stored, reach_wf. Qed.
  Lemma reach_one_node_per_path ops k k' n n' :
    assoc k (reach ops) = Some n -> assoc k' (reach ops) = Some n' -> kp k = kp k' -> k = k'.
  Proof. apply wf_one_node_per_path, reach_wf. Qed.
  Lemma reach_delete_exact ops path leaf d' : branch_key path = Ok leaf -> db_delete G path (reach ops) = Ok d' ->
    forall k, strict_anc k leaf = false -> assoc k d' = if extb leaf k then None else assoc k (reach ops).
  Proof. apply db_delete_exact, reach_wf. Qed.
  Lemma reach_delete_consistent ops path d' : db_delete G path (reach ops) = Ok d' -> wf d'.
  Proof. apply db_delete_wf, reach_wf. Qed.
  Lemma reach_frame ops ops' k : Forall (fun o => exists u, op_root o = Some u /\ rt k <> u) ops' ->
    assoc k (run G g_revoke ops' (reach ops)) = assoc k (reach ops).
  Proof. apply run_frame, reach_wf. Qed.
  Lemma extb_spec a k : extb a k = true <-> exists q, kp k = kp a ++ q.
  Proof. apply prefb_spec. Qed.
  Lemma strict_anc_spec k leaf : strict_anc k leaf = true <-> (exists q, kp leaf = kp k ++ q) /\ k <> leaf.
  Proof.
    unfold strict_anc. rewrite andb_true_iff, extb_spec, negb_true_iff, str_eqb_neq. tauto.
  Qed.

  (* ================================================================ no operation fails half way
     The model returns the unchanged store on an error; the code raises where it stands.  For consistent stores
     the only errors are the refusals taken before the first change: a path without a key (ValueError), an empty
     path (IndexError), a level beyond the path (ValueError), revoking a node that is not stored (KeyError). *)
  Definition fine (e : res db) : Prop := exists d', e = Ok d'.
  Definition stored_subs (key : pystr) (d : db) : Prop :=
    forall k n s, assoc k d = Some n -> extb key k = true -> In s (nsubs n) -> has_key s d = true.
  Definition shape (d : db) : Prop := forall k n, assoc k d = Some n -> (length (kp k) <= 3)%nat /\ NoDup (nsubs n).

  Lemma app_same_len {A} (p : list A) : forall p' q q', p ++ q = p' ++ q' -> length p = length p' -> p = p'.
  Proof.
    induction p as [|a p IH]; intros [|b p'] q q' H L; cbn in *; try discriminate; auto.
    inversion H; subst. f_equal. eapply IH; eauto.
  Qed.
  Lemma same_level_disjoint s s' t : canon s -> canon s' -> length (kp s) = length (kp s') ->
    extb s t = true -> extb s' t = true -> s = s'.
  Proof.
    intros C C' L E E'. apply prefb_spec in E as [q Hq]. apply prefb_spec in E' as [q' Hq']. rewrite Hq in Hq'.
    apply canon_inj; auto. eapply app_same_len; eauto.
  Qed.
  Lemma wf_shape d : wf d -> shape d.
  Proof.
    intros (_&W2&_) k n H. destruct (W2 _ _ H) as (_&B). destruct n as [id subs r l|g]; cbn.
    - destruct B as (B1&B2&_). split; [lia|auto].
    - split; [lia|constructor].
  Qed.
  Lemma wf_stored_subs d key : wf d -> stored_subs key d.
  Proof.
    intros (_&W2&_) k n s H _ Hs. destruct (W2 _ _ H) as (_&B). destruct n as [id subs r l|g]; [|destruct Hs].
    destruct B as (_&_&B). now apply B.
  Qed.
  Lemma removed_has_key R d d' k : removed R d d' -> has_key k d' = true -> R k = false /\ has_key k d = true.
  Proof. intros Hr H. unfold has_key in H. rewrite Hr in H. destruct (R k); [discriminate|auto]. Qed.

  Lemma go_total f key :
    (forall s d, wk d -> shape d -> has_key s d = true -> stored_subs s d -> (4 <= f + length (kp s))%nat ->
                 fine (delete_sub_tree G f s d)) ->
    forall subs d, wk d -> shape d -> NoDup subs ->
      (forall s, In s subs -> child_of s key /\ has_key s d = true /\ stored_subs s d) ->
      (4 <= f + S (length (kp key)))%nat -> fine (go_dst f subs d).
  Proof.
    intros Hf. induction subs as [|s rest IH]; intros d W Sh N Hs L; cbn [go_dst]; [eexists; reflexivity|].
    destruct (Hs s (or_introl eq_refl)) as ([x Hx]&Hst&Hss).
    assert (Ls : length (kp s) = S (length (kp key))) by (rewrite Hx, app_length; cbn; lia).
    destruct (Hf s d W Sh Hst Hss) as [d1 E1]; [lia|]. rewrite E1. cbn [bind].
    destruct (dst_spec f _ _ _ W E1) as (N1&R1).
    assert (W1 : wk d1). { eapply wk_removed; eauto. intros k k' A B. eapply extb_trans; eauto. }
    assert (Cs : canon s). { destruct (has_key_assoc _ _ Hst) as [ns Hns]. destruct W as (_&W2&_). now destruct (W2 _ _ Hns). }
    inversion N as [|? ? Hnin N']; subst. apply IH; auto.
    - intros k n Hk. rewrite R1 in Hk. destruct (extb s k); [discriminate|]. eapply Sh; eauto.
    - intros s' Hs'. destruct (Hs s' (or_intror Hs')) as ([x' Hx']&Hst'&Hss').
      assert (Ls' : length (kp s') = S (length (kp key))) by (rewrite Hx', app_length; cbn; lia).
      assert (Cs' : canon s'). { destruct (has_key_assoc _ _ Hst') as [ns Hns]. destruct W as (_&W2&_). now destruct (W2 _ _ Hns). }
      assert (D : forall t, extb s' t = true -> extb s t = false).
      { intros t Et. destruct (extb s t) eqn:E; auto. exfalso. apply Hnin.
        rewrite (same_level_disjoint s s' t); auto. lia. }
      split; [eexists; eauto|]. split.
      + unfold has_key. rewrite R1, (D s' (extb_refl s')). exact Hst'.
      + intros k n t Hk Ek Ht. rewrite R1 in Hk. destruct (extb s k) eqn:Esk; [discriminate|].
        pose proof (Hss' k n t Hk Ek Ht) as Htd. unfold has_key. rewrite R1.
        assert (Et : extb s' t = true).
        { eapply extb_trans; [exact Ek|]. destruct W as (_&W2&_). destruct (W2 _ _ Hk) as (_&Hc). destruct (Hc _ Ht) as [y Hy].
          apply prefb_spec. exists [y]. exact Hy. }
        rewrite (D t Et). exact Htd.
  Qed.
  Lemma dst_total f : forall s d, wk d -> shape d -> has_key s d = true -> stored_subs s d ->
    (4 <= f + length (kp s))%nat -> fine (delete_sub_tree G f s d).
  Proof.
    induction f as [|f IH]; intros s d W Sh Hs Hss L.
    - destruct (has_key_assoc _ _ Hs) as [n Hn]. destruct (Sh _ _ Hn). lia.
    - rewrite dst_unfold. destruct (has_key_assoc _ _ Hs) as [n Hn]. rewrite Hn.
      destruct (go_total f s IH (nsubs n) d W Sh) as [dg Eg].
      + now destruct (Sh _ _ Hn).
      + intros t Ht. destruct W as (_&W2&_). destruct (W2 _ _ Hn) as (_&Hc). split; [now apply Hc|]. split.
        * eapply Hss; eauto. apply extb_refl.
        * intros k n' t' Hk Ek Ht'. eapply Hss; eauto. eapply extb_trans; [|exact Ek].
          destruct (Hc _ Ht) as [y Hy]. apply prefb_spec. exists [y]. exact Hy.
      + lia.
      + rewrite Eg. cbn [bind]. eexists; reflexivity.
  Qed.

  Lemma delete_up_some_total fuel up : forall h d, wfd h d -> ups_ok h up -> (length (kp h) <= 3)%nat ->
    fine (delete_up G fuel up (Some h) d).
  Proof.
    induction up as [|pk up IH]; intros h d W U L; cbn [delete_up]; [eexists; reflexivity|].
    destruct U as (Cpk&[x Hx]&U').
    assert (Lpk : (length (kp pk) <= 2)%nat) by (rewrite Hx, app_length in L; cbn in L; lia).
    destruct (assoc pk d) as [n|] eqn:Hp.
    - destruct n as [id subs r l|g].
      + destruct (str_in h subs) eqn:Hin; [|eexists; reflexivity].
        apply str_in_In in Hin. cbv zeta. destruct (drop h subs) as [|s0 rest0] eqn:Hf; [|eexists; reflexivity].
        apply IH; [eapply wfd_up; eauto|exact U'|lia].
      + exfalso. destruct W as (_&W2&_). destruct (W2 _ _ Hp) as (_&B). cbn in B. lia.
    - apply IH; [|exact U'|lia]. apply wf_wfd_missing; auto.
      + eapply wfd_unlisted; eauto. intros id' subs' r' l' E. congruence.
      + unfold has_key. now rewrite Hp.
  Qed.
  Lemma delete_up_none_total fuel key up d : wf d -> ups_ok key up -> canon key -> (4 <= fuel)%nat ->
    fine (delete_up G fuel (key :: up) None d).
  Proof.
    intros W U Ck Lf. cbn [delete_up]. destruct (assoc key d) as [n|] eqn:Hk; [|eexists; reflexivity].
    change (fine (d1 <- go_dst fuel (nsubs n) d ;; delete_up G fuel up (Some key) (adel key d1))).
    pose proof (wf_wk _ W) as Wk. pose proof (wf_shape _ W) as Sh.
    destruct (go_total fuel key (dst_total fuel) (nsubs n) d Wk Sh) as [dg Eg].
    - now destruct (Sh _ _ Hk).
    - intros t Ht. destruct Wk as (_&W2&_). destruct (W2 _ _ Hk) as (_&Hc). split; [now apply Hc|]. split.
      + eapply (wf_stored_subs d key W); eauto. apply extb_refl.
      + now apply wf_stored_subs.
    - lia.
    - rewrite Eg. cbn [bind]. destruct (del_node_spec fuel key n d dg (dst_spec fuel) Wk Hk Eg) as (N&R).
      apply delete_up_some_total; auto.
      + eapply wf_removed_wfd; eauto. unfold has_key. now rewrite Hk.
      + now destruct (Sh _ _ Hk).
  Qed.

  Lemma bk_err p e : branch_key p = Err e -> e = ValueError.
  Proof.
    unfold branch_key. destruct (negb _); [congruence|]. destruct (negb _); [congruence|discriminate].
  Qed.
  Lemma bk_modelled p : branch_key p <> Unmodelled.
  Proof. unfold branch_key. destruct (negb _); [discriminate|]. destruct (negb _); discriminate. Qed.
  Lemma keys_of_err ps e : keys_of ps = Err e -> e = ValueError.
  Proof.
    induction ps as [|p ps IH]; cbn [keys_of]; [discriminate|].
    destruct (branch_key p) eqn:E; cbn [bind]; [|intros H; inversion H; subst; eapply bk_err; eauto|discriminate].
    destruct (keys_of ps); cbn [bind]; [discriminate|intros H; inversion H; subst; now apply IH|discriminate].
  Qed.
  Lemma keys_of_modelled ps : keys_of ps <> Unmodelled.
  Proof.
    induction ps as [|p ps IH]; cbn [keys_of]; [discriminate|].
    destruct (branch_key p) eqn:E; cbn [bind]; [|discriminate|exfalso; eapply bk_modelled; eauto].
    destruct (keys_of ps); cbn [bind]; try discriminate. congruence.
  Qed.

  Theorem db_delete_refusals path d : wf d ->
    match db_delete G path d with
    | Ok _ => True
    | Err e => e = ValueError \/ e = IndexError
    | Unmodelled => False
    end.
  Proof.
    intros W. unfold db_delete. destruct path as [|p0 rest]; [now right|].
    destruct (branch_key [p0]) as [k0|e|] eqn:E0; cbn [bind]; [|left; eapply bk_err; eauto|eapply bk_modelled; eauto].
    destruct (has_key k0 d) eqn:Hk; cbn [negb]; [|exact I].
    assert (K0 : kp k0 = [p0]) by (apply bk_kp; [auto|discriminate]).
    destruct rest as [|p1 rest].
    - destruct (dst_total (4 + length d) k0 d (wf_wk _ W) (wf_shape _ W) Hk (wf_stored_subs _ _ W)) as [d' E]; [lia|]. now rewrite E.
    - destruct (keys_of (prefixes_rev [] (p0 :: p1 :: rest) [])) as [ks|e|] eqn:Ek; cbn [bind];
        [|left; eapply keys_of_err; eauto|eapply keys_of_modelled; eauto].
      assert (P : pchain (prefixes_rev [] (p0 :: p1 :: rest) [])) by (apply prefixes_rev_chain; cbn; auto).
      pose proof (keys_of_chain _ _ P Ek) as C. destruct ks as [|key up]; [cbn; exact I|]. destruct C as (Ck&U).
      destruct (delete_up_none_total (4 + length d) key up d W U Ck) as [d' E]; [lia|]. now rewrite E.
  Qed.

  Lemma revoke_tree_total f : forall key d, wf d -> has_key key d = true -> (4 <= f + length (kp key))%nat ->
    fine (revoke_tree G g_revoke f key d).
  Proof.
    induction f as [|f IH]; intros key d W Hk L.
    - destruct (has_key_assoc _ _ Hk) as [n Hn]. destruct (wf_shape _ W _ _ Hn). lia.
    - cbn [revoke_tree]. destruct (has_key_assoc _ _ Hk) as [n Hn]. rewrite Hn. destruct n as [id subs r l|g]; [|eexists; reflexivity].
      set (d1 := aset key (NInfo id subs true l) d).
      assert (W1 : wf d1) by (eapply wf_aset_same_subs; eauto; reflexivity).
      assert (K1 : assoc key d1 = Some (NInfo id subs true l)) by (unfold d1; apply assoc_aset_same).
      assert (Inc : incl subs subs) by apply incl_refl.
      clearbody d1. revert Inc d1 W1 K1. generalize subs at 1 4 as rest.
      induction rest as [|s rest IHr]; intros Inc d1 W1 K1; [eexists; reflexivity|].
      assert (Hs : In s subs) by (apply Inc; now left).
      destruct (wf_subordinates_stored _ W1 _ _ _ _ _ _ K1 Hs) as (Hst&[x Hx]).
      destruct (IH s d1 W1 Hst) as [d2 E2]. { rewrite Hx, app_length. cbn. lia. }
      rewrite E2. cbn [bind]. apply IHr.
      + intros t Ht. apply Inc. now right.
      + eapply revoke_tree_wf; eauto.
      + rewrite (revoke_tree_frame f s d1 d2 W1 E2 key); auto.
        destruct (extb s key) eqn:E; auto. exfalso. apply extb_len in E. rewrite Hx, app_length in E. cbn in E. lia.
  Qed.
  Theorem revoke_refusals path lvl d : wf d ->
    match revoke_sub_tree G g_revoke path lvl d with
    | Ok _ => True
    | Err e => e = ValueError \/
               (e = KeyError /\ exists key, branch_key (match lvl with None => path | Some l => firstn (S l) path end) = Ok key
                                            /\ has_key key d = false)
    | Unmodelled => False
    end.
  Proof.
    intros W. unfold revoke_sub_tree.
    assert (T : forall key, match revoke_tree G g_revoke (4 + length d) key d with
                            | Ok _ => True | Err e => e = KeyError /\ has_key key d = false | Unmodelled => False end).
    { intros key. destruct (has_key key d) eqn:Hk.
      - destruct (revoke_tree_total (4 + length d) key d W Hk) as [d' E]; [lia|]. now rewrite E.
      - cbn [Nat.add revoke_tree]. unfold has_key in Hk. destruct (assoc key d); [discriminate|]. auto. }
    destruct lvl as [l|].
    - destruct (Nat.ltb (length path) l); [now left|].
      destruct (branch_key (firstn (S l) path)) as [key|e|] eqn:Eb; cbn [bind]; [|left; eapply bk_err; eauto|eapply bk_modelled; eauto].
      specialize (T key). destruct (revoke_tree G g_revoke (4 + length d) key d); auto. right. destruct T. split; eauto.
    - destruct (branch_key path) as [key|e|] eqn:Eb; cbn [bind]; [|left; eapply bk_err; eauto|eapply bk_modelled; eauto].
      specialize (T key). destruct (revoke_tree G g_revoke (4 + length d) key d); auto. right. destruct T. split; eauto.
  Qed.

  Lemma reach_delete_refusals ops path :
    match db_delete G path (reach ops) with Ok _ => True | Err e => e = ValueError \/ e = IndexError | Unmodelled => False end.
  Proof. apply db_delete_refusals, reach_wf. Qed.
  Lemma reach_revoke_refusals ops path lvl :
    match revoke_sub_tree G g_revoke path lvl (reach ops) with
    | Ok _ => True
    | Err e => e = ValueError \/
               (e = KeyError /\ exists key, branch_key (match lvl with None => path | Some l => firstn (S l) path end) = Ok key
                                            /\ has_key key (reach ops) = false)
    | Unmodelled => False
    end.
  Proof. apply revoke_refusals, reach_wf. Qed.
End DbProofs.

(* ================================================================ read-only queries and operations through identifiers
   (Model/Db.v: query / xop / xstep / xrun).  Queries leave the store alone, so a history with queries interleaved
   reaches the store of its mutating operations; an issued identifier resolves to the node stored at exactly the path
   it was issued for, in every store; removal / revocation through an issued identifier is removal / revocation of
   exactly that path. *)
Section DbQueries.
  Variable G : Type.
  Variable g_revoke : G -> G.
  Notation node := (node G).
  Notation db := (db G).
  Notation xstep := (xstep G g_revoke).
  Notation xrun := (xrun G g_revoke).
  Notation run := (run G g_revoke).
  Notation step := (step G g_revoke).

  (* a query returns the store it was asked about *)
  Lemma xstep_query_store (d : db) t q : fst (xstep d (XQuery t q)) = d.
  Proof. reflexivity. Qed.

  Lemma xstep_denote (d : db) x :
    fst (xstep d x) = match denote G x with Ok (Some o) => fst (step d o) | _ => d end.
  Proof.
    destruct x as [o|t l|t|t q]; cbn -[step]; try reflexivity.
    - destruct (step d o); reflexivity.
    - destruct (target_path t) as [p|e|]; cbn -[step]; try reflexivity. destruct (step d (ORevoke p l)); reflexivity.
    - destruct (target_path t) as [p|e|]; cbn -[step]; try reflexivity. destruct (step d (ODelete p)); reflexivity.
  Qed.

  Lemma run_app (a b : list (op G)) (d : db) : run (a ++ b) d = run b (run a d).
  Proof. unfold Db.run. apply fold_left_app. Qed.

  (* a history with queries (and operations through identifiers) reaches the store of the mutating operations it
     stands for *)
  Theorem xrun_run xs : forall d : db, xrun xs d = run (mut_ops G xs) d.
  Proof.
    induction xs as [|x xs IH]; intros d; [reflexivity|].
    change (xrun (x :: xs) d) with (xrun xs (fst (xstep d x))).
    change (mut_ops G (x :: xs)) with ((match denote G x with Ok (Some o) => [o] | _ => [] end) ++ mut_ops G xs).
    rewrite run_app, IH, xstep_denote.
    destruct (denote G x) as [[o|]|e|]; reflexivity.
  Qed.

  Lemma mut_ops_queries xs : forallb (is_query G) xs = true -> mut_ops G xs = [].
  Proof.
    induction xs as [|x xs IH]; [reflexivity|]. cbn [forallb]. intros H. apply andb_true_iff in H as [H1 H2].
    change (mut_ops G (x :: xs)) with ((match denote G x with Ok (Some o) => [o] | _ => [] end) ++ mut_ops G xs).
    rewrite (IH H2). destruct x; try discriminate. reflexivity.
  Qed.
  (* any number of queries, on any targets, in any order: the store is the one they were asked about *)
  Theorem xrun_queries xs (d : db) : forallb (is_query G) xs = true -> xrun xs d = d.
  Proof. intros H. rewrite xrun_run, (mut_ops_queries _ H). reflexivity. Qed.

  Lemma mut_ops_app a b : mut_ops G (a ++ b) = mut_ops G a ++ mut_ops G b.
  Proof. unfold mut_ops. apply flat_map_app. Qed.
  (* queries interleaved anywhere in a history do not change what the rest of the history reaches *)
  Theorem xrun_queries_between a qs b (d : db) : forallb (is_query G) qs = true -> xrun (a ++ qs ++ b) d = xrun (a ++ b) d.
  Proof. intros H. rewrite !xrun_run, !mut_ops_app, (mut_ops_queries _ H). reflexivity. Qed.

  Notation xreach xs := (xrun xs []).
  Lemma xreach_wf xs : wf G (xreach xs).
  Proof. rewrite xrun_run. apply reach_wf. Qed.

  (* ---- resolution of an issued identifier is a function of the identifier alone ---- *)
  Lemma target_issued rnd p t : p <> [] -> sid_plain rnd p = Ok t -> target_path (ById t) = Ok p.
  Proof. intros N H. cbn. eapply sid_roundtrip; eauto. Qed.
  Theorem resolve_issued rnd p t (d : db) : p <> [] -> sid_plain rnd p = Ok t -> resolve G t d = q_node G p d.
  Proof. intros N H. unfold resolve. rewrite (sid_roundtrip _ _ _ N H). reflexivity. Qed.
  (* after any history - queries included, whatever identifiers they were asked through - the identifier resolves to
     the node stored under the key of its own path in the store the mutating operations reach, or to KeyError *)
  Theorem resolve_stable rnd p t k xs : p <> [] -> sid_plain rnd p = Ok t -> branch_key p = Ok k ->
    resolve G t (xreach xs) =
    match assoc k (run (mut_ops G xs) []) with Some n => Ok (k, n) | None => Err KeyError end.
  Proof. intros N H K. rewrite (resolve_issued _ _ _ _ N H), xrun_run. unfold q_node. rewrite K. reflexivity. Qed.
  Theorem resolve_after_queries rnd p t qs (d : db) : p <> [] -> sid_plain rnd p = Ok t ->
    forallb (is_query G) qs = true -> resolve G t (xrun qs d) = q_node G p d.
  Proof. intros N H Q. rewrite (xrun_queries _ _ Q). eapply resolve_issued; eauto. Qed.
  (* two identifiers issued for different paths never resolve to the same stored node *)
  Theorem resolve_apart r1 r2 p q t1 t2 (d : db) k1 n1 k2 n2 : p <> [] -> q <> [] ->
    sid_plain r1 p = Ok t1 -> sid_plain r2 q = Ok t2 -> p <> q ->
    resolve G t1 d = Ok (k1, n1) -> resolve G t2 d = Ok (k2, n2) -> k1 <> k2.
  Proof.
    intros Np Nq H1 H2 D R1 R2. rewrite (resolve_issued _ _ _ _ Np H1) in R1. rewrite (resolve_issued _ _ _ _ Nq H2) in R2.
    unfold q_node in R1, R2. destruct (branch_key p) as [kp1| |] eqn:K1; try discriminate.
    destruct (branch_key q) as [kq| |] eqn:K2; try discriminate. cbn in R1, R2.
    destruct (assoc kp1 d); try discriminate. destruct (assoc kq d); try discriminate.
    inversion R1; inversion R2; subst. intros E. subst. apply D. eapply branch_key_injective; eauto.
  Qed.

  (* ---- removal / revocation through an issued identifier is the operation on exactly its path ---- *)
  Theorem remove_by_issued_id rnd p t : p <> [] -> sid_plain rnd p = Ok t ->
    denote G (XRemoveId (ById t)) = Ok (Some (ODelete p)).
  Proof. intros N H. cbn -[sid_path]. rewrite (sid_roundtrip _ _ _ N H). reflexivity. Qed.
  Theorem revoke_by_issued_id rnd p t l : p <> [] -> sid_plain rnd p = Ok t ->
    denote G (XRevokeId (ById t) l) = Ok (Some (ORevoke p l)).
  Proof. intros N H. cbn -[sid_path]. rewrite (sid_roundtrip _ _ _ N H). reflexivity. Qed.
  Theorem remove_by_issued_id_store rnd p t (d : db) : p <> [] -> sid_plain rnd p = Ok t ->
    fst (xstep d (XRemoveId (ById t))) = fst (step d (ODelete p)).
  Proof. intros N H. rewrite xstep_denote, (remove_by_issued_id _ _ _ N H). reflexivity. Qed.
  Theorem revoke_by_issued_id_store rnd p t l (d : db) : p <> [] -> sid_plain rnd p = Ok t ->
    fst (xstep d (XRevokeId (ById t) l)) = fst (step d (ORevoke p l)).
  Proof. intros N H. rewrite xstep_denote, (revoke_by_issued_id _ _ _ l N H). reflexivity. Qed.

  (* ---- what the answers contain ---- *)
  (* sm[sid] / get(path): the one node stored under the key of the path *)
  Theorem query_get_exact p (d : db) a : query G QGet p d = Ok a ->
    exists k n, branch_key p = Ok k /\ assoc k d = Some n /\ a = ([], [(k, n)]).
  Proof.
    cbn. unfold q_node. destruct (branch_key p) as [k| |]; try discriminate. cbn.
    destruct (assoc k d) as [n|] eqn:E; try discriminate. cbn. intros H. inversion H. eauto.
  Qed.
  Lemma in_present subs (d : db) k n : In (k, n) (present G subs d) -> In k subs /\ assoc k d = Some n.
  Proof.
    unfold present. rewrite in_flat_map. intros (s & Hs & Hi). destruct (assoc s d) as [m|] eqn:E; [|contradiction].
    destruct Hi as [Hi|[]]. inversion Hi; subst. auto.
  Qed.
  (* grants(...) on a consistent store: every node handed back is a stored Grant one level below the node asked about,
     i.e. a grant of that very (user, client) *)
  Theorem q_grants_below p ck (d : db) l : wf G d -> branch_key p = Ok ck -> q_grants G p d = Ok l ->
    forall k n, In (k, n) l -> assoc k d = Some n /\ is_grant G n = true /\
                               exists x, unpack_branch_key k = (unpack_branch_key ck ++ [x])%list.
  Proof.
    intros W K. unfold q_grants, q_subs, q_node. rewrite K. cbn.
    destruct (assoc ck d) as [[id subs r lv|g]|] eqn:E; cbn; try discriminate.
    destruct (forallb _ (present G subs d)) eqn:F; try discriminate. intros H. inversion H; subst. clear H.
    intros k n Hi. destruct (in_present _ _ _ _ Hi) as [Hs Ha]. split; [exact Ha|]. split.
    - rewrite forallb_forall in F. apply (F _ Hi).
    - destruct (wf_subordinates_stored G d W _ _ _ _ _ _ E Hs) as [_ X]. exact X.
  Qed.
  Lemma xreach_grants_below xs p ck l : branch_key p = Ok ck -> q_grants G p (xreach xs) = Ok l ->
    forall k n, In (k, n) l -> assoc k (xreach xs) = Some n /\ is_grant G n = true /\
                               exists x, unpack_branch_key k = (unpack_branch_key ck ++ [x])%list.
  Proof. apply q_grants_below, xreach_wf. Qed.
End DbQueries.
