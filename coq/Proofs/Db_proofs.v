(* Proofs/Db_proofs.v — the session tree (Model/Db.v): consistency invariant over all operation sequences,
   exact removal, frame.  G is the grant payload. *)
From Coq Require Import List Bool Arith Lia.
From Verif Require Import Lib.Base Lib.PyStr Model.Lv Proofs.Lv_proofs Model.Db.
Import ListNotations.

Section DbProofs.
  Variable G : Type.
  Variable g_revoke : G -> G.
  Notation node := (node G).
  Notation db := (db G).

  (* ---------------------------------------------------------------- association lists with unique keys *)
  Notation keys d := (List.map fst d).

  Lemma assoc_In k (d : db) n : assoc k d = Some n -> In (k, n) d.
  Proof.
    induction d as [|[k' n'] r IH]; cbn; [discriminate|]. destruct (str_eqb k k') eqn:E.
    - intros H; inversion H; subst. apply str_eqb_eq in E. subst. now left.
    - intros H. right. auto.
  Qed.
  Lemma assoc_None_keys k (d : db) : assoc k d = None <-> ~ In k (keys d).
  Proof.
    induction d as [|[k' n'] r IH]; cbn; [tauto|]. destruct (str_eqb k k') eqn:E.
    - apply str_eqb_eq in E. subst. split; [discriminate|]. intros H. exfalso. apply H. now left.
    - apply str_eqb_neq in E. rewrite IH. split; intros H; [intros [H1|H1]; [congruence|auto]|intros H1; apply H; now right].
  Qed.
  Lemma has_key_keys k (d : db) : has_key k d = true <-> In k (keys d).
  Proof.
    unfold has_key. destruct (assoc k d) eqn:E.
    - split; auto. intros _. apply assoc_In in E. apply in_map_iff. exists (k, n). auto.
    - split; [discriminate|]. intros H. apply assoc_None_keys in E. contradiction.
  Qed.
  Lemma keys_aset k (n : node) d : keys (aset k n d) = if has_key k d then keys d else keys d ++ [k].
  Proof.
    unfold has_key. induction d as [|[k' n'] r IH]; cbn; [reflexivity|]. destruct (str_eqb k k') eqn:E; cbn.
    - apply str_eqb_eq in E. now subst.
    - rewrite IH. destruct (assoc k r); reflexivity.
  Qed.
  Lemma assoc_adel_same k (d : db) : NoDup (keys d) -> assoc k (adel k d) = None.
  Proof.
    induction d as [|[k' n'] r IH]; cbn; auto. intros H. inversion H as [|? ? Hn Hr]; subst.
    destruct (str_eqb k k') eqn:E.
    - apply str_eqb_eq in E. subst. now apply assoc_None_keys.
    - cbn. rewrite E. auto.
  Qed.
  Lemma assoc_adel_other k k' (d : db) : k <> k' -> assoc k' (adel k d) = assoc k' d.
  Proof.
    intros N. induction d as [|[k2 n2] r IH]; cbn; auto. destruct (str_eqb k k2) eqn:E.
    - apply str_eqb_eq in E. subst. assert (str_eqb k' k2 = false) as -> by (apply str_eqb_neq; congruence). reflexivity.
    - cbn. destruct (str_eqb k' k2); auto.
  Qed.
  Lemma keys_adel k (d : db) x : In x (keys (adel k d)) -> In x (keys d).
  Proof.
    induction d as [|[k2 n2] r IH]; cbn; auto. destruct (str_eqb k k2); cbn; intros H; auto. destruct H; auto.
  Qed.
  Lemma nodup_adel k (d : db) : NoDup (keys d) -> NoDup (keys (adel k d)).
  Proof.
    induction d as [|[k2 n2] r IH]; cbn; auto. intros H. inversion H as [|? ? Hn Hr]; subst.
    destruct (str_eqb k k2); cbn; auto. constructor; auto. intros Hi. apply Hn. eapply keys_adel; eauto.
  Qed.
  Lemma nodup_snoc {A} (l : list A) x : NoDup l -> ~ In x l -> NoDup (l ++ [x]).
  Proof.
    induction l as [|y r IH]; cbn; intros H Hn; [constructor; [intros []|constructor]|].
    inversion H; subst. constructor.
    - intros Hi. apply in_app_or in Hi as [Hi|[<-|[]]]; [contradiction|]. apply Hn. now left.
    - apply IH; auto.
  Qed.
  Lemma nodup_aset k (n : node) d : NoDup (keys d) -> NoDup (keys (aset k n d)).
  Proof.
    intros H. rewrite keys_aset. destruct (has_key k d) eqn:E; auto.
    apply nodup_snoc; auto. intros Hi. apply has_key_keys in Hi. congruence.
  Qed.

  (* ---------------------------------------------------------------- keys and paths *)
  Lemma removelast_snoc {A} (p : list A) x : removelast (p ++ [x]) = p.
  Proof. apply removelast_last. Qed.
  Lemma forallb_removelast {A} (f : A -> bool) l : forallb f l = true -> forallb f (removelast l) = true.
  Proof.
    induction l as [|x r IH]; cbn; auto. intros H. apply andb_true_iff in H as [H1 H2].
    destruct r; cbn; auto. cbn in IH. rewrite H1. cbn. apply IH. exact H2.
  Qed.

  (* a valid key and its path determine each other *)
  Definition kp (k : pystr) : list pystr := unpack_branch_key k.
  Lemma bk_kp p k : branch_key p = Ok k -> p <> [] -> kp k = p.
  Proof. intros H N. unfold kp. eapply branch_key_roundtrip; eauto. Qed.
  Lemma bk_inj p q k : branch_key p = Ok k -> branch_key q = Ok k -> p <> [] -> q <> [] -> p = q.
  Proof. intros. eapply branch_key_injective; eauto. Qed.
  (* every prefix of a valid path is valid *)
  Lemma bk_prefix p x k : branch_key (p ++ [x]) = Ok k -> exists pk, branch_key p = Ok pk.
  Proof.
    unfold branch_key. rewrite removelast_snoc.
    destruct (forallb (fun y => negb (last_is semi y)) p) eqn:E1; cbn [negb]; [|discriminate].
    destruct (forallb (no_cc semi semi) (p ++ [x])) eqn:E2; cbn [negb]; [|discriminate].
    intros _. rewrite forallb_app in E2. apply andb_true_iff in E2 as [E2 _].
    rewrite (forallb_removelast _ _ E1), E2. cbn. eauto.
  Qed.

  (* ---------------------------------------------------------------- the consistency invariant *)
  Definition child_of (s k : pystr) : Prop := exists x, kp s = kp k ++ [x].
  Definition node_ok (d : db) (k : pystr) (n : node) : Prop :=
    branch_key (kp k) = Ok k /\
    match n with
    | NGrant _ => length (kp k) = 3%nat
    | NInfo _ subs _ _ => (length (kp k) <= 2)%nat /\ NoDup subs /\ forall s, In s subs -> child_of s k /\ has_key s d = true
    end.
  (* keys are unique; every node sits at the key of its own path, grants are leaves at depth 3, every listed
     subordinate is a stored one-level extension; every stored non-root node is listed by its stored parent *)
  Definition wf (d : db) : Prop :=
    NoDup (keys d) /\
    (forall k n, assoc k d = Some n -> node_ok d k n) /\
    (forall k p x, has_key k d = true -> kp k = p ++ [x] -> p <> [] ->
       exists pk id subs r l, branch_key p = Ok pk /\ assoc pk d = Some (NInfo id subs r l) /\ In k subs).

  Lemma wf_empty : wf [].
  Proof. split; [constructor|]. split; [intros k n H; discriminate|intros k p x H; discriminate]. Qed.

  Lemma assoc_aset_eq k (n : node) d k' : assoc k' (aset k n d) = if str_eqb k' k then Some n else assoc k' d.
  Proof.
    destruct (str_eqb k' k) eqn:E.
    - apply str_eqb_eq in E. subst. apply assoc_aset_same.
    - apply str_eqb_neq in E. apply assoc_aset_other. congruence.
  Qed.
  Lemma has_key_aset k (n : node) d k' : has_key k' (aset k n d) = str_eqb k' k || has_key k' d.
  Proof. unfold has_key. rewrite assoc_aset_eq. destruct (str_eqb k' k); reflexivity. Qed.

  (* replacing the payload of a node without touching its subordinate list keeps the invariant *)
  Definition same_subs (n n' : node) : Prop :=
    match n, n' with
    | NGrant _, NGrant _ => True
    | NInfo _ s _ _, NInfo _ s' _ _ => s = s'
    | _, _ => False
    end.
  Lemma wf_aset_same_subs d k n n' : wf d -> assoc k d = Some n -> same_subs n n' -> wf (aset k n' d).
  Proof.
    intros (W1&W2&W3) Hk Hs. split; [now apply nodup_aset|]. split.
    - intros k1 n1 H1. rewrite assoc_aset_eq in H1. destruct (str_eqb k1 k) eqn:E.
      + apply str_eqb_eq in E. subst k1. inversion H1; subst n1. destruct (W2 _ _ Hk) as (A&B). split; auto.
        destruct n, n'; cbn in Hs; try contradiction; auto. subst. destruct B as (B1&B2&B3). repeat split; auto.
        * apply B3; auto.
        * rewrite has_key_aset. destruct (B3 _ H) as (_&Hh). rewrite Hh. apply orb_true_r.
      + destruct (W2 _ _ H1) as (A&B). split; auto. destruct n1; auto. destruct B as (B1&B2&B3). repeat split; auto.
        * apply B3; auto.
        * rewrite has_key_aset. destruct (B3 _ H) as (_&Hh). rewrite Hh. apply orb_true_r.
    - intros k1 p x Hh Hp Hne. rewrite has_key_aset in Hh.
      assert (Hh' : has_key k1 d = true).
      { destruct (str_eqb k1 k) eqn:E; auto. apply str_eqb_eq in E. subst. unfold has_key. now rewrite Hk. }
      destruct (W3 _ _ _ Hh' Hp Hne) as (pk&id&subs&r&l&A&B&C).
      destruct (str_eqb pk k) eqn:E.
      + apply str_eqb_eq in E. subst pk. rewrite Hk in B. inversion B; subst n. destruct n'; cbn in Hs; [|contradiction]. subst.
        exists k, id0, subs0, revoked, level. repeat split; auto. apply assoc_aset_same.
      + exists pk, id, subs, r, l. repeat split; auto. rewrite assoc_aset_eq, E. exact B.
  Qed.

  (* ---------------------------------------------------------------- revocation keeps the tree *)
  Lemma revoke_tree_wf fuel : forall key d d', wf d -> revoke_tree G g_revoke fuel key d = Ok d' -> wf d'.
  Proof.
    induction fuel as [|f IH]; intros key d d' W H; cbn [revoke_tree] in H; [discriminate|].
    destruct (assoc key d) as [[id subs r l|g]|] eqn:Ek; try discriminate.
    - set (d1 := aset key (NInfo id subs true l) d) in *.
      assert (W1 : wf d1) by (eapply wf_aset_same_subs; eauto; reflexivity).
      clearbody d1. clear Ek W. revert d1 d' W1 H. induction subs as [|s rest IHs]; intros d1 d' W1 H.
      + inversion H; subst; auto.
      + destruct (revoke_tree G g_revoke f s d1) as [d2| |] eqn:E; cbn [bind] in H; try discriminate.
        eapply IHs; [|exact H]. eapply IH; eauto.
    - inversion H; subst. eapply wf_aset_same_subs; eauto. reflexivity.
  Qed.
  Lemma revoke_sub_tree_wf path lvl d d' : wf d -> revoke_sub_tree G g_revoke path lvl d = Ok d' -> wf d'.
  Proof.
    unfold revoke_sub_tree. intros W H. destruct lvl as [l|].
    - destruct (Nat.ltb (length path) l); [discriminate|].
      destruct (branch_key (firstn (S l) path)) as [k| |]; cbn [bind] in H; try discriminate. eapply revoke_tree_wf; eauto.
    - destruct (branch_key path) as [k| |]; cbn [bind] in H; try discriminate. eapply revoke_tree_wf; eauto.
  Qed.

  (* ---------------------------------------------------------------- inserting nodes *)
  Definition fresh_node (depth : nat) (n : node) : Prop :=
    match n with NGrant _ => depth = 3%nat | NInfo _ s _ _ => s = [] /\ (depth <= 2)%nat end.
  Definition fits (d : db) (key : pystr) (depth : nat) (info : node) : Prop :=
    match assoc key d with Some n => same_subs n info | None => fresh_node depth info end.

  Lemma kp_length_pos k p : branch_key p = Ok k -> p <> [] -> length (kp k) = length p.
  Proof. intros H N. now rewrite (bk_kp _ _ H N). Qed.

  (* adding a node that nobody lists yet is only sound for roots *)
  Lemma wf_root d x key info :
    wf d -> branch_key [x] = Ok key -> fits d key 1 info -> wf (aset key info d).
  Proof.
    intros W Hk Hf. unfold fits in Hf. destruct (assoc key d) as [n|] eqn:Ea; [eapply wf_aset_same_subs; eauto|].
    destruct W as (W1&W2&W3). assert (Hkp : kp key = [x]) by (apply bk_kp; [auto|discriminate]).
    split; [now apply nodup_aset|]. split.
    - intros k1 n1 H1. rewrite assoc_aset_eq in H1. destruct (str_eqb k1 key) eqn:E.
      + apply str_eqb_eq in E. subst k1. inversion H1; subst n1. split; [now rewrite Hkp|].
        destruct info as [id subs r l|g]; cbn in Hf.
        * destruct Hf as (->&_). rewrite Hkp. cbn. repeat split; auto; try constructor; try (intros s []); try (destruct H); lia.
        * discriminate.
      + destruct (W2 _ _ H1) as (A&B). split; auto. destruct n1; auto. destruct B as (B1&B2&B3). repeat split; auto.
        * apply B3; auto.
        * rewrite has_key_aset. destruct (B3 _ H) as (_&Hh). rewrite Hh. apply orb_true_r.
    - intros k1 p y Hh Hp Hne. rewrite has_key_aset in Hh. destruct (str_eqb k1 key) eqn:E.
      + apply str_eqb_eq in E. subst k1. rewrite Hkp in Hp. exfalso. apply (f_equal (@length pystr)) in Hp.
        rewrite app_length in Hp. cbn in Hp. destruct p; [congruence|cbn in Hp; lia].
      + cbn in Hh. destruct (W3 _ _ _ Hh Hp Hne) as (pk&id&subs&r&l&A&B&C).
        exists pk, id, subs, r, l. repeat split; auto. rewrite assoc_aset_eq.
        destruct (str_eqb pk key) eqn:E2; auto. apply str_eqb_eq in E2. subst. congruence.
  Qed.

  Lemma has_key_mono k (n : node) d k' : has_key k' d = true -> has_key k' (aset k n d) = true.
  Proof. intros H. rewrite has_key_aset, H. apply orb_true_r. Qed.

  (* linking a child below a stored inner node *)
  Lemma wf_link d pre x pk key id subs rv l info :
    wf d -> pre <> [] -> branch_key pre = Ok pk -> branch_key (pre ++ [x]) = Ok key ->
    assoc pk d = Some (NInfo id subs rv l) -> fits d key (S (length pre)) info ->
    wf (aset key info (if str_in key subs then d else aset pk (NInfo id (subs ++ [key]) rv l) d)).
  Proof.
    intros W Hne Hpk Hkey Hp Hf.
    assert (Kpk : kp pk = pre) by (now apply bk_kp).
    assert (Kkey : kp key = pre ++ [x]) by (apply bk_kp; [auto|destruct pre; discriminate]).
    assert (Nkey : key <> pk).
    { intros ->. rewrite Kpk in Kkey. apply (f_equal (@length pystr)) in Kkey. rewrite app_length in Kkey. cbn in Kkey. lia. }
    pose proof W as (W1&W2&W3).
    destruct (str_in key subs) eqn:Es.
    - (* already linked: the child is stored *)
      apply str_in_In in Es. destruct (W2 _ _ Hp) as (_&_&_&B3). destruct (B3 _ Es) as (_&Hh).
      unfold has_key in Hh. unfold fits in Hf. destruct (assoc key d) as [n|] eqn:Ea; [|discriminate].
      eapply wf_aset_same_subs; eauto.
    - (* a new child: it can not be stored yet (its parent would list it) *)
      assert (Hn : ~ In key subs) by (intros Hi; apply str_in_In in Hi; congruence).
      assert (Ea : assoc key d = None).
      { destruct (assoc key d) as [n|] eqn:Ea; auto. exfalso.
        assert (Hh : has_key key d = true) by (unfold has_key; now rewrite Ea).
        destruct (W3 _ _ _ Hh Kkey Hne) as (pk'&id'&subs'&r'&l'&A&B&C). rewrite Hpk in A. inversion A; subst pk'.
        rewrite Hp in B. inversion B; subst. contradiction. }
      unfold fits in Hf. rewrite Ea in Hf.
      set (d1 := aset pk (NInfo id (subs ++ [key]) rv l) d).
      assert (A1 : forall k, assoc k (aset key info d1) =
                             if str_eqb k key then Some info else if str_eqb k pk then Some (NInfo id (subs ++ [key]) rv l) else assoc k d).
      { intros k. unfold d1. now rewrite !assoc_aset_eq. }
      assert (H1 : forall k, has_key k d = true -> has_key k (aset key info d1) = true).
      { intros k H. unfold d1. now apply has_key_mono, has_key_mono. }
      split; [unfold d1; now apply nodup_aset, nodup_aset|]. split.
      + intros k1 n1 Hk1. rewrite A1 in Hk1. destruct (str_eqb k1 key) eqn:E1.
        * apply str_eqb_eq in E1. subst k1. inversion Hk1; subst n1. split; [now rewrite Kkey|]. rewrite Kkey, app_length. cbn.
          destruct info as [id0 s0 r0 l0|g]; cbn in Hf.
          -- destruct Hf as (->&Hd). split; [lia|]. split; [constructor|]. intros s1 Hs1. destruct Hs1.
          -- lia.
        * destruct (str_eqb k1 pk) eqn:E2.
          -- apply str_eqb_eq in E2. subst k1. inversion Hk1; subst n1. destruct (W2 _ _ Hp) as (C1&C2&C3&C4). split; auto.
             repeat split; auto.
             ++ apply nodup_snoc; auto.
             ++ apply in_app_or in H as [H|[<-|[]]]; [apply C4; auto|]. exists x. now rewrite Kkey, Kpk.
             ++ apply in_app_or in H as [H|[<-|[]]]; [apply H1; apply C4; auto|]. rewrite has_key_aset, str_eqb_refl. reflexivity.
          -- destruct (W2 _ _ Hk1) as (C1&C2). split; auto. destruct n1; auto. destruct C2 as (C2&C3&C4). repeat split; auto.
             ++ apply C4; auto.
             ++ apply H1. apply C4; auto.
      + intros k1 p y Hh Hkp Hpne. destruct (str_eqb k1 key) eqn:E1.
        * apply str_eqb_eq in E1. subst k1. rewrite Kkey in Hkp. apply app_inj_tail in Hkp as (<-&<-).
          exists pk, id, (subs ++ [key]), rv, l. repeat split; auto.
          -- rewrite A1. assert (str_eqb pk key = false) as -> by (apply str_eqb_neq; congruence). now rewrite str_eqb_refl.
          -- apply in_or_app. right. now left.
        * assert (Hh0 : has_key k1 d = true).
          { unfold d1 in Hh. rewrite !has_key_aset, E1 in Hh. cbn in Hh. destruct (str_eqb k1 pk) eqn:E2; auto.
            apply str_eqb_eq in E2. subst. unfold has_key. now rewrite Hp. }
          destruct (W3 _ _ _ Hh0 Hkp Hpne) as (pk1&id1&subs1&r1&l1&A&B&C).
          destruct (str_eqb pk1 pk) eqn:E3.
          -- apply str_eqb_eq in E3. subst pk1. rewrite Hp in B. inversion B; subst.
             exists pk, id1, (subs1 ++ [key]), r1, l1. repeat split; auto.
             ++ rewrite A1. assert (str_eqb pk key = false) as -> by (apply str_eqb_neq; congruence). now rewrite str_eqb_refl.
             ++ apply in_or_app. now left.
          -- exists pk1, id1, subs1, r1, l1. repeat split; auto. rewrite A1, E3.
             assert (str_eqb pk1 key = false) as -> by (apply str_eqb_neq; intros ->; congruence). exact B.
  Qed.

  Lemma same_subs_refl n : same_subs n n.
  Proof. destruct n; cbn; auto. Qed.

  (* ---------------------------------------------------------------- Database.set *)
  Definition sup_ok (pre : list pystr) (sup : option pystr) (d : db) : Prop :=
    match pre with
    | [] => sup = None
    | _ => exists pk id subs rv l, branch_key pre = Ok pk /\ sup = Some pk /\ assoc pk d = Some (NInfo id subs rv l)
    end.

  Lemma sup_ok_intro p pk id subs rv l d :
    p <> [] -> branch_key p = Ok pk -> assoc pk d = Some (NInfo id subs rv l) -> sup_ok p (Some pk) d.
  Proof. intros N H1 H2. unfold sup_ok. destruct p; [congruence|]. eauto 10. Qed.

  Lemma bk_longer_neq p q k1 k2 : branch_key p = Ok k1 -> branch_key q = Ok k2 -> p <> [] -> q <> [] -> length p <> length q -> k1 <> k2.
  Proof. intros H1 H2 N1 N2 L ->. apply L. f_equal. eapply bk_inj; eauto. Qed.

  Lemma set_loop_wf rest : forall pre value sup d d' r,
    wf d -> (rest <> [] -> sup_ok pre sup d) -> (length pre + length rest <= 3)%nat ->
    fresh_node (length pre + length rest) value ->
    (forall kf n, branch_key (pre ++ rest) = Ok kf -> assoc kf d = Some n -> same_subs n value) ->
    set_loop G pre rest value sup d = (d', r) -> wf d'.
  Proof.
    induction rest as [|x rest' IH]; intros pre value sup d d' r W Hsup Hlen Hfresh Hfull H; cbn [set_loop] in H.
    - inversion H; subst; auto.
    - specialize (Hsup ltac:(discriminate)).
      destruct (branch_key (pre ++ [x])) as [key| |] eqn:Ek; try (inversion H; subst; auto; fail).
      assert (Npx : pre ++ [x] <> []) by (destruct pre; discriminate).
      assert (Kkey : kp key = pre ++ [x]) by (now apply bk_kp).
      set (last := match rest' with [] => true | _ => false end) in *.
      set (info := match assoc key d with
                   | None => if last then value else NInfo x [] false (length pre)
                   | Some n => if last then value else n end) in *.
      assert (Hfit : fits d key (S (length pre)) info).
      { unfold fits, info. destruct (assoc key d) as [n|] eqn:Ea.
        - destruct last eqn:El; [|apply same_subs_refl].
          destruct rest'; [|discriminate]. eapply Hfull; eauto.
        - destruct last eqn:El.
          + destruct rest'; [|discriminate]. cbn in Hfresh. now rewrite Nat.add_1_r in Hfresh.
          + destruct rest'; [discriminate|]. cbn in Hlen. cbn. split; auto. lia. }
      (* when more levels follow, the node written here is an inner node *)
      assert (Hinner : rest' <> [] -> exists id subs rv l, info = NInfo id subs rv l).
      { intros Hr. unfold info. assert (last = false) as -> by (unfold last; destruct rest'; congruence).
        destruct (assoc key d) as [n|] eqn:Ea; [|eauto].
        destruct W as (_&W2&_). destruct (W2 _ _ Ea) as (_&B). destruct n as [id subs rv l|g]; [eauto|].
        rewrite Kkey, app_length in B. cbn in B, Hlen. destruct rest'; [congruence|]. cbn in Hlen. lia. }
      (* the database after this level *)
      assert (Hnext : exists d1, (match sup with Some sk => add_sub G sk key d | None => Ok d end) = Ok d1 /\
                                 wf (aset key info d1) /\
                                 (forall k, k <> key -> (forall pk, sup = Some pk -> k <> pk) -> assoc k (aset key info d1) = assoc k d)).
      { destruct pre as [|p0 pre0] eqn:Epre.
        - cbn in Hsup. subst sup. exists d. split; auto. split; [eapply wf_root; eauto|].
          intros k Hk _. rewrite assoc_aset_eq. apply str_eqb_neq in Hk. now rewrite Hk.
        - destruct Hsup as (pk&id&subs&rv&l&Hpk&->&Hp). unfold add_sub. rewrite Hp.
          pose proof (wf_link d (p0 :: pre0) x pk key id subs rv l info W ltac:(discriminate) Hpk Ek Hp Hfit) as Wl.
          destruct (str_in key subs); eexists; (split; [reflexivity|]); (split; [exact Wl|]).
          + intros k Hk _. rewrite assoc_aset_eq. apply str_eqb_neq in Hk. now rewrite Hk.
          + intros k Hk Hk2. rewrite !assoc_aset_eq. apply str_eqb_neq in Hk. rewrite Hk.
            specialize (Hk2 _ eq_refl). apply str_eqb_neq in Hk2. now rewrite Hk2. }
      destruct Hnext as (d1&Hr&W1&Hframe). rewrite Hr in H.
      eapply IH; [exact W1| | | | |exact H].
      + intros Hr'. destruct (Hinner Hr') as (id&subs&rv&l&Ei).
        eapply sup_ok_intro; eauto. rewrite assoc_aset_same. now rewrite Ei.
      + rewrite app_length. cbn in *. lia.
      + rewrite app_length. cbn in *. now rewrite <- Nat.add_assoc.
      + intros kf n Hkf Hn. rewrite <- app_assoc in Hkf. cbn in Hkf.
        destruct rest' as [|y rest''].
        * (* this was the last level: kf = key and the stored node is info = value *)
          rewrite Ek in Hkf. inversion Hkf; subst kf. rewrite assoc_aset_same in Hn. inversion Hn; subst n.
          unfold info, last. destruct (assoc key d); apply same_subs_refl.
        * (* deeper key: untouched so far *)
          assert (Nf : pre ++ x :: y :: rest'' <> []) by (destruct pre; discriminate).
          assert (kf <> key).
          { eapply bk_longer_neq; eauto. rewrite !app_length. cbn. lia. }
          rewrite Hframe in Hn; auto.
          -- eapply Hfull; eauto.
          -- intros pk ->. destruct pre as [|p0 pre0]; [cbn in Hsup; discriminate|].
             destruct Hsup as (pk'&_&_&_&_&Hpk&Epk&_). inversion Epk; subst pk'.
             eapply bk_longer_neq; eauto; [discriminate|]. rewrite !app_length. cbn. lia.
  Qed.

  Lemma db_set_wf path value d d' r :
    wf d -> (length path <= 3)%nat -> fresh_node (length path) value ->
    (forall kf n, branch_key path = Ok kf -> assoc kf d = Some n -> same_subs n value) ->
    db_set G path value d = (d', r) -> wf d'.
  Proof.
    intros W L F Hf H. unfold db_set in H.
    eapply (set_loop_wf path [] value None d d' r); auto.
    intros _. reflexivity.
  Qed.

  Lemma setup_loop_wf rest : forall pre d d' r,
    wf d -> (length pre + length rest <= 2)%nat -> setup_loop G pre rest d = (d', r) -> wf d'.
  Proof.
    induction rest as [|x rest' IH]; intros pre d d' r W L H; cbn [setup_loop] in H.
    - inversion H; subst; auto.
    - assert (L' : (length (pre ++ [x]) + length rest' <= 2)%nat) by (rewrite app_length; cbn in *; lia).
      assert (SET : (forall k n, branch_key (pre ++ [x]) = Ok k -> assoc k d = Some n -> False) ->
                    (let (d1, e) := db_set G (pre ++ [x]) (NInfo x [] false (length pre)) d in
                     match e with Ok _ => setup_loop G (pre ++ [x]) rest' d1 | _ => (d1, e) end) = (d', r) -> wf d').
      { intros NK H'. destruct (db_set G (pre ++ [x]) (NInfo x [] false (length pre)) d) as [d1 r1] eqn:Es.
        assert (W1 : wf d1).
        { eapply db_set_wf; [exact W| | | |exact Es].
          - rewrite app_length. cbn in *. lia.
          - cbn. split; auto. rewrite app_length. cbn in *. lia.
          - intros kf n Hk Hn. exfalso. eapply NK; eauto. }
        destruct r1 as [[]|e1|]; [eapply IH; eauto| |]; injection H' as <- <-; exact W1. }
      unfold db_get in H. destruct (branch_key (pre ++ [x])) as [k|e|] eqn:Ek; cbn [bind] in H.
      + destruct (assoc k d) as [n|] eqn:Ea; cbn in H.
        * eapply IH; eauto.
        * apply SET; auto. intros k0 n0 Hk Hn. inversion Hk; subst. congruence.
      + cbn in H. destruct e; cbn in H; try (inversion H; subst; auto; fail).
        apply SET; auto. intros k0 n0 Hk. discriminate.
      + cbn in H. inversion H; subst; auto.
  Qed.

  Lemma add_grant_wf u c gid g d d' r : wf d -> add_grant G [u; c] gid g d = (d', r) -> wf d'.
  Proof.
    intros W H. unfold add_grant, setup_branch in H.
    destruct (setup_loop G [] [u; c] d) as [d1 r1] eqn:E1.
    assert (W1 : wf d1) by (eapply (setup_loop_wf [u; c] []); [exact W|cbn; lia|exact E1]).
    destruct r1 as [[]| |]; try (inversion H; subst; auto; fail).
    eapply db_set_wf; [exact W1| | | |exact H]; cbn; auto.
    intros kf n Hk Hn. destruct W1 as (_&W2&_). destruct (W2 _ _ Hn) as (_&B).
    assert (Kk : kp kf = [u; c; gid]) by (apply bk_kp; [auto|discriminate]).
    destruct n as [id subs rv l|g0]; cbn; auto. rewrite Kk in B. cbn in B. lia.
  Qed.
End DbProofs.
