(* Proofs/Delivery_proofs.v — what arrives is what was issued: query / fragment placement
   (Message.request + urlencode) and the form_post page (Model/Delivery.v). *)
From Coq Require Import String.
From Verif Require Import Lib.Base Lib.PyStr Lib.Urlenc Lib.Html Model.Uri Model.Delivery Proofs.Html_proofs Proofs.Uri_proofs.
Open Scope N_scope.

(* ------------------------------------------------------------------ form_post page reads back *)
Lemma in_b_eq : in_b = 34 :: PS " value="""%string. Proof. reflexivity. Qed.
Lemma in_c_eq : in_c = 34 :: PS "/>"%string. Proof. reflexivity. Qed.
Lemma page_b_eq : page_b = 34 :: (PS ">"%string ++ nl ++ PS "        "%string). Proof. reflexivity. Qed.

Lemma read_input_elem kv rest : read_input (input_elem kv ++ rest) = Some (kv, rest).
Proof.
  destruct kv as [k v]. unfold input_elem, read_input. cbn [fst snd].
  rewrite <- !app_assoc. rewrite strip_prefix_app.
  rewrite in_b_eq. cbn [app]. rewrite read_attr_escape.
  rewrite strip_prefix_app.
  rewrite in_c_eq. cbn [app]. rewrite read_attr_escape.
  change (PS "/>"%string ++ rest) with (PS "/>"%string ++ rest). rewrite strip_prefix_app. reflexivity.
Qed.

Lemma input_elem_head kv : exists t, input_elem kv = 60 :: t.
Proof. destruct kv. unfold input_elem. cbn. eexists. reflexivity. Qed.
Lemma page_c_head : exists t, page_c = 10 :: 32 :: t.
Proof. eexists. reflexivity. Qed.

Lemma inputs_cons2 a b r : inputs (a :: b :: r) = input_elem a ++ 10 :: inputs (b :: r).
Proof. reflexivity. Qed.
Lemma inputs_head a r : exists t, inputs (a :: r) = 60 :: t.
Proof.
  destruct r as [|b r].
  - cbn. apply input_elem_head.
  - rewrite inputs_cons2. destruct (input_elem_head a) as [t ->]. cbn. eexists. reflexivity.
Qed.

Lemma read_inputs_ok l : forall fuel, (length l < fuel)%nat -> read_inputs fuel (inputs l ++ page_c) = Some l.
Proof.
  induction l as [|a l IH]; intros fuel Hf.
  - destruct fuel as [|f]; [lia|]. cbn [inputs List.map join app read_inputs]. now rewrite str_eqb_refl.
  - destruct fuel as [|f]; [lia|]. cbn [length] in Hf.
    destruct l as [|b r].
    + cbn [inputs List.map join]. cbn [read_inputs].
      assert (str_eqb (input_elem a ++ page_c) page_c = false) as ->.
      { destruct (input_elem_head a) as [t ->]. destruct page_c_head as [u ->]. reflexivity. }
      rewrite read_input_elem. now rewrite str_eqb_refl.
    + rewrite inputs_cons2. rewrite <- app_assoc. cbn [app]. cbn [read_inputs].
      assert (str_eqb (input_elem a ++ 10 :: inputs (b :: r) ++ page_c) page_c = false) as ->.
      { destruct (input_elem_head a) as [t ->]. destruct page_c_head as [u ->]. reflexivity. }
      rewrite read_input_elem.
      assert (str_eqb (10 :: inputs (b :: r) ++ page_c) page_c = false) as ->.
      { destruct (inputs_head b r) as [t ->]. destruct page_c_head as [u ->]. reflexivity. }
      rewrite IH by (cbn [length] in *; lia). reflexivity.
Qed.

Lemma inputs_length_ge l : (length l <= length (inputs l ++ page_c))%nat.
Proof.
  induction l as [|a l IH]; [cbn; lia|].
  destruct l as [|b r].
  - cbn [inputs List.map join length]. rewrite app_length. destruct (input_elem_head a) as [t ->]. cbn. lia.
  - rewrite inputs_cons2. rewrite <- app_assoc. rewrite app_length.
    destruct (input_elem_head a) as [t ->]. cbn [length app]. cbn [length] in IH. lia.
Qed.

Theorem read_page_form_page action l : read_page (form_page action l) = Some (action, l).
Proof.
  unfold form_page, read_page. rewrite strip_prefix_app.
  rewrite page_b_eq. cbn [app]. rewrite read_attr_escape.
  rewrite <- !app_assoc. rewrite (app_assoc (PS ">"%string) nl). rewrite <- app_assoc.
  rewrite !app_assoc. rewrite <- (app_assoc _ (inputs l) page_c).
  rewrite strip_prefix_app.
  rewrite read_inputs_ok; [reflexivity|]. pose proof (inputs_length_ge l). lia.
Qed.

(* every request-supplied text of the page sits inside an escaped, markup-free span *)
Theorem form_page_shape action l :
  form_page action l = page_a ++ html_escape action ++ page_b ++ inputs l ++ page_c
  /\ markup_free (html_escape action) = true
  /\ Forall (fun kv => markup_free (html_escape (fst kv)) = true /\ markup_free (html_escape (snd kv)) = true
                       /\ amp_ok (html_escape (fst kv)) = true /\ amp_ok (html_escape (snd kv)) = true) l.
Proof.
  split; [reflexivity|]. split; [apply escape_markup_free|].
  apply Forall_forall. intros kv _. repeat split; first [apply escape_markup_free | apply escape_amp_ok].
Qed.

(* ------------------------------------------------------------------ urlencode round trip on bytes *)
Definition delim (x : N) : bool := (x =? 38) || (x =? 61) || (x =? 35) || (x =? 63).
Lemma quote_no sep s : is_bytes s -> delim sep = true -> no_c sep (quote_plus s) = true.
Proof.
  intros Hs Hd. pose proof (quote_delim_free s Hs) as H. unfold no_c.
  rewrite forallb_forall in H. apply forallb_forall. intros x Hx. specialize (H x Hx).
  apply negb_true_iff in H. apply negb_true_iff. apply N.eqb_neq. intros ->.
  unfold delim in Hd. now rewrite Hd in H.
Qed.

Definition enc (kv : bytes * bytes) : bytes := quote_plus (fst kv) ++ 61 :: quote_plus (snd kv).
Definition pair_bytes (kv : bytes * bytes) : Prop := is_bytes (fst kv) /\ is_bytes (snd kv).

Lemma no_c_app sep a b : no_c sep (a ++ b) = no_c sep a && no_c sep b.
Proof. unfold no_c. apply forallb_app. Qed.

Lemma no_c_cons sep c s : no_c sep (c :: s) = negb (c =? sep) && no_c sep s.
Proof. reflexivity. Qed.

Lemma enc_no_amp kv : pair_bytes kv -> no_c 38 (enc kv) = true.
Proof.
  intros [Hk Hv]. unfold enc. rewrite no_c_app. rewrite (quote_no 38 _ Hk eq_refl). cbn.
  apply (quote_no 38 _ Hv eq_refl).
Qed.

Lemma qsl_fields_b_cons_ne f r : f <> [] ->
  qsl_fields_b (f :: r) = match split1_c 61 f with
                          | Some (n, v) => (unquote_plus n, unquote_plus v) :: qsl_fields_b r
                          | None => (unquote_plus f, []) :: qsl_fields_b r
                          end.
Proof. destruct f; [congruence|reflexivity]. Qed.

Lemma qsl_fields_b_enc l : Forall pair_bytes l -> qsl_fields_b (List.map enc l) = l.
Proof.
  induction 1 as [|[k v] l [Hk Hv] _ IH]; [reflexivity|]. cbn [List.map].
  rewrite qsl_fields_b_cons_ne by (unfold enc; cbn [fst snd]; destruct (quote_plus k); discriminate).
  unfold enc at 1. cbn [fst snd] in *.
  rewrite (split1_c_digits 61 (quote_plus k) (quote_plus v)) by (apply (quote_no 61 _ Hk eq_refl)).
  rewrite !unquote_quote by assumption. now rewrite IH.
Qed.

Lemma urlencode_b_nonempty kv l : urlencode_b (kv :: l) <> [].
Proof.
  unfold urlencode_b. cbn [List.map]. destruct (List.map _ l).
  - cbn. destruct (quote_plus (fst kv)); discriminate.
  - cbn. destruct (quote_plus (fst kv)); discriminate.
Qed.

Theorem parse_urlencode_b l : Forall pair_bytes l -> parse_qsl_b (urlencode_b l) = l.
Proof.
  intros H. destruct l as [|kv l]; [reflexivity|].
  unfold parse_qsl_b. pose proof (urlencode_b_nonempty kv l) as Hne.
  destruct (urlencode_b (kv :: l)) as [|x t] eqn:E; [congruence|]. rewrite <- E.
  unfold urlencode_b. fold enc.
  change (fun kv0 : bytes * bytes => quote_plus (fst kv0) ++ 61 :: quote_plus (snd kv0)) with enc.
  rewrite split_c_join.
  - now apply qsl_fields_b_enc.
  - discriminate.
  - apply forallb_forall. intros f Hf. apply in_map_iff in Hf as [kv' [<- Hin]].
    apply enc_no_amp. rewrite Forall_forall in H. now apply H.
Qed.

(* no delimiter of the URL syntax inside the encoded parameters *)
Lemma urlencode_b_no sep l : Forall pair_bytes l -> sep = 35 \/ sep = 63 -> no_c sep (urlencode_b l) = true.
Proof.
  intros H Hs. unfold urlencode_b.
  induction H as [|[k v] l [Hk Hv] Hl IH]; [reflexivity|].
  assert (Hd : delim sep = true) by (destruct Hs as [-> | ->]; reflexivity).
  assert (Hn : negb (61 =? sep) = true) by (destruct Hs as [-> | ->]; reflexivity).
  assert (Hn2 : negb (38 =? sep) = true) by (destruct Hs as [-> | ->]; reflexivity).
  cbn [List.map fst snd] in *.
  assert (He : no_c sep (quote_plus k ++ 61 :: quote_plus v) = true).
  { rewrite no_c_app, (quote_no sep _ Hk Hd), no_c_cons, Hn. apply (quote_no sep _ Hv Hd). }
  destruct (List.map (fun kv0 : bytes * bytes => quote_plus (fst kv0) ++ 61 :: quote_plus (snd kv0)) l) as [|y r] eqn:E.
  - cbn. exact He.
  - change (join [38] ((quote_plus k ++ 61 :: quote_plus v) :: y :: r))
      with ((quote_plus k ++ 61 :: quote_plus v) ++ [38] ++ join [38] (y :: r)).
    rewrite no_c_app, He. change ([38] ++ join [38] (y :: r)) with (38 :: join [38] (y :: r)).
    rewrite no_c_cons, Hn2. exact IH.
Qed.

(* ------------------------------------------------------------------ placement *)
Definition has (c : N) (s : pystr) : bool := existsb (fun x => x =? c) s.
Lemma has_no c s : has c s = false -> no_c c s = true.
Proof.
  unfold has, no_c. intros H. apply forallb_forall. intros x Hx. apply negb_true_iff.
  destruct (x =? c) eqn:E; [|reflexivity].
  assert (existsb (fun x0 => x0 =? c) s = true) by (apply existsb_exists; eauto). congruence.
Qed.

(* query placement on a redirect URI without query and without fragment delimiter *)
Theorem place_query_plain loc l :
  Forall pair_bytes l -> l <> [] -> has 63 loc = false -> has 35 loc = false ->
  place loc (urlencode_b l) false = loc ++ 63 :: urlencode_b l
  /\ split1_c 63 (place loc (urlencode_b l) false) = Some (loc, urlencode_b l)
  /\ no_c 35 (place loc (urlencode_b l) false) = true
  /\ parse_qsl_b (urlencode_b l) = l.
Proof.
  intros Hl Hne Hq Hh. destruct l as [|kv l]; [congruence|].
  pose proof (urlencode_b_nonempty kv l) as Hn.
  assert (E : place loc (urlencode_b (kv :: l)) false = loc ++ 63 :: urlencode_b (kv :: l)).
  { unfold place. destruct (urlencode_b (kv :: l)); [congruence|]. unfold has in Hq. now rewrite Hq. }
  rewrite E. repeat split.
  - apply split1_c_digits. now apply has_no.
  - rewrite no_c_app, (has_no _ _ Hh), no_c_cons. rewrite urlencode_b_no by auto. reflexivity.
  - now apply parse_urlencode_b.
Qed.

(* general facts about split on one character *)
Lemma split_c_nonnil sep s : split_c sep s <> [].
Proof. induction s as [|c r IH]; cbn; [discriminate|]. destruct (c =? sep); [discriminate|]. destruct (split_c sep r); [congruence|discriminate]. Qed.
Lemma cons_hd_app c x y : x <> [] -> cons_hd c (x ++ y) = cons_hd c x ++ y.
Proof. destruct x; [congruence|reflexivity]. Qed.
Lemma split_c_sep_app sep a b : split_c sep (a ++ sep :: b) = split_c sep a ++ split_c sep b.
Proof.
  induction a as [|c r IH]; cbn.
  - now rewrite N.eqb_refl.
  - destruct (c =? sep); [now rewrite IH|]. rewrite IH. apply cons_hd_app. apply split_c_nonnil.
Qed.
Lemma qsl_fields_b_app x y : qsl_fields_b (x ++ y) = qsl_fields_b x ++ qsl_fields_b y.
Proof.
  induction x as [|f r IH]; [reflexivity|]. cbn. destruct f; [exact IH|].
  destruct (split1_c 61 (n :: f)) as [[a b]|]; cbn; now rewrite IH.
Qed.
Lemma parse_qsl_b_fields qs : parse_qsl_b qs = qsl_fields_b (split_c 38 qs).
Proof. destruct qs; reflexivity. Qed.

(* query placement on a redirect URI that carries its own (registered) query: the receiver decodes the
   registered parameters followed by exactly the issued ones *)
Theorem place_query_extend base q0 l :
  Forall pair_bytes l -> l <> [] -> has 63 base = false -> has 35 (base ++ 63 :: q0) = false ->
  let r := place (base ++ 63 :: q0) (urlencode_b l) false in
  r = base ++ 63 :: (q0 ++ 38 :: urlencode_b l)
  /\ split1_c 63 r = Some (base, q0 ++ 38 :: urlencode_b l)
  /\ no_c 35 r = true
  /\ parse_qsl_b (q0 ++ 38 :: urlencode_b l) = parse_qsl_b q0 ++ l.
Proof.
  intros Hl Hne Hq Hh r. subst r. destruct l as [|kv l]; [congruence|].
  pose proof (urlencode_b_nonempty kv l) as Hn.
  assert (E : place (base ++ 63 :: q0) (urlencode_b (kv :: l)) false = base ++ 63 :: (q0 ++ 38 :: urlencode_b (kv :: l))).
  { unfold place. destruct (urlencode_b (kv :: l)) eqn:E0; [congruence|].
    assert (existsb (fun c => c =? 63) (base ++ 63 :: q0) = true) as ->.
    { rewrite existsb_app. cbn. now rewrite orb_true_r. }
    rewrite <- app_assoc. reflexivity. }
  rewrite E. repeat split.
  - apply split1_c_digits. now apply has_no.
  - replace (base ++ 63 :: q0 ++ 38 :: urlencode_b (kv :: l)) with ((base ++ 63 :: q0) ++ 38 :: urlencode_b (kv :: l))
      by (rewrite <- app_assoc; reflexivity).
    rewrite no_c_app, (has_no _ _ Hh), no_c_cons. rewrite urlencode_b_no by auto. reflexivity.
  - rewrite !parse_qsl_b_fields, split_c_sep_app, qsl_fields_b_app. f_equal.
    rewrite <- parse_qsl_b_fields. now apply parse_urlencode_b.
Qed.

(* fragment placement *)
Theorem place_fragment loc l :
  Forall pair_bytes l -> l <> [] -> has 35 loc = false ->
  place loc (urlencode_b l) true = loc ++ 35 :: urlencode_b l
  /\ split1_c 35 (place loc (urlencode_b l) true) = Some (loc, urlencode_b l)
  /\ parse_qsl_b (urlencode_b l) = l.
Proof.
  intros Hl Hne Hh. destruct l as [|kv l]; [congruence|].
  pose proof (urlencode_b_nonempty kv l) as Hn.
  assert (E : place loc (urlencode_b (kv :: l)) true = loc ++ 35 :: urlencode_b (kv :: l)).
  { unfold place. destruct (urlencode_b (kv :: l)); [congruence|reflexivity]. }
  rewrite E. repeat split.
  - apply split1_c_digits. now apply has_no.
  - now apply parse_urlencode_b.
Qed.

(* what goes wrong when the accepted redirect URI ends in the fragment delimiter: in query mode the
   part before the first fragment delimiter is the bare URI — the issued parameters are not in the query *)
Theorem place_query_after_hash loc l :
  Forall pair_bytes l -> l <> [] -> has 63 loc = false -> has 35 loc = false ->
  split1_c 35 (place (loc ++ [35]) (urlencode_b l) false) = Some (loc, 63 :: urlencode_b l).
Proof.
  intros Hl Hne Hq Hh. destruct l as [|kv l]; [congruence|].
  pose proof (urlencode_b_nonempty kv l) as Hn.
  unfold place. destruct (urlencode_b (kv :: l)) eqn:E0; [congruence|].
  assert (existsb (fun c => c =? 63) (loc ++ [35]) = false) as ->.
  { rewrite existsb_app. unfold has in Hq. rewrite Hq. reflexivity. }
  rewrite <- app_assoc. cbn [app]. apply split1_c_digits. now apply has_no.
Qed.

(* utf-8 output is a byte string, so the round trip applies to every issued text parameter *)
Ltac split_forall :=
  repeat match goal with
         | |- Forall _ (_ :: _) => apply Forall_cons
         | |- Forall _ [] => apply Forall_nil
         end.
Lemma Ok_inj {A} (a b : A) : Ok a = Ok b -> a = b.
Proof. congruence. Qed.
Lemma utf8_1_bytes c b : utf8_1 c = Ok b -> is_bytes b.
Proof.
  unfold utf8_1, is_bytes. intros H.
  destruct (c <? 128) eqn:E1.
  { apply Ok_inj in H; subst b. apply N.ltb_lt in E1. split_forall; lazy beta; lia. }
  destruct (c <? 2048) eqn:E2.
  { apply Ok_inj in H; subst b. apply N.ltb_lt in E2.
    assert (c / 64 < 32) by (apply N.div_lt_upper_bound; lia).
    pose proof (N.mod_lt c 64 ltac:(lia)).
    split_forall; lazy beta; lia. }
  destruct ((55296 <=? c) && (c <=? 57343)); [discriminate|].
  destruct (c <? 65536) eqn:E3.
  { apply Ok_inj in H; subst b. apply N.ltb_lt in E3.
    assert (c / 4096 < 16) by (apply N.div_lt_upper_bound; lia).
    pose proof (N.mod_lt (c / 64) 64 ltac:(lia)). pose proof (N.mod_lt c 64 ltac:(lia)).
    split_forall; lazy beta; lia. }
  destruct (c <? 1114112) eqn:E4; [|discriminate].
  apply Ok_inj in H; subst b. apply N.ltb_lt in E4.
  assert (c / 262144 < 5) by (apply N.div_lt_upper_bound; lia).
  pose proof (N.mod_lt (c / 4096) 64 ltac:(lia)). pose proof (N.mod_lt (c / 64) 64 ltac:(lia)).
  pose proof (N.mod_lt c 64 ltac:(lia)).
  split_forall; lazy beta; lia.
Qed.
Lemma utf8_bytes s b : utf8 s = Ok b -> is_bytes b.
Proof.
  revert b. induction s as [|c r IH]; intros b H; cbn in H.
  - inversion H. constructor.
  - destruct (utf8_1 c) as [a| |] eqn:E1; try discriminate. cbn in H.
    destruct (utf8 r) as [t| |] eqn:E2; try discriminate. cbn in H. inversion H; subst.
    apply Forall_app. split; [eapply utf8_1_bytes; eauto|now apply IH].
Qed.

(* ------------------------------------------------------------------ end-session: where state is put *)
Lemma quote_plus_state : quote_plus (PS "state"%string) = PS "state"%string.
Proof. vm_compute. reflexivity. Qed.
Lemma state_pair_bytes s b : utf8 s = Ok b -> Forall pair_bytes [(PS "state"%string, b)].
Proof.
  intros H. constructor; [|constructor]. split; cbn [fst snd]; [|eapply utf8_bytes; eauto].
  unfold is_bytes. let l := eval vm_compute in (PS "state"%string) in change (PS "state"%string) with l.
  split_forall; lazy beta; reflexivity.
Qed.
(* the post-logout target is Message.request-style placement of the single parameter state *)
Theorem logout_target_is_place uri s b : utf8 s = Ok b ->
  logout_target uri (Some s) = Ok (place uri (urlencode_b [(PS "state"%string, b)]) false).
Proof.
  intros H. unfold logout_target. rewrite H. cbn [bind]. unfold place.
  pose proof (urlencode_b_nonempty (PS "state"%string, b) []) as Hn.
  destruct (urlencode_b [(PS "state"%string, b)]) as [|x t] eqn:E; [congruence|]. rewrite <- E.
  unfold urlencode_b. cbn [List.map join fst snd]. rewrite quote_plus_state.
  destruct (existsb (fun c => c =? 63) uri); reflexivity.
Qed.

(* ------------------------------------------------------------------ delivery to an ACCEPTED redirect URI (full statements) *)
Lemma no_has c s : no_c c s = true -> has c s = false.
Proof.
  unfold no_c, has. intros H. destruct (existsb (fun x => x =? c) s) eqn:E; [|reflexivity].
  apply existsb_exists in E as [x [Hx Ex]]. rewrite forallb_forall in H. specialize (H x Hx). now rewrite Ex in H.
Qed.
Lemma has_split c s : has c s = true -> exists a b, split1_c c s = Some (a, b).
Proof.
  induction s as [|x r IH]; [discriminate|]. unfold has. cbn [existsb split1_c]. intros H.
  destruct (x =? c); [eauto|]. cbn [orb] in H. destruct (IH H) as [a [b ->]]. eauto.
Qed.

(* query mode: the user agent is sent to the accepted URI itself, the produced URL has no fragment, and its
   query decodes to the URI's own parameters followed by exactly the issued ones *)
Theorem delivery_query_accepted regs native oidc u l :
  verify_uri regs native oidc u = Ok tt -> Forall pair_bytes l -> l <> [] ->
  let r := place u (urlencode_b l) false in
  no_c 35 r = true /\
  ((has 63 u = false /\ split1_c 63 r = Some (u, urlencode_b l) /\ parse_qsl_b (urlencode_b l) = l)
   \/ (exists base q0, u = base ++ 63 :: q0 /\ has 63 base = false
        /\ split1_c 63 r = Some (base, q0 ++ 38 :: urlencode_b l)
        /\ parse_qsl_b (q0 ++ 38 :: urlencode_b l) = parse_qsl_b q0 ++ l)).
Proof.
  intros Hv Hl Hne r. subst r.
  destruct (verify_uri_accepted_clean _ _ _ _ Hv) as (d & _ & _ & _ & Hh).
  change (has_c 35 u) with (has 35 u) in Hh.
  destruct (has 63 u) eqn:Eq.
  - destruct (has_split _ _ Eq) as [base [q0 Es]].
    pose proof (split1_c_some_no _ _ _ _ Es) as Hb. apply no_has in Hb.
    apply split1_c_eq in Es. subst u.
    destruct (place_query_extend base q0 l Hl Hne Hb Hh) as (E & A & B & C).
    split; [exact B|]. right. exists base, q0. auto.
  - destruct (place_query_plain u l Hl Hne Eq Hh) as (E & A & B & C).
    split; [exact B|]. left. auto.
Qed.

(* fragment mode *)
Theorem delivery_fragment_accepted regs native oidc u l :
  verify_uri regs native oidc u = Ok tt -> Forall pair_bytes l -> l <> [] ->
  split1_c 35 (place u (urlencode_b l) true) = Some (u, urlencode_b l) /\ parse_qsl_b (urlencode_b l) = l.
Proof.
  intros Hv Hl Hne.
  destruct (verify_uri_accepted_clean _ _ _ _ Hv) as (d & _ & _ & _ & Hh).
  change (has_c 35 u) with (has 35 u) in Hh.
  destruct (place_fragment u l Hl Hne Hh) as (E & A & B). auto.
Qed.

(* end-session: state reaches an accepted post-logout URI as one more parameter, never glued into another *)
Theorem logout_state_accepted regs native oidc uri s b :
  verify_uri regs native oidc uri = Ok tt -> utf8 s = Ok b ->
  exists t, logout_target uri (Some s) = Ok t /\ no_c 35 t = true /\
    ((has 63 uri = false /\ split1_c 63 t = Some (uri, urlencode_b [(PS "state"%string, b)])
      /\ parse_qsl_b (urlencode_b [(PS "state"%string, b)]) = [(PS "state"%string, b)])
     \/ (exists base q0, uri = base ++ 63 :: q0 /\ has 63 base = false
          /\ split1_c 63 t = Some (base, q0 ++ 38 :: urlencode_b [(PS "state"%string, b)])
          /\ parse_qsl_b (q0 ++ 38 :: urlencode_b [(PS "state"%string, b)]) = parse_qsl_b q0 ++ [(PS "state"%string, b)])).
Proof.
  intros Hv Hb. eexists. split; [apply (logout_target_is_place uri s b Hb)|].
  assert (Hne : [(PS "state"%string, b)] <> []) by discriminate.
  exact (delivery_query_accepted _ _ _ _ _ Hv (state_pair_bytes s b Hb) Hne).
Qed.
