(* Proofs/FileStoreFrame_proofs.v — C13, file store: the frame property.  An operation that names key k
   touches only the two file names k owns (value file, lock file beside it); the value of every other
   key is what it was, whatever the relation between the converted names (one a prefix of the other,
   one the other plus ".lock", ...), in the directory and for a new instance, after every history. *)
From Verif Require Import Lib.Base Lib.PyStr Lib.Urlenc Model.FileStore Model.FileStoreFrame Proofs.FileStore_proofs.
Open Scope N_scope.

Section AssocDel.
  Context {V : Type}.
  Implicit Types d : list (pystr * V).
  Lemma assoc_adel_other k k' d : k <> k' -> assoc k' (adel k d) = assoc k' d.
  Proof.
    intros Hne. induction d as [|[k2 v2] r IH]; cbn; [reflexivity|].
    destruct (str_eqb k k2) eqn:E; cbn.
    - apply str_eqb_eq in E; subst k2.
      assert (str_eqb k' k = false) as -> by (apply str_eqb_neq; congruence). reflexivity.
    - destruct (str_eqb k' k2); auto.
  Qed.
End AssocDel.

Lemma owned_false f g : owned f g = false <-> g <> f /\ g <> lock_of f.
Proof.
  unfold owned. rewrite orb_false_iff, !str_eqb_neq. tauto.
Qed.

Lemma touch_other f g (d : dir) : g <> lock_of f -> assoc g (touch_lock f d) = assoc g d.
Proof. intros H. unfold touch_lock. apply assoc_aset_other. congruence. Qed.

Lemma del_file_other f g (d : dir) : g <> f -> g <> lock_of f -> assoc g (del_file f d) = assoc g d.
Proof.
  intros H1 H2. unfold del_file. destruct (is_lock f).
  - apply assoc_adel_other. congruence.
  - destruct (has_key f d); [|reflexivity].
    rewrite assoc_adel_other by congruence. rewrite assoc_adel_other by congruence. now apply touch_other.
Qed.

(* ------------------------------------------------------------------ the two owned names *)
(* an operation that names key k changes nothing in the directory outside the two names k owns,
   and nothing in the instance's cache outside k's value name: no side condition at all *)
Lemma keyed_step_touches_owned s o k g : op_key o = Some k -> owned (quote_plus k) g = false ->
  assoc g (st_dir (fst (step s o))) = assoc g (st_dir s)
  /\ assoc g (st_cache (fst (step s o))) = assoc g (st_cache s).
Proof.
  intros Hk Hg. apply owned_false in Hg as [G1 G2].
  destruct o as [k0 v|k0|k0| | |k0| | |]; cbn in Hk; try discriminate; inversion Hk; subst k0; cbn [step].
  - unfold do_set. destruct (is_lock (quote_plus k)); [auto|]. destruct (is_dirname (quote_plus k)); cbn.
    + split; [now apply touch_other|reflexivity].
    + split; [rewrite assoc_aset_other by congruence; now apply touch_other|now rewrite assoc_aset_other by congruence].
  - unfold do_get. destruct (is_lock (quote_plus k)); [auto|].
    destruct (assoc (quote_plus k) (st_dir s)); [|auto].
    destruct (assoc (quote_plus k) (st_cache s)); [auto|]. cbn.
    split; [now apply touch_other|now rewrite assoc_aset_other by congruence].
  - unfold do_del. cbn. split; [now apply del_file_other|apply assoc_adel_other; congruence].
  - auto.
Qed.

(* ------------------------------------------------------------------ keys and their names *)
Lemma quote_inj k k' : bytes_ok k = true -> bytes_ok k' = true -> quote_plus k = quote_plus k' -> k = k'.
Proof. intros H H' E. rewrite <- (unq_q k H), <- (unq_q k' H'). now rewrite E. Qed.

Lemma bytes_ok_dot_lock : bytes_ok dot_lock = true.
Proof. reflexivity. Qed.

Lemma lock_of_quote k : lock_of (quote_plus k) = quote_plus (k ++ dot_lock).
Proof. unfold lock_of. now rewrite quote_app, quote_dot_lock. Qed.

(* the value file of k' is not one of the names k owns, unless k' = k or k' is a lock name *)
Lemma value_name_not_owned k k' : bytes_ok k = true -> bytes_ok k' = true -> k <> k' -> is_lock k' = false ->
  owned (quote_plus k) (quote_plus k') = false.
Proof.
  intros H H' Hne L. apply owned_false. split.
  - intros E. apply Hne. symmetry. now apply quote_inj.
  - intros E. rewrite <- (is_lock_quote k' H'), E, is_lock_lock_of in L. discriminate.
Qed.

(* the lock file of k' is not one of the names k owns, unless k' = k or k = k' ++ ".lock" *)
Lemma lock_name_not_owned k k' : bytes_ok k = true -> bytes_ok k' = true -> k <> k' -> k <> k' ++ dot_lock ->
  owned (quote_plus k) (lock_of (quote_plus k')) = false.
Proof.
  intros H H' Hne Hl. apply owned_false. split.
  - rewrite lock_of_quote. intros E. apply Hl. symmetry. apply quote_inj; [|exact H|exact E].
    rewrite bytes_ok_app, H'. reflexivity.
  - unfold lock_of. intros E. apply app_inv_tail in E. apply Hne. symmetry. now apply quote_inj.
Qed.

(* ------------------------------------------------------------------ the frame property, in the directory *)
(* whatever the relation between the converted names: an operation on k leaves the value file of k' alone *)
Theorem frame_value_file s o k k' : op_key o = Some k -> bytes_ok k = true -> bytes_ok k' = true ->
  k <> k' -> is_lock k' = false ->
  assoc (quote_plus k') (st_dir (fst (step s o))) = assoc (quote_plus k') (st_dir s).
Proof.
  intros Ho H H' Hne L. apply (keyed_step_touches_owned s o k _ Ho). now apply value_name_not_owned.
Qed.

Theorem frame_lock_file s o k k' : op_key o = Some k -> bytes_ok k = true -> bytes_ok k' = true ->
  k <> k' -> k <> k' ++ dot_lock ->
  assoc (lock_of (quote_plus k')) (st_dir (fst (step s o))) = assoc (lock_of (quote_plus k')) (st_dir s).
Proof.
  intros Ho H H' Hne Hl. apply (keyed_step_touches_owned s o k _ Ho). now apply lock_name_not_owned.
Qed.

Lemma beside_neq f g : beside f g = true -> f <> g.
Proof. unfold beside. rewrite andb_true_iff, negb_true_iff, str_eqb_neq. tauto. Qed.

Lemma beside_spec f g : beside f g = true <-> exists t, t <> [] /\ g = f ++ t.
Proof.
  unfold beside. rewrite andb_true_iff, negb_true_iff, str_eqb_neq, starts_with_spec. split.
  - intros [[t ->] Hn]. exists t. split; [|reflexivity]. intros ->. apply Hn. now rewrite app_nil_r.
  - intros (t & Hn & ->). split; [now exists t|]. intros E. apply Hn.
    rewrite <- (app_nil_r f) in E at 1. now apply app_inv_head in E.
Qed.

(* the class made explicit: the name of k' is the name of k plus a suffix (k' stands next to k), or the
   other way round; deleting / writing / reading the one leaves the value file of the other as it was *)
Theorem frame_related_names s o k k' : op_key o = Some k -> bytes_ok k = true -> bytes_ok k' = true ->
  name_related k k' = true -> is_lock k' = false ->
  assoc (quote_plus k') (st_dir (fst (step s o))) = assoc (quote_plus k') (st_dir s).
Proof.
  intros Ho H H' R L. apply (frame_value_file s o k k' Ho H H'); [|exact L].
  unfold name_related in R. apply orb_true_iff in R as [R|R]; apply beside_neq in R; congruence.
Qed.

(* a key whose name is another key's lock name never holds a value: nothing to preserve there *)
Lemma lock_name_key_holds_nothing ops k : ops_ok ops = true -> bytes_ok k = true -> is_lock k = true ->
  assoc k (observe_new (st_dir (fst (run empty_store ops)))) = None.
Proof.
  intros Ho Hk L. pose proof (filestore_refines ops Ho) as H.
  destruct (run empty_store ops) as [s xs]. destruct (arun [] ops) as [m ys] eqn:A. cbn [fst].
  destruct H as (_ & _ & ->).
  assert (forall m0, assoc k m0 = None -> forall m1 ys1, arun m0 ops = (m1, ys1) -> assoc k m1 = None) as G.
  { clear - L. induction ops as [|o r IH]; intros m0 H0 m1 ys1 A; cbn [arun] in A.
    - now inversion A; subst.
    - destruct (astep m0 o) as [m2 y] eqn:S. destruct (arun m2 r) as [m3 ys3] eqn:A3. inversion A; subst.
      eapply (IH m2); [|exact A3].
      destruct o as [k0 v|k0|k0| | |k0| | |]; cbn [astep] in S; try (inversion S; subst; exact H0).
      + unfold set_refusal in S. destruct (is_lock k0) eqn:L0; [inversion S; subst; exact H0|].
        assert (k0 <> k) by (intros ->; congruence).
        destruct (is_dirname k0); inversion S; subst; [exact H0|]. now rewrite assoc_aset_other.
      + inversion S; subst. destruct (str_eqb k0 k) eqn:E.
        * apply str_eqb_eq in E; subst k0. clear - H0. induction m0 as [|[a b] r IH]; cbn in *; [reflexivity|].
          destruct (str_eqb k a) eqn:E; [discriminate|]. cbn. rewrite E. auto.
        * apply str_eqb_neq in E. now rewrite assoc_adel_other.
      + inversion S; subst. reflexivity. }
  exact (G [] eq_refl m ys A).
Qed.

(* ------------------------------------------------------------------ the frame property, for a new instance, after any history *)
Lemma run_app a : forall s b,
  run s (a ++ b) = let '(s1, xs) := run s a in let '(s2, ys) := run s1 b in (s2, xs ++ ys).
Proof.
  induction a as [|o r IH]; intros s b; cbn [app run].
  - destruct (run s b). reflexivity.
  - destruct (step s o) as [s1 x]. rewrite IH. destruct (run s1 r) as [s2 xs]. destruct (run s2 b) as [s3 ys]. reflexivity.
Qed.

Lemma astep_frame m o k' : o <> OClear -> op_key o <> Some k' -> assoc k' (fst (astep m o)) = assoc k' m.
Proof.
  intros Hc Hk. destruct o as [k v|k|k| | |k| | |]; cbn [astep fst]; try reflexivity.
  - assert (k <> k') by (intros ->; now apply Hk).
    destruct (set_refusal k); cbn; [reflexivity|now apply assoc_aset_other].
  - assert (k <> k') by (intros ->; now apply Hk). now apply assoc_adel_other.
  - now contradiction Hc.
Qed.

(* after ANY history, one more operation that is not clear() and does not name k' leaves what a new
   instance over the directory reads for k' exactly as it was *)
Theorem frame_new_instance ops o k' : ops_ok ops = true -> op_ok o = true ->
  o <> OClear -> op_key o <> Some k' ->
  assoc k' (observe_new (st_dir (fst (run empty_store (ops ++ [o])))))
  = assoc k' (observe_new (st_dir (fst (run empty_store ops)))).
Proof.
  intros Ho Hop Hc Hk.
  pose proof (run_sim ops empty_store Ho inv_empty) as H. rewrite run_app.
  destruct (run empty_store ops) as [s1 xs]. destruct (arun (abs (st_dir empty_store)) ops) as [m1 ys].
  destruct H as (_ & I1 & E1). cbn [run].
  pose proof (step_sim s1 o Hop I1) as H2.
  destruct (step s1 o) as [s2 x]. destruct (astep (abs (st_dir s1)) o) as [m2 y] eqn:S.
  destruct H2 as (_ & I2 & E2). cbn [fst].
  rewrite (observe_new_abs _ (proj1 I2)), (observe_new_abs _ (proj1 I1)), E2.
  change m2 with (fst (m2, y)). rewrite <- S. now apply astep_frame.
Qed.

(* the same with the file-name relation spelled out: the converted name of the key that is removed
   (written, read) is a proper prefix of the other key's converted name, or the other way round *)
Theorem frame_new_instance_related ops o k k' : ops_ok ops = true -> op_ok o = true ->
  op_key o = Some k -> name_related k k' = true ->
  assoc k' (observe_new (st_dir (fst (run empty_store (ops ++ [o])))))
  = assoc k' (observe_new (st_dir (fst (run empty_store ops)))).
Proof.
  intros Ho Hop Hk R. apply frame_new_instance; [exact Ho|exact Hop| |].
  - intros ->. discriminate.
  - rewrite Hk. intros E. inversion E; subst k'. unfold name_related in R.
    apply orb_true_iff in R as [R|R]; apply beside_neq in R; congruence.
Qed.

(* the frame condition the checker evaluates on a key family holds on every model step *)
Lemma opt_eqb_refl a : opt_eqb a a = true.
Proof. destruct a; cbn; [apply str_eqb_refl|reflexivity]. Qed.

Theorem frame_step_holds fam s o : forallb bytes_ok fam = true -> op_ok o = true ->
  frame_step fam (st_dir s) (st_dir (fst (step s o))) o = true.
Proof.
  intros Hf Ho. unfold frame_step. destruct (op_key o) as [k|] eqn:K; [|reflexivity].
  assert (bytes_ok k = true) as Hk.
  { destruct o; cbn in K; try discriminate; inversion K; subst; exact Ho. }
  apply forallb_forall. intros k' Hin. rewrite forallb_forall in Hf. specialize (Hf k' Hin).
  destruct (str_eqb k k') eqn:E; [reflexivity|]. apply str_eqb_neq in E. cbn [orb].
  apply andb_true_iff. split.
  - destruct (is_lock (quote_plus k')) eqn:L; [reflexivity|]. unfold files_of. cbn [fst].
    rewrite (frame_value_file s o k k' K Hk Hf E); [apply opt_eqb_refl|]. now rewrite <- (is_lock_quote k' Hf).
  - destruct (owned (quote_plus k) (lock_of (quote_plus k'))) eqn:W; [reflexivity|]. cbn [orb].
    unfold files_of. cbn [snd]. rewrite (proj1 (keyed_step_touches_owned s o k _ K W)). apply opt_eqb_refl.
Qed.
