(* Proofs/FileStore_proofs.v — the file store refines a plain key -> value map (C13). *)
From Verif Require Import Lib.Base Lib.PyStr Lib.Urlenc Model.FileStore.
Open Scope N_scope.

(* ------------------------------------------------------------------ association lists *)
Section AssocFacts.
  Context {V : Type}.
  Implicit Types d : list (pystr * V).

  Lemma has_key_In k d : has_key k d = true <-> In k (List.map fst d).
  Proof.
    unfold has_key. induction d as [|[g w] r IH]; cbn; [split; [discriminate|tauto]|].
    destruct (str_eqb k g) eqn:E.
    - apply str_eqb_eq in E. subst. split; auto.
    - rewrite IH. apply str_eqb_neq in E. split; [auto|]. intros [H|H]; [congruence|exact H].
  Qed.
  Lemma has_key_false k d : has_key k d = false <-> ~ In k (List.map fst d).
  Proof.
    rewrite <- has_key_In. destruct (has_key k d); split; intro H; try congruence; try discriminate.
  Qed.

  Lemma names_aset k v d :
    List.map fst (aset k v d) = if has_key k d then List.map fst d else List.map fst d ++ [k].
  Proof.
    unfold has_key. induction d as [|[g w] r IH]; cbn; [reflexivity|].
    destruct (str_eqb k g) eqn:E; cbn; [reflexivity|]. rewrite IH. now destruct (assoc k r).
  Qed.
  Lemma In_names_aset g k v d : In g (List.map fst (aset k v d)) <-> g = k \/ In g (List.map fst d).
  Proof.
    rewrite names_aset. destruct (has_key k d) eqn:E.
    - apply has_key_In in E. split; [auto|]. intros [H|H]; [now subst|exact H].
    - rewrite in_app_iff. cbn. split; intros [H|H]; auto. destruct H; [subst; auto|tauto].
  Qed.
  Lemma NoDup_aset k v d : NoDup (List.map fst d) -> NoDup (List.map fst (aset k v d)).
  Proof.
    intros H. rewrite names_aset. destruct (has_key k d) eqn:E; [exact H|].
    apply has_key_false in E. apply NoDup_rev in H. rewrite <- (List.rev_involutive (_ ++ [k])).
    apply NoDup_rev. rewrite List.rev_app_distr. cbn. constructor; [|exact H].
    rewrite <- in_rev. exact E.
  Qed.
  Lemma aset_notin k v d : has_key k d = false -> aset k v d = d ++ [(k, v)].
  Proof.
    unfold has_key. induction d as [|[g w] r IH]; cbn; [reflexivity|].
    destruct (str_eqb k g); [discriminate|]. intros H. now rewrite IH.
  Qed.

  Lemma In_names_adel g k d : In g (List.map fst (adel k d)) -> In g (List.map fst d).
  Proof.
    induction d as [|[h w] r IH]; cbn; [tauto|]. destruct (str_eqb k h); cbn; [auto|]. intros [H|H]; auto.
  Qed.
  Lemma NoDup_adel k d : NoDup (List.map fst d) -> NoDup (List.map fst (adel k d)).
  Proof.
    induction d as [|[h w] r IH]; cbn; [auto|]. intros H. inversion H as [|? ? Hn Hr]; subst.
    destruct (str_eqb k h); cbn; [exact Hr|]. constructor; [|auto]. intro Hin. apply Hn. eapply In_names_adel; eauto.
  Qed.
  Lemma adel_removes k d : NoDup (List.map fst d) -> ~ In k (List.map fst (adel k d)).
  Proof.
    induction d as [|[h w] r IH]; cbn; [tauto|]. intros H. inversion H as [|? ? Hn Hr]; subst.
    destruct (str_eqb k h) eqn:E; cbn.
    - apply str_eqb_eq in E. now subst.
    - apply str_eqb_neq in E. intros [A|A]; [congruence|]. now apply IH.
  Qed.
  Lemma adel_notin k d : has_key k d = false -> adel k d = d.
  Proof.
    unfold has_key. induction d as [|[g w] r IH]; cbn; [reflexivity|].
    destruct (str_eqb k g); [discriminate|]. intros H. now rewrite IH.
  Qed.

  (* filters that look at the name only *)
  Variable Pn : pystr -> bool.
  Notation P := (fun p : pystr * V => Pn (fst p)).

  Lemma filter_aset_true k v d : Pn k = true -> filter P (aset k v d) = aset k v (filter P d).
  Proof.
    intros Hk. induction d as [|[g w] r IH]; cbn; [now rewrite Hk|].
    destruct (str_eqb k g) eqn:E; cbn.
    - apply str_eqb_eq in E. subst g. rewrite Hk. cbn. now rewrite str_eqb_refl.
    - destruct (Pn g); cbn; [rewrite E, IH; reflexivity|exact IH].
  Qed.
  Lemma filter_aset_false k v d : Pn k = false -> filter P (aset k v d) = filter P d.
  Proof.
    intros Hk. induction d as [|[g w] r IH]; cbn; [now rewrite Hk|].
    destruct (str_eqb k g) eqn:E; cbn.
    - apply str_eqb_eq in E. subst g. now rewrite Hk.
    - destruct (Pn g); [now rewrite IH|exact IH].
  Qed.
  Lemma filter_adel_true k d : Pn k = true -> filter P (adel k d) = adel k (filter P d).
  Proof.
    intros Hk. induction d as [|[g w] r IH]; cbn; [reflexivity|].
    destruct (str_eqb k g) eqn:E; cbn.
    - apply str_eqb_eq in E. subst g. rewrite Hk. cbn. now rewrite str_eqb_refl.
    - destruct (Pn g); cbn; [rewrite E, IH; reflexivity|exact IH].
  Qed.
  Lemma filter_adel_false k d : Pn k = false -> filter P (adel k d) = filter P d.
  Proof.
    intros Hk. induction d as [|[g w] r IH]; cbn; [reflexivity|].
    destruct (str_eqb k g) eqn:E; cbn.
    - apply str_eqb_eq in E. subst g. now rewrite Hk.
    - destruct (Pn g); [now rewrite IH|exact IH].
  Qed.
  Lemma assoc_filter k d : Pn k = true -> assoc k (filter P d) = assoc k d.
  Proof.
    intros Hk. induction d as [|[g w] r IH]; cbn; [reflexivity|].
    destruct (str_eqb k g) eqn:E.
    - apply str_eqb_eq in E. subst g. rewrite Hk. cbn. now rewrite str_eqb_refl.
    - destruct (Pn g); cbn; [now rewrite E|exact IH].
  Qed.
  Lemma names_filter g d : In g (List.map fst (filter P d)) <-> In g (List.map fst d) /\ Pn g = true.
  Proof.
    induction d as [|[h w] r IH]; cbn; [tauto|]. destruct (Pn h) eqn:E; cbn; rewrite IH.
    - split; [intros [H|[H1 H2]]; subst; auto|]. intros [[H|H] H2]; auto.
    - split; [tauto|]. intros [[H|H] H2]; [subst; congruence|tauto].
  Qed.
End AssocFacts.

(* ------------------------------------------------------------------ strings: prefixes and suffixes *)
Lemma starts_with_spec p s : starts_with p s = true <-> exists t, s = p ++ t.
Proof.
  revert s. induction p as [|x p IH]; intros s; cbn.
  - split; [intros _; now exists s|reflexivity].
  - destruct s as [|y s]; [split; [discriminate|intros [t Ht]; discriminate]|].
    rewrite andb_true_iff, N.eqb_eq, IH. split.
    + intros [-> [t ->]]. now exists t.
    + intros [t Ht]. inversion Ht; subst. split; [reflexivity|now exists t].
Qed.
Lemma ends_with_spec p s : ends_with p s = true <-> exists t, s = t ++ p.
Proof.
  unfold ends_with. rewrite starts_with_spec. split; intros [t Ht].
  - exists (List.rev t). rewrite <- (List.rev_involutive s), Ht, List.rev_app_distr, List.rev_involutive. reflexivity.
  - exists (List.rev t). rewrite Ht, List.rev_app_distr. reflexivity.
Qed.

(* ------------------------------------------------------------------ quote_plus facts *)
Lemma quote_app a b : quote_plus (a ++ b) = quote_plus a ++ quote_plus b.
Proof. unfold quote_plus. apply flat_map_app. Qed.
Lemma quote_dot_lock : quote_plus dot_lock = dot_lock.
Proof. reflexivity. Qed.

Lemma bytes_ok_is_bytes k : bytes_ok k = true <-> is_bytes k.
Proof.
  unfold bytes_ok, is_bytes. rewrite forallb_forall, Forall_forall.
  split; intros H c Hc; specialize (H c Hc); now apply N.ltb_lt.
Qed.
Lemma bytes_ok_app a b : bytes_ok (a ++ b) = bytes_ok a && bytes_ok b.
Proof. unfold bytes_ok. apply forallb_app. Qed.
Lemma unq_q k : bytes_ok k = true -> unquote_plus (quote_plus k) = k.
Proof. intros H. apply unquote_quote. now apply bytes_ok_is_bytes. Qed.

(* the characters of ".lock" and "." are produced by quote_plus only from themselves *)
Definition plain (x : N) : bool := existsb (N.eqb x) dot_lock.
Definition plain_safe (c : N) : bool :=
  match quote1 c with
  | [x] => (x =? c) || negb (plain x)
  | l => forallb (fun x => negb (plain x)) l
  end && negb (match quote1 c with [] => true | _ => false end).
Lemma plain_sweep : forallb plain_safe all_bytes = true.
Proof. vm_compute. reflexivity. Qed.
Lemma plain_safe_all c : c < 256 -> plain_safe c = true.
Proof.
  intros H. pose proof plain_sweep as S. rewrite forallb_forall in S. apply S.
  unfold all_bytes. apply in_map_iff. exists (N.to_nat c). split; [apply N2Nat.id|]. apply in_seq. lia.
Qed.
Lemma quote1_last_plain c l x : c < 256 -> quote1 c = l ++ [x] -> plain x = true -> l = [] /\ x = c.
Proof.
  intros Hc Hq Hp. pose proof (plain_safe_all c Hc) as S. unfold plain_safe in S. rewrite Hq in S.
  apply andb_true_iff in S as [S _].
  destruct l as [|y l]; cbn [app] in S.
  - apply orb_true_iff in S as [S|S]; [apply N.eqb_eq in S; auto|]. rewrite Hp in S. discriminate.
  - assert (forallb (fun x => negb (plain x)) ((y :: l) ++ [x]) = true) as A.
    { destruct l; exact S. }
    rewrite forallb_app in A. apply andb_true_iff in A as [_ A]. cbn [forallb] in A. rewrite Hp in A. discriminate.
Qed.
Lemma quote1_nonempty c : c < 256 -> quote1 c <> [].
Proof.
  intros Hc E. pose proof (plain_safe_all c Hc) as S. unfold plain_safe in S. rewrite E in S. discriminate.
Qed.

Lemma app_tail_inj {A} (a b l : list A) (x : A) : l <> [] -> a ++ l = b ++ [x] ->
  exists l', l = l' ++ [x] /\ b = a ++ l'.
Proof.
  intros Hl H. destruct (exists_last Hl) as (l' & y & ->). rewrite app_assoc in H.
  apply app_inj_tail in H as [H1 H2]. subst. now exists l'.
Qed.

Lemma quote_suffix p : forallb plain p = true -> forall k t, bytes_ok k = true ->
  quote_plus k = t ++ p -> exists k0, k = k0 ++ p /\ t = quote_plus k0.
Proof.
  induction p as [|x p IH] using rev_ind; intros Hp k t Hk H.
  - exists k. rewrite !List.app_nil_r in *. auto.
  - rewrite forallb_app in Hp. apply andb_true_iff in Hp as [Hp Hx]. cbn in Hx. rewrite andb_true_r in Hx.
    destruct k as [|c0 k0 IHk0] using rev_ind.
    + cbn in H. destruct t; destruct p; discriminate.
    + clear IHk0. rewrite quote_app in H. cbn [quote_plus flat_map] in H. rewrite List.app_nil_r in H.
      rewrite bytes_ok_app in Hk. apply andb_true_iff in Hk as [Hk0 Hc]. cbn in Hc. rewrite andb_true_r in Hc.
      apply N.ltb_lt in Hc. rewrite app_assoc in H.
      destruct (app_tail_inj _ _ _ _ (quote1_nonempty c0 Hc) H) as (l' & Hq & Ht).
      destruct (quote1_last_plain c0 l' x Hc Hq Hx) as [-> ->]. rewrite List.app_nil_r in Ht.
      destruct (IH Hp k0 t Hk0 (eq_sym Ht)) as (k1 & -> & ->).
      exists k1. now rewrite app_assoc.
Qed.

Lemma quote_nil k : bytes_ok k = true -> quote_plus k = [] -> k = [].
Proof.
  destruct k as [|c k]; [auto|]. intros Hk H. cbn in Hk. apply andb_true_iff in Hk as [Hc _].
  apply N.ltb_lt in Hc. cbn in H. apply app_eq_nil in H as [H _]. now apply quote1_nonempty in H.
Qed.

Lemma is_lock_quote k : bytes_ok k = true -> is_lock (quote_plus k) = is_lock k.
Proof.
  intros Hk. unfold is_lock. destruct (ends_with dot_lock k) eqn:E.
  - apply ends_with_spec in E as [t ->]. apply ends_with_spec. exists (quote_plus t). now rewrite quote_app.
  - destruct (ends_with dot_lock (quote_plus k)) eqn:E2; [|reflexivity].
    apply ends_with_spec in E2 as [t Ht]. destruct (quote_suffix dot_lock eq_refl k t Hk Ht) as (k0 & -> & _).
    assert (ends_with dot_lock (k0 ++ dot_lock) = true) by (apply ends_with_spec; now exists k0). congruence.
Qed.
Lemma is_lock_lock_of f : is_lock (lock_of f) = true.
Proof. apply ends_with_spec. now exists f. Qed.

Lemma is_dirname_spec f : is_dirname f = true <-> f = [] \/ f = [46] \/ f = [46; 46].
Proof. unfold is_dirname. rewrite !orb_true_iff, !str_eqb_eq. tauto. Qed.

Lemma is_dirname_quote k : bytes_ok k = true -> is_dirname (quote_plus k) = is_dirname k.
Proof.
  intros Hk. destruct (is_dirname k) eqn:E.
  - apply is_dirname_spec in E as [->|[->| ->]]; reflexivity.
  - destruct (is_dirname (quote_plus k)) eqn:E2; [|reflexivity]. exfalso.
    apply is_dirname_spec in E2 as [Hq|[Hq|Hq]].
    + apply quote_nil in Hq; [|exact Hk]. subst. discriminate.
    + destruct (quote_suffix [46] eq_refl k [] Hk Hq) as (k0 & -> & Hk0).
      rewrite bytes_ok_app in Hk. apply andb_true_iff in Hk as [Hk _].
      symmetry in Hk0. apply quote_nil in Hk0; [|exact Hk]. subst. discriminate.
    + destruct (quote_suffix [46; 46] eq_refl k [] Hk Hq) as (k0 & -> & Hk0).
      rewrite bytes_ok_app in Hk. apply andb_true_iff in Hk as [Hk _].
      symmetry in Hk0. apply quote_nil in Hk0; [|exact Hk]. subst. discriminate.
Qed.

(* ------------------------------------------------------------------ names in the image of quote_plus *)
Definition imageq (f : fname) : Prop := exists k, bytes_ok k = true /\ f = quote_plus k.
Lemma imageq_lock_of f : imageq f -> imageq (lock_of f).
Proof.
  intros (k & Hk & ->). exists (k ++ dot_lock). split; [rewrite bytes_ok_app, Hk; reflexivity|].
  unfold lock_of. now rewrite quote_app.
Qed.
Lemma imageq_eqb k f : bytes_ok k = true -> imageq f -> str_eqb (quote_plus k) f = str_eqb k (unquote_plus f).
Proof.
  intros Hk (k' & Hk' & ->). rewrite unq_q by exact Hk'.
  destruct (str_eqb k k') eqn:E.
  - apply str_eqb_eq in E. subst. apply str_eqb_refl.
  - apply str_eqb_neq. apply str_eqb_neq in E. intro H. apply E.
    rewrite <- (unq_q k Hk), <- (unq_q k' Hk'). now rewrite H.
Qed.
Lemma imageq_requote f : imageq f -> quote_plus (unquote_plus f) = f.
Proof. intros (k & Hk & ->). now rewrite unq_q. Qed.

Definition all_image (c : list (fname * pystr)) : Prop := forall f, In f (List.map fst c) -> imageq f.

Lemma unq_assoc k c : bytes_ok k = true -> all_image c -> assoc k (unq_items c) = assoc (quote_plus k) c.
Proof.
  intros Hk. induction c as [|[g w] r IH]; intros Hc; cbn; [reflexivity|].
  rewrite (imageq_eqb k g Hk) by (apply Hc; cbn; auto).
  destruct (str_eqb k (unquote_plus g)); [reflexivity|]. apply IH. intros f Hf. apply Hc. cbn. auto.
Qed.
Lemma unq_aset k v c : bytes_ok k = true -> all_image c ->
  unq_items (aset (quote_plus k) v c) = aset k v (unq_items c).
Proof.
  intros Hk. unfold unq_items. induction c as [|[g w] r IH]; intros Hc; cbn.
  - now rewrite unq_q.
  - rewrite (imageq_eqb k g Hk) by (apply Hc; cbn; auto).
    destruct (str_eqb k (unquote_plus g)); cbn; [reflexivity|]. rewrite IH; [reflexivity|].
    intros f Hf. apply Hc. cbn. auto.
Qed.
Lemma unq_adel k c : bytes_ok k = true -> all_image c ->
  unq_items (adel (quote_plus k) c) = adel k (unq_items c).
Proof.
  intros Hk. unfold unq_items. induction c as [|[g w] r IH]; intros Hc; cbn; [reflexivity|].
  rewrite (imageq_eqb k g Hk) by (apply Hc; cbn; auto).
  destruct (str_eqb k (unquote_plus g)); cbn; [reflexivity|]. rewrite IH; [reflexivity|].
  intros f Hf. apply Hc. cbn. auto.
Qed.

(* ------------------------------------------------------------------ the invariant *)
Definition dinv (d : dir) : Prop := NoDup (List.map fst d) /\ all_image d.
Definition inv (s : store) : Prop := dinv (st_dir s) /\ st_cache s = filter nonlock (st_dir s).

Lemma fl_aset_true f v (d : dir) : is_lock f = false -> filter nonlock (aset f v d) = aset f v (filter nonlock d).
Proof. intros H. apply (filter_aset_true (fun f => negb (is_lock f))). now rewrite H. Qed.
Lemma fl_aset_false f v (d : dir) : is_lock f = true -> filter nonlock (aset f v d) = filter nonlock d.
Proof. intros H. apply (filter_aset_false (fun f => negb (is_lock f))). now rewrite H. Qed.
Lemma fl_adel_true f (d : dir) : is_lock f = false -> filter nonlock (adel f d) = adel f (filter nonlock d).
Proof. intros H. apply (filter_adel_true (fun f => negb (is_lock f))). now rewrite H. Qed.
Lemma fl_adel_false f (d : dir) : is_lock f = true -> filter nonlock (adel f d) = filter nonlock d.
Proof. intros H. apply (filter_adel_false (fun f => negb (is_lock f))). now rewrite H. Qed.
Lemma fl_assoc f (d : dir) : is_lock f = false -> assoc f (filter nonlock d) = assoc f d.
Proof. intros H. apply (assoc_filter (fun f => negb (is_lock f))). now rewrite H. Qed.
Lemma fl_names g (d : dir) : In g (List.map fst (filter nonlock d)) <-> In g (List.map fst d) /\ is_lock g = false.
Proof.
  pose proof (names_filter (fun f => negb (is_lock f)) g d) as H. cbn beta in H.
  rewrite negb_true_iff in H. exact H.
Qed.
Lemma fl_has_key_lock f (d : dir) : is_lock f = true -> has_key f (filter nonlock d) = false.
Proof. intros H. apply has_key_false. rewrite fl_names. intros [_ A]. congruence. Qed.
Lemma fl_has_key f (d : dir) : is_lock f = false -> has_key f (filter nonlock d) = has_key f d.
Proof. intros H. unfold has_key. now rewrite fl_assoc. Qed.

Lemma dinv_aset f v d : imageq f -> dinv d -> dinv (aset f v d).
Proof.
  intros Hf [Hn Hi]. split; [now apply NoDup_aset|].
  intros g Hg. apply In_names_aset in Hg as [->|Hg]; auto.
Qed.
Lemma dinv_adel f d : dinv d -> dinv (adel f d).
Proof.
  intros [Hn Hi]. split; [now apply NoDup_adel|]. intros g Hg. apply Hi. eapply In_names_adel; eauto.
Qed.
Lemma dinv_touch f d : imageq f -> dinv d -> dinv (touch_lock f d).
Proof. intros Hf. apply dinv_aset. now apply imageq_lock_of. Qed.
Lemma fl_touch f d : filter nonlock (touch_lock f d) = filter nonlock d.
Proof. apply fl_aset_false, is_lock_lock_of. Qed.
Lemma all_image_filter d : all_image d -> all_image (filter nonlock d).
Proof. intros H g Hg. apply fl_names in Hg as [Hg _]. auto. Qed.

(* ------------------------------------------------------------------ delete *)
Lemma del_file_filter f d : filter nonlock (del_file f d) = adel f (filter nonlock d).
Proof.
  unfold del_file. destruct (is_lock f) eqn:L.
  - rewrite fl_adel_false by exact L. symmetry. apply adel_notin. now apply fl_has_key_lock.
  - destruct (has_key f d) eqn:K.
    + rewrite fl_adel_false by apply is_lock_lock_of. rewrite fl_adel_true by exact L. now rewrite fl_touch.
    + symmetry. apply adel_notin. now rewrite fl_has_key.
Qed.
Lemma dinv_del_file f d : imageq f -> dinv d -> dinv (del_file f d).
Proof.
  intros Hf Hd. unfold del_file. destruct (is_lock f); [now apply dinv_adel|].
  destruct (has_key f d); [|exact Hd]. now apply dinv_adel, dinv_adel, dinv_touch.
Qed.
Lemma del_file_names f d g : NoDup (List.map fst d) -> In g (List.map fst (del_file f d)) ->
  In g (List.map fst d) /\ g <> f.
Proof.
  intros Hn Hg. unfold del_file in Hg. destruct (is_lock f).
  - split; [eapply In_names_adel; eauto|]. intros ->. now apply (adel_removes f d Hn).
  - destruct (has_key f d) eqn:K.
    + pose proof (NoDup_aset (lock_of f) [] d Hn) as N1. fold (touch_lock f d) in N1.
      pose proof (NoDup_adel f _ N1) as N2.
      assert (g <> lock_of f) as G1 by (intros ->; now apply (adel_removes _ _ N2) in Hg).
      apply In_names_adel in Hg.
      assert (g <> f) as G2 by (intros ->; now apply (adel_removes _ _ N1) in Hg).
      apply In_names_adel in Hg. unfold touch_lock in Hg. apply In_names_aset in Hg as [Hg|Hg]; [contradiction|auto].
    + split; [exact Hg|]. intros ->. apply has_key_false in K. contradiction.
Qed.

Definition del_name (f : fname) (s : store) : store := mk_store (del_file f (st_dir s)) (adel f (st_cache s)).
Lemma inv_del_name f s : imageq f -> inv s -> inv (del_name f s).
Proof.
  intros Hf [Hd Hc]. split; cbn; [now apply dinv_del_file|]. now rewrite del_file_filter, Hc.
Qed.

Lemma clear_fold L : forall s, (forall f, In f L -> imageq f) -> inv s ->
  inv (fold_left (fun s f => del_name f s) L s) /\
  forall g, In g (List.map fst (st_dir (fold_left (fun s f => del_name f s) L s))) ->
            In g (List.map fst (st_dir s)) /\ ~ In g L.
Proof.
  induction L as [|f L IH]; intros s HL Hs; cbn [fold_left].
  - split; [exact Hs|]. intros g Hg. split; [exact Hg|tauto].
  - assert (inv (del_name f s)) as H1 by (apply inv_del_name; [apply HL; cbn; auto|exact Hs]).
    destruct (IH (del_name f s) (fun g Hg => HL g (or_intror Hg)) H1) as [I2 N2]. split; [exact I2|].
    intros g Hg. destruct (N2 g Hg) as [A B]. cbn in A.
    destruct (del_file_names f (st_dir s) g (proj1 (proj1 Hs)) A) as [C D].
    split; [exact C|]. intros [E|E]; [congruence|contradiction].
Qed.
Lemma fold_del_eq L : (forall f, In f L -> imageq f) -> forall s0,
  fold_left (fun s f => fst (do_del (unquote_plus f) s)) L s0 = fold_left (fun s f => del_name f s) L s0.
Proof.
  induction L as [|f L IH]; intros Hi s0; cbn [fold_left]; [reflexivity|].
  unfold do_del at 2. cbn [fst]. rewrite imageq_requote by (apply Hi; cbn; auto).
  fold (del_name f s0). apply IH. intros g Hg. apply Hi. cbn. auto.
Qed.
Lemma do_clear_eq s : inv s ->
  do_clear s = fold_left (fun s f => del_name f s) (List.map fst (st_dir s)) s.
Proof. intros [[_ Hi] _]. unfold do_clear. now apply fold_del_eq. Qed.
Lemma inv_clear s : inv s -> inv (do_clear s) /\ st_dir (do_clear s) = [].
Proof.
  intros Hs. rewrite do_clear_eq by exact Hs.
  destruct (clear_fold (List.map fst (st_dir s)) s (proj2 (proj1 Hs)) Hs) as [I N]. split; [exact I|].
  destruct (st_dir (fold_left _ _ s)) as [|[g w] r]; [reflexivity|].
  exfalso. destruct (N g (or_introl eq_refl)) as [A B]. contradiction.
Qed.

(* ------------------------------------------------------------------ synch *)
Lemma synch_files_id l d c :
  (forall f x, In (f, x) l -> is_lock f = false -> has_key f c = true) -> synch_files l d c = (d, c).
Proof.
  induction l as [|[f x] r IH]; intros H; cbn [synch_files]; [reflexivity|].
  destruct (is_lock f) eqn:L; [apply IH; intros; eapply H; [right|]; eauto|].
  rewrite (H f x (or_introl eq_refl) L). apply IH. intros; eapply H; [right|]; eauto.
Qed.
Lemma synch_inv s : inv s -> synch s = s.
Proof.
  intros [Hd Hc]. unfold synch. rewrite synch_files_id; [now destruct s|].
  intros f x Hin L. rewrite Hc, fl_has_key by exact L. apply has_key_In.
  apply in_map_iff. exists (f, x). auto.
Qed.
Lemma filter_nonlock_cons f x (r : dir) :
  filter nonlock ((f, x) :: r) = if is_lock f then filter nonlock r else (f, x) :: filter nonlock r.
Proof. cbn [filter]. unfold nonlock at 1. cbn [fst]. destruct (is_lock f); reflexivity. Qed.
Lemma synch_files_fresh l : forall d0 c0,
  NoDup (List.map fst l) -> all_image l ->
  (forall f, In f (List.map fst l) -> is_lock f = false -> has_key f c0 = false) -> dinv d0 ->
  let '(d', c') := synch_files l d0 c0 in
  c' = c0 ++ filter nonlock l /\ filter nonlock d' = filter nonlock d0 /\ dinv d'.
Proof.
  induction l as [|[f x] r IH]; intros d0 c0 Hn Hi Hf Hd; cbn [synch_files].
  - cbn. now rewrite List.app_nil_r.
  - cbn in Hn. inversion Hn as [|? ? Hnf Hnr]; subst.
    assert (all_image r) as Hir by (intros g Hg; apply Hi; cbn; auto).
    destruct (is_lock f) eqn:L.
    + specialize (IH d0 c0 Hnr Hir (fun g Hg => Hf g (or_intror Hg)) Hd).
      destruct (synch_files r d0 c0) as [d' c']. rewrite filter_nonlock_cons, L. exact IH.
    + rewrite (Hf f (or_introl eq_refl) L).
      assert (imageq f) as If by (apply Hi; cbn; auto).
      specialize (IH (touch_lock f d0) (aset f x c0) Hnr Hir).
      rewrite aset_notin in * by (apply Hf; cbn; auto).
      destruct (synch_files r (touch_lock f d0) (c0 ++ [(f, x)])) as [d' c'].
      destruct IH as (A & B & C).
      * intros g Hg Lg. apply has_key_false. rewrite map_app, in_app_iff. cbn. intros [E|[E|[]]].
        -- apply (has_key_false g c0); [apply Hf; cbn; auto|exact E].
        -- subst. contradiction.
      * now apply dinv_touch.
      * split; [|split; [now rewrite B, fl_touch|exact C]].
        rewrite A, filter_nonlock_cons, L. now rewrite <- app_assoc.
Qed.
Lemma synch_new d : dinv d ->
  inv (synch (mk_store d [])) /\ filter nonlock (st_dir (synch (mk_store d []))) = filter nonlock d
  /\ st_cache (synch (mk_store d [])) = filter nonlock d.
Proof.
  intros [Hn Hi]. unfold synch. cbn [st_dir st_cache].
  pose proof (synch_files_fresh d d [] Hn Hi (fun _ _ _ => eq_refl) (conj Hn Hi)) as H.
  destruct (synch_files d d []) as [d' c']. destruct H as (A & B & C). cbn in A. subst c'.
  split; [split; cbn; [exact C|now rewrite B]|]. cbn. auto.
Qed.
Lemma observe_new_abs d : dinv d -> observe_new d = abs d.
Proof. intros H. unfold observe_new, abs. now rewrite (proj2 (proj2 (synch_new d H))). Qed.

(* ------------------------------------------------------------------ one step *)
Lemma step_sim s o : op_ok o = true -> inv s ->
  let '(s', x) := step s o in
  let '(m', y) := astep (abs (st_dir s)) o in
  x = y /\ inv s' /\ abs (st_dir s') = m'.
Proof.
  intros Ho Hs. pose proof Hs as [[Hn Hi] Hc].
  assert (all_image (st_cache s)) as Hic by (rewrite Hc; now apply all_image_filter).
  destruct o as [k v|k|k| | |k| | |]; cbn [step astep op_ok] in *.
  - (* set *)
    unfold do_set, set_refusal. rewrite is_lock_quote, is_dirname_quote by exact Ho.
    assert (imageq (quote_plus k)) as If by (exists k; auto).
    destruct (is_lock k) eqn:L; [auto|]. destruct (is_dirname k) eqn:D.
    + split; [reflexivity|]. split.
      * split; cbn; [apply dinv_touch; [exact If|now split]|now rewrite fl_touch].
      * unfold abs. cbn. now rewrite fl_touch.
    + rewrite <- (is_lock_quote k Ho) in L. split; [reflexivity|]. split.
      * split; cbn; [apply dinv_aset, dinv_touch; [exact If|exact If|now split]|].
        now rewrite fl_aset_true, fl_touch, Hc by exact L.
      * unfold abs. cbn. rewrite fl_aset_true, fl_touch by exact L. rewrite <- Hc. now apply unq_aset.
  - (* get *)
    unfold do_get. rewrite is_lock_quote by exact Ho.
    assert (assoc k (abs (st_dir s)) = assoc (quote_plus k) (st_cache s)) as EA.
    { unfold abs. rewrite <- Hc. now apply unq_assoc. }
    rewrite EA.
    destruct (is_lock k) eqn:L.
    + rewrite <- (is_lock_quote k Ho) in L. pose proof (fl_has_key_lock _ (st_dir s) L) as K.
      rewrite <- Hc in K. unfold has_key in K. destruct (assoc (quote_plus k) (st_cache s)); [discriminate|].
      auto.
    + rewrite <- (is_lock_quote k Ho) in L. rewrite <- (fl_assoc _ _ L), <- Hc.
      destruct (assoc (quote_plus k) (st_cache s)); auto.
  - (* del *)
    unfold do_del. assert (imageq (quote_plus k)) as If by (exists k; auto).
    fold (del_name (quote_plus k) s). split; [reflexivity|]. split; [now apply inv_del_name|].
    unfold abs. cbn. rewrite del_file_filter, <- Hc. now apply unq_adel.
  - (* keys *) rewrite synch_inv by exact Hs. unfold abs. now rewrite <- Hc.
  - (* items *) rewrite synch_inv by exact Hs. unfold abs. now rewrite <- Hc.
  - (* contains *) split; [|auto]. unfold abs, has_key. rewrite <- Hc. now rewrite unq_assoc.
  - (* len *) split; [|auto]. unfold abs, unq_items. now rewrite map_length.
  - (* clear *) destruct (inv_clear s Hs) as [I E]. split; [reflexivity|]. split; [exact I|]. now rewrite E.
  - (* reopen *) destruct (synch_new (st_dir s) (conj Hn Hi)) as (I & B & _).
    split; [reflexivity|]. split; [exact I|]. unfold abs. now rewrite B.
Qed.

Lemma run_sim ops : forall s, ops_ok ops = true -> inv s ->
  let '(s', xs) := run s ops in
  let '(m', ys) := arun (abs (st_dir s)) ops in
  xs = ys /\ inv s' /\ abs (st_dir s') = m'.
Proof.
  induction ops as [|o r IH]; intros s Ho Hs; cbn [run arun].
  - auto.
  - cbn in Ho. apply andb_true_iff in Ho as [Ho Hr].
    pose proof (step_sim s o Ho Hs) as H1.
    destruct (step s o) as [s1 x]. destruct (astep (abs (st_dir s)) o) as [m1 y]. destruct H1 as (-> & I1 & <-).
    specialize (IH s1 Hr I1). destruct (run s1 r) as [s2 xs]. destruct (arun (abs (st_dir s1)) r) as [m2 ys].
    destruct IH as (-> & I2 & E2). auto.
Qed.

Lemma inv_empty : inv empty_store.
Proof. split; [split; [constructor|intros f []]|reflexivity]. Qed.

(* The refinement: for EVERY sequence of dictionary operations over byte-string keys, started on an
   empty directory, the store answers like a plain map (which refuses to write the three directory
   names and names ending in ".lock"), the data files decode to exactly that map, and a new instance
   opened over the same directory observes exactly that map. *)
Theorem filestore_refines ops : ops_ok ops = true ->
  let '(s, xs) := run empty_store ops in
  let '(m, ys) := arun [] ops in
  xs = ys /\ abs (st_dir s) = m /\ observe_new (st_dir s) = m.
Proof.
  intros Ho. pose proof (run_sim ops empty_store Ho inv_empty) as H. cbn [st_dir empty_store] in H.
  change (abs []) with (@nil (bytes * pystr)) in H.
  destruct (run empty_store ops) as [s xs]. destruct (arun [] ops) as [m ys].
  destruct H as (A & I & B). split; [exact A|]. split; [exact B|]. rewrite <- B. apply observe_new_abs. exact (proj1 I).
Qed.

(* written-then-read, stated directly: after any history, the last value written to a storable key that
   was not deleted since is what a new instance reads. (Corollary of the refinement, as an example of use.) *)
Lemma set_then_new_instance ops k v : ops_ok ops = true -> bytes_ok k = true -> set_refusal k = None ->
  assoc k (observe_new (st_dir (fst (run empty_store (ops ++ [OSet k v]))))) = Some v.
Proof.
  intros Ho Hk Hr.
  assert (ops_ok (ops ++ [OSet k v]) = true) as Ho2.
  { unfold ops_ok. rewrite forallb_app. fold (ops_ok ops). rewrite Ho. cbn. now rewrite Hk. }
  pose proof (filestore_refines _ Ho2) as H.
  destruct (run empty_store (ops ++ [OSet k v])) as [s xs] eqn:R.
  destruct (arun [] (ops ++ [OSet k v])) as [m ys] eqn:A. cbn [fst]. destruct H as (_ & _ & ->).
  clear R Ho2. revert m ys A. generalize (@nil (bytes * pystr)) as m0.
  induction ops as [|o r IH]; intros m0 m ys A; cbn [app arun] in A.
  - cbn [astep] in A. rewrite Hr in A. inversion A; subst. apply assoc_aset_same.
  - cbn in Ho. apply andb_true_iff in Ho as [_ Ho]. destruct (astep m0 o) as [m1 y].
    destruct (arun m1 (r ++ [OSet k v])) as [m2 ys2] eqn:A2. inversion A; subst. eapply IH; eauto.
Qed.

