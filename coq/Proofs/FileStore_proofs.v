(* Proofs/FileStore_proofs.v — the file store refines a plain key -> value map (C13). *)
From Verif Require Import Lib.Base Lib.PyStr Lib.Urlenc Model.FileStore.
Open Scope N_scope.

(* ------------------------------------------------------------------ association lists *)
Section AssocFacts.
  Context {V : Type}.
  Implicit Types d : list (pystr * V).

  Lemma has_key_In k d : has_key k d = true <-> In k (List.map fst d).
  Proof.
    unfold has_key. induction d as [|[g w] r IH]; cbn; [split; [discriminate|tauto]|].
    destruct (str_eqb k g) eqn:E.
    - apply str_eqb_eq in E. subst. split; auto.
    - rewrite IH. apply str_eqb_neq in E. split; [auto|]. intros [H|H]; [congruence|exact H].
  Qed.
  Lemma has_key_false k d : has_key k d = false <-> ~ In k (List.map fst d).
  Proof.
    rewrite <- has_key_In. destruct (has_key k d); split; intro H; try congruence; try discriminate.
  Qed.

  Lemma names_aset k v d :
    List.map fst (aset k v d) = if has_key k d then List.map fst d else List.map fst d ++ [k].
  Proof.
    unfold has_key. induction d as [|[g w] r IH]; cbn; [reflexivity|].
    destruct (str_eqb k g) eqn:E; cbn; [reflexivity|]. rewrite IH. now destruct (assoc k r).
  Qed.
  Lemma In_names_aset g k v d : In g (List.map fst (aset k v d)) <-> g = k \/ In g (List.map fst d).
  Proof.
    rewrite names_aset. destruct (has_key k d) eqn:E.
    - apply has_key_In in E. split; [auto|]. intros [H|H]; [now subst|exact H].
    - rewrite in_app_iff. cbn. split; intros [H|H]; auto. destruct H; [subst; auto|tauto].
  Qed.
  Lemma NoDup_aset k v d : NoDup (List.map fst d) -> NoDup (List.map fst (aset k v d)).
  Proof.
    intros H. rewrite names_aset. destruct (has_key k d) eqn:E; [exact H|].
    apply has_key_false in E. apply NoDup_rev in H. rewrite <- (List.rev_involutive (_ ++ [k])).
    apply NoDup_rev. rewrite List.rev_app_distr. cbn. constructor; [|exact H].
    rewrite <- in_rev. exact E.
  Qed.
  Lemma aset_notin k v d : has_key k d = false -> aset k v d = d ++ [(k, v)].
  Proof.
    unfold has_key. induction d as [|[g w] r IH]; cbn; [reflexivity|].
    destruct (str_eqb k g); [discriminate|]. intros H. now rewrite IH.
  Qed.

  Lemma In_names_adel g k d : In g (List.map fst (adel k d)) -> In g (List.map fst d).
  Proof.
    induction d as [|[h w] r IH]; cbn; [tauto|]. destruct (str_eqb k h); cbn; [auto|]. intros [H|H]; auto.
  Qed.
  Lemma NoDup_adel k d : NoDup (List.map fst d) -> NoDup (List.map fst (adel k d)).
  Proof.
    induction d as [|[h w] r IH]; cbn; [auto|]. intros H. inversion H as [|? ? Hn Hr]; subst.
    destruct (str_eqb k h); cbn; [exact Hr|]. constructor; [|auto]. intro Hin. apply Hn. eapply In_names_adel; eauto.
  Qed.
  Lemma adel_removes k d : NoDup (List.map fst d) -> ~ In k (List.map fst (adel k d)).
  Proof.
    induction d as [|[h w] r IH]; cbn; [tauto|]. intros H. inversion H as [|? ? Hn Hr]; subst.
    destruct (str_eqb k h) eqn:E; cbn.
    - apply str_eqb_eq in E. now subst.
    - apply str_eqb_neq in E. intros [A|A]; [congruence|]. now apply IH.
  Qed.
  Lemma adel_notin k d : has_key k d = false -> adel k d = d.
  Proof.
    unfold has_key. induction d as [|[g w] r IH]; cbn; [reflexivity|].
    destruct (str_eqb k g); [discriminate|]. intros H. now rewrite IH.
  Qed.

  (* filters that look at the name only *)
  Variable Pn : pystr -> bool.
  Notation P := (fun p : pystr * V => Pn (fst p)).

  Lemma filter_aset_true k v d : Pn k = true -> filter P (aset k v d) = aset k v (filter P d).
  Proof.
    intros Hk. induction d as [|[g w] r IH]; cbn; [now rewrite Hk|].
    destruct (str_eqb k g) eqn:E; cbn.
    - apply str_eqb_eq in E. subst g. rewrite Hk. cbn. now rewrite str_eqb_refl.
    - destruct (Pn g); cbn; [rewrite E, IH; reflexivity|exact IH].
  Qed.
  Lemma filter_aset_false k v d : Pn k = false -> filter P (aset k v d) = filter P d.
  Proof.
    intros Hk. induction d as [|[g w] r IH]; cbn; [now rewrite Hk|].
    destruct (str_eqb k g) eqn:E; cbn.
    - apply str_eqb_eq in E. subst g. now rewrite Hk.
    - destruct (Pn g); [now rewrite IH|exact IH].
  Qed.
  Lemma filter_adel_true k d : Pn k = true -> filter P (adel k d) = adel k (filter P d).
  Proof.
    intros Hk. induction d as [|[g w] r IH]; cbn; [reflexivity|].
    destruct (str_eqb k g) eqn:E; cbn.
    - apply str_eqb_eq in E. subst g. rewrite Hk. cbn. now rewrite str_eqb_refl.
    - destruct (Pn g); cbn; [rewrite E, IH; reflexivity|exact IH].
  Qed.
  Lemma filter_adel_false k d : Pn k = false -> filter P (adel k d) = filter P d.
  Proof.
    intros Hk. induction d as [|[g w] r IH]; cbn; [reflexivity|].
    destruct (str_eqb k g) eqn:E; cbn.
    - apply str_eqb_eq in E. subst g. now rewrite Hk.
    - destruct (Pn g); [now rewrite IH|exact IH].
  Qed.
  Lemma assoc_filter k d : Pn k = true -> assoc k (filter P d) = assoc k d.
  Proof.
    intros Hk. induction d as [|[g w] r IH]; cbn; [reflexivity|].
    destruct (str_eqb k g) eqn:E.
    - apply str_eqb_eq in E. subst g. rewrite Hk. cbn. now rewrite str_eqb_refl.
    - destruct (Pn g); cbn; [now rewrite E|exact IH].
  Qed.
  Lemma names_filter g d : In g (List.map fst (filter P d)) <-> In g (List.map fst d) /\ Pn g = true.
  Proof.
    induction d as [|[h w] r IH]; cbn; [tauto|]. destruct (Pn h) eqn:E; cbn; rewrite IH.
    - split; [intros [H|[H1 H2]]; subst; auto|]. intros [[H|H] H2]; auto.
    - split; [tauto|]. intros [[H|H] H2]; [subst; congruence|tauto].
  Qed.
End AssocFacts.

(* ------------------------------------------------------------------ strings: prefixes and suffixes *)
Lemma starts_with_spec p s : starts_with p s = true <-> exists t, s = p ++ t.
Proof.
  revert s. induction p as [|x p IH]; intros s; cbn.
  - split; [intros _; now exists s|reflexivity].
  - destruct s as [|y s]; [split; [discriminate|intros [t Ht]; discriminate]|].
    rewrite andb_true_iff, N.eqb_eq, IH. split.
    + intros [-> [t ->]]. now exists t.
    + intros [t Ht]. inversion Ht; subst. split; [reflexivity|now exists t].
Qed.
Lemma ends_with_spec p s : ends_with p s = true <-> exists t, s = t ++ p.
Proof.
  unfold ends_with. rewrite starts_with_spec. split; intros [t Ht].
  - exists (List.rev t). rewrite <- (List.rev_involutive s), Ht, List.rev_app_distr, List.rev_involutive. reflexivity.
  - exists (List.rev t). rewrite Ht, List.rev_app_distr. reflexivity.
Qed.

(* ------------------------------------------------------------------ quote_plus facts *)
Lemma quote_app a b : quote_plus (a ++ b) = quote_plus a ++ quote_plus b.
Proof. unfold quote_plus. apply flat_map_app. Qed.
Lemma quote_dot_lock : quote_plus dot_lock = dot_lock.
Proof. reflexivity. Qed.

Lemma bytes_ok_is_bytes k : bytes_ok k = true <-> is_bytes k.
Proof.
  unfold bytes_ok, is_bytes. rewrite forallb_forall, Forall_forall.
  split; intros H c Hc; specialize (H c Hc); now apply N.ltb_lt.
Qed.
Lemma bytes_ok_app a b : bytes_ok (a ++ b) = bytes_ok a && bytes_ok b.
Proof. unfold bytes_ok. apply forallb_app. Qed.
Lemma unq_q k : bytes_ok k = true -> unquote_plus (quote_plus k) = k.
Proof. intros H. apply unquote_quote. now apply bytes_ok_is_bytes. Qed.

(* the characters of ".lock" and "." are produced by quote_plus only from themselves *)
Definition plain (x : N) : bool := existsb (N.eqb x) dot_lock.
Definition plain_safe (c : N) : bool :=
  match quote1 c with
  | [x] => (x =? c) || negb (plain x)
  | l => forallb (fun x => negb (plain x)) l
  end && negb (match quote1 c with [] => true | _ => false end).
Lemma plain_sweep : forallb plain_safe all_bytes = true.
Proof. vm_compute. reflexivity. Qed.
Lemma plain_safe_all c : c < 256 -> plain_safe c = true.
Proof.
  intros H. pose proof plain_sweep as S. rewrite forallb_forall in S. apply S.
  unfold all_bytes. apply in_map_iff. exists (N.to_nat c). split; [apply N2Nat.id|]. apply in_seq. lia.
Qed.
Lemma quote1_last_plain c l x : c < 256 -> quote1 c = l ++ [x] -> plain x = true -> l = [] /\ x = c.
Proof.
  intros Hc Hq Hp. pose proof (plain_safe_all c Hc) as S. unfold plain_safe in S. rewrite Hq in S.
  apply andb_true_iff in S as [S _].
  destruct l as [|y l]; cbn [app] in S.
  - apply orb_true_iff in S as [S|S]; [apply N.eqb_eq in S; auto|]. rewrite Hp in S. discriminate.
  - assert (forallb (fun x => negb (plain x)) ((y :: l) ++ [x]) = true) as A.
    { destruct l; exact S. }
    rewrite forallb_app in A. apply andb_true_iff in A as [_ A]. cbn [forallb] in A. rewrite Hp in A. discriminate.
Qed.
Lemma quote1_nonempty c : c < 256 -> quote1 c <> [].
Proof.
  intros Hc E. pose proof (plain_safe_all c Hc) as S. unfold plain_safe in S. rewrite E in S. discriminate.
Qed.

Lemma app_tail_inj {A} (a b l : list A) (x : A) : l <> [] -> a ++ l = b ++ [x] ->
  exists l', l = l' ++ [x] /\ b = a ++ l'.
Proof.
  intros Hl H. destruct (exists_last Hl) as (l' & y & ->). rewrite app_assoc in H.
  apply app_inj_tail in H as [H1 H2]. subst. now exists l'.
Qed.

Lemma quote_suffix p : forallb plain p = true -> forall k t, bytes_ok k = true ->
  quote_plus k = t ++ p -> exists k0, k = k0 ++ p /\ t = quote_plus k0.
Proof.
  induction p as [|x p IH] using rev_ind; intros Hp k t Hk H.
  - exists k. rewrite !List.app_nil_r in *. auto.
  - rewrite forallb_app in Hp. apply andb_true_iff in Hp as [Hp Hx]. cbn in Hx. rewrite andb_true_r in Hx.
    destruct k as [|c0 k0 IHk0] using rev_ind.
    + cbn in H. destruct t; destruct p; discriminate.
    + clear IHk0. rewrite quote_app in H. cbn [quote_plus flat_map] in H. rewrite List.app_nil_r in H.
      rewrite bytes_ok_app in Hk. apply andb_true_iff in Hk as [Hk0 Hc]. cbn in Hc. rewrite andb_true_r in Hc.
      apply N.ltb_lt in Hc. rewrite app_assoc in H.
      destruct (app_tail_inj _ _ _ _ (quote1_nonempty c0 Hc) H) as (l' & Hq & Ht).
      destruct (quote1_last_plain c0 l' x Hc Hq Hx) as [-> ->]. rewrite List.app_nil_r in Ht.
      destruct (IH Hp k0 t Hk0 (eq_sym Ht)) as (k1 & -> & ->).
      exists k1. now rewrite app_assoc.
Qed.

Lemma quote_nil k : bytes_ok k = true -> quote_plus k = [] -> k = [].
Proof.
  destruct k as [|c k]; [auto|]. intros Hk H. cbn in Hk. apply andb_true_iff in Hk as [Hc _].
  apply N.ltb_lt in Hc. cbn in H. apply app_eq_nil in H as [H _]. now apply quote1_nonempty in H.
Qed.

Lemma is_lock_quote k : bytes_ok k = true -> is_lock (quote_plus k) = is_lock k.
Proof.
  intros Hk. unfold is_lock. destruct (ends_with dot_lock k) eqn:E.
  - apply ends_with_spec in E as [t ->]. apply ends_with_spec. exists (quote_plus t). now rewrite quote_app.
  - destruct (ends_with dot_lock (quote_plus k)) eqn:E2; [|reflexivity].
    apply ends_with_spec in E2 as [t Ht]. destruct (quote_suffix dot_lock eq_refl k t Hk Ht) as (k0 & -> & _).
    assert (ends_with dot_lock (k0 ++ dot_lock) = true) by (apply ends_with_spec; now exists k0). congruence.
Qed.
Lemma is_lock_lock_of f : is_lock (lock_of f) = true.
Proof. apply ends_with_spec. now exists f. Qed.

Lemma is_dirname_spec f : is_dirname f = true <-> f = [] \/ f = [46] \/ f = [46; 46].
Proof. unfold is_dirname. rewrite !orb_true_iff, !str_eqb_eq. tauto. Qed.

Lemma is_dirname_quote k : bytes_ok k = true -> is_dirname (quote_plus k) = is_dirname k.
Proof.
  intros Hk. destruct (is_dirname k) eqn:E.
  - apply is_dirname_spec in E as [->|[->| ->]]; reflexivity.
  - destruct (is_dirname (quote_plus k)) eqn:E2; [|reflexivity]. exfalso.
    apply is_dirname_spec in E2 as [Hq|[Hq|Hq]].
    + apply quote_nil in Hq; [|exact Hk]. subst. discriminate.
    + destruct (quote_suffix [46] eq_refl k [] Hk Hq) as (k0 & -> & Hk0).
      rewrite bytes_ok_app in Hk. apply andb_true_iff in Hk as [Hk _].
      symmetry in Hk0. apply quote_nil in Hk0; [|exact Hk]. subst. discriminate.
    + destruct (quote_suffix [46; 46] eq_refl k [] Hk Hq) as (k0 & -> & Hk0).
      rewrite bytes_ok_app in Hk. apply andb_true_iff in Hk as [Hk _].
      symmetry in Hk0. apply quote_nil in Hk0; [|exact Hk]. subst. discriminate.
Qed.

(* ------------------------------------------------------------------ names in the image of quote_plus *)
Definition imageq (f : fname) : Prop := exists k, bytes_ok k = true /\ f = quote_plus k.
Lemma imageq_lock_of f : imageq f -> imageq (lock_of f).
Proof.
  intros (k & Hk & ->). exists (k ++ dot_lock). split; [rewrite bytes_ok_app, Hk; reflexivity|].
  unfold lock_of. now rewrite quote_app.
Qed.
Lemma imageq_eqb k f : bytes_ok k = true -> imageq f -> str_eqb (quote_plus k) f = str_eqb k (unquote_plus f).
Proof.
  intros Hk (k' & Hk' & ->). rewrite unq_q by exact Hk'.
  destruct (str_eqb k k') eqn:E.
  - apply str_eqb_eq in E. subst. apply str_eqb_refl.
  - apply str_eqb_neq. apply str_eqb_neq in E. intro H. apply E.
    rewrite <- (unq_q k Hk), <- (unq_q k' Hk'). now rewrite H.
Qed.
Lemma imageq_requote f : imageq f -> quote_plus (unquote_plus f) = f.
Proof. intros (k & Hk & ->). now rewrite unq_q. Qed.

Definition all_image (c : list (fname * pystr)) : Prop := forall f, In f (List.map fst c) -> imageq f.

Lemma unq_assoc k c : bytes_ok k = true -> all_image c -> assoc k (unq_items c) = assoc (quote_plus k) c.
Proof.
  intros Hk. induction c as [|[g w] r IH]; intros Hc; cbn; [reflexivity|].
  rewrite (imageq_eqb k g Hk) by (apply Hc; cbn; auto).
  destruct (str_eqb k (unquote_plus g)); [reflexivity|]. apply IH. intros f Hf. apply Hc. cbn. auto.
Qed.
Lemma unq_aset k v c : bytes_ok k = true -> all_image c ->
  unq_items (aset (quote_plus k) v c) = aset k v (unq_items c).
Proof.
  intros Hk. induction c as [|[g w] r IH]; intros Hc; cbn.
  - now rewrite unq_q.
  - rewrite (imageq_eqb k g Hk) by (apply Hc; cbn; auto).
    destruct (str_eqb k (unquote_plus g)); cbn; [reflexivity|]. rewrite IH; [reflexivity|].
    intros f Hf. apply Hc. cbn. auto.
Qed.
Lemma unq_adel k c : bytes_ok k = true -> all_image c ->
  unq_items (adel (quote_plus k) c) = adel k (unq_items c).
Proof.
  intros Hk. induction c as [|[g w] r IH]; intros Hc; cbn; [reflexivity|].
  rewrite (imageq_eqb k g Hk) by (apply Hc; cbn; auto).
  destruct (str_eqb k (unquote_plus g)); cbn; [reflexivity|]. rewrite IH; [reflexivity|].
  intros f Hf. apply Hc. cbn. auto.
Qed.
