(* Proofs/Flight_proofs.v — lemmas about Model/Flight.v: whatever the interleaving of the calls that
   belong to different requests, an endpoint whose outputs do not depend on its state answers every
   request as if it were alone; the model endpoint is such an endpoint; where its answers go. *)
From Coq Require Import String Lia.
From Verif Require Import Lib.Base Lib.PyStr Lib.Urlenc Lib.Html Model.Uri Model.Delivery Model.Flight
  Proofs.Uri_proofs Proofs.Delivery_proofs.
Open Scope N_scope.

(* ------------------------------------------------------------------ the table *)
Lemma tget_tdel i j t : tget i (tdel j t) = if Nat.eqb i j then None else tget i t.
Proof.
  induction t as [|[k s] t IH]; cbn.
  - now destruct (Nat.eqb i j).
  - destruct (Nat.eqb j k) eqn:Ejk.
    + rewrite IH. destruct (Nat.eqb i j) eqn:Eij; [reflexivity|].
      apply Nat.eqb_eq in Ejk. subst k. now rewrite Eij.
    + cbn. destruct (Nat.eqb i k) eqn:Eik.
      * destruct (Nat.eqb i j) eqn:Eij; [|reflexivity].
        apply Nat.eqb_eq in Eij, Eik. subst. now rewrite Nat.eqb_refl in Ejk.
      * exact IH.
Qed.
Lemma tget_tset i j s t : tget i (tset j s t) = if Nat.eqb i j then Some s else tget i t.
Proof. unfold tset. cbn. destruct (Nat.eqb i j) eqn:E; [reflexivity|]. rewrite tget_tdel. now rewrite E. Qed.

(* ------------------------------------------------------------------ any endpoint with state-independent outputs *)
Section Independent.
  Variable S : Type.
  Variable E : endpoint S.
  Hypothesis Hparse : forall s s' r, snd (e_parse E s r) = snd (e_parse E s' r).
  Hypothesis Hpart2 : forall s s' p, snd (e_part2 E s p) = snd (e_part2 E s' p).

  Definition slot_ok (reqs : list areq) (i : nat) (sl : slot) : Prop :=
    exists r v, nth_error reqs i = Some r /\ snd (e_parse E (e_init E) r) = Redirectable v /\
      (sl = SParsed (set_uri r v) \/ sl = SAuthed (set_uri r v) \/ sl = SAnswer (own_answer E r)).
  Definition table_ok (reqs : list areq) (t : table) : Prop :=
    forall i sl, tget i t = Some sl -> slot_ok reqs i sl.
  Definition out_ok (reqs : list areq) (out : list (nat * answer)) : Prop :=
    forall i a, In (i, a) out -> exists r, nth_error reqs i = Some r /\ a = own_answer E r.

  Lemma table_ok_set reqs t i sl : table_ok reqs t -> slot_ok reqs i sl -> table_ok reqs (tset i sl t).
  Proof.
    intros Ht Hs j sl' Hj. rewrite tget_tset in Hj. destruct (Nat.eqb j i) eqn:Eji.
    - apply Nat.eqb_eq in Eji. subst j. now inversion Hj; subst.
    - now apply Ht.
  Qed.
  Lemma table_ok_del reqs t i : table_ok reqs t -> table_ok reqs (tdel i t).
  Proof.
    intros Ht j sl Hj. rewrite tget_tdel in Hj. destruct (Nat.eqb j i); [discriminate|]. now apply Ht.
  Qed.

  Lemma own_answer_redirectable r v s :
    snd (e_parse E (e_init E) r) = Redirectable v ->
    snd (e_part2 E s (set_uri r v)) = own_answer E r.
  Proof.
    intros Hp. unfold own_answer. destruct (e_parse E (e_init E) r) as [s1 d] eqn:Ep. cbn in Hp. subst d.
    apply Hpart2.
  Qed.
  Lemma own_answer_refused r :
    (forall v, snd (e_parse E (e_init E) r) <> Redirectable v) ->
    of_decision (snd (e_parse E (e_init E) r)) = own_answer E r.
  Proof.
    intros Hn. unfold own_answer. destruct (e_parse E (e_init E) r) as [s1 d] eqn:Ep. cbn in *.
    destruct d; try reflexivity. now destruct (Hn u).
  Qed.

  Lemma step_ok reqs s t ev s' t' out :
    table_ok reqs t -> step E reqs (s, t) ev = ((s', t'), out) -> table_ok reqs t' /\ out_ok reqs out.
  Proof.
    intros Ht Hs. assert (Hnil : out_ok reqs []) by (intros ? ? []).
    destruct ev as [i|i|i|i|i]; cbn in Hs.
    - (* parse *)
      destruct (nth_error reqs i) as [r|] eqn:Er; [|inversion Hs; subst; now split].
      destruct (e_parse E s r) as [s1 d] eqn:Ep.
      assert (Hd : snd (e_parse E (e_init E) r) = d) by (rewrite (Hparse (e_init E) s r), Ep; reflexivity).
      destruct d as [v| |e|]; inversion Hs; subst; clear Hs.
      + split; [|exact Hnil]. apply table_ok_set; [exact Ht|]. exists r, v. repeat split; auto.
      + split; [now apply table_ok_del|]. intros j a [Hj|[]]. inversion Hj; subst. exists r. split; [exact Er|].
        rewrite <- own_answer_refused; [now rewrite Hd|]. intros v. rewrite Hd. discriminate.
      + split; [now apply table_ok_del|]. intros j a [Hj|[]]. inversion Hj; subst. exists r. split; [exact Er|].
        rewrite <- own_answer_refused; [now rewrite Hd|]. intros v. rewrite Hd. discriminate.
      + split; [now apply table_ok_del|]. intros j a [Hj|[]]. inversion Hj; subst. exists r. split; [exact Er|].
        rewrite <- own_answer_refused; [now rewrite Hd|]. intros v. rewrite Hd. discriminate.
    - (* process *)
      destruct (tget i t) as [[p|p|a]|] eqn:Eg; try (inversion Hs; subst; now split).
      destruct (e_part2 E (e_auth E s p) p) as [s1 a] eqn:Ep2. inversion Hs; subst; clear Hs.
      split; [|exact Hnil]. apply table_ok_set; [exact Ht|].
      destruct (Ht _ _ Eg) as (r & v & Er & Hp & [Hsl|[Hsl|Hsl]]); try discriminate. inversion Hsl; subst p.
      exists r, v. repeat split; auto. right. right. f_equal.
      rewrite <- (own_answer_redirectable r v (e_auth E s (set_uri r v)) Hp). now rewrite Ep2.
    - (* auth *)
      destruct (tget i t) as [[p|p|a]|] eqn:Eg; try (inversion Hs; subst; now split).
      inversion Hs; subst; clear Hs. split; [|exact Hnil]. apply table_ok_set; [exact Ht|].
      destruct (Ht _ _ Eg) as (r & v & Er & Hp & [Hsl|[Hsl|Hsl]]); try discriminate. inversion Hsl; subst p.
      exists r, v. repeat split; auto.
    - (* part2 *)
      destruct (tget i t) as [[p|p|a]|] eqn:Eg; try (inversion Hs; subst; now split).
      destruct (e_part2 E s p) as [s1 a] eqn:Ep2. inversion Hs; subst; clear Hs.
      split; [|exact Hnil]. apply table_ok_set; [exact Ht|].
      destruct (Ht _ _ Eg) as (r & v & Er & Hp & [Hsl|[Hsl|Hsl]]); try discriminate. inversion Hsl; subst p.
      exists r, v. repeat split; auto. right. right. f_equal.
      rewrite <- (own_answer_redirectable r v s Hp). now rewrite Ep2.
    - (* respond *)
      destruct (tget i t) as [[p|p|a]|] eqn:Eg; try (inversion Hs; subst; now split).
      inversion Hs; subst; clear Hs. split; [now apply table_ok_del|].
      intros j b [Hj|[]]. inversion Hj; subst.
      destruct (Ht _ _ Eg) as (r & v & Er & Hp & [Hsl|[Hsl|Hsl]]); try discriminate. inversion Hsl; subst.
      exists r. now split.
  Qed.

  Lemma run_from_ok reqs sched : forall s t, table_ok reqs t -> out_ok reqs (run_from E reqs (s, t) sched).
  Proof.
    induction sched as [|ev rest IH]; intros s t Ht; cbn [run_from].
    - intros ? ? [].
    - destruct (step E reqs (s, t) ev) as [[s' t'] out] eqn:Es.
      destruct (step_ok _ _ _ _ _ _ _ Ht Es) as [Ht' Ho].
      intros i a Hin. apply in_app_or in Hin as [Hin|Hin]; [now apply Ho|]. exact (IH s' t' Ht' i a Hin).
  Qed.

  Theorem flight_independent reqs sched i a :
    In (i, a) (run_flight E reqs sched) -> exists r, nth_error reqs i = Some r /\ a = own_answer E r.
  Proof. unfold run_flight. apply run_from_ok. intros j sl Hj. discriminate. Qed.
End Independent.

(* ------------------------------------------------------------------ the model endpoint *)
Theorem model_keeps_nothing (s s' : unit) r :
  e_parse ep_model s r = e_parse ep_model s' r /\ e_auth ep_model s r = e_auth ep_model s' r
  /\ e_part2 ep_model s r = e_part2 ep_model s' r.
Proof. now destruct s, s'. Qed.

Lemma own_answer_model r : own_answer ep_model r = answer1 r.
Proof. unfold own_answer, answer1. cbn. now destruct (parse_step r). Qed.

Theorem flight_model reqs sched i a :
  In (i, a) (run_flight ep_model reqs sched) -> exists r, nth_error reqs i = Some r /\ a = answer1 r.
Proof.
  intros H. apply (flight_independent unit ep_model) in H.
  - destruct H as (r & Hr & Ha). exists r. now rewrite <- own_answer_model.
  - reflexivity.
  - reflexivity.
Qed.

(* ------------------------------------------------------------------ every request does get its answer *)
Definition event_id (ev : event) : nat :=
  match ev with EvParse i | EvProcess i | EvAuth i | EvPart2 i | EvRespond i => i end.
Definition about (i : nat) (l : list event) : bool := existsb (fun ev => Nat.eqb (event_id ev) i) l.
Fixpoint exec {S} (E : endpoint S) (reqs : list areq) (st : S * table) (sched : list event) : S * table :=
  match sched with [] => st | ev :: r => exec E reqs (fst (step E reqs st ev)) r end.

Lemma run_from_app {S} (E : endpoint S) reqs a : forall st b,
  run_from E reqs st (a ++ b) = run_from E reqs st a ++ run_from E reqs (exec E reqs st a) b.
Proof.
  induction a as [|ev a IH]; intros st b; cbn [app run_from exec]; [reflexivity|].
  destruct (step E reqs st ev) as [st' out]. cbn [fst]. now rewrite IH, app_assoc.
Qed.

Lemma step_other reqs st ev i : event_id ev <> i ->
  tget i (snd (fst (step ep_model reqs st ev))) = tget i (snd st).
Proof.
  intros Hne. destruct st as [s t].
  assert (Hset : forall sl, tget i (tset (event_id ev) sl t) = tget i t).
  { intros sl. rewrite tget_tset. destruct (Nat.eqb i (event_id ev)) eqn:E; [|reflexivity].
    apply Nat.eqb_eq in E. now destruct Hne. }
  assert (Hdel : tget i (tdel (event_id ev) t) = tget i t).
  { rewrite tget_tdel. destruct (Nat.eqb i (event_id ev)) eqn:E; [|reflexivity].
    apply Nat.eqb_eq in E. now destruct Hne. }
  destruct ev as [j|j|j|j|j]; cbn in *.
  - destruct (nth_error reqs j); [|reflexivity]. destruct (parse_step a); cbn; auto.
  - destruct (tget j t) as [[p|p|a]|]; cbn; auto.
  - destruct (tget j t) as [[p|p|a]|]; cbn; auto.
  - destruct (tget j t) as [[p|p|a]|]; cbn; auto.
  - destruct (tget j t) as [[p|p|a]|]; cbn; auto.
Qed.
Lemma exec_other reqs l i : about i l = false -> forall st,
  tget i (snd (exec ep_model reqs st l)) = tget i (snd st).
Proof.
  induction l as [|ev l IH]; intros Ha st; cbn; [reflexivity|].
  cbn in Ha. apply Bool.orb_false_iff in Ha as [He Hl]. rewrite (IH Hl).
  apply step_other. intros E. subst i. now rewrite Nat.eqb_refl in He.
Qed.

(* the state of the model endpoint is the one point *)
Lemma st_eta (st : unit * table) : st = (tt, snd st).
Proof. now destruct st as [[] t]. Qed.

Lemma parse_then reqs i r st rest :
  nth_error reqs i = Some r ->
  (exists v, parse_step r = Redirectable v /\
     run_from ep_model reqs st (EvParse i :: rest)
     = run_from ep_model reqs (tt, tset i (SParsed (set_uri r v)) (snd st)) rest)
  \/ In (i, answer1 r) (run_from ep_model reqs st (EvParse i :: rest)).
Proof.
  intros Hr. rewrite (st_eta st). cbn. rewrite Hr. unfold answer1.
  destruct (parse_step r) as [v| |e|] eqn:Ep; cbn.
  - left. exists v. split; reflexivity.
  - right. now left.
  - right. now left.
  - right. now left.
Qed.

Theorem flight_answers_process reqs i r a b c d :
  nth_error reqs i = Some r -> about i b = false -> about i c = false ->
  In (i, answer1 r)
     (run_flight ep_model reqs (a ++ EvParse i :: b ++ EvProcess i :: c ++ EvRespond i :: d)).
Proof.
  intros Hr Hb Hc. unfold run_flight. rewrite run_from_app. apply in_or_app. right.
  destruct (parse_then reqs i r (exec ep_model reqs (e_init ep_model, []) a)
              (b ++ EvProcess i :: c ++ EvRespond i :: d) Hr) as [(v & Ep & Hrun)|Hin]; [|exact Hin].
  rewrite Hrun. clear Hrun. rewrite run_from_app. apply in_or_app. right.
  set (st1 := exec ep_model reqs _ b).
  assert (H1 : tget i (snd st1) = Some (SParsed (set_uri r v))).
  { unfold st1. rewrite (exec_other reqs b i Hb). cbn. now rewrite Nat.eqb_refl. }
  rewrite (st_eta st1). cbn [run_from step]. rewrite H1. cbn [ep_model e_part2 e_auth].
  cbn [app]. rewrite run_from_app. apply in_or_app. right.
  set (st2 := exec ep_model reqs _ c).
  assert (H2 : tget i (snd st2) = Some (SAnswer (process_step (set_uri r v)))).
  { unfold st2. rewrite (exec_other reqs c i Hc). cbn [snd]. rewrite tget_tset. now rewrite Nat.eqb_refl. }
  rewrite (st_eta st2). cbn [run_from step]. rewrite H2. left. unfold answer1. now rewrite Ep.
Qed.

Theorem flight_answers_login reqs i r a b c c' d :
  nth_error reqs i = Some r -> about i b = false -> about i c = false -> about i c' = false ->
  In (i, answer1 r)
     (run_flight ep_model reqs (a ++ EvParse i :: b ++ EvAuth i :: c ++ EvPart2 i :: c' ++ EvRespond i :: d)).
Proof.
  intros Hr Hb Hc Hc'. unfold run_flight. rewrite run_from_app. apply in_or_app. right.
  destruct (parse_then reqs i r (exec ep_model reqs (e_init ep_model, []) a)
              (b ++ EvAuth i :: c ++ EvPart2 i :: c' ++ EvRespond i :: d) Hr) as [(v & Ep & Hrun)|Hin]; [|exact Hin].
  rewrite Hrun. clear Hrun. rewrite run_from_app. apply in_or_app. right.
  set (st1 := exec ep_model reqs _ b).
  assert (H1 : tget i (snd st1) = Some (SParsed (set_uri r v))).
  { unfold st1. rewrite (exec_other reqs b i Hb). cbn. now rewrite Nat.eqb_refl. }
  rewrite (st_eta st1). cbn [run_from step]. rewrite H1. cbn [ep_model e_part2 e_auth].
  cbn [app]. rewrite run_from_app. apply in_or_app. right.
  set (st2 := exec ep_model reqs _ c).
  assert (H2 : tget i (snd st2) = Some (SAuthed (set_uri r v))).
  { unfold st2. rewrite (exec_other reqs c i Hc). cbn [snd]. rewrite tget_tset. now rewrite Nat.eqb_refl. }
  rewrite (st_eta st2). cbn [run_from step]. rewrite H2. cbn [ep_model e_part2 e_auth].
  cbn [app]. rewrite run_from_app. apply in_or_app. right.
  set (st3 := exec ep_model reqs _ c').
  assert (H3 : tget i (snd st3) = Some (SAnswer (process_step (set_uri r v)))).
  { unfold st3. rewrite (exec_other reqs c' i Hc'). cbn [snd]. rewrite tget_tset. now rewrite Nat.eqb_refl. }
  rewrite (st_eta st3). cbn [run_from step]. rewrite H3. left. unfold answer1. now rewrite Ep.
Qed.

(* ------------------------------------------------------------------ where the answer of a request goes *)
Definition own_target (r : areq) (v : pystr) : Prop :=
  decide (q_regs r) (q_native r) (q_oidc r) (q_uri r) = Redirectable v /\
  match q_uri r with
  | Some u => v = u /\ verify_uri (q_regs r) (q_native r) (q_oidc r) u = Ok tt
  | None => exists b q, q_regs r = [RPair b q] /\ join_query b q = Ok v
  end.

Lemma process_step_target r v a :
  process_step (set_uri r v) = a -> a <> AOutside -> a <> AOther ->
  (q_form r = false /\ exists l, enc_pairs (q_args r) = Ok l /\ a = ARedirect (place v (urlencode_b l) (q_frag r)))
  \/ (q_form r = true /\ exists l, form_pairs (q_args r) = Ok l /\ a = APage (form_page v l)).
Proof.
  unfold process_step, deliver_to, url_refused.
  cbn [set_uri q_regs q_native q_oidc q_uri q_form q_frag q_args]. unfold get_uri.
  destruct (verify_uri (q_regs r) (q_native r) (q_oidc r) v) as [[]|e|]; cbn [bind]; intros Ha Hn Ho;
    try (now subst a; destruct Hn).
  destruct (q_form r).
  - right. split; [reflexivity|]. unfold deliver_form in Ha.
    destruct (form_pairs (q_args r)) as [l|e|]; cbn [bind] in Ha; try (now subst a; destruct Hn).
    exists l. now split.
  - left. split; [reflexivity|].
    destruct (negb (q_oidc r) && negb (has_key (PS "code"%string) (q_args r))); [now subst a; destruct Ho|].
    unfold deliver_url in Ha.
    destruct (enc_pairs (q_args r)) as [l|e|]; cbn [bind] in Ha; try (now subst a; destruct Hn).
    exists l. now split.
Qed.

Theorem answer1_redirect r url :
  answer1 r = ARedirect url ->
  exists v l, own_target r v /\ q_form r = false /\ enc_pairs (q_args r) = Ok l
              /\ url = place v (urlencode_b l) (q_frag r).
Proof.
  unfold answer1, parse_step. intros H.
  destruct (decide (q_regs r) (q_native r) (q_oidc r) (q_uri r)) as [v| |e|] eqn:Ed; try discriminate.
  destruct (process_step_target r v _ H) as [(Hf & l & Hl & Ha)|(Hf & l & Hl & Ha)]; try discriminate;
    try (rewrite H; discriminate).
  inversion Ha; subst url. exists v, l. repeat split; auto.
  exact (decide_redirectable _ _ _ _ _ Ed).
Qed.

Theorem answer1_page r page :
  answer1 r = APage page ->
  exists v l, own_target r v /\ q_form r = true /\ form_pairs (q_args r) = Ok l
              /\ page = form_page v l /\ read_page page = Some (v, l).
Proof.
  unfold answer1, parse_step. intros H.
  destruct (decide (q_regs r) (q_native r) (q_oidc r) (q_uri r)) as [v| |e|] eqn:Ed; try discriminate.
  destruct (process_step_target r v _ H) as [(Hf & l & Hl & Ha)|(Hf & l & Hl & Ha)]; try discriminate;
    try (rewrite H; discriminate).
  inversion Ha; subst page. exists v, l. repeat split; auto.
  - exact (decide_redirectable _ _ _ _ _ Ed).
  - apply read_page_form_page.
Qed.

(* in a flight: a redirect or a page handed out for request number i goes to the target of request i *)
Theorem flight_redirect_own reqs sched i url :
  In (i, ARedirect url) (run_flight ep_model reqs sched) ->
  exists r v l, nth_error reqs i = Some r /\ own_target r v /\ enc_pairs (q_args r) = Ok l
                /\ url = place v (urlencode_b l) (q_frag r).
Proof.
  intros H. apply flight_model in H as (r & Hr & Ha). symmetry in Ha.
  apply answer1_redirect in Ha as (v & l & Ht & _ & Hl & Hu). now exists r, v, l.
Qed.
Theorem flight_page_own reqs sched i page :
  In (i, APage page) (run_flight ep_model reqs sched) ->
  exists r v l, nth_error reqs i = Some r /\ own_target r v /\ form_pairs (q_args r) = Ok l
                /\ read_page page = Some (v, l).
Proof.
  intros H. apply flight_model in H as (r & Hr & Ha). symmetry in Ha.
  apply answer1_page in Ha as (v & l & Ht & _ & Hl & _ & Hp). now exists r, v, l.
Qed.

(* ================================================================== completion: the second judgement of the redirect URI *)
(* what "v is a place the registration g allows request p to be answered at" means *)
Definition target_at (g : regn) (p : areq) (v : pystr) : Prop :=
  match g with
  | Gone => False
  | Reg regs native =>
      match q_uri p with
      | Some u => v = u /\ verify_uri regs native (q_oidc p) u = Ok tt
      | None => exists b q, regs = [RPair b q] /\ join_query b q = Ok v
      end
  end.

Lemma get_uri_at_target g p v : get_uri_at g (q_oidc p) (q_uri p) = Ok v -> target_at g p v.
Proof.
  destruct g as [|regs native]; cbn [get_uri_at target_at]; [discriminate|]. intros H.
  assert (D : decide regs native (q_oidc p) (q_uri p) = Redirectable v) by (unfold decide; now rewrite H).
  exact (decide_redirectable _ _ _ _ _ D).
Qed.

Lemma deliver_to_redirect v p url : deliver_to v p = ARedirect url ->
  exists l, enc_pairs (q_args p) = Ok l /\ url = place v (urlencode_b l) (q_frag p).
Proof.
  unfold deliver_to. destruct (q_form p).
  - destruct (deliver_form v (q_args p)); discriminate.
  - destruct (url_refused p); [discriminate|]. unfold deliver_url.
    destruct (enc_pairs (q_args p)) as [l|e|]; cbn [bind]; try discriminate.
    intros H. inversion H. now exists l.
Qed.
Lemma deliver_to_page v p page : deliver_to v p = APage page ->
  exists l, form_pairs (q_args p) = Ok l /\ page = form_page v l.
Proof.
  unfold deliver_to. destruct (q_form p).
  - unfold deliver_form. destruct (form_pairs (q_args p)) as [l|e|]; cbn [bind]; try discriminate.
    intros H. inversion H. now exists l.
  - destruct (url_refused p); [discriminate|]. destruct (deliver_url v (q_args p) (q_frag p)); discriminate.
Qed.
Definition mode_frag (md : rmode) : bool := match md with MFragment => true | _ => false end.
Lemma by_mode_redirect md v p url : by_mode md v p = ARedirect url ->
  exists l, enc_pairs (q_args p) = Ok l /\ url = place v (urlencode_b l) (mode_frag md).
Proof.
  unfold by_mode, deliver_url, deliver_form. destruct md; try discriminate.
  - destruct (url_refused p); [discriminate|].
    destruct (enc_pairs (q_args p)) as [l|e|]; cbn [bind]; try discriminate. intros H. inversion H. now exists l.
  - destruct (url_refused p); [discriminate|].
    destruct (enc_pairs (q_args p)) as [l|e|]; cbn [bind]; try discriminate. intros H. inversion H. now exists l.
  - destruct (form_pairs (q_args p)); cbn [bind]; discriminate.
Qed.
Lemma by_mode_page md v p page : by_mode md v p = APage page ->
  md = MForm /\ exists l, form_pairs (q_args p) = Ok l /\ page = form_page v l.
Proof.
  unfold by_mode, deliver_url, deliver_form. destruct md; try discriminate.
  - destruct (url_refused p); [discriminate|]. destruct (enc_pairs (q_args p)); cbn [bind]; discriminate.
  - destruct (url_refused p); [discriminate|]. destruct (enc_pairs (q_args p)); cbn [bind]; discriminate.
  - destruct (form_pairs (q_args p)) as [l|e|]; cbn [bind]; try discriminate. intros H. inversion H.
    split; [reflexivity|]. now exists l.
Qed.

(* whatever the completion step sends by redirect goes to a URI that get_uri accepts under the registration
   in force when the response is built, and carries exactly the parameters issued for the request *)
Theorem complete_redirect g md failed p url :
  complete g md failed p = ARedirect url ->
  exists v l, get_uri_at g (q_oidc p) (q_uri p) = Ok v /\ target_at g p v /\ enc_pairs (q_args p) = Ok l
              /\ url = place v (urlencode_b l) (if failed then mode_frag md else q_frag p).
Proof.
  unfold complete. destruct (get_uri_at g (q_oidc p) (q_uri p)) as [v|e|] eqn:E; try discriminate.
  intros H. pose proof (get_uri_at_target _ _ _ E) as T. destruct failed.
  - apply by_mode_redirect in H as (l & Hl & Hu). now exists v, l.
  - apply deliver_to_redirect in H as (l & Hl & Hu). now exists v, l.
Qed.
Theorem complete_page g md failed p page :
  complete g md failed p = APage page ->
  exists v l, get_uri_at g (q_oidc p) (q_uri p) = Ok v /\ target_at g p v /\ form_pairs (q_args p) = Ok l
              /\ page = form_page v l /\ read_page page = Some (v, l).
Proof.
  unfold complete. destruct (get_uri_at g (q_oidc p) (q_uri p)) as [v|e|] eqn:E; try discriminate.
  intros H. pose proof (get_uri_at_target _ _ _ E) as T. destruct failed.
  - apply by_mode_page in H as (_ & l & Hl & Hu). exists v, l. subst page. repeat split; auto. apply read_page_form_page.
  - apply deliver_to_page in H as (l & Hl & Hu). exists v, l. subst page. repeat split; auto. apply read_page_form_page.
Qed.
(* a redirect URI that does not verify when the response is built: nothing is placed anywhere, whatever the
   exception, the response mode, and whether or not completion failed for another reason as well *)
Theorem complete_unverified_direct g md failed p e :
  get_uri_at g (q_oidc p) (q_uri p) = Err e -> complete g md failed p = AOther.
Proof. unfold complete. now intros ->. Qed.
Theorem complete_gone md failed p : complete Gone md failed p = AOther.
Proof. reflexivity. Qed.
(* an error built after a failed completion travels by redirect iff the URI verifies at that moment *)
Theorem complete_failed g md p :
  (forall v, get_uri_at g (q_oidc p) (q_uri p) = Ok v -> complete g md true p = by_mode md v p) /\
  (forall e, get_uri_at g (q_oidc p) (q_uri p) = Err e -> complete g md true p = AOther).
Proof. unfold complete. split; now intros ? ->. Qed.
Theorem by_mode_form v p l : form_pairs (q_args p) = Ok l -> by_mode MForm v p = APage (form_page v l).
Proof. unfold by_mode, deliver_form. now intros ->. Qed.

(* a stored request is judged by the completion step alone *)
Theorem answer_at_stored viap failed g md r : answer_at true viap failed g md r = complete g md failed r.
Proof. reflexivity. Qed.

(* the whole history: a redirect / a page handed out for a request goes to a URI verified under the registration in
   force at completion; p is the request as the completion step saw it *)
Definition seen_at_completion (stored : bool) (r p : areq) : Prop :=
  if stored then p = r else exists v0, parse_step r = Redirectable v0 /\ p = set_uri r v0.
Theorem answer_at_redirect stored viap failed g md r url :
  answer_at stored viap failed g md r = ARedirect url ->
  exists p v l frag, seen_at_completion stored r p /\ get_uri_at g (q_oidc p) (q_uri p) = Ok v /\ target_at g p v
                     /\ enc_pairs (q_args r) = Ok l /\ url = place v (urlencode_b l) frag.
Proof.
  unfold answer_at. destruct stored.
  - intros H. apply complete_redirect in H as (v & l & H1 & H2 & H3 & H4). exists r, v, l. eexists. repeat split; eauto.
  - destruct (parse_step r) as [v0| |e|] eqn:Ep; cbn [of_decision]; try discriminate.
    intros H. assert (H' : exists f, complete g md f (set_uri r v0) = ARedirect url).
    { destruct viap; [|eauto]. unfold process_call in H. destruct g; [discriminate|eauto]. }
    destruct H' as [f H']. apply complete_redirect in H' as (v & l & H1 & H2 & H3 & H4).
    exists (set_uri r v0), v, l. eexists. repeat split; eauto. exists v0. auto.
Qed.
Theorem answer_at_page stored viap failed g md r page :
  answer_at stored viap failed g md r = APage page ->
  exists p v l, seen_at_completion stored r p /\ get_uri_at g (q_oidc p) (q_uri p) = Ok v /\ target_at g p v
                /\ form_pairs (q_args r) = Ok l /\ read_page page = Some (v, l).
Proof.
  unfold answer_at. destruct stored.
  - intros H. apply complete_page in H as (v & l & H1 & H2 & H3 & _ & H5). exists r, v, l. repeat split; eauto.
  - destruct (parse_step r) as [v0| |e|] eqn:Ep; cbn [of_decision]; try discriminate.
    intros H. assert (H' : exists f, complete g md f (set_uri r v0) = APage page).
    { destruct viap; [|eauto]. unfold process_call in H. destruct g; [discriminate|eauto]. }
    destruct H' as [f H']. apply complete_page in H' as (v & l & H1 & H2 & H3 & _ & H5).
    exists (set_uri r v0), v, l. repeat split; eauto. exists v0. auto.
Qed.

(* the new dimension is conservative: with the registration unchanged and completion not failing, the history
   of a request is the answer it gets alone (answer1) *)
Theorem answer_at_unchanged viap md r :
  answer1 r <> AOutside -> answer_at false viap false (Reg (q_regs r) (q_native r)) md r = answer1 r.
Proof.
  unfold answer_at, answer1. destruct (parse_step r) as [v| |e|]; try reflexivity.
  intros Hn. assert (E : complete (Reg (q_regs r) (q_native r)) md false (set_uri r v) = process_step (set_uri r v)).
  { unfold complete, process_step, get_uri_at in *. cbn [set_uri q_regs q_native q_oidc q_uri] in *.
    destruct (get_uri (q_regs r) (q_native r) (q_oidc r) (Some v)); try reflexivity; now destruct Hn. }
  destruct viap; [unfold process_call|]; exact E.
Qed.

(* ---- a request in flight while its client re-registers ---- *)
(* The second judgement of a URI that passed the first can fail in one way only: it does not match any
   more (RedirectURIError) - provided the new registration consists of parseable entries (regs_ok).  The checks
   that do not look at the registration were passed already and the query was parsed already. *)
Lemma norm_native_total p : basic_checks p = Ok tt -> exists p', norm_native p = Ok p'.
Proof.
  intros Hb. unfold norm_native. destruct (is_http p && is_localhost p); [|eauto].
  unfold remove_port. apply basic_checks_ok in Hb as (_ & _ & _ & [po Hpo]). rewrite Hpo. cbn [bind].
  destruct po as [z|]; [|eauto]. destruct ((z =? 0)%Z || negb (nonempty (netloc p))); eauto.
Qed.
Theorem verify_uri_reverify regs0 n0 o0 regs1 n1 o1 u :
  verify_uri regs0 n0 o0 u = Ok tt -> regs_ok regs1 n1 ->
  verify_uri regs1 n1 o1 u = Ok tt \/ verify_uri regs1 n1 o1 u = Err redirect_error.
Proof.
  intros H [rs [Hrs Hnat]]. unfold verify_uri in H.
  apply bind_ok in H as [d [Hd H]].
  destruct (dirty d) eqn:Edirty; [discriminate|].
  apply bind_ok in H as [p [Hp H]].
  destruct (has_c 35 d) eqn:Ehash; [discriminate|].
  apply bind_ok in H as [[] [Hb H]].
  destruct regs0 as [|r0 regs0']; [discriminate|].
  apply bind_ok in H as [rs0 [Hrs0 H]]. apply bind_ok in H as [p0' [Hp0' H]].
  apply bind_ok in H as [rs0' [Hrs0' H]]. apply bind_ok in H as [qd [Hqd _]].
  assert (Hq0 : query p0' = query p).
  { destruct n0; [destruct (norm_native_spec _ _ Hp0') as (_ & _ & _ & S & _); exact S|now inversion Hp0']. }
  unfold verify_uri. rewrite Hd. cbn [bind]. rewrite Edirty, Hp. cbn [bind]. rewrite Ehash, Hb. cbn [bind].
  destruct regs1 as [|r1 regs1']; [now right|]. rewrite Hrs. cbn [bind].
  destruct n1.
  - destruct (norm_native_total p Hb) as [p' Hp']. rewrite Hp'. cbn [bind].
    destruct (Hnat eq_refl) as [rs' Hrs']. rewrite Hrs'. cbn [bind].
    destruct (norm_native_spec _ _ Hp') as (_ & _ & _ & S4 & _). rewrite S4, <- Hq0, Hqd. cbn [bind].
    destruct (existsb (match1 p' qd) rs'); auto.
  - cbn [bind]. rewrite <- Hq0, Hqd. cbn [bind]. destruct (existsb (match1 p qd) rs); auto.
Qed.

(* so: either the URI still verifies and the answer goes there, or nothing is sent *)
Theorem inflight_answer viap failed regs1 n1 md r u :
  q_uri r = Some u -> verify_uri (q_regs r) (q_native r) (q_oidc r) u = Ok tt -> regs_ok regs1 n1 ->
  (verify_uri regs1 n1 (q_oidc r) u = Ok tt /\
   answer_at false viap failed (Reg regs1 n1) md r
   = if negb viap && failed then by_mode md u (set_uri r u) else deliver_to u (set_uri r u))
  \/ (verify_uri regs1 n1 (q_oidc r) u = Err redirect_error /\
      answer_at false viap failed (Reg regs1 n1) md r = AOther).
Proof.
  intros Hu Hv Hok. unfold answer_at, parse_step, decide, get_uri. rewrite Hu, Hv. cbn [bind].
  unfold process_call, complete, get_uri_at, get_uri. cbn [set_uri q_regs q_native q_oidc q_uri].
  destruct (verify_uri_reverify _ _ _ _ _ (q_oidc r) _ Hv Hok) as [E|E]; rewrite E; cbn [bind]; [left|right]; split; auto.
  - now destruct viap, failed.
  - now destruct viap.
Qed.
