(* Proofs/Flight_proofs.v — lemmas about Model/Flight.v: whatever the interleaving of the calls that
   belong to different requests, an endpoint whose outputs do not depend on its state answers every
   request as if it were alone; the model endpoint is such an endpoint; where its answers go. *)
From Coq Require Import String Lia.
From Verif Require Import Lib.Base Lib.PyStr Lib.Urlenc Lib.Html Model.Uri Model.Delivery Model.Flight
  Proofs.Uri_proofs Proofs.Delivery_proofs.
Open Scope N_scope.

(* ------------------------------------------------------------------ the table *)
Lemma tget_tdel i j t : tget i (tdel j t) = if Nat.eqb i j then None else tget i t.
Proof.
  induction t as [|[k s] t IH]; cbn.
  - now destruct (Nat.eqb i j).
  - destruct (Nat.eqb j k) eqn:Ejk.
    + rewrite IH. destruct (Nat.eqb i j) eqn:Eij; [reflexivity|].
      apply Nat.eqb_eq in Ejk. subst k. now rewrite Eij.
    + cbn. destruct (Nat.eqb i k) eqn:Eik.
      * destruct (Nat.eqb i j) eqn:Eij; [|reflexivity].
        apply Nat.eqb_eq in Eij, Eik. subst. now rewrite Nat.eqb_refl in Ejk.
      * exact IH.
Qed.
Lemma tget_tset i j s t : tget i (tset j s t) = if Nat.eqb i j then Some s else tget i t.
Proof. unfold tset. cbn. destruct (Nat.eqb i j) eqn:E; [reflexivity|]. rewrite tget_tdel. now rewrite E. Qed.

(* ------------------------------------------------------------------ any endpoint with state-independent outputs *)
Section Independent.
  Variable S : Type.
  Variable E : endpoint S.
  Hypothesis Hparse : forall s s' r, snd (e_parse E s r) = snd (e_parse E s' r).
  Hypothesis Hpart2 : forall s s' p, snd (e_part2 E s p) = snd (e_part2 E s' p).

  Definition slot_ok (reqs : list areq) (i : nat) (sl : slot) : Prop :=
    exists r v, nth_error reqs i = Some r /\ snd (e_parse E (e_init E) r) = Redirectable v /\
      (sl = SParsed (set_uri r v) \/ sl = SAuthed (set_uri r v) \/ sl = SAnswer (own_answer E r)).
  Definition table_ok (reqs : list areq) (t : table) : Prop :=
    forall i sl, tget i t = Some sl -> slot_ok reqs i sl.
  Definition out_ok (reqs : list areq) (out : list (nat * answer)) : Prop :=
    forall i a, In (i, a) out -> exists r, nth_error reqs i = Some r /\ a = own_answer E r.

  Lemma table_ok_set reqs t i sl : table_ok reqs t -> slot_ok reqs i sl -> table_ok reqs (tset i sl t).
  Proof.
    intros Ht Hs j sl' Hj. rewrite tget_tset in Hj. destruct (Nat.eqb j i) eqn:Eji.
    - apply Nat.eqb_eq in Eji. subst j. now inversion Hj; subst.
    - now apply Ht.
  Qed.
  Lemma table_ok_del reqs t i : table_ok reqs t -> table_ok reqs (tdel i t).
  Proof.
    intros Ht j sl Hj. rewrite tget_tdel in Hj. destruct (Nat.eqb j i); [discriminate|]. now apply Ht.
  Qed.

  Lemma own_answer_redirectable r v s :
    snd (e_parse E (e_init E) r) = Redirectable v ->
    snd (e_part2 E s (set_uri r v)) = own_answer E r.
  Proof.
    intros Hp. unfold own_answer. destruct (e_parse E (e_init E) r) as [s1 d] eqn:Ep. cbn in Hp. subst d.
    apply Hpart2.
  Qed.
  Lemma own_answer_refused r :
    (forall v, snd (e_parse E (e_init E) r) <> Redirectable v) ->
    of_decision (snd (e_parse E (e_init E) r)) = own_answer E r.
  Proof.
    intros Hn. unfold own_answer. destruct (e_parse E (e_init E) r) as [s1 d] eqn:Ep. cbn in *.
    destruct d; try reflexivity. now destruct (Hn u).
  Qed.

  Lemma step_ok reqs s t ev s' t' out :
    table_ok reqs t -> step E reqs (s, t) ev = ((s', t'), out) -> table_ok reqs t' /\ out_ok reqs out.
  Proof.
    intros Ht Hs. assert (Hnil : out_ok reqs []) by (intros ? ? []).
    destruct ev as [i|i|i|i|i]; cbn in Hs.
    - (* parse *)
      destruct (nth_error reqs i) as [r|] eqn:Er; [|inversion Hs; subst; now split].
      destruct (e_parse E s r) as [s1 d] eqn:Ep.
      assert (Hd : snd (e_parse E (e_init E) r) = d) by (rewrite (Hparse (e_init E) s r), Ep; reflexivity).
      destruct d as [v| |e|]; inversion Hs; subst; clear Hs.
      + split; [|exact Hnil]. apply table_ok_set; [exact Ht|]. exists r, v. repeat split; auto.
      + split; [now apply table_ok_del|]. intros j a [Hj|[]]. inversion Hj; subst. exists r. split; [exact Er|].
        rewrite <- own_answer_refused; [now rewrite Hd|]. intros v. rewrite Hd. discriminate.
      + split; [now apply table_ok_del|]. intros j a [Hj|[]]. inversion Hj; subst. exists r. split; [exact Er|].
        rewrite <- own_answer_refused; [now rewrite Hd|]. intros v. rewrite Hd. discriminate.
      + split; [now apply table_ok_del|]. intros j a [Hj|[]]. inversion Hj; subst. exists r. split; [exact Er|].
        rewrite <- own_answer_refused; [now rewrite Hd|]. intros v. rewrite Hd. discriminate.
    - (* process *)
      destruct (tget i t) as [[p|p|a]|] eqn:Eg; try (inversion Hs; subst; now split).
      destruct (e_part2 E (e_auth E s p) p) as [s1 a] eqn:Ep2. inversion Hs; subst; clear Hs.
      split; [|exact Hnil]. apply table_ok_set; [exact Ht|].
      destruct (Ht _ _ Eg) as (r & v & Er & Hp & [Hsl|[Hsl|Hsl]]); try discriminate. inversion Hsl; subst p.
      exists r, v. repeat split; auto. right. right. f_equal.
      rewrite <- (own_answer_redirectable r v (e_auth E s (set_uri r v)) Hp). now rewrite Ep2.
    - (* auth *)
      destruct (tget i t) as [[p|p|a]|] eqn:Eg; try (inversion Hs; subst; now split).
      inversion Hs; subst; clear Hs. split; [|exact Hnil]. apply table_ok_set; [exact Ht|].
      destruct (Ht _ _ Eg) as (r & v & Er & Hp & [Hsl|[Hsl|Hsl]]); try discriminate. inversion Hsl; subst p.
      exists r, v. repeat split; auto.
    - (* part2 *)
      destruct (tget i t) as [[p|p|a]|] eqn:Eg; try (inversion Hs; subst; now split).
      destruct (e_part2 E s p) as [s1 a] eqn:Ep2. inversion Hs; subst; clear Hs.
      split; [|exact Hnil]. apply table_ok_set; [exact Ht|].
      destruct (Ht _ _ Eg) as (r & v & Er & Hp & [Hsl|[Hsl|Hsl]]); try discriminate. inversion Hsl; subst p.
      exists r, v. repeat split; auto. right. right. f_equal.
      rewrite <- (own_answer_redirectable r v s Hp). now rewrite Ep2.
    - (* respond *)
      destruct (tget i t) as [[p|p|a]|] eqn:Eg; try (inversion Hs; subst; now split).
      inversion Hs; subst; clear Hs. split; [now apply table_ok_del|].
      intros j b [Hj|[]]. inversion Hj; subst.
      destruct (Ht _ _ Eg) as (r & v & Er & Hp & [Hsl|[Hsl|Hsl]]); try discriminate. inversion Hsl; subst.
      exists r. now split.
  Qed.

  Lemma run_from_ok reqs sched : forall s t, table_ok reqs t -> out_ok reqs (run_from E reqs (s, t) sched).
  Proof.
    induction sched as [|ev rest IH]; intros s t Ht; cbn [run_from].
    - intros ? ? [].
    - destruct (step E reqs (s, t) ev) as [[s' t'] out] eqn:Es.
      destruct (step_ok _ _ _ _ _ _ _ Ht Es) as [Ht' Ho].
      intros i a Hin. apply in_app_or in Hin as [Hin|Hin]; [now apply Ho|]. exact (IH s' t' Ht' i a Hin).
  Qed.

  Theorem flight_independent reqs sched i a :
    In (i, a) (run_flight E reqs sched) -> exists r, nth_error reqs i = Some r /\ a = own_answer E r.
  Proof. unfold run_flight. apply run_from_ok. intros j sl Hj. discriminate. Qed.
End Independent.

(* ------------------------------------------------------------------ the model endpoint *)
Theorem model_keeps_nothing (s s' : unit) r :
  e_parse ep_model s r = e_parse ep_model s' r /\ e_auth ep_model s r = e_auth ep_model s' r
  /\ e_part2 ep_model s r = e_part2 ep_model s' r.
Proof. now destruct s, s'. Qed.

Lemma own_answer_model r : own_answer ep_model r = answer1 r.
Proof. unfold own_answer, answer1. cbn. now destruct (parse_step r). Qed.

Theorem flight_model reqs sched i a :
  In (i, a) (run_flight ep_model reqs sched) -> exists r, nth_error reqs i = Some r /\ a = answer1 r.
Proof.
  intros H. apply (flight_independent unit ep_model) in H.
  - destruct H as (r & Hr & Ha). exists r. now rewrite <- own_answer_model.
  - reflexivity.
  - reflexivity.
Qed.

(* ------------------------------------------------------------------ every request does get its answer *)
Definition event_id (ev : event) : nat :=
  match ev with EvParse i | EvProcess i | EvAuth i | EvPart2 i | EvRespond i => i end.
Definition about (i : nat) (l : list event) : bool := existsb (fun ev => Nat.eqb (event_id ev) i) l.
Fixpoint exec {S} (E : endpoint S) (reqs : list areq) (st : S * table) (sched : list event) : S * table :=
  match sched with [] => st | ev :: r => exec E reqs (fst (step E reqs st ev)) r end.

Lemma run_from_app {S} (E : endpoint S) reqs a : forall st b,
  run_from E reqs st (a ++ b) = run_from E reqs st a ++ run_from E reqs (exec E reqs st a) b.
Proof.
  induction a as [|ev a IH]; intros st b; cbn [app run_from exec]; [reflexivity|].
  destruct (step E reqs st ev) as [st' out]. cbn [fst]. now rewrite IH, app_assoc.
Qed.

Lemma step_other reqs st ev i : event_id ev <> i ->
  tget i (snd (fst (step ep_model reqs st ev))) = tget i (snd st).
Proof.
  intros Hne. destruct st as [s t].
  assert (Hset : forall sl, tget i (tset (event_id ev) sl t) = tget i t).
  { intros sl. rewrite tget_tset. destruct (Nat.eqb i (event_id ev)) eqn:E; [|reflexivity].
    apply Nat.eqb_eq in E. now destruct Hne. }
  assert (Hdel : tget i (tdel (event_id ev) t) = tget i t).
  { rewrite tget_tdel. destruct (Nat.eqb i (event_id ev)) eqn:E; [|reflexivity].
    apply Nat.eqb_eq in E. now destruct Hne. }
  destruct ev as [j|j|j|j|j]; cbn in *.
  - destruct (nth_error reqs j); [|reflexivity]. destruct (parse_step a); cbn; auto.
  - destruct (tget j t) as [[p|p|a]|]; cbn; auto.
  - destruct (tget j t) as [[p|p|a]|]; cbn; auto.
  - destruct (tget j t) as [[p|p|a]|]; cbn; auto.
  - destruct (tget j t) as [[p|p|a]|]; cbn; auto.
Qed.
Lemma exec_other reqs l i : about i l = false -> forall st,
  tget i (snd (exec ep_model reqs st l)) = tget i (snd st).
Proof.
  induction l as [|ev l IH]; intros Ha st; cbn; [reflexivity|].
  cbn in Ha. apply Bool.orb_false_iff in Ha as [He Hl]. rewrite (IH Hl).
  apply step_other. intros E. subst i. now rewrite Nat.eqb_refl in He.
Qed.

(* the state of the model endpoint is the one point *)
Lemma st_eta (st : unit * table) : st = (tt, snd st).
Proof. now destruct st as [[] t]. Qed.

Lemma parse_then reqs i r st rest :
  nth_error reqs i = Some r ->
  (exists v, parse_step r = Redirectable v /\
     run_from ep_model reqs st (EvParse i :: rest)
     = run_from ep_model reqs (tt, tset i (SParsed (set_uri r v)) (snd st)) rest)
  \/ In (i, answer1 r) (run_from ep_model reqs st (EvParse i :: rest)).
Proof.
  intros Hr. rewrite (st_eta st). cbn. rewrite Hr. unfold answer1.
  destruct (parse_step r) as [v| |e|] eqn:Ep; cbn.
  - left. exists v. split; reflexivity.
  - right. now left.
  - right. now left.
  - right. now left.
Qed.

Theorem flight_answers_process reqs i r a b c d :
  nth_error reqs i = Some r -> about i b = false -> about i c = false ->
  In (i, answer1 r)
     (run_flight ep_model reqs (a ++ EvParse i :: b ++ EvProcess i :: c ++ EvRespond i :: d)).
Proof.
  intros Hr Hb Hc. unfold run_flight. rewrite run_from_app. apply in_or_app. right.
  destruct (parse_then reqs i r (exec ep_model reqs (e_init ep_model, []) a)
              (b ++ EvProcess i :: c ++ EvRespond i :: d) Hr) as [(v & Ep & Hrun)|Hin]; [|exact Hin].
  rewrite Hrun. clear Hrun. rewrite run_from_app. apply in_or_app. right.
  set (st1 := exec ep_model reqs _ b).
  assert (H1 : tget i (snd st1) = Some (SParsed (set_uri r v))).
  { unfold st1. rewrite (exec_other reqs b i Hb). cbn. now rewrite Nat.eqb_refl. }
  rewrite (st_eta st1). cbn [run_from step]. rewrite H1. cbn [ep_model e_part2 e_auth].
  cbn [app]. rewrite run_from_app. apply in_or_app. right.
  set (st2 := exec ep_model reqs _ c).
  assert (H2 : tget i (snd st2) = Some (SAnswer (process_step (set_uri r v)))).
  { unfold st2. rewrite (exec_other reqs c i Hc). cbn [snd]. rewrite tget_tset. now rewrite Nat.eqb_refl. }
  rewrite (st_eta st2). cbn [run_from step]. rewrite H2. left. unfold answer1. now rewrite Ep.
Qed.

Theorem flight_answers_login reqs i r a b c c' d :
  nth_error reqs i = Some r -> about i b = false -> about i c = false -> about i c' = false ->
  In (i, answer1 r)
     (run_flight ep_model reqs (a ++ EvParse i :: b ++ EvAuth i :: c ++ EvPart2 i :: c' ++ EvRespond i :: d)).
Proof.
  intros Hr Hb Hc Hc'. unfold run_flight. rewrite run_from_app. apply in_or_app. right.
  destruct (parse_then reqs i r (exec ep_model reqs (e_init ep_model, []) a)
              (b ++ EvAuth i :: c ++ EvPart2 i :: c' ++ EvRespond i :: d) Hr) as [(v & Ep & Hrun)|Hin]; [|exact Hin].
  rewrite Hrun. clear Hrun. rewrite run_from_app. apply in_or_app. right.
  set (st1 := exec ep_model reqs _ b).
  assert (H1 : tget i (snd st1) = Some (SParsed (set_uri r v))).
  { unfold st1. rewrite (exec_other reqs b i Hb). cbn. now rewrite Nat.eqb_refl. }
  rewrite (st_eta st1). cbn [run_from step]. rewrite H1. cbn [ep_model e_part2 e_auth].
  cbn [app]. rewrite run_from_app. apply in_or_app. right.
  set (st2 := exec ep_model reqs _ c).
  assert (H2 : tget i (snd st2) = Some (SAuthed (set_uri r v))).
  { unfold st2. rewrite (exec_other reqs c i Hc). cbn [snd]. rewrite tget_tset. now rewrite Nat.eqb_refl. }
  rewrite (st_eta st2). cbn [run_from step]. rewrite H2. cbn [ep_model e_part2 e_auth].
  cbn [app]. rewrite run_from_app. apply in_or_app. right.
  set (st3 := exec ep_model reqs _ c').
  assert (H3 : tget i (snd st3) = Some (SAnswer (process_step (set_uri r v)))).
  { unfold st3. rewrite (exec_other reqs c' i Hc'). cbn [snd]. rewrite tget_tset. now rewrite Nat.eqb_refl. }
  rewrite (st_eta st3). cbn [run_from step]. rewrite H3. left. unfold answer1. now rewrite Ep.
Qed.

(* ------------------------------------------------------------------ where the answer of a request goes *)
Definition own_target (r : areq) (v : pystr) : Prop :=
  decide (q_regs r) (q_native r) (q_oidc r) (q_uri r) = Redirectable v /\
  match q_uri r with
  | Some u => v = u /\ verify_uri (q_regs r) (q_native r) (q_oidc r) u = Ok tt
  | None => exists b q, q_regs r = [RPair b q] /\ join_query b q = Ok v
  end.

Lemma process_step_target r v a :
  process_step (set_uri r v) = a -> a <> AOutside -> a <> AOther ->
  (q_form r = false /\ exists l, enc_pairs (q_args r) = Ok l /\ a = ARedirect (place v (urlencode_b l) (q_frag r)))
  \/ (q_form r = true /\ exists l, form_pairs (q_args r) = Ok l /\ a = APage (form_page v l)).
Proof.
  unfold process_step, deliver_to, url_refused.
  cbn [set_uri q_regs q_native q_oidc q_uri q_form q_frag q_args]. unfold get_uri.
  destruct (verify_uri (q_regs r) (q_native r) (q_oidc r) v) as [[]|e|]; cbn [bind]; intros Ha Hn Ho;
    try (now subst a; destruct Hn).
  destruct (q_form r).
  - right. split; [reflexivity|]. unfold deliver_form in Ha.
    destruct (form_pairs (q_args r)) as [l|e|]; cbn [bind] in Ha; try (now subst a; destruct Hn).
    exists l. now split.
  - left. split; [reflexivity|].
    destruct (negb (q_oidc r) && negb (has_key (PS "code"%string) (q_args r))); [now subst a; destruct Ho|].
    unfold deliver_url in Ha.
    destruct (enc_pairs (q_args r)) as [l|e|]; cbn [bind] in Ha; try (now subst a; destruct Hn).
    exists l. now split.
Qed.

Theorem answer1_redirect r url :
  answer1 r = ARedirect url ->
  exists v l, own_target r v /\ q_form r = false /\ enc_pairs (q_args r) = Ok l
              /\ url = place v (urlencode_b l) (q_frag r).
Proof.
  unfold answer1, parse_step. intros H.
  destruct (decide (q_regs r) (q_native r) (q_oidc r) (q_uri r)) as [v| |e|] eqn:Ed; try discriminate.
  destruct (process_step_target r v _ H) as [(Hf & l & Hl & Ha)|(Hf & l & Hl & Ha)]; try discriminate;
    try (rewrite H; discriminate).
  inversion Ha; subst url. exists v, l. repeat split; auto.
  exact (decide_redirectable _ _ _ _ _ Ed).
Qed.

Theorem answer1_page r page :
  answer1 r = APage page ->
  exists v l, own_target r v /\ q_form r = true /\ form_pairs (q_args r) = Ok l
              /\ page = form_page v l /\ read_page page = Some (v, l).
Proof.
  unfold answer1, parse_step. intros H.
  destruct (decide (q_regs r) (q_native r) (q_oidc r) (q_uri r)) as [v| |e|] eqn:Ed; try discriminate.
  destruct (process_step_target r v _ H) as [(Hf & l & Hl & Ha)|(Hf & l & Hl & Ha)]; try discriminate;
    try (rewrite H; discriminate).
  inversion Ha; subst page. exists v, l. repeat split; auto.
  - exact (decide_redirectable _ _ _ _ _ Ed).
  - apply read_page_form_page.
Qed.

(* in a flight: a redirect or a page handed out for request number i goes to the target of request i *)
Theorem flight_redirect_own reqs sched i url :
  In (i, ARedirect url) (run_flight ep_model reqs sched) ->
  exists r v l, nth_error reqs i = Some r /\ own_target r v /\ enc_pairs (q_args r) = Ok l
                /\ url = place v (urlencode_b l) (q_frag r).
Proof.
  intros H. apply flight_model in H as (r & Hr & Ha). symmetry in Ha.
  apply answer1_redirect in Ha as (v & l & Ht & _ & Hl & Hu). now exists r, v, l.
Qed.
Theorem flight_page_own reqs sched i page :
  In (i, APage page) (run_flight ep_model reqs sched) ->
  exists r v l, nth_error reqs i = Some r /\ own_target r v /\ form_pairs (q_args r) = Ok l
                /\ read_page page = Some (v, l).
Proof.
  intros H. apply flight_model in H as (r & Hr & Ha). symmetry in Ha.
  apply answer1_page in Ha as (v & l & Ht & _ & Hl & _ & Hp). now exists r, v, l.
Qed.
