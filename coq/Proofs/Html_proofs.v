(* Proofs/Html_proofs.v — facts about html.escape (Lib/Html.v): its output contains no markup
   character and no bare ampersand, and decodes back to the input. *)
From Coq Require Import String.
From Verif Require Import Lib.Base Lib.PyStr Lib.Html.
Open Scope N_scope.

Lemma forallb_flat_map {A B} (f : B -> bool) (g : A -> list B) (s : list A) :
  forallb f (flat_map g s) = forallb (fun c => forallb f (g c)) s.
Proof. induction s as [|c s IH]; [reflexivity|]. cbn. now rewrite forallb_app, IH. Qed.

(* the five cases of esc1, as a usable case split *)
Lemma esc1_cases c :
  (c = 38 /\ esc1 c = e_amp) \/ (c = 60 /\ esc1 c = e_lt) \/ (c = 62 /\ esc1 c = e_gt) \/
  (c = 34 /\ esc1 c = e_quot) \/ (c = 39 /\ esc1 c = e_apos) \/
  (c <> 38 /\ c <> 60 /\ c <> 62 /\ c <> 34 /\ c <> 39 /\ esc1 c = [c]).
Proof.
  unfold esc1.
  destruct (c =? 38) eqn:E1; [apply N.eqb_eq in E1; auto|].
  destruct (c =? 60) eqn:E2; [apply N.eqb_eq in E2; auto|].
  destruct (c =? 62) eqn:E3; [apply N.eqb_eq in E3; auto 6|].
  destruct (c =? 34) eqn:E4; [apply N.eqb_eq in E4; auto 6|].
  destruct (c =? 39) eqn:E5; [apply N.eqb_eq in E5; auto 8|].
  apply N.eqb_neq in E1, E2, E3, E4, E5. do 5 right. auto 8.
Qed.

Lemma esc1_markup_free c : markup_free (esc1 c) = true.
Proof.
  destruct (esc1_cases c) as [[_ ->]|[[_ ->]|[[_ ->]|[[_ ->]|[[_ ->]|(H1 & H2 & H3 & H4 & H5 & ->)]]]]];
    try reflexivity.
  unfold markup_free, markup_char. cbn.
  apply N.eqb_neq in H2, H3, H4, H5. now rewrite H2, H3, H4, H5.
Qed.

Theorem escape_markup_free s : markup_free (html_escape s) = true.
Proof.
  unfold markup_free, html_escape. rewrite forallb_flat_map.
  apply forallb_forall. intros c _. apply esc1_markup_free.
Qed.

Lemma escape_no_dquote s : forallb (fun c => negb (c =? 34)) (html_escape s) = true.
Proof.
  pose proof (escape_markup_free s) as H. unfold markup_free in H.
  rewrite forallb_forall in H. apply forallb_forall. intros c Hc. specialize (H c Hc).
  unfold markup_char in H. apply negb_true_iff in H. apply negb_true_iff.
  destruct (c =? 34); [|reflexivity]. now rewrite !orb_true_r in H.
Qed.

Lemma escape_cons c s : html_escape (c :: s) = esc1 c ++ html_escape s.
Proof. reflexivity. Qed.
Lemma escape_app a b : html_escape (a ++ b) = html_escape a ++ html_escape b.
Proof. unfold html_escape. apply flat_map_app. Qed.

Lemma esc1_length c : (1 <= length (esc1 c))%nat.
Proof.
  destruct (esc1_cases c) as [[_ ->]|[[_ ->]|[[_ ->]|[[_ ->]|[[_ ->]|(_ & _ & _ & _ & _ & ->)]]]]]; cbn; lia.
Qed.

(* decoding the escaped text gives the text back *)
Lemma unescape_fuel_escape s : forall fuel, (length (html_escape s) <= fuel)%nat ->
  unescape_fuel fuel (html_escape s) = s.
Proof.
  induction s as [|c s IH]; intros fuel Hf.
  - destruct fuel; reflexivity.
  - rewrite escape_cons in *. rewrite app_length in Hf.
    destruct (esc1_cases c) as [[-> E]|[[-> E]|[[-> E]|[[-> E]|[[-> E]|(H1 & H2 & H3 & H4 & H5 & E)]]]]];
      rewrite E in *; cbn [length e_amp e_lt e_gt e_quot e_apos] in Hf.
    + destruct fuel as [|f]; [cbn in Hf; lia|]. cbn in Hf. cbn. f_equal. apply IH. lia.
    + destruct fuel as [|f]; [cbn in Hf; lia|]. cbn in Hf. cbn. f_equal. apply IH. lia.
    + destruct fuel as [|f]; [cbn in Hf; lia|]. cbn in Hf. cbn. f_equal. apply IH. lia.
    + destruct fuel as [|f]; [cbn in Hf; lia|]. cbn in Hf. cbn. f_equal. apply IH. lia.
    + destruct fuel as [|f]; [cbn in Hf; lia|]. cbn in Hf. cbn. f_equal. apply IH. lia.
    + destruct fuel as [|f]; [cbn in Hf; lia|]. cbn in Hf.
      cbn [app unescape_fuel]. apply N.eqb_neq in H1. rewrite H1. f_equal. apply IH. lia.
Qed.

Theorem unescape_escape s : html_unescape5 (html_escape s) = s.
Proof. unfold html_unescape5. apply unescape_fuel_escape. lia. Qed.

(* no bare ampersand *)
Lemma amp_ok_fuel_escape s : forall fuel, (length (html_escape s) <= fuel)%nat ->
  amp_ok_fuel fuel (html_escape s) = true.
Proof.
  induction s as [|c s IH]; intros fuel Hf.
  - destruct fuel; reflexivity.
  - rewrite escape_cons in *. rewrite app_length in Hf.
    destruct (esc1_cases c) as [[-> E]|[[-> E]|[[-> E]|[[-> E]|[[-> E]|(H1 & H2 & H3 & H4 & H5 & E)]]]]];
      rewrite E in *; cbn [length e_amp e_lt e_gt e_quot e_apos] in Hf.
    + destruct fuel as [|f]; [cbn in Hf; lia|]. cbn in Hf. cbn. apply IH. lia.
    + destruct fuel as [|f]; [cbn in Hf; lia|]. cbn in Hf. cbn. apply IH. lia.
    + destruct fuel as [|f]; [cbn in Hf; lia|]. cbn in Hf. cbn. apply IH. lia.
    + destruct fuel as [|f]; [cbn in Hf; lia|]. cbn in Hf. cbn. apply IH. lia.
    + destruct fuel as [|f]; [cbn in Hf; lia|]. cbn in Hf. cbn. apply IH. lia.
    + destruct fuel as [|f]; [cbn in Hf; lia|]. cbn in Hf.
      cbn [app amp_ok_fuel]. apply N.eqb_neq in H1. rewrite H1. apply IH. lia.
Qed.

Theorem escape_amp_ok s : amp_ok (html_escape s) = true.
Proof. unfold amp_ok. apply amp_ok_fuel_escape. lia. Qed.

(* reading an escaped value back out of a double-quoted attribute *)
Theorem read_attr_escape v rest : read_attr (html_escape v ++ 34 :: rest) = Some (v, rest).
Proof.
  unfold read_attr. rewrite (split1_c_digits 34 (html_escape v) rest (escape_no_dquote v)).
  now rewrite unescape_escape.
Qed.

Lemma strip_prefix_app p s : strip_prefix p (p ++ s) = Some s.
Proof. induction p as [|x p IH]; [reflexivity|]. cbn. now rewrite N.eqb_refl. Qed.
