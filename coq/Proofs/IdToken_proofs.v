(* Proofs/IdToken_proofs.v — lemmas about Model/IdToken.v (property C08). *)
From Coq Require Import String Lia.
From Verif Require Import Lib.Base Lib.PyStr Lib.Crypto Lib.RpTy Gen.RpTables Model.IdToken.
Open Scope string_scope.

(* ---- generic ---- *)
Lemma bind_ok {A B} (r : res A) (f : A -> res B) b :
  bind r f = Ok b -> exists a, r = Ok a /\ f a = Ok b.
Proof. destruct r; cbn; intro H; try discriminate. eauto. Qed.

Lemma opt_str_eqb_eq a b : opt_str_eqb a b = true -> a = b.
Proof.
  unfold opt_str_eqb, option_eqb. destruct a, b; intro H; try discriminate; auto.
  apply str_eqb_eq in H. congruence.
Qed.

Lemma pyval_eqb_vstr_l s v : pyval_eqb (VStr s) v = true -> v = VStr s.
Proof. destruct v; cbn; intro H; try discriminate. apply str_eqb_eq in H. congruence. Qed.
Lemma pyval_eqb_vstr_r s v : pyval_eqb v (VStr s) = true -> v = VStr s.
Proof. destruct v; cbn; intro H; try discriminate. apply str_eqb_eq in H. congruence. Qed.

Lemma kty_eqb_eq a b : kty_eqb a b = true -> a = b.
Proof. destruct a, b; cbn; intro H; congruence. Qed.

Lemma assoc_notin {V} k (d : list (pystr * V)) : ~ In k (List.map fst d) -> assoc k d = None.
Proof.
  induction d as [|[k' v] r IH]; cbn; intro H; [reflexivity|].
  destruct (str_eqb k k') eqn:E.
  - apply str_eqb_eq in E. subst. exfalso. apply H. now left.
  - apply IH. intro Hin. apply H. now right.
Qed.

(* ---- the key jar ---- *)
Lemma owner_keys_In j o k e : In e (owner_keys j o k) -> In e j /\ je_owner e = o /\ je_kty e = k.
Proof.
  unfold owner_keys. intro H. apply filter_In in H as [H1 H2].
  apply andb_true_iff in H2 as [H2 H3]. apply str_eqb_eq in H2. apply kty_eqb_eq in H3. auto.
Qed.

Definition key_ok (kw : kwargs) (iss : pystr) (k : kty) (e : jar_entry) : Prop :=
  In e (kw_jar kw) /\ je_kty e = k /\ (je_owner e = iss \/ (je_owner e = [] /\ k = KOct)).

Lemma gather_keys_sub kw t k ks :
  gather_keys kw t k = Ok ks ->
  exists iss, key_issuer kw t = Some iss /\ forall e, In e ks -> key_ok kw iss k e.
Proof.
  unfold gather_keys. destruct (key_issuer kw t) as [[|c s]|] eqn:Ei; try discriminate.
  - destruct (owner_keys (kw_jar kw) [] k) as [|x r] eqn:Eo; intro H; inversion H; subst.
    exists []. split; [reflexivity|]. intros e He. rewrite <- Eo in He.
    apply owner_keys_In in He as (H1 & H2 & H3). repeat split; auto.
  - destruct (negb (jar_has_owner (kw_jar kw) (c :: s))); try discriminate.
    set (own := owner_keys (kw_jar kw) (c :: s) k).
    set (sel := match kid_eff t with
                | Some kid => filter (fun e => str_eqb (je_kid e) kid) own
                | None => match own with [] => [] | [x] => [x] | _ => if kw_allow_missing_kid kw then own else [] end
                end).
    assert (Hsel : forall e, In e sel -> In e own).
    { unfold sel. destruct (kid_eff t).
      - intros e He. apply filter_In in He. tauto.
      - destruct own as [|x [|y r]]; auto. destruct (kw_allow_missing_kid kw); auto. intros e []. }
    intro H.
    destruct (sel ++ (if kty_eqb k KOct then owner_keys (kw_jar kw) [] KOct else []))%list as [|x r] eqn:Ek;
      inversion H; subst.
    exists (c :: s). split; [reflexivity|]. intros e He. rewrite <- Ek in He.
    apply in_app_or in He as [He|He].
    + apply Hsel in He. apply owner_keys_In in He as (H1 & H2 & H3). repeat split; auto.
    + destruct (kty_eqb k KOct) eqn:Ekt; [|destruct He]. apply kty_eqb_eq in Ekt. subst k.
      apply owner_keys_In in He as (H1 & H2 & H3). repeat split; auto.
Qed.

Lemma verify_compact_inv kw t ks :
  verify_compact kw t ks = Ok tt ->
  (forall a, kw_sigalg kw = Some a -> a <> [] -> t_alg t = a) /\
  exists e, In e ks /\ t_signer t = Some (je_key e).
Proof.
  unfold verify_compact.
  destruct (match kw_sigalg kw with Some (c :: s) => negb (str_eqb (c :: s) (t_alg t)) | _ => false end) eqn:Eb;
    try discriminate.
  set (picked := match kid_eff t with Some kid => filter (fun e => str_eqb (je_kid e) kid) ks | None => ks end).
  assert (Hp : forall e, In e picked -> In e ks).
  { unfold picked. destruct (kid_eff t); auto. intros e He. apply filter_In in He. tauto. }
  intro H. split.
  - intros a Ha Hne. rewrite Ha in Eb. destruct a as [|c s]; [congruence|].
    apply negb_false_iff in Eb. apply str_eqb_eq in Eb. congruence.
  - destruct picked as [|x r] eqn:Epk; try discriminate.
    destruct (t_signer t) as [sg|]; try discriminate.
    destruct (existsb (fun e => Nat.eqb (je_key e) sg) (x :: r)) eqn:Ex; try discriminate.
    apply existsb_exists in Ex as (e & He & Hk). apply Nat.eqb_eq in Hk.
    exists e. split; [apply Hp; exact He|congruence].
Qed.

Lemma sig_accepted_inv kw t :
  sig_accepted kw t = Ok tt ->
  exists k iss e, alg2kty (t_alg t) = Some k /\ key_issuer kw t = Some iss /\ key_ok kw iss k e /\
                  t_signer t = Some (je_key e) /\
                  (forall a, kw_sigalg kw = Some a -> a <> [] -> t_alg t = a).
Proof.
  unfold sig_accepted. destruct (alg2kty (t_alg t)) as [k|]; try discriminate.
  intro H. apply bind_ok in H as (ks & Hg & Hv).
  apply gather_keys_sub in Hg as (iss & Hi & Hall).
  apply verify_compact_inv in Hv as (Ha & e & He & Hs).
  exists k, iss, e. repeat split; auto; apply Hall; auto.
Qed.

(* ---- alg policy ---- *)
Lemma alg_policy_inv kw alg signed :
  alg_policy kw alg = Ok signed ->
  (signed = false -> alg = PS "none" /\ (kw_sigalg kw = Some (PS "none") \/ kw_allow_none kw = true)) /\
  (signed = true -> alg <> PS "none" /\ forall a, kw_allowed_sign_alg kw = Some a -> alg = a).
Proof.
  unfold alg_policy. destruct (str_eqb alg (PS "none")) eqn:En.
  - apply str_eqb_eq in En. destruct (opt_str_eqb (kw_sigalg kw) (Some (PS "none"))) eqn:Es.
    + apply opt_str_eqb_eq in Es. intro H; inversion H; subst. split; [auto|discriminate].
    + destruct (kw_allow_none kw) eqn:Ea; intro H; inversion H; subst. split; [auto|discriminate].
  - apply str_eqb_neq in En. destruct (kw_allowed_sign_alg kw) as [a|].
    + destruct (str_eqb alg a) eqn:Ea; intro H; inversion H; subst. apply str_eqb_eq in Ea.
      split; [discriminate|]. intros _. split; auto. intros a' Ha'. congruence.
    + intro H; inversion H; subst. split; [discriminate|]. intros _. split; auto. discriminate.
Qed.

Lemma issuer_known_inv kw t :
  issuer_known kw t = Ok tt ->
  exists s, assoc (PS "iss") (t_claims t) = Some (VStr s) /\ jar_has_owner (kw_jar kw) s = true.
Proof.
  unfold issuer_known. destruct (assoc (PS "iss") (t_claims t)) as [[| | |s| | |]|]; try discriminate.
  destruct (jar_has_owner (kw_jar kw) s) eqn:E; try discriminate. eauto.
Qed.

(* ---- from_dict ---- *)
Lemma from_dict_assoc spec : forall claims acc d k,
  from_dict spec claims acc = Ok d -> NoDup (List.map fst claims) ->
  match assoc k claims with
  | None => assoc k d = assoc k acc
  | Some v =>
      if is_blank v then assoc k d = assoc k acc else
      match find_spec k spec with
      | None => assoc k d = Some v
      | Some ps => match coerce (ps_type ps) v with
                   | Ok None => assoc k d = assoc k acc
                   | Ok (Some v') => assoc k d = Some v'
                   | _ => False
                   end
      end
  end.
Proof.
  induction claims as [|[k0 v0] r IH]; intros acc d k H Hnd.
  - cbn in *. inversion H; reflexivity.
  - cbn [List.map fst] in Hnd. inversion Hnd as [|? ? Hnotin Hnd']; subst.
    cbn [assoc]. destruct (str_eqb k k0) eqn:Ek.
    + apply str_eqb_eq in Ek. subst k0.
      assert (Hr : assoc k r = None) by (apply assoc_notin; exact Hnotin).
      cbn [from_dict] in H. destruct (is_blank v0) eqn:Eb.
      * specialize (IH acc d k H Hnd'). rewrite Hr in IH. exact IH.
      * destruct (find_spec k spec) as [ps|] eqn:Ef.
        -- destruct (coerce (ps_type ps) v0) as [[v'|]|e|] eqn:Ec; try discriminate.
           ++ specialize (IH _ d k H Hnd'). rewrite Hr in IH. rewrite IH. apply assoc_aset_same.
           ++ specialize (IH _ d k H Hnd'). rewrite Hr in IH. exact IH.
        -- destruct (existsb (N.eqb 35) k); try discriminate.
           specialize (IH _ d k H Hnd'). rewrite Hr in IH. rewrite IH. apply assoc_aset_same.
    + assert (Hne : k0 <> k) by (intro; subst; rewrite str_eqb_refl in Ek; discriminate).
      cbn [from_dict] in H.
      assert (Hgen : forall acc', assoc k acc' = assoc k acc -> from_dict spec r acc' = Ok d ->
                match assoc k r with
                | None => assoc k d = assoc k acc
                | Some v => if is_blank v then assoc k d = assoc k acc else
                    match find_spec k spec with
                    | None => assoc k d = Some v
                    | Some ps => match coerce (ps_type ps) v with
                                 | Ok None => assoc k d = assoc k acc
                                 | Ok (Some v') => assoc k d = Some v'
                                 | _ => False end end end).
      { intros acc' Hacc H'. specialize (IH acc' d k H' Hnd'). rewrite Hacc in IH. exact IH. }
      destruct (is_blank v0).
      * apply (Hgen acc); auto.
      * destruct (find_spec k0 spec) as [ps|].
        -- destruct (coerce (ps_type ps) v0) as [[v'|]|e|]; try discriminate.
           ++ apply (Hgen (aset k0 v' acc)); auto. apply assoc_aset_other; exact Hne.
           ++ apply (Hgen acc); auto.
        -- destruct (existsb (N.eqb 35) k0); try discriminate.
           apply (Hgen (aset k0 v0 acc)); auto. apply assoc_aset_other; exact Hne.
Qed.

(* a non-empty string under a CStr parameter is stored unchanged *)
Lemma from_dict_str_kept spec claims d k c s ps :
  from_dict spec claims [] = Ok d -> NoDup (List.map fst claims) ->
  assoc k claims = Some (VStr (c :: s)) -> find_spec k spec = Some ps -> ps_type ps = CStr ->
  assoc k d = Some (VStr (c :: s)).
Proof.
  intros H Hnd Ha Hf Ht. pose proof (from_dict_assoc spec claims [] d k H Hnd) as P.
  rewrite Ha in P. cbn [is_blank] in P. rewrite Hf, Ht in P. cbn in P. exact P.
Qed.

(* ---- required parameters ---- *)
Lemma check_required_ok spec d :
  check_required spec d = Ok tt ->
  forall ps, In ps spec -> ps_required ps = true ->
  exists v, assoc (ps_name ps) d = Some v /\ (ps_type ps = CBool \/ py_truthy v = true).
Proof.
  induction spec as [|p r IH]; intros H ps Hin Hreq; [destruct Hin|].
  cbn [check_required] in H.
  destruct Hin as [->|Hin].
  - destruct (assoc (ps_name ps) d) as [v|] eqn:Ea.
    + exists v. split; [reflexivity|].
      destruct (ps_type ps) eqn:Et; try (right; destruct (py_truthy v); [reflexivity|rewrite Hreq in H; discriminate]).
      left; reflexivity.
    + rewrite Hreq in H. discriminate.
  - apply IH; auto.
    destruct (assoc (ps_name p) d) as [v|].
    + destruct (ps_type p); try exact H;
        (destruct (py_truthy v); [exact H|destruct (ps_required p); [discriminate|exact H]]).
    + destruct (ps_required p); [discriminate|exact H].
Qed.

(* ---- IdToken.verify ---- *)
Definition eff_skew (kw : kwargs) : Z := match kw_skew kw with Some s => s | None => 0%Z end.
Definition eff_storage (kw : kwargs) : Z := match kw_storage kw with Some s => s | None => nonce_storage_time end.

Lemma idtoken_checks_inv kw d now :
  idtoken_checks kw d now = Ok tt ->
  (forall i v, kw_iss kw = Some i -> assoc (PS "iss") d = Some v -> v = VStr i) /\
  (forall aud c, assoc (PS "aud") d = Some aud -> kw_client_id kw = Some c -> py_in (VStr c) aud = Ok true) /\
  (forall aud n, assoc (PS "aud") d = Some aud -> py_len aud = Ok n -> (1 < n)%nat ->
                 exists azp, assoc (PS "azp") d = Some azp /\ py_in azp aud = Ok true) /\
  (forall azp c, assoc (PS "azp") d = Some azp -> kw_client_id kw = Some c -> azp = VStr c) /\
  (exists exp iat, assoc (PS "exp") d = Some (VInt exp) /\ assoc (PS "iat") d = Some (VInt iat) /\
                   (now - eff_skew kw <= exp)%Z /\ (now - eff_skew kw <= iat + eff_storage kw)%Z /\
                   (iat <= now + eff_skew kw)%Z /\ (iat <= exp)%Z) /\
  (forall n, kw_nonce kw = Some n -> assoc (PS "nonce") d = Some (VStr n)).
Proof.
  unfold idtoken_checks. intro H.
  apply bind_ok in H as ([] & Hiss & H).
  apply bind_ok in H as ([] & Haud & H).
  apply bind_ok in H as ([] & Hazp & H).
  fold (eff_skew kw) in H. fold (eff_storage kw) in H.
  split; [|split; [|split; [|split; [|split]]]].
  - intros i v Hi Hv. rewrite Hi, Hv in Hiss.
    destruct (pyval_eqb (VStr i) v) eqn:E; try discriminate. now apply pyval_eqb_vstr_l.
  - intros aud c Ha Hc. rewrite Ha in Haud. apply bind_ok in Haud as ([] & H1 & _).
    rewrite Hc in H1. apply bind_ok in H1 as (b & Hb & H1). destruct b; [exact Hb|discriminate].
  - intros aud n Ha Hn Hlt. rewrite Ha in Haud. apply bind_ok in Haud as ([] & _ & H2).
    rewrite Hn in H2. cbn [bind] in H2.
    assert (Hlt' : Nat.ltb 1 n = true) by (apply Nat.ltb_lt; exact Hlt). rewrite Hlt' in H2.
    destruct (assoc (PS "azp") d) as [azp|]; try discriminate.
    apply bind_ok in H2 as (b & Hb & H2). destruct b; [|discriminate]. eauto.
  - intros azp c Ha Hc. rewrite Ha, Hc in Hazp.
    destruct (pyval_eqb (VStr c) azp) eqn:E; try discriminate. now apply pyval_eqb_vstr_l.
  - destruct (assoc (PS "exp") d) as [[| |ex| | | |]|]; try discriminate.
    destruct (ex <? now - eff_skew kw)%Z eqn:E1; try discriminate.
    destruct (assoc (PS "iat") d) as [[| |ia| | | |]|]; try discriminate.
    destruct (ia + eff_storage kw <? now - eff_skew kw)%Z eqn:E2; try discriminate.
    destruct (now + eff_skew kw <? ia)%Z eqn:E3; try discriminate.
    destruct (ex <? ia)%Z eqn:E4; try discriminate.
    exists ex, ia. apply Z.ltb_ge in E1, E2, E3, E4. repeat split; auto.
  - intros n Hn.
    destruct (assoc (PS "exp") d) as [[| |ex| | | |]|]; try discriminate.
    destruct (ex <? now - eff_skew kw)%Z; try discriminate.
    destruct (assoc (PS "iat") d) as [[| |ia| | | |]|]; try discriminate.
    destruct (ia + eff_storage kw <? now - eff_skew kw)%Z; try discriminate.
    destruct (now + eff_skew kw <? ia)%Z; try discriminate.
    destruct (ex <? ia)%Z; try discriminate.
    rewrite Hn in H. destruct (assoc (PS "nonce") d) as [v|]; try discriminate.
    destruct (pyval_eqb (VStr n) v) eqn:E; try discriminate. apply pyval_eqb_vstr_l in E. congruence.
Qed.

(* ---- hashes ---- *)
Section Hash.
  Variable lhash : pystr -> pystr -> pystr.

  Lemma hash_check_inv d alg claim value bad :
    hash_check lhash d alg claim value bad = Ok tt ->
    forall v, value = Some v -> assoc claim d = Some (VStr (lhash (hash_bits alg) v)).
  Proof.
    unfold hash_check. intros H v ->. destruct (assoc claim d) as [h|]; try discriminate.
    destruct (pyval_eqb h (VStr (lhash (hash_bits alg) v))) eqn:E; try discriminate.
    apply pyval_eqb_vstr_r in E. congruence.
  Qed.

  Lemma hash_checks_inv d alg code atok :
    hash_checks lhash true true d alg code atok = Ok tt ->
    (forall c, code = Some c -> assoc (PS "c_hash") d = Some (VStr (lhash (hash_bits alg) c))) /\
    (forall a, atok = Some a -> assoc (PS "at_hash") d = Some (VStr (lhash (hash_bits alg) a))).
  Proof.
    unfold hash_checks. cbn [andb]. intro H. apply bind_ok in H as ([] & H1 & H2).
    split; intros x Hx; eapply hash_check_inv; eauto.
  Qed.

  (* ---- the stages of verify_id_token ---- *)
  Lemma verify_id_token_stages kw ch code atok t now d :
    verify_id_token lhash kw ch code atok t now = Ok d ->
    exists signed,
      alg_policy kw (t_alg t) = Ok signed /\
      (signed = true -> issuer_known kw t = Ok tt /\ sig_accepted kw t = Ok tt) /\
      from_dict idtoken_params (t_claims t) [] = Ok d /\
      check_required idtoken_params d = Ok tt /\
      idtoken_checks kw d now = Ok tt /\
      hash_checks lhash signed ch d (t_alg t) code atok = Ok tt /\
      decrypt_stage kw t = Ok tt /\ enc_expectation kw t = Ok tt.
  Proof.
    unfold verify_id_token. intro H.
    apply bind_ok in H as ([] & Hdec & H).
    apply bind_ok in H as ([] & _ & H).
    apply bind_ok in H as (signed & Hp & H).
    apply bind_ok in H as ([] & Hk & H).
    apply bind_ok in H as ([] & Henc & H).
    apply bind_ok in H as ([] & Hs & H).
    apply bind_ok in H as (d' & Hf & H).
    apply bind_ok in H as ([] & Hr & H).
    apply bind_ok in H as ([] & _ & H).
    apply bind_ok in H as ([] & Hc & H).
    apply bind_ok in H as ([] & Hh & H).
    apply bind_ok in H as ([] & _ & H).
    inversion H; subst d'. exists signed.
    split; [exact Hp|]. split; [intros ->; split; assumption|].
    split; [exact Hf|]. split; [exact Hr|]. split; [exact Hc|]. split; [exact Hh|]. split; assumption.
  Qed.

  (* ---- encrypted delivery ---- *)
  Lemma decrypt_stage_inv kw t w :
    decrypt_stage kw t = Ok tt -> t_wrap t = Some w -> exists k, w_key w = Some k /\ In k (kw_dec kw).
  Proof.
    unfold decrypt_stage. intros H Hw. rewrite Hw in H.
    destruct (negb _); try discriminate. destruct (kw_dec kw) as [|k0 ks] eqn:Ek; try discriminate.
    destruct (w_key w) as [k|]; try discriminate.
    destruct (existsb (Nat.eqb k) (k0 :: ks)) eqn:Ex; try discriminate.
    apply existsb_exists in Ex as (k' & Hin & Heq). apply Nat.eqb_eq in Heq. subst k'. eauto.
  Qed.

  Lemma header_expect_inv e a : header_expect e (Some a) = Ok tt -> forall x, e = Some x -> x <> [] -> a = x.
  Proof.
    unfold header_expect. intros H x -> Hne. destruct x as [|c r]; [congruence|].
    destruct (str_eqb (c :: r) a) eqn:E; try discriminate. apply str_eqb_eq in E. congruence.
  Qed.

  Lemma enc_expectation_inv kw t w :
    enc_expectation kw t = Ok tt -> t_wrap t = Some w ->
    (forall a, kw_encalg kw = Some a -> a <> [] -> w_alg w = a) /\
    (forall e, kw_encenc kw = Some e -> e <> [] -> w_enc w = e).
  Proof.
    unfold enc_expectation. intros H Hw. rewrite Hw in H. apply bind_ok in H as ([] & H1 & H2).
    split; intros x Hx Hne; eapply header_expect_inv; eauto.
  Qed.

  (* decryption is the identity on the symbolic level: an encrypted delivery establishes exactly what the
     delivery of the inner JWS to a client without encryption expectations establishes *)
  Theorem encrypted_as_plain kw ch code atok t now d :
    verify_id_token lhash kw ch code atok t now = Ok d ->
    verify_id_token lhash (kw_plain kw) ch code atok (unwrap t) now = Ok d.
  Proof.
    unfold verify_id_token. intro H.
    apply bind_ok in H as ([] & _ & H).
    apply bind_ok in H as ([] & Hg & H).
    apply bind_ok in H as (signed & Hp & H).
    apply bind_ok in H as ([] & Hk & H).
    apply bind_ok in H as ([] & _ & H).
    change (decrypt_stage (kw_plain kw) (unwrap t)) with (@Ok unit tt).
    change (t_alg (unwrap t)) with (t_alg t). change (t_claims (unwrap t)) with (t_claims t).
    change (alg_policy (kw_plain kw) (t_alg t)) with (alg_policy kw (t_alg t)).
    change (issuer_known (kw_plain kw) (unwrap t)) with (issuer_known kw t).
    change (enc_expectation (kw_plain kw) (unwrap t)) with (@Ok unit tt).
    change (sig_accepted (kw_plain kw) (unwrap t)) with (sig_accepted kw t).
    change (idtoken_checks (kw_plain kw)) with (idtoken_checks kw).
    cbn [bind]. rewrite Hg. cbn [bind]. rewrite Hp. cbn [bind]. rewrite Hk. cbn [bind]. exact H.
  Qed.

  (* ... hence a JWE around a token that is refused when delivered plain is refused *)
  Corollary refused_plain_refused_encrypted kw ch code atok t now :
    (forall d, verify_id_token lhash (kw_plain kw) ch code atok (unwrap t) now <> Ok d) ->
    forall d, verify_id_token lhash kw ch code atok t now <> Ok d.
  Proof. intros Hno d H. apply (Hno d). apply encrypted_as_plain; exact H. Qed.
End Hash.

(* ---- facts read off the generated schema table (they break when /repo changes the schema) ---- *)
Lemma idtoken_iss_spec : find_spec (PS "iss") idtoken_params = Some (mkPS (PS "iss") CStr true).
Proof. reflexivity. Qed.
Lemma idtoken_aud_required : In (mkPS (PS "aud") CStrList true) idtoken_params.
Proof. vm_compute. tauto. Qed.
Lemma idtoken_iss_required : In (mkPS (PS "iss") CStr true) idtoken_params.
Proof. vm_compute. tauto. Qed.
Lemma idtoken_sub_required : In (mkPS (PS "sub") CStr true) idtoken_params.
Proof. vm_compute. tauto. Qed.
Lemma idtoken_exp_iat_required :
  In (mkPS (PS "exp") CInt true) idtoken_params /\ In (mkPS (PS "iat") CInt true) idtoken_params.
Proof. vm_compute. tauto. Qed.

(* ---- C08 soundness at the message API ---- *)
Section Sound.
  Variable lhash : pystr -> pystr -> pystr.

  (* the key under which an accepted signed token verifies belongs to the expected issuer (or is this
     client's own symmetric key when the algorithm is an HMAC) *)
  Lemma accepted_key_of_issuer kw ch code atok t now d i :
    verify_id_token lhash kw ch code atok t now = Ok d ->
    NoDup (List.map fst (t_claims t)) ->
    t_alg t <> PS "none" -> kw_iss kw = Some i ->
    exists k e, alg2kty (t_alg t) = Some k /\ In e (kw_jar kw) /\ je_kty e = k /\
                t_signer t = Some (je_key e) /\
                (je_owner e = i \/ (je_owner e = [] /\ k = KOct)).
  Proof.
    intros H Hnd Hnone Hi.
    apply verify_id_token_stages in H as (signed & Hp & Hsig & Hf & Hr & Hc & _).
    apply alg_policy_inv in Hp as [Hp0 Hp1].
    destruct signed; [|destruct (Hp0 eq_refl) as [E _]; contradiction].
    destruct (Hsig eq_refl) as [Hk Hs].
    apply issuer_known_inv in Hk as (s & Hraw & _).
    apply sig_accepted_inv in Hs as (k & iss & e & Hk1 & Hki & (Hin & Hkt & Hown) & Hsg & _).
    (* the iss claim is truthy: it survived the required check *)
    destruct (check_required_ok _ _ Hr _ idtoken_iss_required eq_refl) as (v & Hv & Htr). cbn in Hv.
    destruct Htr as [Htr|Htr]; [discriminate|].
    pose proof (from_dict_assoc idtoken_params (t_claims t) [] d (PS "iss") Hf Hnd) as P.
    rewrite Hraw in P.
    destruct s as [|c s'].
    - (* "" is dropped by from_dict, so iss would be missing *)
      cbn [is_blank] in P. cbn in P. rewrite Hv in P. discriminate.
    - cbn [is_blank] in P. rewrite idtoken_iss_spec in P. cbn in P.
      apply idtoken_checks_inv in Hc as (Hc1 & _).
      specialize (Hc1 i _ Hi P). inversion Hc1; subst i.
      unfold key_issuer in Hki. rewrite Hraw in Hki. inversion Hki; subst iss.
      exists k, e. repeat split; auto.
  Qed.
End Sound.

(* ---- the full message-level soundness statement ---- *)
Section SoundFull.
  Variable lhash : pystr -> pystr -> pystr.

  Theorem verify_id_token_sound kw ch code atok t now d i c :
    verify_id_token lhash kw ch code atok t now = Ok d ->
    NoDup (List.map fst (t_claims t)) ->
    kw_iss kw = Some i -> kw_client_id kw = Some c ->
    (* 1 signature under a key registered for the issuer, permitted algorithm, none only if explicitly allowed *)
    ((t_alg t = PS "none" /\ (kw_sigalg kw = Some (PS "none") \/ kw_allow_none kw = true))
     \/ (t_alg t <> PS "none"
         /\ (exists k e, alg2kty (t_alg t) = Some k /\ In e (kw_jar kw) /\ je_kty e = k /\
                         t_signer t = Some (je_key e) /\ (je_owner e = i \/ (je_owner e = [] /\ k = KOct)))
         /\ (forall a, kw_sigalg kw = Some a -> a <> [] -> t_alg t = a)
         /\ (forall a, kw_allowed_sign_alg kw = Some a -> t_alg t = a))) /\
    (* 2 what is returned as verified is the coerced payload of this very token *)
    from_dict idtoken_params (t_claims t) [] = Ok d /\
    (* 3 it names the issuer *)
    assoc (PS "iss") d = Some (VStr i) /\
    (* 4 it lists this client in aud; azp, when present or when there are several audiences, is this client *)
    (exists aud, assoc (PS "aud") d = Some aud /\ py_in (VStr c) aud = Ok true /\
                 (forall n, py_len aud = Ok n -> (1 < n)%nat -> assoc (PS "azp") d = Some (VStr c))) /\
    (forall azp, assoc (PS "azp") d = Some azp -> azp = VStr c) /\
    (* 5 unexpired and not issued in the future, within the skew; inside the storage window; exp >= iat *)
    (exists exp iat, assoc (PS "exp") d = Some (VInt exp) /\ assoc (PS "iat") d = Some (VInt iat) /\
                     (now - eff_skew kw <= exp)%Z /\ (iat <= now + eff_skew kw)%Z /\
                     (now - eff_skew kw <= iat + eff_storage kw)%Z /\ (iat <= exp)%Z) /\
    (* 6 the nonce argument, when given, is present in the token and equal *)
    (forall n, kw_nonce kw = Some n -> assoc (PS "nonce") d = Some (VStr n)) /\
    (* 7 c_hash / at_hash of a signed token delivered by the authorization endpoint *)
    (ch = true -> t_alg t <> PS "none" ->
       (forall x, code = Some x -> assoc (PS "c_hash") d = Some (VStr (lhash (hash_bits (t_alg t)) x))) /\
       (forall x, atok = Some x -> assoc (PS "at_hash") d = Some (VStr (lhash (hash_bits (t_alg t)) x)))) /\
    (* 8 delivered as a JWE: encrypted to one of this client's decryption keys, with the expected alg / enc *)
    (forall w, t_wrap t = Some w ->
       (exists k, w_key w = Some k /\ In k (kw_dec kw)) /\
       (forall a, kw_encalg kw = Some a -> a <> [] -> w_alg w = a) /\
       (forall e, kw_encenc kw = Some e -> e <> [] -> w_enc w = e)).
  Proof.
    intros H Hnd Hi Hc.
    pose proof (verify_id_token_stages lhash _ _ _ _ _ _ _ H) as (signed & Hp & Hsig & Hf & Hr & Hck & Hh & Hdec & Henc).
    pose proof (alg_policy_inv _ _ _ Hp) as [Hp0 Hp1].
    pose proof (idtoken_checks_inv _ _ _ Hck) as (C1 & C2 & C3 & C4 & C5 & C6).
    split; [|split; [exact Hf|split; [|split; [|split; [exact (fun azp Ha => C4 azp c Ha Hc)|split; [|split; [exact C6|split]]]]]]].
    - destruct signed.
      + right. destruct (Hp1 eq_refl) as [Hne Hallowed]. split; [exact Hne|].
        split; [eapply accepted_key_of_issuer; eauto|].
        split; [|exact Hallowed].
        destruct (Hsig eq_refl) as [_ Hs]. apply sig_accepted_inv in Hs as (? & ? & ? & _ & _ & _ & _ & Ha). exact Ha.
      + left. apply Hp0. reflexivity.
    - destruct (check_required_ok _ _ Hr _ idtoken_iss_required eq_refl) as (v & Hv & _). cbn [ps_name] in Hv.
      rewrite Hv. f_equal. eapply C1; eauto.
    - destruct (check_required_ok _ _ Hr _ idtoken_aud_required eq_refl) as (aud & Ha & _). cbn [ps_name] in Ha.
      exists aud. split; [exact Ha|]. split; [eapply C2; eauto|].
      intros n Hn Hlt. destruct (C3 aud n Ha Hn Hlt) as (azp & Hazp & _).
      rewrite Hazp. f_equal. eapply C4; eauto.
    - destruct C5 as (ex & ia & H1 & H2 & H3 & H4 & H5 & H6). exists ex, ia. repeat split; auto.
    - intros -> Hne. destruct signed.
      + apply hash_checks_inv in Hh. exact Hh.
      + destruct (Hp0 eq_refl) as [E _]. contradiction.
    - intros w Hw. split; [eapply decrypt_stage_inv; eauto|eapply enc_expectation_inv; eauto].
  Qed.

  (* unforgeability: if no key in the jar is ever published, the signature of an accepted signed token is a
     term the honest parties published (Lib/Crypto.v sig_genuine / mac_genuine) *)
  Theorem accepted_token_genuine (K : term -> Prop) kw ch code atok t now d i :
    (forall e, In e (kw_jar kw) -> forall x, K x -> ~ sub (Key (je_key e)) x) ->
    verify_id_token lhash kw ch code atok t now = Ok d ->
    NoDup (List.map fst (t_claims t)) -> kw_iss kw = Some i -> t_alg t <> PS "none" ->
    exists k, t_signer t = Some k /\
      forall m, (derivable K (Sig k m) -> exists t0, K t0 /\ sub (Sig k m) t0) /\
                (derivable K (Mac k m) -> exists t0, K t0 /\ sub (Mac k m) t0).
  Proof.
    intros Hsecret H Hnd Hi Hne.
    destruct (accepted_key_of_issuer lhash _ _ _ _ _ _ _ _ H Hnd Hne Hi) as (k & e & _ & Hin & _ & Hs & _).
    exists (je_key e). split; [exact Hs|]. intro m. split; intro Hd.
    - eapply sig_genuine; eauto.
    - eapply mac_genuine; eauto.
  Qed.
End SoundFull.
