(* Proofs/ImpExp_proofs.v — the ImpExp codec and the object-level dump/load round trip (C13). *)
From Verif Require Import Lib.Base Lib.PyStr Lib.ImpExpTy Model.ImpExp.

(* ------------------------------------------------------------------ induction over nested values *)
Section PyvalInd.
  Variable P : pyval -> Prop.
  Hypothesis HNone : P VNone.
  Hypothesis HBool : forall b, P (VBool b).
  Hypothesis HInt : forall z, P (VInt z).
  Hypothesis HStr : forall s, P (VStr s).
  Hypothesis HList : forall l, Forall P l -> P (VList l).
  Hypothesis HDict : forall d, Forall (fun p => P (snd p)) d -> P (VDict d).
  Hypothesis HObj : forall d, Forall (fun p => P (snd p)) d -> P (VObj d).
  Fixpoint pyval_rect' (v : pyval) : P v :=
    match v with
    | VNone => HNone | VBool b => HBool b | VInt z => HInt z | VStr s => HStr s
    | VList l => HList l ((fix go (l : list pyval) : Forall P l :=
                             match l with [] => Forall_nil _ | x :: r => Forall_cons _ (pyval_rect' x) (go r) end) l)
    | VDict d => HDict d ((fix go (d : list (pystr * pyval)) : Forall (fun p => P (snd p)) d :=
                             match d with [] => Forall_nil _ | (k, x) :: r => Forall_cons (k, x) (pyval_rect' x) (go r) end) d)
    | VObj d => HObj d ((fix go (d : list (pystr * pyval)) : Forall (fun p => P (snd p)) d :=
                             match d with [] => Forall_nil _ | (k, x) :: r => Forall_cons (k, x) (pyval_rect' x) (go r) end) d)
    end.
End PyvalInd.

(* ------------------------------------------------------------------ JSON values are carried unchanged *)
Lemma dump_json_id v : json_ok v = true -> dump_json v = Ok v.
Proof.
  induction v as [| | | |l IH|d IH|d IH] using pyval_rect'; intros G; try reflexivity; try discriminate.
  - cbn [dump_json]. cbn [json_ok] in G.
    assert ((fix go (l : list pyval) : res (list pyval) :=
               match l with [] => Ok [] | x :: r => y <- dump_json x ;; ys <- go r ;; Ok (y :: ys) end) l = Ok l) as ->; [|reflexivity].
    induction IH as [|x r Hx _ IHr]; [reflexivity|].
    apply andb_true_iff in G as [G1 G2]. rewrite (Hx G1). cbn [bind]. rewrite (IHr G2). reflexivity.
  - cbn [dump_json]. cbn [json_ok] in G.
    assert ((fix go (d : list (pystr * pyval)) : res (list (pystr * pyval)) :=
               match d with
               | [] => Ok []
               | (k, x) :: r =>
                   if str_eqb k s_upstream_get then go r
                   else if str_eqb k s_class then
                     match x with VStr _ => ys <- go r ;; Ok ((k, x) :: ys) | _ => Err AttributeError end
                   else y <- dump_json x ;; ys <- go r ;; Ok ((k, y) :: ys)
               end) d = Ok d) as ->; [|reflexivity].
    induction IH as [|[k x] r Hx _ IHr]; [reflexivity|].
    apply andb_true_iff in G as [G G4]. apply andb_true_iff in G as [G G3]. apply andb_true_iff in G as [G1 G2].
    apply negb_true_iff in G1. rewrite G1. cbn [snd] in Hx.
    destruct (str_eqb k s_class).
    + destruct x; try discriminate. rewrite (IHr G4). reflexivity.
    + rewrite (Hx G3). cbn [bind]. rewrite (IHr G4). reflexivity.
Qed.

Lemma load_json_id v : json_ok v = true -> load_json v = Ok v.
Proof.
  induction v as [| | | |l IH|d IH|d IH] using pyval_rect'; intros G; try reflexivity; try discriminate.
  - cbn [load_json json_ok] in *. unfold load_str. apply negb_true_iff in G. now rewrite G.
  - cbn [load_json]. cbn [json_ok] in G.
    assert ((fix go (l : list pyval) : res (list pyval) :=
               match l with [] => Ok [] | x :: r => y <- load_json x ;; ys <- go r ;; Ok (y :: ys) end) l = Ok l) as ->; [|reflexivity].
    induction IH as [|x r Hx _ IHr]; [reflexivity|].
    apply andb_true_iff in G as [G1 G2]. rewrite (Hx G1). cbn [bind]. rewrite (IHr G2). reflexivity.
  - cbn [load_json]. cbn [json_ok] in G.
    assert ((fix go (d : list (pystr * pyval)) : res (list (pystr * pyval)) :=
               match d with
               | [] => Ok []
               | (k, x) :: r => y <- load_json x ;; ys <- go r ;; Ok ((k, y) :: ys)
               end) d = Ok d) as ->; [|reflexivity].
    induction IH as [|[k x] r Hx _ IHr]; [reflexivity|].
    apply andb_true_iff in G as [G G4]. apply andb_true_iff in G as [G G3]. cbn [snd] in Hx.
    rewrite (Hx G3). cbn [bind]. rewrite (IHr G4). reflexivity.
Qed.

(* C13_codec at the value level: what type2cls-driven dump_attr writes, load_attr reads back *)
Theorem codec_json v : json_ok v = true ->
  exists x, dump_json v = Ok x /\ load_json x = Ok v.
Proof. intros G. exists v. split; [now apply dump_json_id|now apply load_json_id]. Qed.

(* the guard is necessary: a str that begins with "BYTES:" comes back as bytes *)
Lemma codec_json_unguarded_refuted :
  exists v, json_ok v = false /\ forall x, dump_json v = Ok x -> load_json x <> Ok v.
Proof.
  exists (VStr (s_bytes ++ [81; 85; 74; 68]%N)). split; [reflexivity|].
  intros x H. inversion H; subst. cbn. discriminate.
Qed.
(* ... and so is the "upstream_get" clause: that key is dropped from every exported dict *)
Lemma codec_json_upstream_get_refuted :
  exists v, json_ok v = false /\ forall x, dump_json v = Ok x -> load_json x <> Ok v.
Proof.
  exists (VDict [(s_upstream_get, VInt 1)]). split; [reflexivity|].
  intros x H. inversion H; subst. cbn. discriminate.
Qed.

(* ------------------------------------------------------------------ one attribute *)
Lemma is_msg_mk v n d : is_msg v = Some (n, d) -> v = mk_msg n d.
Proof.
  unfold is_msg, mk_msg. destruct v as [| | | | | |f]; try discriminate.
  destruct f as [|[a x] [|[b y] [|? ?]]]; try discriminate; destruct x; try discriminate; destruct y; try discriminate.
  destruct (str_eqb a s_msg) eqn:A; [|discriminate]. destruct (str_eqb b s_dict) eqn:B; [|discriminate].
  apply str_eqb_eq in A, B. subst. cbn. intros H. now inversion H.
Qed.

Theorem codec_attr ty v : attr_ok ty v = true ->
  exists x, dump_attr ty v = Ok x /\ load_attr ty x = Ok v.
Proof.
  destruct ty; cbn [attr_ok]; intros G; try discriminate.
  - exists v. auto.
  - exists v. auto.
  - destruct v; try discriminate. exists (VStr s). split; [reflexivity|]. cbn. unfold load_str.
    apply negb_true_iff in G. now rewrite G.
  - exists v. auto.
  - destruct v; try discriminate. exists (VDict d). split; [now apply dump_json_id|now apply load_json_id].
  - destruct v; try discriminate. exists (VList l). split; [now apply dump_json_id|now apply load_json_id].
  - destruct v as [| | | | |d|]; try discriminate. exists (VDict d). split; [reflexivity|].
    destruct d as [|[k x] [|? ?]]; try reflexivity. cbn. apply negb_true_iff in G. now rewrite G.
  - destruct (is_msg v) as [[n d]|] eqn:M; [|discriminate]. exists (VDict [(n, VDict d)]).
    cbn [dump_attr load_attr]. rewrite M. split; [reflexivity|]. now rewrite (is_msg_mk v n d M).
Qed.

Lemma attr_ok_not_none ty v : attr_ok ty v = true -> flat_ty ty = true.
Proof. destruct ty; cbn; auto; discriminate. Qed.

(* ------------------------------------------------------------------ one object *)
Lemma getattr_aset_same a v o : v <> VNone -> getattr a (aset a v o) = Some v.
Proof. intros H. unfold getattr. rewrite assoc_aset_same. destruct v; congruence. Qed.

Lemma has_key_assoc_none {V} a (t : list (pystr * V)) : has_key a t = false -> assoc a t = None.
Proof. unfold has_key. destruct (assoc a t); [discriminate|reflexivity]. Qed.

(* what dump_fields exports, attribute by attribute *)
Definition exported (t : list (pystr * ptype)) (sp : list pystr) (o : fields) (a : pystr) : option pyval :=
  match assoc a t with
  | Some ty => if str_in a sp then None
               else match getattr a o with
                    | Some v => match dump_attr ty v with Ok x => Some x | _ => None end
                    | None => None
                    end
  | None => None
  end.

Lemma dump_fields_assoc t sp o : forall D, nodup_keys t = true -> dump_fields t sp o = Ok D ->
  forall a, assoc a D = exported t sp o a.
Proof.
  induction t as [|[b ty] r IH]; intros D N H a; cbn [dump_fields] in H.
  - inversion H; subst. reflexivity.
  - cbn [nodup_keys] in N. apply andb_true_iff in N as [Nb Nr]. apply negb_true_iff in Nb.
    unfold exported. cbn [assoc]. destruct (str_eqb a b) eqn:E.
    + apply str_eqb_eq in E. subst b.
      destruct (str_in a sp) eqn:S.
      * rewrite (IH D Nr H a). unfold exported. now rewrite (has_key_assoc_none a r Nb).
      * destruct (getattr a o) as [v|] eqn:G.
        -- destruct (dump_attr ty v) as [x| |] eqn:Dx; try discriminate. cbn [bind] in H.
           destruct (dump_fields r sp o) as [xs| |]; try discriminate. cbn [bind] in H. inversion H; subst.
           cbn [assoc]. now rewrite str_eqb_refl.
        -- rewrite (IH D Nr H a). unfold exported. now rewrite (has_key_assoc_none a r Nb).
    + assert (forall D', dump_fields r sp o = Ok D' -> assoc a D' = exported r sp o a) as IH' by (intros; now apply IH).
      unfold exported in IH'.
      destruct (str_in b sp); [now apply IH'|].
      destruct (getattr b o) as [v|]; [|now apply IH'].
      destruct (dump_attr ty v) as [x| |]; try discriminate. cbn [bind] in H.
      destruct (dump_fields r sp o) as [xs| |] eqn:R; try discriminate. cbn [bind] in H. inversion H; subst.
      cbn [assoc]. rewrite E. now apply IH'.
Qed.

Lemma dump_fields_ok t sp o o0 : obj_ok t sp o o0 = true -> exists D, dump_fields t sp o = Ok D.
Proof.
  induction t as [|[a ty] r IH]; intros G; cbn [dump_fields]; [now exists []|].
  cbn [obj_ok] in G. apply andb_true_iff in G as [G1 G2]. destruct (IH G2) as [D HD].
  destruct (str_in a sp); [now exists D|].
  destruct (getattr a o) as [v|]; [|now exists D].
  destruct (codec_attr ty v G1) as (x & Hx & _). rewrite Hx, HD. cbn [bind]. now exists ((a, x) :: D).
Qed.

(* dump_fields looks at the table's attributes only *)
Lemma dump_fields_ext t sp o o' :
  (forall a ty, In (a, ty) t -> str_in a sp = false -> getattr a o' = getattr a o) ->
  dump_fields t sp o' = dump_fields t sp o.
Proof.
  induction t as [|[a ty] r IH]; intros H; cbn [dump_fields]; [reflexivity|].
  rewrite IH by (intros; eapply H; [right|]; eauto).
  destruct (str_in a sp) eqn:S; [reflexivity|]. rewrite (H a ty (or_introl eq_refl) S). reflexivity.
Qed.

Lemma in_keys_has_key {V} a (ty : V) t : In (a, ty) t -> has_key a t = true.
Proof.
  unfold has_key. induction t as [|[b u] r IH]; cbn; [tauto|]. intros [H|H].
  - inversion H; subst. now rewrite str_eqb_refl.
  - destruct (str_eqb a b); [reflexivity|auto].
Qed.

(* load(): the attributes of the table get back what the original had; everything else keeps the
   freshly constructed instance's value *)
Lemma load_fields_spec sp o o0 D (EX : pystr -> option pyval) :
  forall r acc,
  nodup_keys r = true ->
  obj_ok r sp o o0 = true ->
  (forall a ty, In (a, ty) r -> str_in a sp = false ->
     assoc a D = match getattr a o with
                 | Some v => match dump_attr ty v with Ok x => Some x | _ => None end
                 | None => None end) ->
  (forall a, has_key a r = true -> assoc a acc = assoc a o0) ->
  exists o', load_fields r sp acc D = Ok o' /\
             (forall b, has_key b r = false -> assoc b o' = assoc b acc) /\
             (forall a ty, In (a, ty) r -> str_in a sp = false -> getattr a o' = getattr a o).
Proof.
  induction r as [|[a ty] r IH]; intros acc N G HD HA; cbn [load_fields].
  - exists acc. split; [reflexivity|]. split; [auto|]. intros a ty [].
  - cbn [nodup_keys] in N. apply andb_true_iff in N as [Na Nr]. apply negb_true_iff in Na.
    cbn [obj_ok] in G. apply andb_true_iff in G as [G1 G2].
    assert (forall b, has_key b r = true -> str_eqb b a = false) as Hne.
    { intros b Hb. apply str_eqb_neq. intros ->. congruence. }
    assert (forall (V : Type) (m : list (pystr * V)) b (x : V), has_key b ((a, x) :: m) = if str_eqb b a then true else has_key b m) as HK.
    { intros V m b x. unfold has_key. cbn [assoc]. now destruct (str_eqb b a). }
    destruct (str_in a sp) eqn:S.
    + destruct (IH acc Nr G2) as (o' & L & Out & In').
      * intros b tb Hb. apply HD. now right.
      * intros b Hb. apply HA. rewrite HK. now destruct (str_eqb b a).
      * exists o'. split; [exact L|]. split.
        -- intros b Hb. apply Out. rewrite HK in Hb. now destruct (str_eqb b a).
        -- intros b tb [Hb|Hb] Sb; [inversion Hb; subst; congruence|eauto].
    + rewrite (HD a ty (or_introl eq_refl) S).
      destruct (getattr a o) as [v|] eqn:Ga.
      * destruct (codec_attr ty v G1) as (x & Hx & Hl). rewrite Hx, Hl. cbn [bind].
        assert (v <> VNone) as Hv.
        { unfold getattr in Ga. destruct (assoc a o) as [[]|]; congruence. }
        destruct (IH (aset a v acc) Nr G2) as (o' & L & Out & In').
        -- intros b tb Hb. apply HD. now right.
        -- intros b Hb. rewrite assoc_aset_other.
           ++ apply HA. rewrite HK. now destruct (str_eqb b a).
           ++ intros ->. congruence.
        -- exists o'. split; [exact L|]. split.
           ++ intros b Hb. rewrite HK in Hb. destruct (str_eqb b a) eqn:E; [discriminate|].
              rewrite (Out b Hb). apply assoc_aset_other. intros ->. rewrite str_eqb_refl in E. discriminate.
           ++ intros b tb [Hb|Hb] Sb; [|eauto]. inversion Hb; subst.
              unfold getattr at 1. rewrite (Out b Na), assoc_aset_same.
              destruct v; congruence.
      * destruct (IH acc Nr G2) as (o' & L & Out & In').
        -- intros b tb Hb. apply HD. now right.
        -- intros b Hb. apply HA. rewrite HK. now destruct (str_eqb b a).
        -- exists o'. split; [exact L|]. split.
           ++ intros b Hb. apply Out. rewrite HK in Hb. now destruct (str_eqb b a).
           ++ intros b tb [Hb|Hb] Sb; [|eauto]. inversion Hb; subst.
              rewrite Ga. unfold getattr at 1. rewrite (Out b Na), (HA b).
              ** clear -G1. unfold getattr in *. destruct (assoc b o0) as [[]|]; try discriminate; reflexivity.
              ** rewrite HK. now rewrite str_eqb_refl.
Qed.

(* C13 at the object level: restore of an export gives back every exported attribute, and exporting
   the restored instance gives the same export (dump o load o dump = dump).  o0 is the instance the
   class constructor produces before load() fills it. *)
Theorem obj_roundtrip t sp o o0 :
  nodup_keys t = true -> obj_ok t sp o o0 = true ->
  exists D o', dump_fields t sp o = Ok D /\ load_fields t sp o0 D = Ok o' /\
               (forall a ty, In (a, ty) t -> str_in a sp = false -> getattr a o' = getattr a o) /\
               dump_fields t sp o' = Ok D.
Proof.
  intros N G. destruct (dump_fields_ok t sp o o0 G) as [D HD]. exists D.
  destruct (load_fields_spec sp o o0 D (fun _ => None) t o0 N G) as (o' & L & _ & R).
  - intros a ty Ha S. rewrite (dump_fields_assoc t sp o D N HD a). unfold exported.
    assert (assoc a t = Some ty) as ->; [|now rewrite S].
    clear -N Ha. induction t as [|[b u] r IH]; [destruct Ha|]. cbn [nodup_keys] in N.
    apply andb_true_iff in N as [Nb Nr]. apply negb_true_iff in Nb. cbn [assoc]. destruct Ha as [Ha|Ha].
    + inversion Ha; subst. now rewrite str_eqb_refl.
    + destruct (str_eqb a b) eqn:E; [|auto]. apply str_eqb_eq in E. subst.
      rewrite (in_keys_has_key _ _ _ Ha) in Nb. discriminate.
  - auto.
  - exists o'. split; [exact HD|]. split; [exact L|]. split; [exact R|].
    rewrite <- HD. now apply dump_fields_ext.
Qed.

(* ------------------------------------------------------------------ grants with their issued tokens *)
Lemma load_fields_ext sp D D' : forall t o0,
  (forall a ty, In (a, ty) t -> str_in a sp = false -> assoc a D = assoc a D') ->
  load_fields t sp o0 D = load_fields t sp o0 D'.
Proof.
  induction t as [|[a ty] r IH]; intros o0 H; cbn [load_fields]; [reflexivity|].
  destruct (str_in a sp) eqn:S; [apply IH; intros; eapply H; [right|]; eauto|].
  rewrite <- (H a ty (or_introl eq_refl) S).
  destruct (assoc a D); [|apply IH; intros; eapply H; [right|]; eauto].
  destruct (load_attr ty p); cbn [bind]; [|reflexivity|reflexivity]. apply IH. intros; eapply H; [right|]; eauto.
Qed.

Lemma assoc_app {V} a (x y : list (pystr * V)) :
  assoc a (x ++ y) = match assoc a x with Some v => Some v | None => assoc a y end.
Proof. induction x as [|[b v] r IH]; cbn; [reflexivity|]. destruct (str_eqb a b); [reflexivity|exact IH]. Qed.

Lemma dump_fields_keys t sp o D a : dump_fields t sp o = Ok D -> str_in a sp = true -> assoc a D = None.
Proof.
  revert D. induction t as [|[b ty] r IH]; intros D H S; cbn [dump_fields] in H.
  - inversion H. reflexivity.
  - destruct (str_in b sp) eqn:Sb; [eauto|].
    destruct (getattr b o); [|eauto].
    destruct (dump_attr ty p); try discriminate. cbn [bind] in H.
    destruct (dump_fields r sp o) as [xs| |]; try discriminate. cbn [bind] in H. inversion H; subst.
    cbn [assoc]. destruct (str_eqb a b) eqn:E; [|eauto]. apply str_eqb_eq in E. subst. congruence.
Qed.

Definition tok_agree (tabs : list (pystr * impexp_class)) (t t' : pyval) : Prop :=
  exists f f' c, t = VObj f /\ t' = VObj f' /\ obj_class f = Some c /\
                 agree_on (class_table tabs c) (specials_of tabs c) f f'.

Lemma tok_roundtrip tabs fresh t : tok_ok tabs fresh t = true ->
  exists x t', tok_dump tabs t = Ok x /\ tok_load tabs fresh x = Ok t' /\ tok_agree tabs t t'.
Proof.
  unfold tok_ok, tok_dump. destruct t as [| | | | | |f]; try discriminate.
  destruct (obj_class f) as [c|] eqn:C; [|discriminate]. intros G. apply andb_true_iff in G as [N G].
  destruct (obj_roundtrip _ _ _ _ N G) as (D & o' & HD & HL & HA & _).
  rewrite HD. cbn [bind]. exists (VDict [(c, VDict D)]), (VObj o'). split; [reflexivity|].
  cbn [tok_load]. rewrite HL. cbn [bind]. split; [reflexivity|].
  exists f, o', c. auto.
Qed.

Lemma toks_roundtrip tabs fresh l : forallb (tok_ok tabs fresh) l = true ->
  exists xs l', map_res (tok_dump tabs) l = Ok xs /\ map_res (tok_load tabs fresh) xs = Ok l' /\
                Forall2 (tok_agree tabs) l l'.
Proof.
  induction l as [|t l IH]; cbn [forallb map_res]; intros G.
  - exists [], []. cbn. auto.
  - apply andb_true_iff in G as [G1 G2]. destruct (tok_roundtrip tabs fresh t G1) as (x & t' & A & B & C).
    destruct (IH G2) as (xs & l' & A2 & B2 & C2). rewrite A, A2. cbn [bind].
    exists (x :: xs), (t' :: l'). cbn [map_res]. rewrite B, B2. cbn [bind]. auto.
Qed.

(* a grant and the tokens it issued: dump, load into a fresh grant, and everything exported is back —
   the grant's own attributes, each issued token's attributes (in order), and the token map *)
Theorem grant_roundtrip tabs fresh g c :
  obj_class g = Some c -> grant_ok tabs fresh g = true ->
  str_in s_issued_token (specials_of tabs c) = true -> str_in s_token_map (specials_of tabs c) = true ->
  exists D g', grant_dump tabs g = Ok D /\ grant_load tabs fresh c D = Ok g' /\
    agree_on (class_table tabs c) (specials_of tabs c) g g' /\
    (forall x l, getattr s_issued_token g = Some (VList (x :: l)) ->
       exists l', assoc s_issued_token g' = Some (VList l') /\ Forall2 (tok_agree tabs) (x :: l) l') /\
    (forall x d, getattr s_token_map g = Some (VDict (x :: d)) -> assoc s_token_map g' = Some (VDict (x :: d))).
Proof.
  intros C G S1 S2. unfold grant_ok in G. rewrite C in G.
  apply andb_true_iff in G as [G G4]. apply andb_true_iff in G as [G G3]. apply andb_true_iff in G as [N G].
  destruct (obj_roundtrip _ _ _ _ N G) as (B & o' & HB & HL & HA & _).
  unfold grant_dump, grant_load. rewrite C, HB. cbn [bind].
  set (t := class_table tabs c) in *. set (sp := specials_of tabs c) in *.
  assert (Hnone1 : assoc s_issued_token B = None) by (eapply dump_fields_keys; eauto).
  assert (Hnone2 : assoc s_token_map B = None) by (eapply dump_fields_keys; eauto).
  assert (Hne : s_issued_token <> s_token_map) by discriminate.
  (* the issued tokens *)
  assert (exists IT, (match getattr s_issued_token g with
            | Some (VList (x :: l)) => toks <- map_res (tok_dump tabs) (x :: l) ;; Ok [(s_issued_token, VList toks)]
            | Some (VList []) | None => Ok []
            | Some _ => Unmodelled end) = Ok IT /\
            ((IT = [] /\ (forall x l, getattr s_issued_token g <> Some (VList (x :: l)))) \/
             (exists x l xs l', getattr s_issued_token g = Some (VList (x :: l)) /\ IT = [(s_issued_token, VList xs)] /\
                                map_res (tok_load tabs fresh) xs = Ok l' /\ Forall2 (tok_agree tabs) (x :: l) l'))) as (IT & HIT & HITc).
  { destruct (getattr s_issued_token g) as [v|] eqn:E.
    - destruct v as [| | | |l| |]; try discriminate. destruct l as [|x l].
      + exists []. split; [reflexivity|]. left. split; [reflexivity|]. intros; discriminate.
      + destruct (toks_roundtrip tabs fresh (x :: l) G3) as (xs & l' & A & Bq & Cq). rewrite A. cbn [bind].
        exists [(s_issued_token, VList xs)]. split; [reflexivity|]. right. exists x, l, xs, l'. auto.
    - exists []. split; [reflexivity|]. left. split; [reflexivity|]. intros; discriminate. }
  rewrite HIT. cbn [bind].
  assert (exists TM, (match getattr s_token_map g with
            | Some (VDict (x :: d)) => Ok [(s_token_map, VDict (x :: d))]
            | Some (VDict []) | None => Ok []
            | Some _ => Unmodelled end) = Ok TM /\
            ((TM = [] /\ (forall x d, getattr s_token_map g <> Some (VDict (x :: d)))) \/
             (exists x d, getattr s_token_map g = Some (VDict (x :: d)) /\ TM = [(s_token_map, VDict (x :: d))]))) as (TM & HTM & HTMc).
  { destruct (getattr s_token_map g) as [v|] eqn:E.
    - destruct v as [| | | | |d|]; try discriminate. destruct d as [|x d].
      + exists []. split; [reflexivity|]. left. split; [reflexivity|]. intros; discriminate.
      + exists [(s_token_map, VDict (x :: d))]. split; [reflexivity|]. right. exists x, d. auto.
    - exists []. split; [reflexivity|]. left. split; [reflexivity|]. intros; discriminate. }
  rewrite HTM. cbn [bind]. eexists. 
  (* load: the parameter loop sees the base export only *)
  assert (load_fields t sp (fresh c) (B ++ IT ++ TM) = Ok o') as HL2.
  { rewrite <- HL. apply load_fields_ext. intros a ty Ha Sa. rewrite assoc_app.
    destruct (assoc a B); [reflexivity|]. rewrite assoc_app.
    assert (a <> s_issued_token) as A1 by (intros ->; congruence).
    assert (a <> s_token_map) as A2 by (intros ->; congruence).
    apply str_eqb_neq in A1, A2.
    destruct HITc as [[-> _]|(x & l & xs & l' & _ & -> & _)]; destruct HTMc as [[-> _]|(y & d & _ & ->)]; cbn [assoc]; rewrite ?A1, ?A2; reflexivity. }
  assert (HI : assoc s_issued_token (B ++ IT ++ TM) = assoc s_issued_token IT).
  { rewrite assoc_app, Hnone1, assoc_app. destruct (assoc s_issued_token IT) eqn:E; [reflexivity|].
    destruct HTMc as [[-> _]|(y & d & _ & ->)]; [reflexivity|]. cbn [assoc].
    assert (str_eqb s_issued_token s_token_map = false) as -> by reflexivity. reflexivity. }
  assert (HT : assoc s_token_map (B ++ IT ++ TM) = assoc s_token_map TM).
  { rewrite assoc_app, Hnone2, assoc_app.
    destruct HITc as [[-> _]|(x & l & xs & l' & _ & -> & _)]; [reflexivity|]. cbn [assoc].
    assert (str_eqb s_token_map s_issued_token = false) as -> by reflexivity. reflexivity. }
  rewrite HL2. cbn [bind]. rewrite HI, HT.
  assert (Hsp1 : forall a ty, In (a, ty) t -> str_in a sp = false -> a <> s_issued_token /\ a <> s_token_map).
  { intros a ty _ Sa. split; intros ->; congruence. }
  destruct HITc as [[-> Hno]|(x & l & xs & l' & Hg & -> & Hld & Hag)]; cbn [assoc]; rewrite ?str_eqb_refl.
  - (* no tokens *)
    cbn [bind]. destruct HTMc as [[-> Hno2]|(y & d & Hg2 & ->)]; cbn [assoc]; rewrite ?str_eqb_refl.
    + eexists. split; [reflexivity|]. split; [reflexivity|]. split; [exact HA|]. split.
      * intros x l E. exfalso. eapply Hno; eauto.
      * intros x d E. exfalso. eapply Hno2; eauto.
    + eexists. split; [reflexivity|]. split; [reflexivity|]. split.
      * intros a ty Ha Sa. destruct (Hsp1 a ty Ha Sa) as [_ A2]. unfold getattr. rewrite assoc_aset_other by congruence.
        exact (HA a ty Ha Sa).
      * split; [intros x l E; exfalso; eapply Hno; eauto|].
        intros x0 d0 E. rewrite Hg2 in E. inversion E; subst. apply assoc_aset_same.
  - rewrite Hld. cbn [bind]. destruct HTMc as [[-> Hno2]|(y & d & Hg2 & ->)]; cbn [assoc]; rewrite ?str_eqb_refl.
    + eexists. split; [reflexivity|]. split; [reflexivity|]. split.
      * intros a ty Ha Sa. destruct (Hsp1 a ty Ha Sa) as [A1 _]. unfold getattr. rewrite assoc_aset_other by congruence.
        exact (HA a ty Ha Sa).
      * split.
        -- intros x0 l0 E. rewrite Hg in E. inversion E; subst. exists l'. split; [apply assoc_aset_same|exact Hag].
        -- intros x0 d E. exfalso. eapply Hno2; eauto.
    + eexists. split; [reflexivity|]. split; [reflexivity|]. split.
      * intros a ty Ha Sa. destruct (Hsp1 a ty Ha Sa) as [A1 A2]. unfold getattr.
        rewrite assoc_aset_other by congruence. rewrite assoc_aset_other by congruence. exact (HA a ty Ha Sa).
      * split.
        -- intros x0 l0 E. rewrite Hg in E. inversion E; subst. exists l'. split; [|exact Hag].
           rewrite assoc_aset_other by exact (not_eq_sym Hne). apply assoc_aset_same.
        -- intros x0 d0 E. rewrite Hg2 in E. inversion E; subst. apply assoc_aset_same.
Qed.

From Coq Require Import Arith Lia.
(* ------------------------------------------------------------------ sharing inside the exported state *)
Local Open Scope nat_scope.
Lemma assoc_kdel_same {V} k (d : list (pystr * V)) : assoc k (kdel k d) = None.
Proof.
  induction d as [|[k' v] r IH]; cbn; [reflexivity|].
  destruct (str_eqb k k') eqn:E; cbn; [exact IH|]. rewrite E. exact IH.
Qed.
Lemma assoc_kdel_other {V} k k' (d : list (pystr * V)) : k <> k' -> assoc k' (kdel k d) = assoc k' d.
Proof.
  intros Hne. induction d as [|[k2 v] r IH]; cbn; [reflexivity|].
  destruct (str_eqb k k2) eqn:E; cbn.
  - apply str_eqb_eq in E. subst k2.
    assert (str_eqb k' k = false) as -> by (apply str_eqb_neq; congruence). exact IH.
  - destruct (str_eqb k' k2); [reflexivity|exact IH].
Qed.

Lemma str_eqb_false_ne a b : str_eqb a b = false -> a <> b.
Proof. apply str_eqb_neq. Qed.

(* one step, seen through the keys of K only: a plain key -> contents map *)
Definition vstep (m : pystr -> option pyval) (o : sop) : (pystr -> option pyval) * option pyval :=
  match o with
  | SGet k => (m, m k)
  | SUpd k v => (fun k' => if str_eqb k' k then match m k with Some _ => Some v | None => None end else m k', None)
  | SFile _ _ => (m, None)
  | SNew k v => (fun k' => if str_eqb k' k then Some v else m k', None)
  | SDel k => (fun k' => if str_eqb k' k then None else m k', None)
  end.

Lemma vstep_ext K m1 m2 o :
  (forall k, K k = true -> m1 k = m2 k) -> op_canon K o = true ->
  snd (vstep m1 o) = snd (vstep m2 o) /\ (forall k, K k = true -> fst (vstep m1 o) k = fst (vstep m2 o) k).
Proof.
  intros H Ho. destruct o as [k v|k|k k2|k v|k]; cbn in *.
  - split; [reflexivity|]. intros k' Hk'. rewrite (H k Ho), (H k' Hk'). reflexivity.
  - split; [apply H; exact Ho|]. intros; now apply H.
  - split; [reflexivity|]. intros; now apply H.
  - split; [reflexivity|]. intros k' Hk'. now rewrite (H k' Hk').
  - split; [reflexivity|]. intros k' Hk'. now rewrite (H k' Hk').
Qed.

Lemma deref_cons_same s l v ks n :
  sd_deref {| sd_keys := ks; sd_heap := (l, v) :: sd_heap s; sd_next := n |} l = v.
Proof. unfold sd_deref. cbn. now rewrite Nat.eqb_refl. Qed.
Lemma deref_cons_other s l l' v ks n : l' <> l ->
  sd_deref {| sd_keys := ks; sd_heap := (l, v) :: sd_heap s; sd_next := n |} l' = sd_deref s l'.
Proof. intros H. unfold sd_deref. cbn. apply Nat.eqb_neq in H. now rewrite H. Qed.

Lemma step_abs K s o : sd_canon K s -> op_canon K o = true ->
  snd (sd_step s o) = snd (vstep (sd_view s) o)
  /\ (forall k, K k = true -> sd_view (fst (sd_step s o)) k = fst (vstep (sd_view s) o) k)
  /\ sd_canon K (fst (sd_step s o)).
Proof.
  intros [C1 C2] Ho. destruct o as [k v|k|k k2|k v|k]; cbn [op_canon] in Ho.
  - (* SUpd *)
    cbn [sd_step vstep]. unfold sd_view, sd_loc in *. destruct (assoc k (sd_keys s)) as [l|] eqn:L; cbn [fst snd sd_keys].
    + split; [reflexivity|]. split.
      * intros k' Hk'. destruct (str_eqb k' k) eqn:E.
        -- apply str_eqb_eq in E. subst k'. rewrite L. cbn [option_map]. now rewrite deref_cons_same.
        -- destruct (assoc k' (sd_keys s)) as [l'|] eqn:L'; cbn [option_map]; [|reflexivity].
           rewrite deref_cons_other; [reflexivity|]. intros ->.
           apply str_eqb_false_ne in E. apply E. eapply C1; eauto.
      * split; [exact C1|exact C2].
    + split; [reflexivity|]. split; [|split; assumption].
      intros k' Hk'. destruct (str_eqb k' k) eqn:E; [|reflexivity].
      apply str_eqb_eq in E. subst k'. rewrite L. reflexivity.
  - (* SGet *) cbn. split; [reflexivity|]. split; [reflexivity|]. split; assumption.
  - (* SFile *)
    apply andb_true_iff in Ho as [Hk Hk2]. apply negb_true_iff in Hk2.
    cbn [sd_step vstep]. destruct (sd_loc s k) as [l|] eqn:L; cbn [fst snd]; [|repeat split; auto].
    assert (forall k', K k' = true -> sd_loc {| sd_keys := aset k2 l (sd_keys s); sd_heap := sd_heap s; sd_next := sd_next s |} k' = sd_loc s k') as Hloc.
    { intros k' Hk'. unfold sd_loc. cbn [sd_keys]. apply assoc_aset_other. intros ->. congruence. }
    split; [reflexivity|]. split.
    + intros k' Hk'. unfold sd_view. rewrite (Hloc k' Hk'). reflexivity.
    + split.
      * intros k1 k3 l0 H1 H3. rewrite (Hloc k1 H1), (Hloc k3 H3). apply C1; assumption.
      * intros k0 l0. unfold sd_loc. cbn [sd_keys sd_next]. destruct (str_eqb k2 k0) eqn:E.
        -- apply str_eqb_eq in E. subst k0. rewrite assoc_aset_same. intros [= <-]. eapply C2; eauto.
        -- rewrite assoc_aset_other by (now apply str_eqb_false_ne). apply C2.
  - (* SNew *)
    cbn [sd_step vstep fst snd]. split; [reflexivity|].
    assert (forall k', k' <> k -> sd_loc {| sd_keys := aset k (sd_next s) (sd_keys s); sd_heap := (sd_next s, v) :: sd_heap s; sd_next := S (sd_next s) |} k' = sd_loc s k') as Hloc.
    { intros k' Hne. unfold sd_loc. cbn [sd_keys]. apply assoc_aset_other. congruence. }
    assert (sd_loc {| sd_keys := aset k (sd_next s) (sd_keys s); sd_heap := (sd_next s, v) :: sd_heap s; sd_next := S (sd_next s) |} k = Some (sd_next s)) as Hk.
    { unfold sd_loc. cbn [sd_keys]. apply assoc_aset_same. }
    split.
    + intros k' Hk'. destruct (str_eqb k' k) eqn:E.
      * apply str_eqb_eq in E. subst k'. unfold sd_view. rewrite Hk. cbn [option_map]. now rewrite deref_cons_same.
      * apply str_eqb_false_ne in E. unfold sd_view. rewrite (Hloc k' E).
        destruct (sd_loc s k') as [l'|] eqn:L'; cbn [option_map]; [|reflexivity].
        rewrite deref_cons_other; [reflexivity|]. apply C2 in L'. lia.
    + split.
      * intros k1 k3 l0 H1 H3 L1 L3.
        destruct (str_eqb k1 k) eqn:E1; destruct (str_eqb k3 k) eqn:E3.
        -- apply str_eqb_eq in E1, E3. congruence.
        -- apply str_eqb_eq in E1. subst k1. apply str_eqb_false_ne in E3. rewrite Hk in L1. injection L1 as <-.
           rewrite (Hloc k3 E3) in L3. apply C2 in L3. lia.
        -- apply str_eqb_eq in E3. subst k3. apply str_eqb_false_ne in E1. rewrite Hk in L3. injection L3 as <-.
           rewrite (Hloc k1 E1) in L1. apply C2 in L1. lia.
        -- apply str_eqb_false_ne in E1, E3. rewrite (Hloc k1 E1) in L1. rewrite (Hloc k3 E3) in L3. eapply C1; eauto.
      * intros k0 l0 L0. cbn [sd_next]. destruct (str_eqb k0 k) eqn:E.
        -- apply str_eqb_eq in E. subst k0. rewrite Hk in L0. injection L0 as <-. lia.
        -- apply str_eqb_false_ne in E. rewrite (Hloc k0 E) in L0. apply C2 in L0. lia.
  - (* SDel *)
    cbn [sd_step vstep fst snd]. split; [reflexivity|].
    assert (forall k', k' <> k -> sd_loc {| sd_keys := kdel k (sd_keys s); sd_heap := sd_heap s; sd_next := sd_next s |} k' = sd_loc s k') as Hloc.
    { intros k' Hne. unfold sd_loc. cbn [sd_keys]. apply assoc_kdel_other. congruence. }
    assert (sd_loc {| sd_keys := kdel k (sd_keys s); sd_heap := sd_heap s; sd_next := sd_next s |} k = None) as Hk.
    { unfold sd_loc. cbn [sd_keys]. apply assoc_kdel_same. }
    split.
    + intros k' Hk'. destruct (str_eqb k' k) eqn:E.
      * apply str_eqb_eq in E. subst k'. unfold sd_view. rewrite Hk. reflexivity.
      * apply str_eqb_false_ne in E. unfold sd_view. rewrite (Hloc k' E). reflexivity.
    + split.
      * intros k1 k3 l0 H1 H3 L1 L3.
        destruct (str_eqb k1 k) eqn:E1; [apply str_eqb_eq in E1; subst k1; rewrite Hk in L1; discriminate|].
        destruct (str_eqb k3 k) eqn:E3; [apply str_eqb_eq in E3; subst k3; rewrite Hk in L3; discriminate|].
        apply str_eqb_false_ne in E1, E3. rewrite (Hloc k1 E1) in L1. rewrite (Hloc k3 E3) in L3. eapply C1; eauto.
      * intros k0 l0 L0. cbn [sd_next]. destruct (str_eqb k0 k) eqn:E.
        -- apply str_eqb_eq in E. subst k0. rewrite Hk in L0. discriminate.
        -- apply str_eqb_false_ne in E. rewrite (Hloc k0 E) in L0. eapply C2; eauto.
Qed.

(* two databases that show the same contents under every key of K answer every sequence of operations on K alike *)
Lemma run_agree K ops : forall s t,
  sd_canon K s -> sd_canon K t -> (forall k, K k = true -> sd_view s k = sd_view t k) ->
  forallb (op_canon K) ops = true -> sd_run s ops = sd_run t ops.
Proof.
  induction ops as [|o r IH]; intros s t Cs Ct Hv Ho; [reflexivity|].
  cbn [forallb] in Ho. apply andb_true_iff in Ho as [Ho Hr].
  cbn [sd_run].
  destruct (step_abs K s o Cs Ho) as (Xs & Vs & Cs').
  destruct (step_abs K t o Ct Ho) as (Xt & Vt & Ct').
  destruct (vstep_ext K _ _ o Hv Ho) as [Ex Ev].
  destruct (sd_step s o) as [s' x]. destruct (sd_step t o) as [t' y]. cbn [fst snd] in *.
  f_equal; [congruence|].
  apply IH; auto. intros k Hk. rewrite (Vs k Hk), (Vt k Hk). now apply Ev.
Qed.

(* ---- dump / load ---- *)
Lemma assoc_dump s k : assoc k (sd_dump s) = sd_view s k.
Proof.
  unfold sd_dump, sd_view, sd_loc. induction (sd_keys s) as [|[k' l] r IH]; cbn; [reflexivity|].
  destruct (str_eqb k k'); [reflexivity|exact IH].
Qed.

Lemma load_loc_ge d : forall n k l, sd_loc (sd_load_from n d) k = Some l -> n <= l < sd_next (sd_load_from n d).
Proof.
  induction d as [|[k0 v] r IH]; intros n k l; unfold sd_loc; cbn; [discriminate|].
  assert (S n <= sd_next (sd_load_from (S n) r)) as Hn.
  { clear. revert n. induction r as [|[k v] r IH]; intros n; cbn; [lia|]. specialize (IH (S n)). lia. }
  destruct (str_eqb k k0).
  - intros [= <-]. lia.
  - intros H. apply (IH (S n)) in H. lia.
Qed.

Lemma load_view d : forall n k, sd_view (sd_load_from n d) k = assoc k d.
Proof.
  induction d as [|[k0 v] r IH]; intros n k; [reflexivity|].
  unfold sd_view, sd_loc. cbn [sd_load_from sd_keys assoc].
  destruct (str_eqb k k0) eqn:E.
  - cbn [option_map]. unfold sd_deref. cbn. now rewrite Nat.eqb_refl.
  - rewrite <- (IH (S n) k). unfold sd_view, sd_loc.
    destruct (assoc k (sd_keys (sd_load_from (S n) r))) as [l|] eqn:L; cbn [option_map]; [|reflexivity].
    f_equal. unfold sd_deref. cbn [sd_heap nassoc].
    apply (load_loc_ge r (S n) k l) in L. assert (Nat.eqb l n = false) as -> by (apply Nat.eqb_neq; lia). reflexivity.
Qed.

(* what load builds never files one object under two keys ... *)
Lemma load_separate d : forall n k1 k2 l,
  sd_loc (sd_load_from n d) k1 = Some l -> sd_loc (sd_load_from n d) k2 = Some l -> k1 = k2.
Proof.
  induction d as [|[k0 v] r IH]; intros n k1 k2 l; unfold sd_loc; cbn [sd_load_from sd_keys assoc]; [discriminate|].
  destruct (str_eqb k1 k0) eqn:E1; destruct (str_eqb k2 k0) eqn:E2.
  - apply str_eqb_eq in E1, E2. congruence.
  - intros [= <-] H. apply (load_loc_ge r (S n)) in H. lia.
  - intros H [= <-]. apply (load_loc_ge r (S n)) in H. lia.
  - apply (IH (S n)).
Qed.

Lemma load_canon K d : sd_canon K (sd_load d).
Proof.
  split.
  - intros k1 k2 l _ _. apply load_separate.
  - intros k l H. unfold sd_load in *. apply (load_loc_ge d 0) in H. lia.
Qed.

Lemma restore_views s k : sd_view (sd_load (sd_dump s)) k = sd_view s k.
Proof. unfold sd_load. rewrite load_view. apply assoc_dump. Qed.

(* ... so every sharing relation of the original is lost by export -> import *)
Lemma restore_loses_alias s k1 k2 : k1 <> k2 -> same_object (sd_load (sd_dump s)) k1 k2 = false.
Proof.
  intros Hne. unfold same_object.
  destruct (sd_loc (sd_load (sd_dump s)) k1) as [a|] eqn:L1; [|reflexivity].
  destruct (sd_loc (sd_load (sd_dump s)) k2) as [b|] eqn:L2; [|reflexivity].
  apply Nat.eqb_neq. intros ->. apply Hne. eapply load_separate; eauto.
Qed.

(* the restored database answers every later sequence of operations that goes through the keys of K as the original
   does - although the objects filed a second time are separate copies now *)
Lemma restore_equivalent_on_canonical_keys K s ops :
  sd_canon K s -> forallb (op_canon K) ops = true -> sd_run (sd_load (sd_dump s)) ops = sd_run s ops.
Proof.
  intros Cs Ho. apply (run_agree K); auto.
  - apply load_canon.
  - intros k _. apply restore_views.
Qed.

(* the condition is needed: a reader that goes through the second filing sees the copy taken at export time *)
Definition ex_tree : pystr := [100; 59; 59; 99; 59; 59; 103]%N.     (* "d;;c;;g" *)
Definition ex_sid : pystr := [90; 48; 70; 66]%N.                    (* "Z0FB": the encrypted session id *)
Definition ex_sdb : sdb := {| sd_keys := [(ex_tree, O); (ex_sid, O)]; sd_heap := [(O, VBool false)]; sd_next := 1 |}.
Lemma restore_not_equivalent_through_second_filing :
  same_object ex_sdb ex_tree ex_sid = true
  /\ sd_run ex_sdb [SUpd ex_tree (VBool true); SGet ex_sid] = [None; Some (VBool true)]
  /\ sd_run (sd_load (sd_dump ex_sdb)) [SUpd ex_tree (VBool true); SGet ex_sid] = [None; Some (VBool false)].
Proof. repeat split; vm_compute; reflexivity. Qed.

(* the same for the databases the operations lead to *)
Lemma exec_agree K ops : forall s t,
  sd_canon K s -> sd_canon K t -> (forall k, K k = true -> sd_view s k = sd_view t k) ->
  forallb (op_canon K) ops = true ->
  sd_canon K (sd_exec s ops) /\ sd_canon K (sd_exec t ops)
  /\ (forall k, K k = true -> sd_view (sd_exec s ops) k = sd_view (sd_exec t ops) k).
Proof.
  induction ops as [|o r IH]; intros s t Cs Ct Hv Ho; cbn [sd_exec]; [auto|].
  cbn [forallb] in Ho. apply andb_true_iff in Ho as [Ho Hr].
  destruct (step_abs K s o Cs Ho) as (_ & Vs & Cs'). destruct (step_abs K t o Ct Ho) as (_ & Vt & Ct').
  destruct (vstep_ext K _ _ o Hv Ho) as [_ Ev].
  apply IH; auto. intros k Hk'. rewrite (Vs k Hk'), (Vt k Hk'). now apply Ev.
Qed.

(* look-ups by session id: through the tree, the original and the restored database agree after any later history on K;
   a look-up that prefers the entry filed under the id does not (same witness) *)
Lemma lookup_tree_restored K s ops sidkey treekey :
  sd_canon K s -> forallb (op_canon K) ops = true -> K treekey = true ->
  sd_lookup true (sd_exec (sd_load (sd_dump s)) ops) sidkey treekey = sd_lookup true (sd_exec s ops) sidkey treekey.
Proof.
  intros Cs Ho Hk. cbn [sd_lookup].
  destruct (exec_agree K ops (sd_load (sd_dump s)) s) as (_ & _ & G); auto.
  - apply load_canon.
  - intros k _. apply restore_views.
Qed.

(* chains: export -> import -> operations -> export -> import -> operations *)
Lemma restore_chain_equivalent K s ops1 ops2 :
  sd_canon K s -> forallb (op_canon K) ops1 = true -> forallb (op_canon K) ops2 = true ->
  sd_run (sd_load (sd_dump (sd_exec (sd_load (sd_dump s)) ops1))) ops2 = sd_run (sd_exec s ops1) ops2.
Proof.
  intros Cs H1 H2.
  destruct (exec_agree K ops1 (sd_load (sd_dump s)) s) as (Ct & Cs1 & G); auto.
  - apply load_canon.
  - intros k _. apply restore_views.
  - apply (run_agree K); auto.
    + apply load_canon.
    + intros k Hk. rewrite restore_views. now apply G.
Qed.

Lemma lookup_by_second_filing_refuted :
  sd_lookup false (sd_exec ex_sdb [SUpd ex_tree (VBool true)]) ex_sid ex_tree = Some (VBool true)
  /\ sd_lookup false (sd_exec (sd_load (sd_dump ex_sdb)) [SUpd ex_tree (VBool true)]) ex_sid ex_tree = Some (VBool false).
Proof. split; vm_compute; reflexivity. Qed.
