(* Proofs/ImpExp_proofs.v — the ImpExp codec and the object-level dump/load round trip (C13). *)
From Verif Require Import Lib.Base Lib.PyStr Lib.ImpExpTy Model.ImpExp.

(* ------------------------------------------------------------------ induction over nested values *)
Section PyvalInd.
  Variable P : pyval -> Prop.
  Hypothesis HNone : P VNone.
  Hypothesis HBool : forall b, P (VBool b).
  Hypothesis HInt : forall z, P (VInt z).
  Hypothesis HStr : forall s, P (VStr s).
  Hypothesis HList : forall l, Forall P l -> P (VList l).
  Hypothesis HDict : forall d, Forall (fun p => P (snd p)) d -> P (VDict d).
  Hypothesis HObj : forall d, Forall (fun p => P (snd p)) d -> P (VObj d).
  Fixpoint pyval_rect' (v : pyval) : P v :=
    match v with
    | VNone => HNone | VBool b => HBool b | VInt z => HInt z | VStr s => HStr s
    | VList l => HList l ((fix go (l : list pyval) : Forall P l :=
                             match l with [] => Forall_nil _ | x :: r => Forall_cons _ (pyval_rect' x) (go r) end) l)
    | VDict d => HDict d ((fix go (d : list (pystr * pyval)) : Forall (fun p => P (snd p)) d :=
                             match d with [] => Forall_nil _ | (k, x) :: r => Forall_cons (k, x) (pyval_rect' x) (go r) end) d)
    | VObj d => HObj d ((fix go (d : list (pystr * pyval)) : Forall (fun p => P (snd p)) d :=
                             match d with [] => Forall_nil _ | (k, x) :: r => Forall_cons (k, x) (pyval_rect' x) (go r) end) d)
    end.
End PyvalInd.

(* ------------------------------------------------------------------ JSON values are carried unchanged *)
Lemma dump_json_id v : json_ok v = true -> dump_json v = Ok v.
Proof.
  induction v as [| | | |l IH|d IH|d IH] using pyval_rect'; intros G; try reflexivity; try discriminate.
  - cbn [dump_json]. cbn [json_ok] in G.
    assert ((fix go (l : list pyval) : res (list pyval) :=
               match l with [] => Ok [] | x :: r => y <- dump_json x ;; ys <- go r ;; Ok (y :: ys) end) l = Ok l) as ->; [|reflexivity].
    induction IH as [|x r Hx _ IHr]; [reflexivity|].
    apply andb_true_iff in G as [G1 G2]. rewrite (Hx G1). cbn [bind]. rewrite (IHr G2). reflexivity.
  - cbn [dump_json]. cbn [json_ok] in G.
    assert ((fix go (d : list (pystr * pyval)) : res (list (pystr * pyval)) :=
               match d with
               | [] => Ok []
               | (k, x) :: r =>
                   if str_eqb k s_upstream_get then go r
                   else if str_eqb k s_class then
                     match x with VStr _ => ys <- go r ;; Ok ((k, x) :: ys) | _ => Err AttributeError end
                   else y <- dump_json x ;; ys <- go r ;; Ok ((k, y) :: ys)
               end) d = Ok d) as ->; [|reflexivity].
    induction IH as [|[k x] r Hx _ IHr]; [reflexivity|].
    apply andb_true_iff in G as [G G4]. apply andb_true_iff in G as [G G3]. apply andb_true_iff in G as [G1 G2].
    apply negb_true_iff in G1. rewrite G1. cbn [snd] in Hx.
    destruct (str_eqb k s_class).
    + destruct x; try discriminate. rewrite (IHr G4). reflexivity.
    + rewrite (Hx G3). cbn [bind]. rewrite (IHr G4). reflexivity.
Qed.

Lemma load_json_id v : json_ok v = true -> load_json v = Ok v.
Proof.
  induction v as [| | | |l IH|d IH|d IH] using pyval_rect'; intros G; try reflexivity; try discriminate.
  - cbn [load_json json_ok] in *. unfold load_str. apply negb_true_iff in G. now rewrite G.
  - cbn [load_json]. cbn [json_ok] in G.
    assert ((fix go (l : list pyval) : res (list pyval) :=
               match l with [] => Ok [] | x :: r => y <- load_json x ;; ys <- go r ;; Ok (y :: ys) end) l = Ok l) as ->; [|reflexivity].
    induction IH as [|x r Hx _ IHr]; [reflexivity|].
    apply andb_true_iff in G as [G1 G2]. rewrite (Hx G1). cbn [bind]. rewrite (IHr G2). reflexivity.
  - cbn [load_json]. cbn [json_ok] in G.
    assert ((fix go (d : list (pystr * pyval)) : res (list (pystr * pyval)) :=
               match d with
               | [] => Ok []
               | (k, x) :: r => y <- load_json x ;; ys <- go r ;; Ok ((k, y) :: ys)
               end) d = Ok d) as ->; [|reflexivity].
    induction IH as [|[k x] r Hx _ IHr]; [reflexivity|].
    apply andb_true_iff in G as [G G4]. apply andb_true_iff in G as [G G3]. cbn [snd] in Hx.
    rewrite (Hx G3). cbn [bind]. rewrite (IHr G4). reflexivity.
Qed.

(* C13_codec at the value level: what type2cls-driven dump_attr writes, load_attr reads back *)
Theorem codec_json v : json_ok v = true ->
  exists x, dump_json v = Ok x /\ load_json x = Ok v.
Proof. intros G. exists v. split; [now apply dump_json_id|now apply load_json_id]. Qed.

(* the guard is necessary: a str that begins with "BYTES:" comes back as bytes *)
Lemma codec_json_unguarded_refuted :
  exists v, json_ok v = false /\ forall x, dump_json v = Ok x -> load_json x <> Ok v.
Proof.
  exists (VStr (s_bytes ++ [81; 85; 74; 68]%N)). split; [reflexivity|].
  intros x H. inversion H; subst. cbn. discriminate.
Qed.
(* ... and so is the "upstream_get" clause: that key is dropped from every exported dict *)
Lemma codec_json_upstream_get_refuted :
  exists v, json_ok v = false /\ forall x, dump_json v = Ok x -> load_json x <> Ok v.
Proof.
  exists (VDict [(s_upstream_get, VInt 1)]). split; [reflexivity|].
  intros x H. inversion H; subst. cbn. discriminate.
Qed.

(* ------------------------------------------------------------------ one attribute *)
Lemma is_msg_mk v n d : is_msg v = Some (n, d) -> v = mk_msg n d.
Proof.
  unfold is_msg, mk_msg. destruct v as [| | | | | |f]; try discriminate.
  destruct f as [|[a x] [|[b y] [|? ?]]]; try discriminate; destruct x; try discriminate; destruct y; try discriminate.
  destruct (str_eqb a s_msg) eqn:A; [|discriminate]. destruct (str_eqb b s_dict) eqn:B; [|discriminate].
  apply str_eqb_eq in A, B. subst. cbn. intros H. now inversion H.
Qed.

Theorem codec_attr ty v : attr_ok ty v = true ->
  exists x, dump_attr ty v = Ok x /\ load_attr ty x = Ok v.
Proof.
  destruct ty; cbn [attr_ok]; intros G; try discriminate.
  - exists v. auto.
  - exists v. auto.
  - destruct v; try discriminate. exists (VStr s). split; [reflexivity|]. cbn. unfold load_str.
    apply negb_true_iff in G. now rewrite G.
  - exists v. auto.
  - destruct v; try discriminate. exists (VDict d). split; [now apply dump_json_id|now apply load_json_id].
  - destruct v; try discriminate. exists (VList l). split; [now apply dump_json_id|now apply load_json_id].
  - destruct v as [| | | | |d|]; try discriminate. exists (VDict d). split; [reflexivity|].
    destruct d as [|[k x] [|? ?]]; try reflexivity. cbn. apply negb_true_iff in G. now rewrite G.
  - destruct (is_msg v) as [[n d]|] eqn:M; [|discriminate]. exists (VDict [(n, VDict d)]).
    cbn [dump_attr load_attr]. rewrite M. split; [reflexivity|]. now rewrite (is_msg_mk v n d M).
Qed.

Lemma attr_ok_not_none ty v : attr_ok ty v = true -> flat_ty ty = true.
Proof. destruct ty; cbn; auto; discriminate. Qed.

(* ------------------------------------------------------------------ one object *)
Lemma getattr_aset_same a v o : v <> VNone -> getattr a (aset a v o) = Some v.
Proof. intros H. unfold getattr. rewrite assoc_aset_same. destruct v; congruence. Qed.

Lemma has_key_assoc_none {V} a (t : list (pystr * V)) : has_key a t = false -> assoc a t = None.
Proof. unfold has_key. destruct (assoc a t); [discriminate|reflexivity]. Qed.

(* what dump_fields exports, attribute by attribute *)
Definition exported (t : list (pystr * ptype)) (sp : list pystr) (o : fields) (a : pystr) : option pyval :=
  match assoc a t with
  | Some ty => if str_in a sp then None
               else match getattr a o with
                    | Some v => match dump_attr ty v with Ok x => Some x | _ => None end
                    | None => None
                    end
  | None => None
  end.

Lemma dump_fields_assoc t sp o : forall D, nodup_keys t = true -> dump_fields t sp o = Ok D ->
  forall a, assoc a D = exported t sp o a.
Proof.
  induction t as [|[b ty] r IH]; intros D N H a; cbn [dump_fields] in H.
  - inversion H; subst. reflexivity.
  - cbn [nodup_keys] in N. apply andb_true_iff in N as [Nb Nr]. apply negb_true_iff in Nb.
    unfold exported. cbn [assoc]. destruct (str_eqb a b) eqn:E.
    + apply str_eqb_eq in E. subst b.
      destruct (str_in a sp) eqn:S.
      * rewrite (IH D Nr H a). unfold exported. now rewrite (has_key_assoc_none a r Nb).
      * destruct (getattr a o) as [v|] eqn:G.
        -- destruct (dump_attr ty v) as [x| |] eqn:Dx; try discriminate. cbn [bind] in H.
           destruct (dump_fields r sp o) as [xs| |]; try discriminate. cbn [bind] in H. inversion H; subst.
           cbn [assoc]. now rewrite str_eqb_refl.
        -- rewrite (IH D Nr H a). unfold exported. now rewrite (has_key_assoc_none a r Nb).
    + assert (forall D', dump_fields r sp o = Ok D' -> assoc a D' = exported r sp o a) as IH' by (intros; now apply IH).
      unfold exported in IH'.
      destruct (str_in b sp); [now apply IH'|].
      destruct (getattr b o) as [v|]; [|now apply IH'].
      destruct (dump_attr ty v) as [x| |]; try discriminate. cbn [bind] in H.
      destruct (dump_fields r sp o) as [xs| |] eqn:R; try discriminate. cbn [bind] in H. inversion H; subst.
      cbn [assoc]. rewrite E. now apply IH'.
Qed.

Lemma dump_fields_ok t sp o o0 : obj_ok t sp o o0 = true -> exists D, dump_fields t sp o = Ok D.
Proof.
  induction t as [|[a ty] r IH]; intros G; cbn [dump_fields]; [now exists []|].
  cbn [obj_ok] in G. apply andb_true_iff in G as [G1 G2]. destruct (IH G2) as [D HD].
  destruct (str_in a sp); [now exists D|].
  destruct (getattr a o) as [v|]; [|now exists D].
  destruct (codec_attr ty v G1) as (x & Hx & _). rewrite Hx, HD. cbn [bind]. now exists ((a, x) :: D).
Qed.

(* dump_fields looks at the table's attributes only *)
Lemma dump_fields_ext t sp o o' :
  (forall a ty, In (a, ty) t -> str_in a sp = false -> getattr a o' = getattr a o) ->
  dump_fields t sp o' = dump_fields t sp o.
Proof.
  induction t as [|[a ty] r IH]; intros H; cbn [dump_fields]; [reflexivity|].
  rewrite IH by (intros; eapply H; [right|]; eauto).
  destruct (str_in a sp) eqn:S; [reflexivity|]. rewrite (H a ty (or_introl eq_refl) S). reflexivity.
Qed.

Lemma in_keys_has_key {V} a (ty : V) t : In (a, ty) t -> has_key a t = true.
Proof.
  unfold has_key. induction t as [|[b u] r IH]; cbn; [tauto|]. intros [H|H].
  - inversion H; subst. now rewrite str_eqb_refl.
  - destruct (str_eqb a b); [reflexivity|auto].
Qed.

(* load(): the attributes of the table get back what the original had; everything else keeps the
   freshly constructed instance's value *)
Lemma load_fields_spec sp o o0 D (EX : pystr -> option pyval) :
  forall r acc,
  nodup_keys r = true ->
  obj_ok r sp o o0 = true ->
  (forall a ty, In (a, ty) r -> str_in a sp = false ->
     assoc a D = match getattr a o with
                 | Some v => match dump_attr ty v with Ok x => Some x | _ => None end
                 | None => None end) ->
  (forall a, has_key a r = true -> assoc a acc = assoc a o0) ->
  exists o', load_fields r sp acc D = Ok o' /\
             (forall b, has_key b r = false -> assoc b o' = assoc b acc) /\
             (forall a ty, In (a, ty) r -> str_in a sp = false -> getattr a o' = getattr a o).
Proof.
  induction r as [|[a ty] r IH]; intros acc N G HD HA; cbn [load_fields].
  - exists acc. split; [reflexivity|]. split; [auto|]. intros a ty [].
  - cbn [nodup_keys] in N. apply andb_true_iff in N as [Na Nr]. apply negb_true_iff in Na.
    cbn [obj_ok] in G. apply andb_true_iff in G as [G1 G2].
    assert (forall b, has_key b r = true -> str_eqb b a = false) as Hne.
    { intros b Hb. apply str_eqb_neq. intros ->. congruence. }
    assert (forall (V : Type) (m : list (pystr * V)) b (x : V), has_key b ((a, x) :: m) = if str_eqb b a then true else has_key b m) as HK.
    { intros V m b x. unfold has_key. cbn [assoc]. now destruct (str_eqb b a). }
    destruct (str_in a sp) eqn:S.
    + destruct (IH acc Nr G2) as (o' & L & Out & In').
      * intros b tb Hb. apply HD. now right.
      * intros b Hb. apply HA. rewrite HK. now destruct (str_eqb b a).
      * exists o'. split; [exact L|]. split.
        -- intros b Hb. apply Out. rewrite HK in Hb. now destruct (str_eqb b a).
        -- intros b tb [Hb|Hb] Sb; [inversion Hb; subst; congruence|eauto].
    + rewrite (HD a ty (or_introl eq_refl) S).
      destruct (getattr a o) as [v|] eqn:Ga.
      * destruct (codec_attr ty v G1) as (x & Hx & Hl). rewrite Hx, Hl. cbn [bind].
        assert (v <> VNone) as Hv.
        { unfold getattr in Ga. destruct (assoc a o) as [[]|]; congruence. }
        destruct (IH (aset a v acc) Nr G2) as (o' & L & Out & In').
        -- intros b tb Hb. apply HD. now right.
        -- intros b Hb. rewrite assoc_aset_other.
           ++ apply HA. rewrite HK. now destruct (str_eqb b a).
           ++ intros ->. congruence.
        -- exists o'. split; [exact L|]. split.
           ++ intros b Hb. rewrite HK in Hb. destruct (str_eqb b a) eqn:E; [discriminate|].
              rewrite (Out b Hb). apply assoc_aset_other. intros ->. rewrite str_eqb_refl in E. discriminate.
           ++ intros b tb [Hb|Hb] Sb; [|eauto]. inversion Hb; subst.
              unfold getattr at 1. rewrite (Out b Na), assoc_aset_same.
              destruct v; congruence.
      * destruct (IH acc Nr G2) as (o' & L & Out & In').
        -- intros b tb Hb. apply HD. now right.
        -- intros b Hb. apply HA. rewrite HK. now destruct (str_eqb b a).
        -- exists o'. split; [exact L|]. split.
           ++ intros b Hb. apply Out. rewrite HK in Hb. now destruct (str_eqb b a).
           ++ intros b tb [Hb|Hb] Sb; [|eauto]. inversion Hb; subst.
              rewrite Ga. unfold getattr at 1. rewrite (Out b Na), (HA b).
              ** clear -G1. unfold getattr in *. destruct (assoc b o0) as [[]|]; try discriminate; reflexivity.
              ** rewrite HK. now rewrite str_eqb_refl.
Qed.

(* C13 at the object level: restore of an export gives back every exported attribute, and exporting
   the restored instance gives the same export (dump o load o dump = dump).  o0 is the instance the
   class constructor produces before load() fills it. *)
Theorem obj_roundtrip t sp o o0 :
  nodup_keys t = true -> obj_ok t sp o o0 = true ->
  exists D o', dump_fields t sp o = Ok D /\ load_fields t sp o0 D = Ok o' /\
               (forall a ty, In (a, ty) t -> str_in a sp = false -> getattr a o' = getattr a o) /\
               dump_fields t sp o' = Ok D.
Proof.
  intros N G. destruct (dump_fields_ok t sp o o0 G) as [D HD]. exists D.
  destruct (load_fields_spec sp o o0 D (fun _ => None) t o0 N G) as (o' & L & _ & R).
  - intros a ty Ha S. rewrite (dump_fields_assoc t sp o D N HD a). unfold exported.
    assert (assoc a t = Some ty) as ->; [|now rewrite S].
    clear -N Ha. induction t as [|[b u] r IH]; [destruct Ha|]. cbn [nodup_keys] in N.
    apply andb_true_iff in N as [Nb Nr]. apply negb_true_iff in Nb. cbn [assoc]. destruct Ha as [Ha|Ha].
    + inversion Ha; subst. now rewrite str_eqb_refl.
    + destruct (str_eqb a b) eqn:E; [|auto]. apply str_eqb_eq in E. subst.
      rewrite (in_keys_has_key _ _ _ Ha) in Nb. discriminate.
  - auto.
  - exists o'. split; [exact HD|]. split; [exact L|]. split; [exact R|].
    rewrite <- HD. now apply dump_fields_ext.
Qed.

(* ------------------------------------------------------------------ grants with their issued tokens *)
Lemma load_fields_ext sp D D' : forall t o0,
  (forall a ty, In (a, ty) t -> str_in a sp = false -> assoc a D = assoc a D') ->
  load_fields t sp o0 D = load_fields t sp o0 D'.
Proof.
  induction t as [|[a ty] r IH]; intros o0 H; cbn [load_fields]; [reflexivity|].
  destruct (str_in a sp) eqn:S; [apply IH; intros; eapply H; [right|]; eauto|].
  rewrite <- (H a ty (or_introl eq_refl) S).
  destruct (assoc a D); [|apply IH; intros; eapply H; [right|]; eauto].
  destruct (load_attr ty p); cbn [bind]; [|reflexivity|reflexivity]. apply IH. intros; eapply H; [right|]; eauto.
Qed.

Lemma assoc_app {V} a (x y : list (pystr * V)) :
  assoc a (x ++ y) = match assoc a x with Some v => Some v | None => assoc a y end.
Proof. induction x as [|[b v] r IH]; cbn; [reflexivity|]. destruct (str_eqb a b); [reflexivity|exact IH]. Qed.

Lemma dump_fields_keys t sp o D a : dump_fields t sp o = Ok D -> str_in a sp = true -> assoc a D = None.
Proof.
  revert D. induction t as [|[b ty] r IH]; intros D H S; cbn [dump_fields] in H.
  - inversion H. reflexivity.
  - destruct (str_in b sp) eqn:Sb; [eauto|].
    destruct (getattr b o); [|eauto].
    destruct (dump_attr ty p); try discriminate. cbn [bind] in H.
    destruct (dump_fields r sp o) as [xs| |]; try discriminate. cbn [bind] in H. inversion H; subst.
    cbn [assoc]. destruct (str_eqb a b) eqn:E; [|eauto]. apply str_eqb_eq in E. subst. congruence.
Qed.

Definition tok_agree (tabs : list (pystr * impexp_class)) (t t' : pyval) : Prop :=
  exists f f' c, t = VObj f /\ t' = VObj f' /\ obj_class f = Some c /\
                 agree_on (class_table tabs c) (specials_of tabs c) f f'.

Lemma tok_roundtrip tabs fresh t : tok_ok tabs fresh t = true ->
  exists x t', tok_dump tabs t = Ok x /\ tok_load tabs fresh x = Ok t' /\ tok_agree tabs t t'.
Proof.
  unfold tok_ok, tok_dump. destruct t as [| | | | | |f]; try discriminate.
  destruct (obj_class f) as [c|] eqn:C; [|discriminate]. intros G. apply andb_true_iff in G as [N G].
  destruct (obj_roundtrip _ _ _ _ N G) as (D & o' & HD & HL & HA & _).
  rewrite HD. cbn [bind]. exists (VDict [(c, VDict D)]), (VObj o'). split; [reflexivity|].
  cbn [tok_load]. rewrite HL. cbn [bind]. split; [reflexivity|].
  exists f, o', c. auto.
Qed.

Lemma toks_roundtrip tabs fresh l : forallb (tok_ok tabs fresh) l = true ->
  exists xs l', map_res (tok_dump tabs) l = Ok xs /\ map_res (tok_load tabs fresh) xs = Ok l' /\
                Forall2 (tok_agree tabs) l l'.
Proof.
  induction l as [|t l IH]; cbn [forallb map_res]; intros G.
  - exists [], []. cbn. auto.
  - apply andb_true_iff in G as [G1 G2]. destruct (tok_roundtrip tabs fresh t G1) as (x & t' & A & B & C).
    destruct (IH G2) as (xs & l' & A2 & B2 & C2). rewrite A, A2. cbn [bind].
    exists (x :: xs), (t' :: l'). cbn [map_res]. rewrite B, B2. cbn [bind]. auto.
Qed.

(* a grant and the tokens it issued: dump, load into a fresh grant, and everything exported is back —
   the grant's own attributes, each issued token's attributes (in order), and the token map *)
Theorem grant_roundtrip tabs fresh g c :
  obj_class g = Some c -> grant_ok tabs fresh g = true ->
  str_in s_issued_token (specials_of tabs c) = true -> str_in s_token_map (specials_of tabs c) = true ->
  exists D g', grant_dump tabs g = Ok D /\ grant_load tabs fresh c D = Ok g' /\
    agree_on (class_table tabs c) (specials_of tabs c) g g' /\
    (forall x l, getattr s_issued_token g = Some (VList (x :: l)) ->
       exists l', assoc s_issued_token g' = Some (VList l') /\ Forall2 (tok_agree tabs) (x :: l) l') /\
    (forall x d, getattr s_token_map g = Some (VDict (x :: d)) -> assoc s_token_map g' = Some (VDict (x :: d))).
Proof.
  intros C G S1 S2. unfold grant_ok in G. rewrite C in G.
  apply andb_true_iff in G as [G G4]. apply andb_true_iff in G as [G G3]. apply andb_true_iff in G as [N G].
  destruct (obj_roundtrip _ _ _ _ N G) as (B & o' & HB & HL & HA & _).
  unfold grant_dump, grant_load. rewrite C, HB. cbn [bind].
  set (t := class_table tabs c) in *. set (sp := specials_of tabs c) in *.
  assert (Hnone1 : assoc s_issued_token B = None) by (eapply dump_fields_keys; eauto).
  assert (Hnone2 : assoc s_token_map B = None) by (eapply dump_fields_keys; eauto).
  assert (Hne : s_issued_token <> s_token_map) by discriminate.
  (* the issued tokens *)
  assert (exists IT, (match getattr s_issued_token g with
            | Some (VList (x :: l)) => toks <- map_res (tok_dump tabs) (x :: l) ;; Ok [(s_issued_token, VList toks)]
            | Some (VList []) | None => Ok []
            | Some _ => Unmodelled end) = Ok IT /\
            ((IT = [] /\ (forall x l, getattr s_issued_token g <> Some (VList (x :: l)))) \/
             (exists x l xs l', getattr s_issued_token g = Some (VList (x :: l)) /\ IT = [(s_issued_token, VList xs)] /\
                                map_res (tok_load tabs fresh) xs = Ok l' /\ Forall2 (tok_agree tabs) (x :: l) l'))) as (IT & HIT & HITc).
  { destruct (getattr s_issued_token g) as [v|] eqn:E.
    - destruct v as [| | | |l| |]; try discriminate. destruct l as [|x l].
      + exists []. split; [reflexivity|]. left. split; [reflexivity|]. intros; discriminate.
      + destruct (toks_roundtrip tabs fresh (x :: l) G3) as (xs & l' & A & Bq & Cq). rewrite A. cbn [bind].
        exists [(s_issued_token, VList xs)]. split; [reflexivity|]. right. exists x, l, xs, l'. auto.
    - exists []. split; [reflexivity|]. left. split; [reflexivity|]. intros; discriminate. }
  rewrite HIT. cbn [bind].
  assert (exists TM, (match getattr s_token_map g with
            | Some (VDict (x :: d)) => Ok [(s_token_map, VDict (x :: d))]
            | Some (VDict []) | None => Ok []
            | Some _ => Unmodelled end) = Ok TM /\
            ((TM = [] /\ (forall x d, getattr s_token_map g <> Some (VDict (x :: d)))) \/
             (exists x d, getattr s_token_map g = Some (VDict (x :: d)) /\ TM = [(s_token_map, VDict (x :: d))]))) as (TM & HTM & HTMc).
  { destruct (getattr s_token_map g) as [v|] eqn:E.
    - destruct v as [| | | | |d|]; try discriminate. destruct d as [|x d].
      + exists []. split; [reflexivity|]. left. split; [reflexivity|]. intros; discriminate.
      + exists [(s_token_map, VDict (x :: d))]. split; [reflexivity|]. right. exists x, d. auto.
    - exists []. split; [reflexivity|]. left. split; [reflexivity|]. intros; discriminate. }
  rewrite HTM. cbn [bind]. eexists. 
  (* load: the parameter loop sees the base export only *)
  assert (load_fields t sp (fresh c) (B ++ IT ++ TM) = Ok o') as HL2.
  { rewrite <- HL. apply load_fields_ext. intros a ty Ha Sa. rewrite assoc_app.
    destruct (assoc a B); [reflexivity|]. rewrite assoc_app.
    assert (a <> s_issued_token) as A1 by (intros ->; congruence).
    assert (a <> s_token_map) as A2 by (intros ->; congruence).
    apply str_eqb_neq in A1, A2.
    destruct HITc as [[-> _]|(x & l & xs & l' & _ & -> & _)]; destruct HTMc as [[-> _]|(y & d & _ & ->)]; cbn [assoc]; rewrite ?A1, ?A2; reflexivity. }
  assert (HI : assoc s_issued_token (B ++ IT ++ TM) = assoc s_issued_token IT).
  { rewrite assoc_app, Hnone1, assoc_app. destruct (assoc s_issued_token IT) eqn:E; [reflexivity|].
    destruct HTMc as [[-> _]|(y & d & _ & ->)]; [reflexivity|]. cbn [assoc].
    assert (str_eqb s_issued_token s_token_map = false) as -> by reflexivity. reflexivity. }
  assert (HT : assoc s_token_map (B ++ IT ++ TM) = assoc s_token_map TM).
  { rewrite assoc_app, Hnone2, assoc_app.
    destruct HITc as [[-> _]|(x & l & xs & l' & _ & -> & _)]; [reflexivity|]. cbn [assoc].
    assert (str_eqb s_token_map s_issued_token = false) as -> by reflexivity. reflexivity. }
  rewrite HL2. cbn [bind]. rewrite HI, HT.
  assert (Hsp1 : forall a ty, In (a, ty) t -> str_in a sp = false -> a <> s_issued_token /\ a <> s_token_map).
  { intros a ty _ Sa. split; intros ->; congruence. }
  destruct HITc as [[-> Hno]|(x & l & xs & l' & Hg & -> & Hld & Hag)]; cbn [assoc]; rewrite ?str_eqb_refl.
  - (* no tokens *)
    cbn [bind]. destruct HTMc as [[-> Hno2]|(y & d & Hg2 & ->)]; cbn [assoc]; rewrite ?str_eqb_refl.
    + eexists. split; [reflexivity|]. split; [reflexivity|]. split; [exact HA|]. split.
      * intros x l E. exfalso. eapply Hno; eauto.
      * intros x d E. exfalso. eapply Hno2; eauto.
    + eexists. split; [reflexivity|]. split; [reflexivity|]. split.
      * intros a ty Ha Sa. destruct (Hsp1 a ty Ha Sa) as [_ A2]. unfold getattr. rewrite assoc_aset_other by congruence.
        exact (HA a ty Ha Sa).
      * split; [intros x l E; exfalso; eapply Hno; eauto|].
        intros x0 d0 E. rewrite Hg2 in E. inversion E; subst. apply assoc_aset_same.
  - rewrite Hld. cbn [bind]. destruct HTMc as [[-> Hno2]|(y & d & Hg2 & ->)]; cbn [assoc]; rewrite ?str_eqb_refl.
    + eexists. split; [reflexivity|]. split; [reflexivity|]. split.
      * intros a ty Ha Sa. destruct (Hsp1 a ty Ha Sa) as [A1 _]. unfold getattr. rewrite assoc_aset_other by congruence.
        exact (HA a ty Ha Sa).
      * split.
        -- intros x0 l0 E. rewrite Hg in E. inversion E; subst. exists l'. split; [apply assoc_aset_same|exact Hag].
        -- intros x0 d E. exfalso. eapply Hno2; eauto.
    + eexists. split; [reflexivity|]. split; [reflexivity|]. split.
      * intros a ty Ha Sa. destruct (Hsp1 a ty Ha Sa) as [A1 A2]. unfold getattr.
        rewrite assoc_aset_other by congruence. rewrite assoc_aset_other by congruence. exact (HA a ty Ha Sa).
      * split.
        -- intros x0 l0 E. rewrite Hg in E. inversion E; subst. exists l'. split; [|exact Hag].
           rewrite assoc_aset_other by exact (not_eq_sym Hne). apply assoc_aset_same.
        -- intros x0 d0 E. rewrite Hg2 in E. inversion E; subst. apply assoc_aset_same.
Qed.

From Coq Require Import Arith Lia.
(* ------------------------------------------------------------------ sharing inside the exported state *)
Local Open Scope nat_scope.
Lemma assoc_kdel_same {V} k (d : list (pystr * V)) : assoc k (kdel k d) = None.
Proof.
  induction d as [|[k' v] r IH]; cbn; [reflexivity|].
  destruct (str_eqb k k') eqn:E; cbn; [exact IH|]. rewrite E. exact IH.
Qed.
Lemma assoc_kdel_other {V} k k' (d : list (pystr * V)) : k <> k' -> assoc k' (kdel k d) = assoc k' d.
Proof.
  intros Hne. induction d as [|[k2 v] r IH]; cbn; [reflexivity|].
  destruct (str_eqb k k2) eqn:E; cbn.
  - apply str_eqb_eq in E. subst k2.
    assert (str_eqb k' k = false) as -> by (apply str_eqb_neq; congruence). exact IH.
  - destruct (str_eqb k' k2); [reflexivity|exact IH].
Qed.

Lemma str_eqb_false_ne a b : str_eqb a b = false -> a <> b.
Proof. apply str_eqb_neq. Qed.

(* one step, seen through the keys of K only: a plain key -> contents map *)
Definition vstep (m : pystr -> option pyval) (o : sop) : (pystr -> option pyval) * option pyval :=
  match o with
  | SGet k => (m, m k)
  | SUpd k v => (fun k' => if str_eqb k' k then match m k with Some _ => Some v | None => None end else m k', None)
  | SFile _ _ => (m, None)
  | SNew k v => (fun k' => if str_eqb k' k then Some v else m k', None)
  | SDel k => (fun k' => if str_eqb k' k then None else m k', None)
  end.

Lemma vstep_ext K m1 m2 o :
  (forall k, K k = true -> m1 k = m2 k) -> op_canon K o = true ->
  snd (vstep m1 o) = snd (vstep m2 o) /\ (forall k, K k = true -> fst (vstep m1 o) k = fst (vstep m2 o) k).
Proof.
  intros H Ho. destruct o as [k v|k|k k2|k v|k]; cbn in *.
  - split; [reflexivity|]. intros k' Hk'. rewrite (H k Ho), (H k' Hk'). reflexivity.
  - split; [apply H; exact Ho|]. intros; now apply H.
  - split; [reflexivity|]. intros; now apply H.
  - split; [reflexivity|]. intros k' Hk'. now rewrite (H k' Hk').
  - split; [reflexivity|]. intros k' Hk'. now rewrite (H k' Hk').
Qed.

Lemma deref_cons_same s l v ks n :
  sd_deref {| sd_keys := ks; sd_heap := (l, v) :: sd_heap s; sd_next := n |} l = v.
Proof. unfold sd_deref. cbn. now rewrite Nat.eqb_refl. Qed.
Lemma deref_cons_other s l l' v ks n : l' <> l ->
  sd_deref {| sd_keys := ks; sd_heap := (l, v) :: sd_heap s; sd_next := n |} l' = sd_deref s l'.
Proof. intros H. unfold sd_deref. cbn. apply Nat.eqb_neq in H. now rewrite H. Qed.

Lemma step_abs K s o : sd_canon K s -> op_canon K o = true ->
  snd (sd_step s o) = snd (vstep (sd_view s) o)
  /\ (forall k, K k = true -> sd_view (fst (sd_step s o)) k = fst (vstep (sd_view s) o) k)
  /\ sd_canon K (fst (sd_step s o)).
Proof.
  intros [C1 C2] Ho. destruct o as [k v|k|k k2|k v|k]; cbn [op_canon] in Ho.
  - (* SUpd *)
    cbn [sd_step vstep]. unfold sd_view, sd_loc in *. destruct (assoc k (sd_keys s)) as [l|] eqn:L; cbn [fst snd sd_keys].
    + split; [reflexivity|]. split.
      * intros k' Hk'. destruct (str_eqb k' k) eqn:E.
        -- apply str_eqb_eq in E. subst k'. rewrite L. cbn [option_map]. now rewrite deref_cons_same.
        -- destruct (assoc k' (sd_keys s)) as [l'|] eqn:L'; cbn [option_map]; [|reflexivity].
           rewrite deref_cons_other; [reflexivity|]. intros ->.
           apply str_eqb_false_ne in E. apply E. eapply C1; eauto.
      * split; [exact C1|exact C2].
    + split; [reflexivity|]. split; [|split; assumption].
      intros k' Hk'. destruct (str_eqb k' k) eqn:E; [|reflexivity].
      apply str_eqb_eq in E. subst k'. rewrite L. reflexivity.
  - (* SGet *) cbn. split; [reflexivity|]. split; [reflexivity|]. split; assumption.
  - (* SFile *)
    apply andb_true_iff in Ho as [Hk Hk2]. apply negb_true_iff in Hk2.
    cbn [sd_step vstep]. destruct (sd_loc s k) as [l|] eqn:L; cbn [fst snd]; [|repeat split; auto].
    assert (forall k', K k' = true -> sd_loc {| sd_keys := aset k2 l (sd_keys s); sd_heap := sd_heap s; sd_next := sd_next s |} k' = sd_loc s k') as Hloc.
    { intros k' Hk'. unfold sd_loc. cbn [sd_keys]. apply assoc_aset_other. intros ->. congruence. }
    split; [reflexivity|]. split.
    + intros k' Hk'. unfold sd_view. rewrite (Hloc k' Hk'). reflexivity.
    + split.
      * intros k1 k3 l0 H1 H3. rewrite (Hloc k1 H1), (Hloc k3 H3). apply C1; assumption.
      * intros k0 l0. unfold sd_loc. cbn [sd_keys sd_next]. destruct (str_eqb k2 k0) eqn:E.
        -- apply str_eqb_eq in E. subst k0. rewrite assoc_aset_same. intros [= <-]. eapply C2; eauto.
        -- rewrite assoc_aset_other by (now apply str_eqb_false_ne). apply C2.
  - (* SNew *)
    cbn [sd_step vstep fst snd]. split; [reflexivity|].
    assert (forall k', k' <> k -> sd_loc {| sd_keys := aset k (sd_next s) (sd_keys s); sd_heap := (sd_next s, v) :: sd_heap s; sd_next := S (sd_next s) |} k' = sd_loc s k') as Hloc.
    { intros k' Hne. unfold sd_loc. cbn [sd_keys]. apply assoc_aset_other. congruence. }
    assert (sd_loc {| sd_keys := aset k (sd_next s) (sd_keys s); sd_heap := (sd_next s, v) :: sd_heap s; sd_next := S (sd_next s) |} k = Some (sd_next s)) as Hk.
    { unfold sd_loc. cbn [sd_keys]. apply assoc_aset_same. }
    split.
    + intros k' Hk'. destruct (str_eqb k' k) eqn:E.
      * apply str_eqb_eq in E. subst k'. unfold sd_view. rewrite Hk. cbn [option_map]. now rewrite deref_cons_same.
      * apply str_eqb_false_ne in E. unfold sd_view. rewrite (Hloc k' E).
        destruct (sd_loc s k') as [l'|] eqn:L'; cbn [option_map]; [|reflexivity].
        rewrite deref_cons_other; [reflexivity|]. apply C2 in L'. lia.
    + split.
      * intros k1 k3 l0 H1 H3 L1 L3.
        destruct (str_eqb k1 k) eqn:E1; destruct (str_eqb k3 k) eqn:E3.
        -- apply str_eqb_eq in E1, E3. congruence.
        -- apply str_eqb_eq in E1. subst k1. apply str_eqb_false_ne in E3. rewrite Hk in L1. injection L1 as <-.
           rewrite (Hloc k3 E3) in L3. apply C2 in L3. lia.
        -- apply str_eqb_eq in E3. subst k3. apply str_eqb_false_ne in E1. rewrite Hk in L3. injection L3 as <-.
           rewrite (Hloc k1 E1) in L1. apply C2 in L1. lia.
        -- apply str_eqb_false_ne in E1, E3. rewrite (Hloc k1 E1) in L1. rewrite (Hloc k3 E3) in L3. eapply C1; eauto.
      * intros k0 l0 L0. cbn [sd_next]. destruct (str_eqb k0 k) eqn:E.
        -- apply str_eqb_eq in E. subst k0. rewrite Hk in L0. injection L0 as <-. lia.
        -- apply str_eqb_false_ne in E. rewrite (Hloc k0 E) in L0. apply C2 in L0. lia.
  - (* SDel *)
    cbn [sd_step vstep fst snd]. split; [reflexivity|].
    assert (forall k', k' <> k -> sd_loc {| sd_keys := kdel k (sd_keys s); sd_heap := sd_heap s; sd_next := sd_next s |} k' = sd_loc s k') as Hloc.
    { intros k' Hne. unfold sd_loc. cbn [sd_keys]. apply assoc_kdel_other. congruence. }
    assert (sd_loc {| sd_keys := kdel k (sd_keys s); sd_heap := sd_heap s; sd_next := sd_next s |} k = None) as Hk.
    { unfold sd_loc. cbn [sd_keys]. apply assoc_kdel_same. }
    split.
    + intros k' Hk'. destruct (str_eqb k' k) eqn:E.
      * apply str_eqb_eq in E. subst k'. unfold sd_view. rewrite Hk. reflexivity.
      * apply str_eqb_false_ne in E. unfold sd_view. rewrite (Hloc k' E). reflexivity.
    + split.
      * intros k1 k3 l0 H1 H3 L1 L3.
        destruct (str_eqb k1 k) eqn:E1; [apply str_eqb_eq in E1; subst k1; rewrite Hk in L1; discriminate|].
        destruct (str_eqb k3 k) eqn:E3; [apply str_eqb_eq in E3; subst k3; rewrite Hk in L3; discriminate|].
        apply str_eqb_false_ne in E1, E3. rewrite (Hloc k1 E1) in L1. rewrite (Hloc k3 E3) in L3. eapply C1; eauto.
      * intros k0 l0 L0. cbn [sd_next]. destruct (str_eqb k0 k) eqn:E.
        -- apply str_eqb_eq in E. subst k0. rewrite Hk in L0. discriminate.
        -- apply str_eqb_false_ne in E. rewrite (Hloc k0 E) in L0. eapply C2; eauto.
Qed.

(* two databases that show the same contents under every key of K answer every sequence of operations on K alike *)
Lemma run_agree K ops : forall s t,
  sd_canon K s -> sd_canon K t -> (forall k, K k = true -> sd_view s k = sd_view t k) ->
  forallb (op_canon K) ops = true -> sd_run s ops = sd_run t ops.
Proof.
  induction ops as [|o r IH]; intros s t Cs Ct Hv Ho; [reflexivity|].
  cbn [forallb] in Ho. apply andb_true_iff in Ho as [Ho Hr].
  cbn [sd_run].
  destruct (step_abs K s o Cs Ho) as (Xs & Vs & Cs').
  destruct (step_abs K t o Ct Ho) as (Xt & Vt & Ct').
  destruct (vstep_ext K _ _ o Hv Ho) as [Ex Ev].
  destruct (sd_step s o) as [s' x]. destruct (sd_step t o) as [t' y]. cbn [fst snd] in *.
  f_equal; [congruence|].
  apply IH; auto. intros k Hk. rewrite (Vs k Hk), (Vt k Hk). now apply Ev.
Qed.

(* ---- dump / load ---- *)
Lemma assoc_dump s k : assoc k (sd_dump s) = sd_view s k.
Proof.
  unfold sd_dump, sd_view, sd_loc. induction (sd_keys s) as [|[k' l] r IH]; cbn; [reflexivity|].
  destruct (str_eqb k k'); [reflexivity|exact IH].
Qed.

Lemma load_loc_ge d : forall n k l, sd_loc (sd_load_from n d) k = Some l -> n <= l < sd_next (sd_load_from n d).
Proof.
  induction d as [|[k0 v] r IH]; intros n k l; unfold sd_loc; cbn; [discriminate|].
  assert (S n <= sd_next (sd_load_from (S n) r)) as Hn.
  { clear. revert n. induction r as [|[k v] r IH]; intros n; cbn; [lia|]. specialize (IH (S n)). lia. }
  destruct (str_eqb k k0).
  - intros [= <-]. lia.
  - intros H. apply (IH (S n)) in H. lia.
Qed.

Lemma load_view d : forall n k, sd_view (sd_load_from n d) k = assoc k d.
Proof.
  induction d as [|[k0 v] r IH]; intros n k; [reflexivity|].
  unfold sd_view, sd_loc. cbn [sd_load_from sd_keys assoc].
  destruct (str_eqb k k0) eqn:E.
  - cbn [option_map]. unfold sd_deref. cbn. now rewrite Nat.eqb_refl.
  - rewrite <- (IH (S n) k). unfold sd_view, sd_loc.
    destruct (assoc k (sd_keys (sd_load_from (S n) r))) as [l|] eqn:L; cbn [option_map]; [|reflexivity].
    f_equal. unfold sd_deref. cbn [sd_heap nassoc].
    apply (load_loc_ge r (S n) k l) in L. assert (Nat.eqb l n = false) as -> by (apply Nat.eqb_neq; lia). reflexivity.
Qed.

(* what load builds never files one object under two keys ... *)
Lemma load_separate d : forall n k1 k2 l,
  sd_loc (sd_load_from n d) k1 = Some l -> sd_loc (sd_load_from n d) k2 = Some l -> k1 = k2.
Proof.
  induction d as [|[k0 v] r IH]; intros n k1 k2 l; unfold sd_loc; cbn [sd_load_from sd_keys assoc]; [discriminate|].
  destruct (str_eqb k1 k0) eqn:E1; destruct (str_eqb k2 k0) eqn:E2.
  - apply str_eqb_eq in E1, E2. congruence.
  - intros [= <-] H. apply (load_loc_ge r (S n)) in H. lia.
  - intros H [= <-]. apply (load_loc_ge r (S n)) in H. lia.
  - apply (IH (S n)).
Qed.

Lemma load_canon K d : sd_canon K (sd_load d).
Proof.
  split.
  - intros k1 k2 l _ _. apply load_separate.
  - intros k l H. unfold sd_load in *. apply (load_loc_ge d 0) in H. lia.
Qed.

Lemma restore_views s k : sd_view (sd_load (sd_dump s)) k = sd_view s k.
Proof. unfold sd_load. rewrite load_view. apply assoc_dump. Qed.

(* ... so every sharing relation of the original is lost by export -> import *)
Lemma restore_loses_alias s k1 k2 : k1 <> k2 -> same_object (sd_load (sd_dump s)) k1 k2 = false.
Proof.
  intros Hne. unfold same_object.
  destruct (sd_loc (sd_load (sd_dump s)) k1) as [a|] eqn:L1; [|reflexivity].
  destruct (sd_loc (sd_load (sd_dump s)) k2) as [b|] eqn:L2; [|reflexivity].
  apply Nat.eqb_neq. intros ->. apply Hne. eapply load_separate; eauto.
Qed.

(* the restored database answers every later sequence of operations that goes through the keys of K as the original
   does - although the objects filed a second time are separate copies now *)
Lemma restore_equivalent_on_canonical_keys K s ops :
  sd_canon K s -> forallb (op_canon K) ops = true -> sd_run (sd_load (sd_dump s)) ops = sd_run s ops.
Proof.
  intros Cs Ho. apply (run_agree K); auto.
  - apply load_canon.
  - intros k _. apply restore_views.
Qed.

(* the condition is needed: a reader that goes through the second filing sees the copy taken at export time *)
Definition ex_tree : pystr := [100; 59; 59; 99; 59; 59; 103]%N.     (* "d;;c;;g" *)
Definition ex_sid : pystr := [90; 48; 70; 66]%N.                    (* "Z0FB": the encrypted session id *)
Definition ex_sdb : sdb := {| sd_keys := [(ex_tree, O); (ex_sid, O)]; sd_heap := [(O, VBool false)]; sd_next := 1 |}.
Lemma restore_not_equivalent_through_second_filing :
  same_object ex_sdb ex_tree ex_sid = true
  /\ sd_run ex_sdb [SUpd ex_tree (VBool true); SGet ex_sid] = [None; Some (VBool true)]
  /\ sd_run (sd_load (sd_dump ex_sdb)) [SUpd ex_tree (VBool true); SGet ex_sid] = [None; Some (VBool false)].
Proof. repeat split; vm_compute; reflexivity. Qed.

(* the same for the databases the operations lead to *)
Lemma exec_agree K ops : forall s t,
  sd_canon K s -> sd_canon K t -> (forall k, K k = true -> sd_view s k = sd_view t k) ->
  forallb (op_canon K) ops = true ->
  sd_canon K (sd_exec s ops) /\ sd_canon K (sd_exec t ops)
  /\ (forall k, K k = true -> sd_view (sd_exec s ops) k = sd_view (sd_exec t ops) k).
Proof.
  induction ops as [|o r IH]; intros s t Cs Ct Hv Ho; cbn [sd_exec]; [auto|].
  cbn [forallb] in Ho. apply andb_true_iff in Ho as [Ho Hr].
  destruct (step_abs K s o Cs Ho) as (_ & Vs & Cs'). destruct (step_abs K t o Ct Ho) as (_ & Vt & Ct').
  destruct (vstep_ext K _ _ o Hv Ho) as [_ Ev].
  apply IH; auto. intros k Hk'. rewrite (Vs k Hk'), (Vt k Hk'). now apply Ev.
Qed.

(* look-ups by session id: through the tree, the original and the restored database agree after any later history on K;
   a look-up that prefers the entry filed under the id does not (same witness) *)
Lemma lookup_tree_restored K s ops sidkey treekey :
  sd_canon K s -> forallb (op_canon K) ops = true -> K treekey = true ->
  sd_lookup true (sd_exec (sd_load (sd_dump s)) ops) sidkey treekey = sd_lookup true (sd_exec s ops) sidkey treekey.
Proof.
  intros Cs Ho Hk. cbn [sd_lookup].
  destruct (exec_agree K ops (sd_load (sd_dump s)) s) as (_ & _ & G); auto.
  - apply load_canon.
  - intros k _. apply restore_views.
Qed.

(* chains: export -> import -> operations -> export -> import -> operations *)
Lemma restore_chain_equivalent K s ops1 ops2 :
  sd_canon K s -> forallb (op_canon K) ops1 = true -> forallb (op_canon K) ops2 = true ->
  sd_run (sd_load (sd_dump (sd_exec (sd_load (sd_dump s)) ops1))) ops2 = sd_run (sd_exec s ops1) ops2.
Proof.
  intros Cs H1 H2.
  destruct (exec_agree K ops1 (sd_load (sd_dump s)) s) as (Ct & Cs1 & G); auto.
  - apply load_canon.
  - intros k _. apply restore_views.
  - apply (run_agree K); auto.
    + apply load_canon.
    + intros k Hk. rewrite restore_views. now apply G.
Qed.

Lemma lookup_by_second_filing_refuted :
  sd_lookup false (sd_exec ex_sdb [SUpd ex_tree (VBool true)]) ex_sid ex_tree = Some (VBool true)
  /\ sd_lookup false (sd_exec (sd_load (sd_dump ex_sdb)) [SUpd ex_tree (VBool true)]) ex_sid ex_tree = Some (VBool false).
Proof. split; vm_compute; reflexivity. Qed.

(* ------------------------------------------------------------------ operations after a restore *)
(* every later sequence of operations that read and write exported attributes only is answered by the restored instance
   as by the original *)
Lemma run_steps_agree {R : Type} t sp (steps : list (fields -> fields * R)) :
  Forall (op_exported t sp) steps -> forall o o', agree_on t sp o o' -> run_steps steps o' = run_steps steps o.
Proof.
  induction 1 as [|f r Hf _ IH]; intros o o' A; [reflexivity|].
  cbn [run_steps]. destruct (Hf o o' A) as [E A']. destruct (f o) as [o1 x], (f o') as [o1' x']. cbn in E, A'.
  rewrite E. f_equal. now apply IH.
Qed.

Theorem restore_equiv_history {R : Type} t sp o o0 (steps : list (fields -> fields * R)) :
  nodup_keys t = true -> obj_ok t sp o o0 = true -> Forall (op_exported t sp) steps ->
  exists D o', dump_fields t sp o = Ok D /\ load_fields t sp o0 D = Ok o' /\ run_steps steps o' = run_steps steps o.
Proof.
  intros N G F. destruct (obj_roundtrip t sp o o0 N G) as (D & o' & HD & HL & A & _).
  exists D, o'. split; [exact HD|]. split; [exact HL|]. apply (run_steps_agree t sp steps F). exact A.
Qed.

(* a read of ONE attribute: covered iff the attribute is in the table *)
Definition read_attr (a : pystr) : fields -> fields * option pyval := fun o => (o, getattr a o).
Lemma read_exported t sp a ty : In (a, ty) t -> str_in a sp = false -> op_exported t sp (read_attr a).
Proof. intros I S o o' A. split; [exact (A a ty I S)|exact A]. Qed.

(* ... and the premise is necessary: an attribute outside the table (an index kept next to the exported state) is what
   the fresh instance has, not what the original had *)
Definition ex_idx : pystr := [95;105;100;120]%N.                                   (* "_idx" *)
Definition ex_tab : list (pystr * ptype) := [(s__db, PNone); (s__map, PNone)].
Definition ex_live : fields :=
  [(s__db, VDict [([115]%N, VDict [])]); (s__map, VDict [([110]%N, VStr [115]%N)]); (ex_idx, VDict [([115]%N, VList [VStr [110]%N])])].
Definition ex_fresh_obj : fields := [(s__db, VDict []); (s__map, VDict []); (ex_idx, VDict [])].
Lemma restore_nonexported_refuted :
  nodup_keys ex_tab = true /\ obj_ok ex_tab [] ex_live ex_fresh_obj = true /\
  exists D o', dump_fields ex_tab [] ex_live = Ok D /\ load_fields ex_tab [] ex_fresh_obj D = Ok o' /\
               run_steps [read_attr s__map; read_attr ex_idx] ex_live
                 = [Some (VDict [([110]%N, VStr [115]%N)]); Some (VDict [([115]%N, VList [VStr [110]%N])])] /\
               run_steps [read_attr s__map; read_attr ex_idx] o'
                 = [Some (VDict [([110]%N, VStr [115]%N)]); Some (VDict [])].
Proof.
  split; [reflexivity|]. split; [reflexivity|]. eexists. eexists.
  split; [vm_compute; reflexivity|]. split; [vm_compute; reflexivity|]. split; vm_compute; reflexivity.
Qed.

(* ------------------------------------------------------------------ the relying party's state store *)
Lemma strs_of_map m : strs_of (map (fun p : pystr * pystr => (fst p, VStr (snd p))) m) = Some m.
Proof. induction m as [|[k s] r IH]; [reflexivity|]. cbn. now rewrite IH. Qed.

(* with both attributes in the table, export -> import into Current() gives the store back *)
Theorem cur_restore_id t c : t = [(s__db, PNone); (s__map, PNone)] -> cur_restore t c = Ok c.
Proof.
  intros ->. destruct c as [db m]. unfold cur_restore. cbn.
  unfold cur_of_fields. cbn. rewrite strs_of_map. reflexivity.
Qed.

Lemma cur_run_app t ops1 : forall c ops2,
  cur_run t c (ops1 ++ ops2) = cur_run t c ops1 ++ cur_run t (cur_exec t c ops1) ops2.
Proof.
  induction ops1 as [|o r IH]; intros c ops2; [reflexivity|].
  cbn [app cur_run cur_exec]. destruct (cur_step t c o) as [c' x]. cbn [fst]. now rewrite IH.
Qed.

(* a restore at ANY point of ANY history of calls changes no later answer (every prefix is a crash point; the history
   after it may remove states, re-bind keys, look keys up, export and import again) *)
Theorem cur_restore_anywhere t c ops1 ops2 : t = [(s__db, PNone); (s__map, PNone)] ->
  cur_run t c (ops1 ++ CRestore :: ops2) = cur_run t c ops1 ++ CUnit :: cur_run t (cur_exec t c ops1) ops2.
Proof.
  intros T. rewrite cur_run_app. f_equal. cbn [cur_run cur_step]. now rewrite (cur_restore_id t _ T).
Qed.

(* the variant with an index that is not exported: same answers while the instance lives, different ones after a restore *)
Definition ex_st : pystr := [115]%N.
Definition ex_n : pystr := [110]%N.
Definition ex_sub : pystr := [117]%N.
Definition ex_hist : list cop := [CSet ex_st [(s_nonce, VStr ex_n)]; CBind ex_n ex_st; CBind ex_sub ex_st].
Definition ex_after : list cop := [CRemove ex_st; CBase ex_sub; CBase ex_n; CSnap].
Lemma curi_restore_refuted :
  curi_run ex_tab curi_empty (ex_hist ++ ex_after) = cur_run ex_tab cur_empty (ex_hist ++ ex_after)
  /\ cur_run ex_tab cur_empty (ex_hist ++ CRestore :: ex_after)
     = [CUnit; CUnit; CUnit; CUnit; CUnit; CErrR KeyError; CErrR KeyError; CStateR [] []]
  /\ curi_run ex_tab curi_empty (ex_hist ++ CRestore :: ex_after)
     = [CUnit; CUnit; CUnit; CUnit; CUnit; CStrR ex_st; CStrR ex_st; CStateR [] [(ex_n, ex_st); (ex_sub, ex_st)]].
Proof. split; [|split]; vm_compute; reflexivity. Qed.

(* while the instance LIVES the index is only a shortcut: every key bound to a state is listed under it, so walking the
   list removes what walking the whole map removes - no history without a restore tells the two stores apart *)
Definition idx_inv (ci : curi) : Prop :=
  forall k st, In (k, st) (c_map (i_cur ci)) -> In k (bound_of (i_bound ci) st).
Definition no_restore (o : cop) : bool := match o with CRestore => false | _ => true end.

Lemma in_aset {V} k (v : V) d p : In p (aset k v d) -> p = (k, v) \/ In p d.
Proof.
  induction d as [|[k' v'] r IH]; cbn; [intros [H|[]]; auto|].
  destruct (str_eqb k k') eqn:E; cbn.
  - apply str_eqb_eq in E. subst k'. intros [H|H]; auto.
  - intros [H|H]; auto. destruct (IH H); auto.
Qed.
Lemma assoc_adel_other {V} k k' (d : list (pystr * V)) : k <> k' -> assoc k' (adel k d) = assoc k' d.
Proof.
  intros Hne. induction d as [|[k2 v2] r IH]; [reflexivity|]. cbn.
  destruct (str_eqb k k2) eqn:E.
  - apply str_eqb_eq in E. subst k2.
    assert (str_eqb k' k = false) as -> by (apply str_eqb_neq; congruence). reflexivity.
  - cbn. destruct (str_eqb k' k2); auto.
Qed.

Lemma curi_step_live t ci o : idx_inv ci -> no_restore o = true ->
  i_cur (fst (curi_step t ci o)) = fst (cur_step t (i_cur ci) o)
  /\ snd (curi_step t ci o) = snd (cur_step t (i_cur ci) o)
  /\ idx_inv (fst (curi_step t ci o)).
Proof.
  intros I NR. destruct ci as [c b]. destruct o; try discriminate; cbn [i_cur i_bound] in *.
  - (* CSet *) cbn. split; [reflexivity|split; [reflexivity|]]. exact I.
  - (* CUpd *) unfold curi_step; cbn [i_cur i_bound]. destruct (cur_step t c (CUpd k v)) as [c' x] eqn:E. cbn [fst snd i_cur].
    split; [reflexivity|split; [reflexivity|]]. intros k0 st H. cbn [i_cur i_bound]. apply I. cbn [i_cur].
    cbn in E. destruct (assoc k (c_db c)) as [[| | | | |r|]|]; inversion E; subst; exact H.
  - (* CBind *) unfold curi_step; cbn [i_cur i_bound]. destruct (cur_step t c (CBind fro to)) as [c' x] eqn:E.
    cbn in E. destruct (match assoc fro (c_map c) with Some old => _ | None => false end).
    + inversion E; subst. cbn. split; [reflexivity|split; [reflexivity|]]. exact I.
    + inversion E; subst. cbn [fst snd i_cur i_bound]. split; [reflexivity|split; [reflexivity|]].
      intros k st H. cbn [c_map i_cur i_bound] in *. unfold bound_of. apply in_aset in H as [H|H].
      * inversion H; subst. rewrite assoc_aset_same. apply in_or_app. right. now left.
      * destruct (str_eqb to st) eqn:Es.
        -- apply str_eqb_eq in Es. subst st. rewrite assoc_aset_same. apply in_or_app. left. exact (I k to H).
        -- rewrite assoc_aset_other by (now apply str_eqb_false_ne). exact (I k st H).
  - (* CRemove *) cbn. destruct (has_key k (c_db c)); cbn [fst snd i_cur i_bound]; [|split; [reflexivity|split; [reflexivity|exact I]]].
    assert (filter (fun p : pystr * pystr => negb (str_in (fst p) (bound_of b k) && str_eqb (snd p) k)) (c_map c)
            = filter (fun p => negb (str_eqb (snd p) k)) (c_map c)) as EQ.
    { apply filter_ext_in. intros [k0 st] Hin. cbn [fst snd]. destruct (str_eqb st k) eqn:Es; [|now rewrite andb_false_r].
      apply str_eqb_eq in Es. subst st. assert (str_in k0 (bound_of b k) = true) as -> by (apply str_in_In; exact (I k0 k Hin)).
      reflexivity. }
    rewrite EQ. split; [reflexivity|split; [reflexivity|]]. intros k0 st H. cbn [i_cur i_bound c_map] in *.
    apply filter_In in H as [Hin Hne]. cbn [snd] in Hne. apply negb_true_iff in Hne.
    unfold bound_of. rewrite assoc_adel_other; [exact (I k0 st Hin)|].
    intros ->. now rewrite str_eqb_refl in Hne.
  - (* CBase *) cbn. split; [reflexivity|split; [reflexivity|]]. exact I.
  - (* CGet *) cbn. split; [reflexivity|split; [reflexivity|]]. exact I.
  - (* CKeys *) cbn. split; [reflexivity|split; [reflexivity|]]. exact I.
  - (* CSnap *) cbn. split; [reflexivity|split; [reflexivity|]]. exact I.
Qed.

Theorem curi_live_agrees t ops : forallb no_restore ops = true ->
  forall ci, idx_inv ci -> curi_run t ci ops = cur_run t (i_cur ci) ops.
Proof.
  induction ops as [|o r IH]; intros NR ci I; [reflexivity|].
  cbn [forallb] in NR. apply andb_true_iff in NR as [No Nr].
  destruct (curi_step_live t ci o I No) as (E1 & E2 & I').
  cbn [curi_run cur_run]. destruct (curi_step t ci o) as [ci' x], (cur_step t (i_cur ci) o) as [c' y].
  cbn [fst snd] in *. subst. f_equal. now apply IH.
Qed.
Lemma idx_inv_empty : idx_inv curi_empty.
Proof. intros k st []. Qed.

(* ------------------------------------------------------------------ what load() never touches *)
(* an attribute outside the `parameter` table keeps the value of the instance that load() fills - whatever was exported.
   When that instance is built anew by the import (ImpExp.load_attr constructs attribute objects from their init_args
   only), everything its constructor would have taken from the configuration is the constructor's default afterwards. *)
Lemma assoc_aset_ne {V} (a b : pystr) (v : V) d : str_eqb a b = false -> assoc a (aset b v d) = assoc a d.
Proof. intros E. apply assoc_aset_other. intros ->. now rewrite str_eqb_refl in E. Qed.

Lemma load_fields_frame sp a : forall t o0 D o',
  has_key a t = false -> load_fields t sp o0 D = Ok o' -> assoc a o' = assoc a o0.
Proof.
  induction t as [|[b ty] r IH]; intros o0 D o' H L; cbn in L; [now inversion L|].
  unfold has_key in H. cbn [assoc] in H. destruct (str_eqb a b) eqn:E; [discriminate|].
  assert (has_key a r = false) as Hr by exact H.
  destruct (str_in b sp); [now apply (IH o0 D)|].
  destruct (assoc b D) as [x|]; [|now apply (IH o0 D)].
  destruct (load_attr ty x) as [v| |]; cbn in L; try discriminate.
  rewrite (IH _ D o' Hr L). now apply assoc_aset_ne.
Qed.

Theorem config_outside_table_lost t sp attrs :
  forallb (fun a => negb (has_key a t)) attrs = true ->
  forall a, In a attrs -> forall o0 D o', load_fields t sp o0 D = Ok o' -> assoc a o' = assoc a o0.
Proof.
  intros H a Ha o0 D o' L. rewrite forallb_forall in H. specialize (H a Ha). apply negb_true_iff in H.
  exact (load_fields_frame sp a t o0 D o' H L).
Qed.
