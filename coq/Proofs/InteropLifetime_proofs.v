(* Proofs/InteropLifetime_proofs.v — lemmas for the lifetime dimension of C12 (Model/InteropLifetime.v). *)
From Coq Require Import String.
From Verif Require Import Lib.Base Lib.PyStr Lib.InteropTy Gen.Supports Model.Interop Model.InteropLifetime Proofs.Interop_proofs.

(* the handlers of an instance are the ones the configuration made *)
Definition wf (p : prov_life) (i : instance) : Prop :=
  i_at i = mkHandler (p_handler_at p) /\ i_rf i = mkHandler (p_handler_rf p).

Lemma wf_fresh : forall p, wf p (fresh p).
Proof. intros p; split; reflexivity. Qed.

Lemma handler_stamp_same : forall h r, fst (handler_stamp h r) = h.
Proof. reflexivity. Qed.

Lemma step_wf : forall p i e, wf p i -> wf p (fst (step p i e)).
Proof.
  intros p i e [Ha Hr]. unfold step, handler_stamp.
  destruct (e_has_rf e); cbn; split; assumption.
Qed.

(* the views of an event depend on the instance only through its handler objects *)
Lemma step_views_handlers : forall p i1 i2 e, i_at i1 = i_at i2 -> i_rf i1 = i_rf i2 ->
  snd (step p i1 e) = snd (step p i2 e).
Proof.
  intros p i1 i2 e Ha Hr. unfold step, handler_stamp. rewrite Ha, Hr.
  destruct (e_has_rf e); reflexivity.
Qed.

Lemma step_views_wf : forall p i e, wf p i -> snd (step p i e) = alone p e.
Proof.
  intros p i e [Ha Hr]. unfold alone. apply step_views_handlers; cbn; assumption.
Qed.

Lemma run_wf : forall p es i, wf p i -> run p i es = map (alone p) es.
Proof.
  intros p es; induction es as [|e r IH]; intros i W; cbn [run map]; [reflexivity|].
  pose proof (step_views_wf p i e W) as Hv. pose proof (step_wf p i e W) as W'.
  destruct (step p i e) as [i' v]. cbn [fst snd] in *. rewrite Hv. f_equal. apply IH; exact W'.
Qed.

(* whatever ran before on the instance: the views of every flow are those of the flow alone on a fresh instance *)
Lemma run_history_independent : forall p es, run p (fresh p) es = map (alone p) es.
Proof. intros p es; apply run_wf, wf_fresh. Qed.

Lemma run_nth : forall p pre e post d,
  nth (length pre) (run p (fresh p) (pre ++ e :: post)) d = alone p e.
Proof.
  intros p pre e post d. rewrite run_history_independent, map_app. cbn.
  rewrite app_nth2; rewrite map_length; [|lia]. now rewrite Nat.sub_diag.
Qed.

Lemma run_state_wf : forall p es i, wf p i -> wf p (run_state p i es).
Proof.
  intros p es; induction es as [|e r IH]; intros i W; cbn [run_state]; [exact W|]. apply IH, step_wf, W.
Qed.

(* two histories, the same flow afterwards: the same views *)
Lemma after_any_history : forall p h1 h2 e,
  snd (step p (run_state p (fresh p) h1) e) = snd (step p (run_state p (fresh p) h2) e).
Proof.
  intros p h1 h2 e. rewrite !step_views_wf; [reflexivity| |]; apply run_state_wf, wf_fresh.
Qed.

(* ---- all views of one event state the lifetime the configuration gives the client *)
Lemma rule_or_lifetime_at : forall p c,
  rule_or (effective_rule p c TAccess) (mkHandler (p_handler_at p)) = lifetime p c TAccess.
Proof. intros; unfold rule_or, lifetime; destruct (effective_rule p c TAccess); reflexivity. Qed.
Lemma rule_or_lifetime_rf : forall p c,
  rule_or (effective_rule p c TRefresh) (mkHandler (p_handler_rf p)) = lifetime p c TRefresh.
Proof. intros; unfold rule_or, lifetime; destruct (effective_rule p c TRefresh); reflexivity. Qed.

Lemma zeqb_add_sub : forall a b, Z.eqb (a + b - a) b = true.
Proof. intros; apply Z.eqb_eq; lia. Qed.

Lemma alone_views : forall p e,
  all_are (lifetime p (e_client e) TAccess) (at_lifetimes (e_now_rp e) (alone p e)) = true
  /\ all_are (lifetime p (e_client e) TRefresh) (rf_lifetimes (alone p e)) = true
  /\ all_are (e_now_op e) (starts (alone p e)) = true.
Proof.
  intros p e. unfold alone, step, handler_stamp, session_life, fresh; cbn [i_at i_rf].
  rewrite rule_or_lifetime_at, rule_or_lifetime_rf.
  destruct (e_has_rf e), (e_at_jwt e), (e_rf_jwt e), (e_rf_asked e); cbn;
    rewrite ?zeqb_add_sub, ?Z.eqb_refl; cbn; auto.
Qed.

Lemma all_are_agree : forall x l, all_are x l = true -> agree_z l = true.
Proof.
  intros x l; induction l as [|[y|] r IH]; intro H.
  - reflexivity.
  - change (all_are x (Some y :: r)) with (Z.eqb y x && all_are x r) in H.
    apply andb_true_iff in H as [H1 H2]. apply Z.eqb_eq in H1; subst y.
    change (agree_z (Some x :: r)) with (all_are x r && agree_z r). rewrite H2, (IH H2). reflexivity.
  - change (all_are x (None :: r)) with (all_are x r) in H. exact (IH H).
Qed.

Lemma alone_agree : forall p e, lviews_agree (e_now_rp e) (alone p e) = true.
Proof.
  intros p e. destruct (alone_views p e) as (A & B & C). unfold lviews_agree.
  rewrite (all_are_agree _ _ A), (all_are_agree _ _ B), (all_are_agree _ _ C). reflexivity.
Qed.

Lemma step_views : forall p h e,
  let v := snd (step p (run_state p (fresh p) h) e) in
  all_are (lifetime p (e_client e) TAccess) (at_lifetimes (e_now_rp e) v) = true
  /\ all_are (lifetime p (e_client e) TRefresh) (rf_lifetimes v) = true
  /\ all_are (e_now_op e) (starts v) = true
  /\ lviews_agree (e_now_rp e) v = true.
Proof.
  intros p h e v. unfold v. rewrite step_views_wf by (apply run_state_wf, wf_fresh).
  destruct (alone_views p e) as (A & B & C). repeat split; auto. apply alone_agree.
Qed.

(* ---- precedence: the client's rule, else the provider-wide rule, else the handler *)
Lemma lifetime_precedence : forall p c k,
  lifetime p c k =
  match k with
  | TAccess => match cl_rule_at c with Some x => x | None =>
                 match p_rule_at p with Some y => y | None => p_handler_at p end end
  | TRefresh => match cl_rule_rf c with Some x => x | None =>
                  match p_rule_rf p with Some y => y | None => p_handler_rf p end end
  end.
Proof.
  intros p c [|]; unfold lifetime, effective_rule, first_some, handler_lifetime.
  - destruct (cl_rule_at c), (p_rule_at p); reflexivity.
  - destruct (cl_rule_rf c), (p_rule_rf p); reflexivity.
Qed.

(* another client's configuration never matters: the lifetime is a function of the provider and THIS client *)
Lemma lifetime_other_clients : forall p pre e post d,
  lv_session (nth (length pre) (run p (fresh p) (pre ++ e :: post)) d)
  = Some (e_now_op e, (e_now_op e + lifetime p (e_client e) TAccess)%Z).
Proof.
  intros. rewrite run_nth. unfold alone, step, handler_stamp, session_life, fresh; cbn [i_at i_rf].
  rewrite rule_or_lifetime_at. destruct (e_has_rf e); reflexivity.
Qed.

(* tie to Model/Interop.v: the record the authorization endpoint creates with the configured lifetime shows, at every
   observation point of Interop.v, the expiry the lifetime views state *)
Lemma lifetime_interop_views : forall p e client sub al req nonce idt_life at_jwt,
  let s := grant_session client sub al req nonce (e_now_op e) (lifetime p (e_client e) TAccess) idt_life in
  lv_session (alone p e) = Some (e_now_op e, s_at_exp s)
  /\ v_at_exp (view_introspection s) = Some (s_at_exp s)
  /\ v_at_exp (view_jwt_access_token s) = Some (s_at_exp s)
  /\ v_at_exp (view_token_response s (e_now_op e)) = Some (e_now_op e + lifetime p (e_client e) TAccess)%Z
  /\ all_agree (all_views SrcToken SrcToken at_jwt s (e_now_op e) (e_now_op e)) = true.
Proof.
  intros p e client sub al req nonce idt_life at_jwt s.
  split; [|split; [reflexivity|split; [reflexivity|split]]].
  - unfold alone, step, handler_stamp, session_life, fresh; cbn [i_at i_rf].
    rewrite rule_or_lifetime_at. destruct (e_has_rf e); reflexivity.
  - unfold view_token_response, expires_in, s; cbn. f_equal. lia.
  - apply views_agree. left; discriminate.
Qed.

(* the configurations the driver visits are not degenerate: a short client between two flows of a default client *)
Example lifetime_nonvacuous :
  let p := mkProvLife 3600 86400 None None in
  let a := mkClientLife (PS "c12-a") None None in
  let b := mkClientLife (PS "c12-b") (Some 120%Z) (Some 900%Z) in
  let ev c t := mkEvent c t t true true true true in
  map lv_jwt (run p (fresh p) [ev a 100; ev b 200; ev a 300]%Z)
  = [Some (100, 3700); Some (200, 320); Some (300, 3900)]%Z
  /\ chk_lifetimes (p, [(ev b 200%Z, alone p (ev b 200%Z)); (ev a 300%Z, alone p (ev a 300%Z))]) = true
  (* a JWT stamped with the lifetime of the flow before is refused *)
  /\ chk_lifetimes (p, [(ev b 200%Z, alone p (ev b 200%Z));
                        (ev a 300%Z, let v := alone p (ev a 300%Z) in
                                     mkLviews (lv_response v) (lv_rp v) (lv_session v) (Some (300, 420)%Z)
                                              (lv_introspection v) (lv_rf_session v) (lv_rf_jwt v)
                                              (lv_rf_introspection v))]) = false.
Proof. repeat split; vm_compute; reflexivity. Qed.
