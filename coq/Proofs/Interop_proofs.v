(* Proofs/Interop_proofs.v — lemmas for C12 (Model/Interop.v over the regenerated Gen/Supports.v).

   The configuration space (about 4.7 * 10^9 cells) is never enumerated.  The staged flow is a list of
   checks, each a function of a FEW dimensions; a flow completes iff every check holds
   (first_fail_completed).  Each group of checks is compared with the named limits over its own small
   sub-product by kernel evaluation of a `forallb` over the regenerated tables (the finite domain is the
   table itself), lifted with forallb_forall; the client-secret length is an unbounded input and is handled
   symbolically.  The groups are then recombined by boolean algebra (btauto). *)
From Coq Require Import String Btauto.
From Verif Require Import Lib.Base Lib.PyStr Lib.InteropTy Gen.Supports Model.Interop.
Open Scope string_scope.

(* ------------------------------------------------------------------ generic *)
Lemma first_fail_completed : forall l, first_fail l = Completed <-> forallb snd l = true.
Proof.
  induction l as [|[p b] r IH]; cbn; [tauto|].
  destruct b; cbn; [exact IH|split; discriminate].
Qed.

Lemma first_fail_place : forall l p, first_fail l = FailAt p -> In (p, false) l.
Proof.
  induction l as [|[q b] r IH]; cbn; intros p H; [discriminate|].
  destruct b; [right; auto|left; congruence].
Qed.

Lemma in_opt_opts : forall o l, in_opt o l -> In o (opts l).
Proof.
  intros [x|] l H; cbn in *; [right; now apply in_map|now left].
Qed.

Definition all_transports : list transport := [TPlain; TRequest; TRequestUri; TPar].
Lemma in_all_transports : forall t, In t all_transports.
Proof. destruct t; cbn; tauto. Qed.
Definition bools : list bool := [true; false].
Lemma in_bools : forall b, In b bools.
Proof. destruct b; cbn; tauto. Qed.

Lemma eqb_true_eq : forall a b, Bool.eqb a b = true -> a = b.
Proof. intros a b H. now apply eqb_prop. Qed.

(* ------------------------------------------------------------------ group A: response type x mode x RP / OP configuration *)
Definition grpA_ok (rt : pystr) (rm : option pystr) (all ex : bool) : bool :=
  rp_init_ok rt rm all ex && registered_rt_ok rt all ex && op_mode_ok rt rm.
Definition grpA_lim (rt : pystr) (rm : option pystr) (ex : bool) : bool := lim_mode rt rm || lim_shadow rt ex.

Lemma grpA_table :
  forallb (fun rt => forallb (fun rm => forallb (fun all => forallb (fun ex =>
    Bool.eqb (grpA_ok rt rm all ex) (negb (grpA_lim rt rm ex))) bools) bools) (opts rp_response_modes))
    cfg_response_types = true.
Proof. vm_compute. reflexivity. Qed.

Lemma grpA : forall rt rm all ex, In rt cfg_response_types -> in_opt rm rp_response_modes ->
  grpA_ok rt rm all ex = negb (grpA_lim rt rm ex).
Proof.
  intros rt rm all ex Hrt Hrm. pose proof grpA_table as T.
  rewrite forallb_forall in T. specialize (T _ Hrt).
  rewrite forallb_forall in T. specialize (T _ (in_opt_opts _ _ Hrm)).
  rewrite forallb_forall in T. specialize (T _ (in_bools all)).
  rewrite forallb_forall in T. specialize (T _ (in_bools ex)).
  now apply eqb_true_eq.
Qed.

(* ------------------------------------------------------------------ group B: client authentication x transport *)
Definition grpB_ok (rt : pystr) (tr : transport) (auth : pystr) : bool := par_ok tr auth && token_auth_ok rt auth.

Lemma grpB_table :
  forallb (fun rt => forallb (fun tr => forallb (fun auth =>
    Bool.eqb (grpB_ok rt tr auth) (negb (lim_par_jwt tr auth))) rp_token_auth_methods) all_transports)
    cfg_response_types = true.
Proof. vm_compute. reflexivity. Qed.

Lemma grpB : forall rt tr auth, In rt cfg_response_types -> In auth rp_token_auth_methods ->
  grpB_ok rt tr auth = negb (lim_par_jwt tr auth).
Proof.
  intros rt tr auth Hrt Ha. pose proof grpB_table as T.
  rewrite forallb_forall in T. specialize (T _ Hrt).
  rewrite forallb_forall in T. specialize (T _ (in_all_transports tr)).
  rewrite forallb_forall in T. specialize (T _ Ha).
  now apply eqb_true_eq.
Qed.

(* ------------------------------------------------------------------ group C: ID Token signing algorithm *)
Definition grpC_ok (rt sig : pystr) : bool := idt_authz_ok rt sig && idt_token_ok rt sig.

Lemma grpC_table :
  forallb (fun rt => forallb (fun sig => Bool.eqb (grpC_ok rt sig) (negb (lim_hs_idt rt sig))) rp_idt_sig_algs)
    cfg_response_types = true.
Proof. vm_compute. reflexivity. Qed.

Lemma grpC : forall rt sig, In rt cfg_response_types -> In sig rp_idt_sig_algs ->
  grpC_ok rt sig = negb (lim_hs_idt rt sig).
Proof.
  intros rt sig Hrt Hs. pose proof grpC_table as T.
  rewrite forallb_forall in T. specialize (T _ Hrt).
  rewrite forallb_forall in T. specialize (T _ Hs).
  now apply eqb_true_eq.
Qed.

(* ------------------------------------------------------------------ group D: by-reference transports (all inputs) *)
Lemma grpD : forall tr rt off,
  stub_ok tr rt off = negb (lim_byref_nonce tr rt || lim_byref_consent tr off).
Proof.
  intros tr rt off. unfold stub_ok, lim_byref_nonce, lim_byref_consent.
  destruct repaired_byref, (is_stub tr), (has_word "id_token" rt), off; reflexivity.
Qed.

Lemma grpD' : forall tr claims, par_claims_ok tr claims = negb (lim_par_claims tr claims).
Proof. intros tr claims. unfold par_claims_ok, lim_par_claims. destruct repaired_par_request_class, tr, claims; reflexivity. Qed.

(* ------------------------------------------------------------------ group E: userinfo signing algorithm *)
Lemma grpE_table :
  forallb (fun rt => forallb (fun sig => Bool.eqb (ui_sig_ok rt sig) (negb (lim_hs_ui rt sig))) (opts rp_ui_sig_algs))
    cfg_response_types = true.
Proof. vm_compute. reflexivity. Qed.

Lemma grpE : forall rt sig, In rt cfg_response_types -> in_opt sig rp_ui_sig_algs ->
  ui_sig_ok rt sig = negb (lim_hs_ui rt sig).
Proof.
  intros rt sig Hrt Hs. pose proof grpE_table as T.
  rewrite forallb_forall in T. specialize (T _ Hrt).
  rewrite forallb_forall in T. specialize (T _ (in_opt_opts _ _ Hs)).
  now apply eqb_true_eq.
Qed.

(* ------------------------------------------------------------------ group F: userinfo encryption; secret length symbolic *)
Definition enc_family_known (a : pystr) : bool :=
  match assoc a enc_alg_family with Some KRsa | Some KEc | Some KOct => true | _ => false end.

Lemma grpF_table :
  forallb (fun a => enc_family_known a && forallb (fun e => ui_enc_registered a e) rp_ui_enc_encs) rp_ui_enc_algs = true.
Proof. vm_compute. reflexivity. Qed.

Lemma grpF : forall rt enc len, in_opt2 enc rp_ui_enc_algs rp_ui_enc_encs ->
  ui_enc_ok rt enc len = negb (lim_kw_secret rt enc len).
Proof.
  intros rt [[a e]|] len H; unfold ui_enc_ok, lim_kw_secret; cbn in H.
  - destruct H as [Ha He]. pose proof grpF_table as T.
    rewrite forallb_forall in T. specialize (T _ Ha). apply andb_true_iff in T as [Tk Tr].
    rewrite forallb_forall in Tr. specialize (Tr _ He). rewrite Tr. cbn [negb orb].
    unfold enc_key_ok. unfold enc_family_known in Tk.
    destruct (needs_userinfo rt); cbn [negb orb andb]; [|reflexivity].
    destruct (assoc a enc_alg_family) as [[| | |]|]; try discriminate; cbn; try reflexivity.
    now rewrite negb_involutive.
  - destruct (needs_userinfo rt); reflexivity.
Qed.

(* ------------------------------------------------------------------ group G: PKCE *)
Lemma grpG_table :
  forallb (fun p => pkce_rp_ok p && pkce_op_ok p) (opts rp_pkce_methods) = true.
Proof. vm_compute. reflexivity. Qed.

Lemma grpG : forall p, in_opt p rp_pkce_methods -> pkce_rp_ok p && pkce_op_ok p = true.
Proof.
  intros p H. pose proof grpG_table as T. rewrite forallb_forall in T. exact (T _ (in_opt_opts _ _ H)).
Qed.

(* ------------------------------------------------------------------ group H: hashes in the front-channel ID Token *)
Lemma grpH_table : forallb idt_hashes_ok cfg_response_types = true.
Proof. vm_compute. reflexivity. Qed.

Lemma grpH : forall rt, In rt cfg_response_types -> idt_hashes_ok rt = true.
Proof. intros rt H. pose proof grpH_table as T. rewrite forallb_forall in T. exact (T _ H). Qed.

(* ------------------------------------------------------------------ group I: registered ID Token encryption *)
Lemma grpI_reg_table :
  forallb (fun a => forallb (fun e => idt_enc_registered (Some (a, e))) rp_idt_enc_encs) rp_idt_enc_algs = true.
Proof. vm_compute. reflexivity. Qed.

Lemma grpI_rt_table :
  forallb (fun rt => Bool.eqb (negb (str_in (PS "id_token") (artefacts_op rt)) && negb (uses_token_endpoint rt))
                              (negb (has_word "id_token" rt || uses_token_endpoint rt))) cfg_response_types = true.
Proof. vm_compute. reflexivity. Qed.

Lemma grpI_fam_table : forallb enc_family_known rp_idt_enc_algs = true.
Proof. vm_compute. reflexivity. Qed.

Definition grpI_ok (rt : pystr) (enc : option (pystr * pystr)) (len : N) : bool :=
  idt_enc_front_ok rt enc && idt_enc_token_ok rt enc
  && idt_enc_key_authz_ok rt enc len && idt_enc_key_token_ok rt enc len.

Lemma grpI : forall rt enc len, In rt cfg_response_types -> in_opt2 enc rp_idt_enc_algs rp_idt_enc_encs ->
  grpI_ok rt enc len = negb (lim_idt_enc rt enc || lim_kw_idt rt enc len).
Proof.
  intros rt enc len Hrt He.
  unfold grpI_ok, idt_enc_front_ok, idt_enc_token_ok, idt_enc_key_authz_ok, idt_enc_key_token_ok, lim_idt_enc, lim_kw_idt.
  pose proof grpI_rt_table as T. rewrite forallb_forall in T. specialize (T _ Hrt). apply eqb_true_eq in T.
  destruct enc as [[a e]|].
  - destruct He as [Ha He]. pose proof grpI_reg_table as R.
    rewrite forallb_forall in R. specialize (R _ Ha). rewrite forallb_forall in R. specialize (R _ He).
    rewrite R. pose proof grpI_fam_table as F. rewrite forallb_forall in F. specialize (F _ Ha).
    unfold enc_family_known in F. cbn [is_some idt_enc_alg_key_ok]. unfold enc_key_ok.
    destruct (has_word "id_token" rt || uses_token_endpoint rt) eqn:M;
      destruct (str_in (PS "id_token") (artefacts_op rt)), (uses_token_endpoint rt); cbn in T; try discriminate;
      destruct repaired_idt_enc; destruct (assoc a enc_alg_family) as [[| | |]|]; try discriminate;
      cbn; try reflexivity; destruct (aes_len len); reflexivity.
  - cbn [idt_enc_registered is_some idt_enc_alg_key_ok andb negb orb].
    destruct repaired_idt_enc, (has_word "id_token" rt || uses_token_endpoint rt); cbn; rewrite ?andb_false_r; reflexivity.
Qed.

(* ------------------------------------------------------------------ factorisation and the product theorem *)
(* the checks of one flow regroup into ten independent groups *)
Lemma checks_factor : forall c i,
  forallb snd (checks c i) =
    grpA_ok (c_rt c) (c_rm c) (i_rp_all_rts i) (i_op_explicit i)
    && (pkce_rp_ok (c_pkce c) && pkce_op_ok (c_pkce c))
    && grpB_ok (c_rt c) (c_tr c) (c_auth c)
    && stub_ok (c_tr c) (c_rt c) (i_offline i)
    && par_claims_ok (c_tr c) (i_claims i)
    && grpC_ok (c_rt c) (c_idt_sig c)
    && idt_hashes_ok (c_rt c)
    && grpI_ok (c_rt c) (c_idt_enc c) (i_secret_len i)
    && ui_sig_ok (c_rt c) (c_ui_sig c)
    && ui_enc_ok (c_rt c) (c_ui_enc c) (i_secret_len i).
Proof.
  intros c i. unfold checks, grpA_ok, grpB_ok, grpC_ok, grpI_ok. cbn [forallb snd]. btauto.
Qed.

Lemma checks_limits : forall c i, in_product c -> forallb snd (checks c i) = negb (limits c i).
Proof.
  intros c i (Hrt & Hrm & Hauth & Hsig & Hie & Hus & Hue & Hp).
  rewrite checks_factor.
  rewrite (grpA _ _ (i_rp_all_rts i) (i_op_explicit i) Hrt Hrm), (grpG _ Hp), (grpB _ (c_tr c) _ Hrt Hauth),
    grpD, grpD', (grpC _ _ Hrt Hsig), (grpH _ Hrt), (grpI _ _ (i_secret_len i) Hrt Hie), (grpE _ _ Hrt Hus), (grpF (c_rt c) _ (i_secret_len i) Hue).
  unfold limits, grpA_lim. btauto.
Qed.

Theorem product_char : forall c i, in_product c -> (flow_outcome c i = Completed <-> limits c i = false).
Proof.
  intros c i H. unfold flow_outcome. rewrite first_fail_completed, (checks_limits c i H).
  destruct (limits c i); cbn; split; congruence.
Qed.

Theorem product_partial : forall c i, in_product c -> limits c i = false -> completes c i = true.
Proof.
  intros c i H L. unfold completes. apply (product_char c i H) in L. now rewrite L.
Qed.

(* which place a refused flow is refused at, limit by limit: the flow is total and fails only at a check *)
Theorem outcome_total : forall c i, flow_outcome c i = Completed \/ exists p, flow_outcome c i = FailAt p.
Proof. intros c i. destruct (flow_outcome c i); eauto. Qed.

(* independence: the token formats never enter *)
Theorem outcome_independent : forall rt rm auth a1 r1 a2 r2 sig e us ue tr p i,
  flow_outcome (mkCfg rt rm auth a1 r1 sig e us ue tr p) i = flow_outcome (mkCfg rt rm auth a2 r2 sig e us ue tr p) i.
Proof. reflexivity. Qed.

(* ------------------------------------------------------------------ dimension by dimension *)
Lemma in_all_dims : forall d, In d all_dims.
Proof. destruct d; cbn; tauto. Qed.

Lemma dims_table : forallb dim_compatible all_dims = true.
Proof. vm_compute. reflexivity. Qed.

Theorem dimension_compatible : forall d v, In v (rp_offers d) -> op_accepts d (negotiated d v) = true.
Proof.
  intros d v H. pose proof dims_table as T. rewrite forallb_forall in T. specialize (T _ (in_all_dims d)).
  unfold dim_compatible in T. rewrite forallb_forall in T. exact (T _ H).
Qed.

(* values the RP can be configured with that the provider does not ADVERTISE (listed, not hidden) *)
Definition not_advertised (d : dim) : list pystr :=
  filter (fun v => negb (str_in v (op_advertises d))) (rp_offers d).
Definition not_accepted (d : dim) : list pystr := filter (fun v => negb (op_accepts d v)) (rp_offers d).

Lemma not_advertised_list :
  not_advertised DTokenAuth = [PS "bearer_header"; PS "bearer_body"]
  /\ not_advertised DPkce = [PS "S384"; PS "S512"]
  /\ forall d, d <> DTokenAuth -> d <> DPkce -> not_advertised d = [].
Proof.
  split; [vm_compute; reflexivity|]. split; [vm_compute; reflexivity|].
  intros d H1 H2. destruct d; try congruence; vm_compute; reflexivity.
Qed.

Lemma not_accepted_list :
  not_accepted DTokenAuth = [PS "bearer_header"; PS "bearer_body"]
  /\ forall d, d <> DTokenAuth -> not_accepted d = [].
Proof.
  split; [vm_compute; reflexivity|].
  intros d H1. destruct d; try congruence; vm_compute; reflexivity.
Qed.

(* a method the provider does not accept falls back to the token service's default method *)
Lemma auth_fallback : forall v, In v (not_accepted DTokenAuth) -> negotiated DTokenAuth v = rp_token_default_authn.
Proof.
  intros v H. destruct not_accepted_list as [E _]. rewrite E in H.
  cbn in H. destruct H as [<-|[<-|[]]]; vm_compute; reflexivity.
Qed.

(* the provider side does not offer `plain` from this relying party, although it would accept it *)
Lemma pkce_plain_limit : str_in (PS "plain") op_pkce_methods = true /\ str_in (PS "plain") rp_pkce_methods = false.
Proof. split; vm_compute; reflexivity. Qed.

(* with a silent configuration the pushed-authorization endpoint's table shadows the response types *)
Lemma shadow_limit : op_adv_rts false = [PS "code"] /\ op_adv_rts true = cfg_response_types.
Proof. split; vm_compute; reflexivity. Qed.

(* ------------------------------------------------------------------ artefacts *)
Lemma artefacts_table : forallb artefacts_agree cfg_response_types = true.
Proof. vm_compute. reflexivity. Qed.

Theorem artefacts : forall rt, In rt cfg_response_types ->
  artefacts_agree rt = true
  /\ (forall a, In a (artefacts_rp rt) -> In a (artefacts_op rt))
  /\ (forall h, In h (idt_hashes_required rt) -> In h (idt_hashes_provided rt))
  /\ (yields_id_token rt = true <-> has_word "id_token" rt = true \/ uses_token_endpoint rt = true).
Proof.
  intros rt H. pose proof artefacts_table as T. rewrite forallb_forall in T. specialize (T _ H).
  split; [exact T|]. unfold artefacts_agree in T.
  apply andb_true_iff in T as [T Ty]. apply andb_true_iff in T as [T Th]. apply andb_true_iff in T as [_ Tf].
  split; [|split].
  - intros a Ha. rewrite forallb_forall in Tf. apply str_in_In. exact (Tf _ Ha).
  - intros h Hh. unfold idt_hashes_ok in Th. rewrite forallb_forall in Th. apply str_in_In. exact (Th _ Hh).
  - apply eqb_prop in Ty. rewrite Ty. rewrite orb_true_iff. tauto.
Qed.

(* what the relying party requires: c_hash next to a code, at_hash next to an access token *)
Lemma required_hashes :
  assoc (PS "code") rp_idt_required_hash = Some (PS "c_hash")
  /\ assoc (PS "access_token") rp_idt_required_hash = Some (PS "at_hash").
Proof. split; vm_compute; reflexivity. Qed.

Lemma hashes_by_type : forall rt, In rt cfg_response_types ->
  (str_in (PS "id_token") (artefacts_op rt) = true -> str_in (PS "code") (artefacts_op rt) = true ->
     str_in (PS "c_hash") (idt_hashes_provided rt) = true)
  /\ (str_in (PS "id_token") (artefacts_op rt) = true -> str_in (PS "access_token") (artefacts_op rt) = true ->
     str_in (PS "at_hash") (idt_hashes_provided rt) = true).
Proof.
  assert (T : forallb (fun rt =>
      (negb (str_in (PS "id_token") (artefacts_op rt)) || negb (str_in (PS "code") (artefacts_op rt))
         || str_in (PS "c_hash") (idt_hashes_provided rt))
      && (negb (str_in (PS "id_token") (artefacts_op rt)) || negb (str_in (PS "access_token") (artefacts_op rt))
         || str_in (PS "at_hash") (idt_hashes_provided rt))) cfg_response_types = true) by (vm_compute; reflexivity).
  intros rt H. rewrite forallb_forall in T. specialize (T _ H). apply andb_true_iff in T as [T1 T2].
  split; intros Hi Ha; [rewrite Hi, Ha in T1; exact T1|rewrite Hi, Ha in T2; exact T2].
Qed.

(* every response type the relying party can be configured with is handled by the provider, and the `_supports`
   defaults of both halves lie inside that set *)
Lemma response_types_both_sides :
  cfg_response_types = rp_configurable_response_types
  /\ (forall rt, In rt rp_configurable_response_types -> In rt op_configurable_response_types)
  /\ (forall rt, In rt rp_response_types -> In rt cfg_response_types)
  /\ (forall rt, In rt op_response_types -> In rt cfg_response_types)
  /\ length cfg_response_types = 7%nat.
Proof.
  split; [vm_compute; reflexivity|]. split; [|split; [|split; [|vm_compute; reflexivity]]].
  - assert (T : forallb (fun t => str_in t op_configurable_response_types) rp_configurable_response_types = true)
      by (vm_compute; reflexivity).
    intros rt H. rewrite forallb_forall in T. apply str_in_In. exact (T _ H).
  - assert (T : forallb (fun t => str_in t cfg_response_types) rp_response_types = true) by (vm_compute; reflexivity).
    intros rt H. rewrite forallb_forall in T. apply str_in_In. exact (T _ H).
  - assert (T : forallb (fun t => str_in t cfg_response_types) op_response_types = true) by (vm_compute; reflexivity).
    intros rt H. rewrite forallb_forall in T. apply str_in_In. exact (T _ H).
Qed.

(* ------------------------------------------------------------------ views *)
Lemma list_str_eqb_refl : forall l, list_eqb str_eqb l l = true.
Proof. intros l. apply (list_eqb_eq str_eqb str_eqb_eq). reflexivity. Qed.

Lemma opt_agree_str_refl : forall o, opt_agree str_eqb o o = true.
Proof. intros [x|]; cbn; [apply str_eqb_refl|reflexivity]. Qed.

Lemma exp_roundtrip : forall e now, Z.eqb (now + (e - now)) e = true.
Proof. intros. apply Z.eqb_eq. lia. Qed.
Lemma exp_roundtrip' : forall e now, Z.eqb e (now + (e - now)) = true.
Proof. intros. apply Z.eqb_eq. lia. Qed.

Ltac views_tac s :=
  unfold view_agree, forget_idt_exp, view_session, view_token_response, view_introspection, view_userinfo,
    view_id_token, view_rp, view_jwt_access_token, expires_in;
  cbn [v_client v_sub v_scope v_nonce v_at_exp v_idt_exp opt_agree has_src];
  rewrite ?str_eqb_refl, ?list_str_eqb_refl, ?opt_agree_str_refl, ?Z.eqb_refl, ?exp_roundtrip, ?exp_roundtrip';
  destruct (s_nonce s); reflexivity.

(* every flow whose ID Token (if any) comes from the TOKEN endpoint: every view agrees with every other *)
Theorem views_agree : forall asrc isrc at_jwt s now, isrc <> SrcAuthz \/ repaired_idt_exp = true ->
  all_agree (all_views asrc isrc at_jwt s now now) = true.
Proof.
  intros asrc isrc at_jwt s now [H|H]; unfold all_views.
  - destruct asrc, isrc, at_jwt; try congruence; cbn [app all_agree forallb has_src andb]; views_tac s.
  - destruct asrc, isrc, at_jwt; cbn [app all_agree forallb has_src andb]; unfold view_session; rewrite ?H; views_tac s.
Qed.

(* ID Token minted at the AUTHORIZATION endpoint (id_token, id_token token, code id_token token): everything
   agrees except the ID Token expiry the session database records (0) *)
Theorem views_agree_implicit : forall asrc at_jwt s now,
  all_agree (map forget_idt_exp (all_views asrc SrcAuthz at_jwt s now now)) = true
  /\ all_agree [view_id_token s; view_rp asrc SrcAuthz s now now] = true.
Proof.
  intros asrc at_jwt s now. unfold all_views.
  split; destruct asrc, at_jwt; cbn [map app all_agree forallb has_src andb]; views_tac s.
Qed.

Theorem views_agree_implicit_refuted :
  exists s, all_agree (all_views SrcNone SrcAuthz false s 0 0) = repaired_idt_exp.
Proof.
  exists (mkSession (PS "c") (PS "s") [PS "openid"] (Some (PS "n")) 0 300). vm_compute. reflexivity.
Qed.

(* every view shows nothing but fields of the one record *)
Definition opt_is {A} (x : option A) (a : A) : Prop := match x with Some y => y = a | None => True end.
Definition projects (s : session) (v : view) : Prop :=
  opt_is (v_client v) (s_client s) /\ opt_is (v_sub v) (s_sub s) /\ opt_is (v_scope v) (s_scope s)
  /\ (match v_nonce v with Some n => s_nonce s = Some n | None => True end)
  /\ opt_is (v_at_exp v) (s_at_exp s) /\ opt_is (v_idt_exp v) (s_idt_exp s).

Theorem views_project : forall asrc isrc at_jwt s now v, isrc <> SrcAuthz \/ repaired_idt_exp = true ->
  In v (all_views asrc isrc at_jwt s now now) -> projects s v.
Proof.
  intros asrc isrc at_jwt s now v Hs H. unfold all_views, view_session in H.
  destruct Hs as [Hs|Hs]; [|rewrite ?Hs in H];
  destruct asrc, isrc, at_jwt; try congruence; cbn in H;
    repeat (destruct H as [<-|H]; [unfold projects; cbn; unfold expires_in;
                                   repeat split; try reflexivity; try lia; destruct (s_nonce s); reflexivity|]);
    contradiction.
Qed.

(* the relying party's expiry differs from the provider's by exactly the difference of the two clocks *)
Theorem rp_expiry_skew : forall asrc isrc s now_op now_rp, asrc <> SrcNone ->
  v_at_exp (view_rp asrc isrc s now_op now_rp) = Some (s_at_exp s + (now_rp - now_op))%Z.
Proof. intros asrc isrc s now_op now_rp H. destruct asrc; try congruence; cbn; unfold expires_in; f_equal; lia. Qed.

(* ------------------------------------------------------------------ refresh *)
Lemma refresh_chain_keeps : forall l s,
  s_client (refresh_chain s l) = s_client s /\ s_sub (refresh_chain s l) = s_sub s
  /\ s_scope (refresh_chain s l) = s_scope s /\ s_nonce (refresh_chain s l) = s_nonce s.
Proof.
  unfold refresh_chain. induction l as [|[[now a] i] l IH]; intros s; cbn [fold_left]; [repeat split|].
  destruct (IH (refresh_session s (now, a, i))) as (H1 & H2 & H3 & H4). cbn in *. repeat split; assumption.
Qed.

(* after ANY number of refreshes: the views of the refreshed access token / ID Token are projections of the refreshed
   record, so they agree with each other; client, subject, scope and nonce are those of the original grant; the
   expiry every view states is the provider's clock at the LAST refresh plus the access-token lifetime *)
Theorem views_after_refresh : forall s l now at_life idt_life at_jwt,
  let s' := refresh_chain s (l ++ [(now, at_life, idt_life)]) in
  all_agree (all_views SrcToken SrcToken at_jwt s' now now) = true
  /\ (forall v, In v (all_views SrcToken SrcToken at_jwt s' now now) -> projects s' v)
  /\ v_client (view_rp SrcToken SrcToken s' now now) = Some (s_client s)
  /\ v_sub (view_rp SrcToken SrcToken s' now now) = Some (s_sub s)
  /\ v_scope (view_rp SrcToken SrcToken s' now now) = Some (s_scope s)
  /\ v_nonce (view_rp SrcToken SrcToken s' now now) = s_nonce s
  /\ v_at_exp (view_token_response s' now) = Some (now + at_life)%Z
  /\ v_at_exp (view_rp SrcToken SrcToken s' now now) = Some (now + at_life)%Z
  /\ v_at_exp (view_introspection s') = Some (now + at_life)%Z
  /\ v_at_exp (view_jwt_access_token s') = Some (now + at_life)%Z
  /\ v_at_exp (view_session SrcToken SrcToken s') = Some (now + at_life)%Z.
Proof.
  intros s l now at_life idt_life at_jwt s'.
  assert (E : s' = refresh_session (refresh_chain s l) (now, at_life, idt_life)).
  { unfold s', refresh_chain. rewrite fold_left_app. reflexivity. }
  destruct (refresh_chain_keeps l s) as (K1 & K2 & K3 & K4).
  split; [apply views_agree; left; discriminate|]. split; [intros v; apply views_project; left; discriminate|].
  rewrite E. cbn. unfold expires_in. cbn. rewrite K1, K2, K3, K4.
  repeat split; f_equal; lia.
Qed.

(* the composed model: the record is created once, at the authorization endpoint, from the request and from
   three functions of the environment (subject identifier, scope filter, lifetimes) *)
Section Composed.
  Variable sub_of : pystr -> pystr -> pystr.                 (* (user, client) -> sub : C18 *)
  Variable filter_scopes : pystr -> list pystr -> list pystr. (* (client, requested) -> granted : C05 *)
  Definition authorize (user client : pystr) (req_scope : list pystr) (nonce : option pystr)
             (now at_life idt_life : Z) : session :=
    mkSession client (sub_of user client) (filter_scopes client req_scope) nonce (now + at_life) (now + idt_life).

  Theorem views_model : forall user client req_scope nonce now at_life idt_life asrc at_jwt,
    let s := authorize user client req_scope nonce now at_life idt_life in
    (forall isrc, isrc <> SrcAuthz \/ repaired_idt_exp = true ->
       all_agree (all_views asrc isrc at_jwt s now now) = true
       /\ (forall v, In v (all_views asrc isrc at_jwt s now now) -> projects s v))
    /\ all_agree (map forget_idt_exp (all_views asrc SrcAuthz at_jwt s now now)) = true
    /\ (forall isrc,
         v_sub (view_rp asrc isrc s now now) = Some (sub_of user client)
         /\ v_scope (view_rp asrc isrc s now now) = Some (filter_scopes client req_scope)
         /\ v_nonce (view_rp asrc isrc s now now) = nonce
         /\ v_client (view_rp asrc isrc s now now) = Some client).
  Proof.
    intros. split; [intros isrc Hs; split; [now apply views_agree|intros v; now apply views_project]|].
    split; [apply views_agree_implicit|]. intros; repeat split.
  Qed.
End Composed.

(* ------------------------------------------------------------------ requested scope and granted scope *)
Lemma subset_incl : forall a b, subset a b = true <-> incl a b.
Proof.
  intros a b. unfold subset, incl. rewrite forallb_forall.
  split; intros H x Hx; apply str_in_In; auto.
Qed.

(* the granted scope is exactly: requested, and allowed for the client *)
Theorem filter_scopes_char : forall provider al req x,
  In x (filter_scopes provider al req) <-> In x req /\ In x (allowed_scopes_of provider al).
Proof. intros. unfold filter_scopes. rewrite filter_In, str_in_In. tauto. Qed.

Theorem filter_scopes_within : forall provider al req, incl (filter_scopes provider al req) req.
Proof. intros provider al req x H. apply filter_scopes_char in H. tauto. Qed.

(* requested /\ provider scopes /\ the client's allowed scopes - when the operator allowed only scope values the
   provider knows (or set nothing for the client) *)
Theorem filter_scopes_intersection : forall provider al req x,
  match al with Some a => incl a provider | None => True end ->
  (In x (filter_scopes provider al req) <->
   In x req /\ In x provider /\ match al with Some a => In x a | None => True end).
Proof.
  intros provider [a|] req x H; rewrite filter_scopes_char; cbn [allowed_scopes_of]; [|tauto].
  split; [intros [H1 H2]; auto|tauto].
Qed.

Lemma filter_len : forall (f : pystr -> bool) l, (length (filter f l) <= length l)%nat.
Proof. intros f l. induction l as [|a l IH]; cbn; [lia|destruct (f a); cbn; lia]. Qed.

(* nothing is dropped exactly when everything requested is allowed: only then do "requested" and "granted" coincide *)
Theorem filter_scopes_all_or_less : forall provider al req,
  filter_scopes provider al req = req <-> incl req (allowed_scopes_of provider al).
Proof.
  intros provider al req. unfold filter_scopes. generalize (allowed_scopes_of provider al) as A. intros A.
  induction req as [|x r IH]; cbn [filter]; [split; [intros _ y []|reflexivity]|].
  destruct (str_in x A) eqn:E.
  - split.
    + intros H. injection H as H. apply IH in H. intros y [<-|Hy]; [now apply str_in_In|auto].
    + intros H. f_equal. apply IH. intros y Hy. apply H. now right.
  - split.
    + intros H. exfalso.
      assert (L : (length (filter (fun s => str_in s A) r) <= length r)%nat) by apply filter_len.
      rewrite H in L. cbn in L. lia.
    + intros H. exfalso. assert (In x A) by (apply H; now left). apply str_in_In in H0. congruence.
Qed.

(* every view of the record the authorization endpoint creates states the granted scope - a function of the
   requested scope, the provider's scopes and the client's allowed scopes - and nothing outside the request *)
Theorem scope_views_granted : forall client sub al req nonce now at_life idt_life asrc isrc at_jwt now_op now_rp v l,
  let s := grant_session client sub al req nonce now at_life idt_life in
  In v (all_views asrc isrc at_jwt s now_op now_rp) -> v_scope v = Some l ->
  l = granted_scope al req /\ incl l req
  /\ (forall x, In x l <-> In x req /\ In x (allowed_scopes_of op_scopes al)).
Proof.
  intros client sub al req nonce now at_life idt_life asrc isrc at_jwt now_op now_rp v l s H E.
  assert (L : l = granted_scope al req).
  { unfold all_views in H.
    destruct asrc, isrc, at_jwt; cbn in H;
      repeat (destruct H as [<-|H]; [cbn in E; congruence|]); contradiction. }
  subst l. split; [reflexivity|]. split; [apply filter_scopes_within|]. intros x. apply filter_scopes_char.
Qed.

Theorem scope_views_present : forall asrc isrc s now_op now_rp,
  v_scope (view_session asrc isrc s) = Some (s_scope s)
  /\ v_scope (view_rp asrc isrc s now_op now_rp) = Some (s_scope s)
  /\ v_scope (view_token_response s now_op) = Some (s_scope s)
  /\ v_scope (view_introspection s) = Some (s_scope s)
  /\ v_scope (view_jwt_access_token s) = Some (s_scope s).
Proof. intros. repeat split. Qed.

(* a refresh: refused when the stated scope is not within what the refresh token stands for; otherwise every view of
   the refreshed tokens states the scope of THIS refresh (the stated one, else the one the token stands for), which
   is within the granted scope, and the views agree *)
Theorem refresh_scope_char : forall g stated,
  match stated with
  | None => refresh_scope g stated = Some g
  | Some n => (incl n g -> refresh_scope g stated = Some n) /\ (~ incl n g -> refresh_scope g stated = None)
  end.
Proof.
  intros g [n|]; [|reflexivity]. cbn [refresh_scope]. destruct (subset n g) eqn:E.
  - split; [reflexivity|]. intros H. exfalso. apply H. now apply subset_incl.
  - split; [|reflexivity]. intros H. apply subset_incl in H. congruence.
Qed.

Theorem views_after_scoped_refresh : forall g stated sc s r at_jwt now,
  refresh_scope g stated = Some sc ->
  let s' := refresh_session_scoped s r sc in
  all_agree (all_views SrcToken SrcToken at_jwt s' now now) = true
  /\ (forall v l, In v (all_views SrcToken SrcToken at_jwt s' now now) -> v_scope v = Some l -> l = sc)
  /\ incl sc g
  /\ s_client s' = s_client s /\ s_sub s' = s_sub s /\ s_nonce s' = s_nonce s.
Proof.
  intros g stated sc s r at_jwt now H s'.
  split; [apply views_agree; left; discriminate|].
  split.
  { intros v l Hv E. unfold all_views in Hv. destruct r as [[n a] i].
    destruct at_jwt; cbn in Hv; repeat (destruct Hv as [<-|Hv]; [cbn in E; congruence|]); contradiction. }
  split.
  { destruct stated as [n|]; cbn [refresh_scope] in H.
    - destruct (subset n g) eqn:E; [|discriminate]. injection H as <-. now apply subset_incl.
    - injection H as <-. apply incl_refl. }
  destruct r as [[n a] i]. repeat split.
Qed.

(* the regenerated default of the tree: a request naming a scope value the provider does not know is not refused *)
Lemma unknown_scopes_dropped : op_deny_unknown_scopes = false.
Proof. reflexivity. Qed.
