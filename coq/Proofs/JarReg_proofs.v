(* Proofs/JarReg_proofs.v — registration histories (Model/JarReg.v): after any history of registrations, the key jar
   entry and the record of a client id are those of the LATEST accepted registration under it; composed with the
   soundness theorems of Proofs/Jar_proofs.v: an object that takes effect for the id verified under material of the
   registration in force, material of replaced registrations is refused. *)
From Coq Require Import String.
From Verif Require Import Lib.Base.
From Verif Require Import Lib.PyStr.
From Verif Require Import Lib.Crypto.
From Verif Require Import Model.Jar.
From Verif Require Import Model.JarCheck.
From Verif Require Import Model.JarReg.
From Verif Require Import Proofs.Jar_proofs.

(* ---- association lists under deletion / replacement *)
Lemma assoc_app_none {V} k (a b : list (pystr * V)) : assoc k a = None -> assoc k (a ++ b)%list = assoc k b.
Proof.
  induction a as [|[k' v] r IH]; cbn; auto. destruct (str_eqb k k'); [discriminate|auto].
Qed.
Lemma assoc_app_some {V} k (a b : list (pystr * V)) x : assoc k a = Some x -> assoc k (a ++ b)%list = Some x.
Proof.
  induction a as [|[k' v] r IH]; cbn; [discriminate|]. destruct (str_eqb k k'); auto.
Qed.
Lemma jar_del_same j cid : assoc cid (jar_del j cid) = None.
Proof.
  unfold jar_del. induction j as [|[k v] r IH]; cbn; auto.
  destruct (str_eqb cid k) eqn:E; cbn; auto. rewrite E. auto.
Qed.
Lemma jar_del_other j cid c : c <> cid -> assoc c (jar_del j cid) = assoc c j.
Proof.
  intro Hne. unfold jar_del. induction j as [|[k v] r IH]; cbn; auto.
  destruct (str_eqb cid k) eqn:E; cbn.
  - apply str_eqb_eq in E. subst k.
    assert (str_eqb c cid = false) as -> by (apply str_eqb_neq; auto). auto.
  - destruct (str_eqb c k); auto.
Qed.
Lemma jar_put_same j cid ks : assoc cid (jar_put j cid ks) = Some ks.
Proof.
  unfold jar_put. rewrite assoc_app_none by apply jar_del_same. cbn. now rewrite str_eqb_refl.
Qed.
Lemma jar_put_other j cid ks c : c <> cid -> assoc c (jar_put j cid ks) = assoc c j.
Proof.
  intro Hne. unfold jar_put. destruct (assoc c (jar_del j cid)) eqn:E.
  - rewrite (assoc_app_some _ _ _ _ E). rewrite <- E. now apply jar_del_other.
  - rewrite assoc_app_none by auto. cbn.
    assert (str_eqb c cid = false) as -> by (apply str_eqb_neq; auto).
    rewrite <- E. now apply jar_del_other.
Qed.

Lemma find_client_app_none a b c : find_client a c = None -> find_client (a ++ b)%list c = find_client b c.
Proof.
  induction a as [|x r IH]; cbn; auto. destruct (str_eqb c (c_id x)); [discriminate|auto].
Qed.
Lemma find_client_app_some a b c x : find_client a c = Some x -> find_client (a ++ b)%list c = Some x.
Proof.
  induction a as [|y r IH]; cbn; [discriminate|]. destruct (str_eqb c (c_id y)); auto.
Qed.
Lemma cl_put_same cs ci : find_client (cl_put cs ci) (c_id ci) = Some ci.
Proof.
  unfold cl_put. rewrite find_client_app_none.
  - cbn. now rewrite str_eqb_refl.
  - induction cs as [|x r IH]; cbn; auto.
    destruct (str_eqb (c_id ci) (c_id x)) eqn:E; cbn; auto. rewrite E. auto.
Qed.
Lemma cl_put_other cs ci c : c <> c_id ci -> find_client (cl_put cs ci) c = find_client cs c.
Proof.
  intro Hne. unfold cl_put.
  assert (F : find_client (filter (fun x => negb (str_eqb (c_id ci) (c_id x))) cs) c = find_client cs c).
  { induction cs as [|x r IH]; cbn; auto.
    destruct (str_eqb (c_id ci) (c_id x)) eqn:E; cbn.
    - apply str_eqb_eq in E. rewrite <- E.
      assert (str_eqb c (c_id ci) = false) as -> by (apply str_eqb_neq; auto). auto.
    - destruct (str_eqb c (c_id x)); auto. }
  destruct (find_client cs c) eqn:E.
  - now apply find_client_app_some.
  - rewrite find_client_app_none by auto. cbn.
    assert (str_eqb c (c_id ci) = false) as -> by (apply str_eqb_neq; auto). reflexivity.
Qed.

(* ---- one step *)
Lemma reregister_stored g s g' ci :
  reregister g s = RegStored g' ci ->
  accepted s = true /\ ci = with_reg (rq_rest (rs_rq s)) (negotiate g (rq_alg (rs_rq s))) /\
  c_id ci = step_id s /\ g' = put_client g ci (material (rs_mat s)).
Proof.
  unfold reregister, accepted. destruct (rq_ok (rs_rq s)); cbn [negb andb]; [|discriminate].
  destruct (step_id s) eqn:E; [discriminate|]. intro H. inversion H. subst.
  repeat split; auto.
Qed.
Lemma reregister_not_stored g s : accepted s = false -> forall g' ci, reregister g s <> RegStored g' ci.
Proof.
  intros Ha g' ci H. apply reregister_stored in H as [H _]. congruence.
Qed.
Lemma reregister_accepted g s : accepted s = true ->
  exists g' ci, reregister g s = RegStored g' ci.
Proof.
  unfold reregister, accepted. destruct (rq_ok (rs_rq s)); cbn [negb andb]; [|discriminate].
  destruct (step_id s); [discriminate|]. eauto.
Qed.

Lemma negotiate_prov g g' a : prov_algs g' = prov_algs g -> negotiate g' a = negotiate g a.
Proof. unfold negotiate. now intros ->. Qed.

(* ---- the provider's settings never change over a history *)
Lemma after_frame h : forall g,
  prov_algs (after g h) = prov_algs g /\ hooks (after g h) = hooks g /\ par_hooks (after g h) = par_hooks g /\
  methods (after g h) = methods g /\ oidc (after g h) = oidc g /\ ttl (after g h) = ttl g.
Proof.
  induction h as [|s r IH]; intro g; cbn; [tauto|].
  destruct (reregister g s) as [|g' ci|] eqn:E; auto.
  apply reregister_stored in E as [_ [_ [_ ->]]].
  destruct (IH (put_client g ci (material (rs_mat s)))) as (A & B & C & D & F & G). cbn in *. tauto.
Qed.

Lemma latest_from_split h cid : forall cur,
  latest_from h cid cur = match latest_from h cid None with Some s => Some s | None => cur end.
Proof.
  induction h as [|s r IH]; intro cur; cbn; auto.
  destruct (accepted s && str_eqb cid (step_id s)).
  - rewrite (IH (Some s)). destruct (latest_from r cid None); auto.
  - apply IH.
Qed.

(* ---- the key jar entry and the record of an id after a history *)
Theorem history_jar h : forall g cid,
  assoc cid (jar (after g h)) =
  match latest h cid with Some s => Some (material (rs_mat s)) | None => assoc cid (jar g) end.
Proof.
  unfold latest. induction h as [|s r IH]; intros g cid; cbn; auto.
  destruct (accepted s) eqn:Ha; cbn [andb].
  - destruct (reregister_accepted g s Ha) as [g' [ci E]]. rewrite E.
    apply reregister_stored in E as [_ [_ [Hid ->]]].
    rewrite IH. rewrite (latest_from_split r cid (if str_eqb cid (step_id s) then Some s else None)).
    destruct (latest_from r cid None); auto. cbn [jar put_client]. rewrite Hid.
    destruct (str_eqb cid (step_id s)) eqn:Es.
    + apply str_eqb_eq in Es. subst cid. now rewrite jar_put_same.
    + apply str_eqb_neq in Es. now apply jar_put_other.
  - destruct (reregister g s) as [|g' ci|] eqn:E; auto.
    exfalso. eapply reregister_not_stored; eauto.
Qed.

Theorem history_client h : forall g cid,
  find_client (clients (after g h)) cid =
  match latest h cid with
  | Some s => Some (with_reg (rq_rest (rs_rq s)) (negotiate g (rq_alg (rs_rq s))))
  | None => find_client (clients g) cid
  end.
Proof.
  unfold latest. induction h as [|s r IH]; intros g cid; cbn; auto.
  destruct (accepted s) eqn:Ha; cbn [andb].
  - destruct (reregister_accepted g s Ha) as [g' [ci E]]. rewrite E.
    apply reregister_stored in E as [_ [Hci [Hid ->]]].
    rewrite IH. rewrite (latest_from_split r cid (if str_eqb cid (step_id s) then Some s else None)).
    destruct (latest_from r cid None).
    + reflexivity.
    + cbn [clients put_client].
      destruct (str_eqb cid (step_id s)) eqn:Es.
      * apply str_eqb_eq in Es. subst cid. rewrite <- Hid. rewrite cl_put_same. now rewrite Hci.
      * apply str_eqb_neq in Es. apply cl_put_other. now rewrite Hid.
  - destruct (reregister g s) as [|g' ci|] eqn:E; auto.
    exfalso. eapply reregister_not_stored; eauto.
Qed.

(* no registration is filed under the empty issuer id: the provider's own keys are untouched *)
Lemma latest_from_empty h : latest_from h [] None = None.
Proof.
  induction h as [|s r IH]; cbn; auto.
  unfold accepted. destruct (step_id s) eqn:E.
  - rewrite andb_false_r. cbn. auto.
  - replace (str_eqb [] (n :: l)) with false by reflexivity. rewrite andb_false_r. auto.
Qed.
Theorem history_own_keys h g k : own_keys (jar (after g h)) k = own_keys (jar g) k.
Proof.
  unfold own_keys, keys_of. rewrite history_jar. unfold latest. now rewrite latest_from_empty.
Qed.

(* the guard of the soundness theorems survives a history *)
Lemma put_client_wf g ci ks : cfg_wf g = true -> c_id ci <> [] -> cfg_wf (put_client g ci ks) = true.
Proof.
  intros Hwf Hid. unfold cfg_wf in *. cbn. repeat (apply andb_true_iff in Hwf as [Hwf ?]).
  repeat (apply andb_true_iff; split); auto.
  unfold cl_put. rewrite forallb_app. apply andb_true_iff; split.
  - rewrite forallb_forall in *. intros x Hx. apply filter_In in Hx as [Hx _]. auto.
  - cbn. destruct (c_id ci); [contradiction|reflexivity].
Qed.
Theorem history_wf h : forall g, cfg_wf g = true -> cfg_wf (after g h) = true.
Proof.
  induction h as [|s r IH]; intros g Hwf; cbn; auto.
  destruct (reregister g s) as [|g' ci|] eqn:E; auto.
  apply reregister_stored in E as [Ha [_ [Hid ->]]]. apply IH. apply put_client_wf; auto.
  rewrite Hid. unfold accepted in Ha. apply andb_true_iff in Ha as [_ Ha].
  destruct (step_id s); [discriminate|discriminate].
Qed.

(* keys_of reads the entry *)
Lemma kty_eqb_true a b : kty_eqb a b = true -> a = b.
Proof. destruct a, b; cbn; congruence. Qed.
Lemma keys_of_in j i k ks n : keys_of j i k = Some ks -> In n ks -> exists l, assoc i j = Some l /\ In (k, n) l.
Proof.
  unfold keys_of. destruct (assoc i j) as [l|]; [|discriminate]. intro H. inversion H. subst ks. clear H.
  intro Hin. apply in_map_iff in Hin as [[k' n'] [E Hin]]. cbn in E. subst n'.
  apply filter_In in Hin as [Hin Hk]. cbn in Hk. apply kty_eqb_true in Hk. subst k'. eauto.
Qed.

(* ---- the registration in force decides: over every history of registrations and every later sequence of
   authorization / PAR operations, an object whose parameters take effect for cid verified under material of the
   LATEST accepted registration under cid (or a symmetric key of the provider itself) *)
Theorem history_latest_material g h d t0 ops cid s : cfg_wf g = true -> latest h cid = Some s ->
  Forall (fun sr => forall r via v n, snd sr = RAuthz (Acc r) via -> r_vr r = Some v ->
            assoc k_client_id (r_params r) = Some (PS_ cid) -> v_key v = Some n ->
            exists kt, alg_kind (v_alg v) = AlgK kt /\
                       (In (kt, n) (material (rs_mat s)) \/ (kt = KOct /\ In n (own_keys (jar g) KOct))))
         (run (after g h) d (init t0) ops).
Proof.
  intros Hwf Hl. pose proof (cross_client_all (after g h) d t0 ops (history_wf h g Hwf)) as A.
  eapply Forall_impl; [|exact A]. cbv beta. intros sr Hsr r via v n H1 H2 Hc Hk.
  destruct (Hsr r via v cid H1 H2 Hc) as [_ [_ Hkey]].
  destruct (Hkey n Hk) as [kt [Hkt [[ks [Hks Hin]]|[Ho Hin]]]]; exists kt; split; auto.
  - left. destruct (keys_of_in _ _ _ _ _ Hks Hin) as [l [Hl' Hin']].
    rewrite history_jar, Hl in Hl'. inversion Hl'. now subst l.
  - right. split; auto. now rewrite history_own_keys in Hin.
Qed.

(* ... so material of a replaced registration (any key number that the registration in force does not bring and that
   is not a symmetric key of the provider) never makes an object take effect for cid *)
Theorem history_superseded_refused g h d t0 ops cid s n : cfg_wf g = true -> latest h cid = Some s ->
  ~ In n (List.map snd (material (rs_mat s))) -> ~ In n (own_keys (jar g) KOct) ->
  Forall (fun sr => forall r via v, snd sr = RAuthz (Acc r) via -> r_vr r = Some v ->
            assoc k_client_id (r_params r) = Some (PS_ cid) -> v_key v <> Some n)
         (run (after g h) d (init t0) ops).
Proof.
  intros Hwf Hl Hn Ho. pose proof (history_latest_material g h d t0 ops cid s Hwf Hl) as A.
  eapply Forall_impl; [|exact A]. cbv beta. intros sr Hsr r via v H1 H2 Hc Hk.
  destruct (Hsr r via v n H1 H2 Hc Hk) as [kt [_ [Hin|[_ Hin]]]]; auto.
  apply Hn. apply in_map_iff. exists (kt, n). auto.
Qed.

(* the algorithm permitted for cid is the one of the registration in force, too: what an earlier registration under
   the id asked for is gone with its record *)
Theorem history_alg_in_force g h d t0 ops cid s : cfg_wf g = true -> latest h cid = Some s ->
  Forall (fun sr => forall r via v, snd sr = RAuthz (Acc r) via -> r_vr r = Some v ->
            assoc k_client_id (r_params r) = Some (PS_ cid) ->
            match negotiate g (rq_alg (rs_rq s)) with
            | RStr a => v_alg v = a
            | RAbsent => In (v_alg v) (prov_algs g)
            | RList l => In (v_alg v) l
            end)
         (run (after g h) d (init t0) ops).
Proof.
  intros Hwf Hl. pose proof (authenticated_all (after g h) d t0 ops (history_wf h g Hwf)) as A.
  eapply Forall_impl; [|exact A]. cbv beta. intros sr Hsr r via v H1 H2 Hc.
  destruct (Hsr r via v H1 H2) as [c0 [ci0 [Hf0 [Hc0 [Hall _]]]]].
  assert (c0 = cid) by congruence. subst c0.
  rewrite history_client, Hl in Hf0. inversion Hf0. subst ci0. clear Hf0.
  unfold allowed in Hall. cbn [c_reg with_reg] in Hall.
  destruct (after_frame h g) as [Hp _]. rewrite Hp in Hall.
  destruct (negotiate g (rq_alg (rs_rq s))).
  - now apply str_in_In.
  - now apply str_eqb_eq.
  - now apply str_in_In.
Qed.

(* a history whose registrations under cid were all refused registers nothing under it *)
Theorem history_none_in_force g h cid : latest h cid = None ->
  find_client (clients (after g h)) cid = find_client (clients g) cid /\ assoc cid (jar (after g h)) = assoc cid (jar g).
Proof. intro Hl. now rewrite history_client, history_jar, Hl. Qed.
