(* Proofs/Jar_proofs.v — lemmas about Model/Jar.v (property C16). *)
From Coq Require Import String.
From Verif Require Import Lib.Base.
From Verif Require Import Lib.PyStr.
From Verif Require Import Lib.Crypto.
From Verif Require Import Model.Jar.
From Verif Require Import Model.JarCheck.

(* ================================================================ association lists *)
Lemma assoc_In' {V} k (d : list (pystr * V)) v : assoc k d = Some v -> In (k, v) d.
Proof.
  induction d as [|[k' v'] r IH]; cbn; [discriminate|].
  destruct (str_eqb k k') eqn:E.
  - intro H; inversion H; subst. apply str_eqb_eq in E; subst. now left.
  - intro H. right. now apply IH.
Qed.
Lemma has_key_assoc {V} k (d : list (pystr * V)) : has_key k d = true <-> exists v, assoc k d = Some v.
Proof.
  unfold has_key. destruct (assoc k d) as [v|]; split; intro H; eauto; try discriminate.
  destruct H as [v H]. discriminate.
Qed.
Lemma has_key_false {V} k (d : list (pystr * V)) : has_key k d = false <-> assoc k d = None.
Proof. unfold has_key. destruct (assoc k d); split; intro H; congruence. Qed.

Lemma in_aset {V} k (v : V) d x : In x (aset k v d) -> x = (k, v) \/ In x d.
Proof.
  induction d as [|[k' v'] r IH]; cbn.
  - intros [H|[]]; auto.
  - destruct (str_eqb k k') eqn:E; cbn.
    + apply str_eqb_eq in E; subst k'. intros [H|H]; auto.
    + intros [H|H]; auto. destruct (IH H); auto.
Qed.
Lemma in_adel {V} k (d : list (pystr * V)) x : In x (adel k d) -> In x d.
Proof.
  induction d as [|[k' v'] r IH]; cbn; [tauto|].
  destruct (str_eqb k k'); cbn; intros H; auto. destruct H; auto.
Qed.
Lemma keys_aset {V} k (v : V) d :
  List.map fst (aset k v d) = List.map fst d \/ (~ In k (List.map fst d) /\ List.map fst (aset k v d) = (List.map fst d ++ [k])%list).
Proof.
  induction d as [|[k' v'] r IH]; cbn.
  - right. split; auto.
  - destruct (str_eqb k k') eqn:E; cbn.
    + left. reflexivity.
    + destruct IH as [IH|[IH1 IH2]].
      * left. now rewrite IH.
      * right. split; [|now rewrite IH2]. intros [H|H]; [|contradiction].
        subst k'. rewrite str_eqb_refl in E. discriminate.
Qed.
Lemma nodup_snoc {A} (l : list A) x : NoDup l -> ~ In x l -> NoDup (l ++ [x])%list.
Proof.
  induction l as [|a r IH]; cbn; intros H N.
  - constructor; auto.
  - inversion H; subst. constructor.
    + intro Hin. apply in_app_or in Hin as [Hin|[Hin|[]]]; [contradiction|subst; apply N; now left].
    + apply IH; auto.
Qed.
Lemma nodup_aset {V} k (v : V) d : NoDup (List.map fst d) -> NoDup (List.map fst (aset k v d)).
Proof.
  intro H. destruct (keys_aset k v d) as [E|[N E]]; rewrite E; auto.
  now apply nodup_snoc.
Qed.
Lemma keys_adel_incl {V} k (d : list (pystr * V)) x : In x (List.map fst (adel k d)) -> In x (List.map fst d).
Proof.
  induction d as [|[k' v'] r IH]; cbn; [tauto|].
  destruct (str_eqb k k'); cbn; intros H; auto. destruct H; auto.
Qed.
Lemma nodup_adel {V} k (d : list (pystr * V)) : NoDup (List.map fst d) -> NoDup (List.map fst (adel k d)).
Proof.
  induction d as [|[k' v'] r IH]; cbn; [auto|].
  intro H. inversion H as [|? ? Hn Hr]; subst.
  destruct (str_eqb k k'); cbn; auto.
  constructor; auto. intro Hin. apply Hn. eapply keys_adel_incl; eauto.
Qed.
Lemma adel_removes {V} k (d : list (pystr * V)) : NoDup (List.map fst d) -> ~ In k (List.map fst (adel k d)).
Proof.
  induction d as [|[k' v'] r IH]; cbn; [tauto|].
  intro H. inversion H as [|? ? Hn Hr]; subst.
  destruct (str_eqb k k') eqn:E; cbn.
  - apply str_eqb_eq in E; subst. exact Hn.
  - intros [H1|H1]; [subst; rewrite str_eqb_refl in E; discriminate|]. now apply IH.
Qed.
Lemma assoc_in_keys {V} k (d : list (pystr * V)) v : assoc k d = Some v -> In k (List.map fst d).
Proof. intro H. apply assoc_In' in H. apply (in_map fst) in H. exact H. Qed.

(* ================================================================ parameter equality *)
Lemma pv_eqb_eq a b : pv_eqb a b = true <-> a = b.
Proof.
  destruct a as [x|x], b as [y|y]; cbn; split; intro H; try discriminate; try congruence.
  - apply str_eqb_eq in H. congruence.
  - inversion H. apply str_eqb_refl.
  - apply (list_eqb_eq str_eqb str_eqb_eq) in H. congruence.
  - inversion H. now apply (list_eqb_eq str_eqb str_eqb_eq).
Qed.
Lemma binding_eqb_eq a b : binding_eqb a b = true <-> a = b.
Proof.
  destruct a as [k v], b as [k' v']. unfold binding_eqb. cbn [fst snd].
  rewrite andb_true_iff, str_eqb_eq, pv_eqb_eq. split; [intros [-> ->]; reflexivity|intro H; inversion H; auto].
Qed.
Lemma params_eqb_eq a b : params_eqb a b = true <-> a = b.
Proof. apply list_eqb_eq. apply binding_eqb_eq. Qed.

(* ================================================================ dict.update / strict restriction *)
Lemma update_cons d kv rest : update d (kv :: rest) = update (aset (fst kv) (snd kv) d) rest.
Proof. reflexivity. Qed.

Lemma update_other k other : forall d, assoc k other = None -> assoc k (update d other) = assoc k d.
Proof.
  induction other as [|[k0 v0] rest IH]; intros d H; [reflexivity|].
  rewrite update_cons. cbn [fst snd]. cbn in H. destruct (str_eqb k k0) eqn:E; [discriminate|].
  rewrite IH by exact H. apply assoc_aset_other. intro Heq; subst. rewrite str_eqb_refl in E. discriminate.
Qed.
Lemma update_get k x other : forall d, nodup_keys other = true -> assoc k other = Some x -> assoc k (update d other) = Some x.
Proof.
  induction other as [|[k0 v0] rest IH]; intros d Hn H; [discriminate|].
  rewrite update_cons. cbn [fst snd]. cbn in H, Hn. apply andb_true_iff in Hn as [Hn1 Hn2].
  destruct (str_eqb k k0) eqn:E.
  - inversion H; subst. apply str_eqb_eq in E; subst k0.
    rewrite update_other.
    + apply assoc_aset_same.
    + apply has_key_false. now apply negb_true_iff in Hn1.
  - now apply IH.
Qed.
Lemma update_keys k other : forall d, has_key k (update d other) = true -> has_key k d = true \/ has_key k other = true.
Proof.
  induction other as [|[k0 v0] rest IH]; intros d H; [left; exact H|].
  rewrite update_cons in H. cbn [fst snd] in H. apply IH in H. destruct H as [H|H].
  - destruct (str_eqb k k0) eqn:E.
    + right. unfold has_key. cbn. now rewrite E.
    + left. unfold has_key in *. rewrite assoc_aset_other in H; auto.
      intro Heq; subst. rewrite str_eqb_refl in E. discriminate.
  - right. unfold has_key in *. cbn. destruct (str_eqb k k0); auto.
Qed.
Lemma restrict_keys k d obj : has_key k (restrict d obj) = true -> has_key k obj = true.
Proof.
  unfold restrict. induction d as [|[k0 v0] r IH]; cbn; [discriminate|].
  destruct (has_key k0 obj) eqn:E; cbn; auto.
  unfold has_key at 1. cbn. destruct (str_eqb k k0) eqn:E2.
  - apply str_eqb_eq in E2; subst. now intros _.
  - exact IH.
Qed.

(* ================================================================ key selection and signature verification *)
Definition key_for (g : cfg) (i : pystr) (kt : kty) (n : nat) : Prop :=
  (exists ks, keys_of (jar g) i kt = Some ks /\ In n ks) \/ (kt = KOct /\ In n (own_keys (jar g) KOct)).

Lemma try_verify_ok cands alg claims sg n :
  try_verify cands alg claims sg = VOk n ->
  In n cands /\ exists s, sg = Some s /\ s_key s = n /\ s_alg s = alg /\ s_claims s = claims.
Proof.
  unfold try_verify.
  set (picked := match kid_of sg with Some k => filter (Nat.eqb k) cands | None => cands end).
  assert (Hsub : forall x, In x picked -> In x cands).
  { subst picked. destruct (kid_of sg); auto. intros x Hx. apply filter_In in Hx. tauto. }
  destruct picked as [|p ps] eqn:Ep; [discriminate|].
  destruct sg as [s|]; [|discriminate].
  destruct (existsb (Nat.eqb (s_key s)) (p :: ps) && str_eqb (s_alg s) alg && params_eqb (s_claims s) claims) eqn:E; [|discriminate].
  intro H; inversion H; subst n.
  apply andb_true_iff in E as [E E3]. apply andb_true_iff in E as [E1 E2].
  apply existsb_exists in E1 as [x [Hx1 Hx2]]. apply Nat.eqb_eq in Hx2. subst x.
  apply str_eqb_eq in E2. apply params_eqb_eq in E3.
  split; [now apply Hsub|]. exists s. auto.
Qed.

Lemma lookup_keys_for g i kt kid cands n :
  lookup_keys g (Some i) kt kid = Some cands -> In n cands -> key_for g i kt n.
Proof.
  unfold lookup_keys. destruct (keys_of (jar g) i kt) as [ks|] eqn:E; [|discriminate].
  intro H; inversion H; subst cands. clear H. intro Hin. apply in_app_or in Hin as [Hin|Hin].
  - left. exists ks. split; auto. destruct kid as [m|].
    + apply filter_In in Hin. tauto.
    + destruct ks as [|x [|y r]]; cbn in Hin; try contradiction. destruct Hin as [->|[]]. now left.
  - right. destruct kt; try contradiction. auto.
Qed.

Lemma iss_for_named claims fb i : assoc k_iss claims = Some (PS_ i) -> i <> [] -> iss_for claims fb = Some i.
Proof. unfold iss_for. intros -> H. destruct i; [congruence|reflexivity]. Qed.

(* what a verified request object is worth *)
Definition vr_ok (g : cfg) (v : vreq) : Prop :=
  claims_modelled (v_claims v) = true /\
  match v_key v with
  | None => alg_kind (v_alg v) = AlgNone
  | Some n => exists kt, alg_kind (v_alg v) = AlgK kt /\
                         forall i, assoc k_iss (v_claims v) = Some (PS_ i) -> i <> [] -> key_for g i kt n
  end.

Lemma from_jwt_ok g fb w v :
  from_jwt g fb w = FOk v ->
  exists alg claims sg, open_wrapper w = WObj alg claims sg /\ v_alg v = alg /\ v_claims v = claims /\ claims_modelled claims = true /\
    ((alg_kind alg = AlgNone /\ v_key v = None) \/
     (exists kt n s cands, alg_kind alg = AlgK kt /\ v_key v = Some n /\ sg = Some s /\ s_key s = n /\ s_alg s = alg
        /\ s_claims s = claims /\ lookup_keys g (iss_for claims fb) kt (kid_of sg) = Some cands /\ In n cands)).
Proof.
  unfold from_jwt. destruct (open_wrapper w) as [|alg claims sg|h i] eqn:Ew; [discriminate| |discriminate].
  destruct (claims_modelled claims) eqn:Em; cbn [negb]; [|discriminate].
  destruct (alg_kind alg) as [|kt|] eqn:Ea; [| |discriminate].
  - intro H; inversion H; subst. exists alg, claims, sg. cbn. repeat split; auto.
  - destruct (lookup_keys g (iss_for claims fb) kt (kid_of sg)) as [[|c cs]|] eqn:El; try discriminate.
    destruct (try_verify (c :: cs) alg claims sg) as [n| |] eqn:Et; try discriminate.
    intro H; inversion H; subst. apply try_verify_ok in Et as [Hin [s [Hs [Hk [Hal Hcl]]]]].
    exists alg, claims, sg. cbn. repeat split; auto. right. exists kt, n, s, (c :: cs). repeat split; auto.
Qed.

Lemma from_jwt_vr_ok g fb w v : from_jwt g fb w = FOk v -> vr_ok g v.
Proof.
  intro H. apply from_jwt_ok in H as [alg [claims [sg [Hw [Ha [Hc [Hm H]]]]]]].
  unfold vr_ok. rewrite Hc, Ha. split; auto.
  destruct H as [[H1 H2]|[kt [n [s [cands [H1 [H2 [H3 [H4 [H5 [H6 [H7 H8]]]]]]]]]]]].
  - now rewrite H2.
  - rewrite H2. exists kt. split; auto. intros i Hi Hne.
    rewrite (iss_for_named _ fb _ Hi Hne) in H7. eapply lookup_keys_for; eauto.
Qed.

Lemma claims_modelled_nodup c : claims_modelled c = true -> nodup_keys c = true.
Proof. unfold claims_modelled. intro H. repeat (apply andb_true_iff in H as [H ?]). exact H. Qed.

(* ================================================================ requests that carry a verified object *)
Definition req_ok (g : cfg) (r : req) : Prop :=
  forall v, r_vr r = Some v ->
    vr_ok g v /\ forall k x, assoc k (v_claims v) = Some x -> assoc k (r_params r) = Some x.
Definition store_ok (g : cfg) (st : state) : Prop :=
  forall u e, In (u, e) (par_db st) -> req_ok g (e_req e).

Lemma merged_ok g fb w v d : from_jwt g fb w = FOk v -> req_ok g {| r_params := update d (v_claims v); r_vr := Some v |}.
Proof.
  intros H v' Hv. cbn in Hv. inversion Hv; subst v'. pose proof (from_jwt_vr_ok _ _ _ _ H) as Hok.
  split; auto. intros k x Hk. cbn. apply update_get; auto. apply claims_modelled_nodup. apply Hok.
Qed.

Lemma fres_exc_verify_not_acc f r : fres_exc_verify f = Acc r -> False.
Proof. destruct f; cbn; discriminate. Qed.

Lemma merge_obj_ok strict g p w r :
  merge_obj strict g p w = Acc r ->
  req_ok g r /\
  (r_vr r = None -> r_params r = p) /\
  (forall v, r_vr r = Some v -> exists w', w = Some w' /\ from_jwt g None w' = FOk v
       /\ r_params r = update (if strict then restrict p (v_claims v) else p) (v_claims v)).
Proof.
  unfold merge_obj. destruct (assoc k_request p) as [[s|l]|].
  - destruct w as [w'|]; [|discriminate]. destruct (from_jwt g None w') as [v| | | | | |] eqn:E; cbn; try discriminate.
    intro H; inversion H; subst r; clear H. split; [eapply merged_ok; eauto|]. split; [discriminate|].
    cbn. intros v0 Hv; inversion Hv; subst v0. exists w'. auto.
  - discriminate.
  - intro H; inversion H; subst r. split; [intros v Hv; discriminate|]. split; [reflexivity|]. cbn. discriminate.
Qed.

Lemma oidc_checks_acc r r' : oidc_checks r = Acc r' -> r' = r.
Proof.
  unfold oidc_checks. destruct (assoc k_response_type (r_params r)); [|discriminate].
  destruct (in_pv s_id_token (Some p)); [discriminate|].
  destruct (negb (in_pv s_openid (assoc k_scope (r_params r)))); [discriminate|].
  destruct (in_pv s_offline (assoc k_scope (r_params r))); [discriminate|].
  intro H; inversion H; reflexivity.
Qed.

Lemma verify_authz_acc g p w r :
  verify_authz g p w = Acc r -> merge_obj true g p w = Acc r.
Proof.
  unfold verify_authz. destruct (negb (outer_modelled p)); [discriminate|].
  destruct (missing_required (oidc g) p); [discriminate|].
  destruct (merge_obj true g p w) as [r0| | | |] eqn:E; try discriminate.
  destruct (oidc g); [|auto]. intro H. apply oidc_checks_acc in H. now subst.
Qed.

(* ---------------------------------------------------------------- distinct parameter names *)
Lemma k_redirect_ne_client : k_redirect_uri <> k_client_id.
Proof. intro H. vm_compute in H. discriminate. Qed.
Lemma k_client_ne_redirect : k_client_id <> k_redirect_uri.
Proof. intro H. vm_compute in H. discriminate. Qed.

(* ---------------------------------------------------------------- get_uri / post_parse *)
Lemma get_s_some k p s : get_s k p = Some s <-> assoc k p = Some (PS_ s).
Proof.
  unfold get_s. destruct (assoc k p) as [[x|x]|]; split; intro H; try discriminate; try congruence.
Qed.

Lemma get_uri_inl g r u :
  get_uri g r = inl u ->
  (exists c ci, assoc k_client_id (r_params r) = Some (PS_ c) /\ find_client (clients g) c = Some ci) /\
  (forall x, assoc k_redirect_uri (r_params r) = Some x -> x = PS_ u).
Proof.
  unfold get_uri. destruct (assoc k_redirect_uri (r_params r)) as [[u0|l]|] eqn:Er.
  - destruct (get_s k_client_id (r_params r)) as [c|] eqn:Ec; [|discriminate].
    apply get_s_some in Ec. destruct (find_client (clients g) c) as [ci|] eqn:Ef; [|discriminate].
    destruct (negb (simple_uri u0 && forallb simple_uri (c_redirect ci))); [discriminate|].
    intro H. assert (u = u0).
    { destruct (c_redirect ci) as [|a l].
      - destruct (oidc g); [discriminate|]. inversion H; auto.
      - destruct (str_in u0 (a :: l)); [|discriminate]. inversion H; auto. }
    subst u0. split; [eauto|]. intros x Hx. congruence.
  - discriminate.
  - destruct (assoc k_client_id (r_params r)) as [[c|l]|] eqn:Ec; try discriminate.
    destruct (find_client (clients g) c) as [ci|] eqn:Ef; [|discriminate].
    intro H. split; [eauto|]. intros x Hx. discriminate.
Qed.

Lemma get_uri_inr g r o r0 : get_uri g r = inr o -> o = Acc r0 -> False.
Proof.
  unfold get_uri. intros H Ho. subst o.
  repeat match goal with
  | H : context [match ?x with _ => _ end] |- _ => destruct x; try discriminate
  | H : context [if ?b then _ else _] |- _ => destruct b; try discriminate
  end.
Qed.

Lemma post_parse_acc g r cid r' :
  post_parse g r cid = Acc r' ->
  exists c ci u, cid = Some c /\ find_client (clients g) c = Some ci /\ get_uri g r = inl u /\
    r' = {| r_params := aset k_redirect_uri (PS_ u) (r_params r); r_vr := r_vr r |} /\
    (forall v, r_vr r = Some v -> belongs c r v = true /\ allowed g ci (v_alg v) = true).
Proof.
  unfold post_parse. destruct (r_params r) as [|b bs] eqn:Ep; [discriminate|]. rewrite <- Ep.
  destruct cid as [c|].
  2:{ destruct (has_key k_client_id (r_params r)); discriminate. }
  destruct (find_client (clients g) c) as [ci|] eqn:Ef.
  2:{ destruct (has_key k_client_id (r_params r)); discriminate. }
  destruct (negb match r_vr r with Some v => belongs c r v | None => true end) eqn:Eb; [discriminate|].
  destruct (negb match r_vr r with Some v => allowed g ci (v_alg v) | None => true end) eqn:Ea; [discriminate|].
  destruct (assoc k_response_type (r_params r)) as [[s|rt]|]; try discriminate.
  match goal with |- context [if ?b then _ else _] => destruct b end; [discriminate|].
  destruct (get_uri g r) as [u|o] eqn:Eu; [|intro H; exfalso; eapply get_uri_inr; eauto].
  intro H; inversion H; subst r'. exists c, ci, u. repeat split; auto.
  - apply negb_false_iff in Eb. rewrite H0 in Eb. exact Eb.
  - apply negb_false_iff in Ea. rewrite H0 in Ea. exact Ea.
Qed.

Lemma post_parse_req_ok g r cid r' : post_parse g r cid = Acc r' -> req_ok g r -> req_ok g r'.
Proof.
  intros H Hok. apply post_parse_acc in H as [c [ci [u [_ [_ [Hu [-> _]]]]]]].
  intros v Hv. cbn in Hv. destruct (Hok v Hv) as [H1 H2]. split; auto.
  intros k x Hk. cbn. specialize (H2 k x Hk).
  destruct (str_eqb_eq k_redirect_uri k) as [_ _].
  destruct (str_eqb k_redirect_uri k) eqn:E.
  - apply str_eqb_eq in E. subst k. apply get_uri_inl in Hu as [_ Hu]. rewrite (Hu _ H2). apply assoc_aset_same.
  - rewrite assoc_aset_other; auto. intro Heq. subst. rewrite str_eqb_refl in E. discriminate.
Qed.

(* ================================================================ _do_request_uri *)
Definition db_keys (st : state) : list pystr := List.map fst (par_db st).
Definition db_incl (st' st : state) : Prop := forall x, In x (par_db st') -> In x (par_db st).

Lemma db_incl_keys st' st u : db_incl st' st -> In u (db_keys st') -> In u (db_keys st).
Proof.
  unfold db_keys. intros H Hin. apply in_map_iff in Hin as [[u' e] [E Hin]]. cbn in E. subst u'.
  apply H in Hin. apply (in_map fst) in Hin. exact Hin.
Qed.
Lemma store_ok_incl g st' st : db_incl st' st -> store_ok g st -> store_ok g st'.
Proof. intros H Hs u e Hin. eapply Hs. apply H. exact Hin. Qed.

Ltac dru_cases H :=
  unfold do_request_uri in H;
  repeat match type of H with
  | context [match ?x with _ => _ end] => destruct x eqn:?
  | context [if ?b then _ else _] => destruct b eqn:?
  end; inversion H; subst; clear H.

Lemma dru_frame g d st r cid st' o via :
  do_request_uri g d st r cid = (st', o, via) ->
  now st' = now st /\ db_incl st' st /\ (NoDup (db_keys st) -> NoDup (db_keys st')).
Proof.
  intro H. dru_cases H; unfold db_incl, db_keys; cbn; repeat split; auto;
    try (intros x Hx; eapply in_adel; eauto); try (intro Hn; now apply nodup_adel).
Qed.

Lemma dru_via g d st r cid st' o u :
  do_request_uri g d st r cid = (st', o, Some u) ->
  exists e, In (u, e) (par_db st) /\ (now st <= e_exp e)%Z /\ o = Acc (e_req e)
            /\ assoc k_request_uri (r_params r) = Some (PS_ u)
            /\ (NoDup (db_keys st) -> ~ In u (db_keys st')).
Proof.
  intro H. dru_cases H.
  match goal with H : assoc _ (par_db st) = Some ?e |- _ => exists e; pose proof (assoc_In' _ _ _ H) end.
  repeat split; auto.
  - match goal with H : (_ <? _)%Z = false |- _ => apply Z.ltb_ge in H; exact H end.
  - unfold db_keys. cbn. intro Hn. now apply adel_removes.
Qed.

Lemma reverify_acc g m r' : reverify g m = Acc r' -> r' = m.
Proof.
  unfold reverify. destruct (missing_required (oidc g) (r_params m)); [discriminate|].
  destruct (oidc g); [apply oidc_checks_acc|]. intro H. now inversion H.
Qed.
Lemma dru_req_ok g d st r cid st' r' via :
  do_request_uri g d st r cid = (st', Acc r', via) -> store_ok g st -> req_ok g r -> req_ok g r'.
Proof.
  intros H Hs Hr. dru_cases H; auto.
  - match goal with H : assoc _ (par_db st) = Some ?e |- _ => apply assoc_In' in H; eapply Hs; eauto end.
  - match goal with H : reverify _ _ = Acc _ |- _ => apply reverify_acc in H; subst end. eapply merged_ok; eauto.
Qed.

(* ================================================================ the hook loop *)
Lemma par_request_uri_acc r r' : par_request_uri r = Acc r' -> r' = r.
Proof.
  unfold par_request_uri. destruct (assoc k_request_uri (r_params r)) as [[[|c s]|[|c l]]|]; intro H; inversion H; auto.
Qed.

Lemma rh_frame g d cid : forall hs st r via st' o via',
  run_hooks g d hs st r cid via = (st', o, via') ->
  now st' = now st /\ db_incl st' st /\ (NoDup (db_keys st) -> NoDup (db_keys st')).
Proof.
  induction hs as [|h rest IH]; intros st r via st' o via' H; cbn in H.
  - inversion H; subst. repeat split; auto. intros x Hx; exact Hx.
  - destruct h.
    + destruct (do_request_uri g d st r cid) as [[st1 o1] v1] eqn:E.
      apply dru_frame in E as [E1 [E2 E3]].
      destruct o1; try (inversion H; subst; repeat split; auto; fail).
      apply IH in H as [G1 [G2 G3]]. repeat split; [congruence| |auto].
      intros x Hx. apply E2, G2, Hx.
    + destruct (par_request_uri r); try (inversion H; subst; repeat split; auto; intros x Hx; exact Hx).
      apply IH in H. exact H.
    + destruct (post_parse g r cid); try (inversion H; subst; repeat split; auto; intros x Hx; exact Hx).
      apply IH in H. exact H.
    + inversion H; subst. repeat split; auto. intros x Hx; exact Hx.
Qed.

Lemma rh_req_ok g d cid : forall hs st r via st' r' via',
  run_hooks g d hs st r cid via = (st', Acc r', via') -> store_ok g st -> req_ok g r -> req_ok g r'.
Proof.
  induction hs as [|h rest IH]; intros st r via st' r' via' H Hs Hr; cbn in H.
  - inversion H; subst. exact Hr.
  - destruct h.
    + destruct (do_request_uri g d st r cid) as [[st1 o1] v1] eqn:E.
      destruct o1; try discriminate.
      pose proof (dru_req_ok _ _ _ _ _ _ _ _ E Hs Hr) as Hr1.
      apply dru_frame in E as [_ [E2 _]].
      eapply IH; eauto. eapply store_ok_incl; eauto.
    + destruct (par_request_uri r) eqn:E; try discriminate.
      apply par_request_uri_acc in E. subst. eapply IH; eauto.
    + destruct (post_parse g r cid) eqn:E; try discriminate.
      eapply IH; eauto. eapply post_parse_req_ok; eauto.
    + discriminate.
Qed.

Lemma rh_via g d cid : forall hs st r via st' o u,
  run_hooks g d hs st r cid via = (st', o, Some u) ->
  via = Some u \/
  exists e, In (u, e) (par_db st) /\ (now st <= e_exp e)%Z /\ (NoDup (db_keys st) -> ~ In u (db_keys st')).
Proof.
  induction hs as [|h rest IH]; intros st r via st' o u H; cbn in H.
  - inversion H; subst. now left.
  - destruct h.
    + destruct (do_request_uri g d st r cid) as [[st1 o1] v1] eqn:E.
      destruct o1; try discriminate.
      pose proof (dru_frame _ _ _ _ _ _ _ _ E) as [F1 [F2 F3]].
      pose proof (rh_frame _ _ _ _ _ _ _ _ _ _ H) as [G1 [G2 G3]].
      apply IH in H. destruct H as [H|[e [H1 [H2 H3]]]].
      * destruct v1 as [u1|]; [|now left]. inversion H; subst u1.
        apply dru_via in E as [e [E1 [E2 [_ [_ E5]]]]]. right. exists e. repeat split; auto.
        intros Hn Hin. apply (E5 Hn). eapply db_incl_keys; eauto.
      * right. exists e. repeat split; [apply F2; exact H1|rewrite <- F1; exact H2|].
        intros Hn. apply H3. now apply F3.
    + destruct (par_request_uri r) eqn:E; try discriminate. eapply IH; eauto.
    + destruct (post_parse g r cid) eqn:E; try discriminate. eapply IH; eauto.
    + discriminate.
Qed.

Lemma rh_last g d cid : forall pre st r via st' r' via',
  run_hooks g d (pre ++ [HPostParse]) st r cid via = (st', Acc r', via') ->
  exists st0 r0 via0, run_hooks g d pre st r cid via = (st0, Acc r0, via0) /\ post_parse g r0 cid = Acc r' /\ st' = st0.
Proof.
  induction pre as [|h rest IH]; intros st r via st' r' via' H.
  - cbn in H. destruct (post_parse g r cid) eqn:E; try discriminate. inversion H; subst.
    exists st', r, via'. cbn. auto.
  - cbn in H. cbn [run_hooks]. destruct h.
    + destruct (do_request_uri g d st r cid) as [[st1 o1] v1] eqn:E. destruct o1; try discriminate.
      apply IH in H. exact H.
    + destruct (par_request_uri r) eqn:E; try discriminate. apply IH in H. exact H.
    + destruct (post_parse g r cid) eqn:E; try discriminate. apply IH in H. exact H.
    + discriminate.
Qed.

(* ================================================================ the authorization endpoint *)
Definition hooks_end_post (g : cfg) : Prop := exists pre, hooks g = (pre ++ [HPostParse])%list.
Definition wf_clients (g : cfg) : Prop := forall ci, In ci (clients g) -> c_id ci <> [].

Lemma find_client_In cs c ci : find_client cs c = Some ci -> In ci cs /\ c_id ci = c.
Proof.
  induction cs as [|x r IH]; cbn; [discriminate|].
  destruct (str_eqb c (c_id x)) eqn:E.
  - intro H; inversion H; subst. apply str_eqb_eq in E. auto.
  - intro H. apply IH in H. tauto.
Qed.

Lemma authz_parse_cases g d st outer w st' o via :
  authz_parse g d st outer w = (st', o, via) ->
  (st' = st /\ via = None /\ forall r, o <> Acc r) \/
  (exists p cid r1, verify_authz g p w = Acc r1 /\ run_hooks g d (hooks g) st r1 cid None = (st', o, via)).
Proof.
  unfold authz_parse. intro H.
  destruct (authn_loop g (methods g) outer w) as [c m| | |t| |].
  - match type of H with context [verify_authz g ?p w] => destruct (verify_authz g p w) eqn:E end;
      try (left; inversion H; subst; repeat split; auto; intros r0; discriminate).
    right. eauto.
  - destruct (methods_configured g).
    + left. inversion H; subst. repeat split; auto. intros r0; discriminate.
    + match type of H with context [verify_authz g ?p w] => destruct (verify_authz g p w) eqn:E end;
        try (left; inversion H; subst; repeat split; auto; intros r0; discriminate).
      right. eauto.
  - match type of H with context [verify_authz g ?p w] => destruct (verify_authz g p w) eqn:E end;
      try (left; inversion H; subst; repeat split; auto; intros r0; discriminate).
    right. eauto.
  - left. inversion H; subst. repeat split; auto. intros r0; discriminate.
  - left. inversion H; subst. repeat split; auto. intros r0; discriminate.
  - left. inversion H; subst. repeat split; auto. intros r0; discriminate.
Qed.

Lemma authz_frame g d st outer w st' o via :
  authz_parse g d st outer w = (st', o, via) ->
  now st' = now st /\ db_incl st' st /\ (NoDup (db_keys st) -> NoDup (db_keys st')).
Proof.
  intro H. apply authz_parse_cases in H as [[-> _]|[p [cid [r1 [_ H]]]]].
  - repeat split; auto. intros x Hx; exact Hx.
  - eapply rh_frame; eauto.
Qed.

Lemma authz_via g d st outer w st' o u :
  authz_parse g d st outer w = (st', o, Some u) ->
  exists e, In (u, e) (par_db st) /\ (now st <= e_exp e)%Z /\ (NoDup (db_keys st) -> ~ In u (db_keys st')).
Proof.
  intro H. apply authz_parse_cases in H as [[_ [H _]]|[p [cid [r1 [_ H]]]]]; [discriminate|].
  apply rh_via in H as [H|H]; [discriminate|exact H].
Qed.

(* what "authenticated before it takes effect" means for an accepted request r carrying the verified object v *)
Definition authenticated (g : cfg) (r : req) (v : vreq) : Prop :=
  exists c ci,
    find_client (clients g) c = Some ci /\
    assoc k_client_id (r_params r) = Some (PS_ c) /\
    allowed g ci (v_alg v) = true /\
    (assoc k_client_id (v_claims v) = None \/ assoc k_client_id (v_claims v) = Some (PS_ c)) /\
    (assoc k_iss (v_claims v) = Some (PS_ c) \/ (assoc k_iss (v_claims v) = None /\ v_alg v = s_none)) /\
    match v_key v with
    | Some n => exists kt, alg_kind (v_alg v) = AlgK kt /\ key_for g c kt n
    | None => alg_kind (v_alg v) = AlgNone
    end /\
    (forall k x, assoc k (v_claims v) = Some x -> assoc k (r_params r) = Some x).

Lemma alg_kind_none a : alg_kind a = AlgNone <-> a = s_none.
Proof.
  unfold alg_kind. destruct (str_eqb a s_none) eqn:E.
  - apply str_eqb_eq in E. tauto.
  - apply str_eqb_neq in E. split; [|tauto].
    destruct (starts_with (PS "RS") a || starts_with (PS "PS") a); [discriminate|].
    destruct (starts_with (PS "HS") a); [discriminate|]. destruct (starts_with (PS "ES") a); discriminate.
Qed.

Lemma belongs_spec c r v :
  belongs c r v = true ->
  (assoc k_client_id (v_claims v) = None \/ assoc k_client_id (v_claims v) = Some (PS_ c)) /\
  (assoc k_client_id (r_params r) = None \/ assoc k_client_id (r_params r) = Some (PS_ c)) /\
  (assoc k_iss (v_claims v) = Some (PS_ c) \/ (assoc k_iss (v_claims v) = None /\ v_alg v = s_none)).
Proof.
  unfold belongs. intro H. apply andb_true_iff in H as [H H3]. apply andb_true_iff in H as [H1 H2].
  repeat split.
  - destruct (assoc k_client_id (v_claims v)); [right; apply pv_eqb_eq in H1; congruence|now left].
  - destruct (assoc k_client_id (r_params r)); [right; apply pv_eqb_eq in H2; congruence|now left].
  - destruct (assoc k_iss (v_claims v)); [left; apply pv_eqb_eq in H3; congruence|right].
    split; auto. rewrite negb_involutive in H3. now apply str_eqb_eq in H3.
Qed.

Theorem authz_authenticated g d st outer w st' r via :
  store_ok g st -> hooks_end_post g -> wf_clients g ->
  authz_parse g d st outer w = (st', Acc r, via) ->
  forall v, r_vr r = Some v -> authenticated g r v.
Proof.
  intros Hs [pre Hh] Hwf H v Hv.
  apply authz_parse_cases in H as [[_ [_ H]]|[p [cid [r1 [Hver H]]]]]; [exfalso; eapply H; eauto|].
  rewrite Hh in H. apply rh_last in H as [st0 [r0 [via0 [Hpre [Hpost _]]]]].
  assert (Hr1 : req_ok g r1) by (apply verify_authz_acc in Hver; apply merge_obj_ok in Hver; tauto).
  pose proof (rh_req_ok _ _ _ _ _ _ _ _ _ _ Hpre Hs Hr1) as Hr0.
  pose proof (post_parse_req_ok _ _ _ _ Hpost Hr0) as Hr.
  apply post_parse_acc in Hpost as [c [ci [u [_ [Hf [Hu [Er Hb]]]]]]].
  assert (Hv0 : r_vr r0 = Some v) by (subst r; exact Hv).
  destruct (Hb v Hv0) as [Hbel Hal]. apply belongs_spec in Hbel as [B1 [B2 B3]].
  destruct (Hr v Hv) as [[_ Hk] Hov].
  apply get_uri_inl in Hu as [[c' [ci' [Hc' _]]] _].
  assert (c' = c) by (destruct B2 as [B2|B2]; congruence). subst c'.
  exists c, ci. repeat split; auto.
  - subst r. cbn. rewrite assoc_aset_other; auto. apply k_redirect_ne_client.
  - destruct (v_key v) as [n|]; auto. destruct Hk as [kt [Hk1 Hk2]]. exists kt. split; auto.
    destruct B3 as [B3|[_ B3]].
    + apply Hk2; auto. apply find_client_In in Hf as [Hin Hid]. rewrite <- Hid. now apply Hwf.
    + apply alg_kind_none in B3. congruence.
Qed.

(* ================================================================ the pushed authorization endpoint *)
Lemma par_process_spec g st r w urn st' p :
  par_process g st r w urn = (st', p) ->
  (st' = st /\ ((exists t, p = PExc t) \/ p = PUnmodelled)) \/
  (exists s, merge_obj true g (r_params r) w = Acc s /\
             st' = {| par_db := aset urn {| e_req := s; e_exp := now st + ttl g |} (par_db st); now := now st |} /\
             (p = PUrn (ttl g) \/ p = PStoredExc x_key)).
Proof.
  unfold par_process. destruct (oidc g && missing_required true (r_params r)); [intro H; left; inversion H; subst; eauto|].
  destruct (merge_obj true g (r_params r) w) as [s| | | |] eqn:E; intro H.
  - destruct (par_class_checks g s) as [t|].
    + left. destruct t; inversion H; subst; eauto.
    + right. exists s. destruct (has_key k_redirect_uri (r_params s)); inversion H; subst; auto.
  - left. inversion H; subst. auto.
  - left. inversion H; subst. eauto.
  - left. inversion H; subst. eauto.
  - left. inversion H; subst. auto.
Qed.

Lemma step_store_ok g d st o st' res : store_ok g st -> step g d st o = (st', res) -> store_ok g st'.
Proof.
  intros Hs H. destruct o as [outer w|pusher body w urn|dt]; cbn in H.
  - destruct (authz_parse g d st outer w) as [[st1 out] via] eqn:E. inversion H; subst.
    apply authz_frame in E as [_ [E _]]. eapply store_ok_incl; eauto.
  - destruct (par_parse g st pusher body w) as [r| | | |] eqn:E; try (inversion H; subst; exact Hs).
    destruct (par_process g st r w urn) as [st1 p] eqn:Ep. inversion H; subst.
    apply par_process_spec in Ep as [[-> _]|[s [Hm [-> _]]]]; auto.
    intros u e Hin. cbn in Hin. apply in_aset in Hin as [Hin|Hin]; [|eapply Hs; eauto].
    inversion Hin; subst. cbn. apply merge_obj_ok in Hm. tauto.
  - inversion H; subst. exact Hs.
Qed.

Lemma step_frame g d st o st' res :
  step g d st o = (st', res) ->
  (forall u, In u (db_keys st') -> In u (db_keys st) \/ In u (pushed_urn o)) /\
  (NoDup (db_keys st) -> NoDup (db_keys st')) /\
  (forall u, In u (redeemed_of res) -> In u (db_keys st) /\ (NoDup (db_keys st) -> ~ In u (db_keys st'))).
Proof.
  intro H. destruct o as [outer w|pusher body w urn|dt]; cbn in H.
  - destruct (authz_parse g d st outer w) as [[st1 out] via] eqn:E. inversion H; subst.
    pose proof (authz_frame _ _ _ _ _ _ _ _ E) as [_ [F2 F3]]. repeat split; auto.
    + intros u Hu. left. eapply db_incl_keys; eauto.
    + destruct out; cbn in H0; try contradiction. destruct via as [u'|]; [|contradiction].
      destruct H0 as [->|[]]. apply authz_via in E as [e [E1 _]]. apply (in_map fst) in E1. exact E1.
    + destruct out; cbn in H0; try contradiction. destruct via as [u'|]; [|contradiction].
      destruct H0 as [->|[]]. apply authz_via in E as [e [_ [_ E3]]]. exact E3.
  - assert (Hno : forall u, In u (redeemed_of res) -> False).
    { destruct (par_parse g st pusher body w); try (inversion H; subst; cbn; tauto).
      destruct (par_process g st r w urn). inversion H; subst. cbn. tauto. }
    split; [|split]; [| |intros u Hu; exfalso; eapply Hno; eauto].
    + destruct (par_parse g st pusher body w) as [r| | | |]; try (inversion H; subst; auto; fail).
      destruct (par_process g st r w urn) as [st1 p] eqn:Ep. inversion H; subst.
      apply par_process_spec in Ep as [[-> _]|[s [_ [-> _]]]]; auto.
      intros u Hu. unfold db_keys in Hu. cbn in Hu.
      destruct (keys_aset urn {| e_req := s; e_exp := now st + ttl g |} (par_db st)) as [K|[_ K]]; rewrite K in Hu.
      * now left.
      * apply in_app_or in Hu as [Hu|[Hu|[]]]; [now left|right; cbn; auto].
    + destruct (par_parse g st pusher body w) as [r| | | |]; try (inversion H; subst; auto; fail).
      destruct (par_process g st r w urn) as [st1 p] eqn:Ep. inversion H; subst.
      apply par_process_spec in Ep as [[-> _]|[s [_ [-> _]]]]; auto.
      intro Hn. unfold db_keys. cbn. now apply nodup_aset.
  - inversion H; subst. unfold db_keys. cbn. repeat split; auto; contradiction.
Qed.

(* ================================================================ all histories *)
Lemma run_cons g d st o rest :
  run g d st (o :: rest) = (fst (step g d st o), snd (step g d st o)) :: run g d (fst (step g d st o)) rest.
Proof. cbn [run]. destruct (step g d st o). reflexivity. Qed.

Theorem run_authenticated g d : hooks_end_post g -> wf_clients g ->
  forall ops st, store_ok g st ->
  Forall (fun sr => forall r via v, snd sr = RAuthz (Acc r) via -> r_vr r = Some v -> authenticated g r v)
         (run g d st ops).
Proof.
  intros Hh Hwf. induction ops as [|o rest IH]; intros st Hs; [constructor|].
  rewrite run_cons. destruct (step g d st o) as [st' res] eqn:E. cbn [fst snd]. constructor.
  - cbn [snd]. intros r via v Hres Hv. subst res.
    destruct o as [outer w|pusher body w urn|dt]; cbn in E.
    + destruct (authz_parse g d st outer w) as [[st1 out] via1] eqn:Ea. inversion E; subst.
      eapply authz_authenticated; eauto.
    + destruct (par_parse g st pusher body w); try discriminate. destruct (par_process g st r0 w urn). discriminate.
    + discriminate.
  - apply IH. eapply step_store_ok; eauto.
Qed.

Lemma init_store_ok g t0 : store_ok g (init t0).
Proof. intros u e H. contradiction. Qed.

(* ---------------------------------------------------------------- a pushed request is redeemed at most once *)
Lemma par_once_gen g d : forall ops st,
  NoDup (db_keys st) -> NoDup (pushed_urns ops) -> (forall u, In u (pushed_urns ops) -> ~ In u (db_keys st)) ->
  NoDup (redeemed (run g d st ops)) /\
  (forall u, In u (redeemed (run g d st ops)) -> In u (db_keys st) \/ In u (pushed_urns ops)).
Proof.
  induction ops as [|o rest IH]; intros st Hn Hp Hf; [cbn; split; [constructor|contradiction]|].
  rewrite run_cons. destruct (step g d st o) as [st' res] eqn:E. cbn [fst snd].
  pose proof (step_frame _ _ _ _ _ _ E) as [F1 [F2 F3]].
  unfold pushed_urns in Hp, Hf. cbn [flat_map] in Hp, Hf. fold (pushed_urns rest) in Hp, Hf.
  assert (Hp' : NoDup (pushed_urns rest)).
  { clear - Hp. induction (pushed_urn o) as [|a l IHl]; cbn in Hp; auto. inversion Hp; auto. }
  assert (Hdisj : forall u, In u (pushed_urn o) -> ~ In u (pushed_urns rest)).
  { clear - Hp. induction (pushed_urn o) as [|a l IHl]; cbn in *; [contradiction|].
    inversion Hp; subst. intros u [->|Hu]; [intro Hin; apply H1; apply in_or_app; now right|now apply IHl]. }
  assert (Hf' : forall u, In u (pushed_urns rest) -> ~ In u (db_keys st')).
  { intros u Hu Hin. apply F1 in Hin as [Hin|Hin].
    - apply (Hf u); auto. apply in_or_app. now right.
    - apply (Hdisj u Hin Hu). }
  destruct (IH st' (F2 Hn) Hp' Hf') as [IH1 IH2].
  unfold redeemed. cbn [flat_map snd]. fold (redeemed (run g d st' rest)).
  split.
  - assert (Hone : redeemed_of res = [] \/ exists u, redeemed_of res = [u]).
    { destruct res as [[]? | |]; cbn; auto. destruct via; eauto. }
    destruct Hone as [->|[u Hu]]; [exact IH1|]. rewrite Hu. cbn. constructor; auto.
    intro Hin. destruct (F3 u) as [G1 G2]; [rewrite Hu; now left|].
    apply IH2 in Hin as [Hin|Hin]; [now apply (G2 Hn)|].
    apply (Hf u); auto. apply in_or_app. now right.
  - intros u Hu. apply in_app_or in Hu as [Hu|Hu].
    + left. now apply F3.
    + apply IH2 in Hu as [Hu|Hu].
      * apply F1 in Hu as [Hu|Hu]; [now left|right]. apply in_or_app. now left.
      * right. apply in_or_app. now right.
Qed.

Theorem par_once g d t0 ops : NoDup (pushed_urns ops) -> NoDup (redeemed (run g d (init t0) ops)).
Proof.
  intro H. destruct (par_once_gen g d ops (init t0)) as [H1 _]; [constructor|exact H|intros u _ Hin; contradiction|exact H1].
Qed.

(* ---------------------------------------------------------------- ... and only within the announced lifetime *)
Definition inv_life (st : state) (h : hist) : Prop :=
  (forall u e, In (u, e) (par_db st) -> exists t l, In (u, t, l) h /\ e_exp e = (t + l)%Z) /\
  (forall u t l, In (u, t, l) h -> (t <= now st)%Z).

Lemma step_life g d st h o st' res :
  inv_life st h -> tick_ok o -> step g d st o = (st', res) ->
  inv_life st' (hist_after g st o res h) /\
  (forall r u, res = RAuthz (Acc r) (Some u) ->
     exists t l, In (u, t, l) h /\ (t <= now st')%Z /\ (now st' <= t + l)%Z).
Proof.
  intros [I1 I2] Ht H. destruct o as [outer w|pusher body w urn|dt]; cbn in H.
  - destruct (authz_parse g d st outer w) as [[st1 out] via] eqn:E. inversion H; subst. cbn [hist_after].
    pose proof (authz_frame _ _ _ _ _ _ _ _ E) as [F1 [F2 _]]. split.
    + split.
      * intros u e Hin. apply I1. now apply F2.
      * intros u t l Hin. rewrite F1. eapply I2; eauto.
    + intros r u Hres. inversion Hres; subst. apply authz_via in E as [e [E1 [E2 _]]].
      destruct (I1 _ _ E1) as [t [l [Hh He]]]. exists t, l. rewrite F1. repeat split; auto.
      * eapply I2; eauto.
      * rewrite <- He. exact E2.
  - split; [|intros r u Hres; destruct (par_parse g st pusher body w); try (inversion H; subst; discriminate);
             destruct (par_process g st r0 w urn); inversion H; subst; discriminate].
    destruct (par_parse g st pusher body w) as [r| | | |] eqn:Ep; try (inversion H; subst; cbn; split; auto; fail).
    destruct (par_process g st r w urn) as [st1 p] eqn:Eq. inversion H; subst.
    apply par_process_spec in Eq as [[-> Hp]|[s [_ [-> Hp]]]].
    + assert (hist_after g st (OPush pusher body w urn) (RPush (Acc r) p) h = h) as ->.
      { destruct Hp as [[t ->]| ->]; reflexivity. }
      split; auto.
    + set (h' := hist_after g st (OPush pusher body w urn) (RPush (Acc r) p) h).
      assert (Hh' : In (urn, now st, ttl g) h' /\ forall x, In x h -> In x h').
      { subst h'. destruct Hp as [-> | ->]; cbn; split; auto. }
      destruct Hh' as [Hnew Hold]. split.
      * intros u e Hin. cbn in Hin. apply in_aset in Hin as [Hin|Hin].
        -- inversion Hin; subst. cbn. exists (now st), (ttl g). auto.
        -- destruct (I1 _ _ Hin) as [t [l [A B]]]. exists t, l. auto.
      * intros u t l Hin. cbn. subst h'.
        destruct Hp as [-> | ->]; cbn in Hin; destruct Hin as [Hin|Hin];
          try (inversion Hin; subst; apply Z.le_refl); eapply I2; eauto.
  - inversion H; subst. cbn [hist_after]. split; [|intros r u Hres; discriminate].
    split; [exact I1|]. intros u t l Hin. cbn. cbn in Ht. specialize (I2 _ _ _ Hin). lia.
Qed.

Lemma run_h_cons g d st h o rest :
  run_h g d st h (o :: rest) =
  (fst (step g d st o), snd (step g d st o), hist_after g st o (snd (step g d st o)) h)
    :: run_h g d (fst (step g d st o)) (hist_after g st o (snd (step g d st o)) h) rest.
Proof. cbn [run_h]. destruct (step g d st o). reflexivity. Qed.

Theorem par_lifetime_gen g d : forall ops st h,
  inv_life st h -> Forall tick_ok ops ->
  Forall (fun x => forall r u, snd (fst x) = RAuthz (Acc r) (Some u) ->
            exists t l, In (u, t, l) (snd x) /\ (t <= now (fst (fst x)))%Z /\ (now (fst (fst x)) <= t + l)%Z)
         (run_h g d st h ops).
Proof.
  induction ops as [|o rest IH]; intros st h Hi Ht; [constructor|].
  rewrite run_h_cons. destruct (step g d st o) as [st' res] eqn:E. cbn [fst snd].
  inversion Ht; subst. destruct (step_life _ _ _ _ _ _ _ Hi H1 E) as [Hi' Hr]. constructor.
  - cbn [fst snd]. intros r u Hres. destruct (Hr r u Hres) as [t [l [A [B C]]]]. exists t, l. repeat split; auto.
    subst res. destruct o; cbn [hist_after]; auto.
  - apply IH; auto.
Qed.

Lemma run_h_run g d : forall ops st h, List.map fst (run_h g d st h ops) = run g d st ops.
Proof.
  induction ops as [|o rest IH]; intros st h; [reflexivity|].
  rewrite run_h_cons, run_cons. cbn [List.map fst]. now rewrite IH.
Qed.

(* every entry of the history is a push that stored a request at that time and announced that lifetime *)
Lemma hist_after_spec g st o res h x :
  In x (hist_after g st o res h) -> In x h \/
  exists pusher body w u r p, o = OPush pusher body w u /\ res = RPush (Acc r) p /\
     ((exists e, p = PUrn e /\ x = (u, now st, e)) \/ (exists t, p = PStoredExc t /\ x = (u, now st, ttl g))).
Proof.
  destruct o as [outer w|pusher body w urn|dt]; cbn; auto.
  destruct res as [| out p |]; auto. destruct out; auto. destruct p; auto.
  - cbn. intros [<-|H]; auto. right. exists pusher, body, w, urn, r, (PUrn expires_in). repeat split; eauto.
  - cbn. intros [<-|H]; auto. right. exists pusher, body, w, urn, r, (PStoredExc tag). repeat split; eauto.
Qed.

(* ================================================================ unforgeability (symbolic) *)
Section Unforgeable.
  Variable K : term -> Prop.
  Variable k0 : nat.
  Hypothesis secret : forall t, K t -> ~ sub (Key k0) t.

  Lemma unforgeable g fb w v :
    from_jwt g fb w = FOk v -> v_key v = Some k0 ->
    wobj_sig_term w = Some (sig_term k0 (v_alg v) (v_claims v)) /\
    (derivable K (sig_term k0 (v_alg v) (v_claims v)) ->
     exists t0, K t0 /\ sub (sig_term k0 (v_alg v) (v_claims v)) t0).
  Proof.
    intros H Hk. apply from_jwt_ok in H as [alg [claims [sg [Hw [Ha [Hc [_ H]]]]]]].
    destruct H as [[_ H]|[kt [n [s [cands [_ [H2 [H3 [H4 [H5 [H6 _]]]]]]]]]]]; [congruence|].
    assert (Hn : n = k0) by congruence. rewrite Hn in H4. split.
    - unfold wobj_sig_term. rewrite Hw, H3. cbn. rewrite H4, H5, H6, Ha, Hc. reflexivity.
    - intro Hd. unfold sig_term in *. eapply sig_genuine; eauto.
  Qed.
End Unforgeable.

(* ================================================================ the boolean guard evaluated by the harness *)
Lemma cfg_wf_sound g : cfg_wf g = true -> hooks_end_post g /\ wf_clients g.
Proof.
  unfold cfg_wf. intro H. repeat (apply andb_true_iff in H as [H ?]). split.
  - destruct (List.rev (hooks g)) as [|[| | |] l] eqn:E; try discriminate.
    exists (List.rev l). rewrite <- (rev_involutive (hooks g)), E. reflexivity.
  - intros ci Hin. rewrite forallb_forall in H2. specialize (H2 ci Hin). destruct (c_id ci); [discriminate|congruence].
Qed.

(* ================================================================ strict merge: nothing but the object survives *)
Lemma merge_strict g p w r v :
  merge_obj true g p w = Acc r -> r_vr r = Some v ->
  forall k, has_key k (r_params r) = true -> has_key k (v_claims v) = true.
Proof.
  intros H Hv k Hk. apply merge_obj_ok in H as [_ [_ H]]. destruct (H v Hv) as [w' [_ [_ Hp]]].
  rewrite Hp in Hk. apply update_keys in Hk as [Hk|Hk]; auto. eapply restrict_keys; eauto.
Qed.

(* the registered algorithm is the only one accepted; in particular a client that registered a real algorithm
   never has an unsigned object accepted *)
Lemma allowed_registered g ci s a : c_reg ci = RStr s -> allowed g ci a = true -> a = s.
Proof. unfold allowed. intros -> H. now apply str_eqb_eq in H. Qed.

Lemma authenticated_not_unsigned g r v :
  authenticated g r v ->
  forall c ci s, assoc k_client_id (r_params r) = Some (PS_ c) -> find_client (clients g) c = Some ci ->
    c_reg ci = RStr s -> s <> s_none -> v_alg v = s /\ exists n, v_key v = Some n.
Proof.
  intros [c0 [ci0 [Hf [Hc [Hal [_ [_ [Hk _]]]]]]]] c ci s Hc' Hf' Hreg Hs.
  assert (c0 = c) by congruence. subst c0. assert (ci0 = ci) by congruence. subst ci0.
  pose proof (allowed_registered _ _ _ _ Hreg Hal) as Ha. split; auto.
  destruct (v_key v) as [n|]; eauto. apply alg_kind_none in Hk. congruence.
Qed.

(* ================================================================ the statements of Props/C16.v *)
Theorem authenticated_all g d t0 ops : cfg_wf g = true ->
  Forall (fun sr => forall r via v, snd sr = RAuthz (Acc r) via -> r_vr r = Some v -> authenticated g r v)
         (run g d (init t0) ops).
Proof.
  intro H. apply cfg_wf_sound in H as [H1 H2].
  exact (run_authenticated g d H1 H2 ops (init t0) (init_store_ok g t0)).
Qed.

Theorem override_all g d t0 ops : cfg_wf g = true ->
  Forall (fun sr => forall r via v, snd sr = RAuthz (Acc r) via -> r_vr r = Some v ->
            forall k x, assoc k (v_claims v) = Some x -> assoc k (r_params r) = Some x)
         (run g d (init t0) ops).
Proof.
  intro H. pose proof (authenticated_all g d t0 ops H) as A.
  eapply Forall_impl; [|exact A]. cbv beta. intros sr Hsr r via v H1 H2.
  destruct (Hsr r via v H1 H2) as [c [ci [_ [_ [_ [_ [_ [_ Hov]]]]]]]]. exact Hov.
Qed.

Theorem cross_client_all g d t0 ops : cfg_wf g = true ->
  Forall (fun sr => forall r via v c, snd sr = RAuthz (Acc r) via -> r_vr r = Some v ->
            assoc k_client_id (r_params r) = Some (PS_ c) ->
            (forall x, assoc k_client_id (v_claims v) = Some x -> x = PS_ c) /\
            (forall x, assoc k_iss (v_claims v) = Some x -> x = PS_ c) /\
            (forall n, v_key v = Some n -> exists kt, alg_kind (v_alg v) = AlgK kt /\ key_for g c kt n))
         (run g d (init t0) ops).
Proof.
  intro H. pose proof (authenticated_all g d t0 ops H) as A.
  eapply Forall_impl; [|exact A]. cbv beta. intros sr Hsr r via v c H1 H2 Hc.
  destruct (Hsr r via v H1 H2) as [c0 [ci [_ [Hc0 [_ [B1 [B2 [B3 _]]]]]]]].
  assert (c0 = c) by congruence. subst c0. split; [|split].
  - intros x Hx. destruct B1 as [B1|B1]; rewrite B1 in Hx; [discriminate|now inversion Hx].
  - intros x Hx. destruct B2 as [B2|[B2 _]]; rewrite B2 in Hx; [now inversion Hx|discriminate].
  - intros n Hn. rewrite Hn in B3. exact B3.
Qed.

Theorem par_lifetime g d t0 ops : Forall tick_ok ops ->
  Forall (fun x => forall r u, snd (fst x) = RAuthz (Acc r) (Some u) ->
            exists t l, In (u, t, l) (snd x) /\ (t <= now (fst (fst x)))%Z /\ (now (fst (fst x)) <= t + l)%Z)
         (run_h g d (init t0) [] ops).
Proof.
  intro H. apply par_lifetime_gen; auto. split; [intros u e Hin; contradiction|intros u t l Hin; contradiction].
Qed.

(* ================================================================ by value: effective parameters = the object's *)
Lemma k_ru_ne_client : k_client_id <> k_request_uri.
Proof. intro H. vm_compute in H. discriminate. Qed.
Lemma k_ru_ne_auth : k_authenticated <> k_request_uri.
Proof. intro H. vm_compute in H. discriminate. Qed.
Lemma k_ru_ne_redirect : k_redirect_uri <> k_request_uri.
Proof. intro H. vm_compute in H. discriminate. Qed.

Lemma has_key_aset {V} k k0 (v : V) d : has_key k (aset k0 v d) = true -> k = k0 \/ has_key k d = true.
Proof.
  unfold has_key. destruct (str_eqb k0 k) eqn:E.
  - apply str_eqb_eq in E. auto.
  - rewrite assoc_aset_other; auto. intro Heq. subst. rewrite str_eqb_refl in E. discriminate.
Qed.

Lemma authz_parse_acc_outer g d st outer w st' r via :
  authz_parse g d st outer w = (st', Acc r, via) ->
  exists p cid r1, verify_authz g p w = Acc r1 /\ run_hooks g d (hooks g) st r1 cid None = (st', Acc r, via)
                   /\ assoc k_request_uri p = assoc k_request_uri outer.
Proof.
  unfold authz_parse. intro H.
  destruct (authn_loop g (methods g) outer w) as [c m| | |t| |]; try discriminate.
  - match type of H with context [verify_authz g ?p w] => destruct (verify_authz g p w) eqn:E end; try discriminate.
    eexists _, _, _. split; [exact E|]. split; [exact H|].
    destruct m; repeat rewrite assoc_aset_other; auto using k_ru_ne_client, k_ru_ne_auth.
  - destruct (methods_configured g); [discriminate|].
    match type of H with context [verify_authz g ?p w] => destruct (verify_authz g p w) eqn:E end; try discriminate.
    eexists _, _, _. split; [exact E|]. split; [exact H|reflexivity].
  - match type of H with context [verify_authz g ?p w] => destruct (verify_authz g p w) eqn:E end; try discriminate.
    eexists _, _, _. split; [exact E|]. split; [exact H|reflexivity].
Qed.

Lemma merge_no_request_uri g p w r :
  merge_obj true g p w = Acc r -> assoc k_request_uri p = None -> assoc k_request_uri (r_params r) = None.
Proof.
  intros H Hp. pose proof (merge_obj_ok _ _ _ _ _ H) as [Hok [Hn Hs]].
  destruct (r_vr r) as [v|] eqn:Ev.
  - destruct (Hs v eq_refl) as [w' [_ [_ Hr]]]. destruct (Hok v Ev) as [[Hm _] _].
    apply has_key_false. destruct (has_key k_request_uri (r_params r)) eqn:E; auto.
    pose proof (merge_strict _ _ _ _ _ H Ev _ E) as Hc.
    unfold claims_modelled in Hm. repeat (apply andb_true_iff in Hm as [Hm ?]).
    match goal with Hx : negb (has_key k_request_uri (v_claims v)) = true |- _ => rewrite Hc in Hx; discriminate end.
  - rewrite (Hn eq_refl). exact Hp.
Qed.

Lemma rh_strict g d cid : forall hs st r via st' r' via',
  run_hooks g d hs st r cid via = (st', Acc r', via') -> assoc k_request_uri (r_params r) = None ->
  r_vr r' = r_vr r /\ via' = via /\
  forall k, has_key k (r_params r') = true -> has_key k (r_params r) = true \/ k = k_redirect_uri.
Proof.
  induction hs as [|h rest IH]; intros st r via st' r' via' H Hn; cbn in H.
  - inversion H; subst. auto.
  - destruct h.
    + unfold do_request_uri in H. rewrite Hn in H. apply IH in H; auto.
    + destruct (par_request_uri r) eqn:E; try discriminate. apply par_request_uri_acc in E. subst. apply IH in H; auto.
    + destruct (post_parse g r cid) as [r1| | | |] eqn:E; try discriminate.
      apply post_parse_acc in E as [c [ci [u [_ [_ [_ [-> _]]]]]]].
      apply IH in H as [H1 [H2 H3]].
      * cbn in H1, H3. repeat split; auto. intros k Hk. apply H3 in Hk as [Hk|Hk]; auto.
        apply has_key_aset in Hk as [Hk|Hk]; auto.
      * cbn. rewrite assoc_aset_other; auto. apply k_ru_ne_redirect.
    + discriminate.
Qed.

Theorem value_strict g d st outer w st' r via v :
  authz_parse g d st outer w = (st', Acc r, via) -> assoc k_request_uri outer = None -> r_vr r = Some v ->
  via = None /\ forall k, has_key k (r_params r) = true -> has_key k (v_claims v) = true \/ k = k_redirect_uri.
Proof.
  intros H Ho Hv. apply authz_parse_acc_outer in H as [p [cid [r1 [Hver [Hrun Hp]]]]].
  apply verify_authz_acc in Hver. rewrite Ho in Hp.
  pose proof (merge_no_request_uri _ _ _ _ Hver Hp) as Hn.
  apply rh_strict in Hrun as [H1 [H2 H3]]; auto. split; auto.
  intros k Hk. apply H3 in Hk as [Hk|Hk]; auto. left.
  eapply merge_strict; eauto. congruence.
Qed.

(* ================================================================ spellings of a request_uri
   The store is keyed by the exact string that was issued.  A request_uri that is not, character for character,
   a key of the store (another letter case, surrounding whitespace, a fragment, percent-escapes ...) resolves
   nothing and consumes nothing; over a whole history the successful redemptions are bounded by the pushes. *)
Lemma modelled_no_ru c : claims_modelled c = true -> assoc k_request_uri c = None.
Proof.
  unfold claims_modelled. intro H. repeat (apply andb_true_iff in H as [H ?]).
  apply has_key_false.
  match goal with Hx : negb (has_key k_request_uri c) = true |- _ => now apply negb_true_iff in Hx end.
Qed.

Definition ru_unknown (st : state) (p : params) : Prop :=
  forall ru, assoc k_request_uri p = Some (PS_ ru) -> ~ In ru (db_keys st).

Lemma dru_unknown g d st r cid st' o via :
  do_request_uri g d st r cid = (st', o, via) -> ru_unknown st (r_params r) ->
  st' = st /\ via = None /\
  forall r', o = Acc r' -> assoc k_request_uri (r_params r') = assoc k_request_uri (r_params r).
Proof.
  intros H Hu. dru_cases H;
    try (exfalso;
         match goal with
         | Hr : assoc k_request_uri (r_params r) = Some (PS_ ?ru), Ha : assoc ?ru (par_db st) = Some _ |- _ =>
             apply (Hu _ Hr); unfold db_keys; eapply assoc_in_keys; exact Ha
         end);
    (split; [reflexivity|]); (split; [reflexivity|]); intros r' Hr'; try discriminate;
    try (inversion Hr'; subst; assumption).
  apply reverify_acc in Hr'. subst r'. cbn [r_params]. rewrite update_other; [assumption|]. apply modelled_no_ru.
  match goal with Hf : from_jwt _ _ _ = FOk ?v |- _ => apply from_jwt_vr_ok in Hf; apply Hf end.
Qed.

Lemma rh_unknown g d cid : forall hs st r via st' o via',
  run_hooks g d hs st r cid via = (st', o, via') -> ru_unknown st (r_params r) ->
  st' = st /\ (via' = via \/ via' = None).
Proof.
  induction hs as [|h rest IH]; intros st r via st' o via' H Hu; cbn in H.
  - inversion H; subst. auto.
  - destruct h.
    + destruct (do_request_uri g d st r cid) as [[st1 o1] v1] eqn:E.
      destruct (dru_unknown _ _ _ _ _ _ _ _ E Hu) as [E1 [E2 Hk]]. subst st1 v1.
      destruct o1; try (inversion H; subst; split; auto; fail).
      apply IH in H; auto. intros ru Hru. apply Hu. rewrite <- (Hk _ eq_refl). exact Hru.
    + destruct (par_request_uri r) eqn:E; try (inversion H; subst; split; auto; fail).
      apply par_request_uri_acc in E. subst. apply IH in H; auto.
    + destruct (post_parse g r cid) as [r1| | | |] eqn:E; try (inversion H; subst; split; auto; fail).
      apply post_parse_acc in E as [c [ci [u [_ [_ [_ [-> _]]]]]]].
      apply IH in H; auto. intros ru Hru. apply Hu. cbn [r_params] in Hru.
      rewrite assoc_aset_other in Hru; auto. apply k_ru_ne_redirect.
    + inversion H; subst. auto.
Qed.

Lemma authz_parse_cases_ru g d st outer w st' o via :
  authz_parse g d st outer w = (st', o, via) ->
  (st' = st /\ via = None) \/
  (exists p cid r1, verify_authz g p w = Acc r1 /\ run_hooks g d (hooks g) st r1 cid None = (st', o, via)
                    /\ assoc k_request_uri p = assoc k_request_uri outer).
Proof.
  unfold authz_parse. intro H.
  destruct (authn_loop g (methods g) outer w) as [c m| | |t| |].
  - match type of H with context [verify_authz g ?p w] => destruct (verify_authz g p w) eqn:E end;
      try (left; inversion H; subst; split; auto; fail).
    right. eexists _, _, _. split; [exact E|]. split; [exact H|].
    destruct m; repeat rewrite assoc_aset_other; auto using k_ru_ne_client, k_ru_ne_auth.
  - destruct (methods_configured g).
    + left. inversion H; subst. auto.
    + match type of H with context [verify_authz g ?p w] => destruct (verify_authz g p w) eqn:E end;
        try (left; inversion H; subst; split; auto; fail).
      right. eexists _, _, _. split; [exact E|]. split; [exact H|reflexivity].
  - match type of H with context [verify_authz g ?p w] => destruct (verify_authz g p w) eqn:E end;
      try (left; inversion H; subst; split; auto; fail).
    right. eexists _, _, _. split; [exact E|]. split; [exact H|reflexivity].
  - left. inversion H; subst. auto.
  - left. inversion H; subst. auto.
  - left. inversion H; subst. auto.
Qed.

Lemma merge_ru_outer g p w r :
  merge_obj true g p w = Acc r ->
  forall x, assoc k_request_uri (r_params r) = Some x -> assoc k_request_uri p = Some x.
Proof.
  intros H x Hx. pose proof (merge_obj_ok _ _ _ _ _ H) as [Hok [Hn Hs]].
  destruct (r_vr r) as [v|] eqn:Ev.
  - exfalso. destruct (Hok v Ev) as [[Hm _] _].
    assert (Hk : has_key k_request_uri (r_params r) = true) by (apply has_key_assoc; eauto).
    pose proof (merge_strict _ _ _ _ _ H Ev _ Hk) as Hc.
    apply modelled_no_ru in Hm. destruct (has_key_false k_request_uri (v_claims v)) as [_ Hb].
    rewrite (Hb Hm) in Hc. discriminate.
  - rewrite (Hn eq_refl) in Hx. exact Hx.
Qed.

(* an authorization request whose request_uri is not literally a key of the store leaves the store as it is and
   redeems nothing *)
Theorem authz_unknown_spelling g d st outer w st' o via :
  authz_parse g d st outer w = (st', o, via) ->
  (forall ru, assoc k_request_uri outer = Some (PS_ ru) -> ~ In ru (db_keys st)) ->
  st' = st /\ via = None.
Proof.
  intros H Hu. apply authz_parse_cases_ru in H as [H|[p [cid [r1 [Hver [Hrun Hp]]]]]]; [exact H|].
  apply verify_authz_acc in Hver.
  assert (Hu1 : ru_unknown st (r_params r1)).
  { intros ru Hru. apply Hu. rewrite <- Hp. eapply merge_ru_outer; eauto. }
  destruct (rh_unknown _ _ _ _ _ _ _ _ _ _ Hrun Hu1) as [E1 [E2|E2]]; auto.
Qed.

(* every successful redemption presented a request_uri that was issued, and there are at most as many successful
   redemptions in a history as there are pushes, whatever request_uri strings the authorization requests carry *)
Theorem par_count g d t0 ops : NoDup (pushed_urns ops) ->
  (forall u, In u (redeemed (run g d (init t0) ops)) -> In u (pushed_urns ops)) /\
  (List.length (redeemed (run g d (init t0) ops)) <= List.length (pushed_urns ops))%nat.
Proof.
  intro H. destruct (par_once_gen g d ops (init t0)) as [H1 H2];
    [constructor|exact H|intros u _ Hin; destruct Hin|].
  assert (Hincl : forall u, In u (redeemed (run g d (init t0) ops)) -> In u (pushed_urns ops)).
  { intros u Hu. destruct (H2 u Hu) as [Hin|Hin]; [destruct Hin|exact Hin]. }
  split; [exact Hincl|]. apply NoDup_incl_length; auto.
Qed.

Theorem par_one_push g d t0 pre post pusher body w u :
  pushed_urns pre = [] -> pushed_urns post = [] ->
  (List.length (redeemed (run g d (init t0) (pre ++ OPush pusher body w u :: post))) <= 1)%nat /\
  (forall x, In x (redeemed (run g d (init t0) (pre ++ OPush pusher body w u :: post))) -> x = u).
Proof.
  intros Hpre Hpost.
  assert (E : pushed_urns (pre ++ OPush pusher body w u :: post) = [u]).
  { unfold pushed_urns in *. rewrite flat_map_app. cbn [flat_map pushed_urn]. rewrite Hpre, Hpost. reflexivity. }
  destruct (par_count g d t0 (pre ++ OPush pusher body w u :: post)) as [H1 H2].
  - rewrite E. constructor; [intros []|constructor].
  - rewrite E in H1, H2. split; [exact H2|]. intros x Hx. destruct (H1 x Hx) as [<-|[]]. reflexivity.
Qed.

(* ================================================================ the encrypted wrapper adds no authority
   Everything that decides about a request object sees open_wrapper w: what is inside the JWE, a bare JSON plaintext
   standing for an unsigned object.  Pushing a wrapped object is pushing its content; by value a wrapped object is
   handled exactly like its content when RequestParam is not among the client-authentication methods, or the
   content is JSON claims nobody signed (f092826: RequestParam gives up on them, as it does on an alg "none" JWS), or
   the content is a JWS and the wrapper says cty "JWT" (RequestParam reads a wrapper without cty around a JWS as raw
   text and gives up, where it would identify the signer of the bare JWS, see request_param; the soundness theorems
   above hold there all the same); a wrapped document behind a request_uri never takes effect. *)
Lemma open_wrapper_idem w : open_wrapper (open_wrapper w) = open_wrapper w.
Proof. destruct w as [| |h i]; auto. cbn. destruct (j_state h); auto. destruct i; auto. Qed.

Lemma from_jwt_open g fb w : from_jwt g fb w = from_jwt g fb (open_wrapper w).
Proof. unfold from_jwt. now rewrite open_wrapper_idem. Qed.

Lemma merge_obj_open strict g p w : merge_obj strict g p (Some w) = merge_obj strict g p (Some (open_wrapper w)).
Proof. unfold merge_obj. destruct (assoc k_request p) as [[s|l]|]; auto. now rewrite (from_jwt_open g None w). Qed.

Lemma verify_authz_open g p w : verify_authz g p (Some w) = verify_authz g p (Some (open_wrapper w)).
Proof. unfold verify_authz. now rewrite (merge_obj_open true g p w). Qed.

Lemma par_parse_open g st pusher body w :
  par_parse g st pusher body (Some w) = par_parse g st pusher body (Some (open_wrapper w)).
Proof.
  unfold par_parse. destruct (find_client (clients g) pusher); auto. destruct (negb (outer_modelled body)); auto.
  cbv zeta. now rewrite (merge_obj_open false g _ w).
Qed.

Lemma par_process_open g st r w urn :
  par_process g st r (Some w) urn = par_process g st r (Some (open_wrapper w)) urn.
Proof. unfold par_process. cbv zeta. now rewrite (merge_obj_open true g _ w). Qed.

Theorem push_open g d st pusher body w urn :
  step g d st (OPush pusher body (Some w) urn) = step g d st (OPush pusher body (Some (open_wrapper w)) urn).
Proof.
  cbn [step]. rewrite (par_parse_open g st pusher body w).
  destruct (par_parse g st pusher body (Some (open_wrapper w))); auto.
  now rewrite (par_process_open g st r w urn).
Qed.

Lemma authn_loop_rp g p w w' : request_param g w = request_param g w' ->
  forall ms, authn_loop g ms p (Some w) = authn_loop g ms p (Some w').
Proof.
  intros E ms. induction ms as [|m r IH]; [reflexivity|]. destruct m; cbn [authn_loop].
  - destruct (has_key k_request p); auto. rewrite E. destruct (request_param g w'); auto.
  - destruct (assoc k_client_id p) as [[c|l]|]; auto.
  - reflexivity.
Qed.

Lemma authn_loop_no_rp g p w w' : forall ms, ~ In MReqParam ms -> authn_loop g ms p w = authn_loop g ms p w'.
Proof.
  induction ms as [|m r IH]; intro H; [reflexivity|]. destruct m; cbn [authn_loop].
  - exfalso. apply H. now left.
  - destruct (assoc k_client_id p) as [[c|l]|]; auto. apply IH. intro Hx. apply H. now right.
  - reflexivity.
Qed.

Lemma rp_cty_same g w : opens_on_claims w -> request_param g w = request_param g (open_wrapper w).
Proof.
  destruct w as [| |h i]; auto. intros [Hs Hi]. cbn [request_param open_wrapper]. rewrite Hs.
  destruct i as [a c s|c|]; [rewrite Hi; reflexivity| |contradiction].
  now destruct (j_cty_jwt h).
Qed.

(* RequestParam never takes an identity from claims nobody signed, whatever the header of the wrapper says *)
Lemma request_param_unsigned g h c : request_param g (WEnc h (IJson c)) = RpContinue.
Proof. cbn [request_param]. destruct (j_state h); auto. now destruct (j_cty_jwt h). Qed.

(* ... an identity it answers is the iss of claims whose signature verified under a key the key jar holds for that
   issuer (the content of the wrapper, when there is one) *)
Lemma request_param_plain_ident g w i :
  request_param_plain g w = RpIdent i ->
  exists alg claims sg k cands n,
    w = WObj alg claims sg /\ alg_kind alg = AlgK k /\
    lookup_keys g (iss_for claims None) k (kid_of sg) = Some cands /\
    try_verify cands alg claims sg = VOk n /\ assoc k_iss claims = Some (PS_ i).
Proof.
  destruct w as [|alg claims sg|h j]; cbn [request_param_plain]; try discriminate.
  destruct (alg_kind alg) as [|k|] eqn:Ea; try discriminate.
  destruct (lookup_keys g (iss_for claims None) k (kid_of sg)) as [cands|] eqn:El; try discriminate.
  destruct (try_verify cands alg claims sg) as [n| |] eqn:Et; try discriminate.
  destruct (assoc k_iss claims) as [[x|l]|] eqn:Ei; try discriminate.
  intro H. injection H as ->. exists alg, claims, sg, k, cands, n. auto.
Qed.

Theorem request_param_ident_signed g w i :
  request_param g w = RpIdent i ->
  exists alg claims sg k cands n,
    open_wrapper w = WObj alg claims sg /\ alg_kind alg = AlgK k /\
    lookup_keys g (iss_for claims None) k (kid_of sg) = Some cands /\
    try_verify cands alg claims sg = VOk n /\ assoc k_iss claims = Some (PS_ i).
Proof.
  destruct w as [|alg claims sg|h j].
  - discriminate.
  - cbn [request_param open_wrapper]. intro H. apply request_param_plain_ident in H. exact H.
  - cbn [request_param open_wrapper]. destruct (j_state h); try discriminate.
    destruct (j_cty_jwt h); try discriminate. destruct j as [a c s|c|]; try discriminate.
    intro H. apply request_param_plain_ident in H. exact H.
Qed.

Theorem authz_open g d st outer w :
  (~ In MReqParam (methods g) \/ opens_on_claims w) ->
  authz_parse g d st outer (Some w) = authz_parse g d st outer (Some (open_wrapper w)).
Proof.
  intro H.
  assert (E : authn_loop g (methods g) outer (Some w) = authn_loop g (methods g) outer (Some (open_wrapper w))).
  { destruct H as [H|H]; [now apply authn_loop_no_rp|]. apply authn_loop_rp. now apply rp_cty_same. }
  unfold authz_parse. rewrite E.
  destruct (authn_loop g (methods g) outer (Some (open_wrapper w))) as [c m| | |t| |]; auto.
  - now rewrite (verify_authz_open g _ w).
  - destruct (methods_configured g); auto. now rewrite (verify_authz_open g _ w).
  - now rewrite (verify_authz_open g _ w).
Qed.

(* claims nobody signed inside a wrapper that opens: the authorization endpoint answers exactly as it answers the
   unsigned object with those claims, whatever the client-authentication methods and the cty header *)
Corollary authz_open_json g d st outer h c :
  j_state h = JOpens ->
  authz_parse g d st outer (Some (WEnc h (IJson c))) = authz_parse g d st outer (Some (WObj s_none c None)).
Proof.
  intro Hs. rewrite (authz_open g d st outer (WEnc h (IJson c))).
  - cbn [open_wrapper]. now rewrite Hs.
  - right. cbn [opens_on_claims]. auto.
Qed.

(* a wrapped document fetched from a request_uri never takes effect: an accepted outcome of _do_request_uri for
   that uri can only be a pushed request stored under it *)
Theorem wrapped_doc_no_effect g d st r cid st' r' via ru h i :
  do_request_uri g d st r cid = (st', Acc r', via) ->
  assoc k_request_uri (r_params r) = Some (PS_ ru) -> ru <> [] -> assoc ru d = Some (WEnc h i) ->
  via = Some ru /\ exists e, In (ru, e) (par_db st) /\ r' = e_req e.
Proof.
  intros H Hru Hne Hd. unfold do_request_uri in H. rewrite Hru in H. destruct ru as [|ch ru']; [congruence|].
  rewrite Hd in H. cbn [is_wrapped] in H.
  repeat match type of H with
  | context [match ?x with _ => _ end] => destruct x eqn:?
  | context [if ?b then _ else _] => destruct b eqn:?
  end; inversion H; subst; clear H.
  split; auto.
  match goal with H : assoc _ (par_db st) = Some ?e |- _ => exists e; apply assoc_In' in H; auto end.
Qed.

(* by value: the verified object attached to an accepted request is the verification of the wrapper's CONTENT *)
Theorem value_verified_is_content g d st outer w st' r via v :
  authz_parse g d st outer (Some w) = (st', Acc r, via) -> assoc k_request_uri outer = None -> r_vr r = Some v ->
  from_jwt g None (open_wrapper w) = FOk v.
Proof.
  intros H Ho Hv. apply authz_parse_acc_outer in H as [p [cid [r1 [Hver [Hrun Hp]]]]].
  apply verify_authz_acc in Hver. rewrite Ho in Hp.
  pose proof (merge_no_request_uri _ _ _ _ Hver Hp) as Hn.
  apply rh_strict in Hrun as [H1 _]; auto.
  apply merge_obj_ok in Hver as [_ [_ Hs]]. rewrite H1 in Hv. destruct (Hs v Hv) as [w' [Hw [Hf _]]].
  inversion Hw; subst w'. now rewrite <- from_jwt_open.
Qed.

Lemma state_after_ok g d t0 pre : store_ok g (state_after g d t0 pre).
Proof.
  unfold state_after. generalize (init_store_ok g t0). generalize (init t0).
  induction pre as [|o rest IH]; intros st Hs; cbn [fold_left]; auto.
  apply IH. destruct (step g d st o) eqn:E. cbn [fst]. eapply step_store_ok; eauto.
Qed.

(* C16's soundness statement over wrapped objects, after any history, by value: what was verified is the content
   of the wrapper, and it is authenticated for the client the request is attributed to *)
Theorem value_wrapped_sound g d t0 pre outer w st' r via v :
  cfg_wf g = true ->
  authz_parse g d (state_after g d t0 pre) outer (Some w) = (st', Acc r, via) ->
  assoc k_request_uri outer = None -> r_vr r = Some v ->
  from_jwt g None (open_wrapper w) = FOk v /\ authenticated g r v.
Proof.
  intros Hwf H Ho Hv. split; [eapply value_verified_is_content; eauto|].
  apply cfg_wf_sound in Hwf as [W1 W2].
  exact (authz_authenticated _ _ _ _ _ _ _ _ (state_after_ok g d t0 pre) W1 W2 H v Hv).
Qed.

(* claims that nobody signed, inside a wrapper: accepted only as an unsigned object, i.e. only where "none" is a
   permitted algorithm for the client the request is attributed to - exactly where an unsigned plain object is *)
Theorem wrapped_unsigned g d t0 pre outer h c st' r via v :
  cfg_wf g = true ->
  authz_parse g d (state_after g d t0 pre) outer (Some (WEnc h (IJson c))) = (st', Acc r, via) ->
  assoc k_request_uri outer = None -> r_vr r = Some v ->
  v_alg v = s_none /\ v_key v = None /\ v_claims v = c /\
  exists cid ci, assoc k_client_id (r_params r) = Some (PS_ cid) /\ find_client (clients g) cid = Some ci /\
                 allowed g ci s_none = true.
Proof.
  intros Hwf H Ho Hv.
  destruct (value_wrapped_sound _ _ _ _ _ _ _ _ _ _ Hwf H Ho Hv) as [Hf [cid [ci [A1 [A2 [A3 _]]]]]].
  apply from_jwt_ok in Hf as [alg [claims [sg [Hw [Ha [Hc [_ Hk]]]]]]].
  rewrite open_wrapper_idem in Hw. cbn [open_wrapper unwrapped] in Hw. destruct (j_state h); try discriminate.
  injection Hw as E1 E2 E3.
  destruct Hk as [[_ Hk]|[kt [n [s [cands [_ [_ [Hs _]]]]]]]]; [|congruence].
  assert (Hal : v_alg v = s_none) by congruence.
  repeat split; auto; try congruence. exists cid, ci. rewrite Hal in A3. auto.
Qed.

Corollary wrapped_unsigned_registered g d t0 pre outer h c st' r via v :
  cfg_wf g = true ->
  authz_parse g d (state_after g d t0 pre) outer (Some (WEnc h (IJson c))) = (st', Acc r, via) ->
  assoc k_request_uri outer = None -> r_vr r = Some v ->
  forall cid ci s, assoc k_client_id (r_params r) = Some (PS_ cid) -> find_client (clients g) cid = Some ci ->
    c_reg ci = RStr s -> s = s_none.
Proof.
  intros Hwf H Ho Hv cid ci s Hc Hf Hr.
  destruct (wrapped_unsigned _ _ _ _ _ _ _ _ _ _ _ Hwf H Ho Hv) as [_ [_ [_ [cid' [ci' [B1 [B2 B3]]]]]]].
  assert (cid' = cid) by congruence. subst cid'. assert (ci' = ci) by congruence. subst ci'.
  symmetry. eapply allowed_registered; eauto.
Qed.

(* ================================================================ dynamic registration: what is in force afterwards *)
Lemma find_client_app_fresh cs ci : find_client cs (c_id ci) = None -> find_client (cs ++ [ci]) (c_id ci) = Some ci.
Proof.
  induction cs as [|x r IH]; cbn.
  - intros _. now rewrite str_eqb_refl.
  - destruct (str_eqb (c_id ci) (c_id x)); [discriminate|]. exact IH.
Qed.

Lemma find_client_app_other cs ci c : c <> c_id ci -> find_client (cs ++ [ci]) c = find_client cs c.
Proof.
  intro Hne. induction cs as [|x r IH]; cbn.
  - destruct (str_eqb c (c_id ci)) eqn:E; [apply str_eqb_eq in E; contradiction|reflexivity].
  - destruct (str_eqb c (c_id x)); [reflexivity|exact IH].
Qed.

(* what an accepted registration is: the rest of the request was acceptable, the assigned id is new and not empty, the
   record stored is the one built for the client with the negotiated algorithm, the provider differs by that record only *)
Lemma register_stored g rq g' ci :
  register g rq = RegStored g' ci ->
  rq_ok rq = true /\ c_id ci <> [] /\ find_client (clients g) (c_id ci) = None /\
  ci = with_reg (rq_rest rq) (negotiate g (rq_alg rq)) /\ g' = add_client g ci.
Proof.
  unfold register. destruct (rq_ok rq); cbn [negb]; [|discriminate].
  destruct (c_id (rq_rest rq)) as [|a l] eqn:Eid; [discriminate|].
  destruct (find_client (clients g) (a :: l)) eqn:Ef; [discriminate|].
  intro H. inversion H; subst. cbn. rewrite Eid. repeat split; auto. discriminate.
Qed.

Lemma register_found g rq g' ci : register g rq = RegStored g' ci -> find_client (clients g') (c_id ci) = Some ci.
Proof.
  intro H. apply register_stored in H as [_ [_ [Hf [_ ->]]]]. cbn. now apply find_client_app_fresh.
Qed.

(* requested and advertised: the permitted set of the new client is exactly {requested} *)
Theorem register_permitted_exact g rq g' ci a :
  register g rq = RegStored g' ci -> rq_alg rq = Some a -> In a (prov_algs g) ->
  find_client (clients g') (c_id ci) = Some ci /\ c_reg ci = RStr a /\ forall x, allowed g' ci x = true <-> x = a.
Proof.
  intros H Ha Hin. pose proof (register_found _ _ _ _ H) as Hf. apply register_stored in H as [_ [_ [_ [Hci _]]]].
  assert (Hr : c_reg ci = RStr a).
  { rewrite Hci. cbn. unfold negotiate. rewrite Ha. apply str_in_In in Hin. now rewrite Hin. }
  repeat split; auto; unfold allowed; rewrite Hr; apply str_eqb_eq.
Qed.

(* not requested, or requested but not advertised: nothing is registered (and the response says so: ci is what it
   echoes), the provider's supported set applies *)
Theorem register_dropped g rq g' ci :
  register g rq = RegStored g' ci ->
  (rq_alg rq = None \/ exists a, rq_alg rq = Some a /\ ~ In a (prov_algs g)) ->
  c_reg ci = RAbsent /\ forall x, allowed g' ci x = true <-> In x (prov_algs g).
Proof.
  intros H Hq. apply register_stored in H as [_ [_ [_ [Hci ->]]]].
  assert (Hr : c_reg ci = RAbsent).
  { rewrite Hci. cbn. unfold negotiate. destruct Hq as [->|[a [-> Hn]]]; [reflexivity|].
    destruct (str_in a (prov_algs g)) eqn:E; [apply str_in_In in E; contradiction|reflexivity]. }
  split; auto. intro x. unfold allowed. rewrite Hr. cbn. apply str_in_In.
Qed.

(* the registration of one client changes nothing for the others, nor the provider's own settings *)
Theorem register_frame g rq g' ci :
  register g rq = RegStored g' ci ->
  prov_algs g' = prov_algs g /\ jar g' = jar g /\ hooks g' = hooks g /\ methods g' = methods g /\
  (forall c, c <> c_id ci -> find_client (clients g') c = find_client (clients g) c) /\
  (forall cj x, allowed g' cj x = allowed g cj x).
Proof.
  intro H. apply register_stored in H as [_ [_ [_ [_ ->]]]]. cbn. repeat split; auto.
  intros c Hne. now apply find_client_app_other.
Qed.

Lemma register_wf g rq g' ci : cfg_wf g = true -> register g rq = RegStored g' ci -> cfg_wf g' = true.
Proof.
  intros Hwf H. apply register_stored in H as [_ [Hid [_ [_ ->]]]].
  unfold cfg_wf in *. cbn. repeat (apply andb_true_iff in Hwf as [Hwf ?]).
  repeat (apply andb_true_iff; split); auto.
  rewrite forallb_app. apply andb_true_iff; split; auto. cbn. destruct (c_id ci); [contradiction|reflexivity].
Qed.

(* ... hence, through the soundness theorem: after an accepted registration that asked for an advertised algorithm a, in
   every history on the provider as it is afterwards, an object whose parameters take effect for the new client is of
   algorithm a - and, unless a is "none", verified under a key the key jar holds for that client *)
Theorem registered_only_requested g rq g' ci a d t0 ops :
  cfg_wf g = true -> register g rq = RegStored g' ci -> rq_alg rq = Some a -> In a (prov_algs g) ->
  Forall (fun sr => forall r via v, snd sr = RAuthz (Acc r) via -> r_vr r = Some v ->
            assoc k_client_id (r_params r) = Some (PS_ (c_id ci)) ->
            v_alg v = a /\
            (a <> s_none -> exists n kt, v_key v = Some n /\ alg_kind a = AlgK kt /\ key_for g' (c_id ci) kt n))
         (run g' d (init t0) ops).
Proof.
  intros Hwf H Ha Hin. pose proof (register_wf _ _ _ _ Hwf H) as Hwf'.
  destruct (register_permitted_exact _ _ _ _ _ H Ha Hin) as [Hf [_ Hal]].
  pose proof (authenticated_all g' d t0 ops Hwf') as A.
  eapply Forall_impl; [|exact A]. cbv beta. intros sr Hsr r via v H1 H2 Hc.
  destruct (Hsr r via v H1 H2) as [c0 [ci0 [Hf0 [Hc0 [Hall [_ [_ [Hk _]]]]]]]].
  assert (c0 = c_id ci) by congruence. subst c0. assert (ci0 = ci) by congruence. subst ci0.
  apply Hal in Hall. split; auto. intro Hne.
  destruct (v_key v) as [n|].
  - destruct Hk as [kt [Hk1 Hk2]]. exists n, kt. rewrite <- Hall. auto.
  - apply alg_kind_none in Hk. congruence.
Qed.

(* a refused registration registers nothing: the provider is as before, and for an id the client database does not
   hold no object ever takes effect *)
Theorem unregistered_no_effect g d t0 ops c : cfg_wf g = true -> find_client (clients g) c = None ->
  Forall (fun sr => forall r via v, snd sr = RAuthz (Acc r) via -> r_vr r = Some v ->
            assoc k_client_id (r_params r) <> Some (PS_ c))
         (run g d (init t0) ops).
Proof.
  intros Hwf Hnone. pose proof (authenticated_all g d t0 ops Hwf) as A.
  eapply Forall_impl; [|exact A]. cbv beta. intros sr Hsr r via v H1 H2 Hc.
  destruct (Hsr r via v H1 H2) as [c0 [ci0 [Hf0 [Hc0 _]]]]. assert (c0 = c) by congruence. subst c0. congruence.
Qed.

Lemma register_refused_iff g rq : register g rq = RegRefused <-> rq_ok rq = false.
Proof.
  unfold register. destruct (rq_ok rq); cbn [negb].
  - split; [|discriminate]. destruct (c_id (rq_rest rq)); [discriminate|].
    destruct (find_client (clients g) (n :: l)); discriminate.
  - split; auto.
Qed.
