(* Proofs/Jar_proofs.v — lemmas about Model/Jar.v (property C16). *)
From Coq Require Import String.
From Verif Require Import Lib.Base Lib.PyStr Lib.Crypto Model.Jar.

(* ================================================================ association lists *)
Lemma assoc_In' {V} k (d : list (pystr * V)) v : assoc k d = Some v -> In (k, v) d.
Proof.
  induction d as [|[k' v'] r IH]; cbn; [discriminate|].
  destruct (str_eqb k k') eqn:E.
  - intro H; inversion H; subst. apply str_eqb_eq in E; subst. now left.
  - intro H. right. now apply IH.
Qed.
Lemma has_key_assoc {V} k (d : list (pystr * V)) : has_key k d = true <-> exists v, assoc k d = Some v.
Proof.
  unfold has_key. destruct (assoc k d) as [v|]; split; intro H; eauto; try discriminate.
  destruct H as [v H]. discriminate.
Qed.
Lemma has_key_false {V} k (d : list (pystr * V)) : has_key k d = false <-> assoc k d = None.
Proof. unfold has_key. destruct (assoc k d); split; intro H; congruence. Qed.

Lemma in_aset {V} k (v : V) d x : In x (aset k v d) -> x = (k, v) \/ In x d.
Proof.
  induction d as [|[k' v'] r IH]; cbn.
  - intros [H|[]]; auto.
  - destruct (str_eqb k k') eqn:E; cbn.
    + apply str_eqb_eq in E; subst k'. intros [H|H]; auto.
    + intros [H|H]; auto. destruct (IH H); auto.
Qed.
Lemma in_adel {V} k (d : list (pystr * V)) x : In x (adel k d) -> In x d.
Proof.
  induction d as [|[k' v'] r IH]; cbn; [tauto|].
  destruct (str_eqb k k'); cbn; intros H; auto. destruct H; auto.
Qed.
Lemma keys_aset {V} k (v : V) d :
  List.map fst (aset k v d) = List.map fst d \/ (~ In k (List.map fst d) /\ List.map fst (aset k v d) = (List.map fst d ++ [k])%list).
Proof.
  induction d as [|[k' v'] r IH]; cbn.
  - right. split; auto.
  - destruct (str_eqb k k') eqn:E; cbn.
    + left. reflexivity.
    + destruct IH as [IH|[IH1 IH2]].
      * left. now rewrite IH.
      * right. split; [|now rewrite IH2]. intros [H|H]; [|contradiction].
        subst k'. rewrite str_eqb_refl in E. discriminate.
Qed.
Lemma nodup_snoc {A} (l : list A) x : NoDup l -> ~ In x l -> NoDup (l ++ [x])%list.
Proof.
  induction l as [|a r IH]; cbn; intros H N.
  - constructor; auto.
  - inversion H; subst. constructor.
    + intro Hin. apply in_app_or in Hin as [Hin|[Hin|[]]]; [contradiction|subst; apply N; now left].
    + apply IH; auto.
Qed.
Lemma nodup_aset {V} k (v : V) d : NoDup (List.map fst d) -> NoDup (List.map fst (aset k v d)).
Proof.
  intro H. destruct (keys_aset k v d) as [E|[N E]]; rewrite E; auto.
  now apply nodup_snoc.
Qed.
Lemma keys_adel_incl {V} k (d : list (pystr * V)) x : In x (List.map fst (adel k d)) -> In x (List.map fst d).
Proof.
  induction d as [|[k' v'] r IH]; cbn; [tauto|].
  destruct (str_eqb k k'); cbn; intros H; auto. destruct H; auto.
Qed.
Lemma nodup_adel {V} k (d : list (pystr * V)) : NoDup (List.map fst d) -> NoDup (List.map fst (adel k d)).
Proof.
  induction d as [|[k' v'] r IH]; cbn; [auto|].
  intro H. inversion H as [|? ? Hn Hr]; subst.
  destruct (str_eqb k k'); cbn; auto.
  constructor; auto. intro Hin. apply Hn. eapply keys_adel_incl; eauto.
Qed.
Lemma adel_removes {V} k (d : list (pystr * V)) : NoDup (List.map fst d) -> ~ In k (List.map fst (adel k d)).
Proof.
  induction d as [|[k' v'] r IH]; cbn; [tauto|].
  intro H. inversion H as [|? ? Hn Hr]; subst.
  destruct (str_eqb k k') eqn:E; cbn.
  - apply str_eqb_eq in E; subst. exact Hn.
  - intros [H1|H1]; [subst; rewrite str_eqb_refl in E; discriminate|]. now apply IH.
Qed.
Lemma assoc_in_keys {V} k (d : list (pystr * V)) v : assoc k d = Some v -> In k (List.map fst d).
Proof. intro H. apply assoc_In' in H. apply (in_map fst) in H. exact H. Qed.

(* ================================================================ parameter equality *)
Lemma pv_eqb_eq a b : pv_eqb a b = true <-> a = b.
Proof.
  destruct a as [x|x], b as [y|y]; cbn; split; intro H; try discriminate; try congruence.
  - apply str_eqb_eq in H. congruence.
  - inversion H. apply str_eqb_refl.
  - apply (list_eqb_eq str_eqb str_eqb_eq) in H. congruence.
  - inversion H. now apply (list_eqb_eq str_eqb str_eqb_eq).
Qed.
Lemma binding_eqb_eq a b : binding_eqb a b = true <-> a = b.
Proof.
  destruct a as [k v], b as [k' v']. unfold binding_eqb. cbn [fst snd].
  rewrite andb_true_iff, str_eqb_eq, pv_eqb_eq. split; [intros [-> ->]; reflexivity|intro H; inversion H; auto].
Qed.
Lemma params_eqb_eq a b : params_eqb a b = true <-> a = b.
Proof. apply list_eqb_eq. apply binding_eqb_eq. Qed.

(* ================================================================ dict.update / strict restriction *)
Lemma update_cons d kv rest : update d (kv :: rest) = update (aset (fst kv) (snd kv) d) rest.
Proof. reflexivity. Qed.

Lemma update_other k other : forall d, assoc k other = None -> assoc k (update d other) = assoc k d.
Proof.
  induction other as [|[k0 v0] rest IH]; intros d H; [reflexivity|].
  rewrite update_cons. cbn [fst snd]. cbn in H. destruct (str_eqb k k0) eqn:E; [discriminate|].
  rewrite IH by exact H. apply assoc_aset_other. intro Heq; subst. rewrite str_eqb_refl in E. discriminate.
Qed.
Lemma update_get k x other : forall d, nodup_keys other = true -> assoc k other = Some x -> assoc k (update d other) = Some x.
Proof.
  induction other as [|[k0 v0] rest IH]; intros d Hn H; [discriminate|].
  rewrite update_cons. cbn [fst snd]. cbn in H, Hn. apply andb_true_iff in Hn as [Hn1 Hn2].
  destruct (str_eqb k k0) eqn:E.
  - inversion H; subst. apply str_eqb_eq in E; subst k0.
    rewrite update_other.
    + apply assoc_aset_same.
    + apply has_key_false. now apply negb_true_iff in Hn1.
  - now apply IH.
Qed.
Lemma update_keys k other : forall d, has_key k (update d other) = true -> has_key k d = true \/ has_key k other = true.
Proof.
  induction other as [|[k0 v0] rest IH]; intros d H; [left; exact H|].
  rewrite update_cons in H. cbn [fst snd] in H. apply IH in H. destruct H as [H|H].
  - destruct (str_eqb k k0) eqn:E.
    + right. unfold has_key. cbn. now rewrite E.
    + left. unfold has_key in *. rewrite assoc_aset_other in H; auto.
      intro Heq; subst. rewrite str_eqb_refl in E. discriminate.
  - right. unfold has_key in *. cbn. destruct (str_eqb k k0); auto.
Qed.
Lemma restrict_keys k d obj : has_key k (restrict d obj) = true -> has_key k obj = true.
Proof.
  unfold restrict. induction d as [|[k0 v0] r IH]; cbn; [discriminate|].
  destruct (has_key k0 obj) eqn:E; cbn; auto.
  unfold has_key at 1. cbn. destruct (str_eqb k k0) eqn:E2.
  - apply str_eqb_eq in E2; subst. now intros _.
  - exact IH.
Qed.

(* ================================================================ key selection and signature verification *)
Definition key_for (g : cfg) (i : pystr) (kt : kty) (n : nat) : Prop :=
  (exists ks, keys_of (jar g) i kt = Some ks /\ In n ks) \/ (kt = KOct /\ In n (own_keys (jar g) KOct)).

Lemma try_verify_ok cands alg claims sg n :
  try_verify cands alg claims sg = VOk n ->
  In n cands /\ exists s, sg = Some s /\ s_key s = n /\ s_alg s = alg /\ s_claims s = claims.
Proof.
  unfold try_verify.
  set (picked := match kid_of sg with Some k => filter (Nat.eqb k) cands | None => cands end).
  assert (Hsub : forall x, In x picked -> In x cands).
  { subst picked. destruct (kid_of sg); auto. intros x Hx. apply filter_In in Hx. tauto. }
  destruct picked as [|p ps] eqn:Ep; [discriminate|].
  destruct sg as [s|]; [|discriminate].
  destruct (existsb (Nat.eqb (s_key s)) (p :: ps) && str_eqb (s_alg s) alg && params_eqb (s_claims s) claims) eqn:E; [|discriminate].
  intro H; inversion H; subst n.
  apply andb_true_iff in E as [E E3]. apply andb_true_iff in E as [E1 E2].
  apply existsb_exists in E1 as [x [Hx1 Hx2]]. apply Nat.eqb_eq in Hx2. subst x.
  apply str_eqb_eq in E2. apply params_eqb_eq in E3.
  split; [now apply Hsub|]. exists s. auto.
Qed.

Lemma lookup_keys_for g i kt kid cands n :
  lookup_keys g (Some i) kt kid = Some cands -> In n cands -> key_for g i kt n.
Proof.
  unfold lookup_keys. destruct (keys_of (jar g) i kt) as [ks|] eqn:E; [|discriminate].
  intro H; inversion H; subst cands. clear H. intro Hin. apply in_app_or in Hin as [Hin|Hin].
  - left. exists ks. split; auto. destruct kid as [m|].
    + apply filter_In in Hin. tauto.
    + destruct ks as [|x [|y r]]; cbn in Hin; try contradiction. destruct Hin as [->|[]]. now left.
  - right. destruct kt; try contradiction. auto.
Qed.

Lemma iss_for_named claims fb i : assoc k_iss claims = Some (PS_ i) -> i <> [] -> iss_for claims fb = Some i.
Proof. unfold iss_for. intros -> H. destruct i; [congruence|reflexivity]. Qed.

(* what a verified request object is worth *)
Definition vr_ok (g : cfg) (v : vreq) : Prop :=
  claims_modelled (v_claims v) = true /\
  match v_key v with
  | None => alg_kind (v_alg v) = AlgNone
  | Some n => exists kt, alg_kind (v_alg v) = AlgK kt /\
                         forall i, assoc k_iss (v_claims v) = Some (PS_ i) -> i <> [] -> key_for g i kt n
  end.

Lemma from_jwt_ok g fb w v :
  from_jwt g fb w = FOk v ->
  exists alg claims sg, w = WObj alg claims sg /\ v_alg v = alg /\ v_claims v = claims /\ claims_modelled claims = true /\
    ((alg_kind alg = AlgNone /\ v_key v = None) \/
     (exists kt n s cands, alg_kind alg = AlgK kt /\ v_key v = Some n /\ sg = Some s /\ s_key s = n /\ s_alg s = alg
        /\ s_claims s = claims /\ lookup_keys g (iss_for claims fb) kt (kid_of sg) = Some cands /\ In n cands)).
Proof.
  unfold from_jwt. destruct w as [|alg claims sg]; [discriminate|].
  destruct (claims_modelled claims) eqn:Em; cbn [negb]; [|discriminate].
  destruct (alg_kind alg) as [|kt|] eqn:Ea; [| |discriminate].
  - intro H; inversion H; subst. exists alg, claims, sg. cbn. repeat split; auto.
  - destruct (lookup_keys g (iss_for claims fb) kt (kid_of sg)) as [[|c cs]|] eqn:El; try discriminate.
    destruct (try_verify (c :: cs) alg claims sg) as [n| |] eqn:Et; try discriminate.
    intro H; inversion H; subst. apply try_verify_ok in Et as [Hin [s [Hs [Hk [Hal Hcl]]]]].
    exists alg, claims, sg. cbn. repeat split; auto. right. exists kt, n, s, (c :: cs). repeat split; auto.
Qed.

Lemma from_jwt_vr_ok g fb w v : from_jwt g fb w = FOk v -> vr_ok g v.
Proof.
  intro H. apply from_jwt_ok in H as [alg [claims [sg [Hw [Ha [Hc [Hm H]]]]]]].
  unfold vr_ok. rewrite Hc, Ha. split; auto.
  destruct H as [[H1 H2]|[kt [n [s [cands [H1 [H2 [H3 [H4 [H5 [H6 [H7 H8]]]]]]]]]]]].
  - now rewrite H2.
  - rewrite H2. exists kt. split; auto. intros i Hi Hne.
    rewrite (iss_for_named _ fb _ Hi Hne) in H7. eapply lookup_keys_for; eauto.
Qed.

Lemma claims_modelled_nodup c : claims_modelled c = true -> nodup_keys c = true.
Proof. unfold claims_modelled. intro H. repeat (apply andb_true_iff in H as [H ?]). exact H. Qed.

(* ================================================================ requests that carry a verified object *)
Definition req_ok (g : cfg) (r : req) : Prop :=
  forall v, r_vr r = Some v ->
    vr_ok g v /\ forall k x, assoc k (v_claims v) = Some x -> assoc k (r_params r) = Some x.
Definition store_ok (g : cfg) (st : state) : Prop :=
  forall u e, In (u, e) (par_db st) -> req_ok g (e_req e).

Lemma merged_ok g fb w v d : from_jwt g fb w = FOk v -> req_ok g {| r_params := update d (v_claims v); r_vr := Some v |}.
Proof.
  intros H v' Hv. cbn in Hv. inversion Hv; subst v'. pose proof (from_jwt_vr_ok _ _ _ _ H) as Hok.
  split; auto. intros k x Hk. cbn. apply update_get; auto. apply claims_modelled_nodup. apply Hok.
Qed.

Lemma fres_exc_verify_not_acc f r : fres_exc_verify f = Acc r -> False.
Proof. destruct f; cbn; discriminate. Qed.

Lemma merge_obj_ok strict g p w r :
  merge_obj strict g p w = Acc r ->
  req_ok g r /\
  (r_vr r = None -> r_params r = p) /\
  (forall v, r_vr r = Some v -> exists w', w = Some w' /\ from_jwt g None w' = FOk v
       /\ r_params r = update (if strict then restrict p (v_claims v) else p) (v_claims v)).
Proof.
  unfold merge_obj. destruct (assoc k_request p) as [[s|l]|].
  - destruct w as [w'|]; [|discriminate]. destruct (from_jwt g None w') as [v| | | | | |] eqn:E; cbn; try discriminate.
    intro H; inversion H; subst r; clear H. split; [eapply merged_ok; eauto|]. split; [discriminate|].
    cbn. intros v0 Hv; inversion Hv; subst v0. exists w'. auto.
  - discriminate.
  - intro H; inversion H; subst r. split; [intros v Hv; discriminate|]. split; [reflexivity|]. cbn. discriminate.
Qed.

Lemma oidc_checks_acc r r' : oidc_checks r = Acc r' -> r' = r.
Proof.
  unfold oidc_checks. destruct (assoc k_response_type (r_params r)); [|discriminate].
  destruct (in_pv s_id_token (Some p)); [discriminate|].
  destruct (negb (in_pv s_openid (assoc k_scope (r_params r)))); [discriminate|].
  destruct (in_pv s_offline (assoc k_scope (r_params r))); [discriminate|].
  intro H; inversion H; reflexivity.
Qed.

Lemma verify_authz_acc g p w r :
  verify_authz g p w = Acc r -> merge_obj true g p w = Acc r.
Proof.
  unfold verify_authz. destruct (negb (outer_modelled p)); [discriminate|].
  destruct (missing_required (oidc g) p); [discriminate|].
  destruct (merge_obj true g p w) as [r0| | | |] eqn:E; try discriminate.
  destruct (oidc g); [|auto]. intro H. apply oidc_checks_acc in H. now subst.
Qed.

(* ---------------------------------------------------------------- distinct parameter names *)
Lemma k_redirect_ne_client : k_redirect_uri <> k_client_id.
Proof. intro H. vm_compute in H. discriminate. Qed.
Lemma k_client_ne_redirect : k_client_id <> k_redirect_uri.
Proof. intro H. vm_compute in H. discriminate. Qed.

(* ---------------------------------------------------------------- get_uri / post_parse *)
Lemma get_s_some k p s : get_s k p = Some s <-> assoc k p = Some (PS_ s).
Proof.
  unfold get_s. destruct (assoc k p) as [[x|x]|]; split; intro H; try discriminate; try congruence.
Qed.

Lemma get_uri_inl g r u :
  get_uri g r = inl u ->
  (exists c ci, assoc k_client_id (r_params r) = Some (PS_ c) /\ find_client (clients g) c = Some ci) /\
  (forall x, assoc k_redirect_uri (r_params r) = Some x -> x = PS_ u).
Proof.
  unfold get_uri. destruct (assoc k_redirect_uri (r_params r)) as [[u0|l]|] eqn:Er.
  - destruct (get_s k_client_id (r_params r)) as [c|] eqn:Ec; [|discriminate].
    apply get_s_some in Ec. destruct (find_client (clients g) c) as [ci|] eqn:Ef; [|discriminate].
    destruct (negb (simple_uri u0 && forallb simple_uri (c_redirect ci))); [discriminate|].
    intro H. assert (u = u0).
    { destruct (c_redirect ci) as [|a l].
      - destruct (oidc g); [discriminate|]. inversion H; auto.
      - destruct (str_in u0 (a :: l)); [|discriminate]. inversion H; auto. }
    subst u0. split; [eauto|]. intros x Hx. congruence.
  - discriminate.
  - destruct (assoc k_client_id (r_params r)) as [[c|l]|] eqn:Ec; try discriminate.
    destruct (find_client (clients g) c) as [ci|] eqn:Ef; [|discriminate].
    intro H. split; [eauto|]. intros x Hx. discriminate.
Qed.

Lemma get_uri_inr g r o r0 : get_uri g r = inr o -> o = Acc r0 -> False.
Proof.
  unfold get_uri. intros H Ho. subst o.
  repeat match goal with
  | H : context [match ?x with _ => _ end] |- _ => destruct x; try discriminate
  | H : context [if ?b then _ else _] |- _ => destruct b; try discriminate
  end.
Qed.

Lemma post_parse_acc g r cid r' :
  post_parse g r cid = Acc r' ->
  exists c ci u, cid = Some c /\ find_client (clients g) c = Some ci /\ get_uri g r = inl u /\
    r' = {| r_params := aset k_redirect_uri (PS_ u) (r_params r); r_vr := r_vr r |} /\
    (forall v, r_vr r = Some v -> belongs c r v = true /\ allowed g ci (v_alg v) = true).
Proof.
  unfold post_parse. destruct (r_params r) as [|b bs] eqn:Ep; [discriminate|]. rewrite <- Ep.
  destruct cid as [c|].
  2:{ destruct (has_key k_client_id (r_params r)); discriminate. }
  destruct (find_client (clients g) c) as [ci|] eqn:Ef.
  2:{ destruct (has_key k_client_id (r_params r)); discriminate. }
  destruct (negb match r_vr r with Some v => belongs c r v | None => true end) eqn:Eb; [discriminate|].
  destruct (negb match r_vr r with Some v => allowed g ci (v_alg v) | None => true end) eqn:Ea; [discriminate|].
  destruct (assoc k_response_type (r_params r)) as [[s|rt]|]; try discriminate.
  match goal with |- context [if ?b then _ else _] => destruct b end; [discriminate|].
  destruct (get_uri g r) as [u|o] eqn:Eu; [|intro H; exfalso; eapply get_uri_inr; eauto].
  intro H; inversion H; subst r'. exists c, ci, u. repeat split; auto.
  - apply negb_false_iff in Eb. rewrite H0 in Eb. exact Eb.
  - apply negb_false_iff in Ea. rewrite H0 in Ea. exact Ea.
Qed.

Lemma post_parse_req_ok g r cid r' : post_parse g r cid = Acc r' -> req_ok g r -> req_ok g r'.
Proof.
  intros H Hok. apply post_parse_acc in H as [c [ci [u [_ [_ [Hu [-> _]]]]]]].
  intros v Hv. cbn in Hv. destruct (Hok v Hv) as [H1 H2]. split; auto.
  intros k x Hk. cbn. specialize (H2 k x Hk).
  destruct (str_eqb_eq k_redirect_uri k) as [_ _].
  destruct (str_eqb k_redirect_uri k) eqn:E.
  - apply str_eqb_eq in E. subst k. apply get_uri_inl in Hu as [_ Hu]. rewrite (Hu _ H2). apply assoc_aset_same.
  - rewrite assoc_aset_other; auto. intro Heq. subst. rewrite str_eqb_refl in E. discriminate.
Qed.

(* ================================================================ _do_request_uri *)
Definition db_keys (st : state) : list pystr := List.map fst (par_db st).
Definition db_incl (st' st : state) : Prop := forall x, In x (par_db st') -> In x (par_db st).

Lemma db_incl_keys st' st u : db_incl st' st -> In u (db_keys st') -> In u (db_keys st).
Proof.
  unfold db_keys. intros H Hin. apply in_map_iff in Hin as [[u' e] [E Hin]]. cbn in E. subst u'.
  apply H in Hin. apply (in_map fst) in Hin. exact Hin.
Qed.
Lemma store_ok_incl g st' st : db_incl st' st -> store_ok g st -> store_ok g st'.
Proof. intros H Hs u e Hin. eapply Hs. apply H. exact Hin. Qed.

Ltac dru_cases H :=
  unfold do_request_uri in H;
  repeat match type of H with
  | context [match ?x with _ => _ end] => destruct x eqn:?
  | context [if ?b then _ else _] => destruct b eqn:?
  end; inversion H; subst; clear H.

Lemma dru_frame g d st r cid st' o via :
  do_request_uri g d st r cid = (st', o, via) ->
  now st' = now st /\ db_incl st' st /\ (NoDup (db_keys st) -> NoDup (db_keys st')).
Proof.
  intro H. dru_cases H; unfold db_incl, db_keys; cbn; repeat split; auto;
    try (intros x Hx; eapply in_adel; eauto); try (intro Hn; now apply nodup_adel).
Qed.

Lemma dru_via g d st r cid st' o u :
  do_request_uri g d st r cid = (st', o, Some u) ->
  exists e, In (u, e) (par_db st) /\ (now st <= e_exp e)%Z /\ o = Acc (e_req e)
            /\ assoc k_request_uri (r_params r) = Some (PS_ u)
            /\ (NoDup (db_keys st) -> ~ In u (db_keys st')).
Proof.
  intro H. dru_cases H.
  match goal with H : assoc _ (par_db st) = Some ?e |- _ => exists e; pose proof (assoc_In' _ _ _ H) end.
  repeat split; auto.
  - match goal with H : (_ <? _)%Z = false |- _ => apply Z.ltb_ge in H; exact H end.
  - unfold db_keys. cbn. intro Hn. now apply adel_removes.
Qed.

Lemma dru_req_ok g d st r cid st' r' via :
  do_request_uri g d st r cid = (st', Acc r', via) -> store_ok g st -> req_ok g r -> req_ok g r'.
Proof.
  intros H Hs Hr. dru_cases H; auto.
  - match goal with H : assoc _ (par_db st) = Some ?e |- _ => apply assoc_In' in H; eapply Hs; eauto end.
  - eapply merged_ok; eauto.
Qed.

(* ================================================================ the hook loop *)
Lemma par_request_uri_acc r r' : par_request_uri r = Acc r' -> r' = r.
Proof.
  unfold par_request_uri. destruct (assoc k_request_uri (r_params r)) as [[[|c s]|[|c l]]|]; intro H; inversion H; auto.
Qed.

Lemma rh_frame g d cid : forall hs st r via st' o via',
  run_hooks g d hs st r cid via = (st', o, via') ->
  now st' = now st /\ db_incl st' st /\ (NoDup (db_keys st) -> NoDup (db_keys st')).
Proof.
  induction hs as [|h rest IH]; intros st r via st' o via' H; cbn in H.
  - inversion H; subst. repeat split; auto. intros x Hx; exact Hx.
  - destruct h.
    + destruct (do_request_uri g d st r cid) as [[st1 o1] v1] eqn:E.
      apply dru_frame in E as [E1 [E2 E3]].
      destruct o1; try (inversion H; subst; repeat split; auto).
      apply IH in H as [H1 [H2 H3]]. repeat split; [congruence| |auto].
      intros x Hx. apply E2, H2, Hx.
    + destruct (par_request_uri r); try (inversion H; subst; repeat split; auto; intros x Hx; exact Hx).
      apply IH in H. exact H.
    + destruct (post_parse g r cid); try (inversion H; subst; repeat split; auto; intros x Hx; exact Hx).
      apply IH in H. exact H.
    + inversion H; subst. repeat split; auto. intros x Hx; exact Hx.
Qed.

Lemma rh_req_ok g d cid : forall hs st r via st' r' via',
  run_hooks g d hs st r cid via = (st', Acc r', via') -> store_ok g st -> req_ok g r -> req_ok g r'.
Proof.
  induction hs as [|h rest IH]; intros st r via st' r' via' H Hs Hr; cbn in H.
  - inversion H; subst. exact Hr.
  - destruct h.
    + destruct (do_request_uri g d st r cid) as [[st1 o1] v1] eqn:E.
      destruct o1; try discriminate.
      pose proof (dru_req_ok _ _ _ _ _ _ _ _ E Hs Hr) as Hr1.
      apply dru_frame in E as [_ [E2 _]].
      eapply IH; eauto. eapply store_ok_incl; eauto.
    + destruct (par_request_uri r) eqn:E; try discriminate.
      apply par_request_uri_acc in E. subst. eapply IH; eauto.
    + destruct (post_parse g r cid) eqn:E; try discriminate.
      eapply IH; eauto. eapply post_parse_req_ok; eauto.
    + discriminate.
Qed.

Lemma rh_via g d cid : forall hs st r via st' o u,
  run_hooks g d hs st r cid via = (st', o, Some u) ->
  via = Some u \/
  exists e, In (u, e) (par_db st) /\ (now st <= e_exp e)%Z /\ (NoDup (db_keys st) -> ~ In u (db_keys st')).
Proof.
  induction hs as [|h rest IH]; intros st r via st' o u H; cbn in H.
  - inversion H; subst. now left.
  - destruct h.
    + destruct (do_request_uri g d st r cid) as [[st1 o1] v1] eqn:E.
      destruct o1; try discriminate.
      pose proof (dru_frame _ _ _ _ _ _ _ _ E) as [F1 [F2 F3]].
      pose proof (rh_frame _ _ _ _ _ _ _ _ _ _ H) as [G1 [G2 G3]].
      apply IH in H. destruct H as [H|[e [H1 [H2 H3]]]].
      * destruct v1 as [u1|]; [|now left]. inversion H; subst u1.
        apply dru_via in E as [e [E1 [E2 [_ [_ E5]]]]]. right. exists e. repeat split; auto.
        intros Hn Hin. apply (E5 Hn). eapply db_incl_keys; eauto.
      * right. exists e. repeat split; [apply F2; exact H1|rewrite <- F1; exact H2|].
        intros Hn. apply H3. now apply F3.
    + destruct (par_request_uri r) eqn:E; try discriminate. eapply IH; eauto.
    + destruct (post_parse g r cid) eqn:E; try discriminate. eapply IH; eauto.
    + discriminate.
Qed.

Lemma rh_last g d cid : forall pre st r via st' r' via',
  run_hooks g d (pre ++ [HPostParse]) st r cid via = (st', Acc r', via') ->
  exists st0 r0 via0, run_hooks g d pre st r cid via = (st0, Acc r0, via0) /\ post_parse g r0 cid = Acc r' /\ st' = st0.
Proof.
  induction pre as [|h rest IH]; intros st r via st' r' via' H.
  - cbn in H. destruct (post_parse g r cid) eqn:E; try discriminate. inversion H; subst.
    exists st', r, via'. cbn. auto.
  - cbn in H. cbn [run_hooks]. destruct h.
    + destruct (do_request_uri g d st r cid) as [[st1 o1] v1] eqn:E. destruct o1; try discriminate.
      apply IH in H. exact H.
    + destruct (par_request_uri r) eqn:E; try discriminate. apply IH in H. exact H.
    + destruct (post_parse g r cid) eqn:E; try discriminate. apply IH in H. exact H.
    + discriminate.
Qed.
