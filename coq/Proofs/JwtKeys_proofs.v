(* Proofs/JwtKeys_proofs.v — an accepted JWT token names the provider and is signed with one of the provider's keys. *)
From Coq Require Import String List Bool Arith.
From Verif Require Import Lib.Base Lib.PyStr Lib.Crypto Model.JwtKeys.
Import ListNotations.

Lemma jar_has_In j owner k kind : jar_has j owner k kind = true ->
  exists e, In e j /\ jk_owner e = owner /\ jk_num e = k /\ jk_kind e = kind.
Proof.
  unfold jar_has. intro H. apply existsb_exists in H as (e&Hin&He).
  apply andb_true_iff in He as [He Hk]. apply andb_true_iff in He as [Ho Hn].
  exists e. split; auto. apply str_eqb_eq in Ho. apply Nat.eqb_eq in Hn.
  destruct (jk_kind e) eqn:E, kind; cbn in Hk; try discriminate; repeat split; auto.
  apply Nat.eqb_eq in Hk. now subst.
Qed.

(* with the issuer pin: whatever is accepted names the provider as issuer and was produced with a key the jar
   holds FOR THE PROVIDER, of the family the pinned algorithm takes *)
Theorem accepted_is_own j issuer pinned t m :
  jwt_verify true j issuer pinned t = Some m ->
  j_iss t = Some issuer /\ jalg_eqb (j_alg t) pinned = true /\
  exists e, In e j /\ jk_owner e = issuer /\
            ((exists f n, j_alg t = AlgAsym f n /\ jk_kind e = KAsym f /\ j_body t = Sig (jk_num e) m) \/
             (exists n, j_alg t = AlgHS n /\ jk_kind e = KSym /\ j_body t = Mac (jk_num e) m)).
Proof.
  unfold jwt_verify. destruct (jalg_eqb (j_alg t) pinned) eqn:Ea; cbn [negb]; [|discriminate].
  destruct (j_iss t) as [i|] eqn:Ei; [|discriminate].
  destruct (str_eqb i issuer) eqn:Es; cbn [negb andb]; [|discriminate]. apply str_eqb_eq in Es. subst i.
  destruct (j_alg t) as [|n|f n] eqn:Eg; try discriminate.
  - destruct (j_body t) as [| | | | |k b|] eqn:Eb; try discriminate.
    destruct (jar_has j issuer k KSym) eqn:Eh; [|discriminate]. intro H. inversion H; subst.
    apply jar_has_In in Eh as (e&Hin&Ho&Hn&Hk). repeat split; auto. exists e. repeat split; auto. right. exists n. subst. auto.
  - destruct (j_body t) as [| | | | | |k b] eqn:Eb; try discriminate.
    destruct (jar_has j issuer k (KAsym f)) eqn:Eh; [|discriminate]. intro H. inversion H; subst.
    apply jar_has_In in Eh as (e&Hin&Ho&Hn&Hk). repeat split; auto. exists e. repeat split; auto. left. exists f, n. subst. auto.
Qed.

(* hence a token produced with a key that the jar files under somebody else is never accepted *)
Corollary foreign_key_refused j issuer pinned t k m :
  (j_body t = Sig k m \/ j_body t = Mac k m) ->
  (forall e, In e j -> jk_owner e = issuer -> jk_num e <> k) ->
  jwt_verify true j issuer pinned t = None.
Proof.
  intros Hb Hf. destruct (jwt_verify true j issuer pinned t) as [m'|] eqn:E; auto. exfalso.
  apply accepted_is_own in E as (_&_&e&Hin&Ho&[(f&n&_&_&Hs)|(n&_&_&Hs)]);
    destruct Hb as [Hb|Hb]; rewrite Hb in Hs; inversion Hs; subst; eapply Hf; eauto.
Qed.

(* without the pin (the code before 785ab74) the statement is false: a client that registered a key of the
   handler's own algorithm family signs a token naming itself *)
Example unpinned_refuted :
  let j := [mkJarkey (PS "https://op") 0 (KAsym 1); mkJarkey (PS "client_1") 7 (KAsym 1)] in
  let t := mkJtok (AlgAsym 1 0) (Some (PS "client_1")) (Sig 7 (Atom (PS "sid of somebody"))) in
  jwt_verify false j (PS "https://op") (AlgAsym 1 0) t = Some (Atom (PS "sid of somebody"))
  /\ jwt_verify true j (PS "https://op") (AlgAsym 1 0) t = None.
Proof. split; reflexivity. Qed.
