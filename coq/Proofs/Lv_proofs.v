(* Proofs/Lv_proofs.v — round-trip and injectivity of the length:value codec and the session key codec. *)
From Verif Require Import Lib.Base Lib.PyStr Model.Lv.
Open Scope N_scope.

Lemma colon_not_digit d : forallb is_digit d = true -> forallb (fun c => negb (c =? colon)) d = true.
Proof.
  intros H. rewrite forallb_forall in *. intros c Hc. apply H in Hc. unfold is_digit in Hc.
  apply andb_true_iff in Hc as [A B]. apply N.leb_le in A, B. apply negb_true_iff, N.eqb_neq.
  unfold colon. lia.
Qed.

Lemma unpack_step f txt : txt <> [] ->
  unpack_loop (S f) txt =
  match split1_c colon txt with
  | None => Err ValueError
  | Some (l, v) => n <- py_int l ;; r <- unpack_loop f (slice_from n v) ;; Ok (slice_to n v :: r)
  end.
Proof. destruct txt; [congruence|reflexivity]. Qed.

Lemma pack_cons a l : lv_pack (a :: l) = str_of_nat (length a) ++ colon :: (a ++ lv_pack l).
Proof. cbn [lv_pack flat_map]. unfold pack1. now rewrite <- List.app_assoc. Qed.

Lemma slice_to_app a r : slice_to (Z.of_nat (length a)) (a ++ r) = a.
Proof.
  unfold slice_to. assert ((0 <=? Z.of_nat (length a))%Z = true) as -> by (apply Z.leb_le; lia).
  rewrite Nat2Z.id, firstn_app, firstn_all, Nat.sub_diag. cbn. apply List.app_nil_r.
Qed.
Lemma slice_from_app a r : slice_from (Z.of_nat (length a)) (a ++ r) = r.
Proof.
  unfold slice_from. assert ((0 <=? Z.of_nat (length a))%Z = true) as -> by (apply Z.leb_le; lia).
  rewrite Nat2Z.id, skipn_app, skipn_all, Nat.sub_diag. reflexivity.
Qed.

Lemma unpack_pack l : forall fuel, (length l < fuel)%nat -> unpack_loop fuel (lv_pack l) = Ok l.
Proof.
  induction l as [|a l IH]; intros fuel Hf; [destruct fuel; reflexivity|].
  destruct fuel as [|f]; [cbn in Hf; lia|].
  rewrite pack_cons. rewrite unpack_step.
  2:{ pose proof (str_of_nat_nonempty (length a)). destruct (str_of_nat (length a)); cbn; congruence. }
  rewrite split1_c_digits by (apply colon_not_digit, str_of_nat_digits).
  rewrite py_int_str_of_nat. cbn [bind].
  rewrite slice_from_app, slice_to_app. rewrite IH by (cbn in Hf; lia). reflexivity.
Qed.

Lemma pack_length l : (length l <= length (lv_pack l))%nat.
Proof.
  induction l as [|a l IH]; [cbn; lia|]. rewrite pack_cons. cbn [length].
  rewrite !List.app_length. cbn [length]. rewrite List.app_length.
  pose proof (str_of_nat_nonempty (length a)). destruct (str_of_nat (length a)); [congruence|cbn; lia].
Qed.

(* For every list of every string: unpacking a packed list gives the list back.  No guard:
   digits, colons, length-prefix mimicry, whitespace at either end, the empty string. *)
Theorem lv_roundtrip l : lv_unpack (lv_pack l) = Ok l.
Proof. unfold lv_unpack. apply unpack_pack. pose proof (pack_length l). lia. Qed.

Corollary lv_pack_injective l1 l2 : lv_pack l1 = lv_pack l2 -> l1 = l2.
Proof.
  intros E. pose proof (lv_roundtrip l1) as H1. rewrite E, lv_roundtrip in H1. congruence.
Qed.

(* ---- session key codec ---- *)
Theorem branch_key_roundtrip p k :
  p <> [] -> branch_key p = Ok k -> unpack_branch_key k = p.
Proof.
  unfold branch_key, unpack_branch_key. intros Hne.
  destruct (forallb (fun x => negb (last_is semi x)) (removelast p)) eqn:E1; cbn [negb]; [|discriminate].
  destruct (forallb (no_cc semi semi) p) eqn:E2; cbn [negb]; [|discriminate].
  intros H. inversion H; subst k. unfold divider. now apply split_cc_join.
Qed.

Theorem branch_key_injective p q k :
  p <> [] -> q <> [] -> branch_key p = Ok k -> branch_key q = Ok k -> p = q.
Proof.
  intros Hp Hq H1 H2. apply branch_key_roundtrip in H1; auto. apply branch_key_roundtrip in H2; auto.
  congruence.
Qed.

(* The guard refuses exactly the identifiers that would break the round trip of join/split:
   a refused path really does collide or mis-split (witnesses), so refusing is not vacuous strictness. *)
Example divider_inside_collides :
  join divider [[97;59;59;98]; [99]] = join divider [[97]; [98;59;59;99]].
Proof. reflexivity. Qed.
Example divider_inside_refused : branch_key [[97;59;59;98]; [99]] = Err ValueError.
Proof. reflexivity. Qed.
Example trailing_semi_missplits :
  split_cc semi semi (join divider [[97;59]; [98]]) = [[97]; [59;98]].
Proof. reflexivity. Qed.
Example branch_key_accepts : branch_key [[97]; [59;98]; [99;58;49;59]] = Ok [97;59;59;59;98;59;59;99;58;49;59].
Proof. reflexivity. Qed.

(* mimicry of the length prefix inside values does not confuse the codec *)
Example lv_mimic :
  lv_unpack (lv_pack [[51;58;97;98;99]; []; [55;58;120;32]; [58;58]; [32;10]])
  = Ok [[51;58;97;98;99]; []; [55;58;120;32]; [58;58]; [32;10]].
Proof. vm_compute. reflexivity. Qed.

(* ---- session identifiers ---- *)
Theorem sid_roundtrip rnd p t : p <> [] -> sid_plain rnd p = Ok t -> sid_path t = Ok p.
Proof.
  unfold sid_plain, sid_path. intros Hne H. destruct (branch_key p) as [k| |] eqn:Ek; cbn [bind] in H; try discriminate.
  injection H as Ht. subst t. change (pack1 rnd ++ pack1 k ++ [48; colon]) with (lv_pack [rnd; k; []]). rewrite lv_roundtrip. cbn [bind]. f_equal. now apply branch_key_roundtrip.
Qed.

Theorem sid_injective r1 r2 p q t :
  p <> [] -> q <> [] -> sid_plain r1 p = Ok t -> sid_plain r2 q = Ok t -> p = q.
Proof.
  intros Hp Hq H1 H2. apply sid_roundtrip in H1; auto. apply sid_roundtrip in H2; auto. congruence.
Qed.

(* ---- the framing of a branch identifier is immune to the encrypter's blank padding ---- *)
Lemma rstrip_blanks_repeat n : rstrip_blanks (repeat blank n) = [].
Proof. induction n as [|n IH]; cbn; [reflexivity|]. rewrite IH. reflexivity. Qed.
Lemma rstrip_blanks_keep s c t : c <> blank -> rstrip_blanks t = [] -> rstrip_blanks (s ++ c :: t) = s ++ [c].
Proof.
  intros Hc Ht. induction s as [|x s IH]; cbn [app rstrip_blanks].
  - rewrite Ht. destruct (N.eqb c blank) eqn:E; [apply N.eqb_eq in E; contradiction|reflexivity].
  - rewrite IH. destruct s; reflexivity.
Qed.
Lemma sid_plain_ends_in_colon rnd p t : sid_plain rnd p = Ok t -> exists s, t = s ++ [colon].
Proof.
  unfold sid_plain. destruct (branch_key p) as [k| |]; cbn [bind]; try discriminate. intros H. injection H as Ht. subst t.
  exists (pack1 rnd ++ pack1 k ++ [48]). rewrite <- !app_assoc. reflexivity.
Qed.
(* whatever number of blanks the encrypter appends, what it hands back after stripping is the plaintext itself *)
Theorem sid_through_encrypter rnd p t n : sid_plain rnd p = Ok t -> through_encrypter n t = t.
Proof.
  intros H. destruct (sid_plain_ends_in_colon _ _ _ H) as [s ->]. unfold through_encrypter.
  rewrite <- app_assoc. cbn [app]. apply rstrip_blanks_keep; [discriminate|apply rstrip_blanks_repeat].
Qed.
(* ... so the identifier resolves to exactly its path: also when the last identifier of the path ends in blanks,
   consists of blanks only, or the key is empty *)
Theorem sid_padding_immune rnd p t n : p <> [] -> sid_plain rnd p = Ok t -> sid_path (through_encrypter n t) = Ok p.
Proof. intros N H. rewrite (sid_through_encrypter _ _ _ n H). eapply sid_roundtrip; eauto. Qed.
(* identifiers minted with the framing before the repair still decode *)
Theorem sid_legacy_decodes rnd p t : p <> [] -> sid_plain_legacy rnd p = Ok t -> sid_path t = Ok p.
Proof.
  unfold sid_plain_legacy, sid_path. intros Hne H. destruct (branch_key p) as [k| |] eqn:Ek; cbn [bind] in H; try discriminate.
  injection H as Ht. subst t. change (pack1 rnd ++ pack1 k ++ []) with (lv_pack [rnd; k]). rewrite lv_roundtrip. cbn [bind]. f_equal. now apply branch_key_roundtrip.
Qed.
(* ... but that framing was not immune: the identifier of user "trail " came back as the identifier of user "trail" *)
Example sid_legacy_refuted :
  sid_plain_legacy [114] [[116;114;97;105;108;32]] = Ok [49;58;114;54;58;116;114;97;105;108;32]
  /\ sid_path (through_encrypter 5 [49;58;114;54;58;116;114;97;105;108;32]) = Ok [[116;114;97;105;108]].
Proof. split; vm_compute; reflexivity. Qed.
Example sid_blanks_only :
  exists t, sid_plain [114] [[32;32]; [32]] = Ok t /\ sid_path (through_encrypter 7 t) = Ok [[32;32]; [32]].
Proof. eexists. split; vm_compute; reflexivity. Qed.
