(* Proofs/MsgDecl_proofs.v — C11: the declared schema tables (Gen/SchemaDecl.v, from the source text) equal the
   run-time tables (Gen/Schema.v, from the class objects after importing the whole package); computed on every run,
   so an import-time change of a class's schema by ANOTHER class body or module breaks `declared_is_runtime`. *)
From Coq Require Import String List.
From Verif Require Import Lib.Base Lib.PyStr Lib.MsgSchema Gen.Schema Gen.SchemaDecl
  Model.Msg Model.MsgDecl Proofs.Msg_proofs Proofs.MsgTable_proofs.
Import ListNotations.

(* every class body was evaluated: no statement shape outside the evaluator's subset (fail closed) *)
Lemma declared_all_evaluated : decl_refused = [].
Proof. vm_compute. reflexivity. Qed.

(* same classes, same order, once each *)
Lemma declared_same_classes : same_classes declared_schemas all_classes = true.
Proof. vm_compute. reflexivity. Qed.

(* THE TIE, entry by entry: no (class, table, key) on which the declared and the run-time tables differ.
   A failure of this lemma prints the list of differing entries. *)
Lemma declared_no_drift : drift declared_schemas all_classes = [].
Proof. vm_compute. reflexivity. Qed.

(* THE TIE as an equality of tables: rebuilding every class of the run-time table from the tables its source declares changes nothing *)
Lemma declared_is_runtime : declared_view declared_schemas all_classes = List.map Some all_classes.
Proof. vm_compute. reflexivity. Qed.

(* generic consequences *)
Lemma declared_view_In ds cs :
  declared_view ds cs = List.map Some cs -> forall c, In c cs -> with_declared ds c = Some c.
Proof.
  unfold declared_view. induction cs as [|x r IH]; cbn; intros H c Hc; [contradiction|].
  inversion H as [[H1 H2]]. destruct Hc as [E|Hc]; [subst x; exact H1|]. now apply IH.
Qed.

Lemma declared_of_class c :
  In c all_classes ->
  exists d, assoc (c_name c) declared_schemas = Some d /\ as_declared c d = c.
Proof.
  intros Hc. pose proof (declared_view_In _ _ declared_is_runtime c Hc) as H.
  revert H. unfold with_declared, dschema. destruct (assoc (c_name c) declared_schemas) as [d|]; intros H; [|discriminate H].
  exists d. split; [reflexivity|]. injection H as E. exact E.
Qed.

(* ... per table *)
Lemma declared_tables_of_class c :
  In c all_classes ->
  exists ps al df, assoc (c_name c) declared_schemas = Some (ps, al, df)
                   /\ c_params c = ps /\ c_allowed c = al /\ c_default c = df.
Proof.
  intros Hc. destruct (declared_of_class c Hc) as ([[ps al] df] & A & E).
  exists ps, al, df. split; [exact A|]. rewrite <- E. cbn. repeat split.
Qed.

(* what the generic check accepts satisfies the schema AS DECLARED IN THE SOURCE (and only that) *)
Theorem generic_enforces_declared c m :
  In c all_classes ->
  exists d, assoc (c_name c) declared_schemas = Some d /\
            (generic_verify c m = Ok tt <-> schema_ok (as_declared c d) m = true).
Proof.
  intros Hc. destruct (declared_of_class c Hc) as (d & A & E).
  exists d. split; [exact A|]. rewrite E. apply generic_verify_iff.
Qed.

(* ... for the class-level verify(): whatever the class's own rules do, an accepted message satisfied the declared
   schema before the rules (parent called first) or satisfies it as it stands afterwards (parent called last) *)
Theorem class_verify_enforces_declared c rules m m' :
  In c all_classes -> class_verify rules c m = Ok m' ->
  exists d, assoc (c_name c) declared_schemas = Some d /\
            (schema_ok (as_declared c d) m = true \/ schema_ok (as_declared c d) m' = true).
Proof.
  intros Hc Hv. destruct (declared_of_class c Hc) as (d & A & E).
  exists d. split; [exact A|]. rewrite E.
  destruct (all_classes_reach_generic c rules m m' Hc Hv) as [G|G]; [left|right]; now apply generic_verify_iff.
Qed.

(* the tie is not vacuous: a table that differs in ONE required flag is told apart (the run-time table of a class
   whose `code` has been made optional by another class body is not the declared one) *)
Definition relax (k : pystr) (p : param) : param :=
  if str_eqb k (p_name p) then mkP (p_name p) (p_ty p) false (p_ser p) (p_deser p) (p_null p) else p.
Definition relax_class (n k : pystr) (c : mclass) : mclass :=
  if str_eqb n (c_name c)
  then mkC (c_name c) (c_bases c) (List.map (relax k) (c_params c)) (c_allowed c) (c_default c)
           (c_overrides_verify c) (c_chains c) (c_chain_pos c)
  else c.
Lemma declared_tie_discriminates :
  let cs := List.map (relax_class (PS "idpyoidc.message.oauth2.AccessTokenResponse") (PS "access_token")) all_classes in
  declared_view declared_schemas cs <> List.map Some cs.
Proof. vm_compute. discriminate. Qed.
