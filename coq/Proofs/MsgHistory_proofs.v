(* Proofs/MsgHistory_proofs.v — the model's side of history-independence (Model/MsgHistory.v). *)
From Coq Require Import String Lia.
From Verif Require Import Lib.Base Lib.PyStr Lib.MsgSchema Gen.Schema Model.Msg Model.MsgCheck Model.MsgHistory
  Proofs.Msg_proofs.
Open Scope string_scope.

(* a reading answers from the wire form alone, whatever the process holds *)
Lemma hstep_reading st e r : recv_out e = Some r -> hstep st e = ((st ++ [held r])%list, OMsg r).
Proof. intros H. unfold hstep. rewrite H. reflexivity. Qed.

Lemma reading_state_independent st st' e r :
  recv_out e = Some r -> snd (hstep st e) = OMsg r /\ snd (hstep st' e) = snd (hstep st e).
Proof. intros H. rewrite (hstep_reading st e r H), (hstep_reading st' e r H). split; reflexivity. Qed.

Lemma hrun_app st a b :
  hrun st (a ++ b) = let '(st1, o1) := hrun st a in let '(st2, o2) := hrun st1 b in (st2, (o1 ++ o2)%list).
Proof.
  revert st. induction a as [|e a IH]; intros st; simpl.
  - destruct (hrun st b); reflexivity.
  - destruct (hstep st e) as [st1 o]. rewrite IH.
    destruct (hrun st1 a) as [st2 os]. destruct (hrun st2 b) as [st3 os']. reflexivity.
Qed.

(* ... so the last answer of any history that ends with a reading is the model's answer for that wire form *)
Lemma last_reading es st e r :
  recv_out e = Some r -> last (snd (hrun st (es ++ [e]))) ONone = OMsg r.
Proof.
  intros H. rewrite hrun_app. destruct (hrun st es) as [st1 o1]. simpl.
  rewrite (hstep_reading st1 e r H). simpl. apply last_last.
Qed.

Lemma last_reading_two es es' st st' e r :
  recv_out e = Some r ->
  last (snd (hrun st (es ++ [e]))) ONone = last (snd (hrun st' (es' ++ [e]))) ONone.
Proof. intros H. rewrite (last_reading es st e r H), (last_reading es' st' e r H). reflexivity. Qed.

(* an edit stays in its slot: no other instance the process holds changes, none appears or disappears *)
Lemma upd_slot_other i f st j : i <> j -> nth_error (upd_slot i f st) j = nth_error st j.
Proof.
  revert i j. induction st as [|x r IH]; intros i j N; destruct i; simpl; try reflexivity.
  - destruct j; [congruence | reflexivity].
  - destruct j; [reflexivity | simpl; apply IH; congruence].
Qed.
Lemma upd_slot_length i f st : length (upd_slot i f st) = length st.
Proof. revert i. induction st as [|x r IH]; intros i; destruct i; simpl; auto. Qed.

Lemma edit_local st e j :
  match e with HSet i _ _ | HDel i _ => i <> j | _ => False end ->
  nth_error (fst (hstep st e)) j = nth_error st j /\ length (fst (hstep st e)) = length st.
Proof.
  destruct e; simpl; try contradiction; intros N; split;
    auto using upd_slot_other, upd_slot_length.
Qed.

(* serialising an instance leaves everything the process holds as it was *)
Lemma send_keeps_store st e :
  match e with HToDict _ _ | HToUrl _ _ => True | _ => False end -> fst (hstep st e) = st.
Proof. destruct e; simpl; try contradiction; reflexivity. Qed.

(* ---- the round-trip theorems at the end of an arbitrary history ---- *)
Lemma with_class_found {A} n c (f : mclass -> res A) : find_class n all_classes = Some c -> with_class n f = f c.
Proof. intros H. unfold with_class. rewrite H. reflexivity. Qed.

Lemma history_dict_roundtrip n c :
  find_class n all_classes = Some c -> forall m, valid_msg c m = true -> forall es st,
  exists d r, to_dict c m = Ok d /\ last (snd (hrun st (es ++ [HConstruct n d]))) ONone = OMsg (Ok r) /\ same_entries r m.
Proof.
  intros F m V es st. destruct (dict_roundtrip c m V) as (d & r & Hd & Hc & Hs).
  exists d, r. split; [exact Hd|]. split; [|exact Hs].
  rewrite (last_reading es st (HConstruct n d) (m_construct (n, d)) eq_refl).
  unfold m_construct. simpl. rewrite (with_class_found n c _ F). rewrite Hc. reflexivity.
Qed.

Lemma history_nested_roundtrip n c :
  find_class n all_classes = Some c -> forall m f, valid_msg c m = true -> f <> WUrl -> forall es st,
  exists d r, to_dict c m = Ok d /\ last (snd (hrun st (es ++ [HOneOf n f (VDict d)]))) ONone = OMsg (Ok r) /\ same_entries r m.
Proof.
  intros F m f V N es st. destruct (nested_dict_roundtrip c m f V N) as (d & r & Hd & Hc & Hs).
  exists d, r. split; [exact Hd|]. split; [|exact Hs].
  rewrite (last_reading es st (HOneOf n f (VDict d)) (m_one_of (n, f, VDict d)) eq_refl).
  unfold m_one_of. rewrite (with_class_found n c _ F). rewrite Hc. reflexivity.
Qed.

Lemma history_urlencoded_roundtrip n c :
  find_class n all_classes = Some c -> forall m, valid_form c m = true -> list_elems_no_space c m = true -> forall es st,
  exists t r, to_urlencoded c m = Ok t /\ last (snd (hrun st (es ++ [HFromUrl n t]))) ONone = OMsg (Ok r) /\ form_entries_of r m.
Proof.
  intros F m V G es st. destruct (urlencoded_roundtrip c m V G) as (t & r & Ht & Hc & Hs).
  exists t, r. split; [exact Ht|]. split; [|exact Hs].
  rewrite (last_reading es st (HFromUrl n t) (m_from_url (n, t)) eq_refl).
  unfold m_from_url. simpl. rewrite (with_class_found n c _ F). rewrite Hc. reflexivity.
Qed.
