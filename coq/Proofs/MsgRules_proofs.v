(* Proofs/MsgRules_proofs.v — the class-specific verify() rules of Model/MsgRules.v. *)
From Coq Require Import String.
From Verif Require Import Lib.Base Lib.PyStr Lib.Qs Lib.MsgSchema Model.Msg Model.MsgRules Proofs.Msg_proofs.
Open Scope N_scope.

Lemma run_checks_iff l : run_checks l = Ok tt <-> all_hold l = true.
Proof.
  induction l as [|[b e] r IH]; cbn; [tauto|]. destruct b; cbn; [exact IH|]. split; discriminate.
Qed.

Ltac bind_ok H :=
  match type of H with
  | (_ <- ?r ;; _) = Ok _ => let E := fresh "E" in destruct r eqn:E; cbn [bind] in H; try discriminate H
  end.

(* ---- a rule set of the shape  generic/parent ; typed guard ; ordered checks ---- *)
Lemma guarded_checks_iff (parent : res unit) (typed : bool) l :
  typed = true ->
  ((_ <- parent ;; if negb typed then Unmodelled else run_checks l) = Ok tt
   <-> parent = Ok tt /\ all_hold l = true).
Proof.
  intros ->. cbn [negb]. destruct parent as [[]|e|]; cbn [bind].
  - rewrite run_checks_iff. tauto.
  - split; [discriminate|intros [H _]; discriminate].
  - split; [discriminate|intros [H _]; discriminate].
Qed.

(* ResponseMessage: generic schema + the error_description alphabet *)
Theorem response_verify_iff c m :
  response_typed m = true ->
  (response_verify c m = Ok tt <-> generic_verify c m = Ok tt /\ all_hold (response_checks m) = true).
Proof. intros T. unfold response_verify. now apply guarded_checks_iff. Qed.

(* AuthorizationResponse: client_id / iss equal to the expected ones when both are known *)
Theorem authzresp_verify_iff c kw m :
  authzresp_verify c kw m = Ok tt <-> response_verify c m = Ok tt /\ all_hold (authzresp_checks kw m) = true.
Proof.
  unfold authzresp_verify. destruct (response_verify c m) as [[]|e|]; cbn [bind].
  - rewrite run_checks_iff. tauto.
  - split; [discriminate|intros [H _]; discriminate].
  - split; [discriminate|intros [H _]; discriminate].
Qed.

(* RegistrationResponse: registration_client_uri and registration_access_token both or neither *)
Theorem regresp_verify_iff c m :
  regresp_verify c m = Ok tt <->
  response_verify c m = Ok tt /\ has "registration_client_uri" m = has "registration_access_token" m.
Proof.
  unfold regresp_verify. destruct (response_verify c m) as [[]|e|]; cbn [bind].
  - rewrite run_checks_iff. unfold all_hold, regresp_checks. cbn [forallb fst]. rewrite andb_true_r.
    rewrite Bool.eqb_true_iff. tauto.
  - split; [discriminate|intros [H _]; discriminate].
  - split; [discriminate|intros [H _]; discriminate].
Qed.

(* ProviderConfigurationResponse: accepted exactly when the parent accepts and every rule holds *)
Theorem pcr_verify_iff c allow m :
  pcr_typed m = true ->
  (pcr_verify c allow m = Ok tt <-> response_verify c m = Ok tt /\ all_hold (pcr_checks allow m) = true).
Proof. intros T. unfold pcr_verify. now apply guarded_checks_iff. Qed.

(* ... in particular: the code flow AND every hybrid flow (a response type that contains "code")
   require a token endpoint; the issuer is https (unless allow_http) without query or fragment;
   openid is among the advertised scopes; no "none" for client authentication; a real id_token
   signing algorithm *)
Theorem pcr_accepts_only c allow m :
  pcr_typed m = true -> pcr_verify c allow m = Ok tt ->
  let issuer := match get "issuer" m with Some (VStr s) => s | _ => [] end in
  let rts := strs (list_of (get "response_types_supported" m)) in
  (forall rt, In rt rts -> contains (PS "code") rt = true -> has "token_endpoint" m = true)
  /\ (allow = false -> fst (url_scheme_rest issuer) = PS "https")
  /\ url_query (snd (url_scheme_rest issuer)) = [] /\ url_fragment (snd (url_scheme_rest issuer)) = []
  /\ (has "scopes_supported" m = true -> In (PS "openid") (strs (list_of (get "scopes_supported" m))))
  /\ ~ In (PS "none") (strs (list_of (get "token_endpoint_auth_signing_alg_values_supported" m)))
  /\ (exists a, In a (strs (list_of (get "id_token_signing_alg_values_supported" m))) /\ lower a <> PS "none").
Proof.
  intros T V. apply (pcr_verify_iff c allow m T) in V as [_ H].
  unfold all_hold, pcr_checks in H. cbn [forallb fst] in H.
  repeat (apply andb_true_iff in H as [?H H]). clear H.
  cbv zeta. repeat split.
  - intros rt Hin Hc. apply orb_true_iff in H6 as [N|N]; [|exact N].
    apply negb_true_iff in N. assert (X : existsb (fun rt0 => contains (PS "code") rt0)
      (strs (list_of (get "response_types_supported" m))) = true) by (apply existsb_exists; eauto). congruence.
  - intros ->. cbn [orb] in H2. now apply str_eqb_eq in H2.
  - apply andb_true_iff in H5 as [Q _]. apply negb_true_iff in Q. destruct (url_query _); [reflexivity|discriminate].
  - apply andb_true_iff in H5 as [_ Q]. apply negb_true_iff in Q. destruct (url_fragment _); [reflexivity|discriminate].
  - intros Hs. rewrite Hs in H0. cbn [negb orb] in H0. now apply str_in_In in H0.
  - intros I. apply str_in_In in I. rewrite I in H3. discriminate.
  - apply existsb_exists in H4 as [a [Ia Na]]. exists a. split; [exact Ia|].
    apply negb_true_iff in Na. now apply str_eqb_neq in Na.
Qed.

(* IdToken / JsonWebToken / LogoutToken: accepted exactly when the parent accepts and all rules hold *)
Theorem idtoken_verify_iff c now kw m :
  idtoken_typed kw m = true ->
  (idtoken_verify c now kw m = Ok tt <->
   (exists b, openid_verify c m = Ok b) /\ all_hold (idtoken_checks now kw m) = true).
Proof.
  intros T. unfold idtoken_verify. rewrite T. cbn [negb].
  destruct (openid_verify c m) as [b|e|]; cbn [bind].
  - rewrite run_checks_iff. split; [intros H; split; eauto|tauto].
  - split; [discriminate|intros [[b H] _]; discriminate].
  - split; [discriminate|intros [[b H] _]; discriminate].
Qed.
(* the time rules, spelled out *)
Theorem idtoken_time_rules c now kw m :
  idtoken_typed kw m = true -> idtoken_verify c now kw m = Ok tt ->
  let skew := kw_int "skew" 0%Z kw in
  let exp := int_of (get "exp" m) in let iat := int_of (get "iat" m) in
  (now - skew <= exp /\ iat <= now + skew /\ now - skew <= iat + kw_int "nonce_storage_time" NONCE_STORAGE_TIME kw
   /\ iat <= exp)%Z.
Proof.
  intros T V. apply (idtoken_verify_iff c now kw m T) in V as [_ H].
  unfold all_hold, idtoken_checks in H. cbv zeta in H. cbn [forallb fst] in H.
  repeat (apply andb_true_iff in H as [?H H]). clear H.
  cbv zeta. apply negb_true_iff in H5, H7, H8, H9. apply Z.ltb_ge in H5, H7, H8, H9. lia.
Qed.

Theorem jwt_verify_iff c now kw m :
  jwt_typed kw m = true ->
  (jwt_verify c now kw m = Ok tt <-> generic_verify c m = Ok tt /\ all_hold (jwt_checks now kw m) = true).
Proof. intros T. unfold jwt_verify. now apply guarded_checks_iff. Qed.

Theorem logout_verify_iff c now kw m :
  logout_typed kw m = true ->
  (logout_verify c now kw m = Ok tt <-> generic_verify c m = Ok tt /\ all_hold (logout_checks now kw m) = true).
Proof. intros T. unfold logout_verify. now apply guarded_checks_iff. Qed.
Theorem logout_accepts_only c now kw m :
  logout_typed kw m = true -> logout_verify c now kw m = Ok tt ->
  has "nonce" m = false /\ get "events" m = Some (VDict [(logout_event, VDict [])])
  /\ (has "sub" m = true \/ has "sid" m = true).
Proof.
  intros T V. apply (logout_verify_iff c now kw m T) in V as [_ H].
  unfold logout_typed in T. repeat (apply andb_true_iff in T as [T ?T]).
  unfold all_hold, logout_checks in H. cbv zeta in H. cbn [forallb fst] in H.
  repeat (apply andb_true_iff in H as [?H H]). clear H.
  split; [now apply negb_true_iff in H0|]. split; [|now apply orb_true_iff in H4].
  destruct (get "events" m) as [[| | | | |d|]|]; try discriminate.
  destruct d as [|[k v] r]; [discriminate|]. destruct r; [|discriminate].
  apply str_eqb_eq in H2. subst k. destruct v as [| | | | |d'|]; try discriminate. destruct d'; [reflexivity|discriminate].
Qed.

(* EndSessionRequest: a post-logout redirect without an id_token_hint is never accepted *)
Theorem endsession_accepts_only c m :
  endsession_verify c m = Ok true ->
  generic_verify c m = Ok tt /\ (has "post_logout_redirect_uri" m = true -> False).
Proof.
  unfold endsession_verify. destruct (generic_verify c m) as [[]|e|]; cbn [bind]; try discriminate.
  set (m1 := adel _ _). intros H. split; [reflexivity|]. intros P.
  assert (P1 : has "post_logout_redirect_uri" m1 = true).
  { unfold m1, has, has_key. rewrite !assoc_adel_other by (intro X; vm_compute in X; discriminate). exact P. }
  rewrite P1 in H. cbn [andb] in H. destruct (has "id_token_hint" m1); cbn in H; discriminate.
Qed.

(* RegistrationRequest: an accepted request (defaults filled in) has an *_alg for every *_enc, no
   "none" for client authentication and an https initiate_login_uri *)
Lemma enc_pair_spec p m m' : enc_pair p m = Ok m' ->
  enc_has_alg p m' = true /\ (m' = m \/ m' = aset (PS (p ++ "_enc")) default_enc m).
Proof.
  unfold enc_pair, enc_has_alg.
  destruct (has_key (PS (p ++ "_alg")) m && negb (has_key (PS (p ++ "_enc")) m)) eqn:A.
  - destruct (has_key (PS (p ++ "_enc")) (aset (PS (p ++ "_enc")) default_enc m) &&
              negb (has_key (PS (p ++ "_alg")) (aset (PS (p ++ "_enc")) default_enc m))) eqn:B; [discriminate|].
    intros H. inversion H; subst m'. split; [|now right].
    apply andb_false_iff in B as [B|B]; [rewrite B; reflexivity|]. apply negb_false_iff in B. rewrite B. apply implb_true_r.
  - destruct (has_key (PS (p ++ "_enc")) m && negb (has_key (PS (p ++ "_alg")) m)) eqn:B; [discriminate|].
    intros H. inversion H; subst m'. split; [|now left].
    apply andb_false_iff in B as [B|B]; [rewrite B; reflexivity|]. apply negb_false_iff in B. rewrite B. apply implb_true_r.
Qed.

Lemma has_key_aset_other {V} k k' (v : V) m : k <> k' -> has_key k' (aset k v m) = has_key k' m.
Proof. intros H. unfold has_key. now rewrite (assoc_aset_other k k' v m H). Qed.
Lemma assoc_key_ne a b : str_eqb a b = false -> a <> b.
Proof. apply str_eqb_neq. Qed.

Ltac ne := apply assoc_key_ne; vm_compute; reflexivity.

Lemma enc_has_alg_keep p q m :
  PS (q ++ "_enc") <> PS (p ++ "_enc") -> PS (q ++ "_enc") <> PS (p ++ "_alg") ->
  enc_has_alg p (aset (PS (q ++ "_enc")) default_enc m) = enc_has_alg p m.
Proof. intros A B. unfold enc_has_alg. now rewrite !has_key_aset_other by assumption. Qed.

Theorem regreq_accepts_only c m m' : regreq_verify c m = Ok m' -> regreq_post m' = true.
Proof.
  unfold regreq_verify.
  destruct (generic_verify c m) as [[]|e|]; cbn [bind]; try discriminate.
  destruct (regreq_typed m); cbn [negb]; [|discriminate].
  destruct (match get "initiate_login_uri" m with Some (VStr s) => starts_with (PS "https:") s | _ => true end) eqn:ILU;
    cbn [run_checks bind]; [|discriminate].
  destruct (enc_pair "request_object_encryption" m) as [m1|e|] eqn:E1; cbn [bind]; try discriminate.
  destruct (enc_pair "id_token_encrypted_response" m1) as [m2|e|] eqn:E2; cbn [bind]; try discriminate.
  destruct (enc_pair "userinfo_encrypted_response" m2) as [m3|e|] eqn:E3; cbn [bind]; try discriminate.
  destruct (negb (str_is (get "token_endpoint_auth_signing_alg" m3) (PS "none"))) eqn:T; cbn [run_checks bind]; [|discriminate].
  intros H. inversion H; subst m'. clear H.
  destruct (enc_pair_spec _ _ _ E1) as [A1 S1]. destruct (enc_pair_spec _ _ _ E2) as [A2 S2].
  destruct (enc_pair_spec _ _ _ E3) as [A3 S3].
  assert (K1 : enc_has_alg "request_object_encryption" m3 = true).
  { destruct S3 as [->| ->]; [|rewrite enc_has_alg_keep by ne];
      (destruct S2 as [->| ->]; [|rewrite enc_has_alg_keep by ne]; exact A1). }
  assert (K2 : enc_has_alg "id_token_encrypted_response" m3 = true).
  { destruct S3 as [->| ->]; [|rewrite enc_has_alg_keep by ne]; exact A2. }
  assert (I : get "initiate_login_uri" m3 = get "initiate_login_uri" m).
  { unfold get.
    destruct S3 as [->| ->]; [|rewrite assoc_aset_other by ne];
      (destruct S2 as [->| ->]; [|rewrite assoc_aset_other by ne];
         (destruct S1 as [->| ->]; [|rewrite assoc_aset_other by ne]; reflexivity)). }
  unfold regreq_post. rewrite K1, K2, A3, T, I, ILU. reflexivity.
Qed.
