(* Proofs/MsgRules_proofs.v — the class-specific verify() rules of Model/MsgRules.v. *)
From Coq Require Import String.
From Verif Require Import Lib.Base Lib.PyStr Lib.Qs Lib.MsgSchema Model.Msg Model.MsgRules Proofs.Msg_proofs.
Open Scope N_scope.

Lemma run_checks_iff l : run_checks l = Ok tt <-> all_hold l = true.
Proof.
  induction l as [|[b e] r IH]; cbn; [tauto|]. destruct b; cbn; [exact IH|]. split; discriminate.
Qed.

Ltac bind_ok H :=
  match type of H with
  | (_ <- ?r ;; _) = Ok _ => let E := fresh "E" in destruct r eqn:E; cbn [bind] in H; try discriminate H
  end.

(* ---- a rule set of the shape  generic/parent ; typed guard ; ordered checks ---- *)
Lemma guarded_checks_iff (parent : res unit) (typed : bool) l :
  typed = true ->
  ((_ <- parent ;; if negb typed then Unmodelled else run_checks l) = Ok tt
   <-> parent = Ok tt /\ all_hold l = true).
Proof.
  intros ->. cbn [negb]. destruct parent as [[]|e|]; cbn [bind].
  - rewrite run_checks_iff. tauto.
  - split; [discriminate|intros [H _]; discriminate].
  - split; [discriminate|intros [H _]; discriminate].
Qed.

(* ResponseMessage: generic schema + the error_description alphabet *)
Theorem response_verify_iff c m :
  response_typed m = true ->
  (response_verify c m = Ok tt <-> generic_verify c m = Ok tt /\ all_hold (response_checks m) = true).
Proof. intros T. unfold response_verify. now apply guarded_checks_iff. Qed.

(* AuthorizationResponse: client_id / iss equal to the expected ones when both are known *)
Theorem authzresp_verify_iff c kw m :
  authzresp_verify c kw m = Ok tt <-> response_verify c m = Ok tt /\ all_hold (authzresp_checks kw m) = true.
Proof.
  unfold authzresp_verify. destruct (response_verify c m) as [[]|e|]; cbn [bind].
  - rewrite run_checks_iff. tauto.
  - split; [discriminate|intros [H _]; discriminate].
  - split; [discriminate|intros [H _]; discriminate].
Qed.

(* RegistrationResponse: registration_client_uri and registration_access_token both or neither *)
Theorem regresp_verify_iff c m :
  regresp_verify c m = Ok tt <->
  response_verify c m = Ok tt /\ has "registration_client_uri" m = has "registration_access_token" m.
Proof.
  unfold regresp_verify. destruct (response_verify c m) as [[]|e|]; cbn [bind].
  - rewrite run_checks_iff. unfold all_hold, regresp_checks. cbn [forallb fst]. rewrite andb_true_r.
    rewrite Bool.eqb_true_iff. tauto.
  - split; [discriminate|intros [H _]; discriminate].
  - split; [discriminate|intros [H _]; discriminate].
Qed.

(* ProviderConfigurationResponse: accepted exactly when the parent accepts and every rule holds *)
Theorem pcr_verify_iff c allow m :
  pcr_typed m = true ->
  (pcr_verify c allow m = Ok tt <-> response_verify c m = Ok tt /\ all_hold (pcr_checks allow m) = true).
Proof. intros T. unfold pcr_verify. now apply guarded_checks_iff. Qed.

(* ... in particular: the code flow AND every hybrid flow (a response type that contains "code")
   require a token endpoint; the issuer is https (unless allow_http) without query or fragment;
   openid is among the advertised scopes; no "none" for client authentication; a real id_token
   signing algorithm *)
Theorem pcr_accepts_only c allow m :
  pcr_typed m = true -> pcr_verify c allow m = Ok tt ->
  let issuer := match get "issuer" m with Some (VStr s) => s | _ => [] end in
  let rts := strs (list_of (get "response_types_supported" m)) in
  (forall rt, In rt rts -> contains (PS "code") rt = true -> has "token_endpoint" m = true)
  /\ (allow = false -> fst (url_scheme_rest issuer) = PS "https")
  /\ url_query (snd (url_scheme_rest issuer)) = [] /\ url_fragment (snd (url_scheme_rest issuer)) = []
  /\ (has "scopes_supported" m = true -> In (PS "openid") (strs (list_of (get "scopes_supported" m))))
  /\ ~ In (PS "none") (strs (list_of (get "token_endpoint_auth_signing_alg_values_supported" m)))
  /\ (exists a, In a (strs (list_of (get "id_token_signing_alg_values_supported" m))) /\ lower a <> PS "none").
Proof.
  intros T V. apply (pcr_verify_iff c allow m T) in V as [_ H].
  unfold all_hold, pcr_checks in H. cbn [forallb fst] in H.
  repeat (apply andb_true_iff in H as [?H H]). clear H.
  cbv zeta. repeat split.
  - intros rt Hin Hc. apply orb_true_iff in H6 as [N|N]; [|exact N].
    apply negb_true_iff in N. assert (X : existsb (fun rt0 => contains (PS "code") rt0)
      (strs (list_of (get "response_types_supported" m))) = true) by (apply existsb_exists; eauto). congruence.
  - intros ->. cbn [orb] in H2. now apply str_eqb_eq in H2.
  - apply andb_true_iff in H5 as [Q _]. apply negb_true_iff in Q. destruct (url_query _); [reflexivity|discriminate].
  - apply andb_true_iff in H5 as [_ Q]. apply negb_true_iff in Q. destruct (url_fragment _); [reflexivity|discriminate].
  - intros Hs. rewrite Hs in H0. cbn [negb orb] in H0. now apply str_in_In in H0.
  - intros I. apply str_in_In in I. rewrite I in H3. discriminate.
  - apply existsb_exists in H4 as [a [Ia Na]]. exists a. split; [exact Ia|].
    apply negb_true_iff in Na. now apply str_eqb_neq in Na.
Qed.

(* IdToken / JsonWebToken / LogoutToken: accepted exactly when the parent accepts and all rules hold *)
Theorem idtoken_verify_iff c now kw m :
  idtoken_typed kw m = true ->
  (idtoken_verify c now kw m = Ok tt <->
   (exists b, openid_verify c m = Ok b) /\ all_hold (idtoken_checks now kw m) = true).
Proof.
  intros T. unfold idtoken_verify. rewrite T. cbn [negb].
  destruct (openid_verify c m) as [b|e|]; cbn [bind].
  - rewrite run_checks_iff. split; [intros H; split; eauto|tauto].
  - split; [discriminate|intros [[b H] _]; discriminate].
  - split; [discriminate|intros [[b H] _]; discriminate].
Qed.
(* the time rules, spelled out *)
Theorem idtoken_time_rules c now kw m :
  idtoken_typed kw m = true -> idtoken_verify c now kw m = Ok tt ->
  let skew := kw_int "skew" 0%Z kw in
  let exp := int_of (get "exp" m) in let iat := int_of (get "iat" m) in
  (now - skew <= exp /\ iat <= now + skew /\ now - skew <= iat + kw_int "nonce_storage_time" NONCE_STORAGE_TIME kw
   /\ iat <= exp)%Z.
Proof.
  intros T V. apply (idtoken_verify_iff c now kw m T) in V as [_ H].
  unfold all_hold, idtoken_checks in H. cbv zeta in H. cbn [forallb fst] in H.
  repeat (apply andb_true_iff in H as [?H H]). clear H.
  cbv zeta. apply negb_true_iff in H5, H7, H8, H9. apply Z.ltb_ge in H5, H7, H8, H9. lia.
Qed.

Theorem jwt_verify_iff c now kw m :
  jwt_typed kw m = true ->
  (jwt_verify c now kw m = Ok tt <-> generic_verify c m = Ok tt /\ all_hold (jwt_checks now kw m) = true).
Proof. intros T. unfold jwt_verify. now apply guarded_checks_iff. Qed.

Theorem logout_verify_iff c now kw m :
  logout_typed kw m = true ->
  (logout_verify c now kw m = Ok tt <-> generic_verify c m = Ok tt /\ all_hold (logout_checks now kw m) = true).
Proof. intros T. unfold logout_verify. now apply guarded_checks_iff. Qed.
Theorem logout_accepts_only c now kw m :
  logout_typed kw m = true -> logout_verify c now kw m = Ok tt ->
  has "nonce" m = false /\ get "events" m = Some (VDict [(logout_event, VDict [])])
  /\ (has "sub" m = true \/ has "sid" m = true).
Proof.
  intros T V. apply (logout_verify_iff c now kw m T) in V as [_ H].
  unfold logout_typed in T. repeat (apply andb_true_iff in T as [T ?T]).
  unfold all_hold, logout_checks in H. cbv zeta in H. cbn [forallb fst] in H.
  repeat (apply andb_true_iff in H as [?H H]). clear H.
  split; [now apply negb_true_iff in H0|]. split; [|now apply orb_true_iff in H4].
  destruct (get "events" m) as [[| | | | |d|]|]; try discriminate.
  destruct d as [|[k v] r]; [discriminate|]. destruct r; [|discriminate].
  apply str_eqb_eq in H2. subst k. destruct v as [| | | | |d'|]; try discriminate. destruct d'; [reflexivity|discriminate].
Qed.

(* EndSessionRequest: a post-logout redirect without an id_token_hint is never accepted *)
Theorem endsession_accepts_only c m :
  endsession_verify c m = Ok true ->
  generic_verify c m = Ok tt /\ (has "post_logout_redirect_uri" m = true -> False).
Proof.
  unfold endsession_verify. destruct (generic_verify c m) as [[]|e|]; cbn [bind]; try discriminate.
  set (m1 := adel _ _). intros H. split; [reflexivity|]. intros P.
  assert (P1 : has "post_logout_redirect_uri" m1 = true).
  { unfold m1, has, has_key. rewrite !assoc_adel_other by (intro X; vm_compute in X; discriminate). exact P. }
  rewrite P1 in H. cbn [andb] in H. destruct (has "id_token_hint" m1); cbn in H; discriminate.
Qed.

(* RegistrationRequest: an accepted request (defaults filled in) has an *_alg for every *_enc, no
   "none" for client authentication and an https initiate_login_uri *)
Lemma enc_pair_spec p m m' : enc_pair p m = Ok m' ->
  enc_has_alg p m' = true /\ (m' = m \/ m' = aset (PS (p ++ "_enc")) default_enc m).
Proof.
  unfold enc_pair, enc_has_alg.
  destruct (has_key (PS (p ++ "_alg")) m && negb (has_key (PS (p ++ "_enc")) m)) eqn:A.
  - destruct (has_key (PS (p ++ "_enc")) (aset (PS (p ++ "_enc")) default_enc m) &&
              negb (has_key (PS (p ++ "_alg")) (aset (PS (p ++ "_enc")) default_enc m))) eqn:B; [discriminate|].
    intros H. inversion H; subst m'. split; [|now right].
    apply andb_false_iff in B as [B|B]; [rewrite B; reflexivity|]. apply negb_false_iff in B. rewrite B. apply implb_true_r.
  - destruct (has_key (PS (p ++ "_enc")) m && negb (has_key (PS (p ++ "_alg")) m)) eqn:B; [discriminate|].
    intros H. inversion H; subst m'. split; [|now left].
    apply andb_false_iff in B as [B|B]; [rewrite B; reflexivity|]. apply negb_false_iff in B. rewrite B. apply implb_true_r.
Qed.

Lemma has_key_aset_other {V} k k' (v : V) m : k <> k' -> has_key k' (aset k v m) = has_key k' m.
Proof. intros H. unfold has_key. now rewrite (assoc_aset_other k k' v m H). Qed.
Lemma assoc_key_ne a b : str_eqb a b = false -> a <> b.
Proof. apply str_eqb_neq. Qed.

Ltac ne := apply assoc_key_ne; vm_compute; reflexivity.

Lemma enc_has_alg_keep p q m :
  PS (q ++ "_enc") <> PS (p ++ "_enc") -> PS (q ++ "_enc") <> PS (p ++ "_alg") ->
  enc_has_alg p (aset (PS (q ++ "_enc")) default_enc m) = enc_has_alg p m.
Proof. intros A B. unfold enc_has_alg. now rewrite !has_key_aset_other by assumption. Qed.

Theorem regreq_accepts_only c m m' : regreq_verify c m = Ok m' -> regreq_post m' = true.
Proof.
  unfold regreq_verify.
  destruct (generic_verify c m) as [[]|e|]; cbn [bind]; try discriminate.
  destruct (regreq_typed m); cbn [negb]; [|discriminate].
  destruct (match get "initiate_login_uri" m with Some (VStr s) => starts_with (PS "https:") s | _ => true end) eqn:ILU;
    cbn [run_checks bind]; [|discriminate].
  destruct (enc_pair "request_object_encryption" m) as [m1|e|] eqn:E1; cbn [bind]; try discriminate.
  destruct (enc_pair "id_token_encrypted_response" m1) as [m2|e|] eqn:E2; cbn [bind]; try discriminate.
  destruct (enc_pair "userinfo_encrypted_response" m2) as [m3|e|] eqn:E3; cbn [bind]; try discriminate.
  destruct (negb (str_is (get "token_endpoint_auth_signing_alg" m3) (PS "none"))) eqn:T; cbn [run_checks bind]; [|discriminate].
  intros H. inversion H; subst m'. clear H.
  destruct (enc_pair_spec _ _ _ E1) as [A1 S1]. destruct (enc_pair_spec _ _ _ E2) as [A2 S2].
  destruct (enc_pair_spec _ _ _ E3) as [A3 S3].
  assert (K1 : enc_has_alg "request_object_encryption" m3 = true).
  { destruct S3 as [->| ->]; [|rewrite enc_has_alg_keep by ne];
      (destruct S2 as [->| ->]; [|rewrite enc_has_alg_keep by ne]; exact A1). }
  assert (K2 : enc_has_alg "id_token_encrypted_response" m3 = true).
  { destruct S3 as [->| ->]; [|rewrite enc_has_alg_keep by ne]; exact A2. }
  assert (I : get "initiate_login_uri" m3 = get "initiate_login_uri" m).
  { unfold get.
    destruct S3 as [->| ->]; [|rewrite assoc_aset_other by ne];
      (destruct S2 as [->| ->]; [|rewrite assoc_aset_other by ne];
         (destruct S1 as [->| ->]; [|rewrite assoc_aset_other by ne]; reflexivity)). }
  unfold regreq_post. rewrite K1, K2, A3, T, I, ILU. reflexivity.
Qed.

(* ================= oidc.AuthorizationResponse / AccessTokenResponse with a signed ID Token ================= *)
Lemma pyval_eqb_str_r s v : pyval_eqb v (VStr s) = true -> v = VStr s.
Proof. destruct v; cbn; try discriminate. intros H. apply str_eqb_eq in H. now subst. Qed.

Lemma all_hold_app a b : all_hold (a ++ b) = all_hold a && all_hold b.
Proof. apply forallb_app. Qed.

(* one hash rule holds: a textual parameter in the response comes with the claim, and the claim is the left
   hash of the parameter under the hash that goes with the signing algorithm *)
Lemma hash_rule_holds lh alg param claim bad m idt :
  all_hold (hash_rule lh alg param claim bad m idt) = true ->
  (has param m = true -> has claim idt = true)
  /\ (forall v, get param m = Some (VStr v) -> get claim idt = Some (VStr (lh (hash_bits alg) v))).
Proof.
  unfold all_hold, hash_rule. cbn [forallb fst]. rewrite andb_true_r. intros H.
  apply andb_true_iff in H as [H1 H2]. split.
  - intros P. rewrite P in H1. exact H1.
  - intros v G. rewrite G in H2. destruct (get claim idt) as [h|]; [|discriminate].
    apply pyval_eqb_str_r in H2. now subst.
Qed.
(* ... and conversely *)
Lemma hash_rule_holds_conv lh alg param claim bad m idt :
  match get param m with Some (VStr _) | None => true | _ => false end = true ->
  (forall v, get param m = Some (VStr v) -> get claim idt = Some (VStr (lh (hash_bits alg) v))) ->
  all_hold (hash_rule lh alg param claim bad m idt) = true.
Proof.
  intros T H. unfold all_hold, hash_rule, has, has_key, get in *. cbn [forallb fst]. rewrite andb_true_r.
  destruct (assoc (PS param) m) as [[| | |v| | |]|]; try discriminate; cbn [implb andb]; [|reflexivity].
  rewrite (H v eq_refl). cbn [implb andb]. cbn. apply str_eqb_refl.
Qed.

Lemma get_clear_verified k m :
  PS k <> verified_id_token -> PS k <> PS "__verified_id_token_hint" -> PS k <> PS "__verified_request" ->
  get k (clear_verified m) = get k m.
Proof. intros A B C. unfold get, clear_verified. now rewrite !assoc_adel_other by assumption. Qed.
Lemma has_clear_verified k m :
  PS k <> verified_id_token -> PS k <> PS "__verified_id_token_hint" -> PS k <> PS "__verified_request" ->
  has k (clear_verified m) = has k m.
Proof. intros A B C. unfold has, has_key. fold (get k (clear_verified m)). fold (get k m). now rewrite get_clear_verified. Qed.

(* verify_id_token on a token whose signature verifies, inside the modelled fragment: accepted exactly when the
   algorithm policy, the issuer check, the construction of the IdToken, IdToken.verify AND - with check_hash -
   EACH of the two hash rules hold *)
Theorem verify_id_token_iff lh issuers ic now ch kw alg p m o s :
  idt_kw_modelled kw = true -> hash_typed m = true -> get "id_token" m = Some (VStr s) ->
  hash_alg_modelled alg = true ->
  (verify_id_token lh issuers ic now ch kw (TJws SigValid alg p) m = Ok o <->
   idt_alg_allowed kw alg = Ok tt /\ idt_issuer_known issuers p = Ok tt /\ construct ic p = Ok o
   /\ idtoken_verify ic now kw o = Ok tt
   /\ (ch = true -> all_hold (at_hash_rule lh alg m o) = true /\ all_hold (c_hash_rule lh alg m o) = true)).
Proof.
  intros K T I A. unfold verify_id_token, id_token_open. rewrite K, I, A, T. cbn [negb bind fst snd].
  destruct (idt_alg_allowed kw alg) as [[]|e|]; cbn [bind];
    [|split; [discriminate|intros [H _]; discriminate]|split; [discriminate|intros [H _]; discriminate]].
  destruct (idt_issuer_known issuers p) as [[]|e|]; cbn [bind];
    [|split; [discriminate|intros (_ & H & _); discriminate]|split; [discriminate|intros (_ & H & _); discriminate]].
  destruct (construct ic p) as [o'|e|]; cbn [bind];
    [|split; [discriminate|intros (_ & _ & H & _); discriminate]|split; [discriminate|intros (_ & _ & H & _); discriminate]].
  destruct (idtoken_verify ic now kw o') as [[]|e|] eqn:V; cbn [bind].
  - destruct ch.
    + unfold hash_rules. destruct (run_checks (at_hash_rule lh alg m o' ++ c_hash_rule lh alg m o')) as [[]|e|] eqn:R; cbn [bind].
      * apply run_checks_iff in R. rewrite all_hold_app in R. apply andb_true_iff in R.
        split.
        -- intros H. inversion H; subst o'. split; [reflexivity|]. split; [reflexivity|]. split; [reflexivity|].
           split; [exact V|]. intros _. exact R.
        -- intros (_ & _ & H & _). exact H.
      * split; [discriminate|]. intros (_ & _ & H & _ & Hh). inversion H; subst o'.
        destruct (Hh eq_refl) as [Ha Hc].
        assert (X : run_checks (at_hash_rule lh alg m o ++ c_hash_rule lh alg m o) = Ok tt)
          by (apply run_checks_iff; rewrite all_hold_app, Ha, Hc; reflexivity).
        rewrite X in R. discriminate.
      * split; [discriminate|]. intros (_ & _ & H & _ & Hh). inversion H; subst o'.
        destruct (Hh eq_refl) as [Ha Hc].
        assert (X : run_checks (at_hash_rule lh alg m o ++ c_hash_rule lh alg m o) = Ok tt)
          by (apply run_checks_iff; rewrite all_hold_app, Ha, Hc; reflexivity).
        rewrite X in R. discriminate.
    + cbn [bind]. split.
      * intros H. inversion H; subst o'. split; [reflexivity|]. split; [reflexivity|]. split; [reflexivity|].
        split; [exact V|]. discriminate.
      * intros (_ & _ & H & _). exact H.
  - split; [discriminate|]. intros (_ & _ & H & H' & _). inversion H; subst o'. congruence.
  - split; [discriminate|]. intros (_ & _ & H & H' & _). inversion H; subst o'. congruence.
Qed.

(* what an ACCEPTING verify_id_token with check_hash means, for any token and message: the token carries a
   valid signature, and BOTH hash rules hold - independently of each other *)
Theorem verify_id_token_accepts_only lh issuers ic now kw t m o :
  verify_id_token lh issuers ic now true kw t m = Ok o ->
  exists alg p, t = TJws SigValid alg p /\ construct ic p = Ok o /\ idtoken_verify ic now kw o = Ok tt
    /\ hash_typed m = true
    /\ all_hold (c_hash_rule lh alg m o) = true /\ all_hold (at_hash_rule lh alg m o) = true.
Proof.
  unfold verify_id_token. destruct (idt_kw_modelled kw); cbn [negb]; [|discriminate].
  destruct (get "id_token" m) as [[| | |s| | |]|]; try discriminate.
  unfold id_token_open. destruct t as [sg alg p|p|i|]; try discriminate. destruct sg; try discriminate.
  destruct (hash_alg_modelled alg); [|discriminate]. cbn [bind fst snd].
  destruct (idt_alg_allowed kw alg) as [[]|e|]; cbn [bind]; try discriminate.
  destruct (idt_issuer_known issuers p) as [[]|e|]; cbn [bind]; try discriminate.
  destruct (construct ic p) as [o'|e|] eqn:Ec; cbn [bind]; try discriminate.
  destruct (idtoken_verify ic now kw o') as [[]|e|] eqn:Ev; cbn [bind]; try discriminate.
  destruct (hash_typed m) eqn:Et; cbn [negb]; [|discriminate].
  destruct (run_checks (hash_rules lh alg m o')) as [[]|e|] eqn:R; cbn [bind]; try discriminate.
  intros H. inversion H; subst o'. apply run_checks_iff in R. unfold hash_rules in R. rewrite all_hold_app in R.
  apply andb_true_iff in R as [Ra Rc]. exists alg, p. repeat split; try assumption; reflexivity.
Qed.

(* oidc.AuthorizationResponse.verify: an accepted response that carries an ID Token carries a SIGNED one, the
   verified token is stored under the marker key, and the two bindings hold each on its own: a code in the
   response is the one the token's c_hash names, an access token is the one its at_hash names *)
Theorem authzresp_idt_hashes lh issuers c ic now kw t m m' :
  oidc_authzresp_verify_idt lh issuers c ic now kw t m = Ok (true, m') -> has "id_token" m = true ->
  exists alg p o, t = TJws SigValid alg p /\ construct ic p = Ok o
    /\ m' = aset verified_id_token (VObj o) (clear_verified m)
    /\ authzresp_verify c kw m = Ok tt /\ idtoken_verify ic now kw o = Ok tt
    /\ all_hold (c_hash_rule lh alg (clear_verified m) o) = true
    /\ all_hold (at_hash_rule lh alg (clear_verified m) o) = true
    /\ (has "code" m = true ->
        exists v, get "code" m = Some (VStr v) /\ get "c_hash" o = Some (VStr (lh (hash_bits alg) v)))
    /\ (has "access_token" m = true ->
        exists v, get "access_token" m = Some (VStr v) /\ get "at_hash" o = Some (VStr (lh (hash_bits alg) v))).
Proof.
  unfold oidc_authzresp_verify_idt. intros H I.
  destruct (authzresp_verify c kw m) as [[]|e|]; cbn [bind] in H; try discriminate.
  destruct (aud_for_me kw (clear_verified m)) as [mine|e|]; cbn [bind] in H; try discriminate.
  destruct mine; cbn [negb] in H; [|discriminate].
  rewrite has_clear_verified in H by ne. rewrite I in H. cbn [negb] in H.
  destruct (verify_id_token lh issuers ic now true kw t (clear_verified m)) as [o|e|] eqn:V; cbn [bind] in H; try discriminate.
  inversion H; subst m'. clear H.
  apply verify_id_token_accepts_only in V as (alg & p & -> & Hc & Hv & Ht & Rc & Ra).
  exists alg, p, o. repeat split; try assumption; try reflexivity.
  - intros P. destruct (hash_rule_holds _ _ _ _ _ _ _ Rc) as [_ Hh].
    unfold hash_typed in Ht. apply andb_true_iff in Ht as [Tc _].
    rewrite get_clear_verified in Tc by ne.
    unfold has, has_key in P. fold (get "code" m) in P.
    destruct (get "code" m) as [[| | |v| | |]|] eqn:G; try discriminate.
    exists v. split; [reflexivity|]. apply Hh. rewrite get_clear_verified by ne. exact G.
  - intros P. destruct (hash_rule_holds _ _ _ _ _ _ _ Ra) as [_ Hh].
    unfold hash_typed in Ht. apply andb_true_iff in Ht as [_ Tt].
    rewrite get_clear_verified in Tt by ne.
    unfold has, has_key in P. fold (get "access_token" m) in P.
    destruct (get "access_token" m) as [[| | |v| | |]|] eqn:G; try discriminate.
    exists v. split; [reflexivity|]. apply Hh. rewrite get_clear_verified by ne. exact G.
Qed.

(* oidc.AccessTokenResponse.verify calls verify_id_token WITHOUT check_hash: no hash rule applies, its answer does
   not depend on the hash function at all *)
Theorem tokenresp_idt_no_hash_rule lh lh' issuers c ic now kw t m :
  oidc_tokenresp_verify_idt lh issuers c ic now kw t m = oidc_tokenresp_verify_idt lh' issuers c ic now kw t m.
Proof. reflexivity. Qed.

(* ================= rules over a SET of parameters =================
   Each predicate on the presence list says something about the NUMBER of present members - for every list length
   and every presence pattern (induction on the list, not enumeration) - and does not depend on the order in which
   the members are named. *)
From Coq Require Import Permutation.

Lemma count_true_cons b r : count_true (b :: r) = ((if b then 1 else 0) + count_true r)%nat.
Proof. destruct b; reflexivity. Qed.
Lemma count_true_le_length l : (count_true l <= length l)%nat.
Proof. induction l as [|b r IH]; [cbn; lia|]. rewrite count_true_cons. cbn [length]. destruct b; lia. Qed.

(* the loop of Message.has_none_or_one_of with its latched flag, from any state of the flag *)
Lemma none_or_one_go_count found l :
  none_or_one_go found l = true <-> (count_true l + (if found then 1 else 0) <= 1)%nat.
Proof.
  revert found. induction l as [|b r IH]; intros found.
  - cbn. destruct found; split; intros; try reflexivity; lia.
  - rewrite count_true_cons. destruct b; cbn [none_or_one_go].
    + destruct found.
      * split; [discriminate|lia].
      * rewrite IH. lia.
    + rewrite IH. lia.
Qed.

(* has_none_or_one_of: AT MOST ONE member present *)
Theorem has_none_or_one_of_iff l : has_none_or_one_of l = true <-> (count_true l <= 1)%nat.
Proof. unfold has_none_or_one_of. rewrite none_or_one_go_count. lia. Qed.
Theorem has_none_or_one_of_false_iff l : has_none_or_one_of l = false <-> (2 <= count_true l)%nat.
Proof.
  destruct (has_none_or_one_of l) eqn:E.
  - apply has_none_or_one_of_iff in E. split; [discriminate|lia].
  - split; [intros _|reflexivity]. destruct (Nat.le_gt_cases (count_true l) 1) as [H|H]; [|lia].
    apply has_none_or_one_of_iff in H. congruence.
Qed.
Theorem has_at_least_one_of_iff l : has_at_least_one_of l = true <-> (1 <= count_true l)%nat.
Proof.
  unfold has_at_least_one_of. induction l as [|b r IH]; [cbn; split; [discriminate|lia]|].
  rewrite count_true_cons. cbn [existsb]. destruct b; cbn [orb]; [split; [lia|reflexivity]|]. rewrite IH. lia.
Qed.
Theorem has_none_of_iff l : has_none_of l = true <-> count_true l = 0%nat.
Proof.
  unfold has_none_of. rewrite negb_true_iff. fold (has_at_least_one_of l).
  destruct (has_at_least_one_of l) eqn:E.
  - apply has_at_least_one_of_iff in E. split; [discriminate|lia].
  - split; [intros _|reflexivity]. destruct (count_true l) eqn:C; [reflexivity|].
    assert (X : has_at_least_one_of l = true) by (apply has_at_least_one_of_iff; lia). congruence.
Qed.
Theorem has_all_of_iff l : has_all_of l = true <-> count_true l = length l.
Proof.
  unfold has_all_of. induction l as [|b r IH]; [cbn; tauto|].
  rewrite count_true_cons. cbn [forallb length]. pose proof (count_true_le_length r). destruct b; cbn [andb].
  - rewrite IH. lia.
  - split; [discriminate|lia].
Qed.
Theorem has_all_or_none_of_iff l :
  has_all_or_none_of l = true <-> count_true l = 0%nat \/ count_true l = length l.
Proof. unfold has_all_or_none_of. rewrite orb_true_iff, has_all_of_iff, has_none_of_iff. tauto. Qed.
Theorem has_exactly_one_of_iff l : has_exactly_one_of l = true <-> count_true l = 1%nat.
Proof. unfold has_exactly_one_of. rewrite andb_true_iff, has_at_least_one_of_iff, has_none_or_one_of_iff. lia. Qed.

(* the order in which the members are named does not matter *)
Lemma count_true_perm l l' : Permutation l l' -> count_true l = count_true l'.
Proof. induction 1; rewrite ?count_true_cons; lia. Qed.
Theorem has_none_or_one_of_perm l l' : Permutation l l' -> has_none_or_one_of l = has_none_or_one_of l'.
Proof.
  intros P. apply eq_true_iff_eq. rewrite !has_none_or_one_of_iff, (count_true_perm _ _ P). tauto.
Qed.
Theorem msg_has_none_or_one_of_perm ks ks' m :
  Permutation ks ks' -> msg_has_none_or_one_of ks m = msg_has_none_or_one_of ks' m.
Proof. intros P. apply has_none_or_one_of_perm. unfold presence. now apply Permutation_map. Qed.
(* ... and the helper on a message: true exactly when at most one of the named parameters is in the message *)
Theorem msg_has_none_or_one_of_iff ks m :
  msg_has_none_or_one_of ks m = true <-> (count_true (presence ks m) <= 1)%nat.
Proof. apply has_none_or_one_of_iff. Qed.

(* ---- the classes' rules through the set predicates ---- *)
(* RegistrationResponse: ALL OR NONE of registration_client_uri / registration_access_token *)
Lemma regresp_rule_set m :
  Bool.eqb (has "registration_client_uri" m) (has "registration_access_token" m)
  = has_all_or_none_of (presence [PS "registration_client_uri"; PS "registration_access_token"] m).
Proof.
  unfold has, presence, has_all_or_none_of, has_all_of, has_none_of. cbn [List.map forallb existsb].
  destruct (has_key (PS "registration_client_uri") m), (has_key (PS "registration_access_token") m); reflexivity.
Qed.
Theorem regresp_set_rule c m :
  regresp_verify c m = Ok tt <->
  response_verify c m = Ok tt
  /\ let n := count_true (presence [PS "registration_client_uri"; PS "registration_access_token"] m) in
     (n = 0 \/ n = 2)%nat.
Proof.
  rewrite regresp_verify_iff. cbv zeta. rewrite <- (Bool.eqb_true_iff (has _ m)), regresp_rule_set.
  rewrite has_all_or_none_of_iff. reflexivity.
Qed.

(* LogoutToken: AT LEAST ONE of sub / sid *)
Theorem logout_set_rule c now kw m :
  logout_typed kw m = true -> logout_verify c now kw m = Ok tt ->
  (1 <= count_true (presence [PS "sub"; PS "sid"] m))%nat.
Proof.
  intros T V. destruct (logout_accepts_only c now kw m T V) as (_ & _ & H).
  apply has_at_least_one_of_iff. unfold has_at_least_one_of, presence, has in *. cbn [List.map existsb].
  destruct H as [-> | ->]; [reflexivity|]. rewrite orb_true_r. reflexivity.
Qed.

(* JWTSecuredAuthorizationRequest: AT LEAST ONE of request / request_uri - accepted only with one, refused with none *)
Theorem jar_set_rule c roc p m m' :
  jar_verify c roc p m = Ok m' -> (1 <= count_true (presence [PS "request"; PS "request_uri"] m))%nat.
Proof.
  intros V. apply has_at_least_one_of_iff. unfold has_at_least_one_of, presence. cbn [List.map existsb].
  unfold jar_verify in V. destruct (has_key (PS "request") m); [reflexivity|].
  destruct (has_key (PS "request_uri") m); [reflexivity|discriminate].
Qed.
Theorem jar_set_rule_none c roc p m :
  count_true (presence [PS "request"; PS "request_uri"] m) = 0%nat -> jar_verify c roc p m = Err EMissingAttribute.
Proof.
  intros H. apply has_none_of_iff in H. unfold has_none_of, presence in H. cbn [List.map existsb] in H.
  unfold jar_verify. destruct (has_key (PS "request") m); [discriminate|].
  destruct (has_key (PS "request_uri") m); [discriminate|reflexivity].
Qed.

(* OauthClientInformationResponse: client_secret comes with client_secret_expires_at;
   device_authorization.AccessTokenRequest: device_code comes with BOTH grant_type and client_id *)
Theorem clientinfo_accepts_only c m :
  clientinfo_verify c m = Ok tt ->
  clientmeta_verify c m = Ok tt /\ (has "client_secret" m = true -> has "client_secret_expires_at" m = true).
Proof.
  unfold clientinfo_verify. destruct (clientmeta_verify c m) as [[]|e|]; cbn [bind]; try discriminate.
  intros H. apply run_checks_iff in H. unfold all_hold, clientinfo_checks in H. cbn [forallb fst] in H.
  rewrite andb_true_r in H. split; [reflexivity|]. intros S. rewrite S in H. cbn [implb] in H.
  unfold has_all_of, presence in H. cbn [List.map forallb] in H. rewrite andb_true_r in H. exact H.
Qed.
Theorem device_accepts_only c m :
  device_verify c m = Ok tt ->
  generic_verify c m = Ok tt
  /\ (has "device_code" m = true -> has "grant_type" m = true /\ has "client_id" m = true).
Proof.
  unfold device_verify. destruct (generic_verify c m) as [[]|e|]; cbn [bind]; try discriminate.
  intros H. apply run_checks_iff in H. unfold all_hold, device_checks in H. cbn [forallb fst] in H.
  rewrite andb_true_r in H. split; [reflexivity|]. intros S. rewrite S in H. cbn [implb] in H.
  unfold has_all_of, presence in H. cbn [List.map forallb] in H. rewrite andb_true_r in H.
  now apply andb_true_iff in H.
Qed.
Theorem clientmeta_accepts_only c m :
  clientmeta_typed m = true -> clientmeta_verify c m = Ok tt ->
  generic_verify c m = Ok tt
  /\ (forall g, In g (strs (list_of (get "grant_types" m))) -> g = PS "authorization_code" \/ g = PS "implicit" ->
      has "redirect_uris" m = true).
Proof.
  intros T V. unfold clientmeta_verify in V. apply (guarded_checks_iff _ _ _ T) in V as [G H].
  split; [exact G|]. intros g Ig Hg. unfold all_hold, clientmeta_checks in H. cbn [forallb fst] in H.
  rewrite andb_true_r in H.
  assert (X : existsb (fun g0 => str_in g0 [PS "authorization_code"; PS "implicit"]) (strs (list_of (get "grant_types" m))) = true).
  { apply existsb_exists. exists g. split; [exact Ig|]. apply str_in_In. destruct Hg as [-> | ->]; cbn; tauto. }
  rewrite X in H. cbn [implb] in H. unfold has_all_of, presence in H. cbn [List.map forallb] in H.
  rewrite andb_true_r in H. exact H.
Qed.

(* ---- CIBA AuthenticationRequest ---- *)
Lemma presence_aset_other k v ks m : ~ In k ks -> presence ks (aset k v m) = presence ks m.
Proof.
  intros N. unfold presence. apply map_ext_in. intros a Ia. apply has_key_aset_other. intro E. subst. contradiction.
Qed.
Lemma ciba_hint_keeps_hints ic ht m m' : ciba_hint ic ht m = Ok m' -> presence ciba_hints m' = presence ciba_hints m.
Proof.
  unfold ciba_hint. destruct (get "id_token_hint" m) as [[| | |s| | |]|]; try (intros H; inversion H; reflexivity).
  destruct (open_token ht) as [hp|e|]; cbn [bind]; try discriminate.
  destruct (construct ic (snd hp)) as [o|e|]; cbn [bind]; try discriminate.
  intros H. inversion H. apply presence_aset_other. vm_compute. intuition discriminate.
Qed.
Lemma ciba_hint_keeps k ic ht m m' :
  PS k <> verified_id_token_hint -> ciba_hint ic ht m = Ok m' -> has k m' = has k m.
Proof.
  intros N. unfold ciba_hint. destruct (get "id_token_hint" m) as [[| | |s| | |]|]; try (intros H; inversion H; reflexivity).
  destruct (open_token ht) as [hp|e|]; cbn [bind]; try discriminate.
  destruct (construct ic (snd hp)) as [o|e|]; cbn [bind]; try discriminate.
  intros H. inversion H. unfold has. apply has_key_aset_other. congruence.
Qed.

(* an accepted CIBA authentication request: the generic check held; in the message AS IT STANDS AFTERWARDS (the
   claims of a request object copied in) AT MOST ONE of the three hints is present - whichever they are, adjacent
   in the rule's list or not; a request object came with nothing but client-authentication parameters beside it;
   ping / push mode has its client_notification_token *)
Theorem ciba_accepts_only c rjc ic kw rt ht m m' :
  ciba_authn_verify c rjc ic kw rt ht m = Ok m' ->
  generic_verify c m = Ok tt
  /\ (count_true (presence ciba_hints m') <= 1)%nat
  /\ (has "request" m = true -> count_true (presence (ciba_inside_only c) (adel verified_request m)) = 0%nat)
  /\ (ciba_mode_needs_token kw = true -> has "client_notification_token" m' = true).
Proof.
  unfold ciba_authn_verify. destruct (generic_verify c m) as [[]|e|]; cbn [bind]; try discriminate.
  destruct (ciba_unpack c rjc rt m) as [m1|e|] eqn:U; cbn [bind]; try discriminate.
  destruct (run_checks (ciba_hint_checks m1)) as [[]|e|] eqn:R1; cbn [bind]; try discriminate.
  destruct (ciba_hint ic ht m1) as [m2|e|] eqn:Hh; cbn [bind]; try discriminate.
  destruct (run_checks (ciba_mode_checks kw m2)) as [[]|e|] eqn:R2; cbn [bind]; try discriminate.
  intros H. inversion H; subst m'. clear H.
  apply run_checks_iff in R1, R2. unfold all_hold, ciba_hint_checks, ciba_mode_checks in R1, R2.
  cbn [forallb fst] in R1, R2. rewrite andb_true_r in R1, R2.
  split; [reflexivity|]. split; [|split].
  - rewrite (ciba_hint_keeps_hints _ _ _ _ Hh). now apply has_none_or_one_of_iff.
  - intros Rq. unfold ciba_unpack in U. rewrite Rq in U. apply has_none_of_iff.
    destruct (has_none_of (presence (ciba_inside_only c) (adel verified_request m))); [reflexivity|discriminate].
  - intros Md. rewrite Md in R2. exact R2.
Qed.
(* ... and conversely every pattern with two or more hints is refused - (1,0,1) as well as the adjacent pairs *)
Theorem ciba_two_hints_refused c rjc ic kw rt ht m :
  generic_verify c m = Ok tt -> has "request" m = false -> (2 <= count_true (presence ciba_hints m))%nat ->
  ciba_authn_verify c rjc ic kw rt ht m = Err ValueError.
Proof.
  intros G Rq N. unfold ciba_authn_verify, ciba_unpack. rewrite G, Rq. cbn [bind].
  apply has_none_or_one_of_false_iff in N. unfold ciba_hint_checks. rewrite N. reflexivity.
Qed.
(* the other set predicates, together *)
Theorem set_predicates_count l :
  (has_at_least_one_of l = true <-> (1 <= count_true l)%nat)
  /\ (has_none_of l = true <-> count_true l = 0%nat)
  /\ (has_all_of l = true <-> count_true l = length l)
  /\ (has_all_or_none_of l = true <-> count_true l = 0%nat \/ count_true l = length l)
  /\ (has_exactly_one_of l = true <-> count_true l = 1%nat).
Proof.
  repeat split; try apply has_at_least_one_of_iff; try apply has_none_of_iff; try apply has_all_of_iff;
    try apply has_all_or_none_of_iff; try apply has_exactly_one_of_iff.
Qed.
