(* Proofs/MsgTable_proofs.v — facts computed over the regenerated schema table Gen/Schema.v
   (so they are re-established, or fail, on every run against the current /repo/src), and the
   instantiation of the generic lemmas of Proofs/Msg_proofs.v to every class of the table. *)
From Coq Require Import String.
From Verif Require Import Lib.Base Lib.PyStr Lib.MsgSchema Gen.Schema Model.Msg Model.MsgKinds Proofs.Msg_proofs.

Definition all_params : list param := flat_map c_params all_classes.

(* every declared parameter of every class is of a modelled kind or of a pinned opaque kind *)
Lemma kinds_accounted : forallb kind_supported all_params = true.
Proof. vm_compute. reflexivity. Qed.
Lemma kinds_accounted_all c p : In c all_classes -> In p (c_params c) -> kind_supported p = true.
Proof.
  intros Hc Hp. pose proof kinds_accounted as H. rewrite forallb_forall in H. apply H.
  unfold all_params. apply in_flat_map. eauto.
Qed.

(* no class declares a catch-all "*" parameter, and parameter names are distinct *)
Lemma table_well_formed :
  forallb (fun c => negb (has_star c) && nodup_str (List.map p_name (c_params c))) all_classes = true.
Proof. vm_compute. reflexivity. Qed.
Lemma table_no_star c : In c all_classes -> has_star c = false.
Proof.
  intros Hc. pose proof table_well_formed as H. rewrite forallb_forall in H. apply H in Hc.
  apply andb_true_iff in Hc as [Hc _]. now apply negb_true_iff in Hc.
Qed.

(* C11: every class that overrides verify() reaches the generic check on every accepting path *)
Lemma table_chains : forallb (fun c => implb (c_overrides_verify c) (c_chains c)) all_classes = true.
Proof. vm_compute. reflexivity. Qed.
Lemma table_chains_all c : In c all_classes -> c_overrides_verify c = true -> c_chains c = true.
Proof.
  intros Hc Ho. pose proof table_chains as H. rewrite forallb_forall in H. apply H in Hc.
  rewrite Ho in Hc. exact Hc.
Qed.
(* ... and so does every ancestor it may delegate to (the bases of a class are classes of the table
   or Message itself) *)
Definition base_ok (b : pystr) : bool :=
  str_eqb b (PS "idpyoidc.message.Message")
  || match find_class b all_classes with Some _ => true | None => false end.
Lemma table_bases_closed : forallb (fun c => forallb base_ok (c_bases c)) all_classes = true.
Proof. vm_compute. reflexivity. Qed.

(* the class-level verify: generic check plus the class's own rules, composed as the override does *)
Definition class_verify (rules : msg -> res msg) (c : mclass) (m : msg) : res msg :=
  if c_overrides_verify c then
    (if c_chains c then
       match c_chain_pos c with
       | ChainLast => m' <- rules m ;; _ <- generic_verify c m' ;; Ok m'
       | _ => _ <- generic_verify c m ;; rules m
       end
     else rules m)
  else _ <- generic_verify c m ;; Ok m.

(* the classes whose rules are modelled: the verified-request marker is not a schema parameter *)
Definition authz_classes : list pystr :=
  [PS "idpyoidc.message.oidc.AuthorizationRequest"; PS "idpyoidc.message.oidc.OpenIDRequest"].
Lemma authz_classes_ok :
  forallb (fun n => match find_class n all_classes with
                    | Some c => match find_param verified_request (c_params c) with None => true | Some _ => false end
                    | None => false
                    end) authz_classes = true.
Proof. vm_compute. reflexivity. Qed.

(* the override shapes the composition above covers: parent first, or parent last *)
Lemma table_chain_positions :
  forallb (fun c => negb (c_overrides_verify c) ||
                    match c_chain_pos c with ChainFirst | ChainLast => true | _ => false end) all_classes = true.
Proof. vm_compute. reflexivity. Qed.

(* whatever the class's own rules are, an accepted message went through the generic check:
   before the rules (parent called first) or after them (parent called last) *)
Theorem all_classes_reach_generic c rules m m' :
  In c all_classes -> class_verify rules c m = Ok m' ->
  generic_verify c m = Ok tt \/ generic_verify c m' = Ok tt.
Proof.
  intros Hc. unfold class_verify. destruct (c_overrides_verify c) eqn:Ho.
  - rewrite (table_chains_all c Hc Ho).
    destruct (c_chain_pos c).
    all: try (destruct (generic_verify c m) as [[]|e|]; cbn [bind]; try discriminate; intros _; now left).
    destruct (rules m) as [m1|e|]; cbn [bind]; try discriminate.
    destruct (generic_verify c m1) as [[]|e|] eqn:G; cbn [bind]; try discriminate.
    intros H. inversion H; subst. now right.
  - destruct (generic_verify c m) as [[]|e|]; cbn [bind]; try discriminate. intros _. now left.
Qed.

(* F17 witness: RegistrationRequest(redirect_uris=[..], contacts=["John Doe"]) *)
Definition regreq_name : pystr := PS "idpyoidc.message.oidc.RegistrationRequest".
Definition f17_msg : msg :=
  [(PS "application_type", VStr (PS "web")); (PS "response_types", VList [VStr (PS "code")]);
   (PS "redirect_uris", VList [VStr (PS "https://a/b")]); (PS "contacts", VList [VStr (PS "John Doe")])].
Lemma f17_witness :
  match find_class regreq_name all_classes with
  | Some c =>
      valid_form c f17_msg = true /\ list_elems_no_space c f17_msg = false /\
      match to_urlencoded c f17_msg with
      | Ok t => match from_urlencoded c t (c_default c) with
                | Ok r => assoc (PS "contacts") r = Some (VList [VStr (PS "John"); VStr (PS "Doe")])
                | _ => False
                end
      | _ => False
      end
  | None => False
  end.
Proof. vm_compute. repeat split; reflexivity. Qed.

(* typed-slot witness: a dict given to a [str] parameter is stored as it is *)
Lemma slot_witness :
  match find_class regreq_name all_classes with
  | Some c => match find_param (PS "contacts") (c_params c) with
              | Some p => modelled_kind p = Some KList /\
                          add_value p (VDict [(PS "a", VStr (PS "b"))]) = Ok (Some (VDict [(PS "a", VStr (PS "b"))]))
              | None => False
              end
  | None => False
  end.
Proof. vm_compute. split; reflexivity. Qed.

Lemma find_class_In n cs c : find_class n cs = Some c -> In c cs.
Proof.
  induction cs as [|x r IH]; [discriminate|]. cbn. destruct (str_eqb n (c_name x)).
  - intros H. inversion H. now left.
  - intros H. right. now apply IH.
Qed.

(* the full form-encoding statement (without the F17 guard) is false of the faithful model *)
Lemma urlencoded_refuted :
  exists c m, In c all_classes /\ valid_form c m = true /\ list_elems_no_space c m = false /\
    ~ (exists t r, to_urlencoded c m = Ok t /\ from_urlencoded c t (c_default c) = Ok r /\ form_entries_of r m).
Proof.
  pose proof f17_witness as W.
  destruct (find_class regreq_name all_classes) as [c|] eqn:F; [|contradiction].
  exists c, f17_msg. destruct W as (V & G & R).
  split; [eapply find_class_In; eauto|]. split; [exact V|]. split; [exact G|].
  intros (t & r & T & Fr & E).
  rewrite T in R. rewrite Fr in R. specialize (E (PS "contacts")). rewrite R in E.
  vm_compute in E. discriminate.
Qed.

Lemma typed_refuted :
  exists p k v w, modelled_kind p = Some k /\ slot_guard p v = false /\ add_value p v = Ok (Some w)
                  /\ v <> VNone /\ has_type (p_ty p) w = false.
Proof.
  pose proof slot_witness as W.
  destruct (find_class regreq_name all_classes) as [c|]; [|contradiction].
  destruct (find_param (PS "contacts") (c_params c)) as [p|]; [|contradiction].
  destruct W as [K A]. destruct (modelled_kind_inv p KList K) as [_ (Ht & _ & _)].
  exists p, KList, (VDict [(PS "a", VStr (PS "b"))]), (VDict [(PS "a", VStr (PS "b"))]).
  split; [exact K|]. split; [unfold slot_guard; now rewrite Ht|]. split; [exact A|].
  split; [discriminate|]. rewrite Ht. reflexivity.
Qed.
