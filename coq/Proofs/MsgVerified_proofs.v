(* Proofs/MsgVerified_proofs.v — the reserved members `__verified_<claim>` (Model/MsgVerified.v): after verify()
   the verified copy a message holds is what THIS verification established, for every initial content of the
   reserved member (always-clear discipline, and the transcribed verify() functions that follow it); the lazy
   disciplines keep a member nobody verified (what the unchanged library does in four verify() bodies). *)
From Coq Require Import String Lia.
From Verif Require Import Lib.Base Lib.PyStr Lib.Qs Lib.MsgSchema Model.Msg Model.MsgRules Model.MsgCheck
  Model.MsgVerified Proofs.Msg_proofs Proofs.MsgRules_proofs.
Open Scope N_scope.

(* ------------------------------------------------------------------ deleting from a dict *)
Lemma adel_keys_incl {V} k k' (m : list (pystr * V)) : In k (List.map fst (adel k' m)) -> In k (List.map fst m).
Proof.
  induction m as [|[k2 v2] r IH]; [auto|]. cbn. destruct (str_eqb k' k2); cbn; [auto|]. intros [H|H]; auto.
Qed.
Lemma NoDup_adel {V} k (m : list (pystr * V)) : NoDup (List.map fst m) -> NoDup (List.map fst (adel k m)).
Proof.
  induction m as [|[k2 v2] r IH]; [auto|]. cbn. intros ND. inversion ND as [|? ? Hn Hr]; subst.
  destruct (str_eqb k k2); [exact Hr|]. cbn. constructor; [|now apply IH].
  intros I. apply Hn. now apply adel_keys_incl in I.
Qed.
Lemma assoc_adel_same {V} k (m : list (pystr * V)) : NoDup (List.map fst m) -> assoc k (adel k m) = None.
Proof.
  induction m as [|[k2 v2] r IH]; [reflexivity|]. cbn. intros ND. inversion ND as [|? ? Hn Hr]; subst.
  destruct (str_eqb k k2) eqn:E.
  - apply str_eqb_eq in E. subst k2. now apply assoc_notin.
  - cbn. rewrite E. now apply IH.
Qed.
Lemma dict_like_NoDup m : dict_like m = true -> NoDup (List.map fst m).
Proof. apply nodup_str_NoDup. Qed.

Lemma verified_name_ne claim : verified_name claim <> claim.
Proof.
  unfold verified_name. intros H. apply (f_equal (@length N)) in H. rewrite app_length in H.
  assert (L : length (PS "__verified_") = 11%nat) by reflexivity. rewrite L in H. lia.
Qed.

(* ------------------------------------------------------------------ the abstract slot *)
(* always-clear: whatever the message held under the reserved name, afterwards it holds what this verification
   established from the raw claim, or nothing *)
Theorem book_always_established claim est m m' :
  dict_like m = true -> book ClearAlways claim est m = Ok m' -> copy_established claim est m m'.
Proof.
  intros D. unfold book, book_clear, copy_established. set (vn := verified_name claim).
  assert (Hk : has_key claim (adel vn m) = has_key claim m).
  { unfold has_key. rewrite assoc_adel_other; [reflexivity|]. intros X. symmetry in X. now apply verified_name_ne in X. }
  rewrite Hk. destruct (has_key claim m) eqn:P.
  - destruct (est (adel vn m)) as [o|e|] eqn:Ee; cbn [bind]; try discriminate.
    intros H. inversion H; subst m'. rewrite assoc_aset_same. split; [reflexivity|]. eauto.
  - intros H. inversion H; subst m'. rewrite assoc_adel_same by (now apply dict_like_NoDup). exact I.
Qed.
(* ... and a message presented without the raw claim never holds a verified copy afterwards *)
Theorem book_always_absent claim est m m' :
  dict_like m = true -> has_key claim m = false -> book ClearAlways claim est m = Ok m' ->
  assoc (verified_name claim) m' = None.
Proof.
  intros D P H. pose proof (book_always_established claim est m m' D H) as C. unfold copy_established in C.
  destruct (assoc (verified_name claim) m'); [|reflexivity]. destruct C as [C _]. congruence.
Qed.
(* the lazy disciplines: a member that arrives without the raw claim is accepted as it is - nobody verified it *)
Theorem book_lazy_keeps cl claim est v :
  cl <> ClearAlways ->
  let m := [(verified_name claim, v)] in
  book cl claim est m = Ok m /\ ~ copy_established claim est m m.
Proof.
  intros Hc m.
  assert (E : str_eqb claim (verified_name claim) = false).
  { apply str_eqb_neq. intros X. symmetry in X. now apply verified_name_ne in X. }
  assert (P : has_key claim m = false) by (unfold m, has_key; cbn [assoc]; now rewrite E).
  split.
  - unfold book, book_clear. destruct cl; [congruence| |]; rewrite ?P; cbn [negb]; rewrite ?P; reflexivity.
  - unfold copy_established, m. cbn [assoc]. rewrite str_eqb_refl. intros [X _]. fold m in X. congruence.
Qed.

(* ------------------------------------------------------------------ clear_verified_claims *)
Lemma clear_verified_none m :
  dict_like m = true ->
  assoc verified_id_token (clear_verified m) = None
  /\ assoc verified_id_token_hint (clear_verified m) = None
  /\ assoc verified_request (clear_verified m) = None.
Proof.
  intros D. apply dict_like_NoDup in D. unfold clear_verified.
  change (PS "__verified_id_token_hint") with verified_id_token_hint.
  change (PS "__verified_request") with verified_request.
  repeat split.
  - rewrite !assoc_adel_other by ne. now apply assoc_adel_same.
  - rewrite assoc_adel_other by ne. apply assoc_adel_same. now apply NoDup_adel.
  - apply assoc_adel_same. now repeat apply NoDup_adel.
Qed.

(* an accepting verify_id_token, with or without the hash rules: the token carries a valid signature and the
   result is its content *)
Lemma verify_id_token_signed lh issuers ic now ch kw t m o :
  verify_id_token lh issuers ic now ch kw t m = Ok o ->
  exists alg p, t = TJws SigValid alg p /\ construct ic p = Ok o.
Proof.
  unfold verify_id_token. destruct (idt_kw_modelled kw); cbn [negb]; [|discriminate].
  destruct (get "id_token" m) as [[| | |s| | |]|]; try discriminate.
  unfold id_token_open. destruct t as [sg alg p|p|i|]; try discriminate. destruct sg; try discriminate.
  destruct (hash_alg_modelled alg); [|discriminate]. cbn [bind fst snd].
  destruct (idt_alg_allowed kw alg) as [[]|e|]; cbn [bind]; try discriminate.
  destruct (idt_issuer_known issuers p) as [[]|e|]; cbn [bind]; try discriminate.
  destruct (construct ic p) as [o'|e|] eqn:Ec; cbn [bind]; try discriminate.
  destruct (idtoken_verify ic now kw o') as [[]|e|]; cbn [bind]; try discriminate.
  destruct (hash_typed m); cbn [negb]; [|discriminate].
  destruct (if ch then run_checks (hash_rules lh alg m o') else Ok tt) as [[]|e|]; cbn [bind]; try discriminate.
  intros H. inversion H; subst o'. eauto.
Qed.

(* ------------------------------------------------------------------ the transcribed verify() functions *)
(* oidc.AccessTokenResponse.verify: for EVERY message presented (any content under the three reserved names) *)
Theorem tokenresp_verified_copy lh issuers c ic now kw t m b m' :
  dict_like m = true -> oidc_tokenresp_verify_idt lh issuers c ic now kw t m = Ok (b, m') ->
  b = true /\ id_token_copy_ok ic t "id_token" verified_id_token m m'
  /\ assoc verified_id_token_hint m' = None /\ assoc verified_request m' = None.
Proof.
  intros D. destruct (clear_verified_none m D) as (N1 & N2 & N3).
  unfold oidc_tokenresp_verify_idt, id_token_copy_ok.
  destruct (response_verify c m) as [[]|e|]; cbn [bind]; try discriminate.
  rewrite has_clear_verified by ne. destruct (has "id_token" m) eqn:P; cbn [negb].
  - destruct (verify_id_token lh issuers ic now false kw t (clear_verified m)) as [o|e|] eqn:V; cbn [bind]; try discriminate.
    intros H. inversion H; subst b m'. apply verify_id_token_signed in V as (alg & p & -> & Hc).
    split; [reflexivity|]. split; [split; [discriminate|]|].
    + intros _. exists alg, p, o. rewrite assoc_aset_same. auto.
    + rewrite !assoc_aset_other by ne. auto.
  - intros H. inversion H; subst b m'. split; [reflexivity|]. split; [split; [auto|discriminate]|auto].
Qed.

(* oidc.AuthorizationResponse.verify: an ACCEPTED response (verify() returns False for a response whose `aud`
   names somebody else) *)
Theorem authzresp_verified_copy lh issuers c ic now kw t m m' :
  dict_like m = true -> oidc_authzresp_verify_idt lh issuers c ic now kw t m = Ok (true, m') ->
  id_token_copy_ok ic t "id_token" verified_id_token m m'
  /\ assoc verified_id_token_hint m' = None /\ assoc verified_request m' = None.
Proof.
  intros D. destruct (clear_verified_none m D) as (N1 & N2 & N3).
  unfold oidc_authzresp_verify_idt, id_token_copy_ok.
  destruct (authzresp_verify c kw m) as [[]|e|]; cbn [bind]; try discriminate.
  destruct (aud_for_me kw (clear_verified m)) as [mine|e|]; cbn [bind]; try discriminate.
  destruct mine; cbn [negb]; [|discriminate].
  rewrite has_clear_verified by ne. destruct (has "id_token" m) eqn:P; cbn [negb].
  - destruct (verify_id_token lh issuers ic now true kw t (clear_verified m)) as [o|e|] eqn:V; cbn [bind]; try discriminate.
    intros H. inversion H; subst m'. apply verify_id_token_signed in V as (alg & p & -> & Hc).
    split; [split; [discriminate|]|].
    + intros _. exists alg, p, o. rewrite assoc_aset_same. auto.
    + rewrite !assoc_aset_other by ne. auto.
  - intros H. inversion H; subst m'. split; [split; [auto|discriminate]|auto].
Qed.
(* a refused-by-False authorization response holds no verified copy at all *)
Theorem authzresp_false_no_copy lh issuers c ic now kw t m m' :
  dict_like m = true -> oidc_authzresp_verify_idt lh issuers c ic now kw t m = Ok (false, m') ->
  assoc verified_id_token m' = None.
Proof.
  intros D. destruct (clear_verified_none m D) as (N1 & N2 & N3).
  unfold oidc_authzresp_verify_idt.
  destruct (authzresp_verify c kw m) as [[]|e|]; cbn [bind]; try discriminate.
  destruct (aud_for_me kw (clear_verified m)) as [mine|e|]; cbn [bind]; try discriminate.
  destruct mine; cbn [negb].
  - destruct (has "id_token" (clear_verified m)); cbn [negb]; [|discriminate].
    destruct (verify_id_token lh issuers ic now true kw t (clear_verified m)); cbn [bind]; discriminate.
  - intros H. inversion H; subst m'. exact N1.
Qed.

(* session.EndSessionRequest.verify *)
Theorem endsession_verified_copy issuers c ic now kw t m m' :
  dict_like m = true -> endsession_verify_hint issuers c ic now kw t m = Ok (true, m') ->
  id_token_copy_ok ic t "id_token_hint" verified_id_token_hint m m'
  /\ assoc verified_id_token m' = None /\ assoc verified_request m' = None.
Proof.
  intros D. destruct (clear_verified_none m D) as (N1 & N2 & N3).
  unfold endsession_verify_hint, id_token_copy_ok.
  destruct (generic_verify c m) as [[]|e|]; cbn [bind]; try discriminate.
  rewrite !has_clear_verified by ne. rewrite get_clear_verified by ne.
  unfold has at 2 3 4. unfold has_key. fold (get "id_token_hint" m).
  destruct (has "post_logout_redirect_uri" m); destruct (get "id_token_hint" m) as [h|] eqn:G; cbn [andb negb]; try discriminate.
  - destruct (verify_id_token _ issuers ic now false kw t _) as [o|e|] eqn:V; cbn [bind]; try discriminate.
    intros H. inversion H; subst m'. apply verify_id_token_signed in V as (alg & p & -> & Hc).
    split; [split; [discriminate|]|].
    + intros _. exists alg, p, o. rewrite assoc_aset_same. auto.
    + rewrite !assoc_aset_other by ne. auto.
  - destruct (verify_id_token _ issuers ic now false kw t _) as [o|e|] eqn:V; cbn [bind]; try discriminate.
    intros H. inversion H; subst m'. apply verify_id_token_signed in V as (alg & p & -> & Hc).
    split; [split; [discriminate|]|].
    + intros _. exists alg, p, o. rewrite assoc_aset_same. auto.
    + rewrite !assoc_aset_other by ne. auto.
  - intros H. inversion H; subst m'. split; [split; [auto|discriminate]|auto].
Qed.
(* the new function says what the old one (no id_token_hint) says *)
Theorem endsession_hint_extends issuers c ic now kw t m :
  has "id_token_hint" m = false ->
  match endsession_verify c m with
  | Ok b => exists m', endsession_verify_hint issuers c ic now kw t m = Ok (b, m')
  | Err e => endsession_verify_hint issuers c ic now kw t m = Err e
  | Unmodelled => True
  end.
Proof.
  intros P. unfold endsession_verify, endsession_verify_hint.
  destruct (generic_verify c m) as [[]|e|]; cbn [bind]; auto.
  change (adel (PS "__verified_request") (adel (PS "__verified_id_token_hint") (adel (PS "__verified_id_token") m)))
    with (clear_verified m).
  assert (Q : has "id_token_hint" (clear_verified m) = false) by (rewrite has_clear_verified by ne; exact P).
  rewrite Q. assert (G : get "id_token_hint" (clear_verified m) = None).
  { unfold has, has_key in Q. fold (get "id_token_hint" (clear_verified m)) in Q.
    destruct (get "id_token_hint" (clear_verified m)); [discriminate|reflexivity]. }
  rewrite G. destruct (has "post_logout_redirect_uri" (clear_verified m)); cbn [andb negb]; eauto.
Qed.

(* oidc.AuthorizationRequest.verify (no request object): no verified request object afterwards *)
Theorem authzreq_no_verified_request c nonce m m' :
  dict_like m = true -> authz_verify c nonce m = Ok m' -> assoc verified_request m' = None.
Proof.
  intros D. unfold authz_verify. destruct (generic_verify c m) as [[]|e|]; cbn [bind]; try discriminate.
  destruct (_ || _); [discriminate|]. destruct (authz_rules nonce _) as [[]|e|]; cbn [bind]; try discriminate.
  intros H. inversion H; subst m'. apply assoc_adel_same. now apply dict_like_NoDup.
Qed.

(* ------------------------------------------------------------------ the request classes
   The bodies transcribed in Model/Msg.v / Model/MsgRules.v drop the old copy only next to the raw claim (the CIBA body
   never drops `__verified_id_token_hint`): presented WITHOUT the raw claim a message comes out of them unchanged.
   Until 834e726 these bodies were the whole verify() - the findings verified-copy:unverified-kept of the request
   classes; since then verify() clears first (jar_verify_v ...). *)
Theorem jar_keeps_unverified c roc payload m m' :
  has_key (PS "request") m = false -> jar_verify c roc payload m = Ok m' -> m' = m.
Proof.
  intros P. unfold jar_verify. rewrite P. destruct (has_key (PS "request_uri") m); [|discriminate].
  destruct (generic_verify c m) as [[]|e|]; cbn [bind]; try discriminate. intros H. now inversion H.
Qed.
Theorem par_keeps_unverified c roc payload m m' :
  has_key (PS "request") m = false -> par_verify c roc payload m = Ok m' -> m' = m.
Proof.
  intros P. unfold par_verify. rewrite P.
  destruct (generic_verify c m) as [[]|e|]; cbn [bind]; try discriminate. intros H. now inversion H.
Qed.
Theorem ciba_keeps_unverified c rjc ic kw rt ht m m' :
  has "request" m = false -> get "id_token_hint" m = None ->
  ciba_authn_verify c rjc ic kw rt ht m = Ok m' -> m' = m.
Proof.
  intros P G. unfold ciba_authn_verify, ciba_unpack, ciba_hint. rewrite P.
  destruct (generic_verify c m) as [[]|e|]; cbn [bind]; try discriminate.
  destruct (run_checks (ciba_hint_checks m)) as [[]|e|]; cbn [bind]; try discriminate.
  rewrite G. cbn [bind]. destruct (run_checks (ciba_mode_checks kw m)) as [[]|e|]; cbn [bind]; try discriminate.
  intros H. now inversion H.
Qed.
(* with the raw claim the two request classes do replace the copy by the verified object *)
Theorem jar_par_rebuild strict c roc p m m' :
  unpack_request strict c roc (Some p) m = Ok m' ->
  exists ro, construct roc p = Ok ro /\ assoc verified_request m' = Some (VObj ro).
Proof.
  unfold unpack_request. destruct (construct roc p) as [ro|e|]; cbn [bind]; try discriminate.
  destruct (generic_verify c _) as [[]|e|]; cbn [bind]; try discriminate.
  intros H. inversion H; subst m'. exists ro. rewrite assoc_aset_same. auto.
Qed.

(* ------------------------------------------------------------------ verify() of the request classes since the repairs *)
Lemma has_key_adel_other {V} k k' (m : list (pystr * V)) : k <> k' -> has_key k (adel k' m) = has_key k m.
Proof. intros H. unfold has_key. now rewrite assoc_adel_other. Qed.
Lemma adel_absent {V} k (m : list (pystr * V)) : assoc k m = None -> adel k m = m.
Proof.
  induction m as [|[k2 v2] r IH]; [reflexivity|]. cbn. destruct (str_eqb k k2); [discriminate|].
  intros H. now rewrite IH.
Qed.
Lemma assoc_filter_none {V} k f (o : list (pystr * V)) : assoc k o = None -> assoc k (List.filter f o) = None.
Proof.
  induction o as [|[k2 v2] r IH]; [reflexivity|]. cbn. destruct (str_eqb k k2) eqn:E; [discriminate|].
  intros H. destruct (f (k2, v2)); cbn; [rewrite E|]; now apply IH.
Qed.
(* a filter that looks at the key only and rejects key k removes every binding of k *)
Lemma assoc_filter_key {V} k (g : pystr -> bool) (o : list (pystr * V)) :
  g k = false -> assoc k (List.filter (fun kv => g (fst kv)) o) = None.
Proof.
  intros G. induction o as [|[k2 v2] r IH]; [reflexivity|]. cbn [List.filter fst].
  destruct (g k2) eqn:E; [|exact IH]. cbn. destruct (str_eqb k k2) eqn:E2; [|exact IH].
  apply str_eqb_eq in E2. subst k2. congruence.
Qed.
Lemma assoc_msg_update_notin k ro m : assoc k ro = None -> assoc k (msg_update ro m) = assoc k m.
Proof.
  unfold msg_update. revert m. induction ro as [|[k2 v2] r IH]; intros m; [reflexivity|]. cbn [assoc fold_left fst snd].
  destruct (str_eqb k k2) eqn:E; [discriminate|]. intros H. rewrite IH by exact H.
  apply assoc_aset_other. intros X. subst k2. now rewrite str_eqb_refl in E.
Qed.
Lemma drop_no_reserved o : no_reserved o = true -> drop_verified_copies o = o.
Proof.
  unfold no_reserved, drop_verified_copies. induction o as [|kv r IH]; [reflexivity|]. cbn [List.filter forallb].
  intros H. apply andb_true_iff in H as [H1 H2]. rewrite H1. now rewrite IH.
Qed.
Lemma drop_has_no_reserved k o : is_reserved k = true -> assoc k (drop_verified_copies o) = None.
Proof.
  intros R. unfold drop_verified_copies. apply (assoc_filter_key k (fun x => negb (is_reserved x))). now rewrite R.
Qed.
Lemma reserved_names :
  is_reserved verified_request = true /\ is_reserved verified_id_token_hint = true /\ is_reserved verified_id_token = true.
Proof. vm_compute. auto. Qed.

(* JWTSecuredAuthorizationRequest / PushedAuthorizationRequest: no request object => no verified copy; a request
   object => the copy is the object whose signature verified, without the reserved claims it carried *)
Lemma unpack_v_copy strict c roc payload m m' :
  unpack_request_v strict c roc payload m = Ok m' ->
  exists p ro0, payload = Some p /\ construct roc p = Ok ro0
                /\ m' = aset verified_request (VObj (drop_verified_copies ro0)) (request_merge strict (drop_verified_copies ro0) m)
                /\ generic_verify c m' = Ok tt.
Proof.
  unfold unpack_request_v. destruct payload as [p|]; [|discriminate].
  destruct (construct roc p) as [ro0|e|] eqn:Ec; cbn [bind]; try discriminate.
  destruct (generic_verify c _) as [[]|e|] eqn:G; cbn [bind]; try discriminate.
  intros H. inversion H; subst m'. exists p, ro0. repeat split; auto.
Qed.
Theorem jar_v_verified_copy c roc payload m m' :
  dict_like m = true -> jar_verify_v c roc payload m = Ok m' ->
  (has_key (PS "request") m = false -> assoc verified_request m' = None)
  /\ (has_key (PS "request") m = true ->
      exists p ro0, payload = Some p /\ construct roc p = Ok ro0
                    /\ assoc verified_request m' = Some (VObj (drop_verified_copies ro0))).
Proof.
  intros D H. unfold jar_verify_v in H.
  assert (K : has_key (PS "request") (adel verified_request m) = has_key (PS "request") m) by (apply has_key_adel_other; ne).
  rewrite K in H. split; intros P; rewrite P in H.
  - destruct (has_key (PS "request_uri") _); [|discriminate].
    destruct (generic_verify c _) as [[]|e|]; cbn [bind] in H; try discriminate. inversion H; subst m'.
    apply assoc_adel_same. now apply dict_like_NoDup.
  - apply unpack_v_copy in H as (p & ro0 & -> & Hc & -> & _). exists p, ro0. rewrite assoc_aset_same. auto.
Qed.
Theorem par_v_verified_copy c roc payload m m' :
  dict_like m = true -> par_verify_v c roc payload m = Ok m' ->
  (has_key (PS "request") m = false -> assoc verified_request m' = None)
  /\ (has_key (PS "request") m = true ->
      exists p ro0, payload = Some p /\ construct roc p = Ok ro0
                    /\ assoc verified_request m' = Some (VObj (drop_verified_copies ro0))).
Proof.
  intros D H. unfold par_verify_v in H.
  assert (K : has_key (PS "request") (adel verified_request m) = has_key (PS "request") m) by (apply has_key_adel_other; ne).
  rewrite K in H. split; intros P; rewrite P in H.
  - destruct (generic_verify c _) as [[]|e|]; cbn [bind] in H; try discriminate. inversion H; subst m'.
    apply assoc_adel_same. now apply dict_like_NoDup.
  - apply unpack_v_copy in H as (p & ro0 & -> & Hc & -> & _). exists p, ro0. rewrite assoc_aset_same. auto.
Qed.
(* no reserved member travels from the claims of the request object into the message: after the strict merge the
   message holds no reserved member but the copy; after the lax merge the others are what the message presented held *)
Theorem request_object_claims_not_merged strict c roc payload m m' k :
  is_reserved k = true -> k <> verified_request ->
  unpack_request_v strict c roc payload m = Ok m' ->
  assoc k m' = if strict then None else assoc k (adel verified_request m).
Proof.
  intros R Hk H. apply unpack_v_copy in H as (p & ro0 & _ & _ & -> & _).
  rewrite assoc_aset_other by (intro X; now symmetry in X).
  unfold request_merge. rewrite assoc_msg_update_notin by (now apply drop_has_no_reserved).
  destruct strict; [|reflexivity].
  unfold keep_keys. apply (assoc_filter_key k (fun x => has_key x (drop_verified_copies ro0))).
  unfold has_key. now rewrite drop_has_no_reserved.
Qed.
(* the generic check is the last thing both do: what C11_JAR_verify / C11_PAR_verify state of the bodies holds of verify() *)
Theorem jar_v_sound c roc payload m m' : jar_verify_v c roc payload m = Ok m' -> schema_ok c m' = true.
Proof.
  unfold jar_verify_v. destruct (has_key (PS "request") _).
  - intros H. apply unpack_v_copy in H as (_ & _ & _ & _ & _ & G). now apply generic_verify_iff.
  - destruct (has_key (PS "request_uri") _); [|discriminate].
    destruct (generic_verify c _) as [[]|e|] eqn:G; cbn [bind]; try discriminate.
    intros H. inversion H; subst m'. now apply generic_verify_iff.
Qed.
Theorem par_v_sound c roc payload m m' : par_verify_v c roc payload m = Ok m' -> schema_ok c m' = true.
Proof.
  unfold par_verify_v. destruct (has_key (PS "request") _).
  - intros H. apply unpack_v_copy in H as (_ & _ & _ & _ & _ & G). now apply generic_verify_iff.
  - destruct (generic_verify c _) as [[]|e|] eqn:G; cbn [bind]; try discriminate.
    intros H. inversion H; subst m'. now apply generic_verify_iff.
Qed.
(* on a message without the reserved member and an object without reserved claims, verify() is the body of Model/Msg.v *)
Theorem jar_v_is_body c roc payload m :
  assoc verified_request m = None ->
  (forall p ro0, payload = Some p -> construct roc p = Ok ro0 -> no_reserved ro0 = true) ->
  jar_verify_v c roc payload m = jar_verify c roc payload m.
Proof.
  intros A O. unfold jar_verify_v, jar_verify. rewrite (adel_absent _ _ A).
  destruct (has_key (PS "request") m); [|reflexivity].
  unfold unpack_request_v, unpack_request. destruct payload as [p|]; [|reflexivity].
  destruct (construct roc p) as [ro0|e|] eqn:Ec; cbn [bind]; try reflexivity.
  now rewrite (drop_no_reserved _ (O p ro0 eq_refl Ec)).
Qed.
Theorem par_v_is_body c roc payload m :
  assoc verified_request m = None ->
  (forall p ro0, payload = Some p -> construct roc p = Ok ro0 -> no_reserved ro0 = true) ->
  par_verify_v c roc payload m = par_verify c roc payload m.
Proof.
  intros A O. unfold par_verify_v, par_verify. rewrite (adel_absent _ _ A).
  destruct (has_key (PS "request") m); [|reflexivity].
  unfold unpack_request_v, unpack_request. destruct payload as [p|]; [|reflexivity].
  destruct (construct roc p) as [ro0|e|] eqn:Ec; cbn [bind]; try reflexivity.
  now rewrite (drop_no_reserved _ (O p ro0 eq_refl Ec)).
Qed.

(* oidc.AuthorizationRequest.verify (modelled: no request object, no id_token_hint): no verified copy of any kind *)
Theorem authz_v_no_copy c nonce m m' :
  dict_like m = true -> authz_verify_v c nonce m = Ok m' ->
  assoc verified_request m' = None /\ assoc verified_id_token_hint m' = None /\ assoc verified_id_token m' = None.
Proof.
  intros D. destruct (clear_verified_none m D) as (N1 & N2 & N3).
  unfold authz_verify_v, authz_verify. destruct (generic_verify c _) as [[]|e|]; cbn [bind]; try discriminate.
  destruct (_ || _); [discriminate|]. destruct (authz_rules nonce _) as [[]|e|]; cbn [bind]; try discriminate.
  intros H. inversion H; subst m'. split; [|rewrite !(assoc_adel_other _ verified_request) by ne; auto].
  apply assoc_adel_same. unfold clear_verified. apply dict_like_NoDup in D. now repeat apply NoDup_adel.
Qed.
Theorem authz_v_sound c nonce m m' :
  find_param verified_request (c_params c) = None ->
  authz_verify_v c nonce m = Ok m' -> schema_ok c m' = true /\ authz_rules nonce m' = Ok tt.
Proof. intros F. apply authz_verify_sound. exact F. Qed.

(* the CIBA AuthenticationRequest *)
Lemma clear_verified_id m :
  assoc verified_id_token m = None -> assoc verified_id_token_hint m = None -> assoc verified_request m = None ->
  clear_verified m = m.
Proof.
  intros A B C. unfold clear_verified.
  change (PS "__verified_id_token_hint") with verified_id_token_hint. change (PS "__verified_request") with verified_request.
  now rewrite (adel_absent _ _ A), (adel_absent _ _ B), (adel_absent _ _ C).
Qed.
(* whatever the message holds under `__verified_request` / `__verified_id_token_hint` / `__verified_id_token` afterwards
   is what THIS verification unpacked: the request object handed over (cleaned), the id_token_hint handed over, nothing -
   for every initial content of the three members and every claim the request object carries *)
Theorem ciba_v_copies c rjc ic kw rt ht m m' :
  dict_like m = true -> ciba_authn_verify_v c rjc ic kw rt ht m = Ok m' ->
  assoc verified_id_token m' = None
  /\ match assoc verified_id_token_hint m' with
     | None => True
     | Some v => exists hp o, open_token ht = Ok hp /\ construct ic (snd hp) = Ok o /\ v = VObj o
     end
  /\ match assoc verified_request m' with
     | None => has "request" m = false
     | Some v => has "request" m = true
                 /\ exists hp ro0, open_token rt = Ok hp /\ construct rjc (snd hp) = Ok ro0 /\ v = VObj (drop_verified_copies ro0)
     end.
Proof.
  intros D. destruct (clear_verified_none m D) as (N1 & N2 & N3). destruct reserved_names as (R1 & R2 & R3).
  unfold ciba_authn_verify_v. destruct (generic_verify c m) as [[]|e|]; cbn [bind]; try discriminate.
  set (m0 := clear_verified m) in *.
  (* the message after the unpacking step *)
  assert (U : forall m1, ciba_unpack_v c rjc rt m0 = Ok m1 ->
              assoc verified_id_token m1 = None /\ assoc verified_id_token_hint m1 = None
              /\ match assoc verified_request m1 with
                 | None => has "request" m = false
                 | Some v => has "request" m = true
                             /\ exists hp ro0, open_token rt = Ok hp /\ construct rjc (snd hp) = Ok ro0 /\ v = VObj (drop_verified_copies ro0)
                 end).
  { intros m1. unfold ciba_unpack_v. unfold m0 at 1. rewrite has_clear_verified by ne.
    destruct (has "request" m) eqn:P.
    - destruct (negb _); [discriminate|].
      destruct (get "request" _) as [[| | |s| | |]|]; try discriminate.
      destruct (open_token rt) as [hp|e|] eqn:Eo; cbn [bind]; try discriminate.
      destruct (construct rjc (snd hp)) as [ro0|e|] eqn:Ec; cbn [bind]; try discriminate.
      intros H. inversion H; subst m1. clear H.
      rewrite assoc_aset_same. rewrite !assoc_aset_other by ne.
      rewrite !assoc_msg_update_notin by (apply assoc_filter_none; now apply drop_has_no_reserved).
      rewrite !(assoc_adel_other _ verified_request) by ne. repeat split; eauto.
    - intros H. inversion H; subst m1. rewrite N1, N2, N3. auto. }
  destruct (ciba_unpack_v c rjc rt m0) as [m1|e|] eqn:E1; cbn [bind]; try discriminate.
  destruct (U m1 eq_refl) as (A & B & Cq).
  destruct (run_checks (ciba_hint_checks m1)) as [[]|e|]; cbn [bind]; try discriminate.
  unfold ciba_hint. destruct (get "id_token_hint" m1) as [[| | |s'| | |]|]; cbn [bind].
  all: try (destruct (run_checks (ciba_mode_checks kw m1)) as [[]|e|]; cbn [bind]; try discriminate;
            intros H; inversion H; subst m'; rewrite A, B; auto).
  destruct (open_token ht) as [hp2|e|] eqn:Eo; cbn [bind]; try discriminate.
  destruct (construct ic (snd hp2)) as [o|e|] eqn:Ec; cbn [bind]; try discriminate.
  destruct (run_checks (ciba_mode_checks kw _)) as [[]|e|]; cbn [bind]; try discriminate.
  intros H. inversion H; subst m'. rewrite assoc_aset_same. rewrite !assoc_aset_other by ne. rewrite A. eauto 8.
Qed.
(* on a message without reserved members and a request object without reserved claims, verify() is the body of
   Model/MsgRules.v: everything Props/C11.v states of ciba_authn_verify holds of verify() *)
Theorem ciba_v_is_body c rjc ic kw rt ht m :
  assoc verified_id_token m = None -> assoc verified_id_token_hint m = None -> assoc verified_request m = None ->
  (forall hp ro0, open_token rt = Ok hp -> construct rjc (snd hp) = Ok ro0 -> no_reserved ro0 = true) ->
  ciba_authn_verify_v c rjc ic kw rt ht m = ciba_authn_verify c rjc ic kw rt ht m.
Proof.
  intros A B C O. unfold ciba_authn_verify_v, ciba_authn_verify. rewrite (clear_verified_id m A B C).
  destruct (generic_verify c m) as [[]|e|]; cbn [bind]; try reflexivity.
  assert (U : ciba_unpack_v c rjc rt m = ciba_unpack c rjc rt m).
  { unfold ciba_unpack_v, ciba_unpack. destruct (has "request" m); [|reflexivity].
    destruct (negb _); [reflexivity|]. destruct (get "request" _) as [[| | |s| | |]|]; try reflexivity.
    destruct (open_token rt) as [hp|e|] eqn:Eo; cbn [bind]; try reflexivity.
    destruct (construct rjc (snd hp)) as [ro0|e|] eqn:Ec; cbn [bind]; try reflexivity.
    now rewrite (drop_no_reserved _ (O hp ro0 eq_refl Ec)). }
  now rewrite U.
Qed.
