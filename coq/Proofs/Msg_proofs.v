(* Proofs/Msg_proofs.v — lemmas about Model/Msg.v, generic in the class schema (any `mclass`).
   The quantification over the regenerated table is done in Proofs/MsgTable_proofs.v. *)
From Coq Require Import String.
From Verif Require Import Lib.Base Lib.PyStr Lib.Urlenc Lib.Utf8 Lib.Qs Lib.MsgSchema Model.Msg Proofs.Qs_proofs.
Open Scope N_scope.

(* ------------------------------------------------------------------ generalities *)
Lemma str_in_false_notin a l : str_in a l = false -> ~ In a l.
Proof. intros H I. apply str_in_In in I. congruence. Qed.
Lemma nodup_str_NoDup l : nodup_str l = true -> NoDup l.
Proof.
  induction l as [|x r IH]; [constructor|]. cbn. intros H. apply andb_true_iff in H as [H1 H2].
  apply negb_true_iff in H1. constructor; [now apply str_in_false_notin|now apply IH].
Qed.

Lemma assoc_notin {V} k (l : list (pystr * V)) : ~ In k (List.map fst l) -> assoc k l = None.
Proof.
  induction l as [|[k' v] r IH]; [reflexivity|]. cbn. intros H.
  destruct (str_eqb k k') eqn:E; [apply str_eqb_eq in E; subst; tauto|]. apply IH. tauto.
Qed.
Lemma assoc_app {V} k (a b : list (pystr * V)) :
  assoc k (a ++ b) = match assoc k a with Some v => Some v | None => assoc k b end.
Proof. induction a as [|[k' v] r IH]; [reflexivity|]. cbn. destruct (str_eqb k k'); auto. Qed.
Lemma assoc_in_keys {V} k (l : list (pystr * V)) v : assoc k l = Some v -> In k (List.map fst l).
Proof.
  induction l as [|[k' v'] r IH]; [discriminate|]. cbn. destruct (str_eqb k k') eqn:E.
  - apply str_eqb_eq in E. subst. auto.
  - intros H. right. now apply IH.
Qed.
Lemma has_key_assoc {V} k (l : list (pystr * V)) : has_key k l = true -> exists v, assoc k l = Some v.
Proof. unfold has_key. destruct (assoc k l); [eauto|discriminate]. Qed.

(* storing a list of (key, value) in order: the last binding of a key wins; with distinct keys that
   is the only one *)
Definition store_all (l : msg) (init : msg) : msg := fold_left (fun acc kv => aset (fst kv) (snd kv) acc) l init.
Lemma store_all_assoc l init k :
  NoDup (List.map fst l) ->
  assoc k (store_all l init) = match assoc k l with Some v => Some v | None => assoc k init end.
Proof.
  revert init. induction l as [|[kx vx] r IH] using rev_ind; intros init ND; [reflexivity|].
  unfold store_all. rewrite fold_left_app. cbn [fold_left fst snd]. fold (store_all r init).
  rewrite map_app in ND. cbn in ND. apply NoDup_remove in ND as [ND Hnot]. rewrite app_nil_r in ND, Hnot.
  rewrite assoc_app. cbn [assoc].
  destruct (str_eqb k kx) eqn:E.
  - apply str_eqb_eq in E. subst kx. rewrite assoc_aset_same. now rewrite (assoc_notin k r Hnot).
  - assert (kx <> k) as Hne by (intro; subst; rewrite str_eqb_refl in E; discriminate).
    rewrite (assoc_aset_other kx k vx _ Hne). rewrite IH by exact ND. destruct (assoc k r); reflexivity.
Qed.

Lemma strs_map l : forallb is_str l = true -> List.map VStr (strs l) = l.
Proof.
  induction l as [|x r IH]; [reflexivity|]. cbn. intros H. apply andb_true_iff in H as [Hx Hr].
  destruct x; try discriminate. cbn. f_equal. exact (IH Hr).
Qed.
Lemma strs_of_map l : strs (List.map VStr l) = l.
Proof. induction l as [|x r IH]; [reflexivity|]. cbn. f_equal. exact IH. Qed.
Lemma is_str_no_obj l : forallb is_str l = true -> existsb is_obj l = false.
Proof.
  induction l as [|x r IH]; [reflexivity|]. cbn. intros H. apply andb_true_iff in H as [Hx Hr].
  rewrite (IH Hr). destruct x; try discriminate; reflexivity.
Qed.

(* the kinds of the modelled fragment *)
Lemma modelled_kind_inv p k : modelled_kind p = Some k ->
  p_null p = false /\
  match k with
  | KStr => p_ty p = PScalar TStr /\ p_ser p = SNone /\ p_deser p = DNone
  | KInt => p_ty p = PScalar TInt /\ p_ser p = SNone /\ p_deser p = DNone
  | KBool => p_ty p = PScalar TBool /\ p_ser p = SNone /\ p_deser p = DNone
  | KList => p_ty p = PList TStr /\ p_ser p = SList /\ p_deser p = DList
  | KSpSep => p_ty p = PList TStr /\ p_ser p = SSpSep /\ p_deser p = DSpSep
  end.
Proof.
  unfold modelled_kind. destruct p as [n t r s d nl]. cbn.
  destruct t as [t|t]; destruct t; try discriminate; destruct s; try discriminate;
    destruct d; try discriminate; destruct nl; try discriminate; intros H; inversion H; subst; auto.
Qed.

(* joining a valid list of str never gives the empty string, and splitting gives the list back *)
Lemma str_list_join_nonempty l : str_list_ok l = true -> join [sp] (strs l) <> [].
Proof.
  unfold str_list_ok. intros H. apply andb_true_iff in H as [Hs Hl].
  destruct l as [|x r]; [discriminate|]. destruct r as [|y r'].
  - cbn. destruct x; try discriminate. cbn. destruct s; [discriminate|congruence].
  - change (strs (x :: y :: r')) with (str_of x :: str_of y :: strs r').
    change (join [sp] (str_of x :: str_of y :: strs r')) with (str_of x ++ [sp] ++ join [sp] (str_of y :: strs r')).
    destruct (str_of x); discriminate.
Qed.
Lemma strs_nonnil l : l <> [] -> strs l <> [].
Proof. destruct l; [congruence|discriminate]. Qed.
Lemma forallb_strs (P : pystr -> bool) l : forallb (fun x => P (str_of x)) l = forallb P (strs l).
Proof. induction l as [|x r IH]; [reflexivity|]. cbn. f_equal. exact IH. Qed.
Lemma split_join_strs l :
  str_list_ok l = true -> forallb (fun x => no_space (str_of x)) l = true ->
  List.map VStr (split_c sp (join [sp] (strs l))) = l.
Proof.
  intros Hok Hns. unfold str_list_ok in Hok. apply andb_true_iff in Hok as [Hs Hl].
  rewrite split_c_join.
  - now apply strs_map.
  - apply strs_nonnil. destruct l; [discriminate|congruence].
  - rewrite <- forallb_strs. exact Hns.
Qed.

(* ================================================================== C10: dict round trip *)
(* one entry: to_dict's output for it, fed to from_dict, stores the original value again *)
Lemma entry_dict_roundtrip c k v :
  valid_entry c (k, v) = true ->
  exists v', to_dict_entry c (k, v) = Ok (k, v') /\ from_dict_step c k v' = Ok (Some v).
Proof.
  unfold valid_entry, to_dict_entry, from_dict_step. cbn [fst snd].
  destruct (lookup c k) as [p|] eqn:L.
  - destruct (modelled_kind p) as [kd|] eqn:K; [|discriminate].
    destruct (modelled_kind_inv p kd K) as [Hn Hk]. intros V.
    destruct kd; destruct Hk as (Ht & Hs & Hd); rewrite Hs; unfold valid_value in V.
    + (* str *) destruct v; try discriminate. destruct s as [|ch s]; [discriminate|].
      exists (VStr (ch :: s)). split; [reflexivity|]. cbn [is_blank].
      unfold add_value. cbv zeta. rewrite ?Hn, Ht, ?Hd. reflexivity.
    + (* int *) destruct v; try discriminate. exists (VInt z). split; [reflexivity|]. cbn [is_blank].
      unfold add_value. cbv zeta. rewrite ?Hn, Ht, ?Hd. reflexivity.
    + (* bool *) destruct v; try discriminate. exists (VBool b). split; [reflexivity|]. cbn [is_blank].
      unfold add_value. cbv zeta. rewrite ?Hn, Ht. reflexivity.
    + (* [str], list_serializer *)
      destruct v; try discriminate. unfold str_list_ok in V. apply andb_true_iff in V as [Vs Vl].
      exists (VList l). split.
      * cbn [ser_dict bind]. destruct l as [|x r]; [discriminate|]. destruct x; try discriminate. reflexivity.
      * assert (B : is_blank (VList l) = false).
        { destruct l as [|x r]; [discriminate|]. destruct x; try discriminate.
          destruct s; [destruct r; [discriminate|reflexivity]|reflexivity]. }
        rewrite B. unfold add_value. cbv zeta. rewrite ?Hn, Ht, ?Hd. cbn [negb].
        destruct l as [|x r]; [discriminate|]. destruct x; try discriminate.
        cbn [deser_dict wrap_decode bind]. rewrite (is_str_no_obj _ Vs), Vs. reflexivity.
    + (* [str], sp_sep_list_serializer *)
      destruct v; try discriminate. apply andb_true_iff in V as [Vok Vns].
      pose proof Vok as Vok'. unfold str_list_ok in Vok'. apply andb_true_iff in Vok' as [Vs Vl].
      exists (VStr (join [sp] (strs l))). split.
      * cbn [ser_dict]. rewrite (is_str_no_obj _ Vs), Vs. reflexivity.
      * pose proof (str_list_join_nonempty l Vok) as Hne.
        destruct (join [sp] (strs l)) as [|ch js] eqn:J; [congruence|]. cbn [is_blank].
        unfold add_value. cbv zeta. rewrite ?Hn, Ht, ?Hd. cbn [deser_dict wrap_decode bind].
        rewrite <- J. rewrite (split_join_strs l Vok Vns). reflexivity.
  - (* a parameter outside the schema *)
    unfold valid_extra. intros V. apply andb_true_iff in V as [V1 V2].
    apply negb_true_iff in V1, V2. exists v. cbn [ser_dict bind]. rewrite V1, V2. auto.
Qed.

Lemma to_dict_entries c m :
  forallb (valid_entry c) m = true ->
  exists d, map_res (to_dict_entry c) m = Ok d /\
            forall acc, from_dict_go c d acc = Ok (store_all m acc).
Proof.
  induction m as [|[k v] r IH]; intros V.
  - exists []. split; [reflexivity|]. reflexivity.
  - cbn [forallb] in V. apply andb_true_iff in V as [Vkv Vr].
    destruct (entry_dict_roundtrip c k v Vkv) as (v' & E1 & E2).
    destruct (IH Vr) as (d & D1 & D2).
    exists ((k, v') :: d). split.
    + cbn [map_res]. rewrite E1. cbn [bind]. fold (map_res (to_dict_entry c)). rewrite D1. reflexivity.
    + intros acc. cbn [from_dict_go]. rewrite E2. cbn [bind store]. rewrite D2. reflexivity.
Qed.

(* the message after the cycle has exactly the entries of the message before *)
Definition same_entries (a b : msg) : Prop := forall k, assoc k a = assoc k b.

Theorem dict_roundtrip c m :
  valid_msg c m = true ->
  exists d r, to_dict c m = Ok d /\ construct c d = Ok r /\ same_entries r m.
Proof.
  unfold valid_msg. intros V. apply andb_true_iff in V as [V Vdef]. apply andb_true_iff in V as [V Vnd].
  apply andb_true_iff in V as [Vstar Vent]. apply negb_true_iff in Vstar.
  destruct (to_dict_entries c m Vent) as (d & D1 & D2).
  exists d, (store_all m (c_default c)). unfold to_dict, construct, from_dict. rewrite Vstar.
  split; [exact D1|]. split; [apply D2|].
  intros k. rewrite store_all_assoc by (apply nodup_str_NoDup; exact Vnd).
  destruct (assoc k m) as [v|] eqn:A; [reflexivity|].
  destruct (assoc k (c_default c)) as [dv|] eqn:Ad; [|reflexivity]. exfalso.
  apply assoc_in_keys in Ad. apply in_map_iff in Ad as [[k' v'] [Ek Hin]]. cbn in Ek. subst k'.
  rewrite forallb_forall in Vdef. apply Vdef in Hin. cbn in Hin. apply has_key_assoc in Hin as [w Hw]. congruence.
Qed.
