(* Proofs/Msg_proofs.v — lemmas about Model/Msg.v, generic in the class schema (any `mclass`).
   The quantification over the regenerated table is done in Proofs/MsgTable_proofs.v. *)
From Coq Require Import String.
From Verif Require Import Lib.Base Lib.PyStr Lib.Urlenc Lib.Utf8 Lib.Qs Lib.MsgSchema Model.Msg Proofs.Qs_proofs.
Open Scope N_scope.

(* ------------------------------------------------------------------ generalities *)
Lemma str_in_false_notin a l : str_in a l = false -> ~ In a l.
Proof. intros H I. apply str_in_In in I. congruence. Qed.
Lemma nodup_str_NoDup l : nodup_str l = true -> NoDup l.
Proof.
  induction l as [|x r IH]; [constructor|]. cbn. intros H. apply andb_true_iff in H as [H1 H2].
  apply negb_true_iff in H1. constructor; [now apply str_in_false_notin|now apply IH].
Qed.

Lemma assoc_notin {V} k (l : list (pystr * V)) : ~ In k (List.map fst l) -> assoc k l = None.
Proof.
  induction l as [|[k' v] r IH]; [reflexivity|]. cbn. intros H.
  destruct (str_eqb k k') eqn:E; [apply str_eqb_eq in E; subst; tauto|]. apply IH. tauto.
Qed.
Lemma assoc_app {V} k (a b : list (pystr * V)) :
  assoc k (a ++ b) = match assoc k a with Some v => Some v | None => assoc k b end.
Proof. induction a as [|[k' v] r IH]; [reflexivity|]. cbn. destruct (str_eqb k k'); auto. Qed.
Lemma assoc_in_keys {V} k (l : list (pystr * V)) v : assoc k l = Some v -> In k (List.map fst l).
Proof.
  induction l as [|[k' v'] r IH]; [discriminate|]. cbn. destruct (str_eqb k k') eqn:E.
  - apply str_eqb_eq in E. subst. auto.
  - intros H. right. now apply IH.
Qed.
Lemma has_key_assoc {V} k (l : list (pystr * V)) : has_key k l = true -> exists v, assoc k l = Some v.
Proof. unfold has_key. destruct (assoc k l); [eauto|discriminate]. Qed.

(* storing a list of (key, value) in order: the last binding of a key wins; with distinct keys that
   is the only one *)
Definition store_all (l : msg) (init : msg) : msg := fold_left (fun acc kv => aset (fst kv) (snd kv) acc) l init.
Lemma store_all_assoc l init k :
  NoDup (List.map fst l) ->
  assoc k (store_all l init) = match assoc k l with Some v => Some v | None => assoc k init end.
Proof.
  revert init. induction l as [|[kx vx] r IH] using rev_ind; intros init ND; [reflexivity|].
  unfold store_all. rewrite fold_left_app. cbn [fold_left fst snd]. fold (store_all r init).
  rewrite map_app in ND. cbn in ND. apply NoDup_remove in ND as [ND Hnot]. rewrite app_nil_r in ND, Hnot.
  rewrite assoc_app. cbn [assoc].
  destruct (str_eqb k kx) eqn:E.
  - apply str_eqb_eq in E. subst kx. rewrite assoc_aset_same. now rewrite (assoc_notin k r Hnot).
  - assert (kx <> k) as Hne by (intro; subst; rewrite str_eqb_refl in E; discriminate).
    rewrite (assoc_aset_other kx k vx _ Hne). rewrite IH by exact ND. destruct (assoc k r); reflexivity.
Qed.

Lemma strs_map l : forallb is_str l = true -> List.map VStr (strs l) = l.
Proof.
  induction l as [|x r IH]; [reflexivity|]. cbn. intros H. apply andb_true_iff in H as [Hx Hr].
  destruct x; try discriminate. cbn. f_equal. exact (IH Hr).
Qed.
Lemma strs_of_map l : strs (List.map VStr l) = l.
Proof. induction l as [|x r IH]; [reflexivity|]. cbn. f_equal. exact IH. Qed.
Lemma is_str_no_obj l : forallb is_str l = true -> existsb is_obj l = false.
Proof.
  induction l as [|x r IH]; [reflexivity|]. cbn. intros H. apply andb_true_iff in H as [Hx Hr].
  rewrite (IH Hr). destruct x; try discriminate; reflexivity.
Qed.

(* the kinds of the modelled fragment *)
Lemma modelled_kind_inv p k : modelled_kind p = Some k ->
  p_null p = false /\
  match k with
  | KStr => p_ty p = PScalar TStr /\ p_ser p = SNone /\ p_deser p = DNone
  | KInt => p_ty p = PScalar TInt /\ p_ser p = SNone /\ p_deser p = DNone
  | KBool => p_ty p = PScalar TBool /\ p_ser p = SNone /\ p_deser p = DNone
  | KList => p_ty p = PList TStr /\ p_ser p = SList /\ p_deser p = DList
  | KSpSep => p_ty p = PList TStr /\ p_ser p = SSpSep /\ p_deser p = DSpSep
  end.
Proof.
  unfold modelled_kind. destruct p as [n t r s d nl]. cbn.
  destruct t as [t|t]; destruct t; try discriminate; destruct s; try discriminate;
    destruct d; try discriminate; destruct nl; try discriminate; intros H; inversion H; subst; auto.
Qed.

(* joining a valid list of str never gives the empty string, and splitting gives the list back *)
Lemma str_list_join_nonempty l : str_list_ok l = true -> join [sp] (strs l) <> [].
Proof.
  unfold str_list_ok. intros H. apply andb_true_iff in H as [Hs Hl].
  destruct l as [|x r]; [discriminate|]. destruct r as [|y r'].
  - cbn. destruct x; try discriminate. cbn. destruct s; [discriminate|congruence].
  - change (strs (x :: y :: r')) with (str_of x :: str_of y :: strs r').
    change (join [sp] (str_of x :: str_of y :: strs r')) with (str_of x ++ [sp] ++ join [sp] (str_of y :: strs r')).
    destruct (str_of x); discriminate.
Qed.
Lemma strs_nonnil l : l <> [] -> strs l <> [].
Proof. destruct l; [congruence|discriminate]. Qed.
Lemma forallb_strs (P : pystr -> bool) l : forallb (fun x => P (str_of x)) l = forallb P (strs l).
Proof. induction l as [|x r IH]; [reflexivity|]. cbn. f_equal. exact IH. Qed.
Lemma split_join_strs l :
  str_list_ok l = true -> forallb (fun x => no_space (str_of x)) l = true ->
  List.map VStr (split_c sp (join [sp] (strs l))) = l.
Proof.
  intros Hok Hns. unfold str_list_ok in Hok. apply andb_true_iff in Hok as [Hs Hl].
  rewrite split_c_join.
  - now apply strs_map.
  - apply strs_nonnil. destruct l; [discriminate|congruence].
  - rewrite <- forallb_strs. exact Hns.
Qed.

(* ================================================================== C10: dict round trip *)
(* one entry: to_dict's output for it, fed to from_dict, stores the original value again *)
Lemma entry_dict_roundtrip c k v :
  valid_entry c (k, v) = true ->
  exists v', to_dict_entry c (k, v) = Ok (k, v') /\ from_dict_step c k v' = Ok (Some v).
Proof.
  unfold valid_entry, to_dict_entry, from_dict_step. cbn [fst snd].
  destruct (lookup c k) as [p|] eqn:L.
  - destruct (modelled_kind p) as [kd|] eqn:K; [|discriminate].
    destruct (modelled_kind_inv p kd K) as [Hn Hk]. intros V.
    destruct kd; destruct Hk as (Ht & Hs & Hd); rewrite Hs; unfold valid_value in V.
    + (* str *) destruct v; try discriminate. destruct s as [|ch s]; [discriminate|].
      exists (VStr (ch :: s)). split; [reflexivity|]. cbn [is_blank].
      unfold add_value. cbv zeta. rewrite ?Hn, Ht, ?Hd. reflexivity.
    + (* int *) destruct v; try discriminate. exists (VInt z). split; [reflexivity|]. cbn [is_blank].
      unfold add_value. cbv zeta. rewrite ?Hn, Ht, ?Hd. reflexivity.
    + (* bool *) destruct v; try discriminate. exists (VBool b). split; [reflexivity|]. cbn [is_blank].
      unfold add_value. cbv zeta. rewrite ?Hn, Ht. reflexivity.
    + (* [str], list_serializer *)
      destruct v; try discriminate. unfold str_list_ok in V. apply andb_true_iff in V as [Vs Vl].
      exists (VList l). split.
      * cbn [ser_dict bind]. destruct l as [|x r]; [discriminate|]. destruct x; try discriminate. reflexivity.
      * assert (B : is_blank (VList l) = false).
        { destruct l as [|x r]; [discriminate|]. destruct x; try discriminate.
          destruct s; [destruct r; [discriminate|reflexivity]|reflexivity]. }
        rewrite B. unfold add_value. cbv zeta. rewrite ?Hn, Ht, ?Hd. cbn [negb].
        destruct l as [|x r]; [discriminate|]. destruct x; try discriminate.
        cbn [deser_dict wrap_decode bind]. rewrite (is_str_no_obj _ Vs), Vs. reflexivity.
    + (* [str], sp_sep_list_serializer *)
      destruct v; try discriminate. apply andb_true_iff in V as [Vok Vns].
      pose proof Vok as Vok'. unfold str_list_ok in Vok'. apply andb_true_iff in Vok' as [Vs Vl].
      exists (VStr (join [sp] (strs l))). split.
      * cbn [ser_dict]. rewrite (is_str_no_obj _ Vs), Vs. reflexivity.
      * pose proof (str_list_join_nonempty l Vok) as Hne.
        destruct (join [sp] (strs l)) as [|ch js] eqn:J; [congruence|]. cbn [is_blank].
        unfold add_value. cbv zeta. rewrite ?Hn, Ht, ?Hd. cbn [deser_dict wrap_decode bind].
        rewrite <- J. rewrite (split_join_strs l Vok Vns). reflexivity.
  - (* a parameter outside the schema *)
    unfold valid_extra. intros V. apply andb_true_iff in V as [V1 V2].
    apply negb_true_iff in V1, V2. exists v. cbn [ser_dict bind]. rewrite V1, V2. auto.
Qed.

Lemma to_dict_entries c m :
  forallb (valid_entry c) m = true ->
  exists d, map_res (to_dict_entry c) m = Ok d /\
            forall acc, from_dict_go c d acc = Ok (store_all m acc).
Proof.
  induction m as [|[k v] r IH]; intros V.
  - exists []. split; [reflexivity|]. reflexivity.
  - cbn [forallb] in V. apply andb_true_iff in V as [Vkv Vr].
    destruct (entry_dict_roundtrip c k v Vkv) as (v' & E1 & E2).
    destruct (IH Vr) as (d & D1 & D2).
    exists ((k, v') :: d). split.
    + cbn [map_res]. rewrite E1. cbn [bind]. fold (map_res (to_dict_entry c)). rewrite D1. reflexivity.
    + intros acc. cbn [from_dict_go]. rewrite E2. cbn [bind store]. rewrite D2. reflexivity.
Qed.

(* the message after the cycle has exactly the entries of the message before *)
Definition same_entries (a b : msg) : Prop := forall k, assoc k a = assoc k b.

Theorem dict_roundtrip c m :
  valid_msg c m = true ->
  exists d r, to_dict c m = Ok d /\ construct c d = Ok r /\ same_entries r m.
Proof.
  unfold valid_msg. intros V. apply andb_true_iff in V as [V Vdef]. apply andb_true_iff in V as [V Vnd].
  apply andb_true_iff in V as [Vstar Vent]. apply negb_true_iff in Vstar.
  destruct (to_dict_entries c m Vent) as (d & D1 & D2).
  exists d, (store_all m (c_default c)). unfold to_dict, construct, from_dict. rewrite Vstar.
  split; [exact D1|]. split; [apply D2|].
  intros k. rewrite store_all_assoc by (apply nodup_str_NoDup; exact Vnd).
  destruct (assoc k m) as [v|] eqn:A; [reflexivity|].
  destruct (assoc k (c_default c)) as [dv|] eqn:Ad; [|reflexivity]. exfalso.
  apply assoc_in_keys in Ad. apply in_map_iff in Ad as [[k' v'] [Ek Hin]]. cbn in Ek. subst k'.
  rewrite forallb_forall in Vdef. apply Vdef in Hin. cbn in Hin. apply has_key_assoc in Hin as [w Hw]. congruence.
Qed.

(* ================================================================== C11: the generic verify() *)
Lemma verify_param_ok c m p :
  verify_param c m p = Ok tt <->
  (str_eqb (p_name p) star || (required_ok m p && enumerated_ok c m p)) = true.
Proof.
  unfold verify_param, required_ok, enumerated_ok.
  destruct (str_eqb (p_name p) star); [cbn; tauto|]. cbn [orb].
  destruct (assoc (p_name p) m) as [v|].
  - destruct (negb (is_bool_ty (p_ty p)) && negb (py_truthy v)) eqn:E.
    + apply andb_true_iff in E as [E1 E2]. apply negb_true_iff in E1, E2. rewrite E1, E2. cbn [orb].
      destruct (p_req p); cbn; destruct (assoc (p_name p) (c_allowed c)); split; intros H; try reflexivity; discriminate.
    + assert (T : is_bool_ty (p_ty p) || py_truthy v = true).
      { apply andb_false_iff in E as [E|E]; apply negb_false_iff in E; rewrite E; [reflexivity|apply orb_true_r]. }
      rewrite T, orb_true_r. cbn [andb].
      destruct (assoc (p_name p) (c_allowed c)) as [al|]; [|tauto].
      destruct (type_check (p_ty p) al v (p_null p)); split; intros H; try reflexivity; discriminate.
  - destruct (p_req p); cbn; destruct (assoc (p_name p) (c_allowed c)); split; intros H; try reflexivity; discriminate.
Qed.

Lemma verify_params_ok c m ps :
  verify_params c m ps = Ok tt <->
  forallb (fun p => str_eqb (p_name p) star || (required_ok m p && enumerated_ok c m p)) ps = true.
Proof.
  induction ps as [|p r IH]; [cbn; tauto|]. cbn [verify_params forallb].
  rewrite andb_true_iff, <- IH, <- verify_param_ok.
  destruct (verify_param c m p) as [[]|e|]; cbn [bind]; split.
  - auto.
  - tauto.
  - discriminate.
  - intros [H _]. discriminate.
  - discriminate.
  - intros [H _]. discriminate.
Qed.

(* verify() succeeds exactly on the messages that satisfy the schema as the property reads it *)
Theorem generic_verify_iff c m : generic_verify c m = Ok tt <-> schema_ok c m = true.
Proof. apply verify_params_ok. Qed.

(* ... unfolded: what a successful verify guarantees for each declared parameter *)
Theorem generic_verify_sound c m p :
  generic_verify c m = Ok tt -> In p (c_params c) -> p_name p <> star ->
  (p_req p = true ->
     exists v, assoc (p_name p) m = Some v /\ (is_bool_ty (p_ty p) = true \/ py_truthy v = true))
  /\ (forall al v, assoc (p_name p) (c_allowed c) = Some al -> assoc (p_name p) m = Some v ->
        (is_bool_ty (p_ty p) = true \/ py_truthy v = true) ->
        type_check (p_ty p) al v (p_null p) = true).
Proof.
  intros H Hin Hne. apply generic_verify_iff in H. unfold schema_ok in H. rewrite forallb_forall in H.
  specialize (H p Hin). apply str_eqb_neq in Hne. rewrite Hne in H. cbn [orb] in H.
  apply andb_true_iff in H as [Hr He]. split.
  - intros Hq. unfold required_ok in Hr. rewrite Hq in Hr. cbn in Hr.
    destruct (assoc (p_name p) m) as [v|]; [|discriminate]. exists v. split; [reflexivity|].
    apply orb_true_iff in Hr. exact Hr.
  - intros al v Ha Hv Ht. unfold enumerated_ok in He. rewrite Ha, Hv in He.
    destruct (negb (is_bool_ty (p_ty p)) && negb (py_truthy v)) eqn:E; [|exact He].
    apply andb_true_iff in E as [E1 E2]. apply negb_true_iff in E1, E2. destruct Ht; congruence.
Qed.

(* enumerated values, spelled out for the three shapes _type_check distinguishes *)
Lemma type_check_scalar al v na :
  type_check (PScalar TStr) al v na = true -> py_in v al = true.
Proof. auto. Qed.
Lemma type_check_list t al items na :
  type_check (PList t) al (VList items) na = true -> forall i, In i items -> py_in i al = true.
Proof. cbn. intros H i Hi. rewrite forallb_forall in H. auto. Qed.

(* ================================================================== C11: typed slots *)
Lemma split_c_nonnil sep s : split_c sep s <> [].
Proof.
  induction s as [|c r IH]; cbn; [discriminate|]. destruct (c =? sep); [discriminate|].
  destruct (split_c sep r); [congruence|discriminate].
Qed.
Lemma join_split sep s : join [sep] (split_c sep s) = s.
Proof.
  induction s as [|c r IH]; [reflexivity|]. cbn [split_c].
  pose proof (split_c_nonnil sep r) as Hne.
  destruct (c =? sep) eqn:E.
  - apply N.eqb_eq in E. subst c. destruct (split_c sep r) as [|x xs] eqn:S; [congruence|].
    change (join [sep] ([] :: x :: xs)) with ([] ++ [sep] ++ join [sep] (x :: xs)). rewrite IH. reflexivity.
  - destruct (split_c sep r) as [|x xs] eqn:S; [congruence|]. cbn [cons_hd].
    destruct xs as [|y ys].
    + cbn in *. now rewrite IH.
    + change (join [sep] ((c :: x) :: y :: ys)) with ((c :: x) ++ [sep] ++ join [sep] (y :: ys)).
      change (join [sep] (x :: y :: ys)) with (x ++ [sep] ++ join [sep] (y :: ys)) in IH.
      rewrite <- IH. reflexivity.
Qed.
Lemma forallb_is_str_map l : forallb is_str (List.map VStr l) = true.
Proof. induction l; cbn; auto. Qed.
Lemma list_eqb_str_refl l : list_eqb str_eqb l l = true.
Proof. induction l as [|x r IH]; [reflexivity|]. cbn. now rewrite str_eqb_refl, IH. Qed.

Lemma checked_list_case l w :
  (if existsb is_obj l then Unmodelled
   else if forallb is_str l then Ok (Some (VList l)) else Err EDecode) = Ok (Some w) ->
  w = VList l /\ forallb is_str l = true.
Proof.
  destruct (existsb is_obj l); [discriminate|]. destruct (forallb is_str l); [|discriminate].
  intros H. inversion H. auto.
Qed.

Ltac inv_ok :=
  match goal with
  | H : Ok _ = Ok _ |- _ => inversion H; subst; clear H
  | H : Err _ = Ok _ |- _ => discriminate H
  | H : Unmodelled = Ok _ |- _ => discriminate H
  end.

(* what _add_value stores has the declared type and is the given value or a lossless coercion of
   it; the only other thing ever stored is None for None.  Guard: a dict given to a [str]
   parameter (slot_guard) - see add_value_typed_refuted. *)
Theorem add_value_typed p k v w :
  modelled_kind p = Some k -> slot_guard p v = true -> add_value p v = Ok (Some w) ->
  (v = VNone /\ w = VNone) \/ (has_type (p_ty p) w = true /\ (w = v \/ coerced p v w = true)).
Proof.
  intros K G A. destruct (modelled_kind_inv p k K) as [Hn Hk].
  unfold add_value in A. cbv zeta in A. unfold slot_guard in G. unfold coerced.
  destruct k; destruct Hk as (Ht & Hs & Hd); rewrite Hn, Ht, Hd in A; rewrite Ht in *; try rewrite Hd; cbn [negb] in A.
  - (* str *)
    destruct v as [| b | z | s | l | d | f]; cbn in A; try inv_ok; auto.
    destruct l as [|x r]; [inv_ok|]. destruct x; inv_ok.
  - (* int *)
    destruct v as [| b | z | s | l | d | f]; cbn in A; try inv_ok; auto.
    + destruct (py_int s) as [z|e|] eqn:P; inv_ok. right. split; [reflexivity|]. right. apply Z.eqb_refl.
    + destruct l as [|x r]; [inv_ok|]. destruct x; inv_ok.
  - (* bool *)
    destruct v as [| b | z | s | l | d | f]; cbn in A; try inv_ok; auto.
    destruct l as [|x r]; [inv_ok|]. destruct x; inv_ok.
  - (* [str] list_serializer *)
    destruct v as [| b | z | s | l | d | f]; cbn in A; try inv_ok; try discriminate.
    + right. split; [reflexivity|]. right. cbn. now rewrite str_eqb_refl.
    + destruct l as [|x r]; [inv_ok|].
      destruct x; try inv_ok; cbn -[existsb forallb] in A; apply checked_list_case in A as [-> F];
        right; split; auto.
  - (* [str] sp_sep_list_serializer *)
    destruct v as [| b | z | s | l | d | f]; cbn in A; try inv_ok; try discriminate.
    + right. split; [apply forallb_is_str_map|]. right. now rewrite strs_of_map, join_split, str_eqb_refl.
    + destruct l as [|x r]; [inv_ok|].
      destruct r as [|y r'].
      * destruct x; cbn in A; try inv_ok.
        rewrite (is_str_no_obj _ (forallb_is_str_map _)), forallb_is_str_map in A. inv_ok.
        right. split; [apply forallb_is_str_map|]. right. now rewrite strs_of_map, join_split, str_eqb_refl.
      * destruct x; try inv_ok; cbn -[existsb forallb] in A; apply checked_list_case in A as [-> F];
          right; split; auto.
Qed.

(* ================================================================== C11: oidc.AuthorizationRequest rules *)
Theorem authz_rules_iff nonce m :
  authz_lists_typed m = true -> (authz_rules nonce m = Ok tt <-> authz_ok nonce m = true).
Proof.
  unfold authz_lists_typed, authz_rules, authz_ok, has_key, list_has, list_len, is_list_or_absent.
  intros T. apply andb_true_iff in T as [T Tp]. apply andb_true_iff in T as [Tr Ts].
  destruct (assoc (PS "response_type") m) as [rt|]; [|cbn; split; discriminate].
  destruct rt as [| | | | rtl | |]; try discriminate. cbn [py_contains bind andb].
  destruct (existsb (fun i => py_eq (VStr (PS "id_token")) i) rtl) eqn:Eidt; cbn [implb].
  - destruct (assoc (PS "nonce") m) as [n|]; [|cbn; split; discriminate].
    destruct nonce as [x|].
    + destruct (py_eq n (VStr x)); [|cbn; split; discriminate]. cbn [bind andb].
      destruct (assoc (PS "scope") m) as [sc|]; [|cbn; split; discriminate].
      destruct sc as [| | | | scl | |]; try discriminate. cbn [py_contains bind].
      destruct (existsb (fun i => py_eq (VStr (PS "openid")) i) scl); [|cbn; split; discriminate]. cbn [negb andb].
      destruct (existsb (fun i => py_eq (VStr (PS "offline_access")) i) scl); cbn [implb];
        destruct (assoc (PS "prompt") m) as [pr|]; try (cbn; split; (discriminate || reflexivity));
        destruct pr as [| | | | prl | |]; try discriminate; cbn [py_contains py_len bind];
        destruct (existsb (fun i => py_eq (VStr (PS "consent")) i) prl); cbn [andb];
        destruct (existsb (fun i => py_eq (VStr (PS "none")) i) prl); cbn [andb negb];
        try destruct (Nat.ltb 1 (length prl)); cbn; split; intros H; try reflexivity; try discriminate.
    + cbn [bind andb].
      destruct (assoc (PS "scope") m) as [sc|]; [|cbn; split; discriminate].
      destruct sc as [| | | | scl | |]; try discriminate. cbn [py_contains bind].
      destruct (existsb (fun i => py_eq (VStr (PS "openid")) i) scl); [|cbn; split; discriminate]. cbn [negb andb].
      destruct (existsb (fun i => py_eq (VStr (PS "offline_access")) i) scl); cbn [implb];
        destruct (assoc (PS "prompt") m) as [pr|]; try (cbn; split; (discriminate || reflexivity));
        destruct pr as [| | | | prl | |]; try discriminate; cbn [py_contains py_len bind];
        destruct (existsb (fun i => py_eq (VStr (PS "consent")) i) prl); cbn [andb];
        destruct (existsb (fun i => py_eq (VStr (PS "none")) i) prl); cbn [andb negb];
        try destruct (Nat.ltb 1 (length prl)); cbn; split; intros H; try reflexivity; try discriminate.
  - cbn [bind andb].
    destruct (assoc (PS "scope") m) as [sc|]; [|cbn; split; discriminate].
    destruct sc as [| | | | scl | |]; try discriminate. cbn [py_contains bind].
    destruct (existsb (fun i => py_eq (VStr (PS "openid")) i) scl); [|cbn; split; discriminate]. cbn [negb andb].
    destruct (existsb (fun i => py_eq (VStr (PS "offline_access")) i) scl); cbn [implb];
      destruct (assoc (PS "prompt") m) as [pr|]; try (cbn; split; (discriminate || reflexivity));
      destruct pr as [| | | | prl | |]; try discriminate; cbn [py_contains py_len bind];
      destruct (existsb (fun i => py_eq (VStr (PS "consent")) i) prl); cbn [andb];
      destruct (existsb (fun i => py_eq (VStr (PS "none")) i) prl); cbn [andb negb];
      try destruct (Nat.ltb 1 (length prl)); cbn; split; intros H; try reflexivity; try discriminate.
Qed.

Lemma assoc_adel_other {V} k k' (m : list (pystr * V)) : k <> k' -> assoc k (adel k' m) = assoc k m.
Proof.
  intros Hne. induction m as [|[k2 v2] r IH]; [reflexivity|]. cbn.
  destruct (str_eqb k' k2) eqn:E.
  - apply str_eqb_eq in E. subst k2.
    assert (str_eqb k k' = false) as -> by (apply str_eqb_neq; exact Hne). reflexivity.
  - cbn. destruct (str_eqb k k2); auto.
Qed.
Lemma find_param_none k ps : find_param k ps = None -> forall p, In p ps -> p_name p <> k.
Proof.
  induction ps as [|q r IH]; [intros _ p []|]. cbn. destruct (str_eqb k (p_name q)) eqn:E; [discriminate|].
  intros H p [->|Hin]; [|now apply IH]. apply str_eqb_neq in E. congruence.
Qed.

(* the message as it stands after a successful oidc.AuthorizationRequest.verify() (no request
   object, no id_token_hint) satisfies the schema and the class's cross-parameter rules *)
Theorem authz_verify_sound c nonce m m' :
  find_param verified_request (c_params c) = None ->
  authz_verify c nonce m = Ok m' ->
  schema_ok c m' = true /\ authz_rules nonce m' = Ok tt.
Proof.
  intros Hv. unfold authz_verify.
  destruct (generic_verify c m) as [[]|e|] eqn:G; cbn [bind]; try discriminate.
  destruct (has_key (PS "request") (adel verified_request m) || has_key (PS "id_token_hint") (adel verified_request m)
            || has_key (PS "request_uri") (adel verified_request m));
    [discriminate|].
  destruct (authz_rules nonce (adel verified_request m)) as [[]|e|] eqn:R; cbn [bind]; try discriminate.
  intros H. inversion H; subst m'. split; [|exact R].
  apply generic_verify_iff in G. unfold schema_ok in *. rewrite forallb_forall in *.
  intros p Hin. specialize (G p Hin).
  pose proof (find_param_none _ _ Hv p Hin) as Hne.
  unfold required_ok, enumerated_ok in *. rewrite (assoc_adel_other (p_name p) verified_request m Hne). exact G.
Qed.

(* ================================================================== C10: form encoding round trip *)
From Coq Require Import Decimal DecimalPos.

Lemma uint_codes_scalar d : forallb is_scalar (uint_codes d) = true.
Proof. induction d; cbn; auto. Qed.
Lemma uint_codes_nonnil d : d <> Nil -> uint_codes d <> [].
Proof. destruct d; cbn; congruence. Qed.
Lemma str_of_int_ok z : nonempty (str_of_int z) = true /\ encodable (str_of_int z) = true.
Proof.
  unfold encodable. destruct z as [|p|p]; cbn [str_of_int].
  - split; reflexivity.
  - pose proof (uint_codes_nonnil _ (DecimalPos.Unsigned.to_uint_nonnil p)) as H.
    split; [destruct (uint_codes (Pos.to_uint p)); [congruence|reflexivity]|apply uint_codes_scalar].
  - split; [reflexivity|]. cbn. apply uint_codes_scalar.
Qed.

(* the text a value is sent as *)
Definition form_text (v : pyval) : pystr :=
  match v with
  | VStr s => s
  | VInt z => str_of_int z
  | VBool true => PS "True"
  | VBool false => PS "False"
  | VList l => join [sp] (strs l)
  | _ => []
  end.
Definition entry_no_space (c : mclass) (kv : pystr * pyval) : bool :=
  match lookup c (fst kv) with
  | Some p => match modelled_kind p, snd kv with
              | Some KList, VList l => forallb (fun x => no_space (str_of x)) l
              | _, _ => true
              end
  | None => true
  end.

Lemma nonempty_neq s : s <> [] -> nonempty s = true.
Proof. destruct s; [congruence|reflexivity]. Qed.

Lemma entry_form_roundtrip c k v :
  valid_entry c (k, v) = true -> form_entry c (k, v) = true -> entry_no_space c (k, v) = true ->
  entry_pairs c (k, v) = Ok [(k, form_text v)]
  /\ nonempty (form_text v) = true /\ encodable k = true /\ encodable (form_text v) = true
  /\ url_value c k [form_text v] = Ok (form_render v).
Proof.
  unfold valid_entry, form_entry, entry_no_space, entry_pairs, url_value. cbn [fst snd].
  intros V F S. apply andb_true_iff in F as [F Fx]. apply andb_true_iff in F as [Fk Fv].
  destruct (lookup c k) as [p|] eqn:L.
  - destruct (modelled_kind p) as [kd|] eqn:K; [|discriminate].
    destruct (modelled_kind_inv p kd K) as [Hn Hk].
    destruct kd; destruct Hk as (Ht & Hs & Hd); unfold valid_value in V; unfold render; rewrite Hs, Hn, Ht, Hd.
    + destruct v; try discriminate. cbn in *. repeat split; auto.
    + destruct v; try discriminate. cbn. destruct (str_of_int_ok z) as [A B]. repeat split; auto.
    + destruct v; try discriminate. destruct b; cbn; repeat split; auto.
    + destruct v; try discriminate. pose proof V as V'. unfold str_list_ok in V'. apply andb_true_iff in V' as [Vs Vl].
      rewrite (is_str_no_obj _ Vs), Vs. cbn [bind List.map form_text form_render fst hd deser_url].
      repeat split; auto.
      * apply nonempty_neq. now apply str_list_join_nonempty.
      * unfold encodable. apply join_forallb; [reflexivity|]. cbn in Fv. rewrite <- forallb_strs. exact Fv.
      * rewrite (split_join_strs l V S). reflexivity.
    + destruct v; try discriminate. apply andb_true_iff in V as [V Vns].
      pose proof V as V'. unfold str_list_ok in V'. apply andb_true_iff in V' as [Vs Vl].
      rewrite (is_str_no_obj _ Vs), Vs. cbn [bind List.map form_text form_render fst hd deser_url].
      repeat split; auto.
      * apply nonempty_neq. now apply str_list_join_nonempty.
      * unfold encodable. apply join_forallb; [reflexivity|]. cbn in Fv. rewrite <- forallb_strs. exact Fv.
      * rewrite (split_join_strs l V Vns). reflexivity.
  - unfold form_extra in Fx. unfold render.
    destruct v; try discriminate.
    + destruct b; cbn; repeat split; auto.
    + cbn. destruct (str_of_int_ok z) as [A B]. repeat split; auto.
    + cbn in *. repeat split; auto.
Qed.

Definition form_pairs (m : msg) : list (pystr * pystr) := List.map (fun kv => (fst kv, form_text (snd kv))) m.
Definition form_msg (m : msg) : msg := List.map (fun kv => (fst kv, form_render (snd kv))) m.

Lemma concat_singletons {A} (l : list A) : concat (List.map (fun x => [x]) l) = l.
Proof. induction l as [|x r IH]; [reflexivity|]. cbn. now rewrite IH. Qed.

Lemma form_entries c m :
  forallb (valid_entry c) m = true -> forallb (form_entry c) m = true -> forallb (entry_no_space c) m = true ->
  map_res (entry_pairs c) m = Ok (List.map (fun x => [x]) (form_pairs m))
  /\ forallb (fun kv => nonempty (snd kv)) (form_pairs m) = true
  /\ forallb (fun kv => encodable (fst kv) && encodable (snd kv)) (form_pairs m) = true
  /\ forall acc, from_url_go c (List.map (fun kv => (fst kv, [snd kv])) (form_pairs m)) acc = Ok (store_all (form_msg m) acc).
Proof.
  induction m as [|[k v] r IH]; intros V F S.
  - repeat split; reflexivity.
  - cbn [forallb] in V, F, S. apply andb_true_iff in V as [V Vr]. apply andb_true_iff in F as [F Fr].
    apply andb_true_iff in S as [S Sr].
    destruct (entry_form_roundtrip c k v V F S) as (E1 & E2 & E3 & E4 & E5).
    destruct (IH Vr Fr Sr) as (I1 & I2 & I3 & I4).
    repeat split.
    + cbn [map_res]. rewrite E1. cbn [bind]. fold (map_res (entry_pairs c)). rewrite I1. reflexivity.
    + cbn [form_pairs List.map forallb fst snd]. rewrite E2. exact I2.
    + cbn [form_pairs List.map forallb fst snd]. rewrite E3, E4. exact I3.
    + intros acc. cbn [form_pairs List.map fst snd from_url_go]. rewrite E5. cbn [bind].
      fold (form_pairs r). rewrite I4. reflexivity.
Qed.

Lemma encode_pairs_some l :
  forallb (fun kv => encodable (fst kv) && encodable (snd kv)) l = true -> exists fs, encode_pairs l = Some fs.
Proof.
  induction l as [|[k v] r IH]; [eexists; reflexivity|]. cbn [forallb fst snd]. intros H.
  apply andb_true_iff in H as [H Hr]. apply andb_true_iff in H as [Hk Hv].
  destruct (IH Hr) as [fs E]. cbn [encode_pairs]. unfold quote_str, utf8_encode. unfold encodable in Hk, Hv.
  rewrite Hk, Hv, E. cbn. eauto.
Qed.

Lemma group_add_fresh k v d : ~ In k (List.map fst d) -> group_add k v d = d ++ [(k, [v])].
Proof.
  induction d as [|[k' l] r IH]; [reflexivity|]. cbn. intros H.
  destruct (str_eqb k k') eqn:E; [apply str_eqb_eq in E; subst; tauto|]. rewrite IH by tauto. reflexivity.
Qed.
Lemma group_pairs_distinct l :
  NoDup (List.map fst l) -> group_pairs l = List.map (fun kv => (fst kv, [snd kv])) l.
Proof.
  unfold group_pairs.
  assert (G : forall l acc, NoDup (List.map fst acc ++ List.map fst l) ->
              fold_left (fun d kv => group_add (fst kv) (snd kv) d) l acc
              = acc ++ List.map (fun kv => (fst kv, [snd kv])) l).
  { induction l0 as [|[k v] r IH]; intros acc ND; [now rewrite app_nil_r|].
    cbn [fold_left fst snd List.map]. cbn [List.map fst] in ND.
    pose proof (NoDup_remove_2 _ _ _ ND) as Hnot.
    rewrite group_add_fresh by (intro I; apply Hnot; apply in_or_app; now left).
    rewrite IH.
    - rewrite <- app_assoc. reflexivity.
    - rewrite map_app. cbn [List.map fst]. rewrite <- app_assoc. exact ND. }
  intros ND. rewrite (G l []); [reflexivity|exact ND].
Qed.

Lemma form_pairs_keys m : List.map fst (form_pairs m) = keys m.
Proof. unfold form_pairs, keys. rewrite map_map. reflexivity. Qed.
Lemma form_msg_keys m : List.map fst (form_msg m) = keys m.
Proof. unfold form_msg, keys. rewrite map_map. reflexivity. Qed.
Lemma assoc_form_msg k m : assoc k (form_msg m) = option_map form_render (assoc k m).
Proof. induction m as [|[k' v] r IH]; [reflexivity|]. cbn. destruct (str_eqb k k'); auto. Qed.

(* after to_urlencoded / from_urlencoded every entry is the original one up to the textual
   rendering of int and bool *)
Definition form_entries_of (r m : msg) : Prop := forall k, assoc k r = option_map form_render (assoc k m).

Theorem urlencoded_roundtrip c m :
  valid_form c m = true -> list_elems_no_space c m = true ->
  exists t r, to_urlencoded c m = Ok t /\ from_urlencoded c t (c_default c) = Ok r /\ form_entries_of r m.
Proof.
  unfold valid_form, valid_msg. intros V S.
  apply andb_true_iff in V as [V Vreq]. apply andb_true_iff in V as [V Vform].
  apply andb_true_iff in V as [V Vdef]. apply andb_true_iff in V as [V Vnd].
  apply andb_true_iff in V as [Vstar Vent]. apply negb_true_iff in Vstar, Vreq.
  assert (S' : forallb (entry_no_space c) m = true) by exact S.
  destruct (form_entries c m Vent Vform S') as (P1 & P2 & P3 & P4).
  destruct (encode_pairs_some _ P3) as [fs Efs].
  pose proof (nodup_str_NoDup _ Vnd) as ND.
  set (t := join [amp] fs).
  assert (U : urlencode (form_pairs m) = Some t) by (unfold urlencode; now rewrite Efs).
  pose proof (parse_qsl_urlencode _ _ U P2) as PQ.
  exists t, (store_all (form_msg m) (c_default c)).
  unfold to_urlencoded, from_urlencoded, url_pairs. rewrite Vstar, Vreq, P1. cbn [bind]. rewrite concat_singletons, U.
  split; [reflexivity|]. unfold parse_qs. rewrite PQ. cbn [bind].
  rewrite group_pairs_distinct by (rewrite form_pairs_keys; exact ND).
  split.
  - destruct m as [|kv m'].
    + cbn in Efs. inversion Efs; subst fs. subst t. reflexivity.
    + destruct t; cbn [form_pairs List.map]; apply P4.
  - intros k. rewrite store_all_assoc by (rewrite form_msg_keys; exact ND).
    rewrite assoc_form_msg. destruct (assoc k m) as [v|] eqn:A; [reflexivity|]. cbn [option_map].
    destruct (assoc k (c_default c)) as [dv|] eqn:Ad; [|reflexivity]. exfalso.
    apply assoc_in_keys in Ad. apply in_map_iff in Ad as [[k' v'] [Ek Hin]]. cbn in Ek. subst k'.
    rewrite forallb_forall in Vdef. apply Vdef in Hin. cbn in Hin. apply has_key_assoc in Hin as [w Hw]. congruence.
Qed.

(* ================================================================== C10: nested messages *)
(* a nested message handed to its deserializer as the dict (or the JSON text) of the nested object comes back
   with exactly its entries: the JSON reading is tried first and succeeds *)
Theorem nested_dict_roundtrip c m f :
  valid_msg c m = true -> f <> WUrl ->
  exists d r, to_dict c m = Ok d /\ one_of c f (VDict d) = Ok r /\ same_entries r m.
Proof.
  intros V F. destruct (dict_roundtrip c m V) as (d & r & D & K & S).
  exists d, r. split; [exact D|]. split; [|exact S].
  assert (O : one_of_order f = [WJson; WUrl]) by (destruct f; [reflexivity|reflexivity|contradiction]).
  unfold one_of. rewrite O. cbn [try_formats deser_as]. rewrite K. reflexivity.
Qed.

(* ... and as form text under sformat = "urlencoded" (the guard of finding F17 as for top-level messages) *)
Theorem nested_form_roundtrip c m :
  valid_form c m = true -> list_elems_no_space c m = true ->
  exists t r, to_urlencoded c m = Ok t /\ one_of c WUrl (VStr t) = Ok r /\ form_entries_of r m.
Proof.
  intros V S. destruct (urlencoded_roundtrip c m V S) as (t & r & T & R & E).
  exists t, r. split; [exact T|]. split; [|exact E].
  unfold one_of. cbn [one_of_order try_formats deser_as]. rewrite R. reflexivity.
Qed.

(* ================================================================== C11: verify() with a request object *)
Lemma has_key_cons {V} k k' (v : V) r :
  has_key k ((k', v) :: r) = str_eqb k k' || has_key k r.
Proof. unfold has_key. cbn. destruct (str_eqb k k'); reflexivity. Qed.

Lemma keep_keys_has k ro m : has_key k (keep_keys ro m) = true -> has_key k ro = true.
Proof.
  induction m as [|[k' v'] r IH]; [discriminate|]. cbn [keep_keys List.filter fst].
  destruct (has_key k' ro) eqn:H.
  - rewrite has_key_cons. intros K. apply orb_true_iff in K as [K|K]; [|now apply IH].
    apply str_eqb_eq in K. now subst.
  - exact IH.
Qed.

Lemma msg_update_has k ro m : has_key k (msg_update ro m) = true -> has_key k ro = true \/ has_key k m = true.
Proof.
  revert m. induction ro as [|[k' v'] r IH]; intros m; [now right|]. cbn [msg_update fold_left fst snd].
  intros H. apply IH in H as [H|H].
  - left. rewrite has_key_cons, H. apply orb_true_r.
  - destruct (str_eqb k k') eqn:E.
    + left. rewrite has_key_cons, E. reflexivity.
    + right. unfold has_key in *. rewrite assoc_aset_other in H; [exact H|].
      intros ->. now rewrite str_eqb_refl in E.
Qed.

(* whatever the request object holds: an accepted message satisfies the schema as it stands afterwards *)
Theorem unpack_request_sound strict c roc payload m m' :
  unpack_request strict c roc payload m = Ok m' -> schema_ok c m' = true.
Proof.
  unfold unpack_request. destruct payload as [p|]; [|discriminate].
  destruct (construct roc p) as [ro|e|]; cbn [bind]; try discriminate.
  destruct (generic_verify c _) as [[]|e|] eqn:G; cbn [bind]; try discriminate.
  intros H. inversion H; subst. now apply generic_verify_iff.
Qed.
Theorem jar_verify_sound c roc payload m m' : jar_verify c roc payload m = Ok m' -> schema_ok c m' = true.
Proof.
  unfold jar_verify. destruct (has_key (PS "request") m); [apply unpack_request_sound|].
  destruct (has_key (PS "request_uri") m); [|discriminate].
  destruct (generic_verify c m) as [[]|e|] eqn:G; cbn [bind]; try discriminate.
  intros H. inversion H; subst. now apply generic_verify_iff.
Qed.
Theorem par_verify_sound c roc payload m m' : par_verify c roc payload m = Ok m' -> schema_ok c m' = true.
Proof.
  unfold par_verify. destruct (has_key (PS "request") m); [apply unpack_request_sound|].
  destruct (generic_verify c m) as [[]|e|] eqn:G; cbn [bind]; try discriminate.
  intros H. inversion H; subst. now apply generic_verify_iff.
Qed.

(* the strict merge keeps only what the request object carries: an accepted JWT-secured request has every
   required parameter INSIDE the signed object (a complete outer request does not make up for it) *)
Theorem jar_required_in_object c roc p m m' ro q :
  find_param verified_request (c_params c) = None ->
  has_key (PS "request") m = true -> jar_verify c roc (Some p) m = Ok m' -> construct roc p = Ok ro ->
  In q (c_params c) -> p_req q = true -> p_name q <> star -> has_key (p_name q) ro = true.
Proof.
  intros Hvr Hreq Hv Hro Hin Hq Hstar. unfold jar_verify in Hv. rewrite Hreq in Hv.
  unfold unpack_request in Hv. rewrite Hro in Hv. cbn [bind] in Hv.
  destruct (generic_verify c _) as [[]|e|] eqn:G; cbn [bind] in Hv; try discriminate.
  destruct (generic_verify_sound c _ q G Hin Hstar) as [R _]. destruct (R Hq) as (v & A & _).
  pose proof (find_param_none _ _ Hvr q Hin) as Hne.
  rewrite assoc_aset_other in A by congruence.
  assert (K : has_key (p_name q) (request_merge true ro m) = true) by (unfold has_key; now rewrite A).
  unfold request_merge in K. apply msg_update_has in K as [K|K]; [exact K|].
  now apply keep_keys_has in K.
Qed.

(* ================================================================== C11: embedded signed objects *)
(* with the caller naming the signing algorithm it expects (anything but "none"), an embedded object is
   accepted only if it carries a valid signature of the expected issuer made with that algorithm -
   encrypted to the verifier or not; bare JSON inside a JWE, alg none and forged signatures are refused,
   whatever the class's own rules say *)
Theorem embedded_verify_signed rules a lc t o :
  a <> [] -> a <> PS "none" -> embedded_verify rules (Some a) lc t = Ok o ->
  (signed_with a t \/ exists p, t = TJws SigNone a p \/ t = TJwe (TJws SigNone a p)).
Proof.
  intros Hne Hnone. unfold embedded_verify.
  assert (P : forall u alg p, open_plain u = Ok (Some alg, p) ->
              (u = TJws SigValid alg p \/ u = TJws SigNone alg p)).
  { intros u alg p. destruct u as [[| |] al q|q|i|]; cbn; intros H; inversion H; subst; auto. }
  assert (Q : forall u p, open_plain u = Ok (None, p) -> u = TJson p).
  { intros u p. destruct u as [[| |] al q|q|i|]; cbn; intros H; inversion H; subst; auto. }
  destruct (open_token t) as [[hdr p]|e|] eqn:O; cbn [bind fst snd]; try discriminate.
  destruct (construct lc p) as [o'|e|]; cbn [bind fst snd]; try discriminate.
  destruct (rules o') as [[]|e|]; cbn [bind]; try discriminate.
  destruct a as [|a0 ar]; [contradiction|].
  destruct hdr as [alg|]; cbn [alg_check bind]; [|discriminate].
  destruct (str_eqb alg (a0 :: ar)) eqn:E; cbn [bind]; [|discriminate]. apply str_eqb_eq in E. subst alg.
  intros _. destruct t as [s al q|q|i|]; cbn [open_token] in O.
  - destruct (P _ _ _ O) as [H|H]; inversion H; subst.
    + left. exists p. now left.
    + right. exists p. now left.
  - discriminate.
  - destruct (P _ _ _ O) as [H|H]; subst.
    + left. exists p. now right.
    + right. exists p. now right.
  - destruct (P _ _ _ O) as [H|H]; discriminate.
Qed.
(* a JWS whose header names the expected algorithm is not an alg-none JWS: the second alternative is empty
   for real tokens (alg none tokens carry alg "none"); stated for tokens whose SigNone header is "none" *)
Definition none_headers_ok (t : token) : Prop :=
  forall alg p, (t = TJws SigNone alg p \/ t = TJwe (TJws SigNone alg p)) -> alg = PS "none".
Theorem embedded_verify_only_signed rules a lc t o :
  a <> [] -> a <> PS "none" -> none_headers_ok t -> embedded_verify rules (Some a) lc t = Ok o -> signed_with a t.
Proof.
  intros Hne Hnone Hh H. destruct (embedded_verify_signed rules a lc t o Hne Hnone H) as [S|[p D]]; [exact S|].
  exfalso. apply Hnone. exact (Hh a p D).
Qed.
(* without the keyword the full statement is FALSE of the faithful model (the findings signed-object:alg-none and
   signed-object:jwe:bare-json of every class): unsigned JSON encrypted to the verifier's public key is accepted *)
Lemma embedded_verify_refuted lc p o :
  construct lc p = Ok o ->
  embedded_verify (fun _ => Ok tt) None lc (TJwe (TJson p)) = Ok o /\ ~ (exists a, signed_with a (TJwe (TJson p))).
Proof.
  intros C. split.
  - unfold embedded_verify. cbn [open_token open_plain bind fst snd]. rewrite C. reflexivity.
  - intros (a & q & [H|H]); discriminate.
Qed.
