(* Proofs/PkceRp_proofs.v — C15: after ANY history of the relying party's store, the verifier the token request carries
   for state s is the one drawn by the LATEST authorization request built under s; hence the provider accepts the pair of
   the latest request (flow of Model/Pkce.v, and the translated verify_code_challenge returns True). *)
From Coq Require Import List Bool Lia.
From Verif Require Import Lib.Base Lib.PyStr Lib.PkceTy Gen.PkceTables Model.Pkce Model.PkceRp Proofs.Pkce_proofs.
From Verif Require Lib.PyOps Gen.Src_pkce Proofs.Src_refine_pkce.
Import ListNotations.
Open Scope N_scope.

(* ---- association lists *)
Lemma assoc_aset {V} (k k' : pystr) (v : V) d :
  assoc k' (aset k v d) = if str_eqb k' k then Some v else assoc k' d.
Proof.
  destruct (str_eqb k' k) eqn:E.
  - apply str_eqb_eq in E. subst. apply assoc_aset_same.
  - apply assoc_aset_other. apply str_eqb_neq in E. congruence.
Qed.

Lemma dupdate_absent k cur info : assoc k info = None -> assoc k (dupdate cur info) = assoc k cur.
Proof.
  revert cur. induction info as [|[k' v'] r IH]; intros cur H; cbn in *; [reflexivity|].
  destruct (str_eqb k k') eqn:E; [discriminate|].
  rewrite IH by exact H. rewrite assoc_aset, E. reflexivity.
Qed.

Lemma filter_absent (k : pystr) (f : pystr * pystr -> bool) info : assoc k info = None -> assoc k (filter f info) = None.
Proof.
  induction info as [|[k' v'] r IH]; cbn; [reflexivity|].
  destruct (str_eqb k k') eqn:E; [discriminate|]. intro H.
  destruct (f (k', v')); cbn; [rewrite E|]; auto.
Qed.

Lemma nonce_guard_absent k cur info : assoc k info = None -> assoc k (nonce_guard cur info) = None.
Proof.
  intro H. unfold nonce_guard.
  destruct (assoc kv_nonce cur); [|exact H].
  destruct (assoc kv_nonce info); [|exact H].
  destruct (str_eqb _ _); [exact H|]. now apply filter_absent.
Qed.

Lemma nonce_guard_no_nonce cur info : assoc kv_nonce info = None -> nonce_guard cur info = info.
Proof. intro H. unfold nonce_guard. rewrite H. now destruct (assoc kv_nonce cur). Qed.

(* ---- the verifier held under a state *)
Definition ver (st : cstore) (s : pystr) : option pystr :=
  match assoc s st with Some r => assoc kv_verifier r | None => None end.

Lemma ver_update_other st key info s : s <> key -> ver (cur_update st key info) s = ver st s.
Proof.
  intro Hne. unfold ver, cur_update.
  destruct (assoc key st); rewrite assoc_aset;
    (assert (str_eqb s key = false) as -> by now apply str_eqb_neq); reflexivity.
Qed.

Lemma ver_set_other st key info s : s <> key -> ver (cur_set st key info) s = ver st s.
Proof.
  intro Hne. unfold ver, cur_set. rewrite assoc_aset.
  assert (str_eqb s key = false) as -> by now apply str_eqb_neq. reflexivity.
Qed.

(* storing members none of which is called code_verifier leaves the verifier alone *)
Lemma ver_update_absent st s info : assoc kv_verifier info = None -> ver (cur_update st s info) s = ver st s.
Proof.
  intro H. unfold ver, cur_update. destruct (assoc s st) as [cur|] eqn:E; rewrite assoc_aset, str_eqb_refl.
  - rewrite dupdate_absent; [reflexivity|]. now apply nonce_guard_absent.
  - exact H.
Qed.

(* what add_code_challenge stores *)
Lemma ver_update_item st s v m : ver (cur_update st s [(kv_verifier, v); (kv_method, m)]) s = Some v.
Proof.
  unfold ver, cur_update. destruct (assoc s st) as [cur|] eqn:E; rewrite assoc_aset, str_eqb_refl.
  - rewrite nonce_guard_no_nonce by reflexivity. cbn [dupdate].
    rewrite assoc_aset. change (str_eqb kv_verifier kv_method) with false. cbv iota. apply assoc_aset_same.
  - reflexivity.
Qed.

Lemma ver_sent st s v : ver st s = Some v -> rp_sent st s = Ok (Some v).
Proof.
  unfold ver, rp_sent, cur_get. destruct (assoc s st) as [[|x r]|]; cbn [bind]; try discriminate.
  intro H. rewrite H. reflexivity.
Qed.

Section Hist.
  Variable HB : N -> pystr -> pystr.

  (* a successful begin under s: whatever the record held (OAuth2: updated; OIDC: reset first), it now holds the verifier
     this begin drew *)
  Lemma ver_begin st oidc s m v iss others c m' :
    rp_make HB m v = Ok (c, m') -> assoc kv_verifier others = None ->
    ver (fst (rp_begin HB st oidc s m v iss others)) s = Some v.
  Proof.
    intros Hm Ho. unfold rp_begin. rewrite Hm. cbn [fst].
    rewrite ver_update_absent.
    - apply ver_update_item.
    - clear -Ho. induction others as [|[k x] r IH]; [reflexivity|].
      cbn [app assoc] in *. destruct (str_eqb kv_verifier k); [discriminate|auto].
  Qed.

  Lemma ver_begin_other st oidc s' m v iss others s :
    s <> s' -> ver (fst (rp_begin HB st oidc s' m v iss others)) s = ver st s.
  Proof.
    intro Hne. unfold rp_begin.
    assert (H1 : ver (if oidc then cur_set st s' [(kv_iss, iss)] else st) s = ver st s)
      by (destruct oidc; [now apply ver_set_other|reflexivity]).
    destruct (rp_make HB m v) as [[c m']| |]; cbn [fst]; try exact H1.
    now rewrite !ver_update_other.
  Qed.

  (* steps that leave the verifier under s alone: anything under another state, and stores under s whose members are not
     called code_verifier (a response: code, state, iss, client_id, scope, ...) *)
  Definition quiet (s : pystr) (o : rp_op) : Prop :=
    match o with
    | RpBegin _ s' _ _ _ _ => s <> s'
    | RpStore s' members => s <> s' \/ assoc kv_verifier members = None
    end.

  Lemma ver_quiet st s o : quiet s o -> ver (rp_step HB st o) s = ver st s.
  Proof.
    destruct o as [oidc s' m v iss others|s' members]; cbn [quiet rp_step].
    - apply ver_begin_other.
    - intros [Hne|Ha]; [now apply ver_update_other|].
      destruct (str_eqb s s') eqn:E.
      + apply str_eqb_eq in E. subst. now apply ver_update_absent.
      + apply ver_update_other. now apply str_eqb_neq.
  Qed.

  Lemma ver_run_quiet ops st s : Forall (quiet s) ops -> ver (rp_run HB st ops) s = ver st s.
  Proof.
    revert st. induction ops as [|o r IH]; intros st H; cbn; [reflexivity|].
    inversion H; subst. rewrite IH by assumption. now apply ver_quiet.
  Qed.

  Lemma rp_run_app st a b : rp_run HB st (a ++ b) = rp_run HB (rp_run HB st a) b.
  Proof. revert st. induction a as [|o r IH]; intro st; cbn; [reflexivity|apply IH]. Qed.

  (* THE LATEST BEGIN WINS: any store, any earlier history (begins under the same state included), a successful begin
     under s, then anything that is not another begin under s: the token request for s carries the verifier of that begin *)
  Theorem latest_begin_sent st0 before after oidc s m v iss others c m' :
    rp_make HB m v = Ok (c, m') -> assoc kv_verifier others = None -> Forall (quiet s) after ->
    rp_sent (rp_run HB st0 (before ++ RpBegin oidc s m v iss others :: after)) s = Ok (Some v).
  Proof.
    intros Hm Ho Hq. apply ver_sent. rewrite rp_run_app. cbn [rp_run].
    rewrite ver_run_quiet by exact Hq. cbn [rp_step]. eapply ver_begin; eauto.
  Qed.

  Corollary latest_begin_token_verifier st0 before after oidc s m v iss others c m' :
    rp_make HB m v = Ok (c, m') -> assoc kv_verifier others = None -> Forall (quiet s) after ->
    rp_token_verifier (rp_run HB st0 (before ++ RpBegin oidc s m v iss others :: after)) s = Some v.
  Proof. intros. unfold rp_token_verifier. erewrite latest_begin_sent; eauto. Qed.

  (* ... and this library's provider accepts the pair of the latest request *)
  Theorem latest_pair_accepted :
    (forall n x, HB n x <> []) ->
    forall cf ce tccm st0 before after oidc s m v iss others c m',
    rp_make HB m v = Ok (c, m') -> v <> [] -> In m' (pc_methods cf) ->
    assoc kv_verifier others = None -> Forall (quiet s) after ->
    flow HB cf ce (Some c) (Some m')
         (rp_token_verifier (rp_run HB st0 (before ++ RpBegin oidc s m v iss others :: after)) s) tccm = Tokens.
  Proof.
    intros Hne cf ce tccm st0 before after oidc s m v iss others c m' Hm Hv Hin Ho Hq.
    erewrite latest_begin_token_verifier by eauto. eapply rp_op_agree; eauto.
  Qed.

  (* the code of an EARLIER request under the same state: the provider decides it on the verifier of the latest one *)
  Theorem earlier_code_decided_on_latest_verifier cf ce tccm st0 before after oidc s m v iss others c m' c1 m1 :
    rp_make HB m v = Ok (c, m') -> assoc kv_verifier others = None -> Forall (quiet s) after ->
    flow HB cf ce c1 m1 (rp_token_verifier (rp_run HB st0 (before ++ RpBegin oidc s m v iss others :: after)) s) tccm
    = flow HB cf ce c1 m1 (Some v) tccm.
  Proof. intros. erewrite latest_begin_token_verifier by eauto. reflexivity. Qed.

  (* the source function itself (Gen/Src_pkce.v, translated on every run) returns True on the latest pair *)
  Theorem latest_pair_verify_code_challenge st0 before after oidc s m v iss others c m' clock :
    rp_make HB m v = Ok (c, m') -> assoc kv_verifier others = None -> Forall (quiet s) after ->
    exists v', rp_token_verifier (rp_run HB st0 (before ++ RpBegin oidc s m v iss others :: after)) s = Some v'
      /\ Src_pkce.verify_code_challenge_src (Src_refine_pkce.cc_method_env HB) (VStr v') (VStr c) (VStr m') clock
         = Ok (VBool true).
  Proof.
    intros Hm Ho Hq. exists v. split; [eapply latest_begin_token_verifier; eauto|].
    rewrite Src_refine_pkce.verify_code_challenge_refines.
    apply rp_make_ok in Hm as (bits & Ha & Hasc & -> & _).
    apply client_method_on_server in Ha as [_ Hs]. rewrite Hs. cbn. rewrite Hasc. cbn.
    now rewrite str_eqb_refl.
  Qed.

  (* a failed begin (method the RP has no transform for): OAuth2 leaves the store as it was, OIDC has reset the record *)
  Lemma failed_begin_store st oidc s m v iss others e :
    rp_make HB m v = Err e ->
    rp_step HB st (RpBegin oidc s m v iss others) = if oidc then cur_set st s [(kv_iss, iss)] else st.
  Proof. intro H. cbn. unfold rp_begin. now rewrite H. Qed.
End Hist.

(* ---- why the order of writes matters: a store whose update keeps the FIRST code_verifier of a record (a guard like the
   one for `nonce`, extended to code_verifier) sends a stale verifier after the second begin of an OAuth2 relying party *)
Definition first_kept_update (st : cstore) (key : pystr) (info : crec) : cstore :=
  match assoc key st with
  | None => aset key info st
  | Some cur =>
      let info' := match assoc kv_verifier cur with
                   | Some _ => filter (fun kv => negb (str_eqb (fst kv) kv_verifier)) info
                   | None => info
                   end in
      aset key (dupdate cur (nonce_guard cur info')) st
  end.
