(* Proofs/Pkce_proofs.v — lemmas about Model/Pkce.v (property C15). *)
From Verif Require Import Lib.Base Lib.PyStr Lib.PkceTy Gen.PkceTables Model.Pkce.
Open Scope N_scope.

(* ---------------------------------------------------------------- small facts *)
Lemma norm_some x c : norm x = Some c -> x = Some c /\ c <> [].
Proof. destruct x as [[|a r]|]; cbn; intro H; inversion H; subst; split; congruence. Qed.
Lemma norm_none x : norm x = None -> x = None \/ x = Some [].
Proof. destruct x as [[|a r]|]; cbn; intro H; auto; discriminate. Qed.
Lemma norm_of_nonempty v : v <> [] -> norm (Some v) = Some v.
Proof. destruct v; [congruence|reflexivity]. Qed.
Lemma norm_idem x : norm (norm x) = norm x.
Proof. destruct x as [[|a r]|]; reflexivity. Qed.

Lemma assoc_In {V} k (d : list (pystr * V)) v : assoc k d = Some v -> In (k, v) d.
Proof.
  induction d as [|[k' v'] r IH]; cbn; [discriminate|].
  destruct (str_eqb k k') eqn:E.
  - intro H; inversion H; subst. apply str_eqb_eq in E; subst. now left.
  - intro H. right. now apply IH.
Qed.

Lemma unreserved_ascii v : unreserved_s v = true -> is_ascii v = true.
Proof.
  unfold unreserved_s, is_ascii. rewrite !forallb_forall. intros H c Hc. specialize (H c Hc).
  unfold unreserved_c in H. apply N.ltb_lt.
  repeat match goal with
  | H : _ || _ = true |- _ => apply orb_true_iff in H as [H|H]
  | H : _ && _ = true |- _ => apply andb_true_iff in H as [? H]
  | H : (_ <=? _) = true |- _ => apply N.leb_le in H
  | H : (_ =? _) = true |- _ => apply N.eqb_eq in H
  end; lia.
Qed.

(* ---------------------------------------------------------------- facts about the regenerated tables
   (re-checked by the kernel against what /repo/src says on this run) *)
Definition tables_agree : bool :=
  forallb (fun mb : pystr * N =>
             match fst mb with [] => false | _ =>
               match assoc (fst mb) server_cc_methods with
               | Some (TrSha b) => snd mb =? b
               | _ => false
               end
             end) client_cc_methods.
Lemma tables_agree_true : tables_agree = true.
Proof. vm_compute. reflexivity. Qed.

Lemma client_method_on_server m bits :
  assoc m client_cc_methods = Some bits -> m <> [] /\ assoc m server_cc_methods = Some (TrSha bits).
Proof.
  intro H. apply assoc_In in H. pose proof tables_agree_true as T. unfold tables_agree in T.
  rewrite forallb_forall in T. specialize (T _ H). cbn [fst snd] in T.
  destruct m as [|a r]; [discriminate|]. split; [congruence|].
  destruct (assoc (a :: r) server_cc_methods) as [[|b]|]; try discriminate.
  apply N.eqb_eq in T. now subst.
Qed.

Lemma client_default_supported : has_key client_default_method client_cc_methods = true.
Proof. vm_compute. reflexivity. Qed.

(* the provider's default method names an entry of its own table *)
Lemma server_default_known : has_key server_default_method server_cc_methods = true.
Proof. vm_compute. reflexivity. Qed.

(* ---------------------------------------------------------------- the authorization leg *)
Lemma authn_leg_ok cf ce cc ccm st :
  authn_leg cf ce cc ccm = Ok st ->
  st = (norm cc, recorded_method ccm)
  /\ (forall c, norm cc = Some c -> In (recorded_method ccm) (pc_methods cf))
  /\ (essential_eff (pc_essential cf) ce = true -> norm cc <> None).
Proof.
  unfold authn_leg. destruct (norm cc) as [c|] eqn:Ec.
  - rewrite andb_false_r.
    destruct (str_in (recorded_method ccm) (pc_methods cf)) eqn:Ein; cbn [negb]; [|discriminate].
    intro H; inversion H; subst. repeat split.
    + intros c' _. now apply str_in_In.
    + intros _. discriminate.
  - rewrite andb_true_r. destruct (essential_eff (pc_essential cf) ce) eqn:Ee; [discriminate|].
    intro H; inversion H; subst. repeat split; intros; discriminate.
Qed.

Lemma authn_leg_missing cf ce cc ccm :
  essential_eff (pc_essential cf) ce = true -> norm cc = None -> authn_leg cf ce cc ccm = Err (Refused 1).
Proof. intros He Hc. unfold authn_leg. rewrite Hc, He. reflexivity. Qed.

Lemma authn_leg_unsupported cf ce cc ccm c :
  norm cc = Some c -> ~ In (recorded_method ccm) (pc_methods cf) -> authn_leg cf ce cc ccm = Err (Refused 2).
Proof.
  intros Hc Hn. unfold authn_leg. rewrite Hc, andb_false_r.
  destruct (str_in (recorded_method ccm) (pc_methods cf)) eqn:E; [apply str_in_In in E; contradiction|reflexivity].
Qed.

Lemma authn_leg_accepts cf ce cc ccm :
  (essential_eff (pc_essential cf) ce = true -> norm cc <> None) ->
  (forall c, norm cc = Some c -> In (recorded_method ccm) (pc_methods cf)) ->
  authn_leg cf ce cc ccm = Ok (norm cc, recorded_method ccm).
Proof.
  intros He Hm. unfold authn_leg. destruct (norm cc) as [c|] eqn:Ec.
  - rewrite andb_false_r. assert (In (recorded_method ccm) (pc_methods cf)) as Hin by (eapply Hm; eauto).
    apply str_in_In in Hin. rewrite Hin. reflexivity.
  - rewrite andb_true_r. destruct (essential_eff (pc_essential cf) ce); [exfalso; now apply He|reflexivity].
Qed.

Lemma essential_table :
  essential_eff true None = true /\ essential_eff false None = false
  /\ essential_eff true (Some false) = false /\ essential_eff false (Some true) = true
  /\ essential_eff true (Some true) = true /\ essential_eff false (Some false) = false.
Proof. repeat split. Qed.

Section P.
  Variable HB : N -> pystr -> pystr.

  (* ---------------------------------------------------------------- the token leg *)
  Lemma token_leg_ok_iff c m cv t :
    token_leg HB (Some c, m) cv t = Ok tt
    <-> exists v k, norm cv = Some v /\ assoc m server_cc_methods = Some k /\ tr HB k v = Ok c.
  Proof.
    unfold token_leg. cbn [fst snd]. split.
    - destruct (norm cv) as [v|]; [|discriminate].
      destruct (assoc m server_cc_methods) as [k|]; [|discriminate].
      destruct (tr HB k v) as [x|e|] eqn:Et; cbn [bind]; try discriminate.
      destruct (str_eqb x c) eqn:Ex; [|discriminate]. apply str_eqb_eq in Ex. subst. intros _.
      exists v, k. auto.
    - intros (v & k & Hv & Hk & Ht). rewrite Hv, Hk, Ht. cbn [bind]. now rewrite str_eqb_refl.
  Qed.

  Lemma token_leg_nochallenge m cv t : token_leg HB (None, m) cv t = Ok tt.
  Proof. reflexivity. Qed.

  Lemma token_leg_tccm_ignored st cv t1 t2 : token_leg HB st cv t1 = token_leg HB st cv t2.
  Proof. reflexivity. Qed.

  (* ---------------------------------------------------------------- whole flow *)
  Lemma flow_tokens cf ce cc ccm cv t :
    flow HB cf ce cc ccm cv t = Tokens ->
    authn_leg cf ce cc ccm = Ok (norm cc, recorded_method ccm)
    /\ token_leg HB (norm cc, recorded_method ccm) cv t = Ok tt.
  Proof.
    unfold flow. destruct (authn_leg cf ce cc ccm) as [st|e|] eqn:Ea.
    - destruct (authn_leg_ok _ _ _ _ _ Ea) as (-> & _ & _).
      destruct (token_leg HB (norm cc, recorded_method ccm) cv t) as [[]|e|] eqn:Et; try discriminate; auto.
      destruct e; discriminate.
    - destruct e; discriminate.
    - discriminate.
  Qed.

  Lemma bound cf ce cc ccm cv t c :
    norm cc = Some c -> flow HB cf ce cc ccm cv t = Tokens ->
    exists v k, norm cv = Some v /\ assoc (recorded_method ccm) server_cc_methods = Some k /\ tr HB k v = Ok c.
  Proof.
    intros Hc Hf. apply flow_tokens in Hf as [_ Ht]. rewrite Hc in Ht. now apply token_leg_ok_iff in Ht.
  Qed.

  Lemma tokens_iff cf ce cc ccm cv t :
    flow HB cf ce cc ccm cv t = Tokens <->
    authn_leg cf ce cc ccm = Ok (norm cc, recorded_method ccm)
    /\ (norm cc = None \/
        exists c v k, norm cc = Some c /\ norm cv = Some v
                      /\ assoc (recorded_method ccm) server_cc_methods = Some k /\ tr HB k v = Ok c).
  Proof.
    split.
    - intro Hf. pose proof (flow_tokens _ _ _ _ _ _ Hf) as [Ha Ht]. split; [exact Ha|].
      destruct (norm cc) as [c|] eqn:Ec; [right|now left].
      apply token_leg_ok_iff in Ht as (v & k & ? & ? & ?). exists c, v, k. auto.
    - intros [Ha Hb]. unfold flow. rewrite Ha. destruct Hb as [Hn|(c & v & k & Hc & Hv & Hk & Ht)].
      + rewrite Hn. reflexivity.
      + rewrite Hc. assert (token_leg HB (Some c, recorded_method ccm) cv t = Ok tt) as ->; [|reflexivity].
        apply token_leg_ok_iff. exists v, k. auto.
  Qed.

  Lemma missing_verifier_refused cf ce cc ccm cv t c :
    norm cc = Some c -> norm cv = None ->
    flow HB cf ce cc ccm cv t = AzRefused 2 \/ flow HB cf ce cc ccm cv t = TkRefused 3.
  Proof.
    intros Hc Hv. unfold flow, authn_leg. rewrite Hc, andb_false_r.
    destruct (str_in (recorded_method ccm) (pc_methods cf)); cbn [negb]; [right|now left].
    unfold token_leg. cbn [fst snd]. rewrite Hv. reflexivity.
  Qed.

  Lemma wrong_verifier_refused cf ce cc ccm cv t c v :
    norm cc = Some c -> norm cv = Some v ->
    (forall k, assoc (recorded_method ccm) server_cc_methods = Some k -> tr HB k v <> Ok c) ->
    flow HB cf ce cc ccm cv t <> Tokens.
  Proof.
    intros Hc Hv Hw Hf. destruct (bound _ _ _ _ _ _ _ Hc Hf) as (v' & k & Hv' & Hk & Ht).
    rewrite Hv in Hv'. inversion Hv'; subst. exact (Hw _ Hk Ht).
  Qed.

  Lemma essential_refuses cf ce cc ccm cv t :
    essential_eff (pc_essential cf) ce = true ->
    (norm cc = None -> flow HB cf ce cc ccm cv t = AzRefused 1)
    /\ (forall c, norm cc = Some c -> ~ In (recorded_method ccm) (pc_methods cf) ->
                  flow HB cf ce cc ccm cv t = AzRefused 2).
  Proof.
    intros He. split.
    - intro Hc. unfold flow. now rewrite authn_leg_missing.
    - intros c Hc Hn. unfold flow. now rewrite (authn_leg_unsupported _ _ _ _ _ Hc Hn).
  Qed.

  Lemma unsupported_refused_always cf ce cc ccm cv t c :
    norm cc = Some c -> ~ In (recorded_method ccm) (pc_methods cf) -> flow HB cf ce cc ccm cv t = AzRefused 2.
  Proof. intros Hc Hn. unfold flow. now rewrite (authn_leg_unsupported _ _ _ _ _ Hc Hn). Qed.

  Lemma not_essential_no_challenge cf ce cc ccm cv t :
    essential_eff (pc_essential cf) ce = false -> norm cc = None -> flow HB cf ce cc ccm cv t = Tokens.
  Proof.
    intros He Hc. apply tokens_iff. split; [|now left].
    apply authn_leg_accepts; [rewrite He; discriminate|intros c E; congruence].
  Qed.

  Lemma flow_tccm_ignored cf ce cc ccm cv t1 t2 : flow HB cf ce cc ccm cv t1 = flow HB cf ce cc ccm cv t2.
  Proof. reflexivity. Qed.

  (* a valid configuration never reaches the KeyError branch: the recorded method of a stored challenge is
     a configured one, and configured ones are keys of CC_METHOD *)
  Lemma no_keyerror cf ce cc ccm cv t :
    conf_valid cf = true -> flow HB cf ce cc ccm cv t <> TkRaised KeyError.
  Proof.
    intros Hv. unfold flow. destruct (authn_leg cf ce cc ccm) as [st|e|] eqn:Ea; [|destruct e; discriminate|discriminate].
    destruct (authn_leg_ok _ _ _ _ _ Ea) as (-> & Hin & _).
    unfold token_leg. cbn [fst snd]. destruct (norm cc) as [c|] eqn:Ec; [|discriminate].
    destruct (norm cv) as [v|]; [|discriminate].
    specialize (Hin c eq_refl). unfold conf_valid in Hv. rewrite forallb_forall in Hv. specialize (Hv _ Hin).
    unfold has_key in Hv. destruct (assoc (recorded_method ccm) server_cc_methods) as [k|]; [|discriminate].
    destruct (tr HB k v) as [x|e|] eqn:Et; cbn [bind]; try discriminate.
    - destruct (str_eqb x c); discriminate.
    - destruct k; cbn in Et; [discriminate|]. destruct (is_ascii v); inversion Et; subst. discriminate.
  Qed.

  (* ---------------------------------------------------------------- near misses need an injective hash *)
  Section Inj.
    Hypothesis HB_inj : forall n v v', HB n v = HB n v' -> v = v'.

    Lemma tr_inj k v v' c : tr HB k v = Ok c -> tr HB k v' = Ok c -> v = v'.
    Proof.
      destruct k as [|n]; cbn.
      - intros H1 H2. inversion H1; inversion H2; congruence.
      - destruct (is_ascii v); [|discriminate]. destruct (is_ascii v'); [|discriminate].
        intros H1 H2. inversion H1; inversion H2; subst. eapply HB_inj; eauto.
    Qed.

    Lemma near_miss cf ce cc ccm t c v v' :
      norm cc = Some c -> flow HB cf ce cc ccm (Some v) t = Tokens -> v' <> v ->
      flow HB cf ce cc ccm (Some v') t <> Tokens.
    Proof.
      intros Hc Hf Hne Hf'.
      destruct (bound _ _ _ _ _ _ _ Hc Hf) as (w & k & Hw & Hk & Ht).
      destruct (bound _ _ _ _ _ _ _ Hc Hf') as (w' & k' & Hw' & Hk' & Ht').
      apply norm_some in Hw as [Hw _]. apply norm_some in Hw' as [Hw' _].
      inversion Hw; inversion Hw'; subst. rewrite Hk in Hk'. inversion Hk'; subst.
      apply Hne. eapply tr_inj; eauto.
    Qed.
  End Inj.

  (* ---------------------------------------------------------------- relying party against provider *)
  Section Agree.
    Hypothesis HB_nonempty : forall n v, HB n v <> [].

    Lemma rp_make_ok rpm v c m :
      rp_make HB rpm v = Ok (c, m) ->
      exists bits, assoc m client_cc_methods = Some bits /\ is_ascii v = true /\ c = HB bits v
                   /\ m = match rpm with Some x => x | None => client_default_method end.
    Proof.
      unfold rp_make. set (m0 := match rpm with Some x => x | None => client_default_method end).
      destruct (assoc m0 client_cc_methods) as [bits|] eqn:Ea; [|discriminate].
      destruct (is_ascii v) eqn:Ev; [|discriminate]. intro H; inversion H; subst.
      exists bits. auto.
    Qed.

    Lemma rp_op_agree cf ce rpm v c m t :
      rp_make HB rpm v = Ok (c, m) -> v <> [] -> In m (pc_methods cf) ->
      flow HB cf ce (Some c) (Some m) (Some v) t = Tokens.
    Proof.
      intros Hrp Hv Hin. apply rp_make_ok in Hrp as (bits & Ha & Hasc & -> & _).
      apply client_method_on_server in Ha as [Hm Hs].
      assert (Hc : norm (Some (HB bits v)) = Some (HB bits v)) by (apply norm_of_nonempty, HB_nonempty).
      assert (Hr : recorded_method (Some m) = m) by (unfold recorded_method; now rewrite norm_of_nonempty).
      apply tokens_iff. rewrite Hc, Hr. split.
      - rewrite <- Hr at 2. rewrite <- Hc at 2. apply authn_leg_accepts.
        + rewrite Hc. discriminate.
        + intros c' _. now rewrite Hr.
      - right. exists (HB bits v), v, (TrSha bits). repeat split; auto.
        + now apply norm_of_nonempty.
        + cbn. now rewrite Hasc.
    Qed.

    Lemma rp_total rpm v :
      is_ascii v = true -> (exists c m, rp_make HB rpm v = Ok (c, m)) \/ rp_make HB rpm v = Err (Refused 5).
    Proof.
      intro Hv. unfold rp_make.
      destruct (assoc match rpm with Some m => m | None => client_default_method end client_cc_methods);
        [left; rewrite Hv; eauto|now right].
    Qed.

    Lemma rp_total_unreserved rpm v :
      unreserved_s v = true ->
      (exists c m, rp_make HB rpm v = Ok (c, m)) \/ rp_make HB rpm v = Err (Refused 5).
    Proof. intro H. apply rp_total. now apply unreserved_ascii. Qed.

    Lemma rp_default_starts v : is_ascii v = true -> exists c, rp_make HB None v = Ok (c, client_default_method).
    Proof.
      intro Hv. unfold rp_make. pose proof client_default_supported as H. unfold has_key in H.
      destruct (assoc client_default_method client_cc_methods); [|discriminate]. rewrite Hv. eauto.
    Qed.

    (* the guard v <> [] is necessary: a relying party configured with code_challenge_length = 0 draws the
       empty verifier; Message drops the empty code_verifier; the provider then misses it *)
    Lemma rp_op_empty_verifier_refused cf ce rpm c m t :
      rp_make HB rpm [] = Ok (c, m) -> In m (pc_methods cf) ->
      flow HB cf ce (Some c) (Some m) (Some []) t = TkRefused 3.
    Proof.
      intros Hrp Hin. apply rp_make_ok in Hrp as (bits & Ha & _ & -> & _).
      apply client_method_on_server in Ha as [Hm Hs].
      assert (Hc : norm (Some (HB bits [])) = Some (HB bits [])) by (apply norm_of_nonempty, HB_nonempty).
      assert (Hr : recorded_method (Some m) = m) by (unfold recorded_method; now rewrite norm_of_nonempty).
      unfold flow.
      assert (authn_leg cf ce (Some (HB bits [])) (Some m) = Ok (norm (Some (HB bits [])), recorded_method (Some m))) as ->.
      { apply authn_leg_accepts; [rewrite Hc; discriminate|intros; now rewrite Hr]. }
      rewrite Hc. reflexivity.
    Qed.
  End Agree.
End P.
